#!/bin/bash
# usage: show.sh File.v LINE  -- compile up to LINE and show the goal there
f=$1; n=$2
head -n $n $f > /tmp/_show_$$.v
echo "Show. Abort." >> /tmp/_show_$$.v
cd $(dirname $f)
coqtop -Q /verif/coq/theories NTRIP -Q /verif/coq/gen NTRIPGen -batch -l /tmp/_show_$$.v 2>&1 | tail -${3:-40}
rm -f /tmp/_show_$$.v

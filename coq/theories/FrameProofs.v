(* FrameProofs.v - proofs about the framing state machine:
   losslessness (C02), termination within fuel and absence of panics (C07, framing part),
   only valid frames are typed (C01). *)
From NTRIP Require Import Base Bits BitsProofs Crc CrcProofs Time Classify Frame FrameSpec.
From NTRIPGen Require Import GenConsts.
From Coq Require Import ZifyN ZifyNat ZifyBool.
Open Scope N_scope.

Definition unread (s : pstate) : list N := pb s ++ rest s.
Definition pb_ok (s : pstate) : Prop := pb s = [] \/ pb s = [D3].

(* ---------- eat ---------- *)

Lemma eat_list_spec : forall l acc acc' l' e,
  eat_list l acc = (acc', l', e) ->
  rev acc' ++ l' = rev acc ++ l /\
  (e = true -> l' = [] /\ exists k, acc' = k ++ acc /\ no_d3b k = true) /\
  (e = false -> exists k, acc' = D3 :: k ++ acc /\ no_d3b k = true).
Proof.
  induction l as [|b l IH]; intros acc acc' l' e H; cbn [eat_list] in H.
  - injection H as <- <- <-. rewrite !app_nil_r. split; [reflexivity|]. split.
    + intros _. split; [reflexivity|]. exists []. split; reflexivity.
    + discriminate.
  - destruct (b =? D3) eqn:E.
    + injection H as <- <- <-. apply N.eqb_eq in E. subst b. split.
      * cbn [rev]. rewrite <- app_assoc. reflexivity.
      * split; [discriminate|]. intros _. exists []. split; reflexivity.
    + apply IH in H. destruct H as (H1 & H2 & H3). split.
      * rewrite H1. cbn [rev]. rewrite <- app_assoc. reflexivity.
      * assert (Hb : negb (b =? 211) = true) by (change 211 with D3; rewrite E; reflexivity).
        split; intros He.
        -- destruct (H2 He) as (-> & k & -> & Hk). split; [reflexivity|].
           exists (k ++ [b]). rewrite <- app_assoc. split; [reflexivity|].
           unfold no_d3b in *. rewrite forallb_app, Hk. cbn. rewrite Hb. reflexivity.
        -- destruct (H3 He) as (k & -> & Hk). exists (k ++ [b]). rewrite <- app_assoc.
           split; [reflexivity|]. unfold no_d3b in *. rewrite forallb_app, Hk. cbn. rewrite Hb. reflexivity.
Qed.

Lemma no_d3b_rev k : no_d3b (rev k) = no_d3b k.
Proof.
  unfold no_d3b. induction k as [|a k IH]; [reflexivity|].
  cbn [rev]. rewrite forallb_app, IH. cbn. rewrite andb_true_r. apply andb_comm.
Qed.

Lemma eat_spec s fr s1 e : pb_ok s -> eat s = (fr, s1, e) ->
  fr ++ unread s1 = unread s /\ pb s1 = [] /\
  (e = true -> rest s1 = [] /\ no_d3b fr = true) /\
  (e = false -> exists p, fr = p ++ [D3] /\ no_d3b p = true).
Proof.
  intros Hpb H. unfold eat in H. unfold unread.
  destruct Hpb as [Hp|Hp]; rewrite Hp in *.
  - cbn [eat_list] in H.
    destruct (eat_list (rest s) []) as [[acc2 rest'] e2] eqn:E2.
    injection H as <- <- <-. cbn [pb rest]. apply eat_list_spec in E2.
    destruct E2 as (H1 & H2 & H3). cbn [rev app] in H1. split; [exact H1|]. split; [reflexivity|]. split.
    + intros He. destruct (H2 He) as (-> & k & -> & Hk). split; [reflexivity|].
      rewrite app_nil_r, no_d3b_rev. exact Hk.
    + intros He. destruct (H3 He) as (k & -> & Hk). rewrite app_nil_r.
      exists (rev k). cbn [rev]. split; [reflexivity|]. rewrite no_d3b_rev. exact Hk.
  - cbn [eat_list] in H. change (D3 =? D3) with true in H. cbv iota in H.
    injection H as <- <- <-. cbn [pb rest rev app]. split; [reflexivity|]. split; [reflexivity|]. split.
    + discriminate.
    + intros _. exists []. split; reflexivity.
Qed.

(* ---------- read_n ---------- *)

Lemma read_n_spec : forall n s frame frame' s' ok, pb s = [] ->
  read_n n s frame = (frame', s', ok) ->
  frame' ++ unread s' = frame ++ unread s /\ pb s' = [] /\
  (ok = true -> length frame' = (length frame + n)%nat) /\
  (ok = false -> unread s' = [] /\ (length frame' < length frame + n)%nat) /\
  (exists x, frame' = frame ++ x).
Proof.
  induction n as [|n IH]; intros s frame frame' s' ok Hp H; cbn [read_n] in H.
  - injection H as <- <- <-. split; [reflexivity|]. split; [exact Hp|]. split; [intros _; lia|].
    split; [discriminate|]. exists []. rewrite app_nil_r. reflexivity.
  - unfold next_byte in H. rewrite Hp in H. destruct (rest s) as [|b r] eqn:Er.
    + injection H as <- <- <-. unfold unread. rewrite Er. split; [reflexivity|]. split; [exact Hp|].
      split; [discriminate|]. split; [intros _; split; [rewrite Hp; reflexivity|lia]|]. exists []. rewrite app_nil_r. reflexivity.
    + apply IH in H; [|reflexivity]. destruct H as (H1 & H2 & H3 & H4 & [x Hx]).
      unfold unread in *. cbn [pb rest] in *. rewrite Hp, Er. cbn [app] in *.
      split; [rewrite H1, <- app_assoc; reflexivity|]. split; [exact H2|]. split.
      * intros Hok. rewrite (H3 Hok), app_length. cbn [length]. lia.
      * split.
        -- intros Hok. destruct (H4 Hok) as [Ha Hb]. split; [exact Ha|]. rewrite app_length in Hb. cbn [length] in Hb. lia.
        -- exists (b :: x). rewrite Hx, <- app_assoc. reflexivity.
Qed.

(* ---------- getMessageLengthAndType / GetMessage ---------- *)

Lemma get_len_type_no_panic b : get_len_type b <> inl Panic /\ forall e, get_len_type b <> inl (Err e).
Proof.
  unfold get_len_type.
  destruct (Nat.ltb_spec (length b) (N.to_nat LeaderLengthBytes + 2)) as [Hl|Hl].
  - split; [discriminate|intros; discriminate].
  - destruct b as [|b0 b']; [split; [discriminate|intros; discriminate]|].
    destruct (negb (b0 =? D3)); [split; [discriminate|intros; discriminate]|].
    change (N.to_nat LeaderLengthBytes + 2)%nat with 5%nat in Hl.
    destruct (get_u_in_range (b0 :: b') 8 6) as [v1 ->]; [lia|].
    destruct (get_u_in_range (b0 :: b') 14 10) as [v2 ->]; [lia|].
    destruct (get_u_in_range (b0 :: b') 24 12) as [v3 ->]; [lia|].
    destruct (negb (v1 =? 0)); [split; [discriminate|intros; discriminate]|].
    destruct (v2 =? 0); split; try discriminate; intros; discriminate.
Qed.

Lemma get_len_type_ok b len ty : get_len_type b = inl (Ok (len, ty)) ->
  (5 <= length b)%nat /\ nth_error b 0 = Some D3 /\
  get_u b 8 6 = Ok 0 /\ get_u b 14 10 = Ok len /\ len <> 0 /\
  exists t, get_u b 24 12 = Ok t /\ ty = Z.of_N t.
Proof.
  unfold get_len_type.
  destruct (Nat.ltb_spec (length b) (N.to_nat LeaderLengthBytes + 2)) as [Hl|Hl]; [discriminate|].
  change (N.to_nat LeaderLengthBytes + 2)%nat with 5%nat in Hl.
  destruct b as [|b0 b']; [discriminate|].
  destruct (b0 =? D3) eqn:E0; cbn [negb]; [|discriminate].
  destruct (get_u (b0 :: b') 8 6) as [v1| |]; try discriminate.
  destruct (get_u (b0 :: b') 14 10) as [v2| |]; try discriminate.
  destruct (get_u (b0 :: b') 24 12) as [v3| |]; try discriminate.
  destruct (v1 =? 0) eqn:E1; cbn [negb]; [|discriminate].
  destruct (v2 =? 0) eqn:E2; [discriminate|].
  intros H. injection H as <- <-. apply N.eqb_eq in E0, E1. apply N.eqb_neq in E2. subst.
  repeat split; try assumption. exists v3. split; reflexivity.
Qed.

Lemma time_no_panic h ty ts : fst (time_from_timestamp h ty ts) <> Panic.
Proof.
  unfold time_from_timestamp, utc_from_timestamp, parse_glonass.
  destruct (constellation_of ty) as [[| | |]|]; cbn;
    repeat match goal with |- context [if ?c then _ else _] => destruct c end; cbn; discriminate.
Qed.

(* GetMessage is total: it never panics and never fails in the model's own sense *)
Lemma get_message_total h b : exists r, get_message h b = Ok r.
Proof.
  unfold get_message. destruct b as [|b0 b']; [eexists; reflexivity|].
  destruct (negb (b0 =? D3)); [eexists; reflexivity|].
  destruct (get_len_type (b0 :: b')) as [[[len ty]|e|]|[ty e]] eqn:E.
  - destruct (Nat.ltb_spec (length (b0 :: b')) (N.to_nat (len + LeaderLengthBytes + CRCLengthBytes))) as [Hl|Hl];
      [eexists; reflexivity|].
    destruct (check_crc _); [eexists; reflexivity|].
    destruct (msmb ty); [|eexists; reflexivity].
    destruct (N.ltb_spec ((len + LeaderLengthBytes) * 8) (hnd_timestampPosition + hdr_LenTimeStamp)) as [Hs|Hs];
      [eexists; reflexivity|].
    destruct (get_u_in_range (b0 :: b') (N.to_nat hnd_timestampPosition) (N.to_nat hdr_LenTimeStamp)) as [ts Hts].
    { change LeaderLengthBytes with 3 in *. change CRCLengthBytes with 3 in *.
      change hnd_timestampPosition with 48 in *. change hdr_LenTimeStamp with 30 in *. lia. }
    rewrite Hts. cbn [bind].
    pose proof (time_no_panic h ty ts) as Hn.
    destruct (time_from_timestamp h ty ts) as [t h']. cbn [fst] in Hn.
    destruct t; [eexists; reflexivity|eexists; reflexivity|congruence].
  - exfalso. exact (proj2 (get_len_type_no_panic _) e E).
  - exfalso. exact (proj1 (get_len_type_no_panic _) E).
  - eexists; reflexivity.
Qed.

(* every message GetMessage returns holds the bytes it was given, or the frame prefix *)
Lemma get_message_raw h b m h' : get_message h b = Ok (Some m, h') ->
  raw m = b \/ exists len ty, get_len_type b = inl (Ok (len, ty)) /\
    raw m = firstn (N.to_nat (len + LeaderLengthBytes + CRCLengthBytes)) b /\
    (N.to_nat (len + LeaderLengthBytes + CRCLengthBytes) <= length b)%nat.
Proof.
  unfold get_message. destruct b as [|b0 b']; [discriminate|].
  destruct (negb (b0 =? D3)); [intros H; injection H as <- <-; left; reflexivity|].
  destruct (get_len_type (b0 :: b')) as [[[len ty]|e|]|[ty e]] eqn:E; try discriminate.
  - destruct (Nat.ltb_spec (length (b0 :: b')) (N.to_nat (len + LeaderLengthBytes + CRCLengthBytes))) as [Hl|Hl].
    { intros H; injection H as <- <-; left; reflexivity. }
    destruct (check_crc _); [intros H; injection H as <- <-; left; reflexivity|].
    assert (R : forall m0 : msg, raw m0 = firstn (N.to_nat (len + LeaderLengthBytes + CRCLengthBytes)) (b0 :: b') ->
             raw m0 = b0 :: b' \/ exists len0 ty0, inl (Ok (len, ty)) = @inl _ (Z * err) (Ok (len0, ty0)) /\
               raw m0 = firstn (N.to_nat (len0 + LeaderLengthBytes + CRCLengthBytes)) (b0 :: b') /\
               (N.to_nat (len0 + LeaderLengthBytes + CRCLengthBytes) <= length (b0 :: b'))%nat).
    { intros m0 Hm. right. exists len, ty. split; [reflexivity|]. split; [exact Hm|exact Hl]. }
    destruct (msmb ty).
    + destruct (_ <? _).
      * intros H; injection H as <- <-. apply R. reflexivity.
      * destruct (get_u _ _ _) as [ts| |]; cbn [bind]; try discriminate.
        destruct (time_from_timestamp h ty ts) as [t h''].
        destruct t; try discriminate; intros H; injection H as <- <-; apply R; reflexivity.
    + intros H; injection H as <- <-. apply R. reflexivity.
  - intros H; injection H as <- <-; left; reflexivity.
Qed.

Lemma get_message_typed h b m h' : get_message h b = Ok (Some m, h') -> (0 <= mtype m)%Z ->
  (exists e, get_len_type b = inr (mtype m, e) /\ merr m = Some e /\ raw m = b) \/
  (exists len, get_len_type b = inl (Ok (len, mtype m)) /\
     (N.to_nat (len + LeaderLengthBytes + CRCLengthBytes) <= length b)%nat /\
     check_crc (firstn (N.to_nat (len + LeaderLengthBytes + CRCLengthBytes)) b) = None /\
     raw m = firstn (N.to_nat (len + LeaderLengthBytes + CRCLengthBytes)) b).
Proof.
  unfold get_message. destruct b as [|b0 b']; [discriminate|].
  destruct (negb (b0 =? D3)).
  { intros H; injection H as <- <-. cbn. change NonRTCMMessage with (-1)%Z. lia. }
  destruct (get_len_type (b0 :: b')) as [[[len ty]|e|]|[ty e]] eqn:E; try discriminate.
  - destruct (Nat.ltb_spec (length (b0 :: b')) (N.to_nat (len + LeaderLengthBytes + CRCLengthBytes))) as [Hl|Hl].
    { intros H; injection H as <- <-. cbn. change NonRTCMMessage with (-1)%Z. lia. }
    destruct (check_crc _) eqn:EC.
    { intros H; injection H as <- <-. cbn. change NonRTCMMessage with (-1)%Z. lia. }
    assert (R : forall m0 : msg, mtype m0 = ty ->
               raw m0 = firstn (N.to_nat (len + LeaderLengthBytes + CRCLengthBytes)) (b0 :: b') ->
      (exists e, @inl _ (Z * err) (Ok (len, ty)) = inr (mtype m0, e) /\ merr m0 = Some e /\ raw m0 = b0 :: b') \/
      (exists len0, @inl _ (Z * err) (Ok (len, ty)) = inl (Ok (len0, mtype m0)) /\
         (N.to_nat (len0 + LeaderLengthBytes + CRCLengthBytes) <= length (b0 :: b'))%nat /\
         check_crc (firstn (N.to_nat (len0 + LeaderLengthBytes + CRCLengthBytes)) (b0 :: b')) = None /\
         raw m0 = firstn (N.to_nat (len0 + LeaderLengthBytes + CRCLengthBytes)) (b0 :: b'))).
    { intros m0 Ht Hm. right. exists len. rewrite Ht. repeat split; assumption. }
    destruct (msmb ty).
    + destruct (_ <? _).
      * intros H _; injection H as <- <-. apply R; reflexivity.
      * destruct (get_u _ _ _) as [ts| |]; cbn [bind]; try discriminate.
        destruct (time_from_timestamp h ty ts) as [t h''].
        destruct t; try discriminate; intros H _; injection H as <- <-; apply R; reflexivity.
    + intros H _; injection H as <- <-. apply R; reflexivity.
  - intros H _; injection H as <- <-. left. exists e. cbn. repeat split; reflexivity.
Qed.

Lemma get_message_none h b h' : get_message h b = Ok (None, h') -> b = [].
Proof.
  unfold get_message. destruct b as [|b0 b']; [reflexivity|]. intros H. exfalso. revert H.
  destruct (negb (b0 =? D3)); [discriminate|].
  destruct (get_len_type (b0 :: b')) as [[[len ty]|e|]|[ty e]] eqn:E; try discriminate.
  destruct (Nat.ltb_spec (length (b0 :: b')) (N.to_nat (len + LeaderLengthBytes + CRCLengthBytes))) as [Hl|Hl];
    [discriminate|].
  destruct (check_crc _); [discriminate|].
  destruct (msmb ty); [|discriminate].
  destruct (_ <? _); [discriminate|].
  destruct (get_u _ _ _) as [ts| |]; cbn [bind]; try discriminate.
  destruct (time_from_timestamp h ty ts) as [t h''].
  destruct t; discriminate.
Qed.

(* ---------- FetchNextMessageFrame ---------- *)

Lemma get_u_app_l b x pos len : (len <= 64)%nat -> (pos + len <= 8 * length b)%nat ->
  get_u (b ++ x) pos len = get_u b pos len.
Proof.
  intros Hl Hr. rewrite !get_u_spec; try lia.
  - rewrite bits_of_app, slice_app_l by (rewrite bits_of_length; lia). reflexivity.
  - rewrite app_length. lia.
Qed.

Lemma get_len_type_prefix b x : (5 <= length b)%nat -> get_len_type (b ++ x) = get_len_type b.
Proof.
  intros Hl. unfold get_len_type. change (N.to_nat LeaderLengthBytes + 2)%nat with 5%nat.
  destruct (Nat.ltb_spec (length (b ++ x)) 5) as [C|_]; [rewrite app_length in C; lia|].
  destruct (Nat.ltb_spec (length b) 5) as [C|_]; [lia|].
  destruct b as [|b0 b']; [cbn in Hl; lia|]. cbn [app].
  change (b0 :: b' ++ x) with ((b0 :: b') ++ x).
  rewrite !get_u_app_l by lia. reflexivity.
Qed.

Definition fetch_post (s : pstate) (r : option (msg * hstate * pstate)) : Prop :=
  match r with
  | None => unread s = []
  | Some (m, _, s') =>
    raw m ++ unread s' = unread s /\ raw m <> [] /\ pb_ok s' /\
    (length (unread s') < length (unread s))%nat /\
    ((0 <= mtype m)%Z -> exists len, get_len_type (raw m) = inl (Ok (len, mtype m)) /\
        N.to_nat (len + LeaderLengthBytes + CRCLengthBytes) = length (raw m) /\
        check_crc (raw m) = None)
  end.

Lemma app_nonnil_l {A} (a b : list A) : a <> [] -> a ++ b <> [].
Proof. destruct a; [congruence|discriminate]. Qed.

Lemma post_nonrtcm s f h s' :
  f ++ unread s' = unread s -> f <> [] -> pb_ok s' ->
  fetch_post s (Some (non_rtcm f, h, s')).
Proof.
  intros H1 H2 H3. cbn [fetch_post raw non_rtcm mtype].
  split; [exact H1|]. split; [exact H2|]. split; [exact H3|]. split.
  - rewrite <- H1, app_length. destruct f; [congruence|]. cbn [length]. lia.
  - change NonRTCMMessage with (-1)%Z. lia.
Qed.

Lemma fetch_spec h s : pb_ok s -> exists r, fetch h s = Ok r /\ fetch_post s r.
Proof.
  intros Hpb. unfold fetch.
  destruct (eat s) as [[frame s1] ended] eqn:Ee.
  destruct (eat_spec s frame s1 ended Hpb Ee) as (E1 & E2 & E3 & E4).
  destruct (ended && (length frame =? 0)%nat) eqn:E0.
  { apply andb_true_iff in E0. destruct E0 as [-> E0]. apply Nat.eqb_eq in E0.
    destruct frame; [|discriminate]. eexists. split; [reflexivity|]. cbn.
    rewrite <- E1. unfold unread. rewrite E2, (proj1 (E3 eq_refl)). reflexivity. }
  assert (Hne : frame <> []).
  { destruct ended.
    - cbn in E0. apply Nat.eqb_neq in E0. destruct frame; [cbn in E0; lia|discriminate].
    - destruct (E4 eq_refl) as (p & -> & _). destruct p; discriminate. }
  destruct (Nat.ltb_spec 1 (length frame)) as [H1|H1].
  - (* some non-RTCM data *)
    destruct (last frame 0 =? D3) eqn:EL.
    + apply N.eqb_eq in EL. eexists. split; [reflexivity|].
      pose proof (app_removelast_last 0 Hne) as Hrl. rewrite EL in Hrl.
      assert (Hl2 : length frame = (length (removelast frame) + 1)%nat).
      { rewrite Hrl at 1. rewrite app_length. reflexivity. }
      apply post_nonrtcm.
      * unfold push_back, unread in *. cbn [pb rest]. rewrite E2 in *. cbn [app] in *.
        rewrite <- E1. replace (frame ++ rest s1) with ((removelast frame ++ [D3]) ++ rest s1)
          by (rewrite <- Hrl; reflexivity). rewrite <- app_assoc. reflexivity.
      * intros C; rewrite C in Hl2; cbn in Hl2; lia.
      * right. unfold push_back. cbn [pb]. rewrite E2. reflexivity.
    + eexists. split; [reflexivity|]. apply post_nonrtcm; [exact E1|exact Hne|left; exact E2].
  - (* exactly one byte: the start of a possible frame *)
    assert (Hf1 : length frame = 1%nat) by (destruct frame; [congruence|cbn [length] in *; lia]).
    change (N.to_nat hnd_leaderAndMessageLength - 1)%nat with 4%nat.
    destruct (read_n 4 s1 frame) as [[frame2 s2] ok2] eqn:R2.
    destruct (read_n_spec 4 s1 frame frame2 s2 ok2 E2 R2) as (A1 & A2 & A3 & A4 & [x2 Hx2]).
    assert (Hne2 : frame2 <> []) by (rewrite Hx2; apply app_nonnil_l, Hne).
    assert (Post2 : fetch_post s (Some (non_rtcm frame2, h, s2))).
    { apply post_nonrtcm; [rewrite A1; exact E1|exact Hne2|left; exact A2]. }
    destruct ok2; cbn [negb].
    2:{ eexists. split; [reflexivity|exact Post2]. }
    specialize (A3 eq_refl).
    destruct (get_len_type frame2) as [[[len ty]|e|]|[ty e]] eqn:EG.
    + set (want := (N.to_nat (len + LeaderLengthBytes + CRCLengthBytes) - length frame2)%nat).
      destruct (read_n want s2 frame2) as [[frame3 s3] ok3] eqn:R3.
      destruct (read_n_spec want s2 frame2 frame3 s3 ok3 A2 R3) as (B1 & B2 & B3 & B4 & [x3 Hx3]).
      assert (Hne3 : frame3 <> []) by (rewrite Hx3; apply app_nonnil_l, Hne2).
      assert (Hall : frame3 ++ unread s3 = unread s) by (rewrite B1, A1; exact E1).
      destruct ok3; cbn [negb].
      2:{ eexists. split; [reflexivity|]. apply post_nonrtcm; [exact Hall|exact Hne3|left; exact B2]. }
      specialize (B3 eq_refl).
      assert (Hl3 : length frame3 = N.to_nat (len + LeaderLengthBytes + CRCLengthBytes)).
      { pose proof (get_len_type_ok _ _ _ EG) as (_ & _ & _ & _ & Hnz & _).
        rewrite B3. unfold want. change LeaderLengthBytes with 3. change CRCLengthBytes with 3. lia. }
      assert (EG3 : get_len_type frame3 = inl (Ok (len, ty))).
      { rewrite Hx3, get_len_type_prefix by lia. exact EG. }
      destruct (get_message_total h frame3) as [[om h'] Hgm]. rewrite Hgm. cbn [bind].
      destruct om as [m|].
      2:{ exfalso. apply get_message_none in Hgm. congruence. }
      eexists. split; [reflexivity|].
      assert (Hraw : raw m = frame3).
      { destruct (get_message_raw h frame3 m h' Hgm) as [Hr|(len' & ty' & G' & Hr & _)]; [exact Hr|].
        rewrite EG3 in G'. injection G' as <- <-. rewrite Hr. apply firstn_all2. lia. }
      cbn [fetch_post]. rewrite Hraw.
      split; [exact Hall|]. split; [exact Hne3|]. split; [left; exact B2|]. split.
      * rewrite <- Hall, app_length. destruct frame3; [congruence|]. cbn [length]. lia.
      * intros Ht.
        destruct (get_message_typed h frame3 m h' Hgm Ht) as [(e & G & _)|(len0 & G & Hl0 & Hc & Hr)].
        -- rewrite EG3 in G. discriminate.
        -- rewrite EG3 in G. injection G as <- Hty. exists len. rewrite <- Hty.
           split; [exact EG3|]. split; [symmetry; exact Hl3|].
           rewrite firstn_all2 in Hc by lia. exact Hc.
    + exfalso. exact (proj2 (get_len_type_no_panic _) e EG).
    + exfalso. exact (proj1 (get_len_type_no_panic _) EG).
    + eexists. split; [reflexivity|exact Post2].
Qed.

(* ---------- HandleMessages ---------- *)

Definition initial (input : list N) : pstate := {| pb := []; rest := input |}.

Definition typed_ok (m : msg) : Prop :=
  (0 <= mtype m)%Z -> exists len, get_len_type (raw m) = inl (Ok (len, mtype m)) /\
      N.to_nat (len + LeaderLengthBytes + CRCLengthBytes) = length (raw m) /\
      check_crc (raw m) = None.

Lemma handle_spec : forall fuel h s, pb_ok s -> (length (unread s) < fuel)%nat ->
  exists ms h', handle fuel h s = Ok (ms, h') /\
    concat (map raw ms) = unread s /\ Forall (fun m => raw m <> []) ms /\ Forall typed_ok ms.
Proof.
  induction fuel as [|fuel IH]; intros h s Hpb Hf; [lia|].
  cbn [handle]. destruct (fetch_spec h s Hpb) as [r [Hr Post]]. rewrite Hr. cbn [bind].
  destruct r as [[[m h1] s1]|].
  - destruct Post as (P1 & P2 & P3 & P4 & P5).
    destruct (IH h1 s1 P3 ltac:(lia)) as (ms & h' & Hh & Hc & Hn & Ht). rewrite Hh. cbn [bind fst snd].
    exists (m :: ms), h'. split; [reflexivity|]. split.
    + cbn [map concat]. rewrite Hc. exact P1.
    + split; constructor; assumption.
  - exists [], h. split; [reflexivity|]. cbn in Post. rewrite Post. split; [reflexivity|split; constructor].
Qed.

(* C02: the delivered raw bytes concatenate to the input; no message is empty;
   C07 (framing): the stream handler returns normally on every input, within fuel *)
Theorem handle_stream_lossless h input :
  exists ms h', handle_stream h input = Ok (ms, h') /\
    concat (map raw ms) = input /\ Forall (fun m => raw m <> []) ms /\ Forall typed_ok ms.
Proof.
  unfold handle_stream.
  destruct (handle_spec (S (length input)) h (initial input)) as (ms & h' & H1 & H2 & H3 & H4).
  - left. reflexivity.
  - unfold unread, initial. cbn. lia.
  - exists ms, h'. repeat split; assumption.
Qed.

(* ---------- C01: a typed message is a valid frame ---------- *)

Lemma leader_sweep :
  forallb (fun hi => forallb (fun lo =>
    match get_u [211; N.of_nat hi; N.of_nat lo] 8 6, get_u [211; N.of_nat hi; N.of_nat lo] 14 10 with
    | Ok a, Ok l => (a =? N.of_nat hi / 4) && (l =? (N.of_nat hi mod 4) * 256 + N.of_nat lo)
    | _, _ => false
    end) (seq 0 256)) (seq 0 256) = true.
Proof. vm_compute. reflexivity. Qed.

Lemma leader_bits hi lo rest : hi < 256 -> lo < 256 ->
  get_u (211 :: hi :: lo :: rest) 8 6 = Ok (hi / 4) /\
  get_u (211 :: hi :: lo :: rest) 14 10 = Ok ((hi mod 4) * 256 + lo).
Proof.
  intros Hh Hl.
  change (211 :: hi :: lo :: rest) with ([211; hi; lo] ++ rest).
  rewrite !get_u_app_l by (cbn [length]; lia).
  pose proof leader_sweep as A. rewrite forallb_forall in A.
  assert (Hi : In (N.to_nat hi) (seq 0 256)) by (apply in_seq; lia).
  specialize (A _ Hi). rewrite forallb_forall in A.
  assert (Hj : In (N.to_nat lo) (seq 0 256)) by (apply in_seq; lia).
  specialize (A _ Hj). rewrite !N2Nat.id in A.
  destruct (get_u [211; hi; lo] 8 6) as [a| |]; try discriminate.
  destruct (get_u [211; hi; lo] 14 10) as [l| |]; try discriminate.
  apply andb_true_iff in A. destruct A as [A1 A2]. apply N.eqb_eq in A1, A2. subst. split; reflexivity.
Qed.

Lemma crc_bytes c h m l : c < 2 ^ 24 -> h < 256 -> m < 256 -> l < 256 ->
  (crc_hi c =? h) && (crc_mi c =? m) && (crc_lo c =? l) = true -> c = 65536 * h + 256 * m + l.
Proof.
  intros Hc Hh Hm Hl H. apply andb_true_iff in H. destruct H as [H H3].
  apply andb_true_iff in H. destruct H as [H1 H2]. apply N.eqb_eq in H1, H2, H3.
  unfold crc_hi, crc_mi, crc_lo in *. change 255 with (N.ones 8) in *.
  rewrite N.land_ones, ?N.shiftr_div_pow2 in *.
  change (2 ^ 8) with 256 in *. change (2 ^ 16) with 65536 in *. change (2 ^ 24) with 16777216 in *.
  Z.div_mod_to_equations. lia.
Qed.

Lemma bytes_ok_firstn n l : bytes_ok l -> bytes_ok (firstn n l).
Proof.
  unfold bytes_ok. rewrite !Forall_forall. intros H x Hx. apply H.
  rewrite <- (firstn_skipn n l). apply in_or_app. left. exact Hx.
Qed.

Lemma bytes_ok_skipn n l : bytes_ok l -> bytes_ok (skipn n l).
Proof.
  unfold bytes_ok. rewrite !Forall_forall. intros H x Hx. apply H.
  rewrite <- (firstn_skipn n l). apply in_or_app. right. exact Hx.
Qed.

Lemma typed_valid b len ty : bytes_ok b ->
  get_len_type b = inl (Ok (len, ty)) ->
  (N.to_nat (len + LeaderLengthBytes + CRCLengthBytes) <= length b)%nat ->
  check_crc (firstn (N.to_nat (len + LeaderLengthBytes + CRCLengthBytes)) b) = None ->
  let f := firstn (N.to_nat (len + LeaderLengthBytes + CRCLengthBytes)) b in
  valid_frame f /\ ty = Z.of_N (frame_type f).
Proof.
  intros Hb HG Hlen HC f.
  apply get_len_type_ok in HG. destruct HG as (H5 & H0 & Hs & Hl & Hnz & t & Ht & ->).
  change LeaderLengthBytes with 3 in *. change CRCLengthBytes with 3 in *.
  destruct b as [|b0 [|b1 [|b2 rest]]]; cbn [length] in H5; try lia.
  cbn [nth_error] in H0. injection H0 as ->. change D3 with 211 in *.
  assert (Hb1 : b1 < 256) by (inversion Hb as [|? ? _ Hb']; inversion Hb' as [|? ? X _]; exact X).
  assert (Hb2 : b2 < 256) by (inversion Hb as [|? ? _ Hb']; inversion Hb' as [|? ? _ Hb'']; inversion Hb'' as [|? ? X _]; exact X).
  destruct (leader_bits b1 b2 rest Hb1 Hb2) as [L1 L2].
  rewrite L1 in Hs. rewrite L2 in Hl. injection Hs as Hs. injection Hl as Hl.
  assert (Hhi : b1 < 4) by (Z.div_mod_to_equations; lia).
  assert (Elen : len = 256 * b1 + b2) by (rewrite N.mod_small in Hl by exact Hhi; lia).
  set (n := N.to_nat (len + 3 + 3)) in *.
  assert (Hn : n = S (S (S (N.to_nat len + 3)))) by (unfold n; lia).
  assert (Hf : f = 211 :: b1 :: b2 :: firstn (N.to_nat len + 3) rest).
  { unfold f. rewrite Hn. reflexivity. }
  assert (Hfl : length f = n) by (unfold f; apply firstn_length_le; exact Hlen).
  assert (Hfok : bytes_ok f) by (apply bytes_ok_firstn; exact Hb).
  (* the CRC check *)
  unfold check_crc in HC. fold f in HC. rewrite Hfl in HC.
  change LeaderLengthBytes with 3 in HC. change CRCLengthBytes with 3 in HC.
  change (N.to_nat (3 + 3)) with 6%nat in HC. change (N.to_nat 3) with 3%nat in HC.
  destruct (Nat.ltb_spec n 6) as [C|_]; [discriminate|].
  destruct (skipn (n - 3) f) as [|c2 [|c1 [|c0 [|? ?]]]] eqn:ES; try discriminate.
  destruct ((crc_hi _ =? c2) && (crc_mi _ =? c1) && (crc_lo _ =? c0)) eqn:EC; [|discriminate].
  assert (Hsk : bytes_ok [c2; c1; c0]) by (rewrite <- ES; apply bytes_ok_skipn, Hfok).
  assert (Hc2 : c2 < 256) by (inversion Hsk; assumption).
  assert (Hc1 : c1 < 256) by (inversion Hsk as [|? ? _ X]; inversion X; assumption).
  assert (Hc0 : c0 < 256) by (inversion Hsk as [|? ? _ X]; inversion X as [|? ? _ Y]; inversion Y; assumption).
  assert (Hpre : bytes_ok (firstn (n - 3) f)) by (apply bytes_ok_firstn, Hfok).
  rewrite (crc24q_hash_spec _ Hpre) in EC.
  apply crc_bytes in EC; try assumption; [|apply crc24q_spec_bound].
  split.
  - unfold valid_frame, valid_frameb.
    rewrite (proj2 (bytes_okb_spec f) Hfok). cbn [andb]. rewrite Hf at 1.
    assert (Hbody : length (firstn (N.to_nat len + 3) rest) = (N.to_nat len + 3)%nat).
    { apply firstn_length_le. cbn [length] in Hlen. lia. }
    rewrite Hbody, <- Elen.
    replace (3 + N.to_nat len)%nat with (n - 3)%nat by lia.
    rewrite ES, EC.
    change (211 =? 211) with true.
    destruct (N.ltb_spec b1 4) as [_|C]; [|lia].
    destruct (N.leb_spec 1 len) as [_|C]; [|lia].
    replace (N.of_nat (N.to_nat len + 3)) with (len + 3) by lia.
    rewrite !N.eqb_refl. reflexivity.
  - f_equal. unfold frame_type.
    assert (E : get_u f 24 12 = Ok t).
    { rewrite <- (firstn_skipn n (211 :: b1 :: b2 :: rest)) in Ht. fold f in Ht.
      rewrite get_u_app_l in Ht by lia. exact Ht. }
    rewrite get_u_spec in E by lia. injection E as E. symmetry. exact E.
Qed.

Lemma firstn_prefix {A} n (l : list A) : exists x, l = firstn n l ++ x.
Proof. exists (skipn n l). symmetry. apply firstn_skipn. Qed.

(* single-frame decoding: a typed message without an error is exactly one valid frame,
   the frame at the head of the argument *)
Theorem get_message_valid h b m h' : bytes_ok b ->
  get_message h b = Ok (Some m, h') -> (0 <= mtype m)%Z -> merr m = None ->
  valid_frame (raw m) /\ mtype m = Z.of_N (frame_type (raw m)) /\ exists x, b = raw m ++ x.
Proof.
  intros Hb Hg Ht He.
  destruct (get_message_typed h b m h' Hg Ht) as [(e & _ & Hme & _)|(len & G & Hl & Hc & Hr)]; [congruence|].
  destruct (typed_valid b len (mtype m) Hb G Hl Hc) as [V T]. rewrite Hr.
  split; [exact V|]. split; [exact T|]. apply firstn_prefix.
Qed.

Lemma bytes_ok_concat (ls : list (list N)) : bytes_ok (concat ls) -> Forall bytes_ok ls.
Proof.
  induction ls as [|l ls IH]; intros H; [constructor|].
  cbn [concat] in H. unfold bytes_ok in H. apply Forall_app in H. destruct H as [H1 H2].
  constructor; [exact H1|apply IH, H2].
Qed.

Lemma typed_ok_valid m : bytes_ok (raw m) -> typed_ok m -> (0 <= mtype m)%Z ->
  valid_frame (raw m) /\ mtype m = Z.of_N (frame_type (raw m)).
Proof.
  intros Hb Ht Hty. destruct (Ht Hty) as (len & G & Hl & Hc).
  pose proof (typed_valid (raw m) len (mtype m) Hb G) as V. cbv zeta in V.
  rewrite Hl, firstn_all in V. apply V; [lia|exact Hc].
Qed.

(* C01 for the stream handler: every typed message is exactly one valid frame of its type *)
Theorem stream_typed_valid h input ms h' : bytes_ok input ->
  handle_stream h input = Ok (ms, h') ->
  Forall (fun m => (0 <= mtype m)%Z -> valid_frame (raw m) /\ mtype m = Z.of_N (frame_type (raw m))) ms.
Proof.
  intros Hb H.
  destruct (handle_stream_lossless h input) as (ms0 & h0 & H0 & Hc & _ & Ht).
  rewrite H in H0. injection H0 as <- <-.
  rewrite <- Hc in Hb. apply bytes_ok_concat in Hb.
  rewrite Forall_forall in *. intros m Hin Hty.
  apply typed_ok_valid; [|apply Ht, Hin|exact Hty].
  apply Hb. apply in_map. exact Hin.
Qed.

(* ---------- C15: what GetMessage reports, apart from the times, does not depend on the handler ---------- *)

(* everything a message carries except the UTC time and the start of week *)
Definition msg_core (m : msg) : Z * list N * option err * option err * N * bool :=
  (mtype m, raw m, merr m, memsg m, mts m, match msent m with Some (Ok _) => true | _ => false end).

Definition result_core (r : res (option msg * hstate)) : res (option (Z * list N * option err * option err * N * bool)) :=
  match r with
  | Ok (Some m, _) => Ok (Some (msg_core m))
  | Ok (None, _) => Ok None
  | Err e => Err e
  | Panic => Panic
  end.

Definition time_kind (t : res Z) : res unit :=
  match t with Ok _ => Ok tt | Err e => Err e | Panic => Panic end.

Lemma time_kind_state_independent h1 h2 ty ts :
  time_kind (fst (time_from_timestamp h1 ty ts)) = time_kind (fst (time_from_timestamp h2 ty ts)).
Proof.
  unfold time_from_timestamp, utc_from_timestamp, parse_glonass.
  destruct (constellation_of ty) as [[| | |]|]; cbn; try reflexivity;
    repeat match goal with |- context [if ?c then _ else _] => destruct c end; reflexivity.
Qed.

Theorem get_message_state_independent h1 h2 b :
  result_core (get_message h1 b) = result_core (get_message h2 b).
Proof.
  unfold get_message. destruct b as [|b0 b']; [reflexivity|].
  destruct (negb (b0 =? D3)); [reflexivity|].
  destruct (get_len_type (b0 :: b')) as [[[len ty]|e|]|[ty e]]; try reflexivity.
  destruct (_ <? _)%nat; [reflexivity|].
  destruct (check_crc _); [reflexivity|].
  destruct (msmb ty); [|reflexivity].
  destruct (_ <? _); [reflexivity|].
  destruct (get_u _ _ _) as [ts| |]; cbn [bind]; try reflexivity.
  pose proof (time_kind_state_independent h1 h2 ty ts) as K.
  destruct (time_from_timestamp h1 ty ts) as [t1 h1'].
  destruct (time_from_timestamp h2 ty ts) as [t2 h2']. cbn [fst] in K.
  destruct t1, t2; cbn in K; try discriminate; try reflexivity.
  injection K as <-. reflexivity.
Qed.

(* FrameSpec.v - what an RTCM3 frame is, independently of the code's algorithm. *)
From NTRIP Require Import Base Bits Crc.
Open Scope N_scope.

(* A valid frame: preamble 0xD3, six zero reserved bits, a non-zero 10-bit length equal
   to the payload size, and a trailing CRC-24Q of all preceding bytes. *)
Definition valid_frameb (f : list N) : bool :=
  bytes_okb f &&
  match f with
  | d :: hi :: lo :: body =>
    let len := 256 * hi + lo in
    (d =? 211) && (hi <? 4) && (1 <=? len) &&
    (N.of_nat (length body) =? len + 3) &&
    (let n := (3 + N.to_nat len)%nat in
     match skipn n f with
     | [c2; c1; c0] => crc24q_spec (firstn n f) =? 65536 * c2 + 256 * c1 + c0
     | _ => false
     end)
  | _ => false
  end.

Definition valid_frame (f : list N) : Prop := valid_frameb f = true.

(* the message type of a frame: the first 12 payload bits (bits 24..35 of the frame) *)
Definition frame_type (f : list N) : N := N_of_bits (slice (bits_of f) 24 12).

(* ---------- segment streams (C03, C12) ---------- *)

Inductive seg := Frame (f : list N) | Junk (j : list N).

Definition seg_bytes (s : seg) : list N := match s with Frame f => f | Junk j => j end.
Definition flatten (segs : list seg) : list N := concat (map seg_bytes segs).

Definition no_d3b (j : list N) : bool := forallb (fun b => negb (b =? 211)) j.

Definition wf_segb (s : seg) : bool :=
  match s with
  | Frame f => valid_frameb f
  | Junk j => bytes_okb j && negb (length j =? 0)%nat && no_d3b j
  end.
Definition wf_segsb (segs : list seg) : bool := forallb wf_segb segs.

(* adjacent junk runs are one run *)
Fixpoint merge_junk (segs : list seg) : list seg :=
  match segs with
  | [] => []
  | Junk a :: rest =>
    match merge_junk rest with
    | Junk b :: rest' => Junk (a ++ b) :: rest'
    | r => Junk a :: r
    end
  | Frame f :: rest => Frame f :: merge_junk rest
  end.

(* what must be delivered for a segment: (message type, raw bytes); -1 = non-RTCM *)
Definition expected_seg (s : seg) : Z * list N :=
  match s with
  | Frame f => (Z.of_N (frame_type f), f)
  | Junk j => ((-1)%Z, j)
  end.

(* tail: [] or a proper non-empty prefix of a valid frame, delivered as non-RTCM *)
Definition expected (segs : list seg) (tail : list N) : list (Z * list N) :=
  map expected_seg (merge_junk segs) ++ (match tail with [] => [] | _ => [((-1)%Z, tail)] end).

(* the frame that carries a payload: leader, payload, CRC-24Q of the specification *)
Definition frame_of_payload (p : list N) : list N :=
  let n := N.of_nat (length p) in
  let head := 211 :: (n / 256) :: (n mod 256) :: p in
  let c := crc24q_spec head in
  head ++ [(c / 65536); ((c / 256) mod 256); (c mod 256)].


(* MsmProofs.v - the MSM decoders never panic (C07), and decode what the specification
   encoder produced (C04). *)
From NTRIP Require Import Base Bits BitsProofs Crc CrcProofs Time Classify Frame FrameSpec FrameProofs
     WriteProofs EncProofs Msm MsmSpec Station StationProofs.
From NTRIPGen Require Import GenConsts.
From Coq Require Import ZifyN ZifyNat ZifyBool.
Open Scope N_scope.

(* ---------- reading arrays of fields ---------- *)

Lemma read_us_ok b : forall n pos width, (pos + n * width <= 8 * length b)%nat ->
  exists l, read_us b pos width n = Ok l /\ length l = n.
Proof.
  induction n as [|n IH]; intros pos width H; [exists []; split; reflexivity|].
  cbn [read_us]. destruct (getu_in_range b pos width) as [v ->]; [lia|]. cbn [bind].
  destruct (IH (pos + width)%nat width) as (l & -> & Hl); [lia|]. cbn [bind].
  exists (v :: l). split; [reflexivity|cbn [length]; lia].
Qed.

Lemma read_ss_ok b : forall n pos width, (1 <= width)%nat -> (pos + n * width <= 8 * length b)%nat ->
  exists l, read_ss b pos width n = Ok l /\ length l = n.
Proof.
  induction n as [|n IH]; intros pos width Hw H; [exists []; split; reflexivity|].
  cbn [read_ss]. destruct (gets_in_range b pos width) as [v ->]; [lia|lia|]. cbn [bind].
  destruct (IH (pos + width)%nat width Hw) as (l & -> & Hl); [lia|]. cbn [bind].
  exists (v :: l). split; [reflexivity|cbn [length]; lia].
Qed.

Definition no_panic {A} (r : res A) : Prop := r <> Panic.

Lemma bind_no_panic {A B} (r : res A) (f : A -> res B) :
  no_panic r -> (forall a, r = Ok a -> no_panic (f a)) -> no_panic (bind r f).
Proof. intros H1 H2. destruct r; cbn; [apply H2; reflexivity|discriminate|contradiction]. Qed.

(* ---------- the header ---------- *)

Lemma mask_ids_length_le w m : (length (mask_ids w m) <= w)%nat.
Proof.
  unfold mask_ids.
  assert (G : forall l, (length (flat_map (fun k => if N.testbit m (N.of_nat (w - k)) then [N.of_nat k] else []) l) <= length l)%nat).
  { clear. induction l as [|a l IH]; cbn [flat_map length]; [lia|]. rewrite app_length.
    destruct (N.testbit m (N.of_nat (w - a))); cbn [length]; lia. }
  specialize (G (seq 1 w)). rewrite seq_length in G. exact G.
Qed.

(* the header decoder returns a header whose position is consistent with the frame length, or an error *)
Lemma get_msm_header_ok b : no_panic (get_msm_header b) /\
  forall hd pos, get_msm_header b = Ok (hd, pos) ->
    (pos = 193 + length (h_sats hd) * length (h_sigs hd))%nat /\ (pos + 24 <= 8 * length b)%nat /\
    (length (h_sats hd) * length (h_sigs hd) <= 64)%nat /\
    length (h_cells hd) = length (h_sats hd) /\
    Forall (fun r => length r = length (h_sigs hd)) (h_cells hd) /\
    h_ncells hd = count_true (h_cells hd).
Proof.
  unfold get_msm_header.
  change (Z.of_N LeaderLengthBytes) with 3%Z. change (Z.of_N CRCLengthBytes) with 3%Z.
  change (Z.of_N hdr_minBitsInHeader) with 169%Z. change (Z.of_N hdr_LenMessageType) with 12%Z.
  destruct (Z.ltb_spec ((Z.of_nat (length b) - 3 - 3) * 8) 169) as [C|C]; [split; [discriminate|intros; discriminate]|].
  destruct (Z.ltb_spec ((Z.of_nat (length b) - 3 - 3) * 8) 12) as [C2|_]; [split; [discriminate|intros; discriminate]|].
  assert (Hb : (217 <= 8 * length b)%nat) by lia.
  repeat match goal with |- context [getu ?bb ?p ?w] =>
    let p' := eval vm_compute in p in let w' := eval vm_compute in w in
    change (getu bb p w) with (getu bb p' w');
    let v := fresh "v" in let E := fresh "E" in
    destruct (getu_in_range bb p' w') as [v E]; [lia|rewrite E; cbn [bind]]
  end.
  destruct (negb (is_msm_type v)); [split; [discriminate|intros; discriminate]|].
  repeat match goal with |- context [getu ?bb ?p ?w] =>
    match w with
    | (_ * _)%nat => fail 1
    | _ =>
      let p' := eval vm_compute in p in let w' := eval vm_compute in w in
      change (getu bb p w) with (getu bb p' w');
      let v := fresh "v" in let E := fresh "E" in
      destruct (getu_in_range bb p' w') as [v E]; [lia|rewrite E; cbn [bind]]
    end
  end.
  change (nn hdr_lenSatelliteMask) with 64%nat. change (nn hdr_lenSignalMask) with 32%nat.
  change (nn hdr_maxLengthOfCellMask) with 64%nat.
  change (nn LeaderLengthBits + nn CRCLengthBits + nn hdr_minBitsInHeader)%nat with 217%nat.
  set (sats := mask_ids 64 _). set (sigs := mask_ids 32 _).
  destruct (Nat.ltb_spec 64 (length sats * length sigs)) as [C3|C3]; [split; [discriminate|intros; discriminate]|].
  destruct (Nat.ltb_spec (8 * length b) (217 + length sats * length sigs)) as [C4|C4]; [split; [discriminate|intros; discriminate]|].
  match goal with |- context [getu b ?p ?w] =>
    let p' := eval vm_compute in p in change p with p';
    destruct (getu_in_range b p' w) as [cm Ecm]; [lia|rewrite Ecm; cbn [bind]] end.
  split; [discriminate|]. intros hd pos H. injection H as <- <-. cbn [h_sats h_sigs h_cells h_ncells].
  repeat split; try lia.
  - unfold cell_rows. rewrite map_length, seq_length. reflexivity.
  - unfold cell_rows. apply Forall_forall. intros r Hr. apply in_map_iff in Hr. destruct Hr as (i & <- & _).
    rewrite map_length, seq_length. reflexivity.
Qed.

(* ---------- satellite and signal cells never panic ---------- *)

Lemma get_sat_cells4_ok b start sats : no_panic (get_sat_cells4 b start sats) /\
  forall cs, get_sat_cells4 b start sats = Ok cs ->
    length cs = length sats /\ (start + length sats * 18 + 24 <= 8 * length b)%nat.
Proof.
  unfold get_sat_cells4.
  change (Z.of_N CRCLengthBits) with 24%Z. change (nn sat4_lenWholeMillis) with 8%nat. change (nn sat4_lenFractionalMillis) with 10%nat.
  set (n := length sats).
  destruct (Z.ltb_spec (Z.of_nat (8 * length b) - Z.of_nat start - 24) (Z.of_nat (n * (8 + 10)))) as [C|C];
    [split; [discriminate|intros; discriminate]|].
  destruct (read_us_ok b n start 8) as (w & -> & Hw); [lia|]. cbn [bind].
  destruct (read_us_ok b n (start + n * 8) 10) as (f & -> & Hf); [lia|]. cbn [bind].
  split; [discriminate|]. intros cs H. injection H as <-.
  rewrite map_length, !combine_length. unfold n in *. split; lia.
Qed.

Lemma get_sat_cells7_ok b start sats : no_panic (get_sat_cells7 b start sats) /\
  forall cs, get_sat_cells7 b start sats = Ok cs ->
    length cs = length sats /\ (start + length sats * 36 <= 8 * length b)%nat.
Proof.
  unfold get_sat_cells7.
  change (nn sat7_CellLengthInBits) with 36%nat. change (nn sat7_lenWholeMillis) with 8%nat.
  change (nn sat7_lenExtendedInfo) with 4%nat. change (nn sat7_lenFractionalMillis) with 10%nat.
  change (nn sat7_lenPhaseRangeRate) with 14%nat.
  set (n := length sats).
  destruct (Z.ltb_spec (Z.of_nat (8 * length b) - Z.of_nat start) (Z.of_nat (n * 36))) as [C|C];
    [split; [discriminate|intros; discriminate]|].
  destruct (read_us_ok b n start 8) as (w & -> & Hw); [lia|]. cbn [bind].
  destruct (read_us_ok b n (start + n * 8) 4) as (e & -> & He); [lia|]. cbn [bind].
  destruct (read_us_ok b n (start + n * 8 + n * 4) 10) as (f & -> & Hf); [lia|]. cbn [bind].
  destruct (read_ss_ok b n (start + n * 8 + n * 4 + n * 10) 14) as (r & -> & Hr); [lia|lia|]. cbn [bind].
  split; [discriminate|]. intros cs H. injection H as <-.
  rewrite map_length, !combine_length. unfold n in *. split; lia.
Qed.

Lemma strip_length cells : (length (strip_trailing_zeros cells) <= length cells)%nat.
Proof.
  induction cells as [|c r IH]; [cbn; lia|]. cbn [strip_trailing_zeros].
  destruct (strip_trailing_zeros r) as [|x y]; [destruct (c =? 0); cbn [length] in *; lia|cbn [length] in *; lia].
Qed.

(* GetNumberOfSignalCells only reads inside the frame and returns a count that fits *)
Lemma num_signal_cells_total b start bpc : (1 <= bpc)%nat -> (start <= 8 * length b)%nat ->
  exists n, num_signal_cells b start bpc = Ok n /\ (start + n * bpc <= 8 * length b)%nat.
Proof.
  intros Hb Hs. unfold num_signal_cells.
  set (left := (Z.of_nat (8 * length b) - Z.of_nat start)%Z).
  set (k := Z.to_nat (Z.quot left (Z.of_nat bpc))).
  assert (Hk : (start + k * bpc <= 8 * length b)%nat).
  { unfold k, left. rewrite Z.quot_div_nonneg by lia.
    assert (Z.of_nat (Z.to_nat ((Z.of_nat (8 * length b) - Z.of_nat start) / Z.of_nat bpc)) * Z.of_nat bpc
              <= Z.of_nat (8 * length b) - Z.of_nat start)%Z; [|lia].
    rewrite Z2Nat.id by (apply Z.div_pos; lia). rewrite Z.mul_comm. apply Z.mul_div_le. lia. }
  destruct (read_us_ok b k start bpc Hk) as (cells & -> & Hl). cbn [bind].
  eexists. split; [reflexivity|]. pose proof (strip_length cells). nia.
Qed.

Lemma signal_cell_count_total b start bpc hd : (1 <= bpc)%nat -> (start <= 8 * length b)%nat ->
  exists n, signal_cell_count b start bpc hd = Ok n /\ (start + n * bpc <= 8 * length b)%nat.
Proof.
  intros Hb Hs. unfold signal_cell_count. change (Z.of_N CRCLengthBits) with 24%Z.
  destruct (Z.leb_spec (Z.of_nat (h_ncells hd * bpc)) (Z.of_nat (8 * length b) - Z.of_nat start - 24)) as [C|C].
  - eexists. split; [reflexivity|]. lia.
  - apply num_signal_cells_total; assumption.
Qed.

Lemma get_sig_cells4_ok b start hd sats : (start <= 8 * length b)%nat -> no_panic (get_sig_cells4 b start hd sats).
Proof.
  intros Hs. unfold get_sig_cells4. change (nn sig4_bitsPerCell) with 48%nat.
  destruct (signal_cell_count_total b start 48 hd ltac:(lia) Hs) as (n & -> & Hn). cbn [bind].
  match goal with |- no_panic (if ?c then _ else _) => destruct c; [discriminate|] end.
  change (nn sig4_lenRangeDelta) with 15%nat. change (nn sig4_lenPhaseRangeDelta) with 22%nat.
  change (nn sig4_lenLockTimeIndicator) with 4%nat. change (nn sig4_lenHalfCycleAmbiguity) with 1%nat. change (nn sig4_lenCNR) with 6%nat.
  destruct (read_ss_ok b n start 15) as (l1 & -> & _); [lia|lia|]. cbn [bind].
  destruct (read_ss_ok b n (start + n * 15) 22) as (l2 & -> & _); [lia|lia|]. cbn [bind].
  destruct (read_us_ok b n (start + n * 15 + n * 22) 4) as (l3 & -> & _); [lia|]. cbn [bind].
  destruct (read_us_ok b n (start + n * 15 + n * 22 + n * 4) 1) as (l4 & -> & _); [lia|]. cbn [bind].
  destruct (read_us_ok b n (start + n * 15 + n * 22 + n * 4 + n * 1) 6) as (l5 & -> & _); [lia|]. cbn [bind].
  discriminate.
Qed.

Lemma get_sig_cells7_ok b start hd sats : (start <= 8 * length b)%nat -> no_panic (get_sig_cells7 b start hd sats).
Proof.
  intros Hs. unfold get_sig_cells7. change (nn sig7_bitsPerCell) with 80%nat.
  destruct (signal_cell_count_total b start 80 hd ltac:(lia) Hs) as (n & -> & Hn). cbn [bind].
  match goal with |- no_panic (if ?c then _ else _) => destruct c; [discriminate|] end.
  change (nn sig7_lenRangeDelta) with 20%nat. change (nn sig7_lenPhaseRangeDelta) with 24%nat.
  change (nn sig7_lenLockTimeIndicator) with 10%nat. change (nn sig7_lenHalfCycleAmbiguity) with 1%nat.
  change (nn sig7_lenCNR) with 10%nat. change (nn sig7_lenPhaseRangeRateDelta) with 15%nat.
  destruct (read_ss_ok b n start 20) as (l1 & -> & _); [lia|lia|]. cbn [bind].
  destruct (read_ss_ok b n (start + n * 20) 24) as (l2 & -> & _); [lia|lia|]. cbn [bind].
  destruct (read_us_ok b n (start + n * 20 + n * 24) 10) as (l3 & -> & _); [lia|]. cbn [bind].
  destruct (read_us_ok b n (start + n * 20 + n * 24 + n * 10) 1) as (l4 & -> & _); [lia|]. cbn [bind].
  destruct (read_us_ok b n (start + n * 20 + n * 24 + n * 10 + n * 1) 10) as (l5 & -> & _); [lia|]. cbn [bind].
  destruct (read_ss_ok b n (start + n * 20 + n * 24 + n * 10 + n * 1 + n * 10) 15) as (l6 & -> & _); [lia|lia|]. cbn [bind].
  discriminate.
Qed.

(* C07 for the MSM decoders: arbitrary bytes give a message or an error, never a panic *)
Theorem decode_msm4_no_panic b : no_panic (decode_msm4 b).
Proof.
  unfold decode_msm4. destruct (get_msm_header_ok b) as [Hn Hh].
  destruct (get_msm_header b) as [[hd pos]|e|]; cbn [bind]; [|discriminate|contradiction].
  destruct (Hh hd pos eq_refl) as (Hpos & Hlen & _).
  destruct (negb (msm4b _)); [discriminate|].
  destruct (get_sat_cells4_ok b pos (h_sats hd)) as [Hsn Hsl].
  destruct (get_sat_cells4 b pos (h_sats hd)) as [cs|e|]; cbn [bind]; [|discriminate|contradiction].
  destruct (Hsl cs eq_refl) as [Hcl Hfit]. change (nn sat4_CellLengthInBits) with 18%nat.
  pose proof (get_sig_cells4_ok b (pos + length cs * 18) hd cs ltac:(lia)) as Hg.
  destruct (get_sig_cells4 b (pos + length cs * 18) hd cs); cbn [bind]; [discriminate|discriminate|contradiction].
Qed.

Theorem decode_msm7_no_panic b : no_panic (decode_msm7 b).
Proof.
  unfold decode_msm7. destruct (get_msm_header_ok b) as [Hn Hh].
  destruct (get_msm_header b) as [[hd pos]|e|]; cbn [bind]; [|discriminate|contradiction].
  destruct (Hh hd pos eq_refl) as (Hpos & Hlen & _).
  destruct (negb (msm7b _)); [discriminate|].
  destruct (get_sat_cells7_ok b pos (h_sats hd)) as [Hsn Hsl].
  destruct (get_sat_cells7 b pos (h_sats hd)) as [cs|e|]; cbn [bind]; [|discriminate|contradiction].
  destruct (Hsl cs eq_refl) as [Hcl Hfit]. change (nn sat7_CellLengthInBits) with 36%nat.
  pose proof (get_sig_cells7_ok b (pos + length cs * 36) hd cs ltac:(lia)) as Hg.
  destruct (get_sig_cells7 b (pos + length cs * 36) hd cs); cbn [bind]; [discriminate|discriminate|contradiction].
Qed.

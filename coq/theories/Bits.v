(* Bits.v - model of utils.GetBitsAsUint64 / GetBitsAsInt64 and the bit-level
   specification vocabulary (bit lists, unsigned and two's-complement values,
   bit writers used by the encoders). *)
From NTRIP Require Import Base.
Open Scope N_scope.

(* ---------- specification vocabulary ---------- *)

(* the eight bits of a byte, most significant first *)
Definition byte_bits (b : N) : list bool :=
  map (fun k => N.testbit b (N.of_nat (7 - k))) (seq 0 8).

Definition bits_of (buf : list N) : list bool := flat_map byte_bits buf.

Definition b2n (b : bool) : N := if b then 1 else 0.

(* value of a bit string read as an unsigned binary number, MSB first *)
Definition N_of_bits (bs : list bool) : N :=
  fold_left (fun a b => 2 * a + b2n b) bs 0.

(* value of a bit string read as a two's-complement number, MSB first *)
Definition Z_of_bits_2c (bs : list bool) : Z :=
  match bs with
  | [] => 0%Z
  | s :: rest => ((if s then - 2 ^ Z.of_nat (length rest) else 0) + Z.of_N (N_of_bits rest))%Z
  end.

(* writers: the w-bit big-endian representation of v (v taken modulo 2^w) *)
Fixpoint put_u (w : nat) (v : N) : list bool :=
  match w with
  | O => []
  | S w' => N.testbit v (N.of_nat w') :: put_u w' v
  end.

(* two's complement writer: w bits of the integer z *)
Definition put_s (w : nat) (z : Z) : list bool :=
  put_u w (Z.to_N (z mod 2 ^ Z.of_nat w)).

(* pack a bit list into bytes, padding the last byte with zero bits *)
Fixpoint bytes_of_bits_fuel (fuel : nat) (bs : list bool) : list N :=
  match fuel with
  | O => []
  | S f =>
    match bs with
    | [] => []
    | _ => N_of_bits (firstn 8 (bs ++ repeat false 7)) :: bytes_of_bits_fuel f (skipn 8 bs)
    end
  end.
Definition bytes_of_bits (bs : list bool) : list N := bytes_of_bits_fuel (S (length bs)) bs.

(* ---------- model of the Go code ---------- *)

Definition two64 : N := 18446744073709551616.
Definition two63 : N := 9223372036854775808.

(* buff[i/8] >> (7 - i%8) & 1, with the index check of the Go runtime *)
Definition bit_at (buf : list N) (i : nat) : option bool :=
  match nth_error buf (i / 8) with
  | Some b => Some (N.testbit b (N.of_nat (7 - i mod 8)))
  | None => None
  end.

(* for i := pos; i < pos+len; i++ { result = (result << 1) | bit }   (uint64) *)
Fixpoint get_u_loop (buf : list N) (i len : nat) (acc : N) : res N :=
  match len with
  | O => Ok acc
  | S l =>
    match bit_at buf i with
    | None => Panic
    | Some b => get_u_loop buf (S i) l ((2 * acc + b2n b) mod two64)
    end
  end.

Definition get_u (buf : list N) (pos len : nat) : res N := get_u_loop buf pos len 0.

(* Go's int64(x) of a uint64 and uint64-to-int64 wrap of a sum *)
Definition to_int64 (x : N) : Z :=
  if x <? two63 then Z.of_N x else (Z.of_N x - Z.of_N two64)%Z.
Definition wrap_int64 (z : Z) : Z :=
  let m := (z mod Z.of_N two64)%Z in
  if (m <? Z.of_N two63)%Z then m else (m - Z.of_N two64)%Z.

(* var mask uint64 = 2 << (len - 2): len is a uint, so len < 2 wraps to a huge
   shift count, and Go gives 0 for shift counts >= 64. *)
Definition sign_mask (len : nat) : N :=
  if (len <? 2)%nat then 0
  else if (64 <=? len - 2)%nat then 0
  else (2 * 2 ^ N.of_nat (len - 2)) mod two64.

(* GetBitsAsInt64, parametrised by the unsigned reader it calls twice *)
Definition get_s_gen (g : list N -> nat -> nat -> res N) (buf : list N) (pos len : nat) : res Z :=
  neg <- g buf pos 1%nat ;;
  uval <- g buf pos len ;;
  if neg =? 1 then
    let mask := sign_mask len in
    let top := to_int64 (N.land uval mask) in
    let low := to_int64 (N.land uval (N.lxor mask (two64 - 1))) in
    Ok (wrap_int64 (wrap_int64 (-1 * top) + low))
  else Ok (to_int64 uval).

Definition get_s (buf : list N) (pos len : nat) : res Z := get_s_gen get_u buf pos len.

(* The same two functions computed a byte window at a time instead of one bit at a time.
   They are proved equal to get_u / get_s for every input (BitsProofs.getu_eq, gets_eq) and
   exist only so that the extracted model runs in linear time on long messages. *)
Definition getu (buf : list N) (pos len : nat) : res N :=
  if (pos + len <=? 8 * length buf)%nat then
    let q := (pos / 8)%nat in
    let r := (pos mod 8)%nat in
    let window := firstn (S (S (len / 8))) (skipn q buf) in
    Ok (N_of_bits (slice (bits_of window) r len) mod two64)
  else get_u buf pos len.

Definition gets (buf : list N) (pos len : nat) : res Z := get_s_gen getu buf pos len.

(* TimeProofs.v - C06 / C17: the handler's week state machine reports the true UTC time and
   start of week for every admissible history, from any start time in the first week. *)
From NTRIP Require Import Base Bits BitsProofs Crc CrcProofs Time Classify Frame FrameSpec FrameProofs
     WriteProofs EncProofs TimeSpec History.
From NTRIPGen Require Import GenConsts.
From Coq Require Import ZifyN ZifyNat ZifyBool.
Open Scope Z_scope.

(* ---------- calendar arithmetic ---------- *)

Lemma last_sunday_is_sunday_floor t : start_of_last_sunday t = sunday_floor t.
Proof.
  unfold start_of_last_sunday, sunday_floor, ns_per_day, three_days, week.
  Z.div_mod_to_equations. lia.
Qed.

Lemma new_handler_starts T :
  sGPS (new_handler T) = week_start GPS T /\ sGal (new_handler T) = week_start Galileo T /\
  sBei (new_handler T) = week_start Beidou T /\ sGlo (new_handler T) = week_start Glonass T /\
  pGPS (new_handler T) = 0%N /\ pGal (new_handler T) = 0%N /\ pBei (new_handler T) = 0%N /\
  pGloDay (new_handler T) = 0%N.
Proof.
  unfold new_handler. cbn [sGPS sGal sBei sGlo pGPS pGal pBei pGloDay].
  rewrite !last_sunday_is_sunday_floor. unfold week_start, ahead.
  change GPSLeapSeconds with (-18). change BeidouLeapSeconds with (-4).
  change GlonassTimeOffsetNs with (-10800000000000). change GPSTimeOffsetNs with (-18000000000).
  unfold ns_per_s. repeat split; f_equal; try (f_equal; lia); lia.
Qed.

(* week starts are whole milliseconds and at most the instant; the next one is a week later *)
Lemma week_start_props c u :
  week_start c u <= u < week_start c u + week /\ (week_start c u) mod ms = 0.
Proof.
  unfold week_start, sunday_floor, week, three_days, ms.
  destruct c; unfold ahead; Z.div_mod_to_equations; lia.
Qed.

Lemma week_start_unique c u s : s <= u < s + week -> (exists k, s = week_start c 0 + k * week) ->
  week_start c u = s.
Proof.
  intros H [k Hk]. subst s. revert H.
  unfold week_start, sunday_floor, week, three_days. destruct c; unfold ahead; intros H; Z.div_mod_to_equations; lia.
Qed.

Lemma week_start_lattice c u : exists k, week_start c u = week_start c 0 + k * week.
Proof.
  unfold week_start, sunday_floor, week, three_days.
  exists ((u + ahead c - 3 * 86400000000000) / (7 * 86400000000000) - (0 + ahead c - 3 * 86400000000000) / (7 * 86400000000000)).
  lia.
Qed.

(* an observation less than six days after the previous one is in the same or in the next week *)
Lemma week_start_next c u0 u : u0 <= u < u0 + six_days ->
  week_start c u = week_start c u0 \/ week_start c u = week_start c u0 + week.
Proof.
  intros H. pose proof (week_start_props c u0) as [A _]. pose proof (week_start_props c u) as [B _].
  destruct (week_start_lattice c u0) as [k0 E0]. destruct (week_start_lattice c u) as [k E].
  unfold six_days, week in *. assert (k = k0 \/ k = k0 + 1) by lia. destruct H0; subst k; lia.
Qed.

(* ---------- one step of the weekly constellations (GPS, Galileo, BeiDou) ---------- *)

Definition weekly (c : constellation) : Prop := c = GPS \/ c = Galileo \/ c = Beidou.

Lemma enc_weekly c u : weekly c -> enc c u = Z.to_N ((u - week_start c u) / ms).
Proof. intros [-> | [-> | ->]]; reflexivity. Qed.

Lemma enc_weekly_bound c u : weekly c -> u mod ms = 0 ->
  (enc c u <= MaxTimestamp)%N /\ Z.of_N (enc c u) * ms = u - week_start c u.
Proof.
  intros Hc Hu. rewrite (enc_weekly c u Hc).
  pose proof (week_start_props c u) as [A B]. change MaxTimestamp with 604799999%N.
  unfold week, ms in *. split.
  - assert (0 <= (u - week_start c u) / 1000000 <= 604799999); [|lia].
    Z.div_mod_to_equations. lia.
  - rewrite Z2N.id by (apply Z.div_pos; lia). Z.div_mod_to_equations. lia.
Qed.

Lemma utc_weekly c u s prev : weekly c -> u mod ms = 0 ->
  (s = week_start c u /\ (prev <= enc c u)%N) \/ (s + week = week_start c u /\ (enc c u < prev)%N) ->
  utc_from_timestamp (enc c u) prev s = Ok (u, week_start c u).
Proof.
  intros Hc Hu H. destruct (enc_weekly_bound c u Hc Hu) as [Hb He].
  unfold utc_from_timestamp.
  destruct (N.ltb_spec MaxTimestamp (enc c u)) as [C|_]; [lia|].
  unfold ns_per_ms, ns_per_day. unfold ms, week in *.
  destruct H as [[Hs Hp]|[Hs Hp]].
  - destruct (N.ltb_spec (enc c u) prev) as [C|_]; [lia|]. f_equal. f_equal; lia.
  - destruct (N.ltb_spec (enc c u) prev) as [_|C]; [|lia]. f_equal. f_equal; lia.
Qed.

(* first observation of a weekly constellation, any start time in the same week *)
Lemma weekly_first c T u : weekly c -> u mod ms = 0 -> week_start c u = week_start c T ->
  utc_from_timestamp (enc c u) 0%N (week_start c T) = Ok (u, week_start c u).
Proof.
  intros Hc Hu Hw. apply utc_weekly; [exact Hc|exact Hu|]. left. split; [congruence|lia].
Qed.

(* a later observation: same week or rollover into the next *)
Lemma weekly_next c u0 u : weekly c -> u0 mod ms = 0 -> u mod ms = 0 -> u0 <= u < u0 + six_days ->
  utc_from_timestamp (enc c u) (enc c u0) (week_start c u0) = Ok (u, week_start c u).
Proof.
  intros Hc Hu0 Hu H. apply utc_weekly; [exact Hc|exact Hu|].
  destruct (enc_weekly_bound c u0 Hc Hu0) as [_ E0]. destruct (enc_weekly_bound c u Hc Hu) as [_ E].
  unfold ms, six_days, week in *.
  destruct (week_start_next c u0 u H) as [Hs|Hs]; unfold week in Hs.
  - left. split; [congruence|]. nia.
  - right. split; [lia|]. nia.
Qed.

(* ---------- GLONASS ---------- *)

Lemma ldiff_day_mask ts : (ts < 1073741824)%N -> N.ldiff ts GlonassDayBitMask = (ts mod 134217728)%N.
Proof.
  intros H. change GlonassDayBitMask with 939524096%N.
  rewrite (N.ldiff_land_low ts 939524096 30).
  - change (N.lnot 939524096 30) with (N.ones 27). rewrite N.land_ones. reflexivity.
  - destruct (N.eq_dec ts 0) as [->|Hnz]; [reflexivity|]. apply N.log2_lt_pow2; [lia|exact H].
Qed.

Definition glo_day (u : Z) : Z := (u - week_start Glonass u) / day.
Definition glo_ms (u : Z) : Z := ((u - week_start Glonass u) mod day) / ms.

Lemma glo_parts u : u mod ms = 0 ->
  0 <= glo_day u <= 6 /\ 0 <= glo_ms u < 86400000 /\
  u = week_start Glonass u + glo_day u * day + glo_ms u * ms /\
  enc Glonass u = Z.to_N (glo_day u * 134217728 + glo_ms u).
Proof.
  intros Hu. pose proof (week_start_props Glonass u) as [A B].
  unfold glo_day, glo_ms, enc. unfold day, ms, week in *.
  repeat split; try (Z.div_mod_to_equations; lia).
Qed.

Lemma parse_glonass_enc u : u mod ms = 0 ->
  parse_glonass (enc Glonass u) = Ok (Z.to_N (glo_day u), Z.to_N (glo_ms u)).
Proof.
  intros Hu. destruct (glo_parts u Hu) as (Hd & Hm & _ & E).
  unfold parse_glonass. rewrite E.
  set (d := glo_day u) in *. set (m := glo_ms u) in *.
  change MaxTimestampGlonass with 891706367%N. change MillisIn24Hours with 86400000%N.
  destruct (N.ltb_spec 891706367 (Z.to_N (d * 134217728 + m))) as [C|_]; [lia|].
  rewrite ldiff_day_mask by lia.
  rewrite N.shiftr_div_pow2. change (2 ^ 27)%N with 134217728%N.
  assert (Hq : (Z.to_N (d * 134217728 + m) / 134217728 = Z.to_N d)%N).
  { change 134217728%N with (Z.to_N 134217728). rewrite <- Z2N.inj_div by lia. f_equal. symmetry. apply (Z.div_unique_pos _ _ d m); lia. }
  assert (Hr : (Z.to_N (d * 134217728 + m) mod 134217728 = Z.to_N m)%N).
  { change 134217728%N with (Z.to_N 134217728). rewrite <- Z2N.inj_mod by lia. f_equal. symmetry. apply (Z.mod_unique_pos _ _ d m); lia. }
  rewrite Hq, Hr.
  destruct (N.leb_spec 86400000 (Z.to_N m)) as [C|_]; [lia|]. reflexivity.
Qed.

(* ---------- the frame that carries a timestamp ---------- *)

Lemma slice_mid {A} (a m b : list A) : slice (a ++ m ++ b) (length a) (length m) = m.
Proof.
  replace (length a) with (length a + 0)%nat at 1 by lia. rewrite slice_app_r.
  rewrite slice_app_l by lia. apply slice_all.
Qed.

Lemma msm_type_props c k : (msm_type c k < 4096)%N /\ msmb (Z.of_N (msm_type c k)) = true /\
  constellation_of (Z.of_N (msm_type c k)) = Some c.
Proof. destruct c, k; repeat split; reflexivity. Qed.

Lemma time_frame_message h c k st ts : (st < 4096)%N -> (ts < 1073741824)%N ->
  let ty := Z.of_N (msm_type c k) in
  let f := msm_time_frame c k st ts in
  let th := time_from_timestamp h ty ts in
  get_message h f =
  Ok (Some {| mtype := ty; raw := f;
              merr := match fst th with Err e => Some e | _ => None end;
              memsg := match fst th with Err e => Some e | _ => None end;
              mts := ts; msent := Some (fst th); msow := start_of_week (snd th) ty |}, snd th).
Proof.
  intros Hst Hts ty f th.
  destruct (msm_type_props c k) as (Hty & Hmsm & _).
  set (bits := put_u 12 (msm_type c k) ++ put_u 12 st ++ put_u 30 ts ++ [false; false]).
  assert (Hbl : length bits = (8 * 7)%nat) by (unfold bits; rewrite !app_length, !put_u_length; reflexivity).
  destruct (bytes_of_bits_whole 7 bits Hbl) as (Hbits & Hplen & Hpok).
  set (p := bytes_of_bits bits) in *.
  assert (Hf : f = frame_of_payload p) by reflexivity.
  clearbody f. clearbody p.
  destruct (frame_checks p Hpok ltac:(lia)) as (Hfok & HG & HC). rewrite <- Hf in *.
  assert (Hflen : length f = 13%nat) by (rewrite Hf, frame_of_payload_length, Hplen; reflexivity).
  (* the bits of the frame *)
  assert (Hfb : bits_of f = bits_of (leader 7) ++ bits ++ bits_of (skipn 10 f)).
  { rewrite Hf at 1. rewrite frame_of_payload_shape. cbv zeta. rewrite Hplen. change (N.of_nat 7) with 7%N.
    rewrite !bits_of_app, Hbits. do 3 f_equal.
    rewrite Hf, frame_of_payload_shape. cbv zeta. rewrite Hplen. change (N.of_nat 7) with 7%N.
    rewrite app_assoc. rewrite skipn_app.
    replace (10 - length (leader 7 ++ p))%nat with 0%nat by (rewrite app_length, Hplen; reflexivity).
    rewrite skipn_all2 by (rewrite app_length, Hplen; cbn; lia). reflexivity. }
  assert (Hl24 : length (bits_of (leader 7)) = 24%nat) by reflexivity.
  assert (Htype : frame_type f = msm_type c k).
  { unfold frame_type. rewrite Hfb.
    replace (bits_of (leader 7) ++ bits ++ bits_of (skipn 10 f))
      with (bits_of (leader 7) ++ put_u 12 (msm_type c k) ++ ((put_u 12 st ++ put_u 30 ts ++ [false; false]) ++ bits_of (skipn 10 f)))
      by (unfold bits; rewrite <- !app_assoc; reflexivity).
    replace 24%nat with (length (bits_of (leader 7))) by exact Hl24.
    replace 12%nat with (length (put_u 12 (msm_type c k))) by apply put_u_length.
    rewrite slice_mid. apply N_of_bits_put_u_small. exact Hty. }
  assert (Hts30 : get_u f 48 30 = Ok ts).
  { rewrite get_u_spec by lia. f_equal. rewrite Hfb.
    replace (bits_of (leader 7) ++ bits ++ bits_of (skipn 10 f))
      with ((bits_of (leader 7) ++ put_u 12 (msm_type c k) ++ put_u 12 st) ++ put_u 30 ts ++ ([false; false] ++ bits_of (skipn 10 f)))
      by (unfold bits; rewrite <- !app_assoc; reflexivity).
    replace 48%nat with (length (bits_of (leader 7) ++ put_u 12 (msm_type c k) ++ put_u 12 st))
      by (rewrite !app_length, !put_u_length, Hl24; reflexivity).
    replace 30%nat with (length (put_u 30 ts)) by apply put_u_length.
    rewrite slice_mid. apply N_of_bits_put_u_small. exact Hts. }
  (* run GetMessage *)
  unfold get_message.
  destruct f as [|b0 f'] eqn:Ef; [cbn in Hflen; lia|].
  assert (Hb0 : b0 = 211%N).
  { pose proof (get_len_type_ok _ _ _ HG) as (_ & H0 & _). cbn in H0. injection H0 as ->. reflexivity. }
  subst b0. change (negb (211 =? D3)%N) with false. cbv iota.
  rewrite HG, Hplen. change (N.of_nat 7) with 7%N.
  change (N.to_nat (7 + LeaderLengthBytes + CRCLengthBytes)) with 13%nat.
  rewrite Hflen. change (13 <? 13)%nat with false. cbv iota.
  rewrite <- Hflen at 1. rewrite firstn_all, HC, Htype, Hmsm. fold ty.
  change ((7 + LeaderLengthBytes) * 8 <? hnd_timestampPosition + hdr_LenTimeStamp)%N with false. cbv iota.
  change (N.to_nat hnd_timestampPosition) with 48%nat. change (N.to_nat hdr_LenTimeStamp) with 30%nat.
  rewrite Hts30. cbn [bind]. fold th.
  pose proof (time_no_panic h ty ts) as Hnp. fold th in Hnp.
  destruct th as [t h']. cbn [fst snd] in *.
  replace (firstn 13 (211%N :: f')) with (211%N :: f') by (rewrite <- Hflen at 1; rewrite firstn_all; reflexivity).
  destruct t; [reflexivity|reflexivity|congruence].
Qed.

(* ---------- the invariant of the week state machine ---------- *)

Definition start_c (h : hstate) (c : constellation) : Z :=
  match c with GPS => sGPS h | Galileo => sGal h | Glonass => sGlo h | Beidou => sBei h end.

Definition prev_c (h : hstate) (c : constellation) : N :=
  match c with GPS => pGPS h | Galileo => pGal h | Glonass => pGloDay h | Beidou => pBei h end.

(* what the handler remembers about constellation c after its last observation u0 (or none) *)
Definition remembers (T : Z) (h : hstate) (c : constellation) (l : option Z) : Prop :=
  match l with
  | None => start_c h c = week_start c T /\ prev_c h c = 0%N
  | Some u0 => u0 mod ms = 0 /\ start_c h c = week_start c u0 /\
               prev_c h c = match c with Glonass => Z.to_N (glo_day u0) | _ => enc c u0 end
  end.

Definition Inv (T : Z) (l : last_obs) (h : hstate) : Prop := forall c, remembers T h c (l c).

Lemma inv_new T : Inv T (fun _ => None) (new_handler T).
Proof.
  destruct (new_handler_starts T) as (A & B & C & D & E & F & G & H).
  intros c. destruct c; cbn; split; assumption.
Qed.

Lemma c_eqb_spec a b : c_eqb a b = true <-> a = b.
Proof. destruct a, b; cbn; split; intros H; try reflexivity; discriminate. Qed.

(* a valid observation: the reported time and start of week are the true ones, the state of the
   constellation is updated, the other constellations are untouched *)
Lemma obs_step T l h c k u : Inv T l h -> u mod ms = 0 ->
  match l c with
  | None => week_start c u = week_start c T
  | Some u0 => u0 <= u /\ u - u0 < six_days
  end ->
  let ty := Z.of_N (msm_type c k) in
  exists h', time_from_timestamp h ty (enc c u) = (Ok u, h') /\
             start_of_week h' ty = Some (week_start c u) /\ Inv T (upd_last l c u) h'.
Proof.
  intros HI Hu Hadm ty.
  destruct (msm_type_props c k) as (_ & _ & Hc).
  pose proof (HI c) as Hrem. unfold remembers in Hrem.
  subst ty. unfold time_from_timestamp, start_of_week. rewrite Hc.
  assert (Hother : forall h', (forall c', c' <> c -> start_c h' c' = start_c h c' /\ prev_c h' c' = prev_c h c') ->
             (u mod ms = 0 /\ start_c h' c = week_start c u /\
              prev_c h' c = match c with Glonass => Z.to_N (glo_day u) | _ => enc c u end) ->
             Inv T (upd_last l c u) h').
  { intros h' Ho Hn c'. unfold upd_last. destruct (c_eqb c c') eqn:E.
    - apply c_eqb_spec in E. subst c'. exact Hn.
    - assert (Hne : c' <> c) by (intros ->; destruct c; discriminate).
      destruct (Ho c' Hne) as [S P]. pose proof (HI c') as R. unfold remembers in *.
      destruct (l c'); rewrite S, P; exact R. }
  destruct c.
  - (* GPS *)
    assert (W : weekly GPS) by (left; reflexivity).
    assert (R : utc_from_timestamp (enc GPS u) (pGPS h) (sGPS h) = Ok (u, week_start GPS u)).
    { destruct (l GPS) as [u0|]; cbn [start_c prev_c] in Hrem.
      - destruct Hrem as (H0 & Hs & Hp). rewrite Hs, Hp. apply weekly_next; try assumption. lia.
      - destruct Hrem as (Hs & Hp). rewrite Hs, Hp. apply weekly_first; assumption. }
    rewrite R. eexists. split; [reflexivity|]. cbn [sGPS]. split; [reflexivity|].
    apply Hother; [intros c' Hne; destruct c'; try congruence; cbn; split; reflexivity|].
    repeat split; try exact Hu; reflexivity.
  - (* Galileo *)
    assert (W : weekly Galileo) by (right; left; reflexivity).
    assert (R : utc_from_timestamp (enc Galileo u) (pGal h) (sGal h) = Ok (u, week_start Galileo u)).
    { destruct (l Galileo) as [u0|]; cbn [start_c prev_c] in Hrem.
      - destruct Hrem as (H0 & Hs & Hp). rewrite Hs, Hp. apply weekly_next; try assumption. lia.
      - destruct Hrem as (Hs & Hp). rewrite Hs, Hp. apply weekly_first; assumption. }
    rewrite R. eexists. split; [reflexivity|]. cbn [sGal]. split; [reflexivity|].
    apply Hother; [intros c' Hne; destruct c'; try congruence; cbn; split; reflexivity|].
    repeat split; try exact Hu; reflexivity.
  - (* GLONASS *)
    rewrite (parse_glonass_enc u Hu).
    destruct (glo_parts u Hu) as (Hd & Hm & Hsum & _).
    assert (Hstart : (if (Z.to_N (glo_day u) <? pGloDay h)%N then sGlo h + 7 * ns_per_day else sGlo h) = week_start Glonass u).
    { destruct (l Glonass) as [u0|]; cbn [start_c prev_c] in Hrem.
      - destruct Hrem as (H0 & Hs & Hp). rewrite Hs, Hp.
        destruct (glo_parts u0 H0) as (Hd0 & Hm0 & Hsum0 & _).
        destruct Hadm as [Hle Hlt].
        unfold ns_per_day, six_days, week, day, ms in *.
        destruct (week_start_next Glonass u0 u ltac:(unfold six_days; lia)) as [E|E]; unfold week in E.
        + destruct (N.ltb_spec (Z.to_N (glo_day u)) (Z.to_N (glo_day u0))) as [C|_]; [|exact (eq_sym E)].
          exfalso. nia.
        + destruct (N.ltb_spec (Z.to_N (glo_day u)) (Z.to_N (glo_day u0))) as [_|C]; [lia|].
          exfalso. nia.
      - destruct Hrem as (Hs & Hp). rewrite Hs, Hp.
        destruct (N.ltb_spec (Z.to_N (glo_day u)) 0) as [C|_]; [lia|]. congruence. }
    rewrite Hstart.
    eexists. split.
    + f_equal. f_equal. unfold ns_per_day, ns_per_ms, day, ms in *. rewrite !Z2N.id by lia. lia.
    + cbn [sGlo]. split; [reflexivity|].
      apply Hother; [intros c' Hne; destruct c'; try congruence; cbn; split; reflexivity|].
      repeat split; try exact Hu; reflexivity.
  - (* BeiDou *)
    assert (W : weekly Beidou) by (right; right; reflexivity).
    assert (R : utc_from_timestamp (enc Beidou u) (pBei h) (sBei h) = Ok (u, week_start Beidou u)).
    { destruct (l Beidou) as [u0|]; cbn [start_c prev_c] in Hrem.
      - destruct Hrem as (H0 & Hs & Hp). rewrite Hs, Hp. apply weekly_next; try assumption. lia.
      - destruct Hrem as (Hs & Hp). rewrite Hs, Hp. apply weekly_first; assumption. }
    rewrite R. eexists. split; [reflexivity|]. cbn [sBei]. split; [reflexivity|].
    apply Hother; [intros c' Hne; destruct c'; try congruence; cbn; split; reflexivity|].
    repeat split; try exact Hu; reflexivity.
Qed.

(* an illegal timestamp is reported as an error and leaves the state alone *)
Lemma bad_step h c k ts : legal_ts c ts = false -> (ts < 1073741824)%N ->
  exists e, time_from_timestamp h (Z.of_N (msm_type c k)) ts = (Err e, h).
Proof.
  intros Hl Hts. destruct (msm_type_props c k) as (_ & _ & Hc).
  unfold time_from_timestamp. rewrite Hc.
  assert (Hw : forall prev s, (604800000 <= ts)%N -> exists e, utc_from_timestamp ts prev s = Err e).
  { intros prev s H. unfold utc_from_timestamp. change MaxTimestamp with 604799999%N.
    destruct (N.ltb_spec 604799999 ts); [eexists; reflexivity|lia]. }
  destruct c; cbn [legal_ts] in Hl.
  - apply N.ltb_ge in Hl. destruct (Hw (pGPS h) (sGPS h) Hl) as [e ->]. exists e. reflexivity.
  - apply N.ltb_ge in Hl. destruct (Hw (pGal h) (sGal h) Hl) as [e ->]. exists e. reflexivity.
  - unfold parse_glonass. change MaxTimestampGlonass with 891706367%N. change MillisIn24Hours with 86400000%N.
    destruct (N.ltb_spec 891706367 ts); [eexists; reflexivity|].
    rewrite ldiff_day_mask by exact Hts.
    change 134217727%N with (N.ones 27) in Hl. rewrite N.land_ones, N.shiftr_div_pow2 in Hl.
    change (2 ^ 27)%N with 134217728%N in Hl.
    destruct (N.leb_spec 86400000 (ts mod 134217728)); [eexists; reflexivity|].
    exfalso. apply andb_false_iff in Hl. destruct Hl as [Hl|Hl]; apply N.ltb_ge in Hl.
    + assert (ts / 134217728 <= 6)%N; [|lia]. Z.div_mod_to_equations. lia.
    + lia.
  - apply N.ltb_ge in Hl. destruct (Hw (pBei h) (sBei h) Hl) as [e ->]. exists e. reflexivity.
Qed.

Lemma enc_bound c u : u mod ms = 0 -> (enc c u < 1073741824)%N.
Proof.
  intros Hu. destruct c.
  - destruct (enc_weekly_bound GPS u ltac:(left; reflexivity) Hu) as [H _]. change MaxTimestamp with 604799999%N in H. lia.
  - destruct (enc_weekly_bound Galileo u ltac:(right; left; reflexivity) Hu) as [H _]. change MaxTimestamp with 604799999%N in H. lia.
  - destruct (glo_parts u Hu) as (Hd & Hm & _ & E). rewrite E. lia.
  - destruct (enc_weekly_bound Beidou u ltac:(right; right; reflexivity) Hu) as [H _]. change MaxTimestamp with 604799999%N in H. lia.
Qed.

(* ---------- C17 / C06: every admissible history is reported truthfully ---------- *)

Theorem history_true_times na T : forall evs l h, Inv T l h -> admissible_from na T l evs = true ->
  exists rs h', run_history h evs = Ok (rs, h') /\ Forall2 (fun e r => report_ok e r = true) evs rs.
Proof.
  induction evs as [|e evs IH]; intros l h HI Ha.
  - exists [], h. split; [reflexivity|constructor].
  - unfold run_history in *. cbn [map run_frames]. destruct e as [c k u|c k ts]; cbn [admissible_from] in Ha.
    + (* observation *)
      apply andb_true_iff in Ha. destruct Ha as [Ha Hrest]. apply andb_true_iff in Ha. destruct Ha as [Hu Hadm].
      apply Z.eqb_eq in Hu.
      assert (Hadm' : match l c with None => week_start c u = week_start c T | Some u0 => u0 <= u /\ u - u0 < six_days end).
      { destruct (l c).
        - apply andb_true_iff in Hadm. destruct Hadm as [A B]. split; lia.
        - apply andb_true_iff in Hadm. destruct Hadm as [A _]. apply Z.eqb_eq in A. exact A. }
      destruct (obs_step T l h c k u HI Hu Hadm') as (h1 & Ht & Hs & HI1).
      cbn [event_frame]. rewrite (time_frame_message h c k 0 (enc c u) ltac:(lia) (enc_bound c u Hu)).
      cbv zeta. rewrite Ht. cbn [fst snd bind].
      destruct (IH _ h1 HI1 Hrest) as (rs & h' & Hr & Hf). rewrite Hr. cbn [bind fst snd msent msow].
      exists ((Some (Ok u), start_of_week h1 (Z.of_N (msm_type c k))) :: rs), h'. split; [reflexivity|].
      constructor; [|exact Hf]. rewrite Hs. cbn [report_ok]. rewrite !Z.eqb_refl. reflexivity.
    + (* illegal timestamp *)
      apply andb_true_iff in Ha. destruct Ha as [Ha Hrest]. apply andb_true_iff in Ha. destruct Ha as [Hl Hts].
      apply negb_true_iff in Hl. apply N.ltb_lt in Hts.
      destruct (bad_step h c k ts Hl Hts) as [er Ht].
      cbn [event_frame]. rewrite (time_frame_message h c k 0 ts ltac:(lia) Hts).
      cbv zeta. rewrite Ht. cbn [fst snd bind].
      destruct (IH l h HI Hrest) as (rs & h' & Hr & Hf). rewrite Hr. cbn [bind fst snd msent msow].
      eexists. exists h'. split; [reflexivity|]. constructor; [reflexivity|exact Hf].
Qed.

(* the precondition of C06 (first observation not before the start time) implies that of C17 *)
Lemma admissible_weaken T : forall evs l, admissible_from true T l evs = true -> admissible_from false T l evs = true.
Proof.
  induction evs as [|e evs IH]; intros l H; [reflexivity|].
  destruct e as [c k u|c k ts]; cbn [admissible_from] in *.
  - apply andb_true_iff in H. destruct H as [H Hr]. apply andb_true_iff in H. destruct H as [Hu Hc].
    rewrite Hu, (IH _ Hr), !andb_true_r. cbn [andb].
    destruct (l c); [exact Hc|]. apply andb_true_iff in Hc. destruct Hc as [A _]. rewrite A. reflexivity.
  - apply andb_true_iff in H. destruct H as [H Hr]. rewrite H, (IH _ Hr). reflexivity.
Qed.

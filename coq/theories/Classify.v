(* Classify.v - closed-form model of utils.MSM4 / MSM7 / MSM and GetConstellation. *)
From NTRIP Require Import Base.
From NTRIPGen Require Import GenConsts.
Open Scope Z_scope.

Definition zmem (t : Z) (l : list N) : bool := existsb (fun x => t =? Z.of_N x) l.

Definition msm4_types : list N :=
  [MessageTypeMSM4GPS; MessageTypeMSM4Glonass; MessageTypeMSM4Galileo; MessageTypeMSM4SBAS;
   MessageTypeMSM4QZSS; MessageTypeMSM4Beidou; MessageTypeMSM4NavicIrnss].
Definition msm7_types : list N :=
  [MessageTypeMSM7GPS; MessageTypeMSM7Glonass; MessageTypeMSM7Galileo; MessageTypeMSM7SBAS;
   MessageTypeMSM7QZSS; MessageTypeMSM7Beidou; MessageTypeMSM7NavicIrnss].

Definition msm4b (t : Z) : bool := zmem t msm4_types.
Definition msm7b (t : Z) : bool := zmem t msm7_types.
Definition msmb (t : Z) : bool := msm4b t || msm7b t.

(* constellation names as small integers:
   0 unknown, 1 GPS, 2 Glonass, 3 Galileo, 4 SBAS, 5 QZSS, 6 Beidou, 7 NavIC/IRNSS *)
Definition constellation_code (t : Z) : N :=
  if (t =? Z.of_N MessageTypeMSM4GPS) || (t =? Z.of_N MessageTypeMSM7GPS) then 1
  else if (t =? Z.of_N MessageTypeMSM4Glonass) || (t =? Z.of_N MessageTypeMSM7Glonass) then 2
  else if (t =? Z.of_N MessageTypeMSM4Galileo) || (t =? Z.of_N MessageTypeMSM7Galileo) then 3
  else if (t =? Z.of_N MessageTypeMSM4SBAS) || (t =? Z.of_N MessageTypeMSM7SBAS) then 4
  else if (t =? Z.of_N MessageTypeMSM4QZSS) || (t =? Z.of_N MessageTypeMSM7QZSS) then 5
  else if (t =? Z.of_N MessageTypeMSM4Beidou) || (t =? Z.of_N MessageTypeMSM7Beidou) then 6
  else if (t =? Z.of_N MessageTypeMSM4NavicIrnss) || (t =? Z.of_N MessageTypeMSM7NavicIrnss) then 7
  else 0.

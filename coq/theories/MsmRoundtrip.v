(* MsmRoundtrip.v - C04: the MSM4/MSM7 decoders of Msm.v reproduce exactly the message that
   the specification encoder of MsmSpec.v wrote, for every well-formed abstract message and
   every amount of zero padding. *)
From NTRIP Require Import Base Bits BitsProofs Crc CrcProofs Time Classify Frame FrameSpec FrameProofs
     WriteProofs EncProofs Msm MsmSpec Station StationProofs MsmProofs.
From NTRIPGen Require Import GenConsts.
From Coq Require Import ZifyN ZifyNat ZifyBool.
Open Scope N_scope.

(* ================= A. generic reading lemmas ================= *)

Lemma flat_map_len {A B} (f : A -> list B) w d :
  (forall t, length (f t) = w) -> length (flat_map f d) = (length d * w)%nat.
Proof.
  intros H. induction d as [|t d IH]; [reflexivity|].
  cbn [flat_map length]. rewrite app_length, H, IH. lia.
Qed.

Lemma slice_mid {A} (pre x post : list A) : slice (pre ++ x ++ post) (length pre) (length x) = x.
Proof.
  replace (length pre) with (length pre + 0)%nat at 1 by lia. rewrite slice_app_r.
  rewrite slice_app_l by lia. apply slice_all.
Qed.

Lemma mid_in_range f (pre x post : list bool) : bits_of f = pre ++ x ++ post ->
  (length pre + length x <= 8 * length f)%nat.
Proof. intros H. rewrite <- bits_of_length, H, !app_length. lia. Qed.

(* an unsigned field *)
Lemma getu_at f pre w v post pos : bits_of f = pre ++ put_u w v ++ post -> pos = length pre ->
  v < 2 ^ N.of_nat w -> (w <= 64)%nat -> getu f pos w = Ok v.
Proof.
  intros H -> Hv Hw. pose proof (mid_in_range f pre _ post H) as Hr. rewrite put_u_length in Hr.
  rewrite getu_eq, get_u_spec by assumption.
  rewrite H. rewrite <- (put_u_length w v) at 2. rewrite slice_mid.
  rewrite N_of_bits_put_u_small by exact Hv. reflexivity.
Qed.

(* a raw bit string read as an unsigned number *)
Lemma getu_raw f pre x post pos w : bits_of f = pre ++ x ++ post -> pos = length pre -> w = length x ->
  (w <= 64)%nat -> getu f pos w = Ok (N_of_bits x).
Proof.
  intros H -> -> Hw. pose proof (mid_in_range f pre _ post H) as Hr.
  rewrite getu_eq, get_u_spec by assumption. rewrite H, slice_mid. reflexivity.
Qed.

Lemma gets_at f pre w z post pos : bits_of f = pre ++ put_s w z ++ post -> pos = length pre ->
  (2 <= w <= 64)%nat -> (- 2 ^ Z.of_nat (w - 1) <= z < 2 ^ Z.of_nat (w - 1))%Z -> gets f pos w = Ok z.
Proof.
  intros H -> Hw Hz. pose proof (mid_in_range f pre _ post H) as Hr. rewrite put_s_length in Hr.
  rewrite gets_eq, get_s_spec by (lia || assumption).
  rewrite H. rewrite <- (put_s_length w z) at 2. rewrite slice_mid.
  rewrite Z_of_bits_put_s by (lia || exact Hz). reflexivity.
Qed.

(* an array of unsigned fields *)
Lemma read_us_at {T} f w (g : T -> N) : forall (d : list T) pre post pos,
  bits_of f = pre ++ flat_map (fun t => put_u w (g t)) d ++ post -> pos = length pre ->
  (w <= 64)%nat -> Forall (fun t => g t < 2 ^ N.of_nat w) d ->
  read_us f pos w (length d) = Ok (map g d).
Proof.
  induction d as [|t d IH]; intros pre post pos H Hp Hw Hv; [reflexivity|].
  inversion Hv as [|? ? Ht Hd]; subst. cbn [length read_us flat_map map] in *.
  rewrite <- app_assoc in H.
  rewrite (getu_at f pre w (g t) _ _ H eq_refl Ht Hw). cbn [bind].
  rewrite (IH (pre ++ put_u w (g t)) post); cbn [bind]; try assumption; try reflexivity.
  - rewrite <- app_assoc. exact H.
  - rewrite app_length, put_u_length. reflexivity.
Qed.

Lemma read_ss_at {T} f w (g : T -> Z) : forall (d : list T) pre post pos,
  bits_of f = pre ++ flat_map (fun t => put_s w (g t)) d ++ post -> pos = length pre ->
  (2 <= w <= 64)%nat -> Forall (fun t => (- 2 ^ Z.of_nat (w - 1) <= g t < 2 ^ Z.of_nat (w - 1))%Z) d ->
  read_ss f pos w (length d) = Ok (map g d).
Proof.
  induction d as [|t d IH]; intros pre post pos H Hp Hw Hv; [reflexivity|].
  inversion Hv as [|? ? Ht Hd]; subst. cbn [length read_ss flat_map map] in *.
  rewrite <- app_assoc in H.
  rewrite (gets_at f pre w (g t) _ _ H eq_refl Hw Ht). cbn [bind].
  rewrite (IH (pre ++ put_s w (g t)) post); cbn [bind]; try assumption; try reflexivity.
  - rewrite <- app_assoc. exact H.
  - rewrite app_length, put_s_length. reflexivity.
Qed.

(* single bits read as 0/1 *)
Lemma put_u_1 (b : bool) : put_u 1 (b2n b) = [b].
Proof. destruct b; reflexivity. Qed.

Lemma read_bits_at {T} f (g : T -> bool) (d : list T) pre post pos :
  bits_of f = pre ++ map g d ++ post -> pos = length pre ->
  read_us f pos 1 (length d) = Ok (map (fun t => b2n (g t)) d).
Proof.
  intros H Hp. apply (read_us_at f 1 (fun t => b2n (g t)) d pre post pos); try assumption; try lia.
  - rewrite H. f_equal. f_equal. clear. induction d as [|t d IH]; [reflexivity|].
    cbn [map flat_map]. rewrite put_u_1, IH. reflexivity.
  - apply Forall_forall. intros t _. destruct (g t); cbn; lia.
Qed.

Lemma read_us_n {T} f w (g : T -> N) (d : list T) pre post pos n :
  bits_of f = pre ++ flat_map (fun t => put_u w (g t)) d ++ post -> pos = length pre -> n = length d ->
  (w <= 64)%nat -> Forall (fun t => g t < 2 ^ N.of_nat w) d -> read_us f pos w n = Ok (map g d).
Proof. intros H Hp -> Hw Hv. exact (read_us_at f w g d pre post pos H Hp Hw Hv). Qed.
Lemma read_ss_n {T} f w (g : T -> Z) (d : list T) pre post pos n :
  bits_of f = pre ++ flat_map (fun t => put_s w (g t)) d ++ post -> pos = length pre -> n = length d ->
  (2 <= w <= 64)%nat -> Forall (fun t => (- 2 ^ Z.of_nat (w - 1) <= g t < 2 ^ Z.of_nat (w - 1))%Z) d ->
  read_ss f pos w n = Ok (map g d).
Proof. intros H Hp -> Hw Hv. exact (read_ss_at f w g d pre post pos H Hp Hw Hv). Qed.
Lemma read_bits_n {T} f (g : T -> bool) (d : list T) pre post pos n :
  bits_of f = pre ++ map g d ++ post -> pos = length pre -> n = length d ->
  read_us f pos 1 n = Ok (map (fun t => b2n (g t)) d).
Proof. intros H Hp ->. exact (read_bits_at f g d pre post pos H Hp). Qed.

(* ================= B. masks ================= *)

Lemma flat_map_ext_in {A B} (f g : A -> list B) l : (forall a, In a l -> f a = g a) -> flat_map f l = flat_map g l.
Proof.
  induction l as [|a l IH]; intros H; [reflexivity|]. cbn [flat_map].
  rewrite (H a (or_introl eq_refl)), IH; [reflexivity|]. intros b Hb. apply H. right. exact Hb.
Qed.

Lemma N_of_bits_snoc l b : N_of_bits (l ++ [b]) = 2 * N_of_bits l + b2n b.
Proof. unfold N_of_bits. rewrite fold_left_app. reflexivity. Qed.

(* bit i (from the left) of an MSB-first bit string *)
Lemma testbit_N_of_bits : forall (l : list bool) i, (i < length l)%nat ->
  N.testbit (N_of_bits l) (N.of_nat (length l - 1 - i)) = nth i l false.
Proof.
  intros l. induction l as [|b l IH] using rev_ind; intros i Hi; [cbn in Hi; lia|].
  rewrite app_length in *. cbn [length] in *. rewrite N_of_bits_snoc.
  destruct (Nat.eq_dec i (length l)) as [->|Hne].
  - replace (length l + 1 - 1 - length l)%nat with 0%nat by lia. rewrite app_nth2, Nat.sub_diag by lia. cbn [nth].
    change (N.of_nat 0) with 0. destruct b; cbn [b2n].
    + rewrite N.testbit_odd_0. reflexivity.
    + rewrite N.add_0_r, N.testbit_even_0. reflexivity.
  - rewrite app_nth1 by lia. rewrite <- (IH i) by lia.
    replace (N.of_nat (length l + 1 - 1 - i)) with (N.succ (N.of_nat (length l - 1 - i))) by lia.
    destruct b; cbn [b2n].
    + rewrite N.testbit_odd_succ by lia. reflexivity.
    + rewrite N.add_0_r, N.testbit_even_succ by lia. reflexivity.
Qed.

Lemma mask_bits_length w ids : length (mask_bits w ids) = w.
Proof. unfold mask_bits. rewrite map_length, seq_length. reflexivity. Qed.

(* the ids of an ascending list are recovered from its mask *)
Lemma mask_ids_mask_bits w ids : ascending 0 (N.of_nat w) ids = true ->
  mask_ids w (N_of_bits (mask_bits w ids)) = ids.
Proof.
  intros Hasc. unfold mask_ids.
  (* each position k in 1..w tests bit (w-k), i.e. element k-1 of the bit string *)
  assert (E : forall k, In k (seq 1 w) ->
            N.testbit (N_of_bits (mask_bits w ids)) (N.of_nat (w - k)) = existsb (N.eqb (N.of_nat k)) ids).
  { intros k Hk. apply in_seq in Hk.
    pose proof (testbit_N_of_bits (mask_bits w ids) (k - 1)) as T. rewrite mask_bits_length in T.
    replace (w - 1 - (k - 1))%nat with (w - k)%nat in T by lia. rewrite T by lia.
    unfold mask_bits. rewrite nth_indep with (d' := existsb (N.eqb (N.of_nat 0)) ids) by (rewrite map_length, seq_length; lia).
    rewrite (map_nth (fun k => existsb (N.eqb (N.of_nat k)) ids)). rewrite seq_nth by lia.
    replace (1 + (k - 1))%nat with k by lia. reflexivity. }
  rewrite (flat_map_ext_in _ (fun k => if existsb (N.eqb (N.of_nat k)) ids then [N.of_nat k] else [])) by
    (intros k Hk; rewrite (E k Hk); reflexivity).
  clear E.
  (* generalise the lower bound: filter of lo+1..w by membership in an ascending list above lo *)
  assert (G : forall n lo ids, ascending (N.of_nat lo) (N.of_nat (lo + n)) ids = true ->
              flat_map (fun k => if existsb (N.eqb (N.of_nat k)) ids then [N.of_nat k] else []) (seq (S lo) n) = ids).
  { clear. induction n as [|n IH]; intros lo ids H.
    - destruct ids as [|x r]; [reflexivity|]. cbn [ascending] in H. exfalso. lia.
    - cbn [seq flat_map]. destruct ids as [|x r]; cbn [existsb].
      + cbn [app]. apply (IH (S lo) []). reflexivity.
      + cbn [ascending] in H.
        apply andb_true_iff in H. destruct H as [H Hr]. apply andb_true_iff in H. destruct H as [H1 H2].
        destruct (N.eqb_spec (N.of_nat (S lo)) x) as [E|Hne]; [subst x|].
        * cbn [orb app]. f_equal.
          (* the rest: S lo is not among r, and r ascends above S lo *)
          rewrite (flat_map_ext_in _ (fun k => if existsb (N.eqb (N.of_nat k)) r then [N.of_nat k] else [])).
          -- apply (IH (S lo) r). replace (S lo + n)%nat with (lo + S n)%nat by lia. exact Hr.
          -- intros k Hk. apply in_seq in Hk. cbn [existsb].
             destruct (N.eqb_spec (N.of_nat k) (N.of_nat (S lo))) as [C|_]; [lia|reflexivity].
        * cbn [orb].
          assert (Hnot : existsb (N.eqb (N.of_nat (S lo))) r = false).
          { assert (Hlt : N.of_nat (S lo) < x) by lia. clear - Hr Hlt.
            revert x Hlt Hr. induction r as [|y r IH]; intros x Hlt Hr; [reflexivity|].
            cbn [ascending existsb] in *. apply andb_true_iff in Hr. destruct Hr as [Hr Hr2].
            apply andb_true_iff in Hr. destruct Hr as [Hxy _].
            destruct (N.eqb_spec (N.of_nat (S lo)) y) as [C|_]; [lia|]. cbn [orb]. apply (IH y); [lia|exact Hr2]. }
          rewrite Hnot. cbn [app]. apply (IH (S lo) (x :: r)). cbn [ascending].
          replace (S lo + n)%nat with (lo + S n)%nat by lia.
          rewrite Hr, andb_true_r. apply andb_true_iff. split; [|exact H2]. lia. }
  apply (G w 0%nat ids). exact Hasc.
Qed.

(* the cell mask *)
Lemma nth_concat_rows {A} (d : A) : forall (rows : list (list A)) nsig i j,
  Forall (fun r => length r = nsig) rows -> (i < length rows)%nat -> (j < nsig)%nat ->
  nth (i * nsig + j) (concat rows) d = nth j (nth i rows []) d.
Proof.
  induction rows as [|r rows IH]; intros nsig i j Hr Hi Hj; [cbn in Hi; lia|].
  inversion Hr as [|? ? Hlen Hr']; subst. cbn [concat]. destruct i as [|i].
  - cbn [nth]. rewrite app_nth1 by lia. reflexivity.
  - cbn [nth]. rewrite app_nth2 by lia. replace (S i * length r + j - length r)%nat with (i * length r + j)%nat by lia.
    apply IH; [exact Hr'|cbn [length] in Hi; lia|exact Hj].
Qed.

Lemma concat_rows_length {A} : forall (rows : list (list A)) nsig,
  Forall (fun r => length r = nsig) rows -> length (concat rows) = (length rows * nsig)%nat.
Proof.
  induction rows as [|r rows IH]; intros nsig H; [reflexivity|].
  inversion H as [|? ? Hl Hr]; subst. cbn [concat length]. rewrite app_length, (IH _ Hr). lia.
Qed.

Lemma map_seq_nth {A} (l : list A) d : map (fun i => nth i l d) (seq 0 (length l)) = l.
Proof.
  induction l as [|a l IH]; [reflexivity|]. cbn [length seq map nth]. f_equal.
  rewrite <- seq_shift, map_map. exact IH.
Qed.

Lemma cell_rows_of_bits rows nsat nsig : length rows = nsat -> Forall (fun r => length r = nsig) rows ->
  cell_rows (N_of_bits (concat rows)) nsat nsig = rows.
Proof.
  intros Hn Hr. unfold cell_rows.
  pose proof (concat_rows_length rows nsig Hr) as Hl. rewrite Hn in Hl.
  etransitivity; [|apply (map_seq_nth rows [])]. rewrite Hn.
  apply map_ext_in. intros i Hi. apply in_seq in Hi.
  assert (Hri : length (nth i rows []) = nsig).
  { rewrite Forall_forall in Hr. apply Hr, nth_In. lia. }
  etransitivity; [|apply (map_seq_nth (nth i rows []) false)]. rewrite Hri.
  apply map_ext_in. intros j Hj. apply in_seq in Hj.
  assert (Hlt : (i * nsig + j < nsat * nsig)%nat) by nia.
  pose proof (testbit_N_of_bits (concat rows) (i * nsig + j)) as T. rewrite Hl in T.
  rewrite T by lia. apply nth_concat_rows; [exact Hr|lia|lia].
Qed.

(* ================= C. cells ================= *)

Notation fld := (Z * Z * N * bool * N * Z)%type.
Definition norm (k7 : bool) (t : fld) : fld :=
  match t with (rd, prd, lock, half, cnr, rrd) => (rd, prd, lock, half, cnr, if k7 then rrd else 0%Z) end.
Definition cell_of (k7 : bool) (sat : N) (t : N * fld) : sigcell :=
  match t with (sid, (rd, prd, lock, half, cnr, rrd)) =>
    {| g_sat := sat; g_id := sid; g_rd := rd; g_prd := prd; g_lock := lock; g_half := half;
       g_cnr := cnr; g_rrd := if k7 then rrd else 0%Z |} end.

Lemma group_cells_eq k7 : forall rows sats sigs data,
  group_cells k7 sats sigs rows data =
  match rows, sats with
  | row :: rows', sat :: sats' =>
    map (cell_of k7 sat) (combine (row_ids row sigs) (firstn (length (row_ids row sigs)) data))
    :: group_cells k7 sats' sigs rows' (skipn (length (row_ids row sigs)) data)
  | _, _ => []
  end.
Proof. intros [|row rows] [|sat sats] sigs data; reflexivity. Qed.

Lemma attach_row_spec k7 sat : forall row sigs (data : list fld),
  (length (row_ids row sigs) <= length data)%nat ->
  attach_row sat sigs row (map (norm k7) data) =
  (map (cell_of k7 sat) (combine (row_ids row sigs) (firstn (length (row_ids row sigs)) data)),
   map (norm k7) (skipn (length (row_ids row sigs)) data)).
Proof.
  induction row as [|c row IH]; intros sigs data Hn.
  - destruct sigs; cbn [attach_row row_ids length combine]; change (skipn 0 data) with data; reflexivity.
  - destruct sigs as [|s sigs].
    + cbn [attach_row row_ids length combine]. change (skipn 0 data) with data. reflexivity.
    + cbn [attach_row]. destruct data as [|t data].
      * cbn [map]. cbn [length] in Hn. destruct (row_ids (c :: row) (s :: sigs)); [reflexivity|cbn [length] in Hn; lia].
      * cbn [map]. destruct c.
        -- cbn [row_ids length] in *. change (firstn (S (length (row_ids row sigs))) (t :: data))
             with (t :: firstn (length (row_ids row sigs)) data).
           change (skipn (S (length (row_ids row sigs))) (t :: data)) with (skipn (length (row_ids row sigs)) data).
           destruct t as [[[[[rd prd] lock] half] cnr] rrd]. cbn [norm].
           rewrite (IH sigs data) by lia. cbn [combine map cell_of]. reflexivity.
        -- cbn [row_ids]. exact (IH sigs (t :: data) Hn).
Qed.

Lemma row_ids_length : forall row sigs, length row = length sigs ->
  length (row_ids row sigs) = length (filter (fun b : bool => b) row).
Proof.
  induction row as [|c row IH]; intros [|s sigs] H; try reflexivity; try discriminate.
  cbn [length] in H. injection H as H. cbn [row_ids filter]. destruct c; cbn [length]; rewrite (IH sigs H); reflexivity.
Qed.

Lemma count_true_cons row rows : count_true (row :: rows) = (length (filter (fun b : bool => b) row) + count_true rows)%nat.
Proof. unfold count_true. cbn [concat]. rewrite filter_app, app_length. reflexivity. Qed.

Lemma attach_spec k7 sigs : forall rows sats (data : list fld),
  Forall (fun r => length r = length sigs) rows -> length data = count_true rows ->
  attach sats sigs rows (map (norm k7) data) = group_cells k7 sats sigs rows data.
Proof.
  induction rows as [|row rows IH]; intros sats data Hr Hd; [destruct sats; reflexivity|].
  rewrite group_cells_eq. destruct sats as [|sat sats]; [reflexivity|].
  inversion Hr as [|? ? Hl Hr']; subst. rewrite count_true_cons in Hd.
  pose proof (row_ids_length row sigs Hl) as Hn.
  cbn [attach]. rewrite attach_row_spec by lia. f_equal.
  apply IH; [exact Hr'|]. rewrite skipn_length. lia.
Qed.

Definition f_rd (t : fld) : Z := fst (fst (fst (fst (fst t)))).
Definition f_prd (t : fld) : Z := snd (fst (fst (fst (fst t)))).
Definition f_lock (t : fld) : N := snd (fst (fst (fst t))).
Definition f_half (t : fld) : bool := snd (fst (fst t)).
Definition f_cnr (t : fld) : N := snd (fst t).
Definition f_rrd (t : fld) : Z := snd t.

Lemma zip6_maps (k7 : bool) (d : list fld) :
  zip6 (map f_rd d) (map f_prd d) (map f_lock d) (map (fun t => b2n (f_half t)) d) (map f_cnr d)
       (map (fun t => if k7 then f_rrd t else 0%Z) d) = map (norm k7) d.
Proof.
  induction d as [|t d IH]; [reflexivity|]. cbn [map zip6]. rewrite IH.
  destruct t as [[[[[rd prd] lock] half] cnr] rrd]. cbn [f_rd f_prd f_lock f_half f_cnr f_rrd fst snd norm].
  destruct half; reflexivity.
Qed.

(* satellite cells *)
Notation sd := (N * N * N * Z)%type.
Definition s_w (t : sd) : N := fst (fst (fst t)).
Definition s_e (t : sd) : N := snd (fst (fst t)).
Definition s_f (t : sd) : N := snd (fst t).
Definition s_r (t : sd) : Z := snd t.

Lemma sat4_view : forall (sats : list N) (d : list sd),
  map (fun t => {| s_id := fst (fst t); s_whole := snd (fst t); s_ext := 0; s_frac := snd t; s_rate := 0%Z |})
      (combine (combine sats (map s_w d)) (map s_f d)) =
  map (fun t : N * sd => match t with (id, (w, e, f, r)) =>
         {| s_id := id; s_whole := w; s_ext := 0; s_frac := f; s_rate := 0%Z |} end) (combine sats d).
Proof.
  induction sats as [|s sats IH]; intros [|t d]; try reflexivity.
  cbn [map combine]. rewrite IH. destruct t as [[[w e] f] r]. reflexivity.
Qed.

Lemma sat7_view : forall (sats : list N) (d : list sd),
  map (fun t => match t with (((id, w), e), (f, r)) =>
         {| s_id := id; s_whole := w; s_ext := e; s_frac := f; s_rate := r |} end)
      (combine (combine (combine sats (map s_w d)) (map s_e d)) (combine (map s_f d) (map s_r d))) =
  map (fun t : N * sd => match t with (id, (w, e, f, r)) =>
         {| s_id := id; s_whole := w; s_ext := e; s_frac := f; s_rate := r |} end) (combine sats d).
Proof.
  induction sats as [|s sats IH]; intros [|t d]; try reflexivity.
  cbn [map combine]. rewrite IH. destruct t as [[[w e] f] r]. reflexivity.
Qed.

(* ================= D. the frame and the well-formedness facts ================= *)

Lemma frame_bits_gen bits extra :
  exists L R, bits_of (frame_of_payload (bytes_of_bits bits ++ extra)) = L ++ bits ++ R /\ length L = 24%nat /\
              length (frame_of_payload (bytes_of_bits bits ++ extra)) = ((length bits + 7) / 8 + length extra + 6)%nat.
Proof.
  destruct (bits_of_bytes_of_bits bits) as (Hb & Hl & _).
  rewrite frame_of_payload_length, app_length, Hl.
  rewrite frame_of_payload_shape. cbv zeta.
  set (n := N.of_nat (length (bytes_of_bits bits ++ extra))).
  set (c := crc24q_spec (leader n ++ bytes_of_bits bits ++ extra)).
  exists (bits_of (leader n)), (repeat false (pad_len (length bits)) ++ bits_of extra ++ bits_of [c / 65536; (c / 256) mod 256; c mod 256]).
  split; [|split; [|reflexivity]].
  - rewrite !bits_of_app, Hb, <- !app_assoc. reflexivity.
  - rewrite bits_of_length. reflexivity.
Qed.

Definition U (w : nat) (v : N) : Prop := v < 2 ^ N.of_nat w.
Definition Sg (w : nat) (z : Z) : Prop := (- 2 ^ Z.of_nat (w - 1) <= z < 2 ^ Z.of_nat (w - 1))%Z.
Lemma in_u_U w v : in_u w v = true -> U w v.
Proof. unfold in_u, U. intros H. apply N.ltb_lt in H. exact H. Qed.
Lemma in_s_Sg w z : in_s w z = true -> Sg w z.
Proof.
  unfold in_s, Sg. intros H. apply andb_true_iff in H. destruct H as [H1 H2].
  apply Z.leb_le in H1. apply Z.ltb_lt in H2. split; assumption.
Qed.

Definition sat_ok (t : sd) : Prop := U 8 (s_w t) /\ U 4 (s_e t) /\ U 10 (s_f t) /\ Sg 14 (s_r t).
Definition sig_ok (k7 : bool) (t : fld) : Prop :=
  if k7 then Sg 20 (f_rd t) /\ Sg 24 (f_prd t) /\ U 10 (f_lock t) /\ U 10 (f_cnr t) /\ Sg 15 (f_rrd t)
  else Sg 15 (f_rd t) /\ Sg 22 (f_prd t) /\ U 4 (f_lock t) /\ U 6 (f_cnr t).

Lemma sat_check_ok (t : sd) :
  (match t with (w, e, f, r) => in_u 8 w && in_u 4 e && in_u 10 f && in_s 14 r end) = true -> sat_ok t.
Proof.
  destruct t as [[[w e] f] r]. intros H. rewrite !andb_true_iff in H. destruct H as (((A & B) & C) & D).
  exact (conj (in_u_U _ _ A) (conj (in_u_U _ _ B) (conj (in_u_U _ _ C) (in_s_Sg _ _ D)))).
Qed.

Lemma sig_check_ok (k7 : bool) (t : fld) :
  (match t with (rd, prd, lock, half, cnr, rrd) =>
     if k7 then in_s 20 rd && in_s 24 prd && in_u 10 lock && in_u 10 cnr && in_s 15 rrd
     else in_s 15 rd && in_s 22 prd && in_u 4 lock && in_u 6 cnr end) = true -> sig_ok k7 t.
Proof.
  destruct t as [[[[[rd prd] lock] half] cnr] rrd]. destruct k7; intros H; rewrite !andb_true_iff in H.
  - destruct H as ((((A & B) & C) & D) & E).
    exact (conj (in_s_Sg _ _ A) (conj (in_s_Sg _ _ B) (conj (in_u_U _ _ C) (conj (in_u_U _ _ D) (in_s_Sg _ _ E))))).
  - destruct H as (((A & B) & C) & D).
    exact (conj (in_s_Sg _ _ A) (conj (in_s_Sg _ _ B) (conj (in_u_U _ _ C) (in_u_U _ _ D)))).
Qed.

Lemma wf_unpack m : wf_amsm m = true ->
  existsb (N.eqb (a_type m)) (if a_k7 m then msm7_type_list else msm4_type_list) = true /\
  U 12 (a_station m) /\ U 30 (a_ts m) /\ U 3 (a_iods m) /\ U 7 (a_sess m) /\ U 2 (a_clk m) /\ U 2 (a_ext m) /\
  U 3 (a_smint m) /\
  ascending 0 64 (a_sats m) = true /\ ascending 0 32 (a_sigs m) = true /\
  length (a_rows m) = length (a_sats m) /\ Forall (fun r => length r = length (a_sigs m)) (a_rows m) /\
  (length (a_sats m) * length (a_sigs m) <= 64)%nat /\
  length (a_satdata m) = length (a_sats m) /\ length (a_sigdata m) = count_true (a_rows m) /\
  (a_multi m = true -> (1 <= count_true (a_rows m))%nat) /\
  Forall sat_ok (a_satdata m) /\ Forall (sig_ok (a_k7 m)) (a_sigdata m).
Proof.
  unfold wf_amsm. intros H.
  repeat (apply andb_true_iff in H; let X := fresh "X" in destruct H as [H X]).
  repeat match goal with X : in_u _ _ = true |- _ => apply in_u_U in X end.
  repeat match goal with X : (_ =? _)%nat = true |- _ => apply Nat.eqb_eq in X end.
  repeat match goal with X : (_ <=? _)%nat = true |- _ => apply Nat.leb_le in X end.
  repeat split; try assumption.
  - apply Forall_forall. intros r Hr.
    match goal with X : forallb (fun r => (length r =? _)%nat) _ = true |- _ => rewrite forallb_forall in X; specialize (X r Hr); apply Nat.eqb_eq in X; exact X end.
  - intros Hm. match goal with X : (if a_multi m then _ else true) = true |- _ => rewrite Hm in X; apply Nat.leb_le in X; exact X end.
  - apply Forall_forall. intros t Ht.
    match goal with X : forallb (fun t : N * N * N * Z => _) (a_satdata m) = true |- _ => rewrite forallb_forall in X; exact (sat_check_ok t (X t Ht)) end.
  - apply Forall_forall. intros t Ht.
    match goal with X : forallb (fun t : Z * Z * N * bool * N * Z => _) (a_sigdata m) = true |- _ => rewrite forallb_forall in X; exact (sig_check_ok (a_k7 m) t (X t Ht)) end.
Qed.

(* ================= E. the header ================= *)

Definition chunks_hdr (m : amsm) : list (list bool) :=
  [put_u 12 (a_type m); put_u 12 (a_station m); put_u 30 (a_ts m); [a_multi m];
   put_u 3 (a_iods m); put_u 7 (a_sess m); put_u 2 (a_clk m); put_u 2 (a_ext m);
   [a_smooth m]; put_u 3 (a_smint m);
   mask_bits 64 (a_sats m); mask_bits 32 (a_sigs m); concat (a_rows m)].

Lemma header_bits_chunks m : header_bits m = concat (chunks_hdr m).
Proof. unfold header_bits, chunks_hdr. cbn [concat]. rewrite app_nil_r. reflexivity. Qed.

Lemma type_facts m : existsb (N.eqb (a_type m)) (if a_k7 m then msm7_type_list else msm4_type_list) = true ->
  U 12 (a_type m) /\ is_msm_type (a_type m) = true /\
  (if a_k7 m then msm7b (Z.of_N (a_type m)) = true else msm4b (Z.of_N (a_type m)) = true).
Proof.
  intros H. destruct (a_k7 m); cbn [existsb msm7_type_list msm4_type_list] in H;
    repeat (apply orb_true_iff in H; destruct H as [H|H]); try discriminate;
    apply N.eqb_eq in H; rewrite H; (split; [unfold U; cbn; lia|split; vm_compute; reflexivity]).
Qed.

Lemma b2n_eqb (b : bool) : (b2n b =? 1) = b.
Proof. destruct b; reflexivity. Qed.

Lemma header_length m : length (a_rows m) = length (a_sats m) ->
  Forall (fun r => length r = length (a_sigs m)) (a_rows m) ->
  length (header_bits m) = (169 + length (a_sats m) * length (a_sigs m))%nat.
Proof.
  intros H1 H2. unfold header_bits. rewrite !app_length, !put_u_length, !mask_bits_length.
  rewrite (concat_rows_length _ _ H2), H1. cbn [length]. lia.
Qed.

Section Raw.
  Variables (f : list N) (L R : list bool) (chunks : list (list bool)) (lenL : nat).
  Hypothesis Hbits : bits_of f = L ++ concat chunks ++ R.
  Hypothesis HlenL : length L = lenL.
  Lemma read_raw k pos w : (k < length chunks)%nat -> pos = (lenL + length (concat (firstn k chunks)))%nat ->
    w = length (nth k chunks []) -> (w <= 64)%nat -> getu f pos w = Ok (N_of_bits (nth k chunks [])).
  Proof.
    intros Hk Hp Hw H64. destruct (field_slice f L R chunks lenL Hbits HlenL k pos w Hk Hp Hw) as [S B].
    rewrite getu_eq, get_u_spec by assumption. rewrite S. reflexivity.
  Qed.
End Raw.

Section Header.
  Variables (m : amsm) (f : list N) (L R : list bool) (pad : nat).
  Hypothesis W : wf_amsm m = true.
  Hypothesis Hbits : bits_of f = L ++ msm_bits m ++ R.
  Hypothesis HL : length L = 24%nat.
  Hypothesis Hfl : length f = ((length (msm_bits m) + 7) / 8 + pad + 6)%nat.

  Lemma header_roundtrip :
    get_msm_header f = Ok (m_hdr (view m), (193 + length (a_sats m) * length (a_sigs m))%nat).
  Proof.
    destruct (wf_unpack m W) as (Hty & Hst & Hts & Hiods & Hsess & Hclk & Hext & Hsmint & Hsats & Hsigs & Hrows & Hrowl &
                                 Hcells & Hsd & Hgd & Hmulti & Hsatok & Hsigok).
    destruct (type_facts m Hty) as (Hty12 & Hmsm & _).
    pose proof (header_length m Hrows Hrowl) as Hhl.
    assert (Hflen : (8 * length f >= 48 + length (msm_bits m))%nat) by lia.
    assert (Hml : (length (msm_bits m) >= 169 + length (a_sats m) * length (a_sigs m))%nat).
    { unfold msm_bits. rewrite app_length, Hhl. lia. }
    assert (Hb2 : bits_of f = L ++ concat (chunks_hdr m) ++ (sat_bits m ++ sig_bits m ++ R)).
    { rewrite Hbits. unfold msm_bits. rewrite header_bits_chunks, <- !app_assoc. reflexivity. }
    unfold get_msm_header.
    change (Z.of_N LeaderLengthBytes) with 3%Z. change (Z.of_N CRCLengthBytes) with 3%Z.
    change (Z.of_N hdr_minBitsInHeader) with 169%Z. change (Z.of_N hdr_LenMessageType) with 12%Z.
    destruct (Z.ltb_spec ((Z.of_nat (length f) - 3 - 3) * 8) 169) as [C|_]; [lia|].
    destruct (Z.ltb_spec ((Z.of_nat (length f) - 3 - 3) * 8) 12) as [C|_]; [lia|].
    cbv zeta.
    repeat match goal with |- context [nn ?c] => let v := eval vm_compute in (nn c) in change (nn c) with v end.
    assert (Hk : forall k, (k < 13)%nat -> (k < length (chunks_hdr m))%nat) by (intros k Hk; exact Hk).
    rewrite (read_u f L _ (chunks_hdr m) 24%nat Hb2 HL 0 _ _ (a_type m)) by (reflexivity || assumption || lia || (apply Hk; lia)). cbn [bind].
    rewrite Hmsm. cbn [negb].
    rewrite (read_u f L _ (chunks_hdr m) 24%nat Hb2 HL 1 _ _ (a_station m)) by (reflexivity || assumption || lia || (apply Hk; lia)). cbn [bind].
    rewrite (read_u f L _ (chunks_hdr m) 24%nat Hb2 HL 2 _ _ (a_ts m)) by (reflexivity || assumption || lia || (apply Hk; lia)). cbn [bind].
    rewrite (read_u f L _ (chunks_hdr m) 24%nat Hb2 HL 3 _ _ (b2n (a_multi m)))
      by (reflexivity || lia || (apply Hk; lia) || (symmetry; apply put_u_1) || (destruct (a_multi m); cbn; lia)). cbn [bind].
    rewrite (read_u f L _ (chunks_hdr m) 24%nat Hb2 HL 4 _ _ (a_iods m)) by (reflexivity || assumption || lia || (apply Hk; lia)). cbn [bind].
    rewrite (read_u f L _ (chunks_hdr m) 24%nat Hb2 HL 5 _ _ (a_sess m)) by (reflexivity || assumption || lia || (apply Hk; lia)). cbn [bind].
    rewrite (read_u f L _ (chunks_hdr m) 24%nat Hb2 HL 6 _ _ (a_clk m)) by (reflexivity || assumption || lia || (apply Hk; lia)). cbn [bind].
    rewrite (read_u f L _ (chunks_hdr m) 24%nat Hb2 HL 7 _ _ (a_ext m)) by (reflexivity || assumption || lia || (apply Hk; lia)). cbn [bind].
    rewrite (read_u f L _ (chunks_hdr m) 24%nat Hb2 HL 8 _ _ (b2n (a_smooth m)))
      by (reflexivity || lia || (apply Hk; lia) || (symmetry; apply put_u_1) || (destruct (a_smooth m); cbn; lia)). cbn [bind].
    rewrite (read_u f L _ (chunks_hdr m) 24%nat Hb2 HL 9 _ _ (a_smint m)) by (reflexivity || assumption || lia || (apply Hk; lia)). cbn [bind].
    rewrite (read_raw f L _ (chunks_hdr m) 24%nat Hb2 HL 10) by (reflexivity || lia || (apply Hk; lia)). cbn [bind].
    rewrite (read_raw f L _ (chunks_hdr m) 24%nat Hb2 HL 11) by (reflexivity || lia || (apply Hk; lia)). cbn [bind].
    change (nth 10 (chunks_hdr m) []) with (mask_bits 64 (a_sats m)).
    change (nth 11 (chunks_hdr m) []) with (mask_bits 32 (a_sigs m)).
    rewrite (mask_ids_mask_bits 64 (a_sats m) Hsats), (mask_ids_mask_bits 32 (a_sigs m) Hsigs).
    destruct (Nat.ltb_spec 64 (length (a_sats m) * length (a_sigs m))) as [C|_]; [lia|].
    destruct (Nat.ltb_spec (8 * length f) (24 + 24 + 169 + length (a_sats m) * length (a_sigs m))) as [C|_]; [lia|].
    pose proof (concat_rows_length (a_rows m) _ Hrowl) as Hcl. rewrite Hrows in Hcl.
    rewrite (read_raw f L _ (chunks_hdr m) 24%nat Hb2 HL 12)
      by (reflexivity || lia || (apply Hk; lia) || (cbn [nth chunks_hdr]; lia)). cbn [bind].
    change (nth 12 (chunks_hdr m) []) with (concat (a_rows m)).
    rewrite (cell_rows_of_bits (a_rows m) _ _ Hrows Hrowl), !b2n_eqb.
    unfold view. cbn [m_hdr]. reflexivity.
  Qed.
End Header.

(* ================= F. satellite and signal cells ================= *)

Lemma map_sid_view (F : N * sd -> satcell) (HF : forall id t, s_id (F (id, t)) = id) :
  forall (sats : list N) (d : list sd), length d = length sats -> map s_id (map F (combine sats d)) = sats.
Proof.
  induction sats as [|s sats IH]; intros [|t d] H; try reflexivity; try discriminate.
  cbn [combine map]. rewrite HF, IH; [reflexivity|]. cbn [length] in H. lia.
Qed.

Section Body.
  Variables (m : amsm) (f : list N) (L R : list bool) (pad : nat).
  Hypothesis W : wf_amsm m = true.
  Hypothesis Hbits : bits_of f = L ++ msm_bits m ++ R.
  Hypothesis HL : length L = 24%nat.
  Hypothesis Hfl : length f = ((length (msm_bits m) + 7) / 8 + pad + 6)%nat.

  Let nsat := length (a_sats m).
  Let nsig := length (a_sigs m).
  Let ncell := count_true (a_rows m).

  Lemma sat_bits_length : length (sat_bits m) = (nsat * if a_k7 m then 36 else 18)%nat.
  Proof.
    destruct (wf_unpack m W) as (_ & _ & _ & _ & _ & _ & _ & _ & _ & _ & _ & _ & _ & Hsd & _).
    unfold sat_bits, nsat. rewrite <- Hsd. destruct (a_k7 m); rewrite !app_length;
      repeat rewrite (flat_map_len _ _ _ (fun t => put_u_length _ _));
      repeat rewrite (flat_map_len _ _ _ (fun t => put_s_length _ _)); lia.
  Qed.

  Lemma sig_bits_length : length (sig_bits m) = (ncell * if a_k7 m then 80 else 48)%nat.
  Proof.
    destruct (wf_unpack m W) as (_ & _ & _ & _ & _ & _ & _ & _ & _ & _ & _ & _ & _ & _ & Hgd & _).
    unfold sig_bits, ncell. rewrite <- Hgd. cbv zeta. destruct (a_k7 m); rewrite !app_length, map_length;
      repeat rewrite (flat_map_len _ _ _ (fun t => put_u_length _ _));
      repeat rewrite (flat_map_len _ _ _ (fun t => put_s_length _ _)); lia.
  Qed.

  Lemma hdr_len : length (header_bits m) = (169 + nsat * nsig)%nat.
  Proof.
    destruct (wf_unpack m W) as (_ & _ & _ & _ & _ & _ & _ & _ & _ & _ & Hrows & Hrowl & _).
    apply header_length; assumption.
  Qed.

  Lemma frame_len_bits : (8 * length f >= 48 + length (msm_bits m))%nat.
  Proof. rewrite Hfl. pose proof (Nat.div_mod (length (msm_bits m) + 7) 8 ltac:(lia)). pose proof (Nat.mod_upper_bound (length (msm_bits m) + 7) 8 ltac:(lia)). lia. Qed.

  Lemma msm_bits_len : length (msm_bits m) = (169 + nsat * nsig + length (sat_bits m) + length (sig_bits m))%nat.
  Proof. unfold msm_bits. rewrite !app_length, hdr_len. lia. Qed.

  Lemma sat4_roundtrip : a_k7 m = false ->
    get_sat_cells4 f (193 + nsat * nsig) (a_sats m) = Ok (m_sats (view m)).
  Proof.
    intros K7.
    destruct (wf_unpack m W) as (_ & _ & _ & _ & _ & _ & _ & _ & _ & _ & _ & _ & _ & Hsd & _ & _ & Hsatok & _).
    pose proof frame_len_bits as Hf8. pose proof msm_bits_len as Hml. pose proof sat_bits_length as Hsl. rewrite K7 in Hsl.
    unfold get_sat_cells4. fold nsat.
    repeat match goal with |- context [nn ?c] => let v := eval vm_compute in (nn c) in change (nn c) with v end.
    change (Z.of_N CRCLengthBits) with 24%Z.
    destruct (Z.ltb_spec (Z.of_nat (8 * length f) - Z.of_nat (193 + nsat * nsig) - 24) (Z.of_nat (nsat * (8 + 10)))) as [C|_]; [lia|].
    assert (Hs : sat_bits m = flat_map (fun t => put_u 8 (s_w t)) (a_satdata m) ++ flat_map (fun t => put_u 10 (s_f t)) (a_satdata m)).
    { unfold sat_bits. rewrite K7. reflexivity. }
    rewrite (read_us_n f 8 s_w (a_satdata m) (L ++ header_bits m) (flat_map (fun t => put_u 10 (s_f t)) (a_satdata m) ++ sig_bits m ++ R) _ nsat).
    2:{ rewrite Hbits. unfold msm_bits. rewrite Hs, <- !app_assoc. reflexivity. }
    2:{ rewrite app_length, HL, hdr_len. lia. }
    2:{ unfold nsat. lia. }
    2:{ lia. }
    2:{ eapply Forall_impl; [|exact Hsatok]. intros t Ht. exact (proj1 Ht). }
    cbn [bind].
    rewrite (read_us_n f 10 s_f (a_satdata m) (L ++ header_bits m ++ flat_map (fun t => put_u 8 (s_w t)) (a_satdata m)) (sig_bits m ++ R) _ nsat).
    2:{ rewrite Hbits. unfold msm_bits. rewrite Hs, <- !app_assoc. reflexivity. }
    2:{ rewrite !app_length, HL, hdr_len, (flat_map_len _ 8%nat) by (intros; apply put_u_length). unfold nsat. rewrite Hsd. lia. }
    2:{ unfold nsat. lia. }
    2:{ lia. }
    2:{ eapply Forall_impl; [|exact Hsatok]. intros t Ht. exact (proj1 (proj2 (proj2 Ht))). }
    cbn [bind]. rewrite sat4_view. unfold view. cbn [m_sats]. rewrite K7. reflexivity.
  Qed.
  Lemma sat7_roundtrip : a_k7 m = true ->
    get_sat_cells7 f (193 + nsat * nsig) (a_sats m) = Ok (m_sats (view m)).
  Proof.
    intros K7.
    destruct (wf_unpack m W) as (_ & _ & _ & _ & _ & _ & _ & _ & _ & _ & _ & _ & _ & Hsd & _ & _ & Hsatok & _).
    pose proof frame_len_bits as Hf8. pose proof msm_bits_len as Hml. pose proof sat_bits_length as Hsl. rewrite K7 in Hsl.
    assert (Hn : nsat = length (a_satdata m)) by (symmetry; exact Hsd).
    unfold get_sat_cells7. fold nsat.
    repeat match goal with |- context [nn ?c] => let v := eval vm_compute in (nn c) in change (nn c) with v end.
    destruct (Z.ltb_spec (Z.of_nat (8 * length f) - Z.of_nat (193 + nsat * nsig)) (Z.of_nat (nsat * 36))) as [C|_]; [lia|].
    set (A1 := flat_map (fun t : sd => put_u 8 (s_w t)) (a_satdata m)).
    set (A2 := flat_map (fun t : sd => put_u 4 (s_e t)) (a_satdata m)).
    set (A3 := flat_map (fun t : sd => put_u 10 (s_f t)) (a_satdata m)).
    set (A4 := flat_map (fun t : sd => put_s 14 (s_r t)) (a_satdata m)).
    assert (Hs : sat_bits m = A1 ++ A2 ++ A3 ++ A4).
    { unfold sat_bits. rewrite K7. reflexivity. }
    assert (L1 : length A1 = (nsat * 8)%nat) by (unfold A1; rewrite (flat_map_len _ 8%nat) by (intros; apply put_u_length); lia).
    assert (L2 : length A2 = (nsat * 4)%nat) by (unfold A2; rewrite (flat_map_len _ 4%nat) by (intros; apply put_u_length); lia).
    assert (L3 : length A3 = (nsat * 10)%nat) by (unfold A3; rewrite (flat_map_len _ 10%nat) by (intros; apply put_u_length); lia).
    cbv zeta.
    rewrite (read_us_n f 8 s_w (a_satdata m) (L ++ header_bits m) (A2 ++ A3 ++ A4 ++ sig_bits m ++ R) _ nsat).
    2:{ rewrite Hbits. unfold msm_bits. rewrite Hs, <- !app_assoc. reflexivity. }
    2:{ rewrite app_length, HL, hdr_len. lia. }
    2:{ exact Hn. }
    2:{ lia. }
    2:{ eapply Forall_impl; [|exact Hsatok]. intros t Ht. exact (proj1 Ht). }
    cbn [bind].
    rewrite (read_us_n f 4 s_e (a_satdata m) (L ++ header_bits m ++ A1) (A3 ++ A4 ++ sig_bits m ++ R) _ nsat).
    2:{ rewrite Hbits. unfold msm_bits. rewrite Hs, <- !app_assoc. reflexivity. }
    2:{ rewrite !app_length, HL, hdr_len, L1. lia. }
    2:{ exact Hn. }
    2:{ lia. }
    2:{ eapply Forall_impl; [|exact Hsatok]. intros t Ht. exact (proj1 (proj2 Ht)). }
    cbn [bind].
    rewrite (read_us_n f 10 s_f (a_satdata m) (L ++ header_bits m ++ A1 ++ A2) (A4 ++ sig_bits m ++ R) _ nsat).
    2:{ rewrite Hbits. unfold msm_bits. rewrite Hs, <- !app_assoc. reflexivity. }
    2:{ rewrite !app_length, HL, hdr_len, L1, L2. lia. }
    2:{ exact Hn. }
    2:{ lia. }
    2:{ eapply Forall_impl; [|exact Hsatok]. intros t Ht. exact (proj1 (proj2 (proj2 Ht))). }
    cbn [bind].
    rewrite (read_ss_n f 14 s_r (a_satdata m) (L ++ header_bits m ++ A1 ++ A2 ++ A3) (sig_bits m ++ R) _ nsat).
    2:{ rewrite Hbits. unfold msm_bits. rewrite Hs, <- !app_assoc. reflexivity. }
    2:{ rewrite !app_length, HL, hdr_len, L1, L2, L3. lia. }
    2:{ exact Hn. }
    2:{ lia. }
    2:{ eapply Forall_impl; [|exact Hsatok]. intros t Ht. exact (proj2 (proj2 (proj2 Ht))). }
    cbn [bind]. rewrite sat7_view. unfold view. cbn [m_sats]. rewrite K7. reflexivity.
  Qed.

  Lemma view_sats_length : length (m_sats (view m)) = nsat.
  Proof.
    destruct (wf_unpack m W) as (_ & _ & _ & _ & _ & _ & _ & _ & _ & _ & _ & _ & _ & Hsd & _).
    unfold view. cbn [m_sats]. rewrite map_length, combine_length, Hsd. unfold nsat. lia.
  Qed.

  Lemma view_sats_ids : map s_id (m_sats (view m)) = a_sats m.
  Proof.
    destruct (wf_unpack m W) as (_ & _ & _ & _ & _ & _ & _ & _ & _ & _ & _ & _ & _ & Hsd & _).
    unfold view. cbn [m_sats]. apply map_sid_view; [|exact Hsd].
    intros id [[[w e] ff] r]. reflexivity.
  Qed.
  Lemma sig4_roundtrip : a_k7 m = false ->
    get_sig_cells4 f (193 + nsat * nsig + nsat * 18) (m_hdr (view m)) (m_sats (view m)) = Ok (m_sigs (view m)).
  Proof.
    intros K7.
    destruct (wf_unpack m W) as (_ & _ & _ & _ & _ & _ & _ & _ & _ & _ & Hrows & Hrowl & _ & Hsd & Hgd & Hmulti & _ & Hsigok).
    rewrite K7 in Hsigok.
    pose proof frame_len_bits as Hf8. pose proof msm_bits_len as Hml. pose proof sat_bits_length as Hsl. rewrite K7 in Hsl.
    pose proof sig_bits_length as Hgl. rewrite K7 in Hgl.
    assert (Hn : ncell = length (a_sigdata m)) by (symmetry; exact Hgd).
    unfold get_sig_cells4, signal_cell_count.
    change (h_ncells (m_hdr (view m))) with ncell. change (h_multi (m_hdr (view m))) with (a_multi m).
    change (h_sigs (m_hdr (view m))) with (a_sigs m). change (h_cells (m_hdr (view m))) with (a_rows m).
    repeat match goal with |- context [nn ?c] => let v := eval vm_compute in (nn c) in change (nn c) with v end.
    change (Z.of_N CRCLengthBits) with 24%Z. cbv zeta.
    destruct (Z.leb_spec (Z.of_nat (ncell * 48)) (Z.of_nat (8 * length f) - Z.of_nat (193 + nsat * nsig + nsat * 18) - 24)) as [_|C]; [|lia].
    cbn [bind].
    assert (Hguard : (if a_multi m
                      then (Z.of_nat (8 * length f - (193 + nsat * nsig + nsat * 18)) - 24 <? Z.of_nat 48)%Z
                      else (ncell <? ncell)%nat) = false).
    { destruct (a_multi m) eqn:Em.
      - specialize (Hmulti eq_refl). fold ncell in Hmulti. apply Z.ltb_ge. lia.
      - apply Nat.ltb_irrefl. }
    rewrite Hguard.
    set (G1 := flat_map (fun t : fld => put_s 15 (f_rd t)) (a_sigdata m)).
    set (G2 := flat_map (fun t : fld => put_s 22 (f_prd t)) (a_sigdata m)).
    set (G3 := flat_map (fun t : fld => put_u 4 (f_lock t)) (a_sigdata m)).
    set (G4 := map f_half (a_sigdata m)).
    set (G5 := flat_map (fun t : fld => put_u 6 (f_cnr t)) (a_sigdata m)).
    assert (Hs : sig_bits m = G1 ++ G2 ++ G3 ++ G4 ++ G5).
    { unfold sig_bits. rewrite K7. reflexivity. }
    assert (L1 : length G1 = (ncell * 15)%nat) by (unfold G1; rewrite (flat_map_len _ 15%nat) by (intros; apply put_s_length); lia).
    assert (L2 : length G2 = (ncell * 22)%nat) by (unfold G2; rewrite (flat_map_len _ 22%nat) by (intros; apply put_s_length); lia).
    assert (L3 : length G3 = (ncell * 4)%nat) by (unfold G3; rewrite (flat_map_len _ 4%nat) by (intros; apply put_u_length); lia).
    assert (L4 : length G4 = (ncell * 1)%nat) by (unfold G4; rewrite map_length; lia).
    assert (Hpre : length (L ++ header_bits m ++ sat_bits m) = (193 + nsat * nsig + nsat * 18)%nat)
      by (rewrite !app_length, HL, hdr_len, Hsl; lia).
    rewrite (read_ss_n f 15 f_rd (a_sigdata m) (L ++ header_bits m ++ sat_bits m) (G2 ++ G3 ++ G4 ++ G5 ++ R) _ ncell).
    2:{ rewrite Hbits. unfold msm_bits. rewrite Hs, <- !app_assoc. reflexivity. }
    2:{ rewrite Hpre. reflexivity. }
    2:{ exact Hn. }
    2:{ lia. }
    2:{ eapply Forall_impl; [|exact Hsigok]. intros t Ht. exact (proj1 Ht). }
    cbn [bind].
    rewrite (read_ss_n f 22 f_prd (a_sigdata m) ((L ++ header_bits m ++ sat_bits m) ++ G1) (G3 ++ G4 ++ G5 ++ R) _ ncell).
    2:{ rewrite Hbits. unfold msm_bits. rewrite Hs, <- !app_assoc. reflexivity. }
    2:{ rewrite app_length, Hpre, L1. reflexivity. }
    2:{ exact Hn. }
    2:{ lia. }
    2:{ eapply Forall_impl; [|exact Hsigok]. intros t Ht. exact (proj1 (proj2 Ht)). }
    cbn [bind].
    rewrite (read_us_n f 4 f_lock (a_sigdata m) ((L ++ header_bits m ++ sat_bits m) ++ G1 ++ G2) (G4 ++ G5 ++ R) _ ncell).
    2:{ rewrite Hbits. unfold msm_bits. rewrite Hs, <- !app_assoc. reflexivity. }
    2:{ rewrite app_length, Hpre, !app_length, L1, L2. lia. }
    2:{ exact Hn. }
    2:{ lia. }
    2:{ eapply Forall_impl; [|exact Hsigok]. intros t Ht. exact (proj1 (proj2 (proj2 Ht))). }
    cbn [bind].
    rewrite (read_bits_n f f_half (a_sigdata m) ((L ++ header_bits m ++ sat_bits m) ++ G1 ++ G2 ++ G3) (G5 ++ R) _ ncell).
    2:{ rewrite Hbits. unfold msm_bits. rewrite Hs, <- !app_assoc. reflexivity. }
    2:{ rewrite app_length, Hpre, !app_length, L1, L2, L3. lia. }
    2:{ exact Hn. }
    cbn [bind].
    rewrite (read_us_n f 6 f_cnr (a_sigdata m) ((L ++ header_bits m ++ sat_bits m) ++ G1 ++ G2 ++ G3 ++ G4) R _ ncell).
    2:{ rewrite Hbits. unfold msm_bits. rewrite Hs, <- !app_assoc. reflexivity. }
    2:{ rewrite app_length, Hpre, !app_length, L1, L2, L3, L4. lia. }
    2:{ exact Hn. }
    2:{ lia. }
    2:{ eapply Forall_impl; [|exact Hsigok]. intros t Ht. exact (proj2 (proj2 (proj2 Ht))). }
    cbn [bind].
    rewrite view_sats_ids, map_map.
    rewrite (zip6_maps false (a_sigdata m)).
    rewrite (attach_spec false (a_sigs m) (a_rows m) (a_sats m) (a_sigdata m) Hrowl Hgd).
    unfold view. cbn [m_sigs]. rewrite K7. reflexivity.
  Qed.
  Lemma sig7_roundtrip : a_k7 m = true ->
    get_sig_cells7 f (193 + nsat * nsig + nsat * 36) (m_hdr (view m)) (m_sats (view m)) = Ok (m_sigs (view m)).
  Proof.
    intros K7.
    destruct (wf_unpack m W) as (_ & _ & _ & _ & _ & _ & _ & _ & _ & _ & Hrows & Hrowl & _ & Hsd & Hgd & Hmulti & _ & Hsigok).
    rewrite K7 in Hsigok.
    pose proof frame_len_bits as Hf8. pose proof msm_bits_len as Hml. pose proof sat_bits_length as Hsl. rewrite K7 in Hsl.
    pose proof sig_bits_length as Hgl. rewrite K7 in Hgl.
    assert (Hn : ncell = length (a_sigdata m)) by (symmetry; exact Hgd).
    unfold get_sig_cells7, signal_cell_count.
    change (h_ncells (m_hdr (view m))) with ncell. change (h_multi (m_hdr (view m))) with (a_multi m).
    change (h_sigs (m_hdr (view m))) with (a_sigs m). change (h_cells (m_hdr (view m))) with (a_rows m).
    repeat match goal with |- context [nn ?c] => let v := eval vm_compute in (nn c) in change (nn c) with v end.
    change (Z.of_N CRCLengthBits) with 24%Z. cbv zeta.
    destruct (Z.leb_spec (Z.of_nat (ncell * 80)) (Z.of_nat (8 * length f) - Z.of_nat (193 + nsat * nsig + nsat * 36) - 24)) as [_|C]; [|lia].
    cbn [bind].
    assert (Hguard : (if a_multi m
                      then (8 * length f - (193 + nsat * nsig + nsat * 36) <? 80)%nat
                      else (ncell <? ncell)%nat) = false).
    { destruct (a_multi m) eqn:Em.
      - specialize (Hmulti eq_refl). fold ncell in Hmulti. apply Nat.ltb_ge. lia.
      - apply Nat.ltb_irrefl. }
    rewrite Hguard.
    set (G1 := flat_map (fun t : fld => put_s 20 (f_rd t)) (a_sigdata m)).
    set (G2 := flat_map (fun t : fld => put_s 24 (f_prd t)) (a_sigdata m)).
    set (G3 := flat_map (fun t : fld => put_u 10 (f_lock t)) (a_sigdata m)).
    set (G4 := map f_half (a_sigdata m)).
    set (G5 := flat_map (fun t : fld => put_u 10 (f_cnr t)) (a_sigdata m)).
    set (G6 := flat_map (fun t : fld => put_s 15 (f_rrd t)) (a_sigdata m)).
    assert (Hs : sig_bits m = G1 ++ G2 ++ G3 ++ G4 ++ G5 ++ G6).
    { unfold sig_bits. rewrite K7. reflexivity. }
    assert (L1 : length G1 = (ncell * 20)%nat) by (unfold G1; rewrite (flat_map_len _ 20%nat) by (intros; apply put_s_length); lia).
    assert (L2 : length G2 = (ncell * 24)%nat) by (unfold G2; rewrite (flat_map_len _ 24%nat) by (intros; apply put_s_length); lia).
    assert (L3 : length G3 = (ncell * 10)%nat) by (unfold G3; rewrite (flat_map_len _ 10%nat) by (intros; apply put_u_length); lia).
    assert (L4 : length G4 = (ncell * 1)%nat) by (unfold G4; rewrite map_length; lia).
    assert (L5 : length G5 = (ncell * 10)%nat) by (unfold G5; rewrite (flat_map_len _ 10%nat) by (intros; apply put_u_length); lia).
    assert (Hpre : length (L ++ header_bits m ++ sat_bits m) = (193 + nsat * nsig + nsat * 36)%nat)
      by (rewrite !app_length, HL, hdr_len, Hsl; lia).
    rewrite (read_ss_n f 20 f_rd (a_sigdata m) (L ++ header_bits m ++ sat_bits m) (G2 ++ G3 ++ G4 ++ G5 ++ G6 ++ R) _ ncell).
    2:{ rewrite Hbits. unfold msm_bits. rewrite Hs, <- !app_assoc. reflexivity. }
    2:{ rewrite Hpre. reflexivity. }
    2:{ exact Hn. }
    2:{ lia. }
    2:{ eapply Forall_impl; [|exact Hsigok]. intros t Ht. exact (proj1 Ht). }
    cbn [bind].
    rewrite (read_ss_n f 24 f_prd (a_sigdata m) ((L ++ header_bits m ++ sat_bits m) ++ G1) (G3 ++ G4 ++ G5 ++ G6 ++ R) _ ncell).
    2:{ rewrite Hbits. unfold msm_bits. rewrite Hs, <- !app_assoc. reflexivity. }
    2:{ rewrite app_length, Hpre, L1. reflexivity. }
    2:{ exact Hn. }
    2:{ lia. }
    2:{ eapply Forall_impl; [|exact Hsigok]. intros t Ht. exact (proj1 (proj2 Ht)). }
    cbn [bind].
    rewrite (read_us_n f 10 f_lock (a_sigdata m) ((L ++ header_bits m ++ sat_bits m) ++ G1 ++ G2) (G4 ++ G5 ++ G6 ++ R) _ ncell).
    2:{ rewrite Hbits. unfold msm_bits. rewrite Hs, <- !app_assoc. reflexivity. }
    2:{ rewrite app_length, Hpre, !app_length, L1, L2. lia. }
    2:{ exact Hn. }
    2:{ lia. }
    2:{ eapply Forall_impl; [|exact Hsigok]. intros t Ht. exact (proj1 (proj2 (proj2 Ht))). }
    cbn [bind].
    rewrite (read_bits_n f f_half (a_sigdata m) ((L ++ header_bits m ++ sat_bits m) ++ G1 ++ G2 ++ G3) (G5 ++ G6 ++ R) _ ncell).
    2:{ rewrite Hbits. unfold msm_bits. rewrite Hs, <- !app_assoc. reflexivity. }
    2:{ rewrite app_length, Hpre, !app_length, L1, L2, L3. lia. }
    2:{ exact Hn. }
    cbn [bind].
    rewrite (read_us_n f 10 f_cnr (a_sigdata m) ((L ++ header_bits m ++ sat_bits m) ++ G1 ++ G2 ++ G3 ++ G4) (G6 ++ R) _ ncell).
    2:{ rewrite Hbits. unfold msm_bits. rewrite Hs, <- !app_assoc. reflexivity. }
    2:{ rewrite app_length, Hpre, !app_length, L1, L2, L3, L4. lia. }
    2:{ exact Hn. }
    2:{ lia. }
    2:{ eapply Forall_impl; [|exact Hsigok]. intros t Ht. exact (proj1 (proj2 (proj2 (proj2 Ht)))). }
    cbn [bind].
    rewrite (read_ss_n f 15 f_rrd (a_sigdata m) ((L ++ header_bits m ++ sat_bits m) ++ G1 ++ G2 ++ G3 ++ G4 ++ G5) R _ ncell).
    2:{ rewrite Hbits. unfold msm_bits. rewrite Hs, <- !app_assoc. reflexivity. }
    2:{ rewrite app_length, Hpre, !app_length, L1, L2, L3, L4, L5. lia. }
    2:{ exact Hn. }
    2:{ lia. }
    2:{ eapply Forall_impl; [|exact Hsigok]. intros t Ht. exact (proj2 (proj2 (proj2 (proj2 Ht)))). }
    cbn [bind].
    rewrite view_sats_ids.
    change (map f_rrd (a_sigdata m)) with (map (fun t : fld => f_rrd t) (a_sigdata m)).
    rewrite (zip6_maps true (a_sigdata m)).
    rewrite (attach_spec true (a_sigs m) (a_rows m) (a_sats m) (a_sigdata m) Hrowl Hgd).
    unfold view. cbn [m_sigs]. rewrite K7. reflexivity.
  Qed.
End Body.

(* ================= G. the round trip ================= *)

Theorem msm_roundtrip m pad : wf_amsm m = true ->
  decode_msm (a_k7 m) (msm_frame m pad) = Ok (view m).
Proof.
  intros W.
  destruct (frame_bits_gen (msm_bits m) (repeat 0 pad)) as (L & R & Hbits & HL & Hfl).
  rewrite repeat_length in Hfl. fold (msm_frame m pad) in Hbits, Hfl.
  destruct (wf_unpack m W) as (Hty & _).
  destruct (type_facts m Hty) as (_ & _ & Hk).
  pose proof (header_roundtrip m (msm_frame m pad) L R pad W Hbits HL Hfl) as HH.
  unfold decode_msm. destruct (a_k7 m) eqn:K7.
  - unfold decode_msm7. rewrite HH. cbn [bind].
    change (h_type (m_hdr (view m))) with (a_type m). rewrite Hk. cbn [negb].
    change (h_sats (m_hdr (view m))) with (a_sats m).
    rewrite (sat7_roundtrip m (msm_frame m pad) L R pad W Hbits HL Hfl K7). cbn [bind].
    rewrite (view_sats_length m (msm_frame m pad) L pad W HL Hfl). change (nn sat7_CellLengthInBits) with 36%nat.
    rewrite (sig7_roundtrip m (msm_frame m pad) L R pad W Hbits HL Hfl K7). cbn [bind].
    reflexivity.
  - unfold decode_msm4. rewrite HH. cbn [bind].
    change (h_type (m_hdr (view m))) with (a_type m). rewrite Hk. cbn [negb].
    change (h_sats (m_hdr (view m))) with (a_sats m).
    rewrite (sat4_roundtrip m (msm_frame m pad) L R pad W Hbits HL Hfl K7). cbn [bind].
    rewrite (view_sats_length m (msm_frame m pad) L pad W HL Hfl). change (nn sat4_CellLengthInBits) with 18%nat.
    rewrite (sig4_roundtrip m (msm_frame m pad) L R pad W Hbits HL Hfl K7). cbn [bind].
    reflexivity.
Qed.

(* the frame that carries the message is a valid RTCM3 frame of the message's type as long as
   the payload fits the 10-bit length field *)
Theorem msm_frame_valid m pad : wf_amsm m = true -> (payload_bytes m + pad <= 1023)%nat ->
  valid_frame (msm_frame m pad).
Proof.
  intros W Hlen. unfold msm_frame. destruct (bits_of_bytes_of_bits (msm_bits m)) as (_ & Hl & Hok).
  apply frame_of_payload_valid.
  - apply bytes_ok_app; [exact Hok|]. apply Forall_forall. intros x Hx. apply repeat_spec in Hx. subst x. unfold byte_ok. lia.
  - rewrite app_length, repeat_length. unfold payload_bytes in Hlen. split; [|lia].
    rewrite Hl. destruct (wf_unpack m W) as (_ & _ & _ & _ & _ & _ & _ & _ & _ & _ & Hrows & Hrowl & _).
    pose proof (header_length m Hrows Hrowl) as Hh. unfold msm_bits. rewrite !app_length, Hh.
    pose proof (Nat.div_mod (169 + length (a_sats m) * length (a_sigs m) + (length (sat_bits m) + length (sig_bits m)) + 7) 8 ltac:(lia)).
    pose proof (Nat.mod_upper_bound (169 + length (a_sats m) * length (a_sigs m) + (length (sat_bits m) + length (sig_bits m)) + 7) 8 ltac:(lia)).
    lia.
Qed.

(* P_C02.v - the theorems of property C02 and nothing else: each is closed by [exact <lemma>]
   (or a one-line instantiation) and followed by Print Assumptions.  One file per property, importing only
   what that property's statements need, so that a change which breaks one property's proof leaves the
   others' theorems checkable. *)
From NTRIP Require Import Base Bits Time Classify Frame FrameSpec FrameProofs Net Pipe PipeFrames IncFrame PipeInc.

(* ===================== C02 ===================== *)
(* For every finite byte stream the stream handler returns (no panic, fuel suffices) and the
   raw bytes of the delivered messages, concatenated in order, are the input; none is empty. *)
Theorem C02_lossless : forall h input,
  exists ms h', handle_stream h input = Ok (ms, h') /\
    concat (map raw ms) = input /\ Forall (fun m => raw m <> []) ms.
Proof.
  intros h input. destruct (handle_stream_lossless h input) as (ms & h' & H1 & H2 & H3 & _).
  exists ms, h'. repeat split; assumption.
Qed.
Print Assumptions C02_lossless.

(* The same with channels and schedules (the network of Pipe.v with one consumer): for all
   capacities of the byte, message and consumer channels and every schedule of producer,
   framer and consumer, executions are finite and end with the consumer holding the lossless
   segmentation, the framer halted and the output channel closed. *)
Theorem C02_every_schedule : forall t0 (input : list N) (sync : nat -> bool) cap0 cap1 capc,
  (1 <= cap0)%nat -> (1 <= cap1)%nat -> (1 <= capc)%nat ->
  exists n, forall m c,
    steps _ (nstep _ _ _ (Pipe.prog N msg (list N) (fun acc b => (acc ++ [b], [])) (frame_flush t0) 1 (fun _ => true) sync)
                   Pipe.sender Pipe.receiver (SkDone _ _ _)) m
          (Pipe.init N msg (list N) 1 cap0 cap1 [capc] input []) c ->
    (m <= n)%nat /\
    (final_config _ _ _ (Pipe.prog N msg (list N) (fun acc b => (acc ++ [b], [])) (frame_flush t0) 1 (fun _ => true) sync)
                  Pipe.sender Pipe.receiver (SkDone _ _ _) c ->
     concat (map raw (sink_out N msg (list N) c 0)) = input /\
     Forall (fun x => raw x <> []) (sink_out N msg (list N) c 0) /\
     halted N msg (list N) (fun acc b => (acc ++ [b], [])) (frame_flush t0) 1 (fun _ => true) sync c 1 /\
     closed (nth 1 (chans c) (dchan _)) = true).
Proof. exact lossless_every_schedule. Qed.
Print Assumptions C02_every_schedule.

(* The same with the framer as it really works: the byte-driven machine of IncFrame.v, which emits
   each message as soon as the byte that completes it has arrived and the rest at the end of the input. *)
Theorem C02_every_schedule_incremental : forall t0 (input : list N) (sync : nat -> bool) cap0 cap1 capc,
  (1 <= cap0)%nat -> (1 <= cap1)%nat -> (1 <= capc)%nat ->
  exists n, forall m c,
    steps _ (nstep _ _ _ (Pipe.prog N msg mstate mstep mflush 1 (fun _ => true) sync)
                   Pipe.sender Pipe.receiver (SkDone _ _ _)) m
          (Pipe.init N msg mstate 1 cap0 cap1 [capc] input (new_handler t0, PEat [])) c ->
    (m <= n)%nat /\
    (final_config _ _ _ (Pipe.prog N msg mstate mstep mflush 1 (fun _ => true) sync)
                  Pipe.sender Pipe.receiver (SkDone _ _ _) c ->
     concat (map raw (sink_out N msg mstate c 0)) = input /\
     Forall (fun x => raw x <> []) (sink_out N msg mstate c 0) /\
     halted N msg mstate mstep mflush 1 (fun _ => true) sync c 1 /\
     closed (nth 1 (chans c) (dchan _)) = true).
Proof. exact lossless_incremental. Qed.
Print Assumptions C02_every_schedule_incremental.

Example C02_example :
  exists ms h', handle_stream (new_handler 0) [65; 211; 66; 67; 68; 69; 211]%N = Ok (ms, h') /\
                map raw ms = [[65]; [211; 66; 67; 68; 69]; [211]]%N.
Proof. eexists. eexists. split; vm_compute; reflexivity. Qed.


(* P_C05.v - the theorems of property C05 and nothing else: each is closed by [exact <lemma>]
   (or a one-line instantiation) and followed by Print Assumptions.  One file per property, importing only
   what that property's statements need, so that a change which breaks one property's proof leaves the
   others' theorems checkable. *)
From NTRIP Require Import Base Bits BitsProofs Frame FrameSpec Station StationProofs Range FloatProofs.
From Coq Require Import Reals Floats.
From Flocq Require Import Core IEEE754.BinarySingleNaN IEEE754.PrimFloat.


(* ===================== C05 (decoding) ===================== *)
(* For every well-formed 1005 or 1006 message - station id, ITRF year, the three signed 38-bit
   coordinates over their full range, the reserved bit groups and (1006) the 16-bit antenna
   height - laid out as the standard says, carried in a frame with any extra payload bytes
   after it, decoding reproduces every field. *)
Theorem C05_decode : forall m extra, wf_station m = true -> bytes_ok extra ->
  (length (bytes_of_bits (station_bits m)) + length extra <= 1023)%nat ->
  decode_station (st_type m) (station_frame m extra) = Ok m.
Proof. exact decode_station_roundtrip. Qed.
Print Assumptions C05_decode.

(* A frame too short for the fields is rejected with an error. *)
Theorem C05_reject_short : forall (ty : N) (b : list N),
  (Z.of_nat (8 * length b) - 48 < (if (ty =? 1006)%N then 168 else 152))%Z ->
  decode_station ty b = Err ErrOverrun.
Proof. exact decode_station_short. Qed.
Print Assumptions C05_reject_short.

(* A message of a different type is rejected with an error. *)
Theorem C05_reject_type : forall b t, (8 * length b >= 216)%nat -> get_u b 24 12 = Ok t ->
  (t <> 1005%N -> decode1005 b = Err ErrWrongType) /\ (t <> 1006%N -> decode1006 b = Err ErrWrongType).
Proof. exact decode_station_wrong_type. Qed.
Print Assumptions C05_reject_type.

(* On arbitrary bytes both decoders return a message of their own type or one of two errors -
   never a panic (this is also C07 for these decoders). *)
Theorem C05_total : forall b,
  ((exists m, decode1005 b = Ok m /\ st_type m = 1005%N) \/ decode1005 b = Err ErrOverrun \/ decode1005 b = Err ErrWrongType) /\
  ((exists m, decode1006 b = Ok m /\ st_type m = 1006%N) \/ decode1006 b = Err ErrOverrun \/ decode1006 b = Err ErrWrongType).
Proof. intros b. split; [apply decode1005_total|apply decode1006_total]. Qed.
Print Assumptions C05_total.

Example C05_example :
  let m := {| st_type := 1006; st_id := 2; st_itrf := 3; st_ign1 := 0; st_x := (- 2 ^ 37)%Z; st_ign2 := 1;
              st_y := (2 ^ 37 - 1)%Z; st_ign3 := 2; st_z := (-1)%Z; st_height := 65535 |}%N in
  wf_station m = true /\ decode1006 (station_frame m [7; 8]%N) = Ok m.
Proof. cbv zeta. split; vm_compute; reflexivity. Qed.


(* ===================== C05 (display) ===================== *)
(* For every 38-bit signed coordinate X the double computed by float64(X) * 0.0001 is within
   1e-8 m of X/10^4, so the nearest value with four decimals - which is what a correctly rounded
   "%.4f" prints - is exactly the encoded integer times 0.0001 m.  (The 16-bit antenna height is
   the special case 0 <= X < 2^16.) *)
Theorem C05_display : forall (X : Z) choice, (- 2 ^ 37 <= X < 2 ^ 37)%Z ->
  Znearest choice (B2R (Prim2B (coord_m X)) * 10000)%R = X.
Proof. exact coord_display. Qed.
Print Assumptions C05_display.


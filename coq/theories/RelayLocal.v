(* RelayLocal.v - the proxy's client loop at every moment: what has been written to the server is a prefix of the client's chunks. *)
From Coq Require Import List Arith Lia Bool.
Import ListNotations.
From NTRIP Require Import Net Pipe Relay.
From NTRIP Require Import NetLocal.
Arguments procs {St V Ev}. Arguments chans {St V Ev}. Arguments outs {St V Ev}.

Section RL.
  Variables B M FS : Type.
  Variable fstep : FS -> B -> FS * list M.
  Variable sync : nat -> bool.
  Notation st := (Relay.st B M FS).
  Notation ev := (Relay.ev B M).

  (* the chunks the client loop has not yet written to the server *)
  Fixpoint todo (s : st) : option (list (list B)) :=
    match s with
    | CL _ _ _ _ chunk r => Some (chunk :: r)
    | CLDone _ _ _ => Some []
    | Aw _ _ _ _ next => todo next
    | _ => None
    end.

  Definition client_inv (chunks : list (list B)) (s : st) (o : list ev) : Prop :=
    exists done rest, todo s = Some rest /\ chunks = done ++ rest /\ o = map (EvW B M) done.

  Lemma client_inv_step chunks s o s' o' :
    client_inv chunks s o -> local_step _ _ _ (Relay.prog B M FS fstep sync) s o s' o' -> client_inv chunks s' o'.
  Proof.
    intros (done & rest & Ht & Hc & Ho). unfold local_step.
    destruct s as [cur chunk r| |s0|s0 m r| | |m| |ch next]; cbn [todo] in Ht; try discriminate; cbn [Relay.prog].
    - destruct cur as [|b cur].
      + intros [-> ->]. injection Ht as <-. exists (done ++ [chunk]), r.
        split; [destruct r; reflexivity|]. split; [rewrite <- app_assoc; exact Hc|].
        rewrite Ho, map_app. reflexivity.
      + intros [-> ->]. exists done, rest. split; [|split; assumption].
        unfold Relay.aw. destruct (sync 0); cbn [todo]; exact Ht.
    - intros [].
    - intros [-> ->]. exists done, rest. repeat split; assumption.
  Qed.

  (* at every moment of every execution the server has been sent a prefix of the client's chunks, each unchanged *)
  Theorem relay_prefix_always cap0 cap1 chunks s0 n c :
    steps _ (nstep _ _ _ (Relay.prog B M FS fstep sync) (Relay.sender) (Relay.receiver) (QDead B M FS)) n
          (Relay.init B M FS cap0 cap1 chunks s0) c ->
    exists done rest, chunks = done ++ rest /\ server_writes B M FS c = map (EvW B M) done.
  Proof.
    intros Hn.
    pose proof (local_invariant _ _ _ (Relay.prog B M FS fstep sync) Relay.sender Relay.receiver (QDead B M FS) 0
                  (client_inv chunks) (client_inv_step chunks) n _ _ Hn eq_refl) as H.
    destruct H as (done & rest & _ & Hc & Ho).
    - exists [], chunks. split; [|split; reflexivity]. unfold Relay.init, mk. cbn [procs nth]. destruct chunks; reflexivity.
    - exists done, rest. split; [exact Hc|exact Ho].
  Qed.
End RL.

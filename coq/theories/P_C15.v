(* P_C15.v - the theorems of property C15 and nothing else: each is closed by [exact <lemma>]
   (or a one-line instantiation) and followed by Print Assumptions.  One file per property, importing only
   what that property's statements need, so that a change which breaks one property's proof leaves the
   others' theorems checkable. *)
From NTRIP Require Import Base Bits Time Classify Frame FrameSpec FrameProofs DetermProofs.
From NTRIP Require Display.

(* ===================== C15 (state independence) ===================== *)
(* Everything GetMessage reports about a frame except the UTC time and the start of week -
   type, raw bytes, error kind, timestamp, whether a time could be computed - is the same for
   every handler state, i.e. whatever frames were processed before and whichever handler is
   used.  Full decoding (decode_msm4/7, decode1005/1006) does not take the handler at all. *)
Theorem C15_state_independent : forall h1 h2 b,
  result_core (get_message h1 b) = result_core (get_message h2 b).
Proof. exact get_message_state_independent. Qed.
Print Assumptions C15_state_independent.

(* The same for whole streams: what the stream handler delivers for a byte stream - types, raw
   bytes, error texts, raw timestamps, whether a time could be derived - is the same for every
   handler state, i.e. whatever start time the handler was created with and whatever it has
   processed before (a handler's state after any history is just another state). *)
Theorem C15_stream_state_independent : forall h1 h2 input,
  stream_core (handle_stream h1 input) = stream_core (handle_stream h2 input).
Proof. exact stream_state_independent. Qed.
Print Assumptions C15_stream_state_independent.


(* Display (Display.v): displaying a message again gives the same text and leaves the message exactly as
   the first display left it (the decoded form is cached; a decoder error is reproduced); the raw bytes
   and the type are never changed. *)
Theorem C15_display_idempotent : forall (L : Type) title_lines frame_lines err_lines other_lines station_lines msm_lines
    (m : Display.dmsg L) t m1,
  Display.string L title_lines frame_lines err_lines other_lines station_lines msm_lines m = Ok (t, m1) ->
  Display.string L title_lines frame_lines err_lines other_lines station_lines msm_lines m1 = Ok (t, m1) /\
  Display.d_raw L m1 = Display.d_raw L m /\ Display.d_type L m1 = Display.d_type L m.
Proof. exact Display.string_idempotent. Qed.
Print Assumptions C15_display_idempotent.

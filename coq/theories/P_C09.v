(* P_C09.v - the theorems of property C09 and nothing else: each is closed by [exact <lemma>]
   (or a one-line instantiation) and followed by Print Assumptions.  One file per property, importing only
   what that property's statements need, so that a change which breaks one property's proof leaves the
   others' theorems checkable. *)
From NTRIP Require Import Base Bits Time Classify Frame FrameSpec FrameProofs Net NetSafety Pipe PipeSafe PipePrefix PipeFrames IncFrame PipeInc.
From NTRIPGen Require Import GenConsts.

(* ===================== C09 ===================== *)
(* The reader -> framer -> fan-out -> consumers network of appcore.HandleMessagesUntilEOF (Pipe.v),
   for ANY framing state machine (fstep, fflush), any input bytes, any number k of consumer
   entries of which any may be nil (live i = false), and any channel capacities >= 1:
   there is a bound n such that every execution under every schedule
     - has at most n steps (no schedule runs for ever),
     - can be continued to the one configuration [fin] (no schedule is stuck anywhere else:
       no deadlock, and no process blocked on a second close of a channel),
     - and if it cannot be continued it IS [fin];
   in [fin] reader, framer and fan-out have halted, every channel is empty, and every non-nil
   consumer has recorded exactly the sequential output [seqrun] of the framer on the input. *)
Theorem C09_every_schedule :
  forall (B M FS : Type) (fstep : FS -> B -> FS * list M) (fflush : FS -> list M) (k : nat) (live sync : nat -> bool)
         cap0 cap1 caps (bs : list B) (s0 : FS),
  (1 <= cap0)%nat -> (1 <= cap1)%nat -> length caps = k -> Forall (fun c => (1 <= c)%nat) caps ->
  exists n, forall m c,
    steps _ (nstep _ _ _ (Pipe.prog B M FS fstep fflush k live sync) Pipe.sender Pipe.receiver (SkDone B M FS)) m
          (Pipe.init B M FS k cap0 cap1 caps bs s0) c ->
    (m <= n)%nat /\
    steps _ (nstep _ _ _ (Pipe.prog B M FS fstep fflush k live sync) Pipe.sender Pipe.receiver (SkDone B M FS)) (n - m) c
          (fin B M FS fstep fflush k live cap0 cap1 caps bs s0) /\
    (final_config _ _ _ (Pipe.prog B M FS fstep fflush k live sync) Pipe.sender Pipe.receiver (SkDone B M FS) c ->
     c = fin B M FS fstep fflush k live cap0 cap1 caps bs s0).
Proof. exact pipeline_every_schedule. Qed.
Print Assumptions C09_every_schedule.

Theorem C09_final_configuration :
  forall (B M FS : Type) (fstep : FS -> B -> FS * list M) (fflush : FS -> list M) (k : nat) (live sync : nat -> bool)
         cap0 cap1 caps (bs : list B) (s0 : FS),
  let f := fin B M FS fstep fflush k live cap0 cap1 caps bs s0 in
  halted B M FS fstep fflush k live sync f 0 /\ halted B M FS fstep fflush k live sync f 1 /\ halted B M FS fstep fflush k live sync f 2 /\
  (forall i, (i < k)%nat -> sink_out B M FS f i = if live i then seqrun B M FS fstep fflush s0 bs else []) /\
  (forall ch, (ch < 2 + k)%nat -> length caps = k -> buf (nth ch (chans f) (dchan _)) = []).
Proof. exact fin_shape. Qed.
Print Assumptions C09_final_configuration.

(* Instance: the framer is the model's stream handler (as a machine that is given the bytes one
   at a time and delivers what handle_stream delivers); its sequential output on the input is
   exactly handle_stream's message list, whose content C01/C02/C03 describe. *)
Theorem C09_frames : forall t0 (input : list N) (k : nat) (live sync : nat -> bool) cap0 cap1 caps,
  (1 <= cap0)%nat -> (1 <= cap1)%nat -> length caps = k -> Forall (fun c => (1 <= c)%nat) caps ->
  exists ms h', handle_stream (new_handler t0) input = Ok (ms, h') /\
  exists n, forall m c,
    steps _ (nstep _ _ _ (Pipe.prog N msg (list N) (fun acc b => (acc ++ [b], [])) (frame_flush t0) k live sync)
                   Pipe.sender Pipe.receiver (SkDone _ _ _)) m
          (Pipe.init N msg (list N) k cap0 cap1 caps input []) c ->
    (m <= n)%nat /\
    (final_config _ _ _ (Pipe.prog N msg (list N) (fun acc b => (acc ++ [b], [])) (frame_flush t0) k live sync)
                  Pipe.sender Pipe.receiver (SkDone _ _ _) c ->
     forall i, (i < k)%nat -> sink_out N msg (list N) c i = if live i then ms else []).
Proof. exact pipeline_frames. Qed.
Print Assumptions C09_frames.

(* The framer as it really works (IncFrame.v): a machine that is given ONE BYTE AT A TIME - eating junk,
   collecting the five-byte leader, collecting the rest of the frame - emits the messages each byte
   completes and, at the end of the input, what is left; fed the input byte by byte it delivers exactly
   what handle_stream delivers, handler state included.  With that machine as the framer process, every
   schedule of the network delivers handle_stream's messages to every consumer. *)
Theorem C09_framer_is_incremental : forall h input,
  handle_stream h input = Ok (mall (h, PEat []) input).
Proof. exact handle_stream_is_machine. Qed.
Print Assumptions C09_framer_is_incremental.

Theorem C09_incremental_pipeline : forall t0 (input : list N) (k : nat) (live sync : nat -> bool) cap0 cap1 caps,
  (1 <= cap0)%nat -> (1 <= cap1)%nat -> length caps = k -> Forall (fun c => (1 <= c)%nat) caps ->
  exists ms h', handle_stream (new_handler t0) input = Ok (ms, h') /\
  exists n, forall m c,
    steps _ (nstep _ _ _ (Pipe.prog N msg mstate mstep mflush k live sync) Pipe.sender Pipe.receiver (SkDone _ _ _)) m
          (Pipe.init N msg mstate k cap0 cap1 caps input (new_handler t0, PEat [])) c ->
    (m <= n)%nat /\
    (final_config _ _ _ (Pipe.prog N msg mstate mstep mflush k live sync) Pipe.sender Pipe.receiver (SkDone _ _ _) c ->
     forall i, (i < k)%nat -> sink_out N msg mstate c i = if live i then ms else []).
Proof. exact pipeline_incremental. Qed.
Print Assumptions C09_incremental_pipeline.

(* Channel discipline in EVERY reachable configuration of the network (any framer, any schedule, any prefix of
   an execution): the number and the capacities of the channels never change and no buffer ever holds more than
   its capacity (a bounded channel is bounded: back-pressure, not loss); once a channel has been closed it stays
   closed, nothing is ever put into it again, and what it still holds only drains (there is no second close and no
   send on a closed channel: either would be a panic in Go and is a blocked process in the model, which
   C09_every_schedule excludes). *)
Theorem C09_channels_safe :
  forall (B M FS : Type) (fstep : FS -> B -> FS * list M) (fflush : FS -> list M) (k : nat) (live sync : nat -> bool)
         cap0 cap1 caps (bs : list B) (s0 : FS) c,
  reachable _ _ _ (Pipe.prog B M FS fstep fflush k live sync) Pipe.sender Pipe.receiver (SkDone B M FS)
            (Pipe.init B M FS k cap0 cap1 caps bs s0) c ->
  length (chans c) = (2 + length caps)%nat /\
  (forall ch, (length (buf (nth ch (chans c) (dchan _))) <= cap (nth ch (chans c) (dchan _)))%nat) /\
  (forall ch, cap (nth ch (chans c) (dchan _)) =
              cap (nth ch (chans (Pipe.init B M FS k cap0 cap1 caps bs s0)) (dchan _))).
Proof. exact pipeline_channels_safe. Qed.
Print Assumptions C09_channels_safe.

Theorem C09_closed_for_good :
  forall (B M FS : Type) (fstep : FS -> B -> FS * list M) (fflush : FS -> list M) (k : nat) (live sync : nat -> bool) c c' n ch,
  steps _ (nstep _ _ _ (Pipe.prog B M FS fstep fflush k live sync) Pipe.sender Pipe.receiver (SkDone B M FS)) n c c' ->
  closed (nth ch (chans c) (dchan _)) = true ->
  closed (nth ch (chans c') (dchan _)) = true /\
  exists taken, buf (nth ch (chans c) (dchan _)) = (taken ++ buf (nth ch (chans c') (dchan _)))%list.
Proof. exact pipeline_closed_for_good. Qed.
Print Assumptions C09_closed_for_good.

(* At every moment, not only at the end: after ANY number of steps of ANY schedule every consumer holds a prefix of the
   framer's sequential output (what a process has emitted only grows, and every execution can be completed to the final
   configuration): nothing is ever delivered out of order, twice, or invented, even transiently. *)
Theorem C09_prefix_always :
  forall (B M FS : Type) (fstep : FS -> B -> FS * list M) (fflush : FS -> list M) (k : nat) (live sync : nat -> bool)
         cap0 cap1 caps (bs : list B) (s0 : FS),
  (1 <= cap0)%nat -> (1 <= cap1)%nat -> length caps = k -> Forall (fun c => (1 <= c)%nat) caps ->
  forall m c,
    steps _ (nstep _ _ _ (Pipe.prog B M FS fstep fflush k live sync) Pipe.sender Pipe.receiver (SkDone B M FS)) m
          (Pipe.init B M FS k cap0 cap1 caps bs s0) c ->
    forall i, (i < k)%nat -> exists rest,
      (if live i then seqrun B M FS fstep fflush s0 bs else []) = (sink_out B M FS c i ++ rest)%list.
Proof. exact pipeline_prefix_always. Qed.
Print Assumptions C09_prefix_always.

(* The fan-out process of Pipe.v transcribes this loop of appcore.HandleMessagesUntilEOF:
     for i := range appCore.Channels { if appCore.Channels[i] != nil { appCore.Channels[i] <- message } }
   (the function's only send statement).  genfacts re-reads the source on every run and sets
   fanout_all_non_nil accordingly; if the loop changes shape this obligation fails.  The framer process is a
   machine driven by bytes alone: framer_is_byte_driven says that the frame-scanning functions of rtcm/handler
   touch their input only through ByteChannel.GetNextByte / PushBack and that neither they nor rtcm/pushback
   use select or package time (a framer that also acted on a timer would make the output depend on timing). *)
Theorem C09_source_shape : fanout_all_non_nil = true /\ framer_is_byte_driven = true.
Proof. split; reflexivity. Qed.
Print Assumptions C09_source_shape.

Example C09_example :
  exists c, run _ _ _ (Pipe.prog nat nat nat (fun s b => (s + b, if Nat.even b then [s + b] else []))%nat (fun s => [s]) 2 (fun i => Nat.eqb i 1) (fun _ => true))
                Pipe.sender Pipe.receiver (SkDone _ _ _)
                (Pipe.init nat nat nat 2 1 1 [1; 1]%nat [3; 4]%nat 0%nat)
                [0; 1; 0; 0; 1; 1; 2; 2; 4; 4; 2; 1; 0; 0; 1; 1; 2; 2; 4; 4; 2; 1; 1; 2]%nat = Some c /\
            c = fin nat nat nat (fun s b => (s + b, if Nat.even b then [s + b] else []))%nat (fun s => [s]) 2 (fun i => Nat.eqb i 1)
                    1 1 [1; 1]%nat [3; 4]%nat 0%nat /\
            sink_out nat nat nat c 1 = [7; 7]%nat /\ sink_out nat nat nat c 0 = [].
Proof. eexists. split; [vm_compute; reflexivity|]. split; vm_compute; auto. Qed.


(* BitsProofs.v - C14: bit-field extraction returns exactly the addressed bits. *)
From NTRIP Require Import Base Bits.
From Coq Require Import ZifyN ZifyNat ZifyBool.
Open Scope N_scope.

Definition bstep (a : N) (b : bool) : N := 2 * a + b2n b.

Lemma N_of_bits_fold bs : N_of_bits bs = fold_left bstep bs 0.
Proof. reflexivity. Qed.

Lemma byte_bits_length b : length (byte_bits b) = 8%nat.
Proof. reflexivity. Qed.

Lemma bits_of_cons b buf : bits_of (b :: buf) = byte_bits b ++ bits_of buf.
Proof. reflexivity. Qed.

Lemma bits_of_app a b : bits_of (a ++ b) = bits_of a ++ bits_of b.
Proof. unfold bits_of. apply flat_map_app. Qed.

Lemma bits_of_length buf : length (bits_of buf) = (8 * length buf)%nat.
Proof.
  induction buf as [|b buf IH]; [reflexivity|].
  rewrite bits_of_cons, app_length, byte_bits_length, IH. simpl length. lia.
Qed.

Lemma nth_byte_bits b i : (i < 8)%nat ->
  nth_error (byte_bits b) i = Some (N.testbit b (N.of_nat (7 - i))).
Proof.
  intros H. do 8 (destruct i as [|i]; [reflexivity|]). lia.
Qed.

Lemma nth_bits_of buf i : nth_error (bits_of buf) i = bit_at buf i.
Proof.
  revert i; induction buf as [|b buf IH]; intros i.
  - unfold bit_at. change (bits_of []) with (@nil bool).
    assert (Hn : forall n, nth_error (@nil N) n = None) by (destruct n; reflexivity).
    rewrite Hn. destruct i; reflexivity.
  - rewrite bits_of_cons. unfold bit_at.
    destruct (Nat.lt_ge_cases i 8) as [Hlt|Hge].
    + rewrite nth_error_app1 by (rewrite byte_bits_length; exact Hlt).
      rewrite (Nat.div_small i 8 Hlt), (Nat.mod_small i 8 Hlt). simpl nth_error.
      apply nth_byte_bits; exact Hlt.
    + rewrite nth_error_app2 by (rewrite byte_bits_length; exact Hge).
      rewrite byte_bits_length, IH. unfold bit_at.
      assert (Ed : (i / 8 = S ((i - 8) / 8))%nat).
      { replace i with (i - 8 + 1 * 8)%nat at 1 by lia. rewrite Nat.div_add by lia. lia. }
      assert (Em : (i mod 8 = (i - 8) mod 8)%nat).
      { replace i with (i - 8 + 1 * 8)%nat at 1 by lia. rewrite Nat.mod_add by lia. reflexivity. }
      rewrite Ed, Em. reflexivity.
Qed.

Lemma bit_at_none buf i : (8 * length buf <= i)%nat <-> bit_at buf i = None.
Proof.
  rewrite <- nth_bits_of, nth_error_None, bits_of_length. reflexivity.
Qed.

Lemma fold_bstep_bound bs acc k :
  acc < 2 ^ k -> fold_left bstep bs acc < 2 ^ (k + N.of_nat (length bs)).
Proof.
  revert acc k; induction bs as [|b bs IH]; intros acc k H.
  - simpl. rewrite N.add_0_r. exact H.
  - simpl fold_left. simpl length. rewrite Nat2N.inj_succ.
    replace (k + N.succ (N.of_nat (length bs))) with ((k + 1) + N.of_nat (length bs)) by lia.
    apply IH. unfold bstep. rewrite N.pow_add_r. change (2 ^ 1) with 2.
    destruct b; simpl b2n; lia.
Qed.

Lemma N_of_bits_lt bs : N_of_bits bs < 2 ^ N.of_nat (length bs).
Proof.
  rewrite N_of_bits_fold. apply (fold_bstep_bound bs 0 0). reflexivity.
Qed.

Lemma get_u_loop_spec buf : forall len i acc k,
  (i + len <= 8 * length buf)%nat -> acc < 2 ^ k -> k + N.of_nat len <= 64 ->
  get_u_loop buf i len acc = Ok (fold_left bstep (slice (bits_of buf) i len) acc).
Proof.
  induction len as [|len IH]; intros i acc k Hr Ha Hk.
  - reflexivity.
  - simpl get_u_loop.
    destruct (nth_error (bits_of buf) i) as [b|] eqn:E.
    2:{ apply nth_error_None in E. rewrite bits_of_length in E. lia. }
    rewrite <- nth_bits_of, E. rewrite (slice_S _ _ _ _ E). simpl fold_left.
    assert (Hs : 2 * acc + b2n b < 2 ^ (k + 1)).
    { rewrite N.pow_add_r. change (2 ^ 1) with 2. destruct b; simpl b2n; lia. }
    assert (Hw : 2 ^ (k + 1) <= two64).
    { change two64 with (2 ^ 64). apply N.pow_le_mono_r; lia. }
    rewrite (N.mod_small (2 * acc + b2n b) two64) by (eapply N.lt_le_trans; eassumption).
    apply (IH (S i) _ (k + 1)); [lia|exact Hs|lia].
Qed.

(* unsigned extraction = the addressed bits, MSB first *)
Lemma get_u_spec buf pos len :
  (len <= 64)%nat -> (pos + len <= 8 * length buf)%nat ->
  get_u buf pos len = Ok (N_of_bits (slice (bits_of buf) pos len)).
Proof.
  intros Hl Hr. unfold get_u. rewrite N_of_bits_fold.
  apply (get_u_loop_spec buf len pos 0 0); [exact Hr|reflexivity|lia].
Qed.

(* an out-of-range read of a non-empty field panics, and nothing else does *)
Lemma get_u_loop_panic buf : forall len i acc,
  (8 * length buf < i + len)%nat -> (0 < len)%nat -> get_u_loop buf i len acc = Panic.
Proof.
  induction len as [|len IH]; intros i acc Hr Hl; [lia|].
  simpl. destruct (bit_at buf i) eqn:E; [|reflexivity].
  destruct len as [|len].
  - exfalso. assert (bit_at buf i = None) by (apply bit_at_none; lia). congruence.
  - apply IH; lia.
Qed.

Lemma get_u_loop_ok buf : forall len i acc,
  (i + len <= 8 * length buf)%nat -> exists v, get_u_loop buf i len acc = Ok v.
Proof.
  induction len as [|len IH]; intros i acc Hr; [eexists; reflexivity|].
  simpl. destruct (bit_at buf i) eqn:E.
  - apply IH. lia.
  - apply bit_at_none in E. lia.
Qed.

Lemma get_u_no_err buf pos len e : get_u buf pos len <> Err e.
Proof.
  unfold get_u. generalize 0 as acc. revert pos.
  induction len as [|len IH]; intros pos acc; simpl; [discriminate|].
  destruct (bit_at buf pos); [apply IH|discriminate].
Qed.

Lemma get_u_panic_iff buf pos len :
  get_u buf pos len = Panic <-> (0 < len /\ 8 * length buf < pos + len)%nat.
Proof.
  split.
  - intros H. destruct (Nat.le_gt_cases (pos + len) (8 * length buf)) as [Hle|Hgt].
    + destruct (get_u_loop_ok buf len pos 0 Hle) as [v Hv]. unfold get_u in H. congruence.
    + split; [|exact Hgt]. destruct len; [discriminate H|lia].
  - intros [Hl Hr]. apply get_u_loop_panic; assumption.
Qed.

Lemma get_u_in_range buf pos len :
  (pos + len <= 8 * length buf)%nat -> exists v, get_u buf pos len = Ok v.
Proof. apply get_u_loop_ok. Qed.

(* ---- signed ---- *)

Lemma N_of_bits_cons b bs :
  N_of_bits (b :: bs) = b2n b * 2 ^ N.of_nat (length bs) + N_of_bits bs.
Proof.
  rewrite !N_of_bits_fold. simpl fold_left. unfold bstep at 2. simpl (2 * 0 + _).
  generalize (b2n b) as a. clear b.
  assert (G : forall bs a c, fold_left bstep bs (a + c) =
                             a * 2 ^ N.of_nat (length bs) + fold_left bstep bs c).
  { clear. induction bs as [|b bs IH]; intros a c; simpl.
    - lia.
    - unfold bstep at 2 4. replace (2 * (a + c) + b2n b) with (2 * a + (2 * c + b2n b)) by lia.
      rewrite IH. rewrite Nat2N.inj_succ, N.pow_succ_r'. lia. }
  intros a. rewrite <- (G bs a 0). f_equal. lia.
Qed.

Lemma land_pow2_top v n : v < 2 ^ (n + 1) ->
  N.land v (2 ^ n) = if 2 ^ n <=? v then 2 ^ n else 0.
Proof.
  intros Hv. apply N.bits_inj. intros i. rewrite N.land_spec, N.pow2_bits_eqb.
  destruct (N.leb_spec (2 ^ n) v) as [Hge|Hlt].
  - rewrite N.pow2_bits_eqb. destruct (N.eqb_spec n i) as [<-|Hne]; [|apply andb_false_r].
    rewrite andb_true_r.
    assert (E : v = 2 ^ n + (v - 2 ^ n)) by lia. rewrite E.
    rewrite N.add_comm.
    replace (v - 2 ^ n + 2 ^ n) with ((v - 2 ^ n) + 1 * 2 ^ n) by lia.
    rewrite N.testbit_eqb, N.div_add, N.div_small by (rewrite N.pow_add_r in Hv; lia).
    reflexivity.
  - rewrite N.bits_0. destruct (N.eqb_spec n i) as [<-|Hne]; [|apply andb_false_r].
    rewrite andb_true_r.
    destruct (N.eq_dec v 0) as [->|Hnz]; [apply N.bits_0|].
    apply N.bits_above_log2. apply N.log2_lt_pow2; lia.
Qed.

Lemma testbit_top v n : 2 ^ n <= v -> v < 2 ^ (n + 1) -> N.testbit v n = true.
Proof.
  intros Hge Hlt. rewrite N.testbit_eqb.
  replace v with ((v - 2 ^ n) + 1 * 2 ^ n) by lia.
  rewrite N.div_add, N.div_small by (rewrite N.pow_add_r in Hlt; lia). reflexivity.
Qed.

Lemma land_not_pow2 v n : 2 ^ n <= v -> v < 2 ^ (n + 1) -> n < 64 ->
  N.land v (N.lxor (2 ^ n) (two64 - 1)) = v - 2 ^ n.
Proof.
  intros Hge Hlt Hn.
  assert (H64 : 2 ^ (n + 1) <= two64).
  { change two64 with (2 ^ 64). apply N.pow_le_mono_r; lia. }
  change (two64 - 1) with (N.ones 64).
  change (N.lxor (2 ^ n) (N.ones 64)) with (N.lnot (2 ^ n) 64).
  rewrite <- N.ldiff_land_low.
  2:{ apply N.log2_lt_pow2; [lia|]. change (2 ^ 64) with two64. lia. }
  symmetry. apply N.sub_nocarry_ldiff.
  apply N.bits_inj. intros i. rewrite N.ldiff_spec, N.pow2_bits_eqb, N.bits_0.
  destruct (N.eqb_spec n i) as [<-|_]; [|reflexivity].
  rewrite (testbit_top v n Hge Hlt). reflexivity.
Qed.

Lemma sign_mask_spec len : (2 <= len <= 64)%nat -> sign_mask len = 2 ^ N.of_nat (len - 1).
Proof.
  intros H. unfold sign_mask.
  destruct (Nat.ltb_spec len 2) as [C|_]; [lia|].
  destruct (Nat.leb_spec 64 (len - 2)) as [C|_]; [lia|].
  replace (N.of_nat (len - 1)) with (N.succ (N.of_nat (len - 2))) by lia.
  rewrite N.pow_succ_r'. apply N.mod_small.
  rewrite <- N.pow_succ_r'. change two64 with (2 ^ 64). apply N.pow_lt_mono_r; lia.
Qed.

Lemma get_s_spec buf pos len :
  (2 <= len <= 64)%nat -> (pos + len <= 8 * length buf)%nat ->
  get_s buf pos len = Ok (Z_of_bits_2c (slice (bits_of buf) pos len)).
Proof.
  intros Hl Hr. unfold get_s, get_s_gen.
  rewrite !get_u_spec by lia. cbn [bind].
  destruct len as [|len]; [lia|].
  destruct (nth_error (bits_of buf) pos) as [s|] eqn:E.
  2:{ apply nth_error_None in E. rewrite bits_of_length in E. lia. }
  rewrite !(slice_S _ _ _ _ E), slice_0.
  set (rest := slice (bits_of buf) (S pos) len).
  assert (Hlen : length rest = len) by (apply slice_length; rewrite bits_of_length; lia).
  rewrite (N_of_bits_cons s rest), (N_of_bits_cons s []). cbn [length].
  pose proof (N_of_bits_lt rest) as Hrest. rewrite Hlen in Hrest.
  change (N_of_bits []) with 0. change (2 ^ N.of_nat 0) with 1.
  unfold Z_of_bits_2c. rewrite Hlen.
  set (r := N_of_bits rest) in *. set (n := N.of_nat len) in *.
  assert (Hn : 1 <= n <= 63) by (unfold n; lia).
  assert (Hp63 : 2 ^ n <= two63).
  { change two63 with (2 ^ 63). apply N.pow_le_mono_r; lia. }
  assert (Hp1 : 2 <= 2 ^ n).
  { change 2 with (2 ^ 1) at 1. apply N.pow_le_mono_r; lia. }
  destruct s; cbn [b2n].
  - replace (1 * 1 + 0) with 1 by lia. change (1 =? 1) with true. cbv iota.
    rewrite sign_mask_spec by lia.
    replace (N.of_nat (S len - 1)) with n by (unfold n; lia).
    assert (Hv1 : 2 ^ n <= 1 * 2 ^ n + r) by lia.
    assert (Hv2 : 1 * 2 ^ n + r < 2 ^ (n + 1)) by (rewrite N.pow_add_r; change (2 ^ 1) with 2; lia).
    rewrite land_pow2_top by exact Hv2.
    destruct (N.leb_spec (2 ^ n) (1 * 2 ^ n + r)) as [_|C]; [|lia].
    rewrite land_not_pow2 by (assumption || lia).
    replace (1 * 2 ^ n + r - 2 ^ n) with r by lia.
    f_equal.
    assert (Hz : Z.of_nat len = Z.of_N n) by (unfold n; lia). rewrite Hz.
    replace (2 ^ Z.of_N n)%Z with (Z.of_N (2 ^ n)) by (rewrite N2Z.inj_pow; reflexivity).
    unfold to_int64, wrap_int64.
    change (Z.of_N two64) with 18446744073709551616%Z.
    change (Z.of_N two63) with 9223372036854775808%Z.
    change two63 with 9223372036854775808 in *.
    set (P := 2 ^ n) in *. clearbody P. clearbody r.
    destruct (N.ltb_spec r 9223372036854775808) as [_|C]; [|lia].
    destruct (N.ltb_spec P 9223372036854775808) as [HP|HP].
    + repeat match goal with |- context [Z.ltb ?a ?b] => destruct (Z.ltb_spec a b) end;
        Z.div_mod_to_equations; lia.
    + assert (P = 9223372036854775808) by lia. subst P.
      repeat match goal with |- context [Z.ltb ?a ?b] => destruct (Z.ltb_spec a b) end;
        Z.div_mod_to_equations; lia.
  - replace (0 * 1 + 0) with 0 by lia. change (0 =? 1) with false. cbv iota.
    f_equal. unfold to_int64. replace (0 * 2 ^ n + r) with r by lia.
    destruct (N.ltb_spec r two63); lia.
Qed.

Lemma get_locality b1 b2 pos len :
  (1 <= len <= 64)%nat -> (pos + len <= 8 * length b1)%nat -> (pos + len <= 8 * length b2)%nat ->
  slice (bits_of b1) pos len = slice (bits_of b2) pos len ->
  get_u b1 pos len = get_u b2 pos len /\
  ((2 <= len)%nat -> get_s b1 pos len = get_s b2 pos len).
Proof.
  intros Hl H1 H2 E. split.
  - rewrite !get_u_spec by lia. rewrite E. reflexivity.
  - intros H. rewrite !get_s_spec by lia. rewrite E. reflexivity.
Qed.

(* ---- the windowed readers equal the bit-serial ones ---- *)

Lemma fold_bstep_mod bs : forall a,
  fold_left bstep bs (a mod two64) mod two64 = fold_left bstep bs a mod two64.
Proof.
  induction bs as [|b bs IH]; intros a; cbn [fold_left].
  - apply N.mod_mod. discriminate.
  - rewrite <- (IH (bstep (a mod two64) b)), <- (IH (bstep a b)). f_equal. f_equal.
    unfold bstep. rewrite <- N.add_mod_idemp_l, N.mul_mod_idemp_r by discriminate.
    rewrite N.add_mod_idemp_l by discriminate. reflexivity.
Qed.

Lemma get_u_loop_wrap buf : forall len i acc,
  (i + len <= 8 * length buf)%nat ->
  get_u_loop buf i len acc =
  Ok (match len with O => acc | _ => fold_left bstep (slice (bits_of buf) i len) acc mod two64 end).
Proof.
  induction len as [|len IH]; intros i acc Hr; [reflexivity|].
  cbn [get_u_loop].
  destruct (nth_error (bits_of buf) i) as [b|] eqn:E.
  2:{ apply nth_error_None in E. rewrite bits_of_length in E. lia. }
  rewrite <- nth_bits_of, E, (slice_S _ _ _ _ E). cbn [fold_left].
  rewrite IH by lia. f_equal. fold (bstep acc b).
  destruct len as [|len].
  - rewrite slice_0. reflexivity.
  - apply fold_bstep_mod.
Qed.

(* unsigned extraction for any width: the addressed bits modulo 2^64 *)
Lemma get_u_spec_wrap buf pos len : (pos + len <= 8 * length buf)%nat ->
  get_u buf pos len = Ok (N_of_bits (slice (bits_of buf) pos len) mod two64).
Proof.
  intros Hr. unfold get_u. rewrite get_u_loop_wrap by exact Hr.
  destruct len; [reflexivity|]. reflexivity.
Qed.

Lemma bits_of_skipn_slice buf pos len :
  slice (bits_of buf) pos len = slice (bits_of (skipn (pos / 8) buf)) (pos mod 8) len.
Proof.
  pose proof (Nat.div_mod pos 8 ltac:(discriminate)) as D.
  generalize dependent (pos mod 8)%nat. generalize (pos / 8)%nat. intros q r D. subst pos.
  rewrite <- (firstn_skipn q buf) at 1. rewrite bits_of_app.
  destruct (Nat.le_gt_cases q (length buf)) as [Hle|Hgt].
  - replace (8 * q + r)%nat with (length (bits_of (firstn q buf)) + r)%nat
      by (rewrite bits_of_length, firstn_length_le by exact Hle; reflexivity).
    apply slice_app_r.
  - rewrite firstn_all2, skipn_all2 by lia. rewrite app_nil_r.
    unfold slice. rewrite skipn_all2 by (rewrite bits_of_length; lia).
    change (bits_of []) with (@nil bool). destruct r, len; reflexivity.
Qed.

Lemma getu_eq buf pos len : getu buf pos len = get_u buf pos len.
Proof.
  unfold getu. destruct (Nat.leb_spec (pos + len) (8 * length buf)) as [Hr|Hr]; [|reflexivity].
  rewrite get_u_spec_wrap by exact Hr. do 3 f_equal.
  rewrite (bits_of_skipn_slice buf pos len).
  set (rest := skipn (pos / 8) buf). set (r := (pos mod 8)%nat).
  symmetry. rewrite <- (firstn_skipn (S (S (len / 8))) rest) at 1. rewrite bits_of_app.
  apply slice_app_l. rewrite bits_of_length.
  assert (Hr8 : (r < 8)%nat) by (apply Nat.mod_upper_bound; discriminate).
  assert (Hl8 : (len < 8 * S (len / 8))%nat) by (pose proof (Nat.div_mod len 8); pose proof (Nat.mod_upper_bound len 8); lia).
  destruct (Nat.le_gt_cases (S (S (len / 8))) (length rest)) as [Hle|Hgt].
  - rewrite firstn_length_le by exact Hle. lia.
  - rewrite firstn_all2 by lia. unfold rest. rewrite skipn_length.
    pose proof (Nat.div_mod pos 8 ltac:(discriminate)) as D. fold r in D. lia.
Qed.

Lemma get_s_gen_ext g1 g2 : (forall b p l, g1 b p l = g2 b p l) ->
  forall b p l, get_s_gen g1 b p l = get_s_gen g2 b p l.
Proof. intros E b p l. unfold get_s_gen. rewrite !E. reflexivity. Qed.

Lemma gets_eq buf pos len : gets buf pos len = get_s buf pos len.
Proof. apply get_s_gen_ext. exact getu_eq. Qed.

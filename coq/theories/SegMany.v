(* SegMany.v - C12 for any number of corrupted frames at once: a stream of valid frames, 0xD3-free
   runs and corrupted frames (GBad) in any order and number, adjacent runs merged, optionally ending in
   a truncated frame.  A corollary of [handle_segments] (SegProofs.v), whose induction already carries
   the three kinds of segment. *)
From NTRIP Require Import Base Bits Time Classify Frame FrameSpec FrameProofs SegProofs.

Theorem corrupted_frames_isolated h gs tail :
  Forall gwf gs -> gnormal gs -> tail_ok tail ->
  exists ms h', handle_stream h (gflat gs ++ tail) = Ok (ms, h') /\
                map core ms = map gexp gs ++ tail_exp tail.
Proof.
  intros W Nm Ht. unfold handle_stream.
  destruct (handle_segments gs W Nm tail Ht (S (length (gflat gs ++ tail))) h (initial (gflat gs ++ tail)))
    as (ms & h' & Hh & Hm).
  - left. reflexivity.
  - unfold unread, initial. cbn [pb rest app]. reflexivity.
  - unfold unread, initial. cbn [pb rest app]. lia.
  - exists ms, h'. split; [exact Hh|exact Hm].
Qed.

(* The stream with every corrupted frame replaced by the valid frame [orig] names for it (same
   length), as a list of segments: what the stream was before the corruption. *)
Fixpoint healed (gs : list gseg) (orig : list N -> list N) : list gseg :=
  match gs with
  | [] => []
  | GBad f :: r => GFrame (orig f) :: healed r orig
  | s :: r => s :: healed r orig
  end.

(* what differs between the reports of the corrupted and the uncorrupted stream: exactly the
   entries at the positions of the corrupted frames; every other entry is equal, position by position. *)
Lemma healed_same_elsewhere gs orig :
  Forall2 (fun a b => a = b \/ exists f, a = ((-1)%Z, f) /\ b = (Z.of_N (frame_type (orig f)), orig f))
          (map gexp gs) (map gexp (healed gs orig)).
Proof.
  induction gs as [|s gs IH]; [constructor|].
  destruct s as [f|j|f]; cbn [healed map gexp]; constructor; try exact IH.
  - left. reflexivity.
  - left. reflexivity.
  - right. exists f. split; reflexivity.
Qed.

Lemma healed_is_junk gs orig : map is_junk (healed gs orig) = map is_junk gs.
Proof. induction gs as [|s gs IH]; [reflexivity|]. destruct s; cbn [healed map is_junk]; rewrite IH; reflexivity. Qed.

Lemma gnormal_by_junk a b : map is_junk a = map is_junk b -> gnormal a -> gnormal b.
Proof.
  revert b. induction a as [|x a IH]; intros b E N.
  - destruct b; [exact I|discriminate].
  - destruct b as [|y b]; [discriminate|]. cbn [map] in E. injection E as Exy E.
    destruct a as [|x2 a'].
    + destruct b; [exact I|discriminate].
    + destruct b as [|y2 b']; [discriminate|].
      apply gnormal_cons2 in N. destruct N as [N1 N2]. apply gnormal_cons2.
      pose proof E as E'. cbn [map] in E'. injection E' as Exy2 _.
      rewrite <- Exy, <- Exy2. split; [exact N1|]. apply IH; assumption.
Qed.

Lemma healed_wf gs orig : Forall gwf gs -> (forall f, In (GBad f) gs -> valid_frame (orig f)) ->
  Forall gwf (healed gs orig).
Proof.
  induction gs as [|s gs IH]; intros W O; [constructor|].
  inversion W as [|? ? Ws Wr]; subst.
  assert (O' : forall f, In (GBad f) gs -> valid_frame (orig f)) by (intros f Hf; apply O; right; exact Hf).
  destruct s as [f|j|f]; cbn [healed]; constructor; try (apply IH; assumption); try exact Ws.
  cbn [gwf]. apply O. left. reflexivity.
Qed.

(* C12 for any number of corrupted frames: both the corrupted stream and the stream as it was
   before the corruptions are reported in full, the two reports have the same number of
   entries and differ exactly at the corrupted frames, each of which is one non-RTCM message
   holding exactly its bytes. *)
Theorem many_corruptions h gs orig tail :
  Forall gwf gs -> gnormal gs -> (forall f, In (GBad f) gs -> valid_frame (orig f)) -> tail_ok tail ->
  exists ms ms' h1 h2,
    handle_stream h (gflat gs ++ tail) = Ok (ms, h1) /\
    handle_stream h (gflat (healed gs orig) ++ tail) = Ok (ms', h2) /\
    exists rest, map core ms = map gexp gs ++ rest /\ map core ms' = map gexp (healed gs orig) ++ rest /\
    Forall2 (fun a b => a = b \/ exists f, a = ((-1)%Z, f) /\ b = (Z.of_N (frame_type (orig f)), orig f))
            (map gexp gs) (map gexp (healed gs orig)).
Proof.
  intros W Nm O Ht.
  destruct (corrupted_frames_isolated h gs tail W Nm Ht) as (ms & h1 & H1 & M1).
  destruct (corrupted_frames_isolated h (healed gs orig) tail (healed_wf gs orig W O)
              (gnormal_by_junk gs _ (eq_sym (healed_is_junk gs orig)) Nm) Ht) as (ms' & h2 & H2 & M2).
  exists ms, ms', h1, h2. split; [exact H1|]. split; [exact H2|].
  exists (tail_exp tail). split; [exact M1|]. split; [exact M2|]. apply healed_same_elsewhere.
Qed.

(* P_C11.v - the theorems of property C11 and nothing else: each is closed by [exact <lemma>]
   (or a one-line instantiation) and followed by Print Assumptions.  One file per property, importing only
   what that property's statements need, so that a change which breaks one property's proof leaves the
   others' theorems checkable. *)
From NTRIP Require Import Base Net ProdCons.
From NTRIP Require Writers NetExamples.
From NTRIPGen Require Import GenConsts.

(* ===================== C11 ===================== *)
(* displayrtcm3 and rtcmfilter: the entry point hands every message to a writer goroutine over
   a channel, closes the channel and waits for the writer.  In EVERY reachable configuration of
   that network - every interleaving, every channel capacity >= 1, buffered or unbuffered (sync0: a send
   completes only when the item has been taken), every writer latency lat (internal steps per
   write) - once the entry point has returned the writer has written every message, in order.
   The [wait] parameter is read from the source on every run (the waits_... constants of GenConsts). *)
Theorem C11_flushed_displayrtcm3 : forall (V : Type) lat (sync0 : bool) cap (ms : list V) c, (1 <= cap)%nat ->
  reachable _ _ _ (prog V lat false waits_displayrtcm3 sync0) sender receiver (MDone V) (init V cap ms) c ->
  returned V (main_out V c) = true -> writes V (writer_out V c) = ms.
Proof.
  intros V lat sync0 cap ms c Hc Hr Hret.
  exact (proj1 (flushed_at_return V lat false waits_displayrtcm3 sync0 cap ms c eq_refl Hc Hr Hret)).
Qed.
Print Assumptions C11_flushed_displayrtcm3.

Theorem C11_flushed_rtcmfilter : forall (V : Type) lat (sync0 : bool) cap (ms : list V) c, (1 <= cap)%nat ->
  reachable _ _ _ (prog V lat false waits_rtcmfilter sync0) sender receiver (MDone V) (init V cap ms) c ->
  returned V (main_out V c) = true -> writes V (writer_out V c) = ms.
Proof.
  intros V lat sync0 cap ms c Hc Hr Hret.
  exact (proj1 (flushed_at_return V lat false waits_rtcmfilter sync0 cap ms c eq_refl Hc Hr Hret)).
Qed.
Print Assumptions C11_flushed_rtcmfilter.

(* No schedule deadlocks: a configuration in which nothing can move is the one where the entry
   point has returned and the writer has finished. *)
Theorem C11_no_deadlock : forall (V : Type) lat (sync0 : bool) cap (ms : list V) c, (1 <= cap)%nat ->
  reachable _ _ _ (prog V lat false true sync0) sender receiver (MDone V) (init V cap ms) c ->
  final_config _ _ _ (prog V lat false true sync0) sender receiver (MDone V) c ->
  nth 0%nat (procs c) (MDone V) = MDone V /\ nth 1%nat (procs c) (MDone V) = WHalt V.
Proof. intros V lat sync0 cap ms c Hc. exact (no_deadlock V lat false true sync0 cap ms c eq_refl Hc). Qed.
Print Assumptions C11_no_deadlock.

(* Any number of writers (Writers.v): main sends every message to writers 0..k-1 in turn over bounded
   channels - buffered, or unbuffered (sync i: after the send main waits until the item has been taken) -
   closes all channels, waits for every writer (rtcmfilter's WaitGroup; the wait is in the
   program only if the fact waits_rtcmfilter, regenerated from the source, says the code waits) and
   returns; each writer loops receive - latency - write and signals when its channel is closed.
   For every k, every message list, all capacities, latencies and schedules: in every reachable
   configuration in which main has returned, every writer has written exactly the messages, in
   order.  (Writers.flushed_at_return proves this for ANY straight-line main program that never
   sends to a writer after closing its channel and waits for every writer before returning.) *)
Theorem C11_k_writers : forall (V : Type) (sync : nat -> bool) lat cap k (msgs : list V) c,
  Writers.reach V lat cap (Writers.init V (Writers.std_prog_opt V sync waits_rtcmfilter k msgs)) c ->
  Writers.returned V c = true -> forall i, (i < k)%nat -> Writers.wrote V c i = msgs.
Proof. intros V sync lat cap k msgs c. exact (Writers.std_flushed_at_return V sync lat cap k msgs c). Qed.
Print Assumptions C11_k_writers.

(* and no schedule deadlocks: a configuration in which nothing can move is the one where main has run its
   whole program and every writer 0..k-1 has halted having written the messages *)
Theorem C11_k_no_deadlock : forall (V : Type) (sync : nat -> bool) lat cap k (msgs : list V) c, (forall i, (1 <= cap i)%nat) ->
  Writers.reach V lat cap (Writers.init V (Writers.std_prog V sync k msgs)) c ->
  (forall c', ~ Writers.step V lat cap c c') ->
  Writers.ops V c = [] /\ forall i, (i < k)%nat -> Writers.w V c i = Writers.WHalt V /\ Writers.wrote V c i = msgs.
Proof. exact Writers.std_no_deadlock. Qed.
Print Assumptions C11_k_no_deadlock.

(* Non-vacuity: two writers on unbuffered channels, two messages, latency 1 - a complete schedule after which main has
   returned and both writers hold both messages. *)
Example C11_k_example :
  exists c, Writers.reach nat 1%nat (fun _ => 1%nat) (Writers.init nat (Writers.std_prog nat (fun _ => true) 2%nat [7; 8]%nat)) c /\
            Writers.returned nat c = true /\ Writers.wrote nat c 0%nat = [7; 8]%nat /\ Writers.wrote nat c 1%nat = [7; 8]%nat.
Proof. exact NetExamples.writers_example. Qed.

(* The protocol without the wait (the code before its repair) loses output: main has returned and
   the writer has written nothing. *)
Theorem C11_unrepaired_witness :
  exists c, run (st nat) nat (ev nat) (prog nat 0%nat false false false) sender receiver (MDone nat) (init nat 1%nat [7]%nat) [0; 0; 0]%nat = Some c /\
            returned nat (main_out nat c) = true /\ writes nat (writer_out nat c) = []%list.
Proof. exact unrepaired_witness. Qed.
Print Assumptions C11_unrepaired_witness.


(* FloatProofs.v - binary64 error bounds (Flocq): the coordinate display of 1005/1006 (C05) and
   the pseudorange in metres (C08).  Axioms used are those of the standard library's
   primitive-float and real-number developments, listed by Print Assumptions in Properties.v. *)
From Coq Require Import ZArith Reals Floats Lia Lra Psatz.
From Flocq Require Import Core.
From Flocq Require Import IEEE754.BinarySingleNaN IEEE754.PrimFloat.
From Flocq Require Import Relative.
From Interval Require Import Tactic.
From NTRIP Require Import Bits Range.
Open Scope R_scope.

Notation fexp := (FLT_exp (3 - emax - prec) prec).
Notation rnd := (round radix2 fexp ZnearestE).

(* ---------- exact conversions ---------- *)

Lemma int_exact : forall X : Z, (0 < X < 2 ^ 53)%Z -> rnd (IZR X) = IZR X.
Proof.
  intros X HX. apply round_generic; auto with typeclass_instances.
  replace (IZR X) with (F2R (Float radix2 X 0)) by (unfold F2R; simpl; ring).
  apply generic_format_F2R. intros _.
  unfold cexp, FLT_exp.
  assert (Hm : (mag radix2 (F2R (Float radix2 X 0)) <= 53)%Z).
  { replace (F2R (Float radix2 X 0)) with (IZR X) by (unfold F2R; simpl; ring).
    apply mag_le_bpow. apply Rgt_not_eq, Rlt_gt, IZR_lt; lia.
    rewrite <- abs_IZR.
    change (bpow radix2 53) with (IZR (2 ^ 53)). apply IZR_lt. lia. }
  unfold prec, emax. lia.
Qed.

Lemma B2R_of_pos : forall X : Z, (0 < X < 2 ^ 53)%Z ->
  B2R (Prim2B (of_uint63 (Uint63.of_Z X))) = IZR X.
Proof.
  intros X HX. rewrite of_int63_equiv.
  assert (E : Uint63.to_Z (Uint63.of_Z X) = X).
  { rewrite Uint63.of_Z_spec. apply Z.mod_small. change Uint63.wB with (2 ^ 63)%Z. lia. }
  rewrite E.
  generalize (binary_normalize_correct prec emax Hprec Hmax mode_NE X 0 false).
  simpl.
  replace (F2R (Float radix2 X 0)) with (IZR X) by (unfold F2R; simpl; ring).
  change (round radix2 (SpecFloat.fexp prec emax) ZnearestE (IZR X)) with (rnd (IZR X)).
  rewrite (int_exact X HX).
  rewrite Rlt_bool_true. intros [H _]. exact H.
  rewrite <- abs_IZR. change (bpow radix2 emax) with (IZR (2 ^ 1024)). apply IZR_lt.
  unfold emax. assert (2 ^ 53 < 2 ^ 1024)%Z by (apply Z.pow_lt_mono_r; lia). lia.
Qed.

(* float64(int64) of a non-zero value below 2^53 in magnitude is exact *)
Lemma B2R_f_of_Z : forall X : Z, (X <> 0)%Z -> (- 2 ^ 53 < X < 2 ^ 53)%Z ->
  B2R (Prim2B (f_of_Z X)) = IZR X.
Proof.
  intros X Hnz HX. unfold f_of_Z.
  destruct (Z.ltb_spec X 0) as [Hneg|Hpos].
  - rewrite opp_equiv, B2R_Bopp, B2R_of_pos by lia. rewrite opp_IZR. ring.
  - apply B2R_of_pos. lia.
Qed.

(* ---------- the constant 0.0001 ---------- *)

Lemma c4_SF : Prim2SF c_0001 = S754_finite false 7378697629483821 (-66).
Proof. vm_compute. reflexivity. Qed.

Lemma B2R_c4 : B2R (Prim2B c_0001) = IZR 7378697629483821 * / IZR (2 ^ 66).
Proof.
  unfold Prim2B. rewrite B2R_SF2B. rewrite c4_SF. simpl. unfold F2R. simpl. reflexivity.
Qed.

(* ---------- one multiplication by a constant ---------- *)

Lemma mul_rel (a c : PrimFloat.float) (A C : R) :
  B2R (Prim2B a) = A -> B2R (Prim2B c) = C ->
  1 / 1048576 <= Rabs (A * C) <= 1152921504606846976 ->
  exists eps, Rabs eps <= 1 / 9007199254740992 /\ B2R (Prim2B (a * c)%float) = A * C * (1 + eps).
Proof.
  intros HA HC Hr. rewrite mul_equiv.
  generalize (Bmult_correct prec emax Hprec Hmax mode_NE (Prim2B a) (Prim2B c)).
  rewrite HA, HC.
  destruct (relative_error_N_FLT_ex radix2 (3 - emax - prec) prec (refl_equal _) (fun x => negb (Z.even x)) (A * C)) as [eps [Heps Hrd]].
  { apply Rle_trans with (1 / 1048576); [|apply Hr]. unfold emax, prec. simpl. interval. }
  change (round radix2 (FLT_exp (3 - emax - prec) prec) (Znearest (fun x : Z => negb (Z.even x)))) with rnd in Hrd.
  change (round radix2 (SpecFloat.fexp prec emax) (round_mode mode_NE) (A * C)) with (rnd (A * C)).
  rewrite Hrd.
  assert (Heps' : Rabs eps <= 1 / 9007199254740992).
  { eapply Rle_trans. exact Heps.
    replace (bpow radix2 (- prec + 1)) with (/ 4503599627370496).
    lra. unfold prec. change (-53 + 1)%Z with (-52)%Z. unfold bpow.
    replace (Z.pow_pos radix2 52) with 4503599627370496%Z by (vm_compute; reflexivity). reflexivity. }
  rewrite Rlt_bool_true.
  - intros [H _]. exists eps. split; [exact Heps'|exact H].
  - rewrite Rabs_mult.
    apply Rle_lt_trans with (1152921504606846976 * (1 + 1 / 9007199254740992)).
    + apply Rmult_le_compat; try apply Rabs_pos; [apply Hr|].
      eapply Rle_trans; [apply Rabs_triang|]. rewrite Rabs_R1. lra.
    + unfold emax. interval.
Qed.

(* ---------- C05: the displayed coordinate ---------- *)

(* the double computed by float64(X) * 0.0001 is within 1e-8 m of X/10^4 *)
Theorem coord_error : forall X : Z, (- 2 ^ 37 <= X < 2 ^ 37)%Z ->
  Rabs (B2R (Prim2B (coord_m X)) - IZR X / 10000) <= 1 / 100000000.
Proof.
  intros X HX. destruct (Z.eq_dec X 0) as [->|Hnz].
  - replace (B2R (Prim2B (coord_m 0))) with 0 by (vm_compute; reflexivity).
    unfold Rdiv. rewrite Rmult_0_l, Rminus_0_r, Rabs_R0. lra.
  - unfold coord_m.
    assert (H53 : (- 2 ^ 53 < X < 2 ^ 53)%Z) by lia.
    assert (Hx1 : 1 <= Rabs (IZR X)) by (rewrite <- abs_IZR; apply IZR_le; lia).
    assert (Hx2 : Rabs (IZR X) <= 137438953472) by (rewrite <- abs_IZR; apply IZR_le; change (Z.abs X <= 2 ^ 37)%Z; lia).
    set (c := IZR 7378697629483821 * / IZR (2 ^ 66)).
    assert (Hc : 9 / 100000 <= c <= 11 / 100000) by (unfold c; split; interval).
    destruct (mul_rel (f_of_Z X) c_0001 (IZR X) c (B2R_f_of_Z X Hnz H53) B2R_c4) as [eps [He Hm]].
    { rewrite Rabs_mult, (Rabs_pos_eq c) by lra. split.
      - apply Rle_trans with (1 * (9 / 100000)); [lra|]. apply Rmult_le_compat; lra.
      - apply Rle_trans with (137438953472 * (11 / 100000)); [|lra]. apply Rmult_le_compat; try lra; try apply Rabs_pos. }
    rewrite Hm.
    replace (IZR X * c * (1 + eps) - IZR X / 10000) with (IZR X * (c * (1 + eps) - 1 / 10000)) by field.
    rewrite Rabs_mult.
    apply Rle_trans with (137438953472 * (7 / 100000000000000000000)).
    + apply Rmult_le_compat; try apply Rabs_pos; [exact Hx2|].
      unfold c. clear Hm Hc. interval with (i_prec 120).
    + lra.
Qed.

(* hence the nearest four-decimal value of the computed double is exactly X/10^4:
   the display shows the encoded integer times 0.0001 m *)
Theorem coord_display : forall (X : Z) choice, (- 2 ^ 37 <= X < 2 ^ 37)%Z ->
  Znearest choice (B2R (Prim2B (coord_m X)) * 10000) = X.
Proof.
  intros X choice HX. apply Znearest_imp.
  pose proof (coord_error X HX) as H.
  replace (B2R (Prim2B (coord_m X)) * 10000 - IZR X) with ((B2R (Prim2B (coord_m X)) - IZR X / 10000) * 10000) by field.
  rewrite Rabs_mult, (Rabs_pos_eq 10000) by lra.
  apply Rle_lt_trans with (1 / 100000000 * 10000); [apply Rmult_le_compat_r; lra|lra].
Qed.

(* ---------- C08: the pseudorange in metres ---------- *)

Lemma B2R_two29 : B2R (Prim2B two29f) = 536870912.
Proof.
  unfold Prim2B. rewrite B2R_SF2B.
  replace (Prim2SF two29f) with (S754_finite false 4503599627370496 (-23)) by (vm_compute; reflexivity).
  simpl. unfold F2R. simpl. lra.
Qed.

Lemma B2R_c_ms : B2R (Prim2B c_light_ms) = IZR 5150395210789814 * / IZR (2 ^ 34).
Proof.
  unfold Prim2B. rewrite B2R_SF2B.
  replace (Prim2SF c_light_ms) with (S754_finite false 5150395210789814 (-34)) by (vm_compute; reflexivity).
  simpl. unfold F2R. simpl. reflexivity.
Qed.

(* dividing a 41-bit integer by 2^29 is exact *)
Lemma scale_exact : forall S : Z, (0 < S < 2 ^ 41)%Z -> rnd (IZR S / 536870912) = IZR S / 536870912.
Proof.
  intros S HS. apply round_generic; auto with typeclass_instances.
  replace (IZR S / 536870912) with (F2R (Float radix2 S (-29))).
  2:{ unfold F2R. simpl. change (Z.pow_pos 2 29) with 536870912%Z. field. }
  apply generic_format_F2R. intros _.
  unfold cexp, FLT_exp.
  assert (Hm : (mag radix2 (F2R (Float radix2 S (-29))) <= 12)%Z).
  { apply mag_le_bpow.
    - unfold F2R. simpl. apply Rmult_integral_contrapositive_currified.
      + apply Rgt_not_eq, Rlt_gt, IZR_lt; lia.
      + apply Rgt_not_eq. apply Rinv_0_lt_compat. apply IZR_lt. reflexivity.
    - unfold F2R. simpl. change (Z.pow_pos 2 29) with 536870912%Z.
      rewrite Rabs_mult, <- abs_IZR, (Rabs_pos_eq (/ 536870912)) by (apply Rlt_le, Rinv_0_lt_compat; lra).
      assert (IZR (Z.abs S) < 2199023255552) by (apply IZR_lt; change (Z.abs S < 2 ^ 41)%Z; lia).
      change (bpow radix2 12) with 4096. lra. }
  unfold prec, emax. lia.
Qed.

Lemma div29_exact : forall S : Z, (0 < S < 2 ^ 41)%Z ->
  B2R (Prim2B (of_uint63 (Uint63.of_Z S) / two29f)%float) = IZR S / 536870912.
Proof.
  intros S HS. rewrite div_equiv.
  assert (H53 : (0 < S < 2 ^ 53)%Z) by (assert (2 ^ 41 < 2 ^ 53)%Z by (apply Z.pow_lt_mono_r; lia); lia).
  generalize (Bdiv_correct prec emax Hprec Hmax mode_NE (Prim2B (of_uint63 (Uint63.of_Z S))) (Prim2B two29f)).
  rewrite (B2R_of_pos S H53), B2R_two29.
  change (round radix2 (SpecFloat.fexp prec emax) (round_mode mode_NE) (IZR S / 536870912)) with (rnd (IZR S / 536870912)).
  rewrite (scale_exact S HS).
  intros H. specialize (H ltac:(lra)).
  rewrite Rlt_bool_true in H.
  - destruct H as [H _]. exact H.
  - assert (1 <= IZR S) by (apply IZR_le; lia). assert (IZR S < 2199023255552) by (apply IZR_lt; change (S < 2 ^ 41)%Z; lia).
    rewrite Rabs_pos_eq by (unfold Rdiv; apply Rmult_le_pos; lra).
    apply Rlt_trans with 4096; [lra|]. unfold emax. interval.
Qed.

(* the pseudorange c/1000 x S/2^29 is computed with a relative error below 2^-51 *)
Theorem range_error : forall S : N, (0 < S < 2 ^ 41)%N ->
  let exact := IZR (Z.of_N S) / 536870912 * (299792458 / 1000) in
  Rabs (B2R (Prim2B (range_m S)) - exact) <= exact / 2251799813685248.
Proof.
  intros S HS exact. unfold range_m, f_of_N.
  assert (HZ : (0 < Z.of_N S < 2 ^ 41)%Z) by lia.
  destruct (N.ltb_spec S two63) as [_|C]; [|unfold two63 in C; lia].
  set (c := IZR 5150395210789814 * / IZR (2 ^ 34)).
  assert (Hx1 : 1 <= IZR (Z.of_N S)) by (apply IZR_le; lia).
  assert (Hx2 : IZR (Z.of_N S) < 2199023255552) by (apply IZR_lt; change (Z.of_N S < 2 ^ 41)%Z; lia).
  destruct (mul_rel _ c_light_ms _ c (div29_exact (Z.of_N S) HZ) B2R_c_ms) as [eps [He Hm]].
  { assert (Hc : 299792 <= c <= 299793) by (unfold c; split; interval).
    assert (Hq : 1 / 536870912 <= IZR (Z.of_N S) / 536870912 <= 4096) by (split; lra).
    generalize dependent (IZR (Z.of_N S) / 536870912). intros q _ Hq.
    rewrite Rabs_pos_eq by nra. split; nra. }
  rewrite Hm. unfold exact.
  set (x := IZR (Z.of_N S) / 536870912).
  assert (Hxp : 0 < x) by (unfold x, Rdiv; apply Rmult_lt_0_compat; lra).
  replace (x * c * (1 + eps) - x * (299792458 / 1000)) with (x * (c * (1 + eps) - 299792458 / 1000)) by ring.
  rewrite Rabs_mult, (Rabs_pos_eq x) by lra.
  replace (x * (299792458 / 1000) / 2251799813685248) with (x * (299792458 / 1000 / 2251799813685248)) by field.
  apply Rmult_le_compat_l; [lra|].
  unfold c. clear Hm. interval with (i_prec 120).
Qed.

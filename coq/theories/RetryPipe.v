(* RetryPipe.v - C13 end to end: the read loop of file_handler.Handle (Retry.v) as the reader of the
   pipeline network (Pipe.v) with the byte-driven framer (IncFrame.v).  Whatever the source does
   (end-of-file and timeout results, pauses, other errors, anywhere), the bytes the loop forwards are
   the data of the part of the script it consumed; every schedule of the network delivers to every
   consumer exactly handle_stream's messages for those bytes, whose raw bytes concatenate to them
   (a cut frame at the end arrives as a non-RTCM message), and both channels end closed.  When the
   interruptions are gentle (single and double, tolerance non-zero) the forwarded bytes are the whole
   uninterrupted stream, so the messages are those of the uninterrupted stream. *)
From Coq Require Import List Arith NArith ZArith Lia Bool.
Import ListNotations.
From NTRIP Require Import Base Time Frame FrameProofs Net Pipe IncFrame PipeInc Retry RetryProofs.
Arguments outs {St V Ev}.

Lemma run_script_app tol wait : forall a b s s' r,
  run_script tol wait a s = (s', StopNone, r) -> run_script tol wait (a ++ b) s = run_script tol wait b s'.
Proof.
  induction a as [|e a IH]; intros b s s' r H.
  - cbn in H. injection H as <- _. reflexivity.
  - destruct e as [bs| | | |ms]; cbn [run_script app] in *.
    + exact (IH _ _ _ _ H).
    + destruct (on_eof tol wait s); [exact (IH _ _ _ _ H)|discriminate].
    + destruct (on_eof tol wait s); [exact (IH _ _ _ _ H)|discriminate].
    + discriminate.
    + exact (IH _ _ _ _ H).
Qed.

(* gentle interruptions, then silence: the loop forwards the whole stream and stops on end-of-file *)
Lemma run_reader_gentle tol wait script : (0 < tol)%N -> (wait <= tol)%N -> gentle script ->
  run_reader tol wait script = (data_of script, StopEOF).
Proof.
  intros Ht Hw G. unfold run_reader.
  destruct (gentle_resumes tol wait Ht Hw script G {| r_first := None; r_now := 0; r_out := [] |} eq_refl) as (s' & R & O & F).
  rewrite (run_script_app tol wait _ [REof; REof; REof; REof] _ _ _ R).
  destruct (silence_stops tol wait s' [] F) as (s2 & k & R2 & O2).
  rewrite R2, O2, O. reflexivity.
Qed.

(* whatever the script, what the loop forwards is the data of a prefix of the script *)
Lemma run_reader_prefix tol wait script :
  exists consumed rest, script ++ [REof; REof; REof; REof] = consumed ++ rest /\
                        fst (run_reader tol wait script) = data_of consumed.
Proof.
  unfold run_reader.
  destruct (run_script tol wait (script ++ [REof; REof; REof; REof]) {| r_first := None; r_now := 0; r_out := [] |})
    as [[s why] rest] eqn:E.
  destruct (run_script_forwarding tol wait _ _ _ _ _ E) as (c & Hc & Ho & _).
  exists c, (unread_after why rest). split; [exact Hc|]. cbn [fst]. rewrite Ho. reflexivity.
Qed.

Section Net.
  Variables (t0 : Z) (k : nat) (live sync : nat -> bool) (cap0 cap1 : nat) (caps : list nat).
  Hypothesis H0 : (1 <= cap0)%nat.
  Hypothesis H1 : (1 <= cap1)%nat.
  Hypothesis Hl : length caps = k.
  Hypothesis Hc : Forall (fun c => (1 <= c)%nat) caps.

  Notation pprog := (Pipe.prog N msg mstate mstep mflush k live sync).
  Notation pstep := (nstep _ _ _ pprog Pipe.sender Pipe.receiver (SkDone _ _ _)).
  Notation pfinal := (final_config _ _ _ pprog Pipe.sender Pipe.receiver (SkDone _ _ _)).

  (* the network whose reader forwards [out] *)
  Definition delivered_by_every_schedule (out : list N) (ms : list msg) : Prop :=
    exists n, forall m c,
      steps _ pstep m (Pipe.init N msg mstate k cap0 cap1 caps out (new_handler t0, PEat [])) c ->
      (m <= n)%nat /\
      (pfinal c ->
         (forall i, (i < k)%nat -> sink_out N msg mstate c i = if live i then ms else []) /\
         closed (nth 0 (chans c) (dchan _)) = true /\ closed (nth 1 (chans c) (dchan _)) = true /\
         halted N msg mstate mstep mflush k live sync c 0 /\ halted N msg mstate mstep mflush k live sync c 1).

  Lemma network_delivers (out : list N) :
    exists ms h', handle_stream (new_handler t0) out = Ok (ms, h') /\ concat (map raw ms) = out /\
                  Forall (fun x => raw x <> []) ms /\ delivered_by_every_schedule out ms.
  Proof.
    destruct (handle_stream_lossless (new_handler t0) out) as (ms & h' & Hms & Hcat & Hne & _).
    exists ms, h'. split; [exact Hms|]. split; [exact Hcat|]. split; [exact Hne|].
    destruct (pipeline_every_schedule N msg mstate mstep mflush k live sync cap0 cap1 caps out (new_handler t0, PEat []) H0 H1 Hl Hc) as [n Hn].
    exists n. intros m c Hs. destruct (Hn m c Hs) as (Hle & _ & Hfin).
    split; [exact Hle|]. intros Hf. rewrite (Hfin Hf). split.
    - intros i Hi. rewrite (fin_sinks N msg mstate _ _ k live cap0 cap1 caps out _ i Hi).
      rewrite seqrun_machine. pose proof (handle_stream_is_machine (new_handler t0) out) as Hm.
      rewrite Hms in Hm. injection Hm as Hm. rewrite <- Hm. reflexivity.
    - repeat split; reflexivity.
  Qed.

  (* any faults at all: what was received before the loop stopped is delivered, nothing else *)
  Theorem reader_pipeline_any_faults tol wait script :
    exists consumed rest ms h',
      script ++ [REof; REof; REof; REof] = consumed ++ rest /\
      fst (run_reader tol wait script) = data_of consumed /\
      handle_stream (new_handler t0) (data_of consumed) = Ok (ms, h') /\
      concat (map raw ms) = data_of consumed /\ Forall (fun x => raw x <> []) ms /\
      delivered_by_every_schedule (fst (run_reader tol wait script)) ms.
  Proof.
    destruct (run_reader_prefix tol wait script) as (c & rest & Hsplit & Hout).
    destruct (network_delivers (data_of c)) as (ms & h' & Hms & Hcat & Hne & Hd).
    exists c, rest, ms, h'. rewrite Hout. repeat split; assumption.
  Qed.

  (* gentle interruptions: the messages of the uninterrupted stream *)
  Theorem reader_pipeline_gentle tol wait script : (0 < tol)%N -> (wait <= tol)%N -> gentle script ->
    exists ms h',
      handle_stream (new_handler t0) (data_of script) = Ok (ms, h') /\
      delivered_by_every_schedule (fst (run_reader tol wait script)) ms.
  Proof.
    intros Ht Hw G. rewrite (run_reader_gentle tol wait script Ht Hw G). cbn [fst].
    destruct (network_delivers (data_of script)) as (ms & h' & Hms & _ & _ & Hd).
    exists ms, h'. split; assumption.
  Qed.
End Net.

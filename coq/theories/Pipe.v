(* Pipe.v - the reader -> framer -> fan-out -> consumers pipeline of appcore.HandleMessagesUntilEOF
   as a network of sequential processes over bounded FIFO channels (Net.v).

   process 0     reader:   sends the input bytes one at a time on channel 0, then closes it
                           (file_handler.Handle; chunking and read delays are schedules of this process)
   process 1     framer:   ANY state machine (state S, fstep : S -> byte -> S * messages, fflush at end of
                           input): receives bytes on channel 0, sends the messages each byte completes on
                           channel 1, at close sends the flush messages and closes channel 1
                           (rtcm handler.HandleMessages)
   process 2     fan-out:  receives messages on channel 1 and sends a copy to every non-nil consumer
                           channel 2+i in index order; returns when channel 1 is closed (it does NOT
                           close the consumer channels - neither does the code)
   process 3+i   consumer: receives on channel 2+i and records each message (emit), for ever

   Every channel has an arbitrary capacity >= 1 and, independently, may be UNBUFFERED (sync ch = true,
   as the byte channel, the message channel and rtcmfilter's consumer channels are in the Go code):
   after a send on such a channel the sender waits until the value has been taken (Net.OAwait).

   Result: there is a bound n and ONE final configuration f such that every execution from the
   initial configuration, under every schedule, has at most n steps and can always be extended
   to f; hence every maximal execution ends in f, where reader, framer and fan-out have halted,
   every channel is empty, channels 0 and 1 have been closed exactly once, and every non-nil
   consumer has recorded exactly the sequential output of the framer on the input bytes. *)
From Coq Require Import List Arith Lia Bool.
Import ListNotations.
From NTRIP Require Import Net.
Arguments procs {St V Ev}. Arguments chans {St V Ev}. Arguments outs {St V Ev}.
Arguments buf {V}. Arguments cap {V}. Arguments closed {V}.

(* ---------- how one process step computes, as rewriting lemmas ---------- *)
Section StepLemmas.
  Variables St V Ev : Type.
  Variable prog : St -> op St V Ev.
  Variables sender receiver : nat -> nat.
  Variable dSt : St.
  Notation config := (config St V Ev).
  Notation pstep := (pstep St V Ev prog sender receiver dSt).

  Lemma pstep_send (c : config) p ch v k' :
    p < length (procs c) -> prog (nth p (procs c) dSt) = OSend _ _ _ ch v k' ->
    sender ch = p -> ch < length (chans c) ->
    closed (nth ch (chans c) (dchan V)) = false ->
    length (buf (nth ch (chans c) (dchan V))) < cap (nth ch (chans c) (dchan V)) ->
    pstep c p = Some {| procs := upd (procs c) p k';
                        chans := upd (chans c) ch {| buf := buf (nth ch (chans c) (dchan V)) ++ [v];
                                                     cap := cap (nth ch (chans c) (dchan V));
                                                     closed := closed (nth ch (chans c) (dchan V)) |};
                        outs := outs c |}.
  Proof.
    intros Hp Hprog Hs Hch Hcl Hroom. unfold Net.pstep.
    replace (p <? length (procs c)) with true by (symmetry; apply Nat.ltb_lt; exact Hp). cbn [negb].
    rewrite Hprog. rewrite Hs, Nat.eqb_refl.
    replace (ch <? length (chans c)) with true by (symmetry; apply Nat.ltb_lt; exact Hch).
    rewrite Hcl.
    replace (length (buf (nth ch (chans c) (dchan V))) <? cap (nth ch (chans c) (dchan V))) with true
      by (symmetry; apply Nat.ltb_lt; exact Hroom).
    reflexivity.
  Qed.

  Lemma pstep_close (c : config) p ch k' :
    p < length (procs c) -> prog (nth p (procs c) dSt) = OClose _ _ _ ch k' ->
    sender ch = p -> ch < length (chans c) ->
    closed (nth ch (chans c) (dchan V)) = false ->
    pstep c p = Some {| procs := upd (procs c) p k';
                        chans := upd (chans c) ch {| buf := buf (nth ch (chans c) (dchan V));
                                                     cap := cap (nth ch (chans c) (dchan V));
                                                     closed := true |};
                        outs := outs c |}.
  Proof.
    intros Hp Hprog Hs Hch Hcl. unfold Net.pstep.
    replace (p <? length (procs c)) with true by (symmetry; apply Nat.ltb_lt; exact Hp). cbn [negb].
    rewrite Hprog. rewrite Hs, Nat.eqb_refl.
    replace (ch <? length (chans c)) with true by (symmetry; apply Nat.ltb_lt; exact Hch).
    rewrite Hcl. reflexivity.
  Qed.

  Lemma pstep_recv_some (c : config) p ch kk v rest :
    p < length (procs c) -> prog (nth p (procs c) dSt) = ORecv _ _ _ ch kk ->
    receiver ch = p -> ch < length (chans c) ->
    buf (nth ch (chans c) (dchan V)) = v :: rest ->
    pstep c p = Some {| procs := upd (procs c) p (kk (Some v));
                        chans := upd (chans c) ch {| buf := rest;
                                                     cap := cap (nth ch (chans c) (dchan V));
                                                     closed := closed (nth ch (chans c) (dchan V)) |};
                        outs := outs c |}.
  Proof.
    intros Hp Hprog Hs Hch Hb. unfold Net.pstep.
    replace (p <? length (procs c)) with true by (symmetry; apply Nat.ltb_lt; exact Hp). cbn [negb].
    rewrite Hprog. rewrite Hs, Nat.eqb_refl.
    replace (ch <? length (chans c)) with true by (symmetry; apply Nat.ltb_lt; exact Hch).
    cbn [andb]. rewrite Hb. reflexivity.
  Qed.

  Lemma pstep_recv_closed (c : config) p ch kk :
    p < length (procs c) -> prog (nth p (procs c) dSt) = ORecv _ _ _ ch kk ->
    receiver ch = p -> ch < length (chans c) ->
    buf (nth ch (chans c) (dchan V)) = [] -> closed (nth ch (chans c) (dchan V)) = true ->
    pstep c p = Some {| procs := upd (procs c) p (kk None); chans := chans c; outs := outs c |}.
  Proof.
    intros Hp Hprog Hs Hch Hb Hcl. unfold Net.pstep.
    replace (p <? length (procs c)) with true by (symmetry; apply Nat.ltb_lt; exact Hp). cbn [negb].
    rewrite Hprog. rewrite Hs, Nat.eqb_refl.
    replace (ch <? length (chans c)) with true by (symmetry; apply Nat.ltb_lt; exact Hch).
    cbn [andb]. rewrite Hb, Hcl. reflexivity.
  Qed.

  Lemma pstep_emit (c : config) p e k' :
    p < length (procs c) -> prog (nth p (procs c) dSt) = OEmit _ _ _ e k' ->
    pstep c p = Some {| procs := upd (procs c) p k'; chans := chans c;
                        outs := upd (outs c) p (nth p (outs c) [] ++ [e]) |}.
  Proof.
    intros Hp Hprog. unfold Net.pstep.
    replace (p <? length (procs c)) with true by (symmetry; apply Nat.ltb_lt; exact Hp). cbn [negb].
    rewrite Hprog. reflexivity.
  Qed.
  Lemma pstep_await (c : config) p ch k' :
    p < length (procs c) -> prog (nth p (procs c) dSt) = OAwait _ _ _ ch k' ->
    sender ch = p -> ch < length (chans c) -> buf (nth ch (chans c) (dchan V)) = [] ->
    pstep c p = Some {| procs := upd (procs c) p k'; chans := chans c; outs := outs c |}.
  Proof.
    intros Hp Hprog Hs Hch Hb. unfold Net.pstep.
    replace (p <? length (procs c)) with true by (symmetry; apply Nat.ltb_lt; exact Hp). cbn [negb].
    rewrite Hprog. rewrite Hs, Nat.eqb_refl.
    replace (ch <? length (chans c)) with true by (symmetry; apply Nat.ltb_lt; exact Hch).
    cbn [andb]. rewrite Hb. reflexivity.
  Qed.
End StepLemmas.

Section Pipe.
  Variables B M FS : Type.
  Variable fstep : FS -> B -> FS * list M.
  Variable fflush : FS -> list M.
  Variable k : nat.               (* number of consumer entries *)
  Variable live : nat -> bool.    (* entry i is non-nil *)
  Variable sync : nat -> bool.    (* channel ch is unbuffered in the Go code: a send completes only when the value has been taken *)

  (* sequential framing *)
  Fixpoint seqrun (s : FS) (bs : list B) : list M :=
    match bs with
    | [] => fflush s
    | b :: r => snd (fstep s b) ++ seqrun (fst (fstep s b)) r
    end.

  Inductive val := VB (b : B) | VM (m : M).

  Inductive st :=
  | RdS (bs : list B) | RdDone
  | FrRecv (s : FS) | FrSend (next : st) (m : M) (r : list M) | FrClose | FrDone
  | FoRecv | FoSend (m : M) (i : nat) (r : list nat) | FoDone
  | SkRecv (i : nat) | SkEmit (i : nat) (m : M) | SkDone
  | Aw (ch : nat) (next : st).     (* after a send on an unbuffered channel: wait until the value has been taken *)

  Definition targets : list nat := filter live (seq 0 k).
  Definition fr_after (next : st) (ms : list M) : st :=
    match ms with [] => next | m :: r => FrSend next m r end.
  Definition fo_after (m : M) (ts : list nat) : st :=
    match ts with [] => FoRecv | i :: r => FoSend m i r end.

  Definition aw (ch : nat) (next : st) : st := if sync ch then Aw ch next else next.

  Definition prog (s : st) : op st val M :=
    match s with
    | RdS [] => OClose _ _ _ 0 RdDone
    | RdS (b :: r) => OSend _ _ _ 0 (VB b) (aw 0 (RdS r))
    | RdDone => OHalt _ _ _
    | FrRecv s => ORecv _ _ _ 0 (fun o => match o with
                                          | Some (VB b) => fr_after (FrRecv (fst (fstep s b))) (snd (fstep s b))
                                          | Some (VM _) => FrDone
                                          | None => fr_after FrClose (fflush s)
                                          end)
    | FrSend next m r => OSend _ _ _ 1 (VM m) (aw 1 (fr_after next r))
    | FrClose => OClose _ _ _ 1 FrDone
    | FrDone => OHalt _ _ _
    | FoRecv => ORecv _ _ _ 1 (fun o => match o with
                                        | Some (VM m) => fo_after m targets
                                        | _ => FoDone
                                        end)
    | FoSend m i r => OSend _ _ _ (2 + i) (VM m) (aw (2 + i) (fo_after m r))
    | FoDone => OHalt _ _ _
    | SkRecv i => ORecv _ _ _ (2 + i) (fun o => match o with Some (VM m) => SkEmit i m | _ => SkDone end)
    | SkEmit i m => OEmit _ _ _ m (SkRecv i)
    | SkDone => OHalt _ _ _
    | Aw ch next => OAwait _ _ _ ch next
    end.

  Definition sender (ch : nat) : nat := match ch with 0 => 0 | 1 => 1 | _ => 2 end.
  Definition receiver (ch : nat) : nat := match ch with 0 => 1 | 1 => 2 | S (S i) => 3 + i end.
  Lemma kahn : forall ch, sender ch <> receiver ch.
  Proof. intros [|[|i]]; cbn; lia. Qed.

  Notation config := (config st val M).
  Notation pstep := (pstep st val M prog sender receiver SkDone).
  Notation nstep := (nstep st val M prog sender receiver SkDone).
  Notation steps := (steps config nstep).

  Definition ech (c : nat) : chan val := {| buf := []; cap := c; closed := false |}.

  Definition mkg (r f o : st) (sk : list st) (c0 c1 : chan val) (cs : list (chan val)) (so : list (list M)) : config :=
    {| procs := r :: f :: o :: sk; chans := c0 :: c1 :: cs; outs := [] :: [] :: [] :: so |}.

  Definition sinks : list st := map SkRecv (seq 0 k).
  Definition mk r f o c0 c1 (caps : list nat) so : config := mkg r f o sinks c0 c1 (map ech caps) so.

  Definition init (cap0 cap1 : nat) (caps : list nat) (bs : list B) (s0 : FS) : config :=
    mk (RdS bs) (FrRecv s0) FoRecv (ech cap0) (ech cap1) caps (repeat [] k).

  (* ---------- generic facts about steps ---------- *)
  Lemma steps_trans n m a b c : steps n a b -> steps m b c -> steps (n + m) a c.
  Proof.
    induction 1 as [a|n a b b' Hab Hbb' IH]; intros H2; cbn; [exact H2|].
    econstructor; [exact Hab|apply IH; exact H2].
  Qed.
  Lemma step1 a p b : pstep a p = Some b -> steps 1 a b.
  Proof. intros H. econstructor; [exists p; exact H|constructor]. Qed.

  Lemma upd_nth_id {A} (l : list A) i d : i < length l -> upd l i (nth i l d) = l.
  Proof. revert i; induction l as [|a l IH]; intros [|i] H; cbn in *; try lia; [reflexivity|f_equal; apply IH; lia]. Qed.

  (* ---------- the consumers ---------- *)
  Lemma sinks_length : length sinks = k.
  Proof. unfold sinks. rewrite map_length, seq_length. reflexivity. Qed.
  Lemma sinks_nth i d : i < k -> nth i sinks d = SkRecv i.
  Proof.
    intros H. unfold sinks. rewrite nth_indep with (d' := SkRecv 0) by (rewrite map_length, seq_length; exact H).
    rewrite map_nth. rewrite seq_nth by exact H. reflexivity.
  Qed.

  (* after a send on an unbuffered channel the sender waits until the value has been taken; once the
     channel is empty again it continues (one step), on a buffered channel it has continued already *)
  Lemma settle0 next f o sk c1 cs so cp cl :
    exists n, steps n (mkg (aw 0 next) f o sk {| buf := []; cap := cp; closed := cl |} c1 cs so)
                      (mkg next f o sk {| buf := []; cap := cp; closed := cl |} c1 cs so).
  Proof.
    unfold aw. destruct (sync 0); [|exists 0; constructor].
    exists 1. apply (step1 _ 0). unfold mkg. erewrite pstep_await with (ch := 0) (k' := next);
      cbn [procs chans outs length nth sender buf]; try reflexivity; lia.
  Qed.
  Lemma settle1 r next o sk c0 cs so cp cl :
    exists n, steps n (mkg r (aw 1 next) o sk c0 {| buf := []; cap := cp; closed := cl |} cs so)
                      (mkg r next o sk c0 {| buf := []; cap := cp; closed := cl |} cs so).
  Proof.
    unfold aw. destruct (sync 1); [|exists 0; constructor].
    exists 1. apply (step1 _ 1). unfold mkg. erewrite pstep_await with (ch := 1) (k' := next);
      cbn [procs chans outs length nth sender buf]; try reflexivity; lia.
  Qed.
  Lemma settle2 r f next sk c0 c1 cs so i :
    i < length cs -> buf (nth i cs (dchan val)) = [] ->
    exists n, steps n (mkg r f (aw (2 + i) next) sk c0 c1 cs so) (mkg r f next sk c0 c1 cs so).
  Proof.
    intros Hi Hb. unfold aw. destruct (sync (2 + i)); [|exists 0; constructor].
    exists 1. apply (step1 _ 2). unfold mkg. erewrite pstep_await with (ch := 2 + i) (k' := next);
      cbn [procs chans outs length nth plus sender]; try reflexivity; try lia. exact Hb.
  Qed.

  (* one message to one consumer: fan-out sends, the consumer receives and records it *)
  Lemma fan_one r f c0 c1 caps so m i ts :
    length caps = k -> Forall (fun c => 1 <= c) caps -> length so = k -> i < k ->
    exists n, steps n (mk r f (FoSend m i ts) c0 c1 caps so)
                      (mk r f (fo_after m ts) c0 c1 caps (upd so i (nth i so [] ++ [m]))).
  Proof.
    intros Hl Hc Hs Hi.
    assert (Hcap : 1 <= nth i caps 1) by (rewrite Forall_forall in Hc; apply Hc, nth_In; lia).
    assert (Hn : nth i (map ech caps) (dchan val) = ech (nth i caps 1)).
    { rewrite nth_indep with (d' := ech 1) by (rewrite map_length; lia). apply (map_nth ech). }
    (* 1: the fan-out sends *)
    assert (S1 : pstep (mk r f (FoSend m i ts) c0 c1 caps so) 2 =
                 Some (mkg r f (aw (2 + i) (fo_after m ts)) sinks c0 c1
                           (upd (map ech caps) i {| buf := [VM m]; cap := nth i caps 1; closed := false |}) so)).
    { unfold mk, mkg. erewrite pstep_send with (ch := 2 + i) (v := VM m) (k' := aw (2 + i) (fo_after m ts)); cbn [procs chans outs length nth plus sender];
        [|lia|reflexivity|reflexivity|rewrite map_length; lia|rewrite Hn; reflexivity|rewrite Hn; cbn; lia].
      rewrite Hn. reflexivity. }
    (* 2: the consumer receives *)
    set (cs1 := upd (map ech caps) i {| buf := [VM m]; cap := nth i caps 1; closed := false |}) in *.
    assert (Hn1 : nth i cs1 (dchan val) = {| buf := [VM m]; cap := nth i caps 1; closed := false |})
      by (unfold cs1; apply nth_upd_eq; rewrite map_length; lia).
    assert (S2 : pstep (mkg r f (aw (2 + i) (fo_after m ts)) sinks c0 c1 cs1 so) (3 + i) =
                 Some (mkg r f (aw (2 + i) (fo_after m ts)) (upd sinks i (SkEmit i m)) c0 c1 (map ech caps) so)).
    { unfold mkg. erewrite pstep_recv_some with (ch := 2 + i) (v := VM m) (rest := []);
        cbn [procs chans outs length nth plus receiver];
        [|rewrite sinks_length; lia|rewrite sinks_nth by exact Hi; reflexivity|reflexivity
         |unfold cs1; rewrite upd_length, map_length; lia|rewrite Hn1; reflexivity].
      cbn [upd]. rewrite Hn1. cbn [cap closed]. unfold cs1. rewrite upd_upd.
      replace {| buf := []; cap := nth i caps 1; closed := false |} with (nth i (map ech caps) (dchan val)) by exact Hn.
      rewrite upd_nth_id by (rewrite map_length; lia). reflexivity. }
    (* 2': the value has been taken: the fan-out continues *)
    destruct (settle2 r f (fo_after m ts) (upd sinks i (SkEmit i m)) c0 c1 (map ech caps) so i) as [n2 Hn2];
      [rewrite map_length; lia|rewrite Hn; reflexivity|].
    (* 3: the consumer records the message *)
    assert (S3 : pstep (mkg r f (fo_after m ts) (upd sinks i (SkEmit i m)) c0 c1 (map ech caps) so) (3 + i) =
                 Some (mk r f (fo_after m ts) c0 c1 caps (upd so i (nth i so [] ++ [m])))).
    { unfold mk, mkg. erewrite pstep_emit with (e := m) (k' := SkRecv i);
        cbn [procs chans outs length nth plus];
        [|rewrite upd_length, sinks_length; lia|rewrite nth_upd_eq by (rewrite sinks_length; lia); reflexivity].
      cbn [upd]. rewrite upd_upd. rewrite <- (sinks_nth i SkDone Hi) at 1.
      rewrite upd_nth_id by (rewrite sinks_length; lia). reflexivity. }
    exists (1 + (1 + (n2 + 1))).
    eapply steps_trans; [exact (step1 _ _ _ S1)|].
    eapply steps_trans; [exact (step1 _ _ _ S2)|].
    eapply steps_trans; [exact Hn2|].
    exact (step1 _ _ _ S3).
  Qed.

  (* what the consumers hold after a message has gone to the consumers in ts *)
  Definition deliver (so : list (list M)) (ts : list nat) (m : M) : list (list M) :=
    fold_left (fun so i => upd so i (nth i so [] ++ [m])) ts so.

  Lemma deliver_length ts : forall so m, length (deliver so ts m) = length so.
  Proof. induction ts as [|i ts IH]; intros so m; cbn; [reflexivity|]. unfold deliver in IH. rewrite IH, upd_length. reflexivity. Qed.

  Lemma fan_all r f c0 c1 caps m ts : forall so,
    length caps = k -> Forall (fun c => 1 <= c) caps -> length so = k -> Forall (fun i => i < k) ts ->
    exists n, steps n (mk r f (fo_after m ts) c0 c1 caps so) (mk r f FoRecv c0 c1 caps (deliver so ts m)).
  Proof.
    induction ts as [|i ts IH]; intros so Hl Hc Hs Ht.
    - exists 0. cbn. constructor.
    - inversion Ht as [|? ? Hi Ht']; subst.
      destruct (fan_one r f c0 c1 caps so m i ts Hl Hc Hs Hi) as [n1 Hn1].
      destruct (IH (upd so i (nth i so [] ++ [m])) Hl Hc) as [n2 Hn2]; [rewrite upd_length; exact Hs|exact Ht'|].
      exists (n1 + n2). eapply steps_trans; [exact Hn1|]. cbn [deliver fold_left]. exact Hn2.
  Qed.

  Lemma targets_lt : Forall (fun i => i < k) targets.
  Proof.
    apply Forall_forall. intros i Hi. unfold targets in Hi. apply filter_In in Hi. destruct Hi as [Hi _].
    apply in_seq in Hi. lia.
  Qed.

  (* all messages of a list, one after the other, to every live consumer *)
  Definition deliver_all (so : list (list M)) (ms : list M) : list (list M) :=
    fold_left (fun so m => deliver so targets m) ms so.
  Lemma deliver_all_length ms : forall so, length (deliver_all so ms) = length so.
  Proof. induction ms as [|m ms IH]; intros so; cbn; [reflexivity|]. unfold deliver_all in IH. rewrite IH, deliver_length. reflexivity. Qed.
  Lemma deliver_all_app a b so : deliver_all so (a ++ b) = deliver_all (deliver_all so a) b.
  Proof. unfold deliver_all. apply fold_left_app. Qed.

  (* the framer hands over the messages ms and then continues as next *)
  Lemma frame_send r next cap1 caps ms c0 : forall so,
    1 <= cap1 -> length caps = k -> Forall (fun c => 1 <= c) caps -> length so = k ->
    exists n, steps n (mk r (fr_after next ms) FoRecv c0 (ech cap1) caps so)
                      (mk r next FoRecv c0 (ech cap1) caps (deliver_all so ms)).
  Proof.
    induction ms as [|m ms IH]; intros so H1 Hl Hc Hs.
    - exists 0. cbn. constructor.
    - destruct (IH (deliver so targets m) H1 Hl Hc) as [n Hn]; [rewrite deliver_length; exact Hs|].
      assert (S1 : pstep (mk r (fr_after next (m :: ms)) FoRecv c0 (ech cap1) caps so) 1 =
                   Some (mk r (aw 1 (fr_after next ms)) FoRecv c0 {| buf := [VM m]; cap := cap1; closed := false |} caps so)).
      { unfold pstep, mk, mkg. cbn -[Nat.ltb aw].
        replace (0 <? cap1) with true by (symmetry; apply Nat.ltb_lt; lia). reflexivity. }
      assert (S2 : pstep (mk r (aw 1 (fr_after next ms)) FoRecv c0 {| buf := [VM m]; cap := cap1; closed := false |} caps so) 2 =
                   Some (mk r (aw 1 (fr_after next ms)) (fo_after m targets) c0 (ech cap1) caps so)).
      { unfold pstep, mk, mkg. cbn -[aw]. reflexivity. }
      destruct (settle1 r (fr_after next ms) (fo_after m targets) sinks c0 (map ech caps) so cap1 false) as [n1 Hn1].
      destruct (fan_all r (fr_after next ms) c0 (ech cap1) caps m targets so Hl Hc Hs targets_lt) as [n2 Hn2].
      exists (1 + (1 + (n1 + (n2 + n)))).
      eapply steps_trans; [exact (step1 _ _ _ S1)|].
      eapply steps_trans; [exact (step1 _ _ _ S2)|].
      eapply steps_trans; [exact Hn1|].
      eapply steps_trans; [exact Hn2|].
      exact Hn.
  Qed.

  (* the whole input *)
  Lemma bytes_through cap0 cap1 caps : forall bs s so,
    1 <= cap0 -> 1 <= cap1 -> length caps = k -> Forall (fun c => 1 <= c) caps -> length so = k ->
    exists n, steps n (mk (RdS bs) (FrRecv s) FoRecv (ech cap0) (ech cap1) caps so)
                      (mk RdDone FrDone FoDone {| buf := []; cap := cap0; closed := true |}
                          {| buf := []; cap := cap1; closed := true |} caps (deliver_all so (seqrun s bs))).
  Proof.
    induction bs as [|b bs IH]; intros s so H0 H1 Hl Hc Hs.
    - (* close, flush, close, return *)
      destruct (frame_send RdDone FrClose cap1 caps (fflush s) {| buf := []; cap := cap0; closed := true |} so H1 Hl Hc Hs) as [n Hn].
      exists (1 + (1 + (n + (1 + 1)))).
      assert (S1 : pstep (mk (RdS []) (FrRecv s) FoRecv (ech cap0) (ech cap1) caps so) 0 =
                   Some (mk RdDone (FrRecv s) FoRecv {| buf := []; cap := cap0; closed := true |} (ech cap1) caps so)).
      { unfold pstep, mk, mkg. cbn. reflexivity. }
      assert (S2 : pstep (mk RdDone (FrRecv s) FoRecv {| buf := []; cap := cap0; closed := true |} (ech cap1) caps so) 1 =
                   Some (mk RdDone (fr_after FrClose (fflush s)) FoRecv {| buf := []; cap := cap0; closed := true |} (ech cap1) caps so)).
      { unfold pstep, mk, mkg. cbn. reflexivity. }
      assert (S3 : pstep (mk RdDone FrClose FoRecv {| buf := []; cap := cap0; closed := true |} (ech cap1) caps (deliver_all so (fflush s))) 1 =
                   Some (mk RdDone FrDone FoRecv {| buf := []; cap := cap0; closed := true |}
                            {| buf := []; cap := cap1; closed := true |} caps (deliver_all so (fflush s)))).
      { unfold pstep, mk, mkg. cbn. reflexivity. }
      assert (S4 : pstep (mk RdDone FrDone FoRecv {| buf := []; cap := cap0; closed := true |}
                            {| buf := []; cap := cap1; closed := true |} caps (deliver_all so (fflush s))) 2 =
                   Some (mk RdDone FrDone FoDone {| buf := []; cap := cap0; closed := true |}
                            {| buf := []; cap := cap1; closed := true |} caps (deliver_all so (fflush s)))).
      { unfold pstep, mk, mkg. cbn. reflexivity. }
      eapply steps_trans; [exact (step1 _ _ _ S1)|].
      eapply steps_trans; [exact (step1 _ _ _ S2)|].
      eapply steps_trans; [exact Hn|].
      eapply steps_trans; [exact (step1 _ _ _ S3)|].
      exact (step1 _ _ _ S4).
    - cbn [seqrun]. rewrite deliver_all_app.
      destruct (frame_send (RdS bs) (FrRecv (fst (fstep s b))) cap1 caps (snd (fstep s b)) (ech cap0) so H1 Hl Hc Hs) as [n Hn].
      destruct (IH (fst (fstep s b)) (deliver_all so (snd (fstep s b))) H0 H1 Hl Hc) as [n2 Hn2];
        [rewrite deliver_all_length; exact Hs|].
      assert (S1 : pstep (mk (RdS (b :: bs)) (FrRecv s) FoRecv (ech cap0) (ech cap1) caps so) 0 =
                   Some (mk (aw 0 (RdS bs)) (FrRecv s) FoRecv {| buf := [VB b]; cap := cap0; closed := false |} (ech cap1) caps so)).
      { unfold pstep, mk, mkg. cbn -[Nat.ltb aw].
        replace (0 <? cap0) with true by (symmetry; apply Nat.ltb_lt; lia). reflexivity. }
      assert (S2 : pstep (mk (aw 0 (RdS bs)) (FrRecv s) FoRecv {| buf := [VB b]; cap := cap0; closed := false |} (ech cap1) caps so) 1 =
                   Some (mk (aw 0 (RdS bs)) (fr_after (FrRecv (fst (fstep s b))) (snd (fstep s b))) FoRecv (ech cap0) (ech cap1) caps so)).
      { unfold pstep, mk, mkg. cbn -[aw]. reflexivity. }
      destruct (settle0 (RdS bs) (fr_after (FrRecv (fst (fstep s b))) (snd (fstep s b))) FoRecv sinks (ech cap1) (map ech caps) so cap0 false) as [n1 Hn1].
      exists (1 + (1 + (n1 + (n + n2)))).
      eapply steps_trans; [exact (step1 _ _ _ S1)|].
      eapply steps_trans; [exact (step1 _ _ _ S2)|].
      eapply steps_trans; [exact Hn1|].
      eapply steps_trans; [exact Hn|exact Hn2].
  Qed.

  (* ---------- what the consumers hold at the end ---------- *)
  Lemma nth_deliver_in ts : forall so m i, NoDup ts -> In i ts -> i < length so ->
    nth i (deliver so ts m) [] = nth i so [] ++ [m].
  Proof.
    induction ts as [|j ts IH]; intros so m i Hnd Hin Hi; [destruct Hin|].
    inversion Hnd as [|? ? Hnj Hnd']; subst. cbn [deliver fold_left]. destruct Hin as [->|Hin].
    - clear IH. assert (G : forall ts so, ~ In i ts -> nth i (deliver so ts m) [] = nth i so []).
      { clear. induction ts as [|j ts IH]; intros so Hn; [reflexivity|]. cbn [deliver fold_left].
        unfold deliver in IH. rewrite IH by (intros H; apply Hn; right; exact H).
        apply nth_upd_neq. intros ->. apply Hn. left. reflexivity. }
      unfold deliver in G. rewrite G by exact Hnj. apply nth_upd_eq. exact Hi.
    - unfold deliver in IH. rewrite IH; [|exact Hnd'|exact Hin|rewrite upd_length; exact Hi].
      rewrite nth_upd_neq; [reflexivity|]. intros ->. exact (Hnj Hin).
  Qed.
  Lemma nth_deliver_out ts : forall so m i, ~ In i ts -> nth i (deliver so ts m) [] = nth i so [].
  Proof.
    induction ts as [|j ts IH]; intros so m i Hn; [reflexivity|]. cbn [deliver fold_left].
    unfold deliver in IH. rewrite IH by (intros H; apply Hn; right; exact H).
    apply nth_upd_neq. intros ->. apply Hn. left. reflexivity.
  Qed.
  Lemma targets_nodup : NoDup targets.
  Proof. unfold targets. apply NoDup_filter, seq_NoDup. Qed.
  Lemma in_targets i : In i targets <-> i < k /\ live i = true.
  Proof. unfold targets. rewrite filter_In, in_seq. split; intros [H1 H2]; (split; [lia|exact H2]). Qed.

  Lemma nth_deliver_all ms : forall so i, i < k -> length so = k ->
    nth i (deliver_all so ms) [] = if live i then nth i so [] ++ ms else nth i so [].
  Proof.
    induction ms as [|m ms IH]; intros so i Hi Hs; cbn [deliver_all fold_left].
    - destruct (live i); [rewrite app_nil_r|]; reflexivity.
    - unfold deliver_all in IH. rewrite IH by (rewrite ?deliver_length; assumption).
      destruct (live i) eqn:E.
      + rewrite nth_deliver_in; [rewrite <- app_assoc; reflexivity|apply targets_nodup|apply in_targets; auto|lia].
      + apply nth_deliver_out. intros H. apply in_targets in H. destruct H as [_ H]. congruence.
  Qed.

  (* ---------- the final configuration ---------- *)
  Definition fin (cap0 cap1 : nat) (caps : list nat) (bs : list B) (s0 : FS) : config :=
    mk RdDone FrDone FoDone {| buf := []; cap := cap0; closed := true |} {| buf := []; cap := cap1; closed := true |}
       caps (deliver_all (repeat [] k) (seqrun s0 bs)).

  Lemma fin_final cap0 cap1 caps bs s0 : length caps = k ->
    final_config st val M prog sender receiver SkDone (fin cap0 cap1 caps bs s0).
  Proof.
    intros Hl c' [p Hp]. unfold fin, mk, mkg, Net.pstep in Hp. cbn -[Nat.ltb nth] in Hp.
    destruct p as [|[|[|i]]]; cbn -[Nat.ltb] in Hp; try discriminate.
    destruct (S (S (S i)) <? S (S (S (length sinks)))) eqn:E; cbn [negb] in Hp; [|discriminate].
    apply Nat.ltb_lt in E. rewrite sinks_length in E.
    rewrite sinks_nth in Hp by lia. cbn -[Nat.ltb nth] in Hp.
    rewrite Nat.eqb_refl in Hp. cbn [nth] in Hp.
    rewrite nth_indep with (d' := ech 1) in Hp by (rewrite map_length; lia).
    rewrite (map_nth ech) in Hp. cbn -[Nat.ltb] in Hp.
    destruct (S (S i) <? S (S (length (map ech caps)))); cbn in Hp; discriminate.
  Qed.

  Definition sink_out (c : config) (i : nat) : list M := nth (3 + i) (outs c) [].
  Definition halted (c : config) (p : nat) : Prop := prog (nth p (procs c) SkDone) = OHalt _ _ _.

  Lemma fin_sinks cap0 cap1 caps bs s0 i : i < k ->
    sink_out (fin cap0 cap1 caps bs s0) i = if live i then seqrun s0 bs else [].
  Proof.
    intros Hi. unfold sink_out, fin, mk, mkg. cbn [outs]. cbn [plus nth].
    rewrite nth_deliver_all by (try rewrite repeat_length; auto).
    assert (nth i (repeat (@nil M) k) [] = []) as -> by (apply nth_repeat).
    reflexivity.
  Qed.

  (* ---------- every schedule ---------- *)
  Theorem pipeline_every_schedule cap0 cap1 caps bs s0 :
    1 <= cap0 -> 1 <= cap1 -> length caps = k -> Forall (fun c => 1 <= c) caps ->
    exists n, forall m c,
      steps m (init cap0 cap1 caps bs s0) c ->
      (* no execution is longer than n steps, each can be completed to fin, *)
      m <= n /\ steps (n - m) c (fin cap0 cap1 caps bs s0) /\
      (* and one that cannot be continued has reached fin *)
      (final_config st val M prog sender receiver SkDone c -> c = fin cap0 cap1 caps bs s0).
  Proof.
    intros H0 H1 Hl Hc.
    destruct (bytes_through cap0 cap1 caps bs s0 (repeat [] k) H0 H1 Hl Hc (repeat_length _ _)) as [n Hn].
    exists n. intros m c Hm.
    pose proof (fin_final cap0 cap1 caps bs s0 Hl) as Hf.
    destruct (net_determinacy st val M prog sender receiver SkDone n _ _ Hn Hf m c Hm) as [Hle Hrest].
    split; [exact Hle|]. split; [exact Hrest|].
    intros Hfc. exact (net_unique_final st val M prog sender receiver SkDone n _ _ m c Hn Hf Hm Hfc).
  Qed.

  Theorem fin_shape cap0 cap1 caps bs s0 :
    let f := fin cap0 cap1 caps bs s0 in
    halted f 0 /\ halted f 1 /\ halted f 2 /\
    (forall i, i < k -> sink_out f i = if live i then seqrun s0 bs else []) /\
    (forall ch, ch < 2 + k -> length caps = k -> buf (nth ch (chans f) (dchan val)) = []).
  Proof.
    cbn zeta. split; [reflexivity|]. split; [reflexivity|]. split; [reflexivity|].
    split; [intros i Hi; apply fin_sinks; exact Hi|].
    intros [|[|i]] Hch Hl; [reflexivity|reflexivity|].
    unfold fin, mk, mkg. cbn [chans nth].
    rewrite nth_indep with (d' := ech 1) by (rewrite map_length; lia).
    rewrite (map_nth ech). reflexivity.
  Qed.
End Pipe.

(* Crc.v - CRC-24Q: bit-serial LFSR specification and the model of go-crc24q's
   table-driven Hash (uint32 arithmetic, final 24-bit mask). *)
From NTRIP Require Import Base Bits.
Open Scope N_scope.

Definition two24 : N := 16777216.
Definition two32 : N := 4294967296.
(* x^24 + x^23 + x^18 + x^17 + x^14 + x^11 + x^10 + x^7 + x^6 + x^5 + x^4 + x^3 + x + 1 *)
Definition crc_poly : N := 25578747. (* 0x1864CFB *)

(* ---------- specification: MSB-first LFSR over the message bits ---------- *)

(* one clock of the 24-bit register: shift left; if a one falls out, subtract the polynomial *)
Definition lfsr_shift (s : N) : N :=
  let s2 := 2 * s in if N.testbit s2 24 then N.lxor s2 crc_poly else s2.

(* feed one message bit: it is added to the top of the register, then the register is clocked *)
Definition lfsr_bit (s : N) (b : bool) : N :=
  lfsr_shift (N.lxor s (if b then 8388608 (* 2^23 *) else 0)).

Definition crc24q_bits (bs : list bool) : N := fold_left lfsr_bit bs 0.
Definition crc24q_spec (msg : list N) : N := crc24q_bits (bits_of msg).

(* ---------- model of go-crc24q ---------- *)

Fixpoint iter {A} (n : nat) (f : A -> A) (x : A) : A :=
  match n with O => x | S k => iter k f (f x) end.

(* table[i] = (x^24 * i(x)) mod poly, as the package's init computes it *)
Definition crc_table : list N :=
  Eval vm_compute in map (fun i => iter 8 lfsr_shift (N.of_nat i * 65536)) (seq 0 256).

Definition hash_step (crc : N) (b : N) : N :=
  let hi := N.land (N.shiftr crc 16) 255 in
  let t := nth (N.to_nat (N.lxor b hi)) crc_table 0 in
  N.lxor (N.land (N.shiftl crc 8) (two32 - 1)) t.

Definition crc24q_hash (data : list N) : N :=
  N.land (fold_left hash_step data 0) (two24 - 1).

Definition crc_hi (c : N) : N := N.land (N.shiftr c 16) 255.
Definition crc_mi (c : N) : N := N.land (N.shiftr c 8) 255.
Definition crc_lo (c : N) : N := N.land c 255.

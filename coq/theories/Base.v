(* Base.v - shared conventions of the go-ntrip model.
   Bytes are N (a notation, so rewriting never trips over a definition),
   panics and errors are values, list helpers used everywhere. *)
From Coq Require Export List NArith ZArith Lia Bool Arith.
Export ListNotations.

Notation byte := N (only parsing).

Definition byte_ok (b : N) : Prop := (b < 256)%N.
Definition bytes_ok (l : list N) : Prop := Forall byte_ok l.
Definition byte_okb (b : N) : bool := (b <? 256)%N.
Definition bytes_okb (l : list N) : bool := forallb byte_okb l.

Lemma bytes_okb_spec l : bytes_okb l = true <-> bytes_ok l.
Proof.
  unfold bytes_okb, bytes_ok. rewrite forallb_forall, Forall_forall.
  split; intros H x Hx; specialize (H x Hx); unfold byte_okb, byte_ok in *;
    [apply N.ltb_lt|apply N.ltb_lt]; assumption.
Qed.

(* The small error enumeration the harness maps Go error texts onto. *)
Inductive err :=
| ErrEmpty            (* zero length message frame *)
| ErrTooShort         (* too short for header/length, too short for the fields *)
| ErrPreamble         (* does not start with 0xd3 *)
| ErrReserved         (* bits 8-13 not zero *)
| ErrZeroLength       (* zero length message *)
| ErrIncomplete       (* incomplete message frame *)
| ErrCRC              (* CRC check failed *)
| ErrNotMSM           (* message type is not an MSM4/MSM7 *)
| ErrWrongType        (* not the expected message type *)
| ErrCellMask         (* cell mask longer than 64 bits *)
| ErrOverrun          (* not enough data for the cells *)
| ErrTimestampRange   (* timestamp out of range *)
| ErrGlonassMillis    (* milliseconds in timestamp out of range *)
| ErrUnknownType      (* MSM type whose time we cannot decode *)
| ErrFuel.            (* model only: recursion fuel exhausted (excluded by theorem) *)

(* Result of a modelled Go call: a value, an error value, or a run-time panic
   (index out of range).  "Never panics" theorems say Panic is not returned. *)
Inductive res (A : Type) : Type :=
| Ok (a : A)
| Err (e : err)
| Panic.
Arguments Ok {A} a.
Arguments Err {A} e.
Arguments Panic {A}.

Definition bind {A B} (r : res A) (f : A -> res B) : res B :=
  match r with Ok a => f a | Err e => Err e | Panic => Panic end.
Notation "x <- r ;; k" := (bind r (fun x => k)) (at level 61, r at next level, right associativity).

Definition slice {A} (l : list A) (pos len : nat) : list A := firstn len (skipn pos l).

Arguments firstn : simpl never.
Arguments skipn : simpl never.

Lemma skipn_nth_cons {A} (l : list A) i x :
  nth_error l i = Some x -> skipn i l = x :: skipn (S i) l.
Proof.
  revert i; induction l as [|a l IH]; intros [|i] H; simpl in H; try discriminate.
  - injection H as ->. reflexivity.
  - change (skipn (S i) (a :: l)) with (skipn i l). rewrite (IH i H). reflexivity.
Qed.

Lemma slice_S {A} (l : list A) i n x :
  nth_error l i = Some x -> slice l i (S n) = x :: slice l (S i) n.
Proof. intros H. unfold slice. rewrite (skipn_nth_cons l i x H). reflexivity. Qed.

Lemma slice_0 {A} (l : list A) i : slice l i 0 = [].
Proof. reflexivity. Qed.

Lemma slice_length {A} (l : list A) pos len :
  pos + len <= length l -> length (slice l pos len) = len.
Proof. intros H. unfold slice. rewrite firstn_length, skipn_length. lia. Qed.

Lemma slice_app_l {A} (a b : list A) pos len :
  pos + len <= length a -> slice (a ++ b) pos len = slice a pos len.
Proof.
  intros H. unfold slice. rewrite skipn_app.
  rewrite firstn_app, skipn_length.
  replace (len - (length a - pos)) with 0 by lia.
  change (firstn 0 (skipn (pos - length a) b)) with (@nil A). apply app_nil_r.
Qed.

Lemma slice_app_r {A} (a b : list A) pos len :
  slice (a ++ b) (length a + pos) len = slice b pos len.
Proof.
  unfold slice. rewrite skipn_app.
  rewrite (skipn_all2 a) by lia. simpl.
  replace (length a + pos - length a) with pos by lia. reflexivity.
Qed.

Lemma slice_all {A} (l : list A) : slice l 0 (length l) = l.
Proof. unfold slice. change (skipn 0 l) with l. apply firstn_all. Qed.

Lemma skipn_add {A} (l : list A) n m : skipn (n + m) l = skipn m (skipn n l).
Proof.
  revert l; induction n as [|n IH]; intros l.
  - reflexivity.
  - destruct l as [|x l].
    + change (skipn (S n + m) (@nil A)) with (@nil A).
      change (skipn (S n) (@nil A)) with (@nil A). destruct m; reflexivity.
    + change (skipn (S n + m) (x :: l)) with (skipn (n + m) l).
      change (skipn (S n) (x :: l)) with (skipn n l). apply IH.
Qed.

Lemma slice_split {A} (l : list A) pos n m :
  slice l pos (n + m) = slice l pos n ++ slice l (pos + n) m.
Proof.
  unfold slice. rewrite skipn_add.
  generalize (skipn pos l) as k. clear. intros k.
  revert k; induction n as [|n IH]; intros k.
  - reflexivity.
  - destruct k as [|x k].
    + simpl. change (skipn (S n) (@nil A)) with (@nil A). destruct m; reflexivity.
    + change (firstn (S n + m) (x :: k)) with (x :: firstn (n + m) k).
      change (firstn (S n) (x :: k)) with (x :: firstn n k).
      change (skipn (S n) (x :: k)) with (skipn n k).
      rewrite IH. reflexivity.
Qed.

(* keep simpl/cbn from unfolding binary arithmetic *)
Arguments N.add : simpl never.
Arguments N.mul : simpl never.
Arguments N.sub : simpl never.
Arguments N.pow : simpl never.
Arguments N.div : simpl never.
Arguments N.modulo : simpl never.
Arguments N.testbit : simpl never.
Arguments N.land : simpl never.
Arguments N.lor : simpl never.
Arguments N.lxor : simpl never.
Arguments N.shiftl : simpl never.
Arguments N.shiftr : simpl never.
Arguments N.of_nat : simpl never.
Arguments N.to_nat : simpl never.
Arguments Z.add : simpl never.
Arguments Z.mul : simpl never.
Arguments Z.sub : simpl never.
Arguments Z.pow : simpl never.
Arguments Z.div : simpl never.
Arguments Z.modulo : simpl never.
Arguments Z.of_N : simpl never.
Arguments Z.of_nat : simpl never.
Arguments Z.to_N : simpl never.
Arguments Nat.div : simpl never.
Arguments Nat.modulo : simpl never.

(* P_C12.v - the theorems of property C12 and nothing else: each is closed by [exact <lemma>]
   (or a one-line instantiation) and followed by Print Assumptions.  One file per property, importing only
   what that property's statements need, so that a change which breaks one property's proof leaves the
   others' theorems checkable. *)
From NTRIP Require Import Base Bits Time Classify Frame FrameSpec FrameProofs SegProofs BadFrame.

(* ===================== C12 ===================== *)
(* If in such a stream the payload or CRC bytes of one frame are altered (same length, same
   3-byte leader, any alteration including new 0xD3 bytes) so that its CRC no longer
   matches, that frame is delivered as a single non-RTCM message holding exactly its bytes
   and every other segment is delivered exactly as without the corruption. *)
Theorem C12_isolation : forall h pre post f' tail,
  wf_segsb pre = true -> wf_segsb post = true -> bad_frame f' -> tail_ok tail ->
  exists ms h', handle_stream h (flatten pre ++ f' ++ flatten post ++ tail) = Ok (ms, h') /\
                map core ms = expected pre [] ++ [((-1)%Z, f')] ++ expected post tail.
Proof. exact corrupted_frame_isolated. Qed.
Print Assumptions C12_isolation.

(* The full-message form: a corrupted frame met at a frame boundary is delivered alone and leaves
   nothing behind - neither in the handler's time state nor in the scanner - so whatever follows
   it (any bytes at all) is reported in full, times and final handler state included, exactly as
   the handler reports the rest of the stream on its own from the same state. *)
Theorem C12_transparent : forall h f', bad_frame f' ->
  exists m, core m = ((-1)%Z, f') /\
    forall fuel rest,
      handle (S fuel) h (st (f' ++ rest)) =
      match handle fuel h (st rest) with
      | Ok (ms, h') => Ok (m :: ms, h')
      | Err e => Err e
      | Panic => Panic
      end.
Proof. exact bad_frame_transparent. Qed.
Print Assumptions C12_transparent.

Example C12_example :
  let f := [211; 0; 19; 62; 208; 2; 12; 10; 88; 246; 126; 253; 63; 255; 237; 41; 121; 12; 239; 94; 128; 227; 229; 56; 76]%N in
  let f' := [211; 0; 19; 62; 208; 2; 211; 0; 88; 246; 126; 253; 63; 255; 237; 41; 121; 12; 239; 94; 128; 227; 229; 56; 76]%N in
  bad_frame f'.
Proof.
  cbv zeta. split; [|split].
  - apply bytes_okb_spec. vm_compute. reflexivity.
  - unfold crc_mismatch. vm_compute. discriminate.
  - exists [211; 0; 19; 62; 208; 2; 12; 10; 88; 246; 126; 253; 63; 255; 237; 41; 121; 12; 239; 94; 128; 227; 229; 56; 76]%N.
    split; [vm_compute; reflexivity|]. split; reflexivity.
Qed.


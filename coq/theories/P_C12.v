(* P_C12.v - the theorems of property C12 and nothing else: each is closed by [exact <lemma>]
   (or a one-line instantiation) and followed by Print Assumptions.  One file per property, importing only
   what that property's statements need, so that a change which breaks one property's proof leaves the
   others' theorems checkable. *)
From NTRIP Require Import Base Bits Time Classify Frame FrameSpec FrameProofs SegProofs BadFrame SegMany.

(* ===================== C12 ===================== *)
(* If in such a stream the payload or CRC bytes of one frame are altered (same length, same
   3-byte leader, any alteration including new 0xD3 bytes) so that its CRC no longer
   matches, that frame is delivered as a single non-RTCM message holding exactly its bytes
   and every other segment is delivered exactly as without the corruption. *)
Theorem C12_isolation : forall h pre post f' tail,
  wf_segsb pre = true -> wf_segsb post = true -> bad_frame f' -> tail_ok tail ->
  exists ms h', handle_stream h (flatten pre ++ f' ++ flatten post ++ tail) = Ok (ms, h') /\
                map core ms = expected pre [] ++ [((-1)%Z, f')] ++ expected post tail.
Proof. exact corrupted_frame_isolated. Qed.
Print Assumptions C12_isolation.

(* The full-message form: a corrupted frame met at a frame boundary is delivered alone and leaves
   nothing behind - neither in the handler's time state nor in the scanner - so whatever follows
   it (any bytes at all) is reported in full, times and final handler state included, exactly as
   the handler reports the rest of the stream on its own from the same state. *)
Theorem C12_transparent : forall h f', bad_frame f' ->
  exists m, core m = ((-1)%Z, f') /\
    forall fuel rest,
      handle (S fuel) h (st (f' ++ rest)) =
      match handle fuel h (st rest) with
      | Ok (ms, h') => Ok (m :: ms, h')
      | Err e => Err e
      | Panic => Panic
      end.
Proof. exact bad_frame_transparent. Qed.
Print Assumptions C12_transparent.

(* Any number of corruptions at once.  A stream of valid frames (GFrame), 0xD3-free runs (GJunk) and
   corrupted frames (GBad: length and leader of a valid frame, CRC mismatch) in any order and number,
   adjacent runs merged, optionally ending in a truncated frame: every corrupted frame is delivered as
   one non-RTCM message holding exactly its bytes and every other segment as typed frame / run. *)
Theorem C12_any_number : forall h gs tail,
  Forall gwf gs -> gnormal gs -> tail_ok tail ->
  exists ms h', handle_stream h (gflat gs ++ tail) = Ok (ms, h') /\
                map core ms = map gexp gs ++ tail_exp tail.
Proof. exact corrupted_frames_isolated. Qed.
Print Assumptions C12_any_number.

(* ... and compared with the stream before the corruptions ([healed]: each corrupted frame replaced by the
   valid frame [orig] gives for it): both reports are complete, of the same length, and differ exactly at the
   corrupted frames. *)
Theorem C12_many_vs_uncorrupted : forall h gs orig tail,
  Forall gwf gs -> gnormal gs -> (forall f, In (GBad f) gs -> valid_frame (orig f)) -> tail_ok tail ->
  exists ms ms' h1 h2,
    handle_stream h (gflat gs ++ tail) = Ok (ms, h1) /\
    handle_stream h (gflat (healed gs orig) ++ tail) = Ok (ms', h2) /\
    exists rest, map core ms = map gexp gs ++ rest /\ map core ms' = map gexp (healed gs orig) ++ rest /\
    Forall2 (fun a b => a = b \/ exists f, a = ((-1)%Z, f) /\ b = (Z.of_N (frame_type (orig f)), orig f))
            (map gexp gs) (map gexp (healed gs orig)).
Proof. exact many_corruptions. Qed.
Print Assumptions C12_many_vs_uncorrupted.

Example C12_example :
  let f := [211; 0; 19; 62; 208; 2; 12; 10; 88; 246; 126; 253; 63; 255; 237; 41; 121; 12; 239; 94; 128; 227; 229; 56; 76]%N in
  let f' := [211; 0; 19; 62; 208; 2; 211; 0; 88; 246; 126; 253; 63; 255; 237; 41; 121; 12; 239; 94; 128; 227; 229; 56; 76]%N in
  bad_frame f'.
Proof.
  cbv zeta. split; [|split].
  - apply bytes_okb_spec. vm_compute. reflexivity.
  - unfold crc_mismatch. vm_compute. discriminate.
  - exists [211; 0; 19; 62; 208; 2; 12; 10; 88; 246; 126; 253; 63; 255; 237; 41; 121; 12; 239; 94; 128; 227; 229; 56; 76]%N.
    split; [vm_compute; reflexivity|]. split; reflexivity.
Qed.


(* two corrupted frames around a run and a valid frame: the hypotheses of C12_any_number hold *)
Example C12_example_two :
  let f := [211; 0; 19; 62; 208; 2; 12; 10; 88; 246; 126; 253; 63; 255; 237; 41; 121; 12; 239; 94; 128; 227; 229; 56; 76]%N in
  let f' := [211; 0; 19; 62; 208; 2; 211; 0; 88; 246; 126; 253; 63; 255; 237; 41; 121; 12; 239; 94; 128; 227; 229; 56; 76]%N in
  let gs := [GBad f'; GJunk [1; 2; 3]%N; GFrame f; GBad f'] in
  Forall gwf gs /\ gnormal gs /\ tail_ok [].
Proof.
  cbv zeta. pose proof C12_example as B. cbv zeta in B.
  assert (V : valid_frame [211; 0; 19; 62; 208; 2; 12; 10; 88; 246; 126; 253; 63; 255; 237; 41; 121; 12; 239; 94; 128; 227; 229; 56; 76]%N).
  { vm_compute. reflexivity. }
  split; [|split].
  - constructor; [exact B|]. constructor; [split; [discriminate|reflexivity]|]. constructor; [exact V|]. constructor; [exact B|constructor].
  - cbn. repeat split; reflexivity.
  - left. reflexivity.
Qed.

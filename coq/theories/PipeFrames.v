(* PipeFrames.v - the pipeline theorem instantiated with the model's stream handler. *)
From Coq Require Import List Arith NArith ZArith Lia Bool.
Import ListNotations.
From NTRIP Require Import Base Time Frame FrameProofs Net Pipe.
Arguments outs {St V Ev}. Arguments chans {St V Ev}. Arguments closed {V}.

Definition frame_flush (t0 : Z) (acc : list N) : list msg :=
  match handle_stream (new_handler t0) acc with Ok (ms, _) => ms | _ => [] end.

Lemma seqrun_acc t0 : forall (bs acc : list N),
  seqrun N msg (list N) (fun acc b => (acc ++ [b], [])) (frame_flush t0) acc bs = frame_flush t0 (acc ++ bs).
Proof.
  induction bs as [|b bs IH]; intros acc; cbn [seqrun fst snd app].
  - rewrite app_nil_r. reflexivity.
  - rewrite IH, <- app_assoc. reflexivity.
Qed.

Theorem pipeline_frames : forall t0 (input : list N) (k : nat) (live sync : nat -> bool) cap0 cap1 caps,
  (1 <= cap0)%nat -> (1 <= cap1)%nat -> length caps = k -> Forall (fun c => (1 <= c)%nat) caps ->
  exists ms h', handle_stream (new_handler t0) input = Ok (ms, h') /\
  exists n, forall m c,
    steps _ (nstep _ _ _ (Pipe.prog N msg (list N) (fun acc b => (acc ++ [b], [])) (frame_flush t0) k live sync)
                   Pipe.sender Pipe.receiver (SkDone _ _ _)) m
          (Pipe.init N msg (list N) k cap0 cap1 caps input []) c ->
    (m <= n)%nat /\
    (final_config _ _ _ (Pipe.prog N msg (list N) (fun acc b => (acc ++ [b], [])) (frame_flush t0) k live sync)
                  Pipe.sender Pipe.receiver (SkDone _ _ _) c ->
     forall i, (i < k)%nat -> sink_out N msg (list N) c i = if live i then ms else []).
Proof.
  intros t0 input k live sync cap0 cap1 caps H0 H1 Hl Hc.
  destruct (handle_stream_lossless (new_handler t0) input) as (ms & h' & Hms & _).
  exists ms, h'. split; [exact Hms|].
  destruct (pipeline_every_schedule N msg (list N) (fun acc b => (acc ++ [b], [])) (frame_flush t0) k live sync
              cap0 cap1 caps input [] H0 H1 Hl Hc) as [n Hn].
  exists n. intros m c Hm. destruct (Hn m c Hm) as (Hle & _ & Hfin).
  split; [exact Hle|]. intros Hf i Hi. rewrite (Hfin Hf).
  rewrite (fin_sinks N msg (list N) _ _ k live cap0 cap1 caps input [] i Hi).
  rewrite seqrun_acc. cbn [app]. unfold frame_flush. rewrite Hms. reflexivity.
Qed.

(* C02 with channels and schedules: whatever the capacities of the byte channel, the message
   channel and the consumer's channel, and however producer, framer and consumer are
   scheduled, every execution is finite and ends with the consumer holding messages whose raw
   bytes concatenate to the input, none empty, the framer halted and the message channel
   closed (the framer's program closes it at one point only, and a second close would leave
   the process blocked instead of halted). *)
Theorem lossless_every_schedule : forall t0 (input : list N) (sync : nat -> bool) cap0 cap1 capc,
  (1 <= cap0)%nat -> (1 <= cap1)%nat -> (1 <= capc)%nat ->
  exists n, forall m c,
    steps _ (nstep _ _ _ (Pipe.prog N msg (list N) (fun acc b => (acc ++ [b], [])) (frame_flush t0) 1 (fun _ => true) sync)
                   Pipe.sender Pipe.receiver (SkDone _ _ _)) m
          (Pipe.init N msg (list N) 1 cap0 cap1 [capc] input []) c ->
    (m <= n)%nat /\
    (final_config _ _ _ (Pipe.prog N msg (list N) (fun acc b => (acc ++ [b], [])) (frame_flush t0) 1 (fun _ => true) sync)
                  Pipe.sender Pipe.receiver (SkDone _ _ _) c ->
     concat (map raw (sink_out N msg (list N) c 0)) = input /\
     Forall (fun x => raw x <> []) (sink_out N msg (list N) c 0) /\
     halted N msg (list N) (fun acc b => (acc ++ [b], [])) (frame_flush t0) 1 (fun _ => true) sync c 1 /\
     closed (nth 1 (chans c) (dchan _)) = true).
Proof.
  intros t0 input sync cap0 cap1 capc H0 H1 Hc.
  destruct (handle_stream_lossless (new_handler t0) input) as (ms & h' & Hms & Hcat & Hne & _).
  destruct (pipeline_every_schedule N msg (list N) (fun acc b => (acc ++ [b], [])) (frame_flush t0) 1 (fun _ => true) sync
              cap0 cap1 [capc] input [] H0 H1 eq_refl (Forall_cons _ Hc (Forall_nil _))) as [n Hn].
  exists n. intros m c Hm. destruct (Hn m c Hm) as (Hle & _ & Hfin).
  split; [exact Hle|]. intros Hf. rewrite (Hfin Hf).
  rewrite (fin_sinks N msg (list N) _ _ 1 (fun _ => true) cap0 cap1 [capc] input [] 0 (le_n 1)).
  rewrite seqrun_acc. cbn [app]. unfold frame_flush. rewrite Hms.
  split; [exact Hcat|]. split; [exact Hne|]. split; reflexivity.
Qed.

(* EncProofs.v - frames built by the specification (frame_of_payload) pass the model's
   leader and CRC checks; the basis of every encode/decode round trip. *)
From NTRIP Require Import Base Bits BitsProofs Crc CrcProofs Time Classify Frame FrameSpec FrameProofs WriteProofs.
From NTRIPGen Require Import GenConsts.
From Coq Require Import ZifyN ZifyNat ZifyBool.
Open Scope N_scope.

Definition leader (n : N) : list N := [211; n / 256; n mod 256].

Lemma frame_of_payload_shape p :
  let n := N.of_nat (length p) in
  let c := crc24q_spec (leader n ++ p) in
  frame_of_payload p = leader n ++ p ++ [c / 65536; (c / 256) mod 256; c mod 256].
Proof. unfold frame_of_payload, leader. reflexivity. Qed.

Lemma frame_of_payload_length p : length (frame_of_payload p) = (length p + 6)%nat.
Proof. rewrite frame_of_payload_shape. cbn zeta. rewrite !app_length. cbn [length leader]. lia. Qed.

Lemma crc_split c : c < 2 ^ 24 ->
  (crc_hi c =? c / 65536) && (crc_mi c =? (c / 256) mod 256) && (crc_lo c =? c mod 256) = true.
Proof.
  intros Hc. unfold crc_hi, crc_mi, crc_lo. change 255 with (N.ones 8).
  rewrite !N.land_ones, !N.shiftr_div_pow2.
  change (2 ^ 8) with 256. change (2 ^ 16) with 65536. change (2 ^ 24) with 16777216 in Hc.
  rewrite (N.mod_small (c / 65536) 256) by (Z.div_mod_to_equations; lia).
  rewrite !N.eqb_refl. reflexivity.
Qed.

Lemma bytes_ok_app a b : bytes_ok a -> bytes_ok b -> bytes_ok (a ++ b).
Proof. unfold bytes_ok. intros. apply Forall_app. split; assumption. Qed.

Lemma frame_checks p : bytes_ok p -> (1 <= length p <= 1023)%nat ->
  let f := frame_of_payload p in
  bytes_ok f /\
  get_len_type f = inl (Ok (N.of_nat (length p), Z.of_N (frame_type f))) /\
  check_crc f = None.
Proof.
  intros Hp Hl f. set (n := N.of_nat (length p)).
  assert (Hn : 1 <= n <= 1023) by (unfold n; lia).
  assert (Hhi : n / 256 < 4) by (Z.div_mod_to_equations; lia).
  assert (Hlo : n mod 256 < 256) by (apply N.mod_lt; discriminate).
  set (c := crc24q_spec (leader n ++ p)).
  assert (Hc : c < 2 ^ 24) by apply crc24q_spec_bound.
  assert (Hf : f = leader n ++ p ++ [c / 65536; (c / 256) mod 256; c mod 256]) by apply frame_of_payload_shape.
  assert (Hlead : bytes_ok (leader n)).
  { unfold leader. repeat constructor; unfold byte_ok; lia. }
  assert (Hcrc3 : bytes_ok [c / 65536; (c / 256) mod 256; c mod 256]).
  { change (2 ^ 24) with 16777216 in Hc. repeat constructor; unfold byte_ok; Z.div_mod_to_equations; lia. }
  assert (Hfok : bytes_ok f) by (rewrite Hf; repeat apply bytes_ok_app; assumption).
  assert (Hflen : length f = (length p + 6)%nat) by apply frame_of_payload_length.
  split; [exact Hfok|]. split.
  - (* leader *)
    unfold get_len_type. change (N.to_nat LeaderLengthBytes + 2)%nat with 5%nat.
    destruct (Nat.ltb_spec (length f) 5) as [C|_]; [lia|].
    assert (Hf' : f = 211 :: n / 256 :: n mod 256 :: (p ++ [c / 65536; (c / 256) mod 256; c mod 256])) by exact Hf.
    rewrite Hf'. change (211 =? D3) with true. cbn [negb].
    destruct (leader_bits (n / 256) (n mod 256) (p ++ [c / 65536; (c / 256) mod 256; c mod 256])) as [L1 L2]; [lia|lia|].
    rewrite L1, L2. rewrite <- Hf'.
    destruct (get_u_in_range f 24 12) as [t Ht]; [lia|]. rewrite Ht.
    rewrite (N.div_small (n / 256) 4) by lia. change (0 =? 0) with true. cbn [negb].
    rewrite (N.mod_small (n / 256) 4) by lia.
    replace (n / 256 * 256 + n mod 256) with n by (Z.div_mod_to_equations; lia).
    destruct (N.eqb_spec n 0) as [C|_]; [lia|].
    do 4 f_equal. unfold frame_type. rewrite get_u_spec in Ht by lia. injection Ht as <-. reflexivity.
  - (* CRC *)
    unfold check_crc. rewrite Hflen.
    change (N.to_nat (LeaderLengthBytes + CRCLengthBytes)) with 6%nat. change (N.to_nat CRCLengthBytes) with 3%nat.
    destruct (Nat.ltb_spec (length p + 6) 6) as [C|_]; [lia|].
    replace (length p + 6 - 3)%nat with (length (leader n ++ p)) by (rewrite app_length; cbn [length leader]; lia).
    rewrite Hf, app_assoc, firstn_app, Nat.sub_diag, firstn_all, skipn_app, Nat.sub_diag, skipn_all.
    change (skipn 0 [c / 65536; (c / 256) mod 256; c mod 256]) with [c / 65536; (c / 256) mod 256; c mod 256].
    change (firstn 0 [c / 65536; (c / 256) mod 256; c mod 256]) with (@nil N). rewrite ?app_nil_r.
    rewrite crc24q_hash_spec by (apply bytes_ok_app; assumption).
    fold c. cbn [app]. rewrite (crc_split c Hc). reflexivity.
Qed.

(* frames of the specification are valid frames *)
Lemma frame_of_payload_valid p : bytes_ok p -> (1 <= length p <= 1023)%nat ->
  valid_frame (frame_of_payload p).
Proof.
  intros Hp Hl. destruct (frame_checks p Hp Hl) as (Hok & HG & HC).
  pose proof (typed_valid (frame_of_payload p) _ _ Hok HG) as V. cbv zeta in V.
  rewrite frame_of_payload_length in V.
  replace (N.to_nat (N.of_nat (length p) + LeaderLengthBytes + CRCLengthBytes)) with (length p + 6)%nat in V
    by (change LeaderLengthBytes with 3; change CRCLengthBytes with 3; lia).
  rewrite <- (frame_of_payload_length p), firstn_all in V.
  apply V; [lia|exact HC].
Qed.

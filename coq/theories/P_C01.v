(* P_C01.v - the theorems of property C01 and nothing else: each is closed by [exact <lemma>]
   (or a one-line instantiation) and followed by Print Assumptions.  One file per property, importing only
   what that property's statements need, so that a change which breaks one property's proof leaves the
   others' theorems checkable. *)
From NTRIP Require Import Base Bits BitsProofs Crc CrcProofs Time Classify Frame FrameSpec FrameProofs.

(* ===================== C01 ===================== *)
(* Every message the stream handler delivers with a non-negative type carries raw bytes that
   are exactly one valid RTCM3 frame (preamble, zero reserved bits, non-zero length equal to
   the payload size, trailing CRC-24Q of the bit-serial specification), and the reported type
   is the frame's first 12 payload bits. *)
Theorem C01_stream : forall h input ms h', bytes_ok input ->
  handle_stream h input = Ok (ms, h') ->
  Forall (fun m => (0 <= mtype m)%Z ->
            valid_frame (raw m) /\ mtype m = Z.of_N (frame_type (raw m))) ms.
Proof. exact stream_typed_valid. Qed.
Print Assumptions C01_stream.

(* Single-frame decoding never returns a typed message without an error unless the bytes at
   the head of its argument are such a frame, and then the message holds exactly that frame. *)
Theorem C01_single : forall h b m h', bytes_ok b ->
  get_message h b = Ok (Some m, h') -> (0 <= mtype m)%Z -> merr m = None ->
  valid_frame (raw m) /\ mtype m = Z.of_N (frame_type (raw m)) /\ exists x, b = raw m ++ x.
Proof. exact get_message_valid. Qed.
Print Assumptions C01_single.

(* The model's Hash (table-driven, uint32) is the CRC-24Q of the specification. *)
Theorem C01_crc : forall data, bytes_ok data -> crc24q_hash data = crc24q_spec data.
Proof. exact crc24q_hash_spec. Qed.
Print Assumptions C01_crc.

(* Non-vacuity: a real 1005 frame is valid and is delivered typed; the stricter reading
   "the argument is exactly one frame" is refuted by design (trailing bytes are ignored). *)
Example C01_example :
  let f := [211; 0; 19; 62; 208; 2; 12; 10; 88; 246; 126; 253; 63; 255; 237; 41; 121; 12; 239; 94; 128; 227; 229; 56; 76]%N in
  valid_frameb f = true /\ frame_type f = 1005%N /\
  (exists m h', get_message (new_handler 0) (f ++ [0]%N) = Ok (Some m, h') /\ mtype m = 1005%Z /\ raw m = f /\ merr m = None).
Proof.
  cbv zeta. split; [vm_compute; reflexivity|]. split; [vm_compute; reflexivity|].
  eexists. eexists. split; [vm_compute; reflexivity|]. repeat split.
Qed.


(* IncFrame.v - the framer as a byte-driven state machine.

   Frame.fetch / Frame.handle describe FetchNextMessageFrame / HandleMessages run over a whole
   input.  The Go code reads one byte at a time from a channel and blocks between bytes; what it
   has delivered after any prefix of the input is therefore determined by that prefix.  This file
   writes the same algorithm as a machine that is GIVEN one byte at a time (phases: eating junk,
   collecting the 5-byte leader, collecting the rest of the frame), emits the messages each byte
   completes, and flushes what is left at the end of the input - and proves that feeding it the
   input byte by byte delivers exactly what handle_stream delivers, handler state included.
   The networks of Pipe.v can thus be instantiated with a framer that really is incremental. *)
From Coq Require Import List Arith NArith ZArith Lia Bool.
Import ListNotations.
From NTRIPGen Require Import GenConsts.
From NTRIP Require Import Base Bits Time Classify Frame FrameSpec FrameProofs SegProofs.

(* ---------- the remaining cases of one fetch, by the shape of the unread input ---------- *)

Lemma fetch_d3_short h s g : pb_ok s -> unread s = 211 :: g -> (length g < 4)%nat ->
  fetch h s = Ok (Some (non_rtcm (211 :: g), h, st [])).
Proof.
  intros Hpb Hu Hl. destruct (eat_d3 s g Hpb Hu) as (s1 & He & Hp1 & Hr1).
  unfold fetch. rewrite He. cbn [andb length Nat.eqb Nat.ltb Nat.leb].
  change (N.to_nat hnd_leaderAndMessageLength - 1)%nat with 4%nat.
  rewrite <- (state_eta s1), Hp1, Hr1. rewrite read_n_short by exact Hl. reflexivity.
Qed.

Lemma fetch_d3_badhdr h s g r ty e : pb_ok s -> unread s = 211 :: g ++ r -> length g = 4%nat ->
  get_len_type (211 :: g) = inr (ty, e) ->
  fetch h s = Ok (Some (non_rtcm (211 :: g), h, st r)).
Proof.
  intros Hpb Hu Hl HG. destruct (eat_d3 s (g ++ r) Hpb Hu) as (s1 & He & Hp1 & Hr1).
  unfold fetch. rewrite He. cbn [andb length Nat.eqb Nat.ltb Nat.leb].
  change (N.to_nat hnd_leaderAndMessageLength - 1)%nat with 4%nat.
  rewrite <- (state_eta s1), Hp1, Hr1. rewrite read_n_enough by (rewrite app_length; lia).
  rewrite firstn_app, Hl, Nat.sub_diag, <- Hl, firstn_all. change (firstn 0 r) with (@nil N). rewrite app_nil_r.
  rewrite skipn_app, Hl, Nat.sub_diag, <- Hl, skipn_all. change (skipn 0 r) with r. cbn [app negb].
  rewrite HG. reflexivity.
Qed.

Lemma fetch_d3_trunc h s g r len ty : pb_ok s -> unread s = 211 :: g ++ r -> length g = 4%nat ->
  get_len_type (211 :: g) = inl (Ok (len, ty)) ->
  (length r < N.to_nat (len + LeaderLengthBytes + CRCLengthBytes) - 5)%nat ->
  fetch h s = Ok (Some (non_rtcm (211 :: g ++ r), h, st [])).
Proof.
  intros Hpb Hu Hl HG Hr. destruct (eat_d3 s (g ++ r) Hpb Hu) as (s1 & He & Hp1 & Hr1).
  unfold fetch. rewrite He. cbn [andb length Nat.eqb Nat.ltb Nat.leb].
  change (N.to_nat hnd_leaderAndMessageLength - 1)%nat with 4%nat.
  rewrite <- (state_eta s1), Hp1, Hr1. rewrite read_n_enough by (rewrite app_length; lia).
  rewrite firstn_app, Hl, Nat.sub_diag, <- Hl, firstn_all. change (firstn 0 r) with (@nil N). rewrite app_nil_r.
  rewrite skipn_app, Hl, Nat.sub_diag, <- Hl, skipn_all. change (skipn 0 r) with r. cbn [app negb].
  rewrite HG. cbn [length]. rewrite Hl.
  rewrite read_n_short by exact Hr. cbn [negb]. reflexivity.
Qed.

(* ---------- the machine ---------- *)

Inductive ph :=
| PEat (acc : list N)                 (* bytes eaten since the last message; none is 0xD3 *)
| PLead (fr : list N)                 (* 0xD3 and up to three more bytes *)
| PBody (fr : list N) (want : nat).   (* leader read: [want] more bytes complete the frame *)

Definition mstate := (hstate * ph)%type.

Definition mstep (st : mstate) (b : N) : mstate * list msg :=
  let (h, p) := st in
  match p with
  | PEat acc =>
    if b =? D3 then ((h, PLead [D3]), match acc with [] => [] | _ => [non_rtcm acc] end)
    else ((h, PEat (acc ++ [b])), [])
  | PLead fr =>
    let fr' := fr ++ [b] in
    if (length fr' <? 5)%nat then ((h, PLead fr'), [])
    else match get_len_type fr' with
         | inl (Ok (len, _)) => ((h, PBody fr' (N.to_nat (len + LeaderLengthBytes + CRCLengthBytes) - 5)), [])
         | _ => ((h, PEat []), [non_rtcm fr'])
         end
  | PBody fr want =>
    let fr' := fr ++ [b] in
    match want with
    | S (S w) => ((h, PBody fr' (S w)), [])
    | _ => match get_message h fr' with
           | Ok (Some m, h') => ((h', PEat []), [m])
           | _ => ((h, PEat []), [])
           end
    end
  end.

Definition mflush (st : mstate) : list msg :=
  match snd st with
  | PEat [] => []
  | PEat acc => [non_rtcm acc]
  | PLead fr => [non_rtcm fr]
  | PBody fr _ => [non_rtcm fr]
  end.

Fixpoint mrun (st : mstate) (l : list N) : list msg * mstate :=
  match l with
  | [] => ([], st)
  | b :: r => let '(st', ms) := mstep st b in let '(ms', st'') := mrun st' r in (ms ++ ms', st'')
  end.

(* everything delivered for an input, and the handler state at the end *)
Definition mall (st : mstate) (l : list N) : list msg * hstate :=
  let '(ms, st') := mrun st l in (ms ++ mflush st', fst st').

Lemma mrun_app st a b : mrun st (a ++ b) =
  let '(m1, s1) := mrun st a in let '(m2, s2) := mrun s1 b in (m1 ++ m2, s2).
Proof.
  revert st; induction a as [|x a IH]; intros st; cbn [app mrun].
  - destruct (mrun st b). reflexivity.
  - destruct (mstep st x) as [st' ms]. rewrite IH. destruct (mrun st' a) as [m1 s1]. destruct (mrun s1 b) as [m2 s2].
    rewrite app_assoc. reflexivity.
Qed.

Lemma mall_app st a b : mall st (a ++ b) = let '(m1, s1) := mrun st a in let '(m2, h2) := mall s1 b in (m1 ++ m2, h2).
Proof.
  unfold mall. rewrite mrun_app. destruct (mrun st a) as [m1 s1]. destruct (mrun s1 b) as [m2 s2].
  rewrite app_assoc. reflexivity.
Qed.

(* eating junk *)
Lemma run_eat h : forall j acc, no_d3b j = true -> mrun (h, PEat acc) j = ([], (h, PEat (acc ++ j))).
Proof.
  induction j as [|b j IH]; intros acc Hj; cbn [mrun]; [rewrite app_nil_r; reflexivity|].
  unfold no_d3b in Hj. cbn [forallb] in Hj. apply andb_true_iff in Hj. destruct Hj as [Hb Hj].
  cbn [mstep]. change D3 with 211. apply negb_true_iff in Hb. rewrite Hb.
  rewrite (IH (acc ++ [b]) Hj), <- app_assoc. reflexivity.
Qed.

(* collecting the leader: fewer than five bytes so far *)
Lemma run_lead h : forall l fr, (length fr + length l < 5)%nat -> mrun (h, PLead fr) l = ([], (h, PLead (fr ++ l))).
Proof.
  induction l as [|b l IH]; intros fr Hl; cbn [mrun]; [rewrite app_nil_r; reflexivity|].
  cbn [mstep]. cbn [length] in Hl.
  replace (length (fr ++ [b]) <? 5)%nat with true by (symmetry; apply Nat.ltb_lt; rewrite app_length; cbn [length]; lia).
  rewrite (IH (fr ++ [b])) by (rewrite app_length; cbn [length]; lia). rewrite <- app_assoc. reflexivity.
Qed.

(* collecting the body: fewer bytes than are wanted *)
Lemma run_body h : forall l fr want, (length l < want)%nat ->
  mrun (h, PBody fr want) l = ([], (h, PBody (fr ++ l) (want - length l))).
Proof.
  induction l as [|b l IH]; intros fr want Hl; cbn [mrun length].
  - rewrite app_nil_r, Nat.sub_0_r. reflexivity.
  - cbn [length] in Hl. cbn [mstep]. destruct want as [|[|w]]; try lia.
    rewrite (IH (fr ++ [b]) (S w)) by lia. rewrite <- app_assoc. cbn [app]. reflexivity.
Qed.

(* ---------- the equivalence ---------- *)

Lemma split_d3 : forall u : list N, no_d3b u = true \/ exists j r, u = j ++ 211 :: r /\ no_d3b j = true.
Proof.
  induction u as [|b u IH]; [left; reflexivity|].
  destruct (b =? 211) eqn:E.
  - right. apply N.eqb_eq in E. subst b. exists [], u. split; reflexivity.
  - destruct IH as [H|(j & r & -> & Hj)].
    + left. unfold no_d3b. cbn [forallb]. rewrite E. exact H.
    + right. exists (b :: j), r. split; [reflexivity|]. unfold no_d3b. cbn [forallb]. rewrite E. exact Hj.
Qed.

Lemma handle_step_end fuel h s m h1 : fetch h s = Ok (Some (m, h1, st [])) ->
  handle (S (S fuel)) h s = Ok ([m], h1).
Proof.
  intros H. rewrite (handle_step (S fuel) h s _ _ _ H). cbn [handle].
  rewrite (fetch_end h1 (st []) (pb_ok_st []) eq_refl). reflexivity.
Qed.

Theorem handle_is_machine : forall fuel h s, pb_ok s -> (length (unread s) < fuel)%nat ->
  handle fuel h s = Ok (mall (h, PEat []) (unread s)).
Proof.
  induction fuel as [|fuel IH]; intros h s Hpb Hf; [lia|].
  destruct (unread s) as [|u0 u] eqn:Hu.
  { cbn [handle]. rewrite (fetch_end h s Hpb Hu). reflexivity. }
  destruct (split_d3 (u0 :: u)) as [Hj|(j & r & Hsplit & Hj)].
  - (* junk to the end *)
    destruct fuel as [|fuel]; [cbn [length] in Hf; lia|].
    rewrite (handle_step_end fuel h s _ _ (fetch_junk_end h s (u0 :: u) Hpb ltac:(discriminate) Hj Hu)).
    unfold mall. rewrite (run_eat h (u0 :: u) [] Hj). reflexivity.
  - destruct j as [|j0 j].
    + (* the unread input starts with 0xD3 *)
      cbn [app] in Hsplit. injection Hsplit as -> ->.
      destruct (Nat.lt_ge_cases (length r) 4) as [Hshort|Hlong].
      * (* fewer than five bytes in all *)
        destruct fuel as [|fuel]; [cbn [length] in Hf; lia|].
        rewrite (handle_step_end fuel h s _ _ (fetch_d3_short h s r Hpb Hu Hshort)).
        unfold mall. cbn [mrun mstep]. change (211 =? D3) with true. cbv iota.
        rewrite (run_lead h r [D3]) by (cbn [length]; lia). reflexivity.
      * (* the leader is complete *)
        assert (Hr : r = firstn 4 r ++ skipn 4 r) by (symmetry; apply firstn_skipn).
        set (g := firstn 4 r) in *. set (r2 := skipn 4 r) in *.
        assert (Hg : length g = 4%nat) by (unfold g; apply firstn_length_le; exact Hlong).
        assert (Hu2 : unread s = 211 :: g ++ r2) by (rewrite Hu, Hr; reflexivity).
        assert (Hlr : length r = (4 + length r2)%nat) by (rewrite Hr at 1; rewrite app_length, Hg; reflexivity).
        cbn [length] in Hf.
        assert (Hm5 : mrun (h, PEat []) (211 :: g) =
                      match get_len_type (211 :: g) with
                      | inl (Ok (len, _)) => ([], (h, PBody (211 :: g) (N.to_nat (len + LeaderLengthBytes + CRCLengthBytes) - 5)))
                      | _ => ([non_rtcm (211 :: g)], (h, PEat []))
                      end).
        { destruct g as [|g0 [|g1 [|g2 [|g3 [|g4 g']]]]]; cbn [length] in Hg; try lia.
          cbn [mrun mstep]. change (211 =? D3) with true. cbv iota.
          cbn [mrun mstep app length Nat.ltb Nat.leb]. change D3 with 211.
          destruct (get_len_type [211; g0; g1; g2; g3]) as [[[len ty]|e|]|[ty e]]; reflexivity. }
        rewrite Hr. change (211 :: g ++ r2) with ((211 :: g) ++ r2). rewrite mall_app, Hm5.
        destruct (get_len_type (211 :: g)) as [[[len ty]|e|]|[ty e]] eqn:HG.
        -- (* a leader announcing len bytes *)
           set (want := (N.to_nat (len + LeaderLengthBytes + CRCLengthBytes) - 5)%nat).
           pose proof (get_len_type_ok _ _ _ HG) as (_ & _ & _ & _ & Hnz & _).
           assert (Hw2 : (2 <= want)%nat) by (unfold want; change LeaderLengthBytes with 3%N; change CRCLengthBytes with 3%N; lia).
           destruct (Nat.lt_ge_cases (length r2) want) as [Htr|Hfull].
           ++ (* the input ends inside the frame *)
              destruct fuel as [|fuel]; [cbn [length] in Hf; lia|].
              rewrite (handle_step_end fuel h s _ _ (fetch_d3_trunc h s g r2 len ty Hpb Hu2 Hg HG Htr)).
              unfold mall. fold want. rewrite (run_body h r2 (211 :: g) want Htr). cbn [app mflush snd fst]. reflexivity.
           ++ (* the frame is complete *)
              assert (Hr2 : r2 = firstn want r2 ++ skipn want r2) by (symmetry; apply firstn_skipn).
              set (body := firstn want r2) in *. set (r3 := skipn want r2) in *.
              assert (Hb : length body = want) by (unfold body; apply firstn_length_le; exact Hfull).
              set (f := (211 :: g) ++ body).
              assert (HL : length f = N.to_nat (len + LeaderLengthBytes + CRCLengthBytes)).
              { unfold f. rewrite app_length, Hb. cbn [length]. rewrite Hg. unfold want.
                change LeaderLengthBytes with 3%N in *. change CRCLengthBytes with 3%N in *. lia. }
              assert (Hu3 : unread s = f ++ r3) by (rewrite Hu2, Hr2; unfold f; rewrite <- app_assoc; reflexivity).
              assert (H5 : firstn 5 f = 211 :: g).
              { unfold f. rewrite firstn_app. cbn [length]. rewrite Hg. change (5 - 5)%nat with 0%nat.
                change (firstn 0 body) with (@nil N). rewrite app_nil_r. apply firstn_all2. cbn [length]. lia. }
              pose proof (fetch_framelike h s f r3 len ty Hpb Hu3 eq_refl ltac:(rewrite H5; exact HG) HL) as Hfe.
              destruct (get_message_total h f) as [[om h1] Hgm]. rewrite Hgm in Hfe. cbn [bind] in Hfe.
              destruct om as [m|]; [|exfalso; apply get_message_none in Hgm; unfold f in Hgm; discriminate].
              rewrite (handle_step fuel h s _ _ _ Hfe).
              rewrite (IH h1 (st r3) (pb_ok_st r3)).
              2:{ unfold unread, st. cbn [pb rest app].
                  assert (length r2 = (want + length r3)%nat) by (rewrite Hr2 at 1; rewrite app_length, Hb; reflexivity). lia. }
              cbn [bind fst snd]. unfold unread, st. cbn [pb rest app].
              (* the machine: want-1 bytes, then the last one completes the frame *)
              rewrite Hr2. rewrite mall_app.
              assert (Hbody : mrun (h, PBody (211 :: g) want) body = ([m], (h1, PEat []))).
              { destruct (exists_last (l := body)) as (b0 & bl & Hbl); [intros C; rewrite C in Hb; cbn in Hb; lia|].
                rewrite Hbl, mrun_app.
                assert (Hb0 : length b0 = (want - 1)%nat) by (rewrite Hbl, app_length in Hb; cbn [length] in Hb; lia).
                rewrite (run_body h b0 (211 :: g) want) by lia. rewrite Hb0.
                replace (want - (want - 1))%nat with 1%nat by lia.
                cbn [mrun mstep]. unfold f in Hgm. rewrite Hbl, app_assoc in Hgm. rewrite Hgm. reflexivity. }
              rewrite Hbody. destruct (mall (h1, PEat []) r3) as [ms3 h3]. reflexivity.
        -- exfalso. exact (proj2 (get_len_type_no_panic _) e HG).
        -- exfalso. exact (proj1 (get_len_type_no_panic _) HG).
        -- (* not a leader: the five bytes are delivered as non-RTCM data *)
           rewrite (handle_step fuel h s _ _ _ (fetch_d3_badhdr h s g r2 ty e Hpb Hu2 Hg HG)).
           rewrite (IH h (st r2) (pb_ok_st r2)).
           2:{ unfold unread, st. cbn [pb rest app]. lia. }
           cbn [bind fst snd]. unfold unread, st. cbn [pb rest app].
           destruct (mall (h, PEat []) r2) as [ms2 h2]. reflexivity.
    + (* junk, then 0xD3 *)
      rewrite (handle_step fuel h s _ _ _ (fetch_junk_d3 h s (j0 :: j) r Hpb ltac:(discriminate) Hj (eq_trans Hu Hsplit))).
      rewrite (IH h {| pb := [211]; rest := r |}); [|right; reflexivity|].
      2:{ unfold unread. cbn [pb rest app]. rewrite Hsplit in Hf. rewrite app_length in Hf. cbn [length] in *. lia. }
      cbn [bind fst snd]. unfold unread. cbn [pb rest app].
      rewrite Hsplit. rewrite mall_app, (run_eat h (j0 :: j) [] Hj). cbn [app].
      unfold mall. cbn [mrun mstep]. change (211 =? D3) with true. cbv iota.
      destruct (mrun (h, PLead [D3]) r) as [ms2 s2]. cbn [app]. reflexivity.
Qed.

(* feeding the machine the input byte by byte delivers what the stream handler delivers *)
Theorem handle_stream_is_machine h input :
  handle_stream h input = Ok (mall (h, PEat []) input).
Proof.
  unfold handle_stream. fold (st input).
  rewrite (handle_is_machine (S (length input)) h (st input) (pb_ok_st input)); [reflexivity|].
  unfold unread, st. cbn [pb rest app]. lia.
Qed.

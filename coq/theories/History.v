(* History.v - running a history of MSM observations through the model's public path. *)
From NTRIP Require Import Base Bits Crc Time Classify Frame TimeSpec.

(* what GetMessage reports for one frame: (SentAt, StartOfWeek) *)
Definition report := (option (res Z) * option Z)%type.

Fixpoint run_frames (h : hstate) (frames : list (list N)) : res (list report * hstate) :=
  match frames with
  | [] => Ok ([], h)
  | f :: rest =>
    r <- get_message h f ;;
    match r with
    | (Some m, h') =>
      r' <- run_frames h' rest ;;
      Ok ((msent m, msow m) :: fst r', snd r')
    | (None, h') =>
      r' <- run_frames h' rest ;;
      Ok ((None, None) :: fst r', snd r')
    end
  end.

Definition run_history (h : hstate) (evs : list event) : res (list report * hstate) :=
  run_frames h (map event_frame evs).

(* the report the property demands for an event *)
Definition report_ok (e : event) (r : report) : bool :=
  match e, r with
  | Obs c _ u, (Some (Ok t), Some s) => (t =? u)%Z && (s =? week_start c u)%Z
  | Bad _ _ _, (Some (Err _), _) => true
  | _, _ => false
  end.

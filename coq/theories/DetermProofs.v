(* DetermProofs.v - C15 at the level of the stream handler: what is delivered for a byte stream,
   apart from the two time values of MSM messages, does not depend on the handler's state
   (its start time and what it has processed before). *)
From Coq Require Import List Arith NArith ZArith Lia Bool.
Import ListNotations.
From NTRIPGen Require Import GenConsts.
From NTRIP Require Import Base Bits Time Classify Frame FrameSpec FrameProofs.

Definition stream_core (r : res (list msg * hstate)) : res (list (Z * list N * option err * option err * N * bool)) :=
  match r with
  | Ok (ms, _) => Ok (map msg_core ms)
  | Err e => Err e
  | Panic => Panic
  end.

(* one fetch: same outcome, same message core, same remaining input *)
Definition fetch_core (r : res (option (msg * hstate * pstate))) :=
  match r with
  | Ok (Some (m, _, s)) => Ok (Some (msg_core m, s))
  | Ok None => Ok None
  | Err e => Err e
  | Panic => Panic
  end.

Lemma fetch_state_independent h1 h2 s : fetch_core (fetch h1 s) = fetch_core (fetch h2 s).
Proof.
  unfold fetch. destruct (eat s) as [[frame s1] ended].
  destruct (ended && (length frame =? 0)%nat); [reflexivity|].
  destruct (1 <? length frame)%nat.
  { destruct (last frame 0 =? D3)%N; reflexivity. }
  destruct (read_n _ s1 frame) as [[frame2 s2] ok2].
  destruct (negb ok2); [reflexivity|].
  destruct (get_len_type frame2) as [[[len ty]|e|]|[ty e]]; try reflexivity.
  destruct (read_n _ s2 frame2) as [[frame3 s3] ok3].
  destruct (negb ok3); [reflexivity|].
  pose proof (get_message_state_independent h1 h2 frame3) as G. unfold result_core in G.
  destruct (get_message h1 frame3) as [[[m1|] g1]| |]; destruct (get_message h2 frame3) as [[[m2|] g2]| |];
    cbn [bind] in *; try discriminate; try reflexivity.
  - cbn [fetch_core]. remember (msg_core m1) as c1. remember (msg_core m2) as c2. injection G as G. rewrite G. reflexivity.
  - injection G as G. rewrite G. reflexivity.
Qed.

Lemma handle_state_independent : forall fuel h1 h2 s, stream_core (handle fuel h1 s) = stream_core (handle fuel h2 s).
Proof.
  induction fuel as [|fuel IH]; intros h1 h2 s; [reflexivity|].
  cbn [handle]. pose proof (fetch_state_independent h1 h2 s) as F.
  destruct (fetch h1 s) as [[[[m1 g1] s1]|]| |]; destruct (fetch h2 s) as [[[[m2 g2] s2]|]| |];
    cbn [fetch_core bind] in *; try discriminate; try reflexivity.
  - remember (msg_core m1) as c1. remember (msg_core m2) as c2. injection F as Fm Fs. subst s2 c1 c2. specialize (IH g1 g2 s1).
    destruct (handle fuel g1 s1) as [[ms1 k1]| |]; destruct (handle fuel g2 s1) as [[ms2 k2]| |];
      cbn [stream_core bind fst snd] in *; try discriminate; try reflexivity.
    + injection IH as IH. cbn [map]. rewrite Fm, IH. reflexivity.
    + exact IH.
  - injection F as F. rewrite F. reflexivity.
Qed.

Theorem stream_state_independent h1 h2 input :
  stream_core (handle_stream h1 input) = stream_core (handle_stream h2 input).
Proof. unfold handle_stream. apply handle_state_independent. Qed.

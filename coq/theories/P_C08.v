(* P_C08.v - the theorems of property C08 and nothing else: each is closed by [exact <lemma>]
   (or a one-line instantiation) and followed by Print Assumptions.  One file per property, importing only
   what that property's statements need, so that a change which breaks one property's proof leaves the
   others' theorems checkable. *)
From NTRIP Require Import Base Bits Range RangeProofs FloatProofs FloatMore.
From NTRIPGen Require Import GenConsts.
From Coq Require Import Reals Floats.
From Flocq Require Import Core IEEE754.BinarySingleNaN IEEE754.PrimFloat.


(* ===================== C08 ===================== *)
(* The scaled aggregates are exactly the standard's sums (the uint64/int64 wraps of the code are
   harmless on the fields' ranges whenever the true value is non-negative). *)
Theorem C08_scaled_range : forall w f d, (w < 256)%N -> (f < 1024)%N -> (- 2 ^ 19 <= d < 2 ^ 19)%Z ->
  (0 <= Z.of_N w * 2 ^ 29 + Z.of_N f * 2 ^ 19 + d)%Z ->
  Z.of_N (scaled_range w f d) = (Z.of_N w * 2 ^ 29 + Z.of_N f * 2 ^ 19 + d)%Z.
Proof. exact scaled_range_exact. Qed.
Print Assumptions C08_scaled_range.

Theorem C08_scaled_phase : forall w f p, (w < 256)%N -> (f < 1024)%N -> (- 2 ^ 23 <= p < 2 ^ 23)%Z ->
  (0 <= Z.of_N w * 2 ^ 31 + Z.of_N f * 2 ^ 21 + p)%Z ->
  Z.of_N (scaled_phase w f p) = (Z.of_N w * 2 ^ 31 + Z.of_N f * 2 ^ 21 + p)%Z.
Proof. exact scaled_phase_exact. Qed.
Print Assumptions C08_scaled_phase.

Theorem C08_scaled_rate : forall rough fine, (- 2 ^ 13 <= rough < 2 ^ 13)%Z -> (- 2 ^ 14 <= fine < 2 ^ 14)%Z ->
  scaled_rate rough fine = (rough * 10000 + fine)%Z.
Proof. exact scaled_rate_exact. Qed.
Print Assumptions C08_scaled_rate.

(* An MSM4 and an MSM7 cell encoding the same quantity yield the same aggregate. *)
Theorem C08_msm4_msm7_agree : forall w f d4 p4,
  agg_range4 w f d4 = agg_range7 w f (d4 * 32) /\ agg_phase4 w f p4 = agg_phase7 w f (p4 * 4).
Proof. exact msm4_msm7_agree. Qed.
Print Assumptions C08_msm4_msm7_agree.

(* Invalid markers: an invalid rough range makes the values zero, an invalid fine value falls back
   to the rough value alone, an invalid rough rate gives zero. *)
Theorem C08_invalid : forall w f d p rough fine,
  agg_range4 255 f d = 0%N /\ agg_range7 255 f d = 0%N /\ agg_phase4 255 f p = 0%N /\ agg_phase7 255 f p = 0%N /\
  (w <> 255%N -> agg_range4 w f (-16384) = scaled_range w f 0 /\ agg_range7 w f (-524288) = scaled_range w f 0 /\
               agg_phase4 w f (-2097152) = scaled_phase w f 0 /\ agg_phase7 w f (-8388608) = scaled_phase w f 0) /\
  agg_rate (-8192) fine = 0%Z /\ (rough <> (-8192)%Z -> agg_rate rough (-16384) = scaled_rate rough 0).
Proof. exact invalid_markers. Qed.
Print Assumptions C08_invalid.

(* The pseudorange in metres, (float64(S)/2^29) * OneLightMillisecond in binary64, equals
   c/1000 x S/2^29 with a relative error below 2^-51, for every 41-bit scaled range S > 0. *)
Theorem C08_range_error : forall S : N, (0 < S < 2 ^ 41)%N ->
  let exact := (IZR (Z.of_N S) / 536870912 * (299792458 / 1000))%R in
  (Rabs (B2R (Prim2B (range_m S)) - exact) <= exact / 2251799813685248)%R.
Proof. exact range_error. Qed.
Print Assumptions C08_range_error.

(* The other three binary64 pipelines, for every (constellation, signal) pair of the code's
   wavelength table that has a frequency (each is an integer number of Hz between 1 and 2 GHz:
   FloatMore.wavelength_table, by evaluation of the table): relative error at most 2^-53 for the
   rate in m/s (one rounding) and below 2^-50 for the phase range in cycles (three roundings
   and the representation error of 299792.458) and the Doppler shift in Hz (four roundings). *)
Theorem C08_rate_error : forall a : Z, (a <> 0)%Z -> (- 2 ^ 40 < a < 2 ^ 40)%Z ->
  let exact := (IZR a / 10000)%R in
  (Rabs (B2R (Prim2B (rate_ms a)) - exact) <= Rabs exact / 9007199254740992)%R.
Proof. exact rate_error. Qed.
Print Assumptions C08_rate_error.

Theorem C08_phase_error : forall (c s S : N), freq c s <> 0%float -> (0 < S < 2 ^ 41)%N ->
  exists F : Z, B2R (Prim2B (freq c s)) = IZR F /\
    let exact := (IZR (Z.of_N S) / 2147483648 * (IZR F / 1000))%R in
    (Rabs (B2R (Prim2B (phase_cycles S (wavelength c s))) - exact) <= exact / 1125899906842624)%R.
Proof. exact phase_error_table. Qed.
Print Assumptions C08_phase_error.

Theorem C08_doppler_error : forall (c s : N) (a : Z), freq c s <> 0%float -> (a <> 0)%Z -> (- 2 ^ 40 < a < 2 ^ 40)%Z ->
  exists F : Z, B2R (Prim2B (freq c s)) = IZR F /\
    let exact := (- (IZR a / 10000 * (IZR F / 299792458)))%R in
    (Rabs (B2R (Prim2B (doppler a (wavelength c s))) - exact) <= Rabs exact / 1125899906842624)%R.
Proof. exact doppler_error_table. Qed.
Print Assumptions C08_doppler_error.

Example C08_example :
  scaled_range 80 512 (-5) = 43218108411%N /\ agg_range4 80 512 7 = agg_range7 80 512 224 /\
  float_bits (range_m 43218108411) = 4717243441704860898%N.
Proof. repeat split; vm_compute; reflexivity. Qed.


(* ConcQueue.v - C18, concurrent half: the proxy's circular queue used by any number of
   goroutines under its sync.RWMutex.

   Every Add is: Lock; (evict while full); (insert); Unlock.  Every GetMessages is: RLock; (read
   the keys in ascending order); (collect the items of those keys); RUnlock.  The bodies are
   NOT atomic in the model: each is two separate steps on the shared queue, other threads may
   run in between, and a thread that skipped the lock would see the intermediate states.  The
   lock is the abstract RWMutex: a thread obtains the write lock when no thread holds the lock in
   either mode, and the read lock when no thread holds the write lock (Go's additional rule that
   a waiting writer blocks new readers only removes schedules).

   Theorem: in every reachable configuration of every schedule there is a sequential history
   (the commit order: an Add commits at its insert, a GetMessages when it reads the keys) that is
   legal for the sequential queue of Queue.v, in which every operation lies between its own
   invocation and return, and every result a thread has been given is the result of its
   operation in that history.  With QueueProofs.queue_last_n: every snapshot ever returned is
   the last min(N, k) of the k additions committed before it, in commit order. *)
From NTRIP Require Import Base Queue QueueProofs.
From Coq Require Import Lia.
Open Scope Z_scope.

Section CQ.
  Variable A : Type.
  Variable cap : nat.
  Hypothesis Hcap : (1 <= cap)%nat.
  (* facts regenerated from the source: Add takes the write lock for its whole body,
     GetMessages the read lock for its whole body *)
  Variables add_locked get_locked : bool.
  (* Go's RWMutex lets no new reader in while a writer is waiting; false = readers may overtake *)
  Variable wpref : bool.

  Notation queue := (queue A).

  (* ---------- the two halves of the bodies ---------- *)
  Definition evictq (q : queue) : queue :=
    {| q_max := q_max q;
       q_items := if (q_max q <=? length (q_items q))%nat
                  then evict (map fst (sort_items (q_items q))) (q_max q) (q_items q)
                  else q_items q;
       q_next := q_next q |}.
  Definition insertq (q : queue) (x : A) : queue :=
    {| q_max := q_max q; q_items := q_items q ++ [(q_next q, x)]; q_next := q_next q + 1 |}.
  Lemma qadd_split q x : qadd q x = insertq (evictq q) x.
  Proof. reflexivity. Qed.

  Lemma flat_map_ext_in' {X Y} (f g : X -> list Y) l : (forall a, In a l -> f a = g a) -> flat_map f l = flat_map g l.
  Proof.
    induction l as [|a l IH]; intros H; [reflexivity|]. cbn [flat_map].
    rewrite (H a (or_introl eq_refl)), IH; [reflexivity|]. intros b Hb. apply H. right. exact Hb.
  Qed.

  Definition keysq (q : queue) : list Z := map fst (sort_items (q_items q)).
  Definition lookup (k : Z) (l : list (Z * A)) : option A :=
    match find (fun kv => fst kv =? k) l with Some kv => Some (snd kv) | None => None end.
  Definition collect (q : queue) (ks : list Z) : list A :=
    flat_map (fun k => match lookup k (q_items q) with Some v => [v] | None => [] end) ks.

  Lemma collect_number_from : forall l s,
    flat_map (fun k => match lookup k (number_from A s l) with Some v => [v] | None => [] end)
             (map fst (number_from A s l)) = l.
  Proof.
    induction l as [|x l IH]; intros s; [reflexivity|].
    cbn [number_from map flat_map fst]. unfold lookup at 1. cbn [find fst]. rewrite Z.eqb_refl. cbn [snd app].
    f_equal. rewrite <- (IH (s + 1)) at 2. apply flat_map_ext_in'. intros k Hk.
    unfold lookup. cbn [find fst].
    destruct (Z.eqb_spec s k) as [->|_]; [|reflexivity].
    exfalso. apply in_map_iff in Hk. destruct Hk as (kv & Hkv & Hin).
    pose proof (keys_ge A (k + 1) l) as G. rewrite Forall_forall in G. specialize (G kv Hin). lia.
  Qed.

  Lemma collect_keys n xs q : Inv A n xs q -> collect q (keysq q) = snapshot q.
  Proof.
    intros (_ & _ & Hi). cbv zeta in Hi. unfold collect, keysq, snapshot. rewrite Hi, sort_number_from.
    rewrite collect_number_from, number_from_snd. reflexivity.
  Qed.

  (* ---------- threads ---------- *)
  Inductive op := OAdd (x : A) | OGet.
  Inductive res := RAdd | RGet (l : list A).

  Inductive tstate :=
  | TIdle (todo : list op)
  | TWantW (x : A) (todo : list op)      (* Add called: waiting for the write lock *)
  | TAdd1 (x : A) (todo : list op)       (* write lock held; next: evict *)
  | TAdd2 (x : A) (todo : list op)       (* next: insert *)
  | TAddU (todo : list op)               (* next: unlock and return *)
  | TWantR (todo : list op)
  | TGet1 (todo : list op)               (* read lock held; next: read the keys *)
  | TGet2 (ks : list Z) (todo : list op) (* next: collect the items *)
  | TGetU (l : list A) (todo : list op). (* next: unlock and return *)

  Definition holdsW (t : tstate) : bool :=
    add_locked && match t with TAdd1 _ _ | TAdd2 _ _ | TAddU _ => true | _ => false end.
  Definition holdsR (t : tstate) : bool :=
    get_locked && match t with TGet1 _ | TGet2 _ _ | TGetU _ _ => true | _ => false end.

  Definition updf {B} (f : nat -> B) (i : nat) (v : B) : nat -> B := fun j => if Nat.eqb j i then v else f j.

  Record conf := mkC {
    th : nat -> tstate; shq : queue; outs : nat -> list res;
    (* ghost *) hist : list (nat * op * res); absq : queue; added : list A }.

  Inductive step : conf -> conf -> Prop :=
  | s_call_add c i x r : th c i = TIdle (OAdd x :: r) ->
      step c (mkC (updf (th c) i (TWantW x r)) (shq c) (outs c) (hist c) (absq c) (added c))
  | s_lock c i x r : th c i = TWantW x r ->
      (add_locked = true -> forall j, holdsW (th c j) = false /\ holdsR (th c j) = false) ->
      step c (mkC (updf (th c) i (TAdd1 x r)) (shq c) (outs c) (hist c) (absq c) (added c))
  | s_evict c i x r : th c i = TAdd1 x r ->
      step c (mkC (updf (th c) i (TAdd2 x r)) (evictq (shq c)) (outs c) (hist c) (absq c) (added c))
  | s_insert c i x r : th c i = TAdd2 x r ->
      step c (mkC (updf (th c) i (TAddU r)) (insertq (shq c) x) (outs c)
                  (hist c ++ [(i, OAdd x, RAdd)]) (qadd (absq c) x) (added c ++ [x]))
  | s_unlock c i r : th c i = TAddU r ->
      step c (mkC (updf (th c) i (TIdle r)) (shq c) (updf (outs c) i (outs c i ++ [RAdd])) (hist c) (absq c) (added c))
  | s_call_get c i r : th c i = TIdle (OGet :: r) ->
      step c (mkC (updf (th c) i (TWantR r)) (shq c) (outs c) (hist c) (absq c) (added c))
  | s_rlock c i r : th c i = TWantR r ->
      (get_locked = true -> forall j, holdsW (th c j) = false) ->
      (get_locked = true -> wpref = true -> forall j x r', th c j <> TWantW x r') ->
      step c (mkC (updf (th c) i (TGet1 r)) (shq c) (outs c) (hist c) (absq c) (added c))
  | s_keys c i r : th c i = TGet1 r ->
      step c (mkC (updf (th c) i (TGet2 (keysq (shq c)) r)) (shq c) (outs c)
                  (hist c ++ [(i, OGet, RGet (snapshot (absq c)))]) (absq c) (added c))
  | s_collect c i ks r : th c i = TGet2 ks r ->
      step c (mkC (updf (th c) i (TGetU (collect (shq c) ks) r)) (shq c) (outs c) (hist c) (absq c) (added c))
  | s_runlock c i l r : th c i = TGetU l r ->
      step c (mkC (updf (th c) i (TIdle r)) (shq c) (updf (outs c) i (outs c i ++ [RGet l])) (hist c) (absq c) (added c)).

  Inductive reach (c0 : conf) : conf -> Prop :=
  | r_refl : reach c0 c0
  | r_step c c' : reach c0 c -> step c c' -> reach c0 c'.

  Definition init (prog : nat -> list op) : conf :=
    mkC (fun i => TIdle (prog i)) (new_queue cap) (fun _ => []) [] (new_queue cap) [].

  (* ---------- legal sequential histories ---------- *)
  Fixpoint legal (q : queue) (h : list (nat * op * res)) (qf : queue) : Prop :=
    match h with
    | [] => qf = q
    | (_, OAdd x, RAdd) :: r => legal (qadd q x) r qf
    | (_, OGet, RGet l) :: r => l = snapshot q /\ legal q r qf
    | _ => False
    end.

  Lemma legal_snoc_add q h qf i x : legal q h qf -> legal q (h ++ [(i, OAdd x, RAdd)]) (qadd qf x).
  Proof.
    revert q; induction h as [|[[j o] r] h IH]; intros q H; cbn [legal app] in *.
    - subst qf. reflexivity.
    - destruct o as [y|]; destruct r as [|l]; try contradiction.
      + apply IH. exact H.
      + destruct H as [H1 H2]. split; [exact H1|]. apply IH. exact H2.
  Qed.
  Lemma legal_snoc_get q h qf i : legal q h qf -> legal q (h ++ [(i, OGet, RGet (snapshot qf))]) qf.
  Proof.
    revert q; induction h as [|[[j o] r] h IH]; intros q H; cbn [legal app] in *.
    - subst qf. split; reflexivity.
    - destruct o as [y|]; destruct r as [|l]; try contradiction.
      + apply IH. exact H.
      + destruct H as [H1 H2]. split; [exact H1|]. apply IH. exact H2.
  Qed.

  (* the results of thread i in a history, in order *)
  Definition proj (i : nat) (h : list (nat * op * res)) : list res :=
    flat_map (fun e => if Nat.eqb (fst (fst e)) i then [snd e] else []) h.
  Lemma proj_app i a b : proj i (a ++ b) = proj i a ++ proj i b.
  Proof. apply flat_map_app. Qed.

  (* a committed operation whose result has not been handed back yet *)
  Definition pending (t : tstate) (aq : queue) : list res :=
    match t with
    | TAddU _ => [RAdd]
    | TGet2 _ _ | TGetU _ _ => [RGet (snapshot aq)]
    | _ => []
    end.

  (* ---------- the invariant ---------- *)
  Definition no_writer (c : conf) : Prop := forall i, holdsW (th c i) = false.

  Record Inv (c : conf) : Prop := {
    i_mutex : forall i j, i <> j -> holdsW (th c i) = true -> holdsW (th c j) = false /\ holdsR (th c j) = false;
    i_idle  : no_writer c -> shq c = absq c;
    i_add1  : forall i x r, th c i = TAdd1 x r -> shq c = absq c;
    i_add2  : forall i x r, th c i = TAdd2 x r -> shq c = evictq (absq c);
    i_addu  : forall i r, th c i = TAddU r -> shq c = absq c;
    i_get2  : forall i ks r, th c i = TGet2 ks r -> ks = keysq (absq c);
    i_getu  : forall i l r, th c i = TGetU l r -> l = snapshot (absq c);
    i_q     : QueueProofs.Inv A cap (added c) (absq c);
    i_legal : legal (new_queue cap) (hist c) (absq c);
    i_outs  : forall i, proj i (hist c) = outs c i ++ pending (th c i) (absq c) }.

  Hypothesis Hadd : add_locked = true.
  Hypothesis Hget : get_locked = true.

  Lemma holdsW_true t : holdsW t = true <-> (exists x r, t = TAdd1 x r) \/ (exists x r, t = TAdd2 x r) \/ (exists r, t = TAddU r).
  Proof.
    unfold holdsW. rewrite Hadd. cbn [andb]. destruct t; split; intros H; try discriminate; try reflexivity;
      try (destruct H as [(x0 & r0 & H)|[(x0 & r0 & H)|(r0 & H)]]; discriminate); eauto.
  Qed.
  Lemma holdsR_true t : holdsR t = true <-> (exists r, t = TGet1 r) \/ (exists ks r, t = TGet2 ks r) \/ (exists l r, t = TGetU l r).
  Proof.
    unfold holdsR. rewrite Hget. cbn [andb]. destruct t; split; intros H; try discriminate; try reflexivity;
      try (destruct H as [(r0 & H)|[(x0 & r0 & H)|(x0 & r0 & H)]]; discriminate); eauto.
  Qed.

  Lemma updf_same {B} (f : nat -> B) i v : updf f i v i = v.
  Proof. unfold updf. rewrite Nat.eqb_refl. reflexivity. Qed.
  Lemma updf_other {B} (f : nat -> B) i j v : j <> i -> updf f i v j = f j.
  Proof. unfold updf. intros H. destruct (Nat.eqb_spec j i); [contradiction|reflexivity]. Qed.

  Lemma inv_init prog : Inv (init prog).
  Proof.
    constructor; cbn [th shq outs hist absq added init]; try (intros; discriminate); try reflexivity.
    - intros i j _ H. unfold holdsW in H. rewrite andb_false_r in H. discriminate.
    - apply QueueProofs.inv_init.
  Qed.

  (* ---------- preservation ---------- *)
  Lemma hw_add1 x r : holdsW (TAdd1 x r) = true. Proof. unfold holdsW. rewrite Hadd. reflexivity. Qed.
  Lemma hw_add2 x r : holdsW (TAdd2 x r) = true. Proof. unfold holdsW. rewrite Hadd. reflexivity. Qed.
  Lemma hw_addu r : holdsW (TAddU r) = true. Proof. unfold holdsW. rewrite Hadd. reflexivity. Qed.
  Lemma hr_get1 r : holdsR (TGet1 r) = true. Proof. unfold holdsR. rewrite Hget. reflexivity. Qed.
  Lemma hr_get2 ks r : holdsR (TGet2 ks r) = true. Proof. unfold holdsR. rewrite Hget. reflexivity. Qed.
  Lemma hr_getu l r : holdsR (TGetU l r) = true. Proof. unfold holdsR. rewrite Hget. reflexivity. Qed.
  Lemma hw_false t : match t with TAdd1 _ _ | TAdd2 _ _ | TAddU _ => False | _ => True end -> holdsW t = false.
  Proof. unfold holdsW. destruct t; intros H; try contradiction; apply andb_false_r. Qed.
  Lemma hr_false t : match t with TGet1 _ | TGet2 _ _ | TGetU _ _ => False | _ => True end -> holdsR t = false.
  Proof. unfold holdsR. destruct t; intros H; try contradiction; apply andb_false_r. Qed.
  Lemma not_both t : holdsW t = true -> holdsR t = true -> False.
  Proof. unfold holdsW, holdsR. destruct t; rewrite ?andb_false_r; intros; discriminate. Qed.

  (* a reader holds the lock: nobody holds the write lock, so the shared queue is the abstract one *)
  Lemma reader_no_writer c i : Inv c -> holdsR (th c i) = true -> no_writer c.
  Proof.
    intros I Hr a. destruct (holdsW (th c a)) eqn:E; [|reflexivity]. exfalso.
    destruct (Nat.eq_dec a i) as [->|Hne]; [exact (not_both _ E Hr)|].
    destruct (i_mutex c I a i Hne E) as [_ C]. congruence.
  Qed.

  (* two different threads cannot both hold the write lock, nor one the write and one the read lock *)
  Lemma writer_excl c i k : Inv c -> k <> i -> holdsW (th c i) = true ->
    holdsW (th c k) = false /\ holdsR (th c k) = false.
  Proof. intros I Hne H. apply (i_mutex c I i k); [congruence|exact H]. Qed.

  Ltac thr k i := destruct (Nat.eq_dec k i) as [->|?]; [rewrite ?updf_same in *|rewrite ?updf_other in * by assumption].

  (* pending results of a thread that holds no lock do not depend on the abstract queue *)
  Lemma pending_free t a b : holdsW t = false -> holdsR t = false -> pending t a = pending t b.
  Proof.
    destruct t; try reflexivity; intros Hw Hr; exfalso.
    - rewrite hr_get2 in Hr. discriminate.
    - rewrite hr_getu in Hr. discriminate.
  Qed.

  Lemma proj_snoc_other i k o r h : k <> i -> proj k (h ++ [(i, o, r)]) = proj k h.
  Proof.
    intros H. rewrite proj_app. unfold proj at 2. cbn [flat_map fst snd].
    destruct (Nat.eqb_spec i k); [congruence|]. cbn. apply app_nil_r.
  Qed.
  Lemma proj_snoc_same i o r h : proj i (h ++ [(i, o, r)]) = proj i h ++ [r].
  Proof. rewrite proj_app. unfold proj at 2. cbn [flat_map fst snd]. rewrite Nat.eqb_refl. reflexivity. Qed.

  Lemma inv_step c c' : Inv c -> step c c' -> Inv c'.
  Proof.
    intros I S. destruct S as [c i x r Ht|c i x r Ht G|c i x r Ht|c i x r Ht|c i r Ht|c i r Ht|c i r Ht G G2|c i r Ht|c i ks r Ht|c i l r Ht].
    - (* call Add *)
      constructor; cbn [th shq outs hist absq added].
      + intros a b Hab Ha. thr a i; [rewrite hw_false in Ha by exact Logic.I; discriminate|].
        thr b i; [split; [apply hw_false|apply hr_false]; exact Logic.I|]. exact (i_mutex c I a b Hab Ha).
      + intros Hn. apply (i_idle c I). intros a. specialize (Hn a). cbn [th] in Hn. thr a i; [rewrite Ht; apply hw_false; exact Logic.I|exact Hn].
      + intros k y s H. thr k i; [discriminate|exact (i_add1 c I k y s H)].
      + intros k y s H. thr k i; [discriminate|exact (i_add2 c I k y s H)].
      + intros k s H. thr k i; [discriminate|exact (i_addu c I k s H)].
      + intros k ks s H. thr k i; [discriminate|exact (i_get2 c I k ks s H)].
      + intros k l s H. thr k i; [discriminate|exact (i_getu c I k l s H)].
      + exact (i_q c I).
      + exact (i_legal c I).
      + intros k. pose proof (i_outs c I k) as O. thr k i; [rewrite Ht in O; exact O|exact O].
    - (* Lock *)
      specialize (G Hadd).
      assert (Hnw : no_writer c) by (intros a; exact (proj1 (G a))).
      constructor; cbn [th shq outs hist absq added].
      + intros a b Hab Ha. thr a i.
        * thr b i; [congruence|exact (G b)].
        * rewrite (proj1 (G a)) in Ha. discriminate.
      + intros Hn. specialize (Hn i). cbn [th] in Hn. rewrite updf_same, hw_add1 in Hn. discriminate.
      + intros k y s H. thr k i; [exact (i_idle c I Hnw)|exact (i_add1 c I k y s H)].
      + intros k y s H. thr k i; [discriminate|exact (i_add2 c I k y s H)].
      + intros k s H. thr k i; [discriminate|exact (i_addu c I k s H)].
      + intros k ks s H. thr k i; [discriminate|exact (i_get2 c I k ks s H)].
      + intros k l s H. thr k i; [discriminate|exact (i_getu c I k l s H)].
      + exact (i_q c I).
      + exact (i_legal c I).
      + intros k. pose proof (i_outs c I k) as O. thr k i; [rewrite Ht in O; exact O|exact O].
    - (* evict *)
      assert (Hw : holdsW (th c i) = true) by (rewrite Ht; apply hw_add1).
      constructor; cbn [th shq outs hist absq added].
      + intros a b Hab Ha. thr a i.
        * thr b i; [congruence|exact (writer_excl c i b I n Hw)].
        * thr b i; [|exact (i_mutex c I a b Hab Ha)].
          destruct (i_mutex c I a i Hab Ha) as [C _]. congruence.
      + intros Hn. specialize (Hn i). cbn [th] in Hn. rewrite updf_same, hw_add2 in Hn. discriminate.
      + intros k y s H. thr k i; [discriminate|]. destruct (writer_excl c i k I n Hw) as [C _]. rewrite H, hw_add1 in C. discriminate.
      + intros k y s H. thr k i; [rewrite (i_add1 c I i x r Ht); reflexivity|].
        destruct (writer_excl c i k I n Hw) as [C _]. rewrite H, hw_add2 in C. discriminate.
      + intros k s H. thr k i; [discriminate|]. destruct (writer_excl c i k I n Hw) as [C _]. rewrite H, hw_addu in C. discriminate.
      + intros k ks s H. thr k i; [discriminate|exact (i_get2 c I k ks s H)].
      + intros k l s H. thr k i; [discriminate|exact (i_getu c I k l s H)].
      + exact (i_q c I).
      + exact (i_legal c I).
      + intros k. pose proof (i_outs c I k) as O. thr k i; [rewrite Ht in O; exact O|exact O].
    - (* insert: the Add commits *)
      assert (Hw : holdsW (th c i) = true) by (rewrite Ht; apply hw_add2).
      constructor; cbn [th shq outs hist absq added].
      + intros a b Hab Ha. thr a i.
        * thr b i; [congruence|exact (writer_excl c i b I n Hw)].
        * thr b i; [|exact (i_mutex c I a b Hab Ha)].
          destruct (i_mutex c I a i Hab Ha) as [C _]. congruence.
      + intros Hn. specialize (Hn i). cbn [th] in Hn. rewrite updf_same, hw_addu in Hn. discriminate.
      + intros k y s H. thr k i; [discriminate|]. destruct (writer_excl c i k I n Hw) as [C _]. rewrite H, hw_add1 in C. discriminate.
      + intros k y s H. thr k i; [discriminate|]. destruct (writer_excl c i k I n Hw) as [C _]. rewrite H, hw_add2 in C. discriminate.
      + intros k s H. thr k i; [rewrite (i_add2 c I i x r Ht); symmetry; apply qadd_split|].
        destruct (writer_excl c i k I n Hw) as [C _]. rewrite H, hw_addu in C. discriminate.
      + intros k ks s H. thr k i; [discriminate|]. destruct (writer_excl c i k I n Hw) as [_ C]. rewrite H, hr_get2 in C. discriminate.
      + intros k l s H. thr k i; [discriminate|]. destruct (writer_excl c i k I n Hw) as [_ C]. rewrite H, hr_getu in C. discriminate.
      + apply add_inv; [exact Hcap|exact (i_q c I)].
      + apply legal_snoc_add. exact (i_legal c I).
      + intros k. pose proof (i_outs c I k) as O. thr k i.
        * rewrite proj_snoc_same, O, Ht. cbn [pending]. rewrite app_nil_r. reflexivity.
        * rewrite proj_snoc_other by assumption. rewrite O. f_equal.
          destruct (writer_excl c i k I n Hw) as [C1 C2]. apply pending_free; assumption.
    - (* Unlock, return *)
      constructor; cbn [th shq outs hist absq added].
      + intros a b Hab Ha. thr a i; [rewrite hw_false in Ha by exact Logic.I; discriminate|].
        thr b i; [split; [apply hw_false|apply hr_false]; exact Logic.I|]. exact (i_mutex c I a b Hab Ha).
      + intros _. exact (i_addu c I i r Ht).
      + intros k y s H. thr k i; [discriminate|exact (i_add1 c I k y s H)].
      + intros k y s H. thr k i; [discriminate|exact (i_add2 c I k y s H)].
      + intros k s H. thr k i; [discriminate|exact (i_addu c I k s H)].
      + intros k ks s H. thr k i; [discriminate|exact (i_get2 c I k ks s H)].
      + intros k l s H. thr k i; [discriminate|exact (i_getu c I k l s H)].
      + exact (i_q c I).
      + exact (i_legal c I).
      + intros k. pose proof (i_outs c I k) as O. thr k i; [rewrite Ht in O; cbn [pending] in *; rewrite app_nil_r; exact O|exact O].
    - (* call GetMessages *)
      constructor; cbn [th shq outs hist absq added].
      + intros a b Hab Ha. thr a i; [rewrite hw_false in Ha by exact Logic.I; discriminate|].
        thr b i; [split; [apply hw_false|apply hr_false]; exact Logic.I|]. exact (i_mutex c I a b Hab Ha).
      + intros Hn. apply (i_idle c I). intros a. specialize (Hn a). cbn [th] in Hn. thr a i; [rewrite Ht; apply hw_false; exact Logic.I|exact Hn].
      + intros k y s H. thr k i; [discriminate|exact (i_add1 c I k y s H)].
      + intros k y s H. thr k i; [discriminate|exact (i_add2 c I k y s H)].
      + intros k s H. thr k i; [discriminate|exact (i_addu c I k s H)].
      + intros k ks s H. thr k i; [discriminate|exact (i_get2 c I k ks s H)].
      + intros k l s H. thr k i; [discriminate|exact (i_getu c I k l s H)].
      + exact (i_q c I).
      + exact (i_legal c I).
      + intros k. pose proof (i_outs c I k) as O. thr k i; [rewrite Ht in O; exact O|exact O].
    - (* RLock *)
      specialize (G Hget).
      constructor; cbn [th shq outs hist absq added].
      + intros a b Hab Ha. thr a i; [rewrite hw_false in Ha by exact Logic.I; discriminate|].
        rewrite (G a) in Ha. discriminate.
      + intros _. exact (i_idle c I G).
      + intros k y s H. thr k i; [discriminate|exact (i_add1 c I k y s H)].
      + intros k y s H. thr k i; [discriminate|exact (i_add2 c I k y s H)].
      + intros k s H. thr k i; [discriminate|exact (i_addu c I k s H)].
      + intros k ks s H. thr k i; [discriminate|exact (i_get2 c I k ks s H)].
      + intros k l s H. thr k i; [discriminate|exact (i_getu c I k l s H)].
      + exact (i_q c I).
      + exact (i_legal c I).
      + intros k. pose proof (i_outs c I k) as O. thr k i; [rewrite Ht in O; exact O|exact O].
    - (* read the keys: the GetMessages commits *)
      assert (Hr : holdsR (th c i) = true) by (rewrite Ht; apply hr_get1).
      pose proof (reader_no_writer c i I Hr) as Hnw.
      constructor; cbn [th shq outs hist absq added].
      + intros a b Hab Ha. thr a i; [rewrite hw_false in Ha by exact Logic.I; discriminate|].
        rewrite (Hnw a) in Ha. discriminate.
      + intros _. exact (i_idle c I Hnw).
      + intros k y s H. thr k i; [discriminate|exact (i_add1 c I k y s H)].
      + intros k y s H. thr k i; [discriminate|exact (i_add2 c I k y s H)].
      + intros k s H. thr k i; [discriminate|exact (i_addu c I k s H)].
      + intros k ks s H. thr k i; [injection H as <- _; rewrite (i_idle c I Hnw); reflexivity|exact (i_get2 c I k ks s H)].
      + intros k l s H. thr k i; [discriminate|exact (i_getu c I k l s H)].
      + exact (i_q c I).
      + apply legal_snoc_get. exact (i_legal c I).
      + intros k. pose proof (i_outs c I k) as O. thr k i.
        * rewrite proj_snoc_same, O, Ht. cbn [pending]. rewrite app_nil_r. reflexivity.
        * rewrite proj_snoc_other by assumption. exact O.
    - (* collect the items *)
      assert (Hr : holdsR (th c i) = true) by (rewrite Ht; apply hr_get2).
      pose proof (reader_no_writer c i I Hr) as Hnw.
      constructor; cbn [th shq outs hist absq added].
      + intros a b Hab Ha. thr a i; [rewrite hw_false in Ha by exact Logic.I; discriminate|].
        rewrite (Hnw a) in Ha. discriminate.
      + intros _. exact (i_idle c I Hnw).
      + intros k y s H. thr k i; [discriminate|exact (i_add1 c I k y s H)].
      + intros k y s H. thr k i; [discriminate|exact (i_add2 c I k y s H)].
      + intros k s H. thr k i; [discriminate|exact (i_addu c I k s H)].
      + intros k ks' s H. thr k i; [discriminate|exact (i_get2 c I k ks' s H)].
      + intros k l s H. thr k i; [|exact (i_getu c I k l s H)].
        injection H as <- _. rewrite (i_idle c I Hnw), (i_get2 c I i ks r Ht).
        exact (collect_keys cap (added c) (absq c) (i_q c I)).
      + exact (i_q c I).
      + exact (i_legal c I).
      + intros k. pose proof (i_outs c I k) as O. thr k i; [rewrite Ht in O; exact O|exact O].
    - (* RUnlock, return *)
      assert (Hr : holdsR (th c i) = true) by (rewrite Ht; apply hr_getu).
      pose proof (reader_no_writer c i I Hr) as Hnw.
      constructor; cbn [th shq outs hist absq added].
      + intros a b Hab Ha. thr a i; [rewrite hw_false in Ha by exact Logic.I; discriminate|].
        rewrite (Hnw a) in Ha. discriminate.
      + intros _. exact (i_idle c I Hnw).
      + intros k y s H. thr k i; [discriminate|exact (i_add1 c I k y s H)].
      + intros k y s H. thr k i; [discriminate|exact (i_add2 c I k y s H)].
      + intros k s H. thr k i; [discriminate|exact (i_addu c I k s H)].
      + intros k ks s H. thr k i; [discriminate|exact (i_get2 c I k ks s H)].
      + intros k l' s H. thr k i; [discriminate|exact (i_getu c I k l' s H)].
      + exact (i_q c I).
      + exact (i_legal c I).
      + intros k. pose proof (i_outs c I k) as O. thr k i; [|exact O].
        rewrite Ht in O. cbn [pending] in *. rewrite app_nil_r, (i_getu c I i l r Ht). exact O.
  Qed.

  Theorem inv_reach prog c : reach (init prog) c -> Inv c.
  Proof. induction 1 as [|c c' _ IH S]; [apply inv_init|exact (inv_step c c' IH S)]. Qed.

  (* ---------- what every returned snapshot is ---------- *)
  Definition adds_of (h : list (nat * op * res)) : list A :=
    flat_map (fun e => match snd (fst e) with OAdd x => [x] | OGet => [] end) h.

  Lemma adds_hist prog c : reach (init prog) c -> adds_of (hist c) = added c.
  Proof.
    induction 1 as [|c c' _ IH S]; [reflexivity|].
    destruct S; cbn [hist added]; try exact IH.
    - unfold adds_of in *. rewrite flat_map_app, IH. reflexivity.
    - unfold adds_of in *. rewrite flat_map_app, IH. cbn. apply app_nil_r.
  Qed.

  Lemma legal_state : forall h q qf, legal q h qf -> qf = fold_left qadd (adds_of h) q.
  Proof.
    induction h as [|[[j o] r] h IH]; intros q qf H; cbn [legal] in H; [exact H|].
    destruct o as [x|]; destruct r as [|l]; try contradiction.
    - cbn [adds_of flat_map fst snd app fold_left]. apply IH. exact H.
    - destruct H as [_ H]. cbn [adds_of flat_map fst snd app]. apply IH. exact H.
  Qed.

  Lemma legal_get_at : forall h1 q qf j l h2, legal q (h1 ++ (j, OGet, RGet l) :: h2) qf ->
    l = snapshot (fold_left qadd (adds_of h1) q).
  Proof.
    induction h1 as [|[[k o] r] h1 IH]; intros q qf j l h2 H; cbn [app legal] in H.
    - destruct H as [H _]. exact H.
    - destruct o as [x|]; destruct r as [|l']; try contradiction.
      + cbn [adds_of flat_map fst snd app fold_left]. exact (IH _ _ _ _ _ H).
      + destruct H as [_ H]. cbn [adds_of flat_map fst snd app]. exact (IH _ _ _ _ _ H).
  Qed.

  Lemma legal_no_add_get : forall h q qf j x l, legal q h qf -> ~ In (j, OAdd x, RGet l) h.
  Proof.
    induction h as [|[[k o] r] h IH]; intros q qf j x l H Hin; [exact Hin|].
    cbn [legal] in H. destruct Hin as [E|Hin].
    - injection E as -> -> ->. exact H.
    - destruct o as [y|]; destruct r as [|l']; try contradiction.
      + exact (IH _ _ _ _ _ H Hin).
      + destruct H as [_ H]. exact (IH _ _ _ _ _ H Hin).
  Qed.

  Lemma in_proj i r h : In r (proj i h) -> exists o, In (i, o, r) h.
  Proof.
    unfold proj. rewrite in_flat_map. intros ([[k o] r'] & Hin & Hr). cbn [fst snd] in Hr.
    destruct (Nat.eqb_spec k i) as [->|_]; [|destruct Hr].
    destruct Hr as [<-|[]]. exists o. exact Hin.
  Qed.

  (* Every snapshot that any thread has ever been given, under any schedule, is the last
     min(N, k) of the first k additions in commit order, for some k: a contiguous run of the
     addition order.  [added c] is the commit order of all additions so far. *)
  Theorem snapshots_are_last_n prog c : reach (init prog) c ->
    forall i l, In (RGet l) (outs c i) ->
    exists pre suf, added c = pre ++ suf /\ l = lastn (Nat.min cap (length pre)) pre.
  Proof.
    intros Hr i l Hin. pose proof (inv_reach prog c Hr) as I.
    assert (Hp : In (RGet l) (proj i (hist c))) by (rewrite (i_outs c I i); apply in_or_app; left; exact Hin).
    destruct (in_proj _ _ _ Hp) as [o Ho].
    destruct o as [x|]; [exfalso; exact (legal_no_add_get _ _ _ _ _ _ (i_legal c I) Ho)|].
    apply in_split in Ho. destruct Ho as (h1 & h2 & Hh).
    pose proof (i_legal c I) as Lg. rewrite Hh in Lg.
    pose proof (legal_get_at _ _ _ _ _ _ Lg) as Hl.
    exists (adds_of h1), (adds_of h2). split.
    - rewrite <- (adds_hist prog c Hr), Hh. unfold adds_of. rewrite flat_map_app. reflexivity.
    - rewrite Hl. exact (proj1 (queue_last_n A cap (adds_of h1) Hcap)).
  Qed.

  (* the history is a legal sequential history and each thread's results are a prefix of its
     operations' results in it (the rest is the at most one committed, not yet returned operation) *)
  Theorem linearizable prog c : reach (init prog) c ->
    legal (new_queue cap) (hist c) (absq c) /\
    (forall i, exists p, proj i (hist c) = outs c i ++ p /\ (length p <= 1)%nat) /\
    (length (q_items (absq c)) <= cap)%nat /\
    ((forall i, holdsW (th c i) = false) -> shq c = absq c).
  Proof.
    intros Hr. pose proof (inv_reach prog c Hr) as I. split; [exact (i_legal c I)|]. split; [|split].
    - intros i. exists (pending (th c i) (absq c)). split; [exact (i_outs c I i)|]. destruct (th c i); cbn; lia.
    - pose proof (legal_state _ _ _ (i_legal c I)) as E. rewrite E.
      exact (proj2 (queue_last_n A cap (adds_of (hist c)) Hcap)).
    - exact (i_idle c I).
  Qed.

  (* ---------- no deadlock ---------- *)
  Local Open Scope nat_scope.
  (* n goroutines use the queue (all the others have nothing to do).  In every reachable configuration
     either every goroutine has finished its program or some goroutine can take a step: the locking
     discipline cannot deadlock - also under Go's rule that a waiting writer keeps new readers out. *)
  Variable n : nat.

  Definition finished (c : conf) : Prop := forall i, th c i = TIdle [].
  Definition quiet_above (c : conf) : Prop := forall i, n <= i -> th c i = TIdle [].

  Lemma quiet_step c c' : quiet_above c -> step c c' -> quiet_above c'.
  Proof.
    intros Q S i Hi. destruct S as [c j x r Ht|c j x r Ht G|c j x r Ht|c j x r Ht|c j r Ht|c j r Ht|c j r Ht G G2|c j r Ht|c j ks r Ht|c j l r Ht];
      cbn [th]; (destruct (Nat.eq_dec i j) as [->|Hne]; [rewrite (Q j Hi) in Ht; discriminate|rewrite updf_other by exact Hne; exact (Q i Hi)]).
  Qed.

  Lemma quiet_reach prog c : (forall i, n <= i -> prog i = []) -> reach (init prog) c -> quiet_above c.
  Proof.
    intros Hp. induction 1 as [|c c' _ IH S]; [intros i Hi; cbn; rewrite (Hp i Hi); reflexivity|exact (quiet_step c c' IH S)].
  Qed.

  (* search among the first n goroutines *)
  Fixpoint find_thread (p : tstate -> bool) (f : nat -> tstate) (k : nat) : option nat :=
    match k with 0 => None | S k' => if p (f k') then Some k' else find_thread p f k' end.
  Lemma find_some p f k i : find_thread p f k = Some i -> i < k /\ p (f i) = true.
  Proof.
    induction k as [|k IH]; cbn; [discriminate|]. destruct (p (f k)) eqn:E.
    - intros H. injection H as <-. split; [lia|exact E].
    - intros H. destruct (IH H). split; [lia|assumption].
  Qed.
  Lemma find_none p f k : find_thread p f k = None -> forall i, i < k -> p (f i) = false.
  Proof.
    induction k as [|k IH]; cbn; intros H i Hi; [lia|]. destruct (p (f k)) eqn:E; [discriminate|].
    destruct (Nat.eq_dec i k) as [->|Hne]; [exact E|apply IH; [exact H|lia]].
  Qed.

  Definition is_wantW (t : tstate) : bool := match t with TWantW _ _ => true | _ => false end.
  Definition is_wantR (t : tstate) : bool := match t with TWantR _ => true | _ => false end.
  Definition is_call (t : tstate) : bool := match t with TIdle (_ :: _) => true | _ => false end.

  Theorem no_deadlock c : quiet_above c -> (exists i, th c i <> TIdle []) -> exists c', step c c'.
  Proof.
    intros Q [i0 Hi0].
    (* somebody holds the write lock: it can go on *)
    destruct (find_thread holdsW (th c) n) as [i|] eqn:FW.
    { destruct (find_some _ _ _ _ FW) as [_ Hw]. apply holdsW_true in Hw.
      destruct Hw as [(x & r & E)|[(x & r & E)|(r & E)]]; eexists;
        [exact (s_evict c i x r E)|exact (s_insert c i x r E)|exact (s_unlock c i r E)]. }
    pose proof (find_none _ _ _ FW) as NW.
    assert (NoW : forall j, holdsW (th c j) = false).
    { intros j. destruct (Nat.lt_ge_cases j n) as [Hj|Hj]; [exact (NW j Hj)|]. rewrite (Q j Hj). apply hw_false. exact Logic.I. }
    (* somebody holds the read lock: it can go on *)
    destruct (find_thread holdsR (th c) n) as [i|] eqn:FR.
    { destruct (find_some _ _ _ _ FR) as [_ Hr]. apply holdsR_true in Hr.
      destruct Hr as [(r & E)|[(ks & r & E)|(l & r & E)]]; eexists;
        [exact (s_keys c i r E)|exact (s_collect c i ks r E)|exact (s_runlock c i l r E)]. }
    pose proof (find_none _ _ _ FR) as NR.
    assert (NoR : forall j, holdsR (th c j) = false).
    { intros j. destruct (Nat.lt_ge_cases j n) as [Hj|Hj]; [exact (NR j Hj)|]. rewrite (Q j Hj). apply hr_false. exact Logic.I. }
    (* nobody holds the lock: a waiting writer gets it *)
    destruct (find_thread is_wantW (th c) n) as [i|] eqn:FWW.
    { destruct (find_some _ _ _ _ FWW) as [_ Hw]. destruct (th c i) as [| x r | | | | | | |] eqn:E; try discriminate.
      eexists. apply (s_lock c i x r E). intros _ j. split; [exact (NoW j)|exact (NoR j)]. }
    pose proof (find_none _ _ _ FWW) as NWW.
    assert (NoWW : forall j x r, th c j <> TWantW x r).
    { intros j x r E. destruct (Nat.lt_ge_cases j n) as [Hj|Hj].
      - pose proof (NWW j Hj) as C. rewrite E in C. discriminate.
      - rewrite (Q j Hj) in E. discriminate. }
    (* no writer waits: a waiting reader gets the lock *)
    destruct (find_thread is_wantR (th c) n) as [i|] eqn:FWR.
    { destruct (find_some _ _ _ _ FWR) as [_ Hw]. destruct (th c i) as [| | | | | r | | |] eqn:E; try discriminate.
      eexists. apply (s_rlock c i r E); [intros _; exact NoW|intros _ _; exact NoWW]. }
    pose proof (find_none _ _ _ FWR) as NWR.
    (* everybody is between operations: the one that has not finished calls its next operation *)
    assert (Hi0n : i0 < n) by (destruct (Nat.lt_ge_cases i0 n) as [H|H]; [exact H|exfalso; exact (Hi0 (Q i0 H))]).
    pose proof (NW i0 Hi0n) as A1. pose proof (NR i0 Hi0n) as A2. pose proof (NWW i0 Hi0n) as A3. pose proof (NWR i0 Hi0n) as A4.
    destruct (th c i0) as [todo|x r|x r|x r|r|r|r|ks r|l r] eqn:E.
    - destruct todo as [|o todo]; [exfalso; exact (Hi0 eq_refl)|]. destruct o as [x|]; eexists;
        [exact (s_call_add c i0 x todo E)|exact (s_call_get c i0 todo E)].
    - discriminate.
    - rewrite hw_add1 in A1. discriminate.
    - rewrite hw_add2 in A1. discriminate.
    - rewrite hw_addu in A1. discriminate.
    - discriminate.
    - rewrite hr_get1 in A2. discriminate.
    - rewrite hr_get2 in A2. discriminate.
    - rewrite hr_getu in A2. discriminate.
  Qed.

End CQ.

(* ---------- without the write lock the capacity is exceeded ---------- *)
(* Three goroutines on a queue of capacity 1 when Add does not take the lock (add_locked = false):
   one Add fills the queue, two more both run their eviction before either inserts, and the shared
   queue ends up holding two messages. *)
Section Witness.
  Definition wprog (i : nat) : list (op nat) :=
    match i with O => [OAdd nat 10%nat] | S O => [OAdd nat 11%nat] | S (S O) => [OAdd nat 12%nat] | _ => [] end.

  Lemma guard_off (c : conf nat) : false = true -> forall j, holdsW nat false (th nat c j) = false /\ holdsR nat true (th nat c j) = false.
  Proof. discriminate. Qed.

  Theorem unlocked_exceeds_capacity :
    exists c, reach nat false true false (init nat 1%nat wprog) c /\ (length (q_items (shq nat c)) > 1)%nat.
  Proof.
    pose proof (r_refl nat false true false (init nat 1%nat wprog)) as R.
    match type of R with reach _ _ _ _ _ ?c => pose proof (r_step nat false true false _ c _ R (s_call_add nat false true false c 2%nat _ _ eq_refl)) as R' end; clear R; rename R' into R; cbv beta iota delta [th shq outs hist absq added] in R.
    match type of R with reach _ _ _ _ _ ?c => pose proof (r_step nat false true false _ c _ R (s_lock nat false true false c 2%nat _ _ eq_refl (guard_off _))) as R' end; clear R; rename R' into R; cbv beta iota delta [th shq outs hist absq added] in R.
    match type of R with reach _ _ _ _ _ ?c => pose proof (r_step nat false true false _ c _ R (s_evict nat false true false c 2%nat _ _ eq_refl)) as R' end; clear R; rename R' into R; cbv beta iota delta [th shq outs hist absq added] in R.
    match type of R with reach _ _ _ _ _ ?c => pose proof (r_step nat false true false _ c _ R (s_insert nat false true false c 2%nat _ _ eq_refl)) as R' end; clear R; rename R' into R; cbv beta iota delta [th shq outs hist absq added] in R.
    match type of R with reach _ _ _ _ _ ?c => pose proof (r_step nat false true false _ c _ R (s_unlock nat false true false c 2%nat _ eq_refl)) as R' end; clear R; rename R' into R; cbv beta iota delta [th shq outs hist absq added] in R.
    match type of R with reach _ _ _ _ _ ?c => pose proof (r_step nat false true false _ c _ R (s_call_add nat false true false c 0%nat _ _ eq_refl)) as R' end; clear R; rename R' into R; cbv beta iota delta [th shq outs hist absq added] in R.
    match type of R with reach _ _ _ _ _ ?c => pose proof (r_step nat false true false _ c _ R (s_lock nat false true false c 0%nat _ _ eq_refl (guard_off _))) as R' end; clear R; rename R' into R; cbv beta iota delta [th shq outs hist absq added] in R.
    match type of R with reach _ _ _ _ _ ?c => pose proof (r_step nat false true false _ c _ R (s_evict nat false true false c 0%nat _ _ eq_refl)) as R' end; clear R; rename R' into R; cbv beta iota delta [th shq outs hist absq added] in R.
    match type of R with reach _ _ _ _ _ ?c => pose proof (r_step nat false true false _ c _ R (s_call_add nat false true false c 1%nat _ _ eq_refl)) as R' end; clear R; rename R' into R; cbv beta iota delta [th shq outs hist absq added] in R.
    match type of R with reach _ _ _ _ _ ?c => pose proof (r_step nat false true false _ c _ R (s_lock nat false true false c 1%nat _ _ eq_refl (guard_off _))) as R' end; clear R; rename R' into R; cbv beta iota delta [th shq outs hist absq added] in R.
    match type of R with reach _ _ _ _ _ ?c => pose proof (r_step nat false true false _ c _ R (s_evict nat false true false c 1%nat _ _ eq_refl)) as R' end; clear R; rename R' into R; cbv beta iota delta [th shq outs hist absq added] in R.
    match type of R with reach _ _ _ _ _ ?c => pose proof (r_step nat false true false _ c _ R (s_insert nat false true false c 0%nat _ _ eq_refl)) as R' end; clear R; rename R' into R; cbv beta iota delta [th shq outs hist absq added] in R.
    match type of R with reach _ _ _ _ _ ?c => pose proof (r_step nat false true false _ c _ R (s_insert nat false true false c 1%nat _ _ eq_refl)) as R' end; clear R; rename R' into R; cbv beta iota delta [th shq outs hist absq added] in R.
    eexists. split; [exact R|]. vm_compute. lia.
  Qed.
End Witness.

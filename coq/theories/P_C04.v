(* P_C04.v - the theorems of property C04 and nothing else: each is closed by [exact <lemma>]
   (or a one-line instantiation) and followed by Print Assumptions.  One file per property, importing only
   what that property's statements need, so that a change which breaks one property's proof leaves the
   others' theorems checkable. *)
From NTRIP Require Import Base Bits Frame FrameSpec Msm MsmSpec MsmRoundtrip.

(* ===================== C04 ===================== *)
(* For every well-formed abstract MSM4/MSM7 message m (any of the 14 types, any satellite,
   signal and cell masks with at most 64 cells, any in-range field values including the
   'invalid' markers, multiple-message flag as the property allows) and every number of zero
   padding bytes, the decoder applied to the frame the specification encoder wrote returns
   exactly the decoded view of m: every header field, the satellite, signal and cell tables
   implied by the masks, every satellite cell and every signal cell attached to the right
   satellite and signal id. The right-hand side does not mention [pad]: the result is the same
   however many padding bytes follow, and no well-formed message is rejected. *)
Theorem C04_roundtrip : forall m pad, wf_amsm m = true ->
  decode_msm (a_k7 m) (msm_frame m pad) = Ok (view m).
Proof. exact msm_roundtrip. Qed.
Print Assumptions C04_roundtrip.

(* Up to the 1023-byte payload limit that frame is a valid RTCM3 frame (C01's predicate). *)
Theorem C04_frame_valid : forall m pad, wf_amsm m = true -> (payload_bytes m + pad <= 1023)%nat ->
  valid_frame (msm_frame m pad).
Proof. exact msm_frame_valid. Qed.
Print Assumptions C04_frame_valid.

Example C04_example :
  let m := {| a_k7 := true; a_type := 1077%N; a_station := 5%N; a_ts := 432000000%N; a_multi := true; a_iods := 3%N;
              a_sess := 0%N; a_clk := 1%N; a_ext := 2%N; a_smooth := true; a_smint := 5%N;
              a_sats := [3; 17; 64]%N; a_sigs := [2; 32]%N;
              a_rows := [[true; false]; [false; false]; [true; true]];
              a_satdata := [(81%N, 3%N, 1000%N, (-8192)%Z); (255%N, 15%N, 0%N, 8191%Z); (70%N, 0%N, 512%N, (-1)%Z)];
              a_sigdata := [((-524288)%Z, 8388607%Z, 1023%N, true, 1023%N, (-16384)%Z);
                            (0%Z, 0%Z, 0%N, false, 0%N, 0%Z);
                            (12345%Z, (-8388608)%Z, 7%N, true, 300%N, 16383%Z)] |} in
  wf_amsm m = true /\ decode_msm true (msm_frame m 3) = Ok (view m) /\
  map (map g_id) (m_sigs (view m)) = [[2]; []; [2; 32]]%N.
Proof. cbv zeta. split; [vm_compute; reflexivity|]. split; vm_compute; reflexivity. Qed.


(* NetLocal.v - a process's own state and the events it has emitted change only by its own steps:
   an invariant of the local transition system of one process (whatever it receives) holds in every
   reachable configuration of the network. *)
From Coq Require Import List Arith Lia Bool.
Import ListNotations.
From NTRIP Require Import Net.
Arguments procs {St V Ev}. Arguments chans {St V Ev}. Arguments outs {St V Ev}.

Section Local.
  Variables St V Ev : Type.
  Variable prog : St -> op St V Ev.
  Variables sender receiver : nat -> nat.
  Variable dSt : St.
  Notation config := (config St V Ev).
  Notation pstep := (pstep St V Ev prog sender receiver dSt).
  Notation nstep := (nstep St V Ev prog sender receiver dSt).

  Definition local_step (s : St) (o : list Ev) (s' : St) (o' : list Ev) : Prop :=
    match prog s with
    | OSend _ _ _ _ _ k => s' = k /\ o' = o
    | ORecv _ _ _ _ k => (exists v, s' = k v) /\ o' = o
    | OClose _ _ _ _ k => s' = k /\ o' = o
    | OEmit _ _ _ e k => s' = k /\ o' = o ++ [e]
    | OAwait _ _ _ _ k => s' = k /\ o' = o
    | OHalt _ _ _ => False
    end.

  Lemma step_local c q c' p : pstep c q = Some c' -> length (outs c) = length (procs c) ->
    length (outs c') = length (procs c') /\ length (procs c') = length (procs c) /\
    (if Nat.eqb q p then local_step (nth p (procs c) dSt) (nth p (outs c) []) (nth p (procs c') dSt) (nth p (outs c') [])
     else nth p (procs c') dSt = nth p (procs c) dSt /\ nth p (outs c') [] = nth p (outs c) []).
  Proof.
    intros H Hl. unfold Net.pstep in H.
    destruct (q <? length (procs c)) eqn:L; cbn [negb] in H; [|discriminate]. apply Nat.ltb_lt in L.
    unfold local_step.
    destruct (Nat.eqb_spec q p) as [<-|Hne].
    - destruct (prog (nth q (procs c) dSt)) as [ch v k|ch k|ch k|e k|ch k|].
      + destruct (_ && _ && _ && _); [|discriminate]. injection H as <-. cbn [procs outs].
        rewrite upd_length, nth_upd_eq by exact L. repeat split; auto.
      + destruct (_ && _); [|discriminate].
        destruct (buf V (nth ch (chans c) (dchan V))) as [|v rest].
        * destruct (closed V _); [|discriminate]. injection H as <-. cbn [procs outs].
          rewrite upd_length, nth_upd_eq by exact L. repeat split; auto. exists None. reflexivity.
        * injection H as <-. cbn [procs outs]. rewrite upd_length, nth_upd_eq by exact L.
          repeat split; auto. exists (Some v). reflexivity.
      + destruct (_ && _ && _); [|discriminate]. injection H as <-. cbn [procs outs].
        rewrite upd_length, nth_upd_eq by exact L. repeat split; auto.
      + injection H as <-. cbn [procs outs]. rewrite !upd_length, !nth_upd_eq by (try rewrite Hl; exact L).
        repeat split; auto.
      + destruct (_ && _); [|discriminate]. destruct (buf V _); [|discriminate]. injection H as <-. cbn [procs outs].
        rewrite upd_length, nth_upd_eq by exact L. repeat split; auto.
      + discriminate.
    - destruct (prog (nth q (procs c) dSt)) as [ch v k|ch k|ch k|e k|ch k|].
      + destruct (_ && _ && _ && _); [|discriminate]. injection H as <-. cbn [procs outs].
        rewrite upd_length, nth_upd_neq by exact Hne. repeat split; auto.
      + destruct (_ && _); [|discriminate].
        destruct (buf V (nth ch (chans c) (dchan V))) as [|v rest].
        * destruct (closed V _); [|discriminate]. injection H as <-. cbn [procs outs].
          rewrite upd_length, nth_upd_neq by exact Hne. repeat split; auto.
        * injection H as <-. cbn [procs outs]. rewrite upd_length, nth_upd_neq by exact Hne. repeat split; auto.
      + destruct (_ && _ && _); [|discriminate]. injection H as <-. cbn [procs outs].
        rewrite upd_length, nth_upd_neq by exact Hne. repeat split; auto.
      + injection H as <-. cbn [procs outs]. rewrite !upd_length, !nth_upd_neq by exact Hne. repeat split; auto.
      + destruct (_ && _); [|discriminate]. destruct (buf V _); [|discriminate]. injection H as <-. cbn [procs outs].
        rewrite upd_length, nth_upd_neq by exact Hne. repeat split; auto.
      + discriminate.
  Qed.

  Theorem local_invariant (p : nat) (P : St -> list Ev -> Prop) :
    (forall s o s' o', P s o -> local_step s o s' o' -> P s' o') ->
    forall n c0 c, steps config nstep n c0 c -> length (outs c0) = length (procs c0) ->
    P (nth p (procs c0) dSt) (nth p (outs c0) []) -> P (nth p (procs c) dSt) (nth p (outs c) []).
  Proof.
    intros Hpres. induction 1 as [c|n a b c [q Hq] _ IH]; intros Hl HP; [exact HP|].
    destruct (step_local a q b p Hq Hl) as (Hl' & _ & Hcase). apply IH; [exact Hl'|].
    destruct (Nat.eqb q p).
    - exact (Hpres _ _ _ _ HP Hcase).
    - destruct Hcase as [-> ->]. exact HP.
  Qed.
End Local.

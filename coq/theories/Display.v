(* Display.v - the lazily analysed Message and its String method (handler.go): dispatch on the
   message type to the decoders of the model, caching of the decoded form in Readable, the
   error short-cuts.  The text layout of the individual parts (titles, hex dump, the decoded
   MSM / 1005 / 1006 tables) is abstract: any total rendering functions.

   C07 (display): String returns normally for every message, whatever its type and bytes.
   C15 (display): displaying a message again gives the same text, leaves the message as the
   first display left it, and never changes its raw bytes or type. *)
From Coq Require Import List Arith NArith ZArith Lia Bool.
Import ListNotations.
From NTRIPGen Require Import GenConsts.
From NTRIP Require Import Base Bits Classify Msm MsmProofs Station StationProofs.

Section Display.
  Variable L : Type.                                   (* a line / piece of text *)
  Variable title_lines : Z -> list L.                  (* "Message type N, title" and comment *)
  Variable frame_lines : list N -> list L.             (* "Frame length N bytes:" and the hex dump *)
  Variable err_lines : err -> list L.                  (* the text of a decoder's error *)
  Variable other_lines : Z -> list L.                  (* "message type N currently cannot be displayed", 1230 text *)
  Variable station_lines : bool -> station -> list L.  (* type1005/1006 Message.String *)
  Variable msm_lines : bool -> msm -> list L.          (* msm4/msm7 Message.String *)

  Inductive readable := RStr (ty : Z) | RStation (k1006 : bool) (s : station) | RMsm (k7 : bool) (m : msm).

  Record dmsg := mkD {
    d_type : Z; d_raw : list N; d_err : option (list L); d_times : list L; d_debug : bool;
    d_read : option readable }.

  Definition set_read (m : dmsg) (r : readable) : dmsg :=
    mkD (d_type m) (d_raw m) (d_err m) (d_times m) (d_debug m) (Some r).
  Definition set_err (m : dmsg) (e : err) : dmsg :=
    mkD (d_type m) (d_raw m) (Some (err_lines e)) (d_times m) (d_debug m) (d_read m).

  (* Analyse *)
  Definition analyse (m : dmsg) : res dmsg :=
    let from {A} (r : res A) (k : A -> readable) : res dmsg :=
      match r with Ok x => Ok (set_read m (k x)) | Err e => Ok (set_err m e) | Panic => Panic end in
    if msm4b (d_type m) then from (decode_msm4 (d_raw m)) (RMsm false)
    else if msm7b (d_type m) then from (decode_msm7 (d_raw m)) (RMsm true)
    else if (d_type m =? 1005)%Z then from (decode1005 (d_raw m)) (RStation false)
    else if (d_type m =? 1006)%Z then from (decode1006 (d_raw m)) (RStation true)
    else Ok (set_read m (RStr (d_type m))).

  Definition body (m : dmsg) : list L :=
    match d_err m with
    | Some e => e
    | None =>
      if (d_type m =? NonRTCMMessage)%Z then []
      else match d_read m with
           | Some (RStr ty) => other_lines ty
           | Some (RStation k s) => station_lines k s
           | Some (RMsm k x) => msm_lines k x
           | None => []
           end
    end.

  (* String: analyse if Readable is nil, then lay the parts out according to the log level *)
  Definition string (m : dmsg) : res (list L * dmsg) :=
    m1 <- (match d_read m with None => analyse m | Some _ => Ok m end) ;;
    let times := if msmb (d_type m1) then d_times m1 else [] in
    Ok ((if d_debug m1
         then title_lines (d_type m1) ++ times ++ frame_lines (d_raw m1) ++ body m1
         else frame_lines (d_raw m1) ++ title_lines (d_type m1) ++ times ++ body m1), m1).

  Lemma analyse_no_panic m : analyse m <> Panic.
  Proof.
    unfold analyse.
    destruct (msm4b (d_type m)).
    { pose proof (decode_msm4_no_panic (d_raw m)) as H. destruct (decode_msm4 (d_raw m)); [discriminate|discriminate|intros _; exact (H eq_refl)]. }
    destruct (msm7b (d_type m)).
    { pose proof (decode_msm7_no_panic (d_raw m)) as H. destruct (decode_msm7 (d_raw m)); [discriminate|discriminate|intros _; exact (H eq_refl)]. }
    destruct (d_type m =? 1005)%Z.
    { destruct (decode1005_total (d_raw m)) as [(x & -> & _)|[->| ->]]; discriminate. }
    destruct (d_type m =? 1006)%Z.
    { destruct (decode1006_total (d_raw m)) as [(x & -> & _)|[->| ->]]; discriminate. }
    discriminate.
  Qed.

  (* C07, display: String returns normally, with text, for every message *)
  Theorem string_total m : exists t m1, string m = Ok (t, m1).
  Proof.
    unfold string. destruct (d_read m) as [r|].
    - cbn [bind]. eexists. eexists. reflexivity.
    - pose proof (analyse_no_panic m) as H.
      assert (E : forall e, analyse m <> Err e).
      { intros e. unfold analyse.
        destruct (msm4b (d_type m)); [destruct (decode_msm4 (d_raw m)); discriminate|].
        destruct (msm7b (d_type m)); [destruct (decode_msm7 (d_raw m)); discriminate|].
        destruct (d_type m =? 1005)%Z; [destruct (decode1005 (d_raw m)); discriminate|].
        destruct (d_type m =? 1006)%Z; [destruct (decode1006 (d_raw m)); discriminate|].
        discriminate. }
      destruct (analyse m) as [m1|e|]; [|exfalso; exact (E e eq_refl)|contradiction].
      cbn [bind]. eexists. eexists. reflexivity.
  Qed.

  (* analysis touches neither the type nor the raw bytes, the times or the level *)
  Lemma analyse_keeps m m1 : analyse m = Ok m1 ->
    d_type m1 = d_type m /\ d_raw m1 = d_raw m /\ d_times m1 = d_times m /\ d_debug m1 = d_debug m.
  Proof.
    unfold analyse. intros H.
    destruct (msm4b (d_type m)); [destruct (decode_msm4 (d_raw m)); try discriminate; injection H as <-; repeat split|].
    destruct (msm7b (d_type m)); [destruct (decode_msm7 (d_raw m)); try discriminate; injection H as <-; repeat split|].
    destruct (d_type m =? 1005)%Z; [destruct (decode1005 (d_raw m)); try discriminate; injection H as <-; repeat split|].
    destruct (d_type m =? 1006)%Z; [destruct (decode1006 (d_raw m)); try discriminate; injection H as <-; repeat split|].
    injection H as <-. repeat split.
  Qed.

  (* analysing again what an analysis left without a Readable (a decoder error) changes nothing *)
  Lemma analyse_again m m1 : d_read m = None -> analyse m = Ok m1 -> d_read m1 = None -> analyse m1 = Ok m1.
  Proof.
    intros Hn H H1. unfold analyse in *.
    destruct (msm4b (d_type m)) eqn:E4.
    { destruct (decode_msm4 (d_raw m)) eqn:D; try discriminate; injection H as <-; cbn [d_read set_read set_err] in *; try discriminate.
      cbn [d_type d_raw set_err]. rewrite E4, D. reflexivity. }
    destruct (msm7b (d_type m)) eqn:E7.
    { destruct (decode_msm7 (d_raw m)) eqn:D; try discriminate; injection H as <-; cbn [d_read set_read set_err] in *; try discriminate.
      cbn [d_type d_raw set_err]. rewrite E4, E7, D. reflexivity. }
    destruct (d_type m =? 1005)%Z eqn:E5.
    { destruct (decode1005 (d_raw m)) eqn:D; try discriminate; injection H as <-; cbn [d_read set_read set_err] in *; try discriminate.
      cbn [d_type d_raw set_err]. rewrite E4, E7, E5, D. reflexivity. }
    destruct (d_type m =? 1006)%Z eqn:E6.
    { destruct (decode1006 (d_raw m)) eqn:D; try discriminate; injection H as <-; cbn [d_read set_read set_err] in *; try discriminate.
      cbn [d_type d_raw set_err]. rewrite E4, E7, E5, E6, D. reflexivity. }
    injection H as <-. cbn [d_read set_read] in H1. discriminate.
  Qed.

  (* C15, display: a second display gives the same text and the same message; raw bytes and type never change *)
  Theorem string_idempotent m t m1 : string m = Ok (t, m1) ->
    string m1 = Ok (t, m1) /\ d_raw m1 = d_raw m /\ d_type m1 = d_type m.
  Proof.
    unfold string. intros H.
    destruct (d_read m) as [r|] eqn:R.
    - cbn [bind] in H. injection H as <- <-. rewrite R. cbn [bind]. repeat split.
    - destruct (analyse m) as [m2|e|] eqn:A; cbn [bind] in H; try discriminate.
      injection H as <- <-.
      destruct (analyse_keeps m m2 A) as (K1 & K2 & _).
      split; [|split; assumption].
      destruct (d_read m2) as [r|] eqn:R2; [reflexivity|].
      rewrite (analyse_again m m2 R A R2). reflexivity.
  Qed.
End Display.

(* Queue.v - model of the proxy's CircularQueue (a Go map keyed by an increasing index,
   read back in ascending key order) and its specification: the last N additions. *)
From NTRIP Require Import Base.
Open Scope Z_scope.

Section Q.
  Variable A : Type.

  Record queue := mkQ { q_max : nat; q_items : list (Z * A); q_next : Z }.

  Definition new_queue (n : nat) : queue := {| q_max := n; q_items := []; q_next := 0 |}.

  (* sort.Ints on the keys: insertion sort of the (key, value) pairs by key *)
  Fixpoint insert_sorted (kv : Z * A) (l : list (Z * A)) : list (Z * A) :=
    match l with
    | [] => [kv]
    | x :: r => if fst kv <=? fst x then kv :: l else x :: insert_sorted kv r
    end.
  Definition sort_items (l : list (Z * A)) : list (Z * A) := fold_right insert_sorted [] l.

  Definition delete_key (k : Z) (l : list (Z * A)) : list (Z * A) :=
    filter (fun kv => negb (fst kv =? k)) l.

  (* for _, key := range keys { if len(items) >= max { delete(items, key) } } *)
  Fixpoint evict (keys : list Z) (max : nat) (l : list (Z * A)) : list (Z * A) :=
    match keys with
    | [] => l
    | k :: ks => if (max <=? length l)%nat then evict ks max (delete_key k l) else evict ks max l
    end.

  (* Add *)
  Definition qadd (q : queue) (x : A) : queue :=
    let items := if (q_max q <=? length (q_items q))%nat
                 then evict (map fst (sort_items (q_items q))) (q_max q) (q_items q)
                 else q_items q in
    {| q_max := q_max q; q_items := items ++ [(q_next q, x)]; q_next := q_next q + 1 |}.

  (* GetMessages *)
  Definition snapshot (q : queue) : list A := map snd (sort_items (q_items q)).

  (* specification: the last n elements of a list *)
  Definition lastn (n : nat) (l : list A) : list A := skipn (length l - n) l.
End Q.
Arguments mkQ {A}. Arguments q_max {A}. Arguments q_items {A}. Arguments q_next {A}.
Arguments new_queue {A}. Arguments qadd {A}. Arguments snapshot {A}. Arguments lastn {A}.
Arguments sort_items {A}. Arguments insert_sorted {A}. Arguments evict {A}. Arguments delete_key {A}.

(* Html.v - model of reportfeed.Sanitise and of the structure of the status page. *)
From NTRIP Require Import Base.
Open Scope N_scope.

(* strings.Replace(s, old, new, -1) for a one-character old *)
Definition replace_char (old : N) (new : list N) (s : list N) : list N :=
  flat_map (fun c => if c =? old then new else [c]) s.

Definition lt_entity : list N := [38; 108; 116; 59].   (* "&lt;" *)
Definition gt_entity : list N := [38; 103; 116; 59].   (* "&gt;" *)

(* Sanitise: first every "<", then every ">" of the result *)
Definition sanitise (s : list N) : list N :=
  replace_char 62 gt_entity (replace_char 60 lt_entity s).

Definition no_markup (s : list N) : bool :=
  forallb (fun c => negb ((c =? 60) || (c =? 62))) s.

(* the status page: the template's literal segments around five holes.  Holes 0 and 2 are
   the leaders (source id and time, no traffic), holes 1 and 3 the hex dumps of the last
   client and server buffers, hole 4 the message list. *)
Section Page.
  Variables seg0 seg1 seg2 seg3 seg4 seg5 : list N.
  Definition message_list (displays : list (list N)) : list N :=
    [10; 77; 101; 115; 115; 97; 103; 101; 115; 10; 10] ++          (* "\nMessages\n\n" *)
    flat_map (fun d => sanitise d ++ [10]) displays.
  Definition status_page (leader_c dump_c leader_s dump_s : list N) (displays : list (list N)) : list N :=
    seg0 ++ leader_c ++ seg1 ++ sanitise dump_c ++ seg2 ++ leader_s ++ seg3 ++ sanitise dump_s ++
    seg4 ++ message_list displays ++ seg5.
  (* the traffic-derived parts of the page *)
  Definition traffic_parts (dump_c dump_s : list N) (displays : list (list N)) : list (list N) :=
    [sanitise dump_c; sanitise dump_s; message_list displays].
End Page.

Lemma replace_char_app old new a b :
  replace_char old new (a ++ b) = replace_char old new a ++ replace_char old new b.
Proof. unfold replace_char. apply flat_map_app. Qed.

Lemma no_markup_app a b : no_markup (a ++ b) = no_markup a && no_markup b.
Proof. unfold no_markup. apply forallb_app. Qed.

Lemma sanitise_no_markup s : no_markup (sanitise s) = true.
Proof.
  unfold sanitise. induction s as [|c s IH]; [reflexivity|].
  change (c :: s) with ([c] ++ s). rewrite !replace_char_app, no_markup_app, IH, andb_true_r.
  unfold replace_char at 2. cbn [flat_map]. rewrite app_nil_r.
  destruct (c =? 60) eqn:E1; [reflexivity|].
  unfold replace_char. cbn [flat_map]. rewrite app_nil_r.
  destruct (c =? 62) eqn:E2; [reflexivity|]. cbn. rewrite E1, E2. reflexivity.
Qed.

Lemma message_list_no_markup displays : no_markup (message_list displays) = true.
Proof.
  unfold message_list. rewrite no_markup_app. cbn [no_markup forallb]. cbn.
  induction displays as [|d ds IH]; [reflexivity|].
  cbn [flat_map]. rewrite !no_markup_app, sanitise_no_markup. cbn. exact IH.
Qed.

(* every traffic-derived part of the page is free of '<' and '>' *)
Lemma traffic_parts_escaped dump_c dump_s displays :
  forallb no_markup (traffic_parts dump_c dump_s displays) = true.
Proof.
  unfold traffic_parts. cbn [forallb].
  rewrite !sanitise_no_markup, message_list_no_markup. reflexivity.
Qed.

(* escaping loses nothing: the original text can be read back *)
Fixpoint unescape (fuel : nat) (s : list N) : list N :=
  match fuel with
  | O => s
  | S f =>
    match s with
    | 38 :: 108 :: 116 :: 59 :: r => 60 :: unescape f r
    | 38 :: 103 :: 116 :: 59 :: r => 62 :: unescape f r
    | c :: r => c :: unescape f r
    | [] => []
    end
  end.

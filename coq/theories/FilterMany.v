(* FilterMany.v - rtcmfilter (C10) on streams with any number of corrupted frames: the output is exactly the
   concatenation of the valid frames, in order; corrupted frames, other data and a truncated tail contribute
   nothing.  Corollary of [corrupted_frames_isolated] (SegMany.v). *)
From Coq Require Import List Arith NArith ZArith Lia Bool.
Import ListNotations.
From NTRIPGen Require Import GenConsts.
From NTRIP Require Import Base Bits Time Classify Frame FrameSpec FrameProofs SegProofs SegMany Net Pipe PipeFrames IncFrame PipeInc FilterProofs.
Local Open Scope Z_scope.

Definition gframes (gs : list gseg) : list N :=
  concat (map (fun s => match s with GFrame f => f | _ => [] end) gs).

Lemma core_output_gexp gs : core_output (map gexp gs) = gframes gs.
Proof.
  unfold core_output, gframes. induction gs as [|s gs IH]; [reflexivity|].
  cbn [map filter]. destruct s as [f|j|f]; cbn [gexp fst].
  - replace (Z.of_N (frame_type f) =? NonRTCMMessage) with false
      by (symmetry; apply Z.eqb_neq; unfold NonRTCMMessage; pose proof (N2Z.is_nonneg (frame_type f)); lia).
    cbn [negb map concat snd]. rewrite IH. reflexivity.
  - change (NonRTCMMessage =? NonRTCMMessage) with true. cbn [negb map concat app]. exact IH.
  - change (NonRTCMMessage =? NonRTCMMessage) with true. cbn [negb map concat app]. exact IH.
Qed.

Theorem filter_many h gs tail : Forall gwf gs -> gnormal gs -> tail_ok tail ->
  exists ms h', handle_stream h (gflat gs ++ tail) = Ok (ms, h') /\ filter_output ms = gframes gs.
Proof.
  intros W Nm T. destruct (corrupted_frames_isolated h gs tail W Nm T) as (ms & h' & Hms & Hcore).
  exists ms, h'. split; [exact Hms|].
  rewrite filter_output_core, Hcore, core_output_app, core_output_gexp.
  destruct tail; [apply app_nil_r|]. unfold core_output, tail_exp. cbn [filter fst].
  change (NonRTCMMessage =? NonRTCMMessage) with true. cbn. apply app_nil_r.
Qed.

(* the output with k corruptions is the output of the uncorrupted stream minus exactly the corrupted frames:
   what the healed stream would have added at each corrupted position is the original frame *)
Lemma gframes_healed gs orig :
  gframes (healed gs orig) =
  concat (map (fun s => match s with GFrame f => f | GBad f => orig f | GJunk _ => [] end) gs).
Proof.
  unfold gframes. induction gs as [|s gs IH]; [reflexivity|].
  destruct s as [f|j|f]; cbn [healed map concat]; rewrite IH; reflexivity.
Qed.

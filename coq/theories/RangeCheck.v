(* RangeCheck.v - evaluation of the range model against implementation observations
   (used by the generated Cases.v of the C08 check; evaluated by the kernel's VM). *)
From Coq Require Import Floats.
From NTRIP Require Import Base Bits Range.
Open Scope N_scope.

(* (k7, W, F, fine range, fine phase, rough rate, fine rate, constellation code, signal id,
    (agg range, agg phase, agg rate), (range bits, phase bits, rate bits, doppler bits, wavelength bits)) *)
Definition case : Type :=
  (bool * N * N * Z * Z * Z * Z * N * N * (N * N * Z) * (N * N * N * N * N))%type.

Definition check_case (c : case) : bool :=
  match c with
  | (k7, w, f, d, p, rr, rf, cst, sg, (ar, ap, arate), (rb, pb, rtb, db, wb)) =>
    let wl := wavelength cst sg in
    let mar := if k7 then agg_range7 w f d else agg_range4 w f d in
    let map_ := if k7 then agg_phase7 w f p else agg_phase4 w f p in
    let mrate := if k7 then agg_rate rr rf else 0%Z in
    (mar =? ar) && (map_ =? ap) && (mrate =? arate)%Z &&
    (float_bits (range_m mar) =? rb) && (float_bits (phase_cycles map_ wl) =? pb) &&
    (float_bits wl =? wb) &&
    (if k7 then (float_bits (rate_ms mrate) =? rtb) && (float_bits (doppler mrate wl) =? db) else true)
  end.

Fixpoint mismatches (i : nat) (cs : list case) : list nat :=
  match cs with
  | [] => []
  | c :: r => if check_case c then mismatches (S i) r else i :: mismatches (S i) r
  end.

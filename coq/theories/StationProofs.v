(* StationProofs.v - C05 (decoding): 1005/1006 messages decode to exactly the encoded fields;
   other types and short messages are rejected; the decoders never panic. *)
From NTRIP Require Import Base Bits BitsProofs Crc CrcProofs Time Classify Frame FrameSpec FrameProofs
     WriteProofs EncProofs Msm Station.
From NTRIPGen Require Import GenConsts.
From Coq Require Import ZifyN ZifyNat ZifyBool.
Open Scope N_scope.

(* ---------- reading one field of a message laid out as a sequence of chunks ---------- *)

Lemma slice_concat_nth {A} (chunks : list (list A)) k : (k < length chunks)%nat ->
  slice (concat chunks) (length (concat (firstn k chunks))) (length (nth k chunks [])) = nth k chunks [].
Proof.
  revert k; induction chunks as [|c chunks IH]; intros k H; [cbn in H; lia|].
  destruct k as [|k].
  - cbn [firstn concat length nth]. change (firstn 0 (c :: chunks)) with (@nil (list A)). cbn [concat length].
    rewrite slice_app_l by lia. apply slice_all.
  - change (firstn (S k) (c :: chunks)) with (c :: firstn k chunks). cbn [concat nth].
    rewrite app_length, slice_app_r. apply IH. cbn [length] in H. lia.
Qed.

Lemma concat_firstn_le {A} (chunks : list (list A)) k : (k < length chunks)%nat ->
  (length (concat (firstn k chunks)) + length (nth k chunks []) <= length (concat chunks))%nat.
Proof.
  revert k; induction chunks as [|c chunks IH]; intros k H; [cbn in H; lia|].
  destruct k as [|k].
  - change (firstn 0 (c :: chunks)) with (@nil (list A)). cbn [concat length nth]. rewrite app_length. lia.
  - change (firstn (S k) (c :: chunks)) with (c :: firstn k chunks). cbn [concat nth]. rewrite !app_length.
    cbn [length] in H. specialize (IH k ltac:(lia)). lia.
Qed.

Section Fields.
  Variables (f : list N) (L R : list bool) (chunks : list (list bool)) (lenL : nat).
  Hypothesis Hbits : bits_of f = L ++ concat chunks ++ R.
  Hypothesis HlenL : length L = lenL.

  Lemma field_slice k pos w : (k < length chunks)%nat -> pos = (lenL + length (concat (firstn k chunks)))%nat ->
    w = length (nth k chunks []) ->
    slice (bits_of f) pos w = nth k chunks [] /\ (pos + w <= 8 * length f)%nat.
  Proof.
    intros Hk -> ->. rewrite <- HlenL. split.
    - rewrite Hbits, slice_app_r, slice_app_l by (apply concat_firstn_le; exact Hk).
      apply slice_concat_nth. exact Hk.
    - rewrite <- bits_of_length, Hbits, !app_length. pose proof (concat_firstn_le chunks k Hk). lia.
  Qed.

  Lemma read_u k pos w v : (k < length chunks)%nat -> pos = (lenL + length (concat (firstn k chunks)))%nat ->
    nth k chunks [] = put_u w v -> v < 2 ^ N.of_nat w -> (w <= 64)%nat ->
    getu f pos w = Ok v.
  Proof.
    intros Hk Hp Hn Hv Hw.
    destruct (field_slice k pos w Hk Hp) as [S B]; [rewrite Hn, put_u_length; reflexivity|].
    rewrite getu_eq, get_u_spec by assumption. rewrite S, Hn, N_of_bits_put_u_small by exact Hv. reflexivity.
  Qed.

  Lemma read_s k pos w z : (k < length chunks)%nat -> pos = (lenL + length (concat (firstn k chunks)))%nat ->
    nth k chunks [] = put_s w z -> (2 <= w <= 64)%nat ->
    (- 2 ^ Z.of_nat (w - 1) <= z < 2 ^ Z.of_nat (w - 1))%Z ->
    gets f pos w = Ok z.
  Proof.
    intros Hk Hp Hn Hw Hz.
    destruct (field_slice k pos w Hk Hp) as [S B]; [rewrite Hn, put_s_length; reflexivity|].
    rewrite gets_eq, get_s_spec by (lia || assumption). rewrite S, Hn, Z_of_bits_put_s by (lia || exact Hz). reflexivity.
  Qed.
End Fields.

(* ---------- the bits of a frame built from message bits and extra payload bytes ---------- *)

Lemma frame_bits bits extra : (length bits mod 8 = 0)%nat ->
  let p := bytes_of_bits bits ++ extra in
  let f := frame_of_payload p in
  exists R, bits_of f = bits_of (leader (N.of_nat (length p))) ++ bits ++ R /\
            length (bits_of (leader (N.of_nat (length p)))) = 24%nat /\
            length p = (length bits / 8 + length extra)%nat.
Proof.
  intros Hm p f.
  assert (Hk : length bits = (8 * (length bits / 8))%nat) by (pose proof (Nat.div_mod (length bits) 8 ltac:(lia)); lia).
  destruct (bytes_of_bits_whole _ bits Hk) as (Hb & Hl & _).
  exists (bits_of extra ++ bits_of [crc24q_spec (leader (N.of_nat (length p)) ++ p) / 65536;
                                   (crc24q_spec (leader (N.of_nat (length p)) ++ p) / 256) mod 256;
                                   crc24q_spec (leader (N.of_nat (length p)) ++ p) mod 256]).
  split; [|split].
  - unfold f. rewrite frame_of_payload_shape. cbv zeta. unfold p at 2.
    rewrite !bits_of_app, Hb, <- !app_assoc. reflexivity.
  - reflexivity.
  - unfold p. rewrite app_length, Hl. reflexivity.
Qed.

(* ---------- 1005 / 1006 ---------- *)

Definition chunks_station (m : station) : list (list bool) :=
  [put_u 12 (st_type m); put_u 12 (st_id m); put_u 6 (st_itrf m); put_u 4 (st_ign1 m);
   put_s 38 (st_x m); put_u 2 (st_ign2 m); put_s 38 (st_y m); put_u 2 (st_ign3 m); put_s 38 (st_z m);
   (if st_type m =? 1006 then put_u 16 (st_height m) else [])].

Lemma station_bits_chunks m : station_bits m = concat (chunks_station m).
Proof. unfold station_bits, chunks_station. cbn [concat]. rewrite app_nil_r. reflexivity. Qed.

Lemma wf_station_fields m : wf_station m = true ->
  (st_type m = 1005 /\ st_height m = 0 \/ st_type m = 1006 /\ st_height m < 65536) /\
  st_id m < 4096 /\ st_itrf m < 64 /\ st_ign1 m < 16 /\ st_ign2 m < 4 /\ st_ign3 m < 4 /\
  (- 2 ^ 37 <= st_x m < 2 ^ 37)%Z /\ (- 2 ^ 37 <= st_y m < 2 ^ 37)%Z /\ (- 2 ^ 37 <= st_z m < 2 ^ 37)%Z.
Proof.
  unfold wf_station. intros H.
  repeat (apply andb_true_iff in H; destruct H as [H ?]).
  repeat match goal with
  | X : (_ <? _) = true |- _ => apply N.ltb_lt in X
  | X : (_ <? _)%Z = true |- _ => apply Z.ltb_lt in X
  | X : (_ <=? _)%Z = true |- _ => apply Z.leb_le in X
  end.
  apply orb_true_iff in H. repeat split; try assumption; lia.
Qed.

Theorem decode_station_roundtrip m extra : wf_station m = true -> bytes_ok extra ->
  (length (bytes_of_bits (station_bits m)) + length extra <= 1023)%nat ->
  decode_station (st_type m) (station_frame m extra) = Ok m.
Proof.
  intros W Hex Hlen.
  destruct (wf_station_fields m W) as (Hty & Hid & Hitrf & Hi1 & Hi2 & Hi3 & Hx & Hy & Hz).
  assert (Hbl : length (station_bits m) = if st_type m =? 1006 then 168%nat else 152%nat).
  { unfold station_bits. rewrite !app_length, !put_u_length, !put_s_length.
    destruct (st_type m =? 1006); [rewrite put_u_length|]; reflexivity. }
  assert (Hmod : (length (station_bits m) mod 8 = 0)%nat) by (rewrite Hbl; destruct (st_type m =? 1006); reflexivity).
  destruct (frame_bits (station_bits m) extra Hmod) as (R & Hbits & HL & Hpl).
  cbv zeta in Hbits, Hpl. fold (station_frame m extra) in Hbits.
  set (f := station_frame m extra) in *.
  set (L := bits_of (leader (N.of_nat (length (bytes_of_bits (station_bits m) ++ extra))))) in *.
  rewrite station_bits_chunks in Hbits. clearbody L.
  assert (Hflen : length f = (length (station_bits m) / 8 + length extra + 6)%nat).
  { unfold f, station_frame. rewrite frame_of_payload_length, Hpl. reflexivity. }
  unfold decode_station.
  destruct Hty as [[Ht Hh]|[Ht Hh]]; rewrite Ht in Hbl |- *.
  - (* 1005 *)
    change (1005 =? 1006) with false in *. cbv iota in *.
    unfold decode1005. rewrite Hflen, Hbl. change (152 / 8)%nat with 19%nat.
    destruct (Z.ltb_spec (Z.of_nat (8 * (19 + length extra + 6)) - Z.of_N LeaderLengthBits - Z.of_N CRCLengthBits)
                         (Z.of_N t1005_lengthOfMessageInBits)) as [C|_].
    { change LeaderLengthBits with 24 in C. change CRCLengthBits with 24 in C. change t1005_lengthOfMessageInBits with 152 in C. lia. }
    rewrite (read_u f L R _ 24%nat Hbits HL 0 _ 12 (st_type m)) by (reflexivity || lia || (cbn; lia) || (rewrite Ht; reflexivity)). cbn [bind].
    rewrite Ht. change (negb (1005 =? t1005_expectedMessageType)) with false. cbv iota.
    rewrite (read_u f L R _ 24%nat Hbits HL 1 _ 12 (st_id m)) by (reflexivity || lia || (cbn; lia)). cbn [bind].
    rewrite (read_u f L R _ 24%nat Hbits HL 2 _ 6 (st_itrf m)) by (reflexivity || lia || (cbn; lia)). cbn [bind].
    rewrite (read_u f L R _ 24%nat Hbits HL 3 _ 4 (st_ign1 m)) by (reflexivity || lia || (cbn; lia)). cbn [bind].
    rewrite (read_s f L R _ 24%nat Hbits HL 4 _ 38 (st_x m)) by (reflexivity || lia || (cbn; lia) || exact Hx). cbn [bind].
    rewrite (read_u f L R _ 24%nat Hbits HL 5 _ 2 (st_ign2 m)) by (reflexivity || lia || (cbn; lia)). cbn [bind].
    rewrite (read_s f L R _ 24%nat Hbits HL 6 _ 38 (st_y m)) by (reflexivity || lia || (cbn; lia) || exact Hy). cbn [bind].
    rewrite (read_u f L R _ 24%nat Hbits HL 7 _ 2 (st_ign3 m)) by (reflexivity || lia || (cbn; lia)). cbn [bind].
    rewrite (read_s f L R _ 24%nat Hbits HL 8 _ 38 (st_z m)) by (reflexivity || lia || (cbn; lia) || exact Hz). cbn [bind].
    clear - Ht Hh. destruct m. simpl in *. subst. reflexivity.
  - (* 1006 *)
    change (1006 =? 1006) with true in *. cbv iota in *.
    unfold decode1006. rewrite Hflen, Hbl. change (168 / 8)%nat with 21%nat.
    destruct (Z.ltb_spec (Z.of_nat (8 * (21 + length extra + 6)) - Z.of_N LeaderLengthBits - Z.of_N CRCLengthBits)
                         (Z.of_N t1006_lengthOfMessageInBits)) as [C|_].
    { change LeaderLengthBits with 24 in C. change CRCLengthBits with 24 in C. change t1006_lengthOfMessageInBits with 168 in C. lia. }
    rewrite (read_u f L R _ 24%nat Hbits HL 0 _ 12 (st_type m)) by (reflexivity || lia || (cbn; lia) || (rewrite Ht; reflexivity)). cbn [bind].
    rewrite Ht. change (negb (1006 =? t1006_expectedMessageType)) with false. cbv iota.
    rewrite (read_u f L R _ 24%nat Hbits HL 1 _ 12 (st_id m)) by (reflexivity || lia || (cbn; lia)). cbn [bind].
    rewrite (read_u f L R _ 24%nat Hbits HL 2 _ 6 (st_itrf m)) by (reflexivity || lia || (cbn; lia)). cbn [bind].
    rewrite (read_u f L R _ 24%nat Hbits HL 3 _ 4 (st_ign1 m)) by (reflexivity || lia || (cbn; lia)). cbn [bind].
    rewrite (read_s f L R _ 24%nat Hbits HL 4 _ 38 (st_x m)) by (reflexivity || lia || (cbn; lia) || exact Hx). cbn [bind].
    rewrite (read_u f L R _ 24%nat Hbits HL 5 _ 2 (st_ign2 m)) by (reflexivity || lia || (cbn; lia)). cbn [bind].
    rewrite (read_s f L R _ 24%nat Hbits HL 6 _ 38 (st_y m)) by (reflexivity || lia || (cbn; lia) || exact Hy). cbn [bind].
    rewrite (read_u f L R _ 24%nat Hbits HL 7 _ 2 (st_ign3 m)) by (reflexivity || lia || (cbn; lia)). cbn [bind].
    rewrite (read_s f L R _ 24%nat Hbits HL 8 _ 38 (st_z m)) by (reflexivity || lia || (cbn; lia) || exact Hz). cbn [bind].
    rewrite (read_u f L R _ 24%nat Hbits HL 9 _ 16 (st_height m)) by (reflexivity || lia || (cbn; lia) || (cbn [chunks_station nth]; rewrite Ht; reflexivity)). cbn [bind].
    clear - Ht. destruct m. simpl in *. subst. reflexivity.
Qed.

(* ---------- rejection and totality ---------- *)

Lemma gets_in_range b pos len : (pos + len <= 8 * length b)%nat -> (1 <= len)%nat -> exists v, gets b pos len = Ok v.
Proof.
  intros H Hl. rewrite gets_eq. unfold get_s, get_s_gen.
  destruct (get_u_in_range b pos 1) as [v1 ->]; [lia|].
  destruct (get_u_in_range b pos len H) as [v2 ->]. cbn [bind].
  destruct (v1 =? 1); eexists; reflexivity.
Qed.

Lemma getu_in_range b pos len : (pos + len <= 8 * length b)%nat -> exists v, getu b pos len = Ok v.
Proof. intros H. rewrite getu_eq. apply get_u_in_range, H. Qed.

Ltac step_u := match goal with |- context [getu ?b ?p ?w] =>
  let v := fresh "v" in let E := fresh "E" in
  let p' := eval vm_compute in p in let w' := eval vm_compute in w in
  change (getu b p w) with (getu b p' w');
  destruct (getu_in_range b p' w') as [v E]; [lia|rewrite E; cbn [bind]] end.
Ltac step_s := match goal with |- context [gets ?b ?p ?w] =>
  let v := fresh "v" in let E := fresh "E" in
  let p' := eval vm_compute in p in let w' := eval vm_compute in w in
  change (gets b p w) with (gets b p' w');
  destruct (gets_in_range b p' w') as [v E]; [lia|lia|rewrite E; cbn [bind]] end.

(* a message too short for its fields is rejected; so is another message type; never a panic *)
Theorem decode1005_total b :
  (exists m, decode1005 b = Ok m /\ st_type m = 1005) \/ decode1005 b = Err ErrOverrun \/ decode1005 b = Err ErrWrongType.
Proof.
  unfold decode1005.
  destruct (Z.ltb_spec (Z.of_nat (8 * length b) - Z.of_N LeaderLengthBits - Z.of_N CRCLengthBits)
                       (Z.of_N t1005_lengthOfMessageInBits)) as [C|C]; [right; left; reflexivity|].
  change LeaderLengthBits with 24 in *. change CRCLengthBits with 24 in *. change t1005_lengthOfMessageInBits with 152 in *.
  assert (Hb : (200 <= 8 * length b)%nat) by lia.
  step_u. destruct (negb (v =? t1005_expectedMessageType)); [right; right; reflexivity|].
  do 3 step_u. step_s. step_u. step_s. step_u. step_s.
  left. eexists. split; reflexivity.
Qed.

Theorem decode1006_total b :
  (exists m, decode1006 b = Ok m /\ st_type m = 1006) \/ decode1006 b = Err ErrOverrun \/ decode1006 b = Err ErrWrongType.
Proof.
  unfold decode1006.
  destruct (Z.ltb_spec (Z.of_nat (8 * length b) - Z.of_N LeaderLengthBits - Z.of_N CRCLengthBits)
                       (Z.of_N t1006_lengthOfMessageInBits)) as [C|C]; [right; left; reflexivity|].
  change LeaderLengthBits with 24 in *. change CRCLengthBits with 24 in *. change t1006_lengthOfMessageInBits with 168 in *.
  assert (Hb : (216 <= 8 * length b)%nat) by lia.
  step_u. destruct (negb (v =? t1006_expectedMessageType)); [right; right; reflexivity|].
  do 3 step_u. step_s. step_u. step_s. step_u. step_s. step_u.
  left. eexists. split; reflexivity.
Qed.

(* too short for its fields: rejected *)
Theorem decode_station_short (ty : N) (b : list N) :
  (Z.of_nat (8 * length b) - 48 < (if (ty =? 1006)%N then 168 else 152))%Z ->
  decode_station ty b = Err ErrOverrun.
Proof.
  unfold decode_station, decode1005, decode1006. intros H.
  change LeaderLengthBits with 24. change CRCLengthBits with 24.
  change t1005_lengthOfMessageInBits with 152. change t1006_lengthOfMessageInBits with 168.
  destruct (ty =? 1006).
  - destruct (Z.ltb_spec (Z.of_nat (8 * length b) - Z.of_N 24 - Z.of_N 24) (Z.of_N 168)); [reflexivity|lia].
  - destruct (Z.ltb_spec (Z.of_nat (8 * length b) - Z.of_N 24 - Z.of_N 24) (Z.of_N 152)); [reflexivity|lia].
Qed.

(* a message of another type: rejected *)
Theorem decode_station_wrong_type b t : (8 * length b >= 216)%nat -> get_u b 24 12 = Ok t ->
  (t <> 1005 -> decode1005 b = Err ErrWrongType) /\ (t <> 1006 -> decode1006 b = Err ErrWrongType).
Proof.
  intros Hl Ht. unfold decode1005, decode1006.
  change LeaderLengthBits with 24. change CRCLengthBits with 24.
  change t1005_lengthOfMessageInBits with 152. change t1006_lengthOfMessageInBits with 168.
  change (nn 24) with 24%nat. change (nn t1005_lenMessageType) with 12%nat. change (nn t1006_lenMessageType) with 12%nat.
  rewrite getu_eq, Ht. cbn [bind].
  change t1005_expectedMessageType with 1005. change t1006_expectedMessageType with 1006.
  destruct (Z.ltb_spec (Z.of_nat (8 * length b) - Z.of_N 24 - Z.of_N 24) (Z.of_N 152)); [lia|].
  destruct (Z.ltb_spec (Z.of_nat (8 * length b) - Z.of_N 24 - Z.of_N 24) (Z.of_N 168)); [lia|].
  split; intros Hne.
  - destruct (N.eqb_spec t 1005); [congruence|reflexivity].
  - destruct (N.eqb_spec t 1006); [congruence|reflexivity].
Qed.

(* RetryProofs.v - C13: interruptions lose and duplicate nothing; the loop stops when it must. *)
From NTRIP Require Import Base Retry.
Open Scope N_scope.

(* every byte read before the stop is forwarded exactly once and in order; nothing else is *)
Definition unread_after (why : stop_reason) (rest : list rstep) : list rstep :=
  match why with StopNone => [] | _ => rest end.

Lemma run_script_forwarding tol wait : forall script s s' why rest,
  run_script tol wait script s = (s', why, rest) ->
  exists consumed, script = consumed ++ unread_after why rest /\
                   r_out s' = r_out s ++ data_of consumed /\
                   (why <> StopNone -> exists c e, consumed = c ++ [e] /\ data_of [e] = []).
Proof.
  induction script as [|st script IH]; intros s s' why rest H; cbn [run_script] in H.
  - injection H as <- <- <-. exists []. cbn. rewrite app_nil_r. repeat split; congruence.
  - destruct st as [bs| | | |ms].
    + apply IH in H. destruct H as (c & Hc & Ho & Hs). exists (RData bs :: c).
      cbn [app data_of r_out] in *. rewrite Hc at 1. split; [reflexivity|]. split.
      * rewrite Ho, <- app_assoc. reflexivity.
      * intros Hw. destruct (Hs Hw) as (c' & e & -> & He). exists (RData bs :: c'), e. split; [reflexivity|exact He].
    + destruct (on_eof tol wait s) as [s1|] eqn:E.
      * apply IH in H. destruct H as (c & Hc & Ho & Hs). exists (REof :: c).
        cbn [app data_of]. rewrite Hc at 1. split; [reflexivity|]. split.
        -- rewrite Ho. f_equal. unfold on_eof in E. destruct (tol =? 0); [discriminate|].
           destruct (r_first s); [destruct (_ <? _); [discriminate|]|]; injection E as <-; reflexivity.
        -- intros Hw. destruct (Hs Hw) as (c' & e & -> & He). exists (REof :: c'), e. split; [reflexivity|exact He].
      * injection H as <- <- <-. exists [REof]. cbn. rewrite app_nil_r. repeat split.
        intros _. exists [], REof. split; reflexivity.
    + destruct (on_eof tol wait s) as [s1|] eqn:E.
      * apply IH in H. destruct H as (c & Hc & Ho & Hs). exists (RTimeout :: c).
        cbn [app data_of]. rewrite Hc at 1. split; [reflexivity|]. split.
        -- rewrite Ho. f_equal. unfold on_eof in E. destruct (tol =? 0); [discriminate|].
           destruct (r_first s); [destruct (_ <? _); [discriminate|]|]; injection E as <-; reflexivity.
        -- intros Hw. destruct (Hs Hw) as (c' & e & -> & He). exists (RTimeout :: c'), e. split; [reflexivity|exact He].
      * injection H as <- <- <-. exists [RTimeout]. cbn. rewrite app_nil_r. repeat split.
        intros _. exists [], RTimeout. split; reflexivity.
    + injection H as <- <- <-. exists [ROther]. cbn. rewrite app_nil_r. repeat split.
      intros _. exists [], ROther. split; reflexivity.
    + apply IH in H. destruct H as (c & Hc & Ho & Hs). exists (RSleep ms :: c).
      cbn [app data_of r_out] in *. rewrite Hc at 1. split; [reflexivity|]. split; [exact Ho|].
      intros Hw. destruct (Hs Hw) as (c' & e & -> & He). exists (RSleep ms :: c'), e. split; [reflexivity|exact He].
Qed.

(* single and double interruptions: between two data steps at most two end-of-file / timeout
   results, no other error, the source does not pause in between *)
Inductive gentle : list rstep -> Prop :=
| g_nil : gentle []
| g_data bs rest : gentle rest -> gentle (RData bs :: rest)
| g_one e bs rest : (e = REof \/ e = RTimeout) -> bs <> [] -> gentle rest -> gentle (e :: RData bs :: rest)
| g_two e1 e2 bs rest : (e1 = REof \/ e1 = RTimeout) -> (e2 = REof \/ e2 = RTimeout) -> bs <> [] ->
    gentle rest -> gentle (e1 :: e2 :: RData bs :: rest).

Lemma gentle_resumes tol wait : 0 < tol -> wait <= tol -> forall script, gentle script ->
  forall s, r_first s = None ->
  exists s', run_script tol wait script s = (s', StopNone, []) /\ r_out s' = r_out s ++ data_of script /\
             r_first s' = None.
Proof.
  intros Htol Hwait script G. induction G as [|bs rest G IH|e bs rest He Hbs G IH|e1 e2 bs rest H1 H2 Hbs G IH]; intros s Hf.
  - exists s. cbn. rewrite app_nil_r. repeat split; assumption.
  - cbn [run_script data_of].
    destruct (IH {| r_first := match bs with [] => r_first s | _ => None end; r_now := r_now s; r_out := r_out s ++ bs |})
      as (s' & R & O & F).
    { cbn. destruct bs; [exact Hf|reflexivity]. }
    exists s'. split; [exact R|]. split; [rewrite O; cbn; rewrite <- app_assoc; reflexivity|exact F].
  - assert (E : on_eof tol wait s = Some {| r_first := Some (r_now s); r_now := r_now s + wait; r_out := r_out s |}).
    { unfold on_eof. destruct (N.eqb_spec tol 0); [lia|]. rewrite Hf. reflexivity. }
    assert (R1 : forall k, run_script tol wait (e :: k) s =
                 run_script tol wait k {| r_first := Some (r_now s); r_now := r_now s + wait; r_out := r_out s |}).
    { intros k. destruct He as [-> | ->]; cbn [run_script]; rewrite E; reflexivity. }
    rewrite R1. cbn [run_script data_of].
    destruct (IH {| r_first := match bs with [] => Some (r_now s) | _ => None end; r_now := r_now s + wait; r_out := r_out s ++ bs |})
      as (s' & R & O & F).
    { cbn. destruct bs; [congruence|reflexivity]. }
    exists s'. split; [exact R|]. split; [|exact F].
    rewrite O. cbn [r_out]. assert (D : data_of [e] = []) by (destruct He as [-> | ->]; reflexivity).
    change (e :: RData bs :: rest) with ([e] ++ RData bs :: rest).
    destruct He as [-> | ->]; cbn [data_of app]; rewrite <- app_assoc; reflexivity.
  - set (s1 := {| r_first := Some (r_now s); r_now := r_now s + wait; r_out := r_out s |}).
    set (s2 := {| r_first := Some (r_now s); r_now := r_now s + wait + tol; r_out := r_out s |}).
    assert (E1 : on_eof tol wait s = Some s1).
    { unfold on_eof. destruct (N.eqb_spec tol 0); [lia|]. rewrite Hf. reflexivity. }
    assert (E2 : on_eof tol wait s1 = Some s2).
    { unfold on_eof, s1. cbn [r_first r_now r_out]. destruct (N.eqb_spec tol 0); [lia|].
      destruct (N.ltb_spec tol (r_now s + wait - r_now s)); [lia|]. reflexivity. }
    assert (R1 : forall k, run_script tol wait (e1 :: e2 :: k) s = run_script tol wait k s2).
    { intros k. destruct H1 as [-> | ->], H2 as [-> | ->]; cbn [run_script]; rewrite E1, E2; reflexivity. }
    rewrite R1. cbn [run_script].
    destruct (IH {| r_first := match bs with [] => r_first s2 | _ => None end; r_now := r_now s2; r_out := r_out s2 ++ bs |})
      as (s' & R & O & F).
    { cbn. destruct bs; [congruence|reflexivity]. }
    exists s'. split; [exact R|]. split; [|exact F].
    rewrite O. cbn [r_out s2].
    destruct H1 as [-> | ->], H2 as [-> | ->]; cbn [data_of]; rewrite <- app_assoc; reflexivity.
Qed.

(* with a zero tolerance the first end-of-file or timeout stops the loop; another error always does *)
Lemma zero_tolerance_stops wait pre rest e : (e = REof \/ e = RTimeout \/ e = ROther) ->
  Forall (fun st => match st with RData _ | RSleep _ => True | _ => False end) pre ->
  forall s, exists s', run_script 0 wait (pre ++ e :: rest) s = (s', match e with REof => StopEOF | RTimeout => StopTimeout | _ => StopOther end, rest) /\
                       r_out s' = r_out s ++ data_of pre.
Proof.
  intros He Hp. induction Hp as [|st pre Hst Hp IH]; intros s.
  - exists s. cbn [app data_of]. rewrite app_nil_r. destruct He as [-> | [-> | ->]]; cbn; split; reflexivity.
  - destruct st as [bs| | | |ms]; try contradiction; cbn [app run_script data_of].
    + destruct (IH {| r_first := match bs with [] => r_first s | _ => None end; r_now := r_now s; r_out := r_out s ++ bs |}) as (s' & R & O).
      exists s'. split; [exact R|]. rewrite O. cbn. rewrite <- app_assoc. reflexivity.
    + destruct (IH {| r_first := r_first s; r_now := r_now s + ms; r_out := r_out s |}) as (s' & R & O).
      exists s'. split; [exact R|exact O].
Qed.

(* silence beyond the tolerance: three end-of-file results in a row always stop the loop *)
Lemma silence_stops tol wait s rest : r_first s = None ->
  exists s' k, run_script tol wait (REof :: REof :: REof :: REof :: rest) s = (s', StopEOF, k) /\ r_out s' = r_out s.
Proof.
  intros Hf. destruct (N.eqb_spec tol 0) as [Ht|Ht].
  - exists s, (REof :: REof :: REof :: rest). cbn [run_script]. unfold on_eof. rewrite Ht. cbn. split; reflexivity.
  - cbn [run_script]. unfold on_eof at 1. destruct (N.eqb_spec tol 0); [lia|]. rewrite Hf.
    unfold on_eof at 1. cbn [r_first r_now r_out]. destruct (N.eqb_spec tol 0); [lia|].
    destruct (N.ltb_spec tol (r_now s + wait - r_now s)); [eexists; eexists; split; reflexivity|].
    unfold on_eof at 1. cbn [r_first r_now r_out]. destruct (N.eqb_spec tol 0); [lia|].
    destruct (N.ltb_spec tol (r_now s + wait + tol - r_now s)); [eexists; eexists; split; reflexivity|].
    unfold on_eof at 1. cbn [r_first r_now r_out]. destruct (N.eqb_spec tol 0); [lia|].
    destruct (N.ltb_spec tol (r_now s + wait + tol + tol - r_now s)); [eexists; eexists; split; reflexivity|lia].
Qed.

(* single interruptions only: between two data steps at most one end-of-file / timeout result *)
Inductive gentle1 : list rstep -> Prop :=
| g1_nil : gentle1 []
| g1_data bs rest : gentle1 rest -> gentle1 (RData bs :: rest)
| g1_one e bs rest : (e = REof \/ e = RTimeout) -> bs <> [] -> gentle1 rest -> gentle1 (e :: RData bs :: rest).

(* ... never stop the loop, however long the configured wait is compared with the tolerance: the retry
   after the first failed read finds data, and data resets the clock *)
Lemma gentle1_resumes tol wait : 0 < tol -> forall script, gentle1 script ->
  forall s, r_first s = None ->
  exists s', run_script tol wait script s = (s', StopNone, []) /\ r_out s' = r_out s ++ data_of script /\
             r_first s' = None.
Proof.
  intros Htol script G. induction G as [|bs rest G IH|e bs rest He Hbs G IH]; intros s Hf.
  - exists s. cbn. rewrite app_nil_r. repeat split; assumption.
  - cbn [run_script data_of].
    destruct (IH {| r_first := match bs with [] => r_first s | _ => None end; r_now := r_now s; r_out := r_out s ++ bs |})
      as (s' & R & O & F).
    { cbn. destruct bs; [exact Hf|reflexivity]. }
    exists s'. split; [exact R|]. split; [rewrite O; cbn; rewrite <- app_assoc; reflexivity|exact F].
  - assert (E : on_eof tol wait s = Some {| r_first := Some (r_now s); r_now := r_now s + wait; r_out := r_out s |}).
    { unfold on_eof. destruct (N.eqb_spec tol 0); [lia|]. rewrite Hf. reflexivity. }
    assert (R1 : forall k, run_script tol wait (e :: k) s =
                 run_script tol wait k {| r_first := Some (r_now s); r_now := r_now s + wait; r_out := r_out s |}).
    { intros k. destruct He as [-> | ->]; cbn [run_script]; rewrite E; reflexivity. }
    rewrite R1. cbn [run_script data_of].
    destruct (IH {| r_first := match bs with [] => Some (r_now s) | _ => None end; r_now := r_now s + wait; r_out := r_out s ++ bs |})
      as (s' & R & O & F).
    { cbn. destruct bs; [congruence|reflexivity]. }
    exists s'. split; [exact R|]. split; [|exact F].
    rewrite O. cbn [r_out].
    destruct He as [-> | ->]; cbn [data_of app]; rewrite <- app_assoc; reflexivity.
Qed.

(* gentle interruptions with lulls: as [gentle], and in addition the source may take any time (also far longer
   than the tolerance) to produce a chunk, as long as it reports no end-of-file or timeout meanwhile.  Every
   interruption is judged by its own clock, started at ITS first end-of-file: time that passed while data was
   flowing, and earlier interruptions, do not count. *)
Inductive gentle_lull : list rstep -> Prop :=
| gl_nil : gentle_lull []
| gl_data bs rest : gentle_lull rest -> gentle_lull (RData bs :: rest)
| gl_lull ms bs rest : bs <> [] -> gentle_lull rest -> gentle_lull (RSleep ms :: RData bs :: rest)
| gl_one e bs rest : (e = REof \/ e = RTimeout) -> bs <> [] -> gentle_lull rest -> gentle_lull (e :: RData bs :: rest)
| gl_two e1 e2 bs rest : (e1 = REof \/ e1 = RTimeout) -> (e2 = REof \/ e2 = RTimeout) -> bs <> [] ->
    gentle_lull rest -> gentle_lull (e1 :: e2 :: RData bs :: rest).

Lemma gentle_lull_resumes tol wait : 0 < tol -> wait <= tol -> forall script, gentle_lull script ->
  forall s, r_first s = None ->
  exists s', run_script tol wait script s = (s', StopNone, []) /\ r_out s' = r_out s ++ data_of script /\
             r_first s' = None.
Proof.
  intros Htol Hwait script G.
  induction G as [|bs rest G IH|ms bs rest Hbs G IH|e bs rest He Hbs G IH|e1 e2 bs rest H1 H2 Hbs G IH]; intros s Hf.
  - exists s. cbn. rewrite app_nil_r. repeat split; assumption.
  - cbn [run_script data_of].
    destruct (IH {| r_first := match bs with [] => r_first s | _ => None end; r_now := r_now s; r_out := r_out s ++ bs |})
      as (s' & R & O & F).
    { cbn. destruct bs; [exact Hf|reflexivity]. }
    exists s'. split; [exact R|]. split; [rewrite O; cbn; rewrite <- app_assoc; reflexivity|exact F].
  - cbn [run_script data_of].
    destruct (IH {| r_first := match bs with [] => r_first s | _ => None end; r_now := r_now s + ms; r_out := r_out s ++ bs |})
      as (s' & R & O & F).
    { cbn. destruct bs; [congruence|reflexivity]. }
    exists s'. split; [exact R|]. split; [rewrite O; cbn; rewrite <- app_assoc; reflexivity|exact F].
  - assert (E : on_eof tol wait s = Some {| r_first := Some (r_now s); r_now := r_now s + wait; r_out := r_out s |}).
    { unfold on_eof. destruct (N.eqb_spec tol 0); [lia|]. rewrite Hf. reflexivity. }
    assert (R1 : forall k, run_script tol wait (e :: k) s =
                 run_script tol wait k {| r_first := Some (r_now s); r_now := r_now s + wait; r_out := r_out s |}).
    { intros k. destruct He as [-> | ->]; cbn [run_script]; rewrite E; reflexivity. }
    rewrite R1. cbn [run_script data_of].
    destruct (IH {| r_first := match bs with [] => Some (r_now s) | _ => None end; r_now := r_now s + wait; r_out := r_out s ++ bs |})
      as (s' & R & O & F).
    { cbn. destruct bs; [congruence|reflexivity]. }
    exists s'. split; [exact R|]. split; [|exact F].
    rewrite O. cbn [r_out].
    destruct He as [-> | ->]; cbn [data_of app]; rewrite <- app_assoc; reflexivity.
  - set (s1 := {| r_first := Some (r_now s); r_now := r_now s + wait; r_out := r_out s |}).
    set (s2 := {| r_first := Some (r_now s); r_now := r_now s + wait + tol; r_out := r_out s |}).
    assert (E1 : on_eof tol wait s = Some s1).
    { unfold on_eof. destruct (N.eqb_spec tol 0); [lia|]. rewrite Hf. reflexivity. }
    assert (E2 : on_eof tol wait s1 = Some s2).
    { unfold on_eof, s1. cbn [r_first r_now r_out]. destruct (N.eqb_spec tol 0); [lia|].
      destruct (N.ltb_spec tol (r_now s + wait - r_now s)); [lia|]. reflexivity. }
    assert (R1 : forall k, run_script tol wait (e1 :: e2 :: k) s = run_script tol wait k s2).
    { intros k. destruct H1 as [-> | ->], H2 as [-> | ->]; cbn [run_script]; rewrite E1, E2; reflexivity. }
    rewrite R1. cbn [run_script].
    destruct (IH {| r_first := match bs with [] => r_first s2 | _ => None end; r_now := r_now s2; r_out := r_out s2 ++ bs |})
      as (s' & R & O & F).
    { cbn. destruct bs; [congruence|reflexivity]. }
    exists s'. split; [exact R|]. split; [|exact F].
    rewrite O. cbn [r_out s2].
    destruct H1 as [-> | ->], H2 as [-> | ->]; cbn [data_of]; rewrite <- app_assoc; reflexivity.
Qed.

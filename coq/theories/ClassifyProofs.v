(* ClassifyProofs.v - C20: the classification table produced by the real code, for every
   12-bit message type and the two negative sentinels, is total and consistent. *)
From NTRIP Require Import Base Classify.
From NTRIPGen Require Import GenConsts ClassifyTable.
Open Scope Z_scope.

(* the specification: the fourteen MSM4/MSM7 types of the standard and their constellations *)
Definition spec_msm4 (t : Z) : bool :=
  existsb (Z.eqb t) [1074; 1084; 1094; 1104; 1114; 1124; 1134].
Definition spec_msm7 (t : Z) : bool :=
  existsb (Z.eqb t) [1077; 1087; 1097; 1107; 1117; 1127; 1137].
(* 1 GPS, 2 GLONASS, 3 Galileo, 4 SBAS, 5 QZSS, 6 BeiDou, 7 NavIC/IRNSS, 0 unknown *)
Definition spec_constellation (t : Z) : Z :=
  if spec_msm4 t || spec_msm7 t then (t - 1070) / 10 + 1 - (if 1130 <=? t then 0 else 0) else 0.

Definition spec_dispatch (t : Z) : Z :=
  if spec_msm4 t then 4 else if spec_msm7 t then 7
  else if t =? 1005 then 1005 else if t =? 1006 then 1006 else 0.

Definition row_ok (r : crow) : bool :=
  let t := r_t r in
  Bool.eqb (r_msm4 r) (spec_msm4 t) && Bool.eqb (r_msm7 r) (spec_msm7 t) &&
  Bool.eqb (r_msm r) (spec_msm4 t || spec_msm7 t) &&
  (r_const r =? spec_constellation t) &&
  r_title r &&
  Bool.eqb (r_hdr r) (spec_msm4 t || spec_msm7 t) &&      (* accepted by the MSM header decoder *)
  Bool.eqb (r_dec4 r) (spec_msm4 t) && Bool.eqb (r_dec7 r) (spec_msm7 t) &&  (* exactly its own family *)
  Bool.eqb (r_1005 r) (t =? 1005) && Bool.eqb (r_1006 r) (t =? 1006) &&
  Bool.eqb (r_ts r) (spec_msm4 t || spec_msm7 t) &&       (* only MSMs carry an extracted timestamp: from EVERY frame shape tried *)
  Bool.eqb (r_tsany r) (spec_msm4 t || spec_msm7 t) &&    (* ... and the other types from NONE of them *)
  Bool.eqb (r_dec4any r) (spec_msm4 t) && Bool.eqb (r_dec7any r) (spec_msm7 t) &&  (* a family's decoder accepts no other type, whatever the frame holds (also MSMs without satellites) *)
  (r_dispatch r =? spec_dispatch t) &&                    (* full decoding exactly for MSM4, MSM7, 1005, 1006 *)
  r_display r.

(* the table has one row for every t in -2 .. 4095, in order *)
Fixpoint rows_from (tab : list crow) (lo : Z) : bool :=
  match tab with
  | [] => true
  | r :: rest => (r_t r =? lo) && rows_from rest (lo + 1)
  end.

Lemma table_rows : rows_from classify_table (-2) = true.
Proof. vm_compute. reflexivity. Qed.

Lemma table_length : Z.of_nat (length classify_table) = 4098.
Proof. vm_compute. reflexivity. Qed.

Lemma table_ok : forallb row_ok classify_table = true.
Proof. vm_compute. reflexivity. Qed.

Definition drow : crow := mkRow 0 false false false 0 false false false false false false false false false false 0 false.
Definition lookup (t : Z) : crow := nth (Z.to_nat (t + 2)) classify_table drow.

Lemma rows_from_nth : forall tab lo i, rows_from tab lo = true -> (i < length tab)%nat ->
  r_t (nth i tab drow) = lo + Z.of_nat i.
Proof.
  induction tab as [|r rest IH]; intros lo i H Hi; [cbn in Hi; lia|].
  cbn [rows_from] in H. apply andb_true_iff in H. destruct H as [H1 H2]. apply Z.eqb_eq in H1.
  destruct i as [|i]; cbn [nth].
  - lia.
  - rewrite (IH (lo + 1) i H2) by (cbn [length] in Hi; lia). lia.
Qed.

Lemma lookup_t t : -2 <= t <= 4095 -> r_t (lookup t) = t.
Proof.
  intros H. unfold lookup. pose proof table_length as L.
  rewrite (rows_from_nth classify_table (-2) _ table_rows) by lia. lia.
Qed.

(* every type and sentinel: its row is consistent *)
Theorem classification_consistent t : -2 <= t <= 4095 -> r_t (lookup t) = t /\ row_ok (lookup t) = true.
Proof.
  intros H. split; [apply lookup_t; exact H|].
  pose proof table_ok as A. rewrite forallb_forall in A. apply A.
  unfold lookup. apply nth_In. pose proof table_length as L. lia.
Qed.

(* the closed forms used by the rest of the model agree with what the code does *)
Lemma closed_forms_agree :
  forallb (fun r => Bool.eqb (msm4b (r_t r)) (r_msm4 r) && Bool.eqb (msm7b (r_t r)) (r_msm7 r) &&
                    Bool.eqb (msmb (r_t r)) (r_msm r) && (Z.of_N (constellation_code (r_t r)) =? r_const r))
          classify_table = true.
Proof. vm_compute. reflexivity. Qed.

(* Frame.v - model of the stream framing state machine of rtcm/handler:
   pushback.ByteChannel, eatUntilStartOfFrame, FetchNextMessageFrame,
   getMessageLengthAndType, CheckCRC, GetMessage, HandleMessages.
   The model follows the code's early returns one for one. *)
From NTRIP Require Import Base Bits Crc Time Classify.
From NTRIPGen Require Import GenConsts.
Open Scope N_scope.

Definition D3 : N := StartOfMessageFrame.

(* ---------- messages ---------- *)

Record msg := mkMsg {
  mtype : Z;              (* MessageType; -1 = non-RTCM *)
  raw : list N;           (* RawData *)
  merr : option err;      (* the error returned beside the message, if any *)
  memsg : option err;     (* the ErrorMessage field (kind of text), if set *)
  mts : N;                (* Timestamp (MSM only) *)
  msent : option (res Z); (* SentAt: the UTC instant or the error, MSM only *)
  msow : option Z;        (* StartOfWeek instant when the constellation is handled *)
}.

Definition non_rtcm (b : list N) : msg :=
  {| mtype := NonRTCMMessage; raw := b; merr := None; memsg := None; mts := 0; msent := None; msow := None |}.
Definition non_rtcm_err (b : list N) (e : err) (em : option err) : msg :=
  {| mtype := NonRTCMMessage; raw := b; merr := Some e; memsg := em; mts := 0; msent := None; msow := None |}.

(* ---------- getMessageLengthAndType ---------- *)

(* returns (length, type) or (type to report, error) *)
Definition get_len_type (b : list N) : res (N * Z) + (Z * err) :=
  if (length b <? N.to_nat LeaderLengthBytes + 2)%nat then inr (NonRTCMMessage, ErrTooShort)
  else match b with
  | [] => inr (NonRTCMMessage, ErrTooShort)
  | b0 :: _ =>
    if negb (b0 =? D3) then inr (NonRTCMMessage, ErrPreamble)
    else
      match get_u b 8 6, get_u b 14 10, get_u b 24 12 with
      | Ok sanity, Ok len, Ok ty =>
        if negb (sanity =? 0) then inr (NonRTCMMessage, ErrReserved)
        else if len =? 0 then inr (Z.of_N ty, ErrZeroLength)
        else inl (Ok (len, Z.of_N ty))
      | _, _, _ => inl Panic
      end
  end.

(* ---------- CheckCRC ---------- *)

Definition check_crc (frame : list N) : option err :=
  if (length frame <? N.to_nat (LeaderLengthBytes + CRCLengthBytes))%nat then Some ErrTooShort
  else
    let start := (length frame - N.to_nat CRCLengthBytes)%nat in
    let c := crc24q_hash (firstn start frame) in
    match skipn start frame with
    | [h; m; l] => if (crc_hi c =? h) && (crc_mi c =? m) && (crc_lo c =? l) then None else Some ErrCRC
    | _ => Some ErrCRC
    end.

(* ---------- GetMessage ---------- *)

(* the result of GetMessage: None = nil message (empty input), else the message;
   the returned error is the message's merr. *)
Definition get_message (h : hstate) (b : list N) : res (option msg * hstate) :=
  match b with
  | [] => Ok (None, h)
  | b0 :: _ =>
    if negb (b0 =? D3) then Ok (Some (non_rtcm b), h)
    else
      match get_len_type b with
      | inr (ty, e) =>
        Ok (Some {| mtype := ty; raw := b; merr := Some e; memsg := Some e; mts := 0; msent := None; msow := None |}, h)
      | inl Panic => Panic
      | inl (Err e) => Err e
      | inl (Ok (len, ty)) =>
        let expected := N.to_nat (len + LeaderLengthBytes + CRCLengthBytes) in
        if (length b <? expected)%nat then Ok (Some (non_rtcm_err b ErrIncomplete (Some ErrIncomplete)), h)
        else
          let frame := firstn expected b in
          match check_crc frame with
          | Some e => Ok (Some (non_rtcm_err b e None), h)
          | None =>
            if msmb ty then
              (* the message must be long enough to contain the timestamp *)
              if ((len + LeaderLengthBytes) * 8 <? hnd_timestampPosition + hdr_LenTimeStamp) then
                Ok (Some {| mtype := ty; raw := frame; merr := Some ErrTooShort; memsg := Some ErrTooShort; mts := 0;
                            msent := None; msow := None |}, h)
              else
                ts <- get_u b (N.to_nat hnd_timestampPosition) (N.to_nat hdr_LenTimeStamp) ;;
                let '(t, h') := time_from_timestamp h ty ts in
                match t with
                | Panic => Panic
                | _ =>
                  Ok (Some {| mtype := ty; raw := frame;
                              merr := match t with Err e => Some e | _ => None end;
                              memsg := match t with Err e => Some e | _ => None end;
                              mts := ts; msent := Some t; msow := start_of_week h' ty |}, h')
                end
            else
              Ok (Some {| mtype := ty; raw := frame; merr := None; memsg := None; mts := 0; msent := None; msow := None |}, h)
          end
      end
  end.

(* ---------- pushback.ByteChannel over a finite input ---------- *)

Record pstate := mkP { pb : list N; rest : list N }.

Definition next_byte (s : pstate) : option (N * pstate) :=
  match pb s with
  | b :: p => Some (b, {| pb := p; rest := rest s |})
  | [] => match rest s with
          | b :: r => Some (b, {| pb := []; rest := r |})
          | [] => None
          end
  end.

Definition push_back (s : pstate) (b : N) : pstate := {| pb := pb s ++ [b]; rest := rest s |}.

(* eatUntilStartOfFrame: (bytes eaten, state, hit the end of the input) *)
Fixpoint eat_list (l : list N) (acc : list N) : list N * list N * bool :=
  match l with
  | [] => (acc, [], true)
  | b :: l' => if b =? D3 then (b :: acc, l', false) else eat_list l' (b :: acc)
  end.

Definition eat (s : pstate) : list N * pstate * bool :=
  let '(acc1, pb', e1) := eat_list (pb s) [] in
  if e1 then
    let '(acc2, rest', e2) := eat_list (rest s) acc1 in
    (rev acc2, {| pb := []; rest := rest' |}, e2)
  else (rev acc1, {| pb := pb'; rest := rest s |}, false).

(* read up to n more bytes onto frame; false = the input ended first *)
Fixpoint read_n (n : nat) (s : pstate) (frame : list N) : list N * pstate * bool :=
  match n with
  | O => (frame, s, true)
  | S k => match next_byte s with
           | None => (frame, s, false)
           | Some (b, s') => read_n k s' (frame ++ [b])
           end
  end.

(* ---------- FetchNextMessageFrame ---------- *)

(* None = "done" *)
Definition fetch (h : hstate) (s : pstate) : res (option (msg * hstate * pstate)) :=
  let '(frame, s1, ended) := eat s in
  if ended && (length frame =? 0)%nat then Ok None
  else if (1 <? length frame)%nat then
    if last frame 0 =? D3
    then Ok (Some (non_rtcm (removelast frame), h, push_back s1 D3))
    else Ok (Some (non_rtcm frame, h, s1))
  else
    (* phase 2: the rest of the leader and the first two bytes of the message *)
    let '(frame2, s2, ok2) := read_n (N.to_nat hnd_leaderAndMessageLength - 1) s1 frame in
    if negb ok2 then Ok (Some (non_rtcm frame2, h, s2))
    else
      match get_len_type frame2 with
      | inr _ => Ok (Some (non_rtcm frame2, h, s2))
      | inl Panic => Panic
      | inl (Err e) => Err e
      | inl (Ok (len, _)) =>
        (* phase 3: the rest of the frame *)
        let want := (N.to_nat (len + LeaderLengthBytes + CRCLengthBytes) - length frame2)%nat in
        let '(frame3, s3, ok3) := read_n want s2 frame2 in
        if negb ok3 then Ok (Some (non_rtcm frame3, h, s3))
        else
          (* phase 4 *)
          r <- get_message h frame3 ;;
          match r with
          | (Some m, h') => Ok (Some (m, h', s3))
          | (None, _) => Panic        (* *message of a nil message *)
          end
      end.

(* ---------- HandleMessages over a finite input ---------- *)

Fixpoint handle (fuel : nat) (h : hstate) (s : pstate) : res (list msg * hstate) :=
  match fuel with
  | O => Err ErrFuel
  | S f =>
    r <- fetch h s ;;
    match r with
    | None => Ok ([], h)
    | Some (m, h', s') =>
      r' <- handle f h' s' ;;
      Ok (m :: fst r', snd r')
    end
  end.

Definition handle_stream (h : hstate) (input : list N) : res (list msg * hstate) :=
  handle (S (length input)) h {| pb := []; rest := input |}.

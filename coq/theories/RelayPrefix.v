(* RelayPrefix.v - the proxy's queue at every moment holds a prefix of the messages framed from the client's bytes. *)
From Coq Require Import List Arith Lia Bool.
Import ListNotations.
From NTRIP Require Import Net NetLocal Pipe Relay.
From NTRIP Require Import PipePrefix.
Arguments procs {St V Ev}. Arguments chans {St V Ev}. Arguments outs {St V Ev}.

Section RP.
  Variables B M FS : Type.
  Variable fstep : FS -> B -> FS * list M.
  Variable sync : nat -> bool.

  (* after ANY number of steps of ANY schedule the queue has been given a prefix of the messages that sequential
     framing finds in the client's bytes: nothing is ever listed that is not (about to be) relayed, in order *)
  Theorem relay_queue_prefix_always cap0 cap1 chunks s0 : 1 <= cap0 -> 1 <= cap1 ->
    forall m c,
      steps _ (nstep _ _ _ (Relay.prog B M FS fstep sync) Relay.sender Relay.receiver (QDead B M FS)) m
            (Relay.init B M FS cap0 cap1 chunks s0) c ->
      exists rest, map (EvQ B M) (fst (frun B M FS fstep s0 (concat chunks))) = queue_adds B M FS c ++ rest.
  Proof.
    intros H0 H1 m c Hm.
    destruct (relay_every_schedule B M FS fstep sync cap0 cap1 chunks s0 H0 H1) as [n Hn].
    destruct (Hn m c Hm) as (_ & Hrest & _).
    assert (L0 : length (outs (Relay.init B M FS cap0 cap1 chunks s0)) = length (procs (Relay.init B M FS cap0 cap1 chunks s0))) by reflexivity.
    pose proof (lengths_preserved _ _ _ _ _ _ _ _ _ _ Hm L0) as Hlen.
    destruct (outs_monotone _ _ _ _ _ _ _ 2 _ _ _ Hrest Hlen) as [ext He].
    exists ext. unfold queue_adds. rewrite <- He. reflexivity.
  Qed.
End RP.

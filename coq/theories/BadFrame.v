(* BadFrame.v - C12, the full-message form: a corrupted frame met at a frame boundary is delivered
   alone as non-RTCM data and leaves NOTHING behind - the handler's state (time history) and the
   scanner's position are exactly what they would be if the frame's bytes were not there.  So
   everything that follows, whatever it is - full messages including their times, and the
   final handler state - is what the handler delivers for the rest of the stream. *)
From Coq Require Import List Arith NArith ZArith Lia Bool.
Import ListNotations.
From NTRIPGen Require Import GenConsts.
From NTRIP Require Import Base Bits Time Classify Frame FrameSpec FrameProofs SegProofs.

Theorem bad_frame_transparent h f' : bad_frame f' ->
  exists m, core m = ((-1)%Z, f') /\
    forall fuel rest,
      handle (S fuel) h (st (f' ++ rest)) =
      match handle fuel h (st rest) with
      | Ok (ms, h') => Ok (m :: ms, h')
      | Err e => Err e
      | Panic => Panic
      end.
Proof.
  intros B.
  destruct (bad_frame_checks f' B) as (len & ty' & HG & HL & HC & H0).
  pose proof (get_len_type_ok _ _ _ HG) as (H5 & _).
  destruct (get_message_bad_frame h f' B) as (m & Hgm & Hcore).
  exists m. split; [exact Hcore|]. intros fuel rest.
  pose proof (fetch_framelike h (st (f' ++ rest)) f' rest len _ (pb_ok_st _) eq_refl H0
                (eq_trans (get_len_type_first5 f' H5) HG) HL) as Hfe.
  rewrite Hgm in Hfe. cbn [bind] in Hfe.
  rewrite (handle_step fuel h _ _ _ _ Hfe).
  destruct (handle fuel h (st rest)) as [[ms h']| |]; reflexivity.
Qed.

(* P_C18.v - the theorems of property C18 and nothing else: each is closed by [exact <lemma>]
   (or a one-line instantiation) and followed by Print Assumptions.  One file per property, importing only
   what that property's statements need, so that a change which breaks one property's proof leaves the
   others' theorems checkable. *)
From NTRIP Require Import Base Queue QueueProofs.
From NTRIP Require ConcQueue NetExamples.
From NTRIPGen Require Import GenConsts.

(* ===================== C18 (sequential part) ===================== *)
(* For a queue of capacity N >= 1 and every sequence of additions, a snapshot returns exactly
   the most recent min(N, number added) messages in the order they were added, and the queue
   never holds more than N. *)
Theorem C18_last_n : forall (A : Type) (n : nat) (xs : list A), (1 <= n)%nat ->
  let q := fold_left qadd xs (new_queue n) in
  snapshot q = lastn (Nat.min n (length xs)) xs /\ (length (q_items q) <= n)%nat.
Proof. exact queue_last_n. Qed.
Print Assumptions C18_last_n.

Example C18_example :
  snapshot (fold_left qadd [1; 2; 3; 4; 5]%N (new_queue 3)) = [3; 4; 5]%N.
Proof. vm_compute. reflexivity. Qed.

(* The concurrent half (ConcQueue.v): any number of goroutines, each running any sequence of
   Add and GetMessages calls, under the queue's RWMutex.  The bodies are not atomic in the
   model (evict / insert, read keys / collect items are separate steps on the shared map); the
   facts queue_add_locked / queue_get_locked, regenerated from the source on every run, say that
   Add runs entirely under the write lock and GetMessages entirely under the read lock.
   For every schedule and every reachable configuration: every snapshot any goroutine has been
   given is the last min(N, k) of the first k additions in commit order, for some k - a
   contiguous run of the addition order - and the committed operations form a legal sequential
   history of the queue of C18_last_n in which each operation lies between its call and its
   return and each goroutine's results are the results of its own operations (linearizability);
   the abstract queue never holds more than N, and whenever no writer is inside Add the shared
   queue IS the abstract queue. *)
Theorem C18_concurrent_snapshots : forall (A : Type) (cap : nat) (wpref : bool) prog c, (1 <= cap)%nat ->
  ConcQueue.reach A queue_add_locked queue_get_locked wpref (ConcQueue.init A cap prog) c ->
  forall i l, In (ConcQueue.RGet A l) (ConcQueue.outs A c i) ->
  exists pre suf, ConcQueue.added A c = pre ++ suf /\ l = lastn (Nat.min cap (length pre)) pre.
Proof. intros A cap wpref prog c Hc. exact (ConcQueue.snapshots_are_last_n A cap Hc _ _ wpref eq_refl eq_refl prog c). Qed.
Print Assumptions C18_concurrent_snapshots.

Theorem C18_linearizable : forall (A : Type) (cap : nat) (wpref : bool) prog c, (1 <= cap)%nat ->
  ConcQueue.reach A queue_add_locked queue_get_locked wpref (ConcQueue.init A cap prog) c ->
  ConcQueue.legal A (new_queue cap) (ConcQueue.hist A c) (ConcQueue.absq A c) /\
  (forall i, exists p, ConcQueue.proj A i (ConcQueue.hist A c) = ConcQueue.outs A c i ++ p /\ (length p <= 1)%nat) /\
  (length (q_items (ConcQueue.absq A c)) <= cap)%nat /\
  ((forall i, ConcQueue.holdsW A queue_add_locked (ConcQueue.th A c i) = false) -> ConcQueue.shq A c = ConcQueue.absq A c).
Proof. intros A cap wpref prog c Hc. exact (ConcQueue.linearizable A cap Hc _ _ wpref eq_refl eq_refl prog c). Qed.
Print Assumptions C18_linearizable.

(* No deadlock: n goroutines use the queue; in every configuration (reachable or not) in which the others are
   idle, if some goroutine has not finished its program then some goroutine can take a step - with or
   without Go's rule that a waiting writer keeps new readers out (wpref). *)
Theorem C18_no_deadlock : forall (A : Type) (wpref : bool) (n : nat) (c : ConcQueue.conf A),
  ConcQueue.quiet_above A n c -> (exists i, ConcQueue.th A c i <> ConcQueue.TIdle A []) ->
  exists c', ConcQueue.step A queue_add_locked queue_get_locked wpref c c'.
Proof. intros A wpref n c. exact (ConcQueue.no_deadlock A 1%nat (le_n 1) _ _ wpref eq_refl eq_refl n c). Qed.
Print Assumptions C18_no_deadlock.

(* Non-vacuity: with both locks in force, a goroutine adds 10 and 11 while another takes a snapshot in between:
   a reachable configuration in which the snapshot [10] has been handed out. *)
Example C18_concurrent_example :
  exists c, ConcQueue.reach nat true true true (ConcQueue.init nat 2%nat NetExamples.cq_prog) c /\
            ConcQueue.outs nat c 1%nat = [ConcQueue.RGet nat [10]%nat] /\ ConcQueue.added nat c = [10; 11]%nat.
Proof. exact NetExamples.concqueue_example. Qed.


(* The locks matter in this model: with Add NOT taking the write lock (queue_add_locked = false) there is
   a schedule of three goroutines on a queue of capacity 1 after which the shared queue holds two
   messages - both later Adds evict before either inserts. *)
Theorem C18_unlocked_witness :
  exists c, ConcQueue.reach nat false true false (ConcQueue.init nat 1%nat ConcQueue.wprog) c /\
            (length (q_items (ConcQueue.shq nat c)) > 1)%nat.
Proof. exact ConcQueue.unlocked_exceeds_capacity. Qed.
Print Assumptions C18_unlocked_witness.

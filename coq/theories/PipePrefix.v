(* PipePrefix.v - what a process has emitted only grows; hence, in the pipeline, after any number of steps of any schedule
   every consumer holds a prefix of the framer's sequential output. *)
From Coq Require Import List Arith Lia Bool.
Import ListNotations.
From NTRIP Require Import Net NetLocal Pipe.
Arguments procs {St V Ev}. Arguments chans {St V Ev}. Arguments outs {St V Ev}.

Section Mono.
  Variables St V Ev : Type.
  Variable prog : St -> op St V Ev.
  Variables sender receiver : nat -> nat.
  Variable dSt : St.
  (* what a process has emitted only grows *)
  Lemma outs_monotone p n c c' :
    steps _ (nstep St V Ev prog sender receiver dSt) n c c' -> length (outs c) = length (procs c) ->
    exists ext, nth p (outs c') [] = nth p (outs c) [] ++ ext.
  Proof.
    intros Hn Hl.
    apply (local_invariant St V Ev prog sender receiver dSt p (fun _ o => exists ext, o = nth p (outs c) [] ++ ext)) with (n := n) (c0 := c); auto.
    - intros s o s' o' [ext ->] Hs. unfold local_step in Hs.
      destruct (prog s); try (destruct Hs as [_ ->]; exists ext; reflexivity).
      + destruct Hs as [_ ->]. exists (ext ++ [e]). rewrite app_assoc. reflexivity.
      + destruct Hs.
    - exists []. rewrite app_nil_r. reflexivity.
  Qed.
  Lemma lengths_preserved n c c' :
    steps _ (nstep St V Ev prog sender receiver dSt) n c c' -> length (outs c) = length (procs c) ->
    length (outs c') = length (procs c').
  Proof.
    induction 1 as [a|m' a b c' [q Hq] _ IH]; intros L0; [exact L0|].
    apply IH. destruct (step_local _ _ _ _ _ _ _ a q b 0 Hq L0) as (L & _ & _). exact L.
  Qed.
End Mono.

Section PP.
  Variables (B M FS : Type) (fstep : FS -> B -> FS * list M) (fflush : FS -> list M) (k : nat) (live sync : nat -> bool).

  Lemma init_lengths cap0 cap1 caps bs s0 :
    length (outs (Pipe.init B M FS k cap0 cap1 caps bs s0)) = length (procs (Pipe.init B M FS k cap0 cap1 caps bs s0)).
  Proof.
    unfold Pipe.init, mk, mkg, sinks. cbn [outs procs length]. rewrite repeat_length, map_length, seq_length. reflexivity.
  Qed.

  (* after ANY number of steps of ANY schedule every consumer holds a prefix of the sequential output *)
  Theorem pipeline_prefix_always cap0 cap1 caps bs s0 :
    1 <= cap0 -> 1 <= cap1 -> length caps = k -> Forall (fun c => 1 <= c) caps ->
    forall m c,
      steps _ (nstep _ _ _ (Pipe.prog B M FS fstep fflush k live sync) Pipe.sender Pipe.receiver (SkDone B M FS)) m
            (Pipe.init B M FS k cap0 cap1 caps bs s0) c ->
      forall i, i < k -> exists rest,
        (if live i then seqrun B M FS fstep fflush s0 bs else []) = sink_out B M FS c i ++ rest.
  Proof.
    intros H0 H1 Hl Hc m c Hm i Hi.
    destruct (pipeline_every_schedule B M FS fstep fflush k live sync cap0 cap1 caps bs s0 H0 H1 Hl Hc) as [n Hn].
    destruct (Hn m c Hm) as (_ & Hrest & _).
    pose proof (lengths_preserved _ _ _ _ _ _ _ _ _ _ Hm (init_lengths cap0 cap1 caps bs s0)) as Hlen.
    destruct (outs_monotone _ _ _ _ _ _ _ (3 + i) _ _ _ Hrest Hlen) as [ext He].
    exists ext. rewrite <- (fin_sinks B M FS fstep fflush k live cap0 cap1 caps bs s0 i Hi).
    unfold sink_out. exact He.
  Qed.
End PP.

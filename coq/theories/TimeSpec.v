(* TimeSpec.v - what the true times are, independently of the handler's algorithm:
   constellation week starts, timestamp encodings, observation histories. *)
From NTRIP Require Import Base Bits Crc Time FrameSpec.
Open Scope Z_scope.

Definition three_days : Z := 3 * 86400000000000.
Definition week : Z := 7 * 86400000000000.
Definition day : Z := 86400000000000.
Definition ms : Z := 1000000.

(* the greatest Sunday 00:00:00 UTC that is <= t (1970-01-04 was a Sunday) *)
Definition sunday_floor (t : Z) : Z := (t - three_days) / week * week + three_days.

(* how far the constellation's clock is ahead of UTC *)
Definition ahead (c : constellation) : Z :=
  match c with
  | GPS | Galileo => 18 * 1000000000
  | Beidou => 4 * 1000000000
  | Glonass => 3 * 3600 * 1000000000
  end.

(* start of the constellation week containing the instant u:
   GPS/Galileo weeks start 18 s and BeiDou weeks 4 s before Sunday 00:00 UTC,
   GLONASS weeks at Sunday 00:00 Moscow time (UTC+3). *)
Definition week_start (c : constellation) (u : Z) : Z :=
  sunday_floor (u + ahead c) - ahead c.

(* the 30-bit timestamp of an observation made at u (u a whole number of milliseconds) *)
Definition enc (c : constellation) (u : Z) : N :=
  let off := u - week_start c u in
  match c with
  | Glonass => Z.to_N ((off / day) * 134217728 + (off mod day) / ms)
  | _ => Z.to_N (off / ms)
  end.

Definition msm_type (c : constellation) (k7 : bool) : N :=
  match c, k7 with
  | GPS, false => 1074 | GPS, true => 1077
  | Glonass, false => 1084 | Glonass, true => 1087
  | Galileo, false => 1094 | Galileo, true => 1097
  | Beidou, false => 1124 | Beidou, true => 1127
  end%N.

(* a minimal CRC-valid MSM frame that carries the given timestamp *)
Definition msm_time_frame (c : constellation) (k7 : bool) (station ts : N) : list N :=
  frame_of_payload (bytes_of_bits (put_u 12 (msm_type c k7) ++ put_u 12 station ++ put_u 30 ts ++ [false; false])).

Inductive event :=
| Obs (c : constellation) (k7 : bool) (u : Z)      (* an observation made at the true instant u *)
| Bad (c : constellation) (k7 : bool) (ts : N).    (* a message carrying an illegal timestamp *)

Definition legal_ts (c : constellation) (ts : N) : bool :=
  match c with
  | Glonass => (N.shiftr ts 27 <? 7)%N && (N.land ts 134217727 <? 86400000)%N
  | _ => (ts <? 604800000)%N
  end.

Definition event_frame (e : event) : list N :=
  match e with
  | Obs c k u => msm_time_frame c k 0 (enc c u)
  | Bad c k ts => msm_time_frame c k 0 ts
  end.

(* the last observation instant of constellation c seen so far *)
Definition last_obs := constellation -> option Z.
Definition c_eqb (a b : constellation) : bool :=
  match a, b with GPS, GPS | Galileo, Galileo | Glonass, Glonass | Beidou, Beidou => true | _, _ => false end.
Definition upd_last (l : last_obs) (c : constellation) (u : Z) : last_obs :=
  fun c' => if c_eqb c c' then Some u else l c'.

Definition six_days : Z := 6 * 86400000000000.

(* C06's precondition, checked event by event; [need_after] = the first observation of a
   constellation must not be earlier than T (C06); C17 drops that requirement. *)
Fixpoint admissible_from (need_after : bool) (T : Z) (l : last_obs) (evs : list event) : bool :=
  match evs with
  | [] => true
  | Bad c _ ts :: rest => negb (legal_ts c ts) && (ts <? 1073741824)%N && admissible_from need_after T l rest
  | Obs c _ u :: rest =>
    (u mod ms =? 0) &&
    (match l c with
     | None => (week_start c u =? week_start c T) && (if need_after then T <=? u else true)
     | Some u0 => (u0 <=? u) && (u - u0 <? six_days)
     end) &&
    admissible_from need_after T (upd_last l c u) rest
  end.
Definition admissibleb (need_after : bool) (T : Z) (evs : list event) : bool :=
  admissible_from need_after T (fun _ => None) evs.

(* what must be reported for an event: the UTC time and the start of the week, or an error *)
Definition answer (e : event) : option (Z * Z) :=
  match e with
  | Obs c _ u => Some (u, week_start c u)
  | Bad _ _ _ => None
  end.

(* FloatMore.v - binary64 error bounds for the remaining C08 pipelines: phase range in cycles,
   phase range rate in m/s and Doppler in Hz (Flocq), for every frequency of the wavelength table. *)
From Coq Require Import ZArith NArith Reals Floats Lia Lra Psatz Bool.
From Flocq Require Import Core.
From Flocq Require Import IEEE754.BinarySingleNaN IEEE754.PrimFloat.
From Flocq Require Import Relative.
From Interval Require Import Tactic.
From NTRIP Require Import Bits Range FloatProofs.
Open Scope R_scope.

Lemma B2R_const (x : PrimFloat.float) (m : positive) (e : Z) :
  Prim2SF x = S754_finite false m e -> B2R (Prim2B x) = F2R (Float radix2 (Zpos m) e).
Proof. intros H. unfold Prim2B. rewrite B2R_SF2B, H. reflexivity. Qed.

Lemma B2R_1e4 : B2R (Prim2B c_1e4) = 10000.
Proof. rewrite (B2R_const c_1e4 5497558138880000 (-39)) by (vm_compute; reflexivity). unfold F2R. simpl. lra. Qed.
Lemma B2R_c_light : B2R (Prim2B c_light) = 299792458.
Proof. rewrite (B2R_const c_light 5029682823036928 (-24)) by (vm_compute; reflexivity). unfold F2R. simpl. lra. Qed.
Lemma B2R_two31 : B2R (Prim2B two31f) = 2147483648.
Proof. rewrite (B2R_const two31f 4503599627370496 (-21)) by (vm_compute; reflexivity). unfold F2R. simpl. lra. Qed.
Lemma B2R_m1 : B2R (Prim2B (-1)%float) = -1.
Proof.
  unfold Prim2B. rewrite B2R_SF2B.
  replace (Prim2SF (-1)%float) with (S754_finite true 4503599627370496 (-52)) by (vm_compute; reflexivity).
  simpl. unfold F2R. simpl. lra.
Qed.

(* ---------- one division ---------- *)
Lemma div_rel (a c : PrimFloat.float) (A C : R) :
  B2R (Prim2B a) = A -> B2R (Prim2B c) = C -> C <> 0 ->
  1 / 1048576 <= Rabs (A / C) <= 1152921504606846976 ->
  exists eps, Rabs eps <= 1 / 9007199254740992 /\ B2R (Prim2B (a / c)%float) = A / C * (1 + eps).
Proof.
  intros HA HC HC0 Hr. rewrite div_equiv.
  generalize (Bdiv_correct prec emax Hprec Hmax mode_NE (Prim2B a) (Prim2B c)).
  rewrite HA, HC.
  destruct (relative_error_N_FLT_ex radix2 (3 - emax - prec) prec (refl_equal _) (fun x => negb (Z.even x)) (A / C)) as [eps [Heps Hrd]].
  { apply Rle_trans with (1 / 1048576); [|apply Hr]. unfold emax, prec. simpl. interval. }
  change (round radix2 (FLT_exp (3 - emax - prec) prec) (Znearest (fun x : Z => negb (Z.even x)))) with rnd in Hrd.
  change (round radix2 (SpecFloat.fexp prec emax) (round_mode mode_NE) (A / C)) with (rnd (A / C)).
  rewrite Hrd.
  assert (Heps' : Rabs eps <= 1 / 9007199254740992).
  { eapply Rle_trans. exact Heps.
    replace (bpow radix2 (- prec + 1)) with (/ 4503599627370496).
    lra. unfold prec. change (-53 + 1)%Z with (-52)%Z. unfold bpow.
    replace (Z.pow_pos radix2 52) with 4503599627370496%Z by (vm_compute; reflexivity). reflexivity. }
  intros H. specialize (H HC0).
  rewrite Rlt_bool_true in H.
  - destruct H as [H _]. exists eps. split; [exact Heps'|exact H].
  - rewrite Rabs_mult.
    apply Rle_lt_trans with (1152921504606846976 * (1 + 1 / 9007199254740992)).
    + apply Rmult_le_compat; try apply Rabs_pos; [apply Hr|].
      eapply Rle_trans; [apply Rabs_triang|]. rewrite Rabs_R1. lra.
    + unfold emax. interval.
Qed.

(* ---------- phase range rate: float64(A) / 10000 ---------- *)
(* one rounding: the relative error is at most 2^-53 *)
Theorem rate_error : forall a : Z, (a <> 0)%Z -> (- 2 ^ 40 < a < 2 ^ 40)%Z ->
  let exact := IZR a / 10000 in
  Rabs (B2R (Prim2B (rate_ms a)) - exact) <= Rabs exact / 9007199254740992.
Proof.
  intros a Hnz Ha exact. unfold rate_ms.
  assert (H53 : (- 2 ^ 53 < a < 2 ^ 53)%Z) by (assert (2 ^ 40 < 2 ^ 53)%Z by (apply Z.pow_lt_mono_r; lia); lia).
  assert (Habs : 1 <= Rabs (IZR a) < 1099511627776).
  { rewrite <- abs_IZR. split; [apply IZR_le; lia|apply IZR_lt; change (Z.abs a < 2 ^ 40)%Z; lia]. }
  destruct (div_rel (f_of_Z a) c_1e4 (IZR a) 10000 (B2R_f_of_Z a Hnz H53) B2R_1e4) as [eps [He Hm]]; [lra| |].
  { unfold Rdiv. rewrite Rabs_mult, (Rabs_pos_eq (/ 10000)) by lra. split; lra. }
  rewrite Hm. unfold exact.
  replace (IZR a / 10000 * (1 + eps) - IZR a / 10000) with (IZR a / 10000 * eps) by ring.
  rewrite Rabs_mult. unfold Rdiv at 3.
  apply Rmult_le_compat_l; [apply Rabs_pos|]. lra.
Qed.

(* ---------- phase range in cycles ---------- *)
Lemma scale31_exact : forall S : Z, (0 < S < 2 ^ 41)%Z -> rnd (IZR S / 2147483648) = IZR S / 2147483648.
Proof.
  intros S HS. apply round_generic; auto with typeclass_instances.
  replace (IZR S / 2147483648) with (F2R (Float radix2 S (-31))).
  2:{ unfold F2R. simpl. change (Z.pow_pos 2 31) with 2147483648%Z. field. }
  apply generic_format_F2R. intros _.
  unfold cexp, FLT_exp.
  assert (Hm : (mag radix2 (F2R (Float radix2 S (-31))) <= 10)%Z).
  { apply mag_le_bpow.
    - unfold F2R. simpl. apply Rmult_integral_contrapositive_currified.
      + apply Rgt_not_eq, Rlt_gt, IZR_lt; lia.
      + apply Rgt_not_eq. apply Rinv_0_lt_compat. apply IZR_lt. reflexivity.
    - unfold F2R. simpl. change (Z.pow_pos 2 31) with 2147483648%Z.
      rewrite Rabs_mult, <- abs_IZR, (Rabs_pos_eq (/ 2147483648)) by (apply Rlt_le, Rinv_0_lt_compat; lra).
      assert (IZR (Z.abs S) < 2199023255552) by (apply IZR_lt; change (Z.abs S < 2 ^ 41)%Z; lia).
      change (bpow radix2 10) with 1024. lra. }
  unfold prec, emax. lia.
Qed.

Lemma div31_exact : forall S : Z, (0 < S < 2 ^ 41)%Z ->
  B2R (Prim2B (of_uint63 (Uint63.of_Z S) / two31f)%float) = IZR S / 2147483648.
Proof.
  intros S HS. rewrite div_equiv.
  assert (H53 : (0 < S < 2 ^ 53)%Z) by (assert (2 ^ 41 < 2 ^ 53)%Z by (apply Z.pow_lt_mono_r; lia); lia).
  generalize (Bdiv_correct prec emax Hprec Hmax mode_NE (Prim2B (of_uint63 (Uint63.of_Z S))) (Prim2B two31f)).
  rewrite (B2R_of_pos S H53), B2R_two31.
  change (round radix2 (SpecFloat.fexp prec emax) (round_mode mode_NE) (IZR S / 2147483648)) with (rnd (IZR S / 2147483648)).
  rewrite (scale31_exact S HS).
  intros H. specialize (H ltac:(lra)).
  rewrite Rlt_bool_true in H.
  - destruct H as [H _]. exact H.
  - assert (1 <= IZR S) by (apply IZR_le; lia). assert (IZR S < 2199023255552) by (apply IZR_lt; change (S < 2 ^ 41)%Z; lia).
    rewrite Rabs_pos_eq by (unfold Rdiv; apply Rmult_le_pos; lra).
    apply Rlt_trans with 1024; [lra|]. unfold emax. interval.
Qed.

(* the wavelength c / f of a carrier of F Hz (1 to 2 GHz): one rounding *)
Lemma wavelength_rel (f : PrimFloat.float) (F : Z) : B2R (Prim2B f) = IZR F -> (1000000000 <= F <= 2000000000)%Z ->
  exists e3, Rabs e3 <= 1 / 9007199254740992 /\ B2R (Prim2B (c_light / f)%float) = 299792458 / IZR F * (1 + e3).
Proof.
  intros Hf HF.
  assert (H1 : 1000000000 <= IZR F <= 2000000000) by (split; apply IZR_le; lia).
  apply (div_rel c_light f 299792458 (IZR F) B2R_c_light Hf); [lra|].
  rewrite Rabs_pos_eq by (unfold Rdiv; apply Rmult_le_pos; [lra|apply Rlt_le, Rinv_0_lt_compat; lra]).
  split.
  - apply Rle_trans with (299792458 / 2000000000); [lra|]. unfold Rdiv. apply Rmult_le_compat_l; [lra|].
    apply Rinv_le_contravar; lra.
  - apply Rle_trans with (299792458 / 1000000000); [|lra]. unfold Rdiv. apply Rmult_le_compat_l; [lra|].
    apply Rinv_le_contravar; lra.
Qed.

(* PhaseRange: ((float64(S) / 2^31) * OneLightMillisecond) / wavelength against S/2^31 ms x F/1000 cycles per ms:
   three roundings and the representation error of 299792.458; relative error below 2^-50 *)
Theorem phase_error : forall (S : N) (f : PrimFloat.float) (F : Z), (0 < S < 2 ^ 41)%N ->
  B2R (Prim2B f) = IZR F -> (1000000000 <= F <= 2000000000)%Z ->
  let exact := IZR (Z.of_N S) / 2147483648 * (IZR F / 1000) in
  Rabs (B2R (Prim2B (phase_cycles S (c_light / f)%float)) - exact) <= exact / 1125899906842624.
Proof.
  intros S f F HS Hf HF exact. unfold phase_cycles, f_of_N.
  assert (HZ : (0 < Z.of_N S < 2 ^ 41)%Z) by lia.
  destruct (N.ltb_spec S two63) as [_|C]; [|unfold two63 in C; lia].
  set (c := IZR 5150395210789814 * / IZR (2 ^ 34)).
  assert (Hc : 299792 <= c <= 299793) by (unfold c; split; interval).
  assert (Hx1 : 1 <= IZR (Z.of_N S)) by (apply IZR_le; lia).
  assert (Hx2 : IZR (Z.of_N S) < 2199023255552) by (apply IZR_lt; change (Z.of_N S < 2 ^ 41)%Z; lia).
  assert (HF1 : 1000000000 <= IZR F <= 2000000000) by (split; apply IZR_le; lia).
  set (x := IZR (Z.of_N S) / 2147483648) in *.
  assert (Hx : 1 / 2147483648 <= x <= 1024) by (unfold x; split; lra).
  destruct (mul_rel _ c_light_ms _ c (div31_exact (Z.of_N S) HZ) B2R_c_ms) as [e1 [He1 Hm1]].
  { fold x. rewrite Rabs_pos_eq by nra. split; nra. }
  fold x in Hm1.
  destruct (wavelength_rel f F Hf HF) as [e3 [He3 Hw]].
  assert (Hb3 : - (1 / 9007199254740992) <= e3 <= 1 / 9007199254740992) by (apply Rabs_le_inv; exact He3).
  assert (Hb1 : - (1 / 9007199254740992) <= e1 <= 1 / 9007199254740992) by (apply Rabs_le_inv; exact He1).
  set (w := 299792458 / IZR F) in *.
  assert (Hwr : 149896229 / 1000000000 <= w <= 299792458 / 1000000000).
  { unfold w, Rdiv. split.
    - apply Rle_trans with (299792458 * / 2000000000); [lra|]. apply Rmult_le_compat_l; [lra|]. apply Rinv_le_contravar; lra.
    - apply Rmult_le_compat_l; [lra|]. apply Rinv_le_contravar; lra. }
  assert (Hwl : w * (1 + e3) <> 0) by (apply Rgt_not_eq, Rlt_gt, Rmult_lt_0_compat; lra).
  destruct (div_rel _ _ _ _ Hm1 Hw Hwl) as [e2 [He2 Hm2]].
  { assert (Hxc : 1 / 10000 <= x * c <= 1024 * 299793).
    { split; [apply Rle_trans with (1 / 2147483648 * 299792); [lra|]|]; apply Rmult_le_compat; lra. }
    assert (Hn : 1 / 20000 <= x * c * (1 + e1) <= 700000000).
    { split.
      - replace (1 / 20000) with (1 / 10000 * (1 / 2)) by field. apply Rmult_le_compat; lra.
      - apply Rle_trans with (1024 * 299793 * (1 + 1)); [|lra]. apply Rmult_le_compat; lra. }
    assert (Hd : 1 / 10 <= w * (1 + e3) <= 1).
    { split.
      - apply Rle_trans with (149896229 / 1000000000 * (1 / 2 + 1 / 4)); [lra|]. apply Rmult_le_compat; lra.
      - apply Rle_trans with (299792458 / 1000000000 * (1 + 1)); [|lra]. apply Rmult_le_compat; lra. }
    remember (x * c * (1 + e1)) as nn eqn:Enn. remember (w * (1 + e3)) as d eqn:Ed. clear Enn Ed.
    assert (Hq : 0 < nn / d) by (unfold Rdiv; apply Rmult_lt_0_compat; [lra|apply Rinv_0_lt_compat; lra]).
    rewrite Rabs_pos_eq by lra.
    split.
    - apply Rle_trans with (1 / 20000 * / 1); [lra|]. unfold Rdiv. apply Rmult_le_compat; try lra.
      apply Rinv_le_contravar; lra.
    - apply Rle_trans with (700000000 * / (1 / 10)); [|lra]. unfold Rdiv. apply Rmult_le_compat; try lra.
      + apply Rlt_le, Rinv_0_lt_compat; lra.
      + apply Rinv_le_contravar; lra. }
  assert (Hb2 : - (1 / 9007199254740992) <= e2 <= 1 / 9007199254740992) by (apply Rabs_le_inv; exact He2).
  rewrite Hm2. unfold exact. fold x.
  assert (HFw : IZR F = 299792458 / w) by (unfold w; field; lra).
  rewrite HFw.
  replace (x * c * (1 + e1) / (w * (1 + e3)) * (1 + e2) - x * (299792458 / w / 1000))
    with (x / w * (c * (1 + e1) / (1 + e3) * (1 + e2) - 299792458 / 1000)) by (field; nra).
  replace (x * (299792458 / w / 1000) / 1125899906842624) with (x / w * (299792458 / 1000 / 1125899906842624)) by (field; nra).
  assert (Hxw : 0 < x / w) by (unfold Rdiv; apply Rmult_lt_0_compat; [lra|apply Rinv_0_lt_compat; lra]).
  rewrite Rabs_mult, (Rabs_pos_eq (x / w)) by lra.
  apply Rmult_le_compat_l; [lra|].
  unfold c. clear - Hb1 Hb2 Hb3. interval with (i_prec 120).
Qed.

(* ---------- Doppler: ((float64(A) / 10000) / wavelength) * -1 ---------- *)
Theorem doppler_error : forall (a : Z) (f : PrimFloat.float) (F : Z), (a <> 0)%Z -> (- 2 ^ 40 < a < 2 ^ 40)%Z ->
  B2R (Prim2B f) = IZR F -> (1000000000 <= F <= 2000000000)%Z ->
  let exact := - (IZR a / 10000 * (IZR F / 299792458)) in
  Rabs (B2R (Prim2B (doppler a (c_light / f)%float)) - exact) <= Rabs exact / 1125899906842624.
Proof.
  intros a f F Hnz Ha Hf HF exact. unfold doppler, rate_ms.
  assert (H53 : (- 2 ^ 53 < a < 2 ^ 53)%Z) by (assert (2 ^ 40 < 2 ^ 53)%Z by (apply Z.pow_lt_mono_r; lia); lia).
  assert (Habs : 1 <= Rabs (IZR a) < 1099511627776).
  { rewrite <- abs_IZR. split; [apply IZR_le; lia|apply IZR_lt; change (Z.abs a < 2 ^ 40)%Z; lia]. }
  assert (HF1 : 1000000000 <= IZR F <= 2000000000) by (split; apply IZR_le; lia).
  destruct (div_rel (f_of_Z a) c_1e4 (IZR a) 10000 (B2R_f_of_Z a Hnz H53) B2R_1e4) as [e1 [He1 Hm1]]; [lra| |].
  { unfold Rdiv. rewrite Rabs_mult, (Rabs_pos_eq (/ 10000)) by lra. split; lra. }
  destruct (wavelength_rel f F Hf HF) as [e3 [He3 Hw]].
  assert (Hb1 : - (1 / 9007199254740992) <= e1 <= 1 / 9007199254740992) by (apply Rabs_le_inv; exact He1).
  assert (Hb3 : - (1 / 9007199254740992) <= e3 <= 1 / 9007199254740992) by (apply Rabs_le_inv; exact He3).
  set (w := 299792458 / IZR F) in *.
  assert (Hwr : 149896229 / 1000000000 <= w <= 299792458 / 1000000000).
  { unfold w, Rdiv. split.
    - apply Rle_trans with (299792458 * / 2000000000); [lra|]. apply Rmult_le_compat_l; [lra|]. apply Rinv_le_contravar; lra.
    - apply Rmult_le_compat_l; [lra|]. apply Rinv_le_contravar; lra. }
  assert (Hd : 1 / 10 <= w * (1 + e3) <= 1).
  { split.
    - apply Rle_trans with (149896229 / 1000000000 * (1 / 2 + 1 / 4)); [lra|]. apply Rmult_le_compat; lra.
    - apply Rle_trans with (299792458 / 1000000000 * (1 + 1)); [|lra]. apply Rmult_le_compat; lra. }
  assert (Hwl : w * (1 + e3) <> 0) by lra.
  (* the size of the rate *)
  set (r := IZR a / 10000 * (1 + e1)) in *.
  assert (Hr : 1 / 20000 <= Rabs r <= 220000000).
  { unfold r. rewrite Rabs_mult. unfold Rdiv. rewrite Rabs_mult, (Rabs_pos_eq (/ 10000)), (Rabs_pos_eq (1 + e1)) by lra.
    assert (Hu : 1 / 10000 <= Rabs (IZR a) * / 10000 <= 110000000) by lra.
    remember (Rabs (IZR a) * / 10000) as u eqn:Eu. clear Eu. split.
    - apply Rle_trans with (1 / 10000 * (1 / 2)); [lra|]. apply Rmult_le_compat; lra.
    - apply Rle_trans with (110000000 * (1 + 1)); [|lra]. apply Rmult_le_compat; lra. }
  destruct (div_rel _ _ _ _ Hm1 Hw Hwl) as [e2 [He2 Hm2]].
  { unfold Rdiv. rewrite Rabs_mult, Rabs_inv, (Rabs_pos_eq (w * (1 + e3))) by lra.
    remember (Rabs r) as ar. remember (w * (1 + e3)) as d. clear Heqar Heqd. split.
    - apply Rle_trans with (1 / 20000 * / 1); [lra|]. apply Rmult_le_compat; try lra. apply Rinv_le_contravar; lra.
    - apply Rle_trans with (220000000 * / (1 / 10)); [|lra]. apply Rmult_le_compat; try lra.
      + apply Rlt_le, Rinv_0_lt_compat; lra.
      + apply Rinv_le_contravar; lra. }
  assert (Hb2 : - (1 / 9007199254740992) <= e2 <= 1 / 9007199254740992) by (apply Rabs_le_inv; exact He2).
  set (q := r / (w * (1 + e3)) * (1 + e2)) in *.
  assert (Hq : 1 / 50000 <= Rabs q <= 5000000000).
  { unfold q. rewrite Rabs_mult, (Rabs_pos_eq (1 + e2)) by lra. unfold Rdiv. rewrite Rabs_mult, Rabs_inv, (Rabs_pos_eq (w * (1 + e3))) by lra.
    remember (Rabs r) as ar. remember (w * (1 + e3)) as d. clear Heqar Heqd.
    assert (Hv : 1 / 20000 <= ar * / d <= 2200000000).
    { split.
      - apply Rle_trans with (1 / 20000 * / 1); [lra|]. apply Rmult_le_compat; try lra. apply Rinv_le_contravar; lra.
      - apply Rle_trans with (220000000 * / (1 / 10)); [|lra]. apply Rmult_le_compat; try lra.
        + apply Rlt_le, Rinv_0_lt_compat; lra.
        + apply Rinv_le_contravar; lra. }
    remember (ar * / d) as v eqn:Ev. clear Ev. split.
    - apply Rle_trans with (1 / 20000 * (1 / 2)); [lra|]. apply Rmult_le_compat; lra.
    - apply Rle_trans with (2200000000 * (1 + 1)); [|lra]. apply Rmult_le_compat; lra. }
  destruct (mul_rel _ (-1)%float _ (-1) Hm2 B2R_m1) as [e4 [He4 Hm4]].
  { fold q. replace (q * -1) with (- q) by ring. rewrite Rabs_Ropp. split; lra. }
  assert (Hb4 : - (1 / 9007199254740992) <= e4 <= 1 / 9007199254740992) by (apply Rabs_le_inv; exact He4).
  rewrite Hm4. fold q. unfold exact, q, r.
  assert (HFw : IZR F / 299792458 = / w) by (unfold w; field; lra).
  rewrite HFw.
  set (A := IZR a / 10000).
  replace (A * (1 + e1) / (w * (1 + e3)) * (1 + e2) * -1 * (1 + e4) - - (A * / w))
    with (- (A * / w) * ((1 + e1) / (1 + e3) * (1 + e2) * (1 + e4) - 1)) by (field; lra).
  rewrite Rabs_mult. unfold Rdiv at 2.
  apply Rmult_le_compat_l; [apply Rabs_pos|].
  clear - Hb1 Hb2 Hb3 Hb4. interval with (i_prec 120).
Qed.

(* ---------- every frequency of the wavelength table is an integer number of Hz between 1 and 2 GHz ---------- *)
Lemma freq_table : forall c s : N,
  freq c s = 0%float \/ exists F : Z, B2R (Prim2B (freq c s)) = IZR F /\ (1000000000 <= F <= 2000000000)%Z.
Proof.
  intros c s. unfold freq. cbv zeta.
  repeat match goal with |- context [if ?b then _ else _] => destruct b end;
    try (left; reflexivity);
    right;
    match goal with |- exists F, B2R (Prim2B ?x) = _ /\ _ =>
      let sf := eval vm_compute in (Prim2SF x) in
      match sf with
      | S754_finite false ?m ?e =>
        let v := eval vm_compute in (Z.shiftr (Zpos m) (- e)) in
        exists v; split; [rewrite (B2R_const x m e) by (vm_compute; reflexivity); unfold F2R; simpl; lra|lia]
      end
    end.
Qed.

Lemma wavelength_table : forall c s : N,
  freq c s = 0%float \/
  exists F : Z, B2R (Prim2B (freq c s)) = IZR F /\ (1000000000 <= F <= 2000000000)%Z /\
                wavelength c s = (c_light / freq c s)%float.
Proof.
  intros c s. unfold wavelength, freq. cbv zeta.
  repeat match goal with |- context [if (?b : bool) then _ else _] =>
    match b with
    | PrimFloat.eqb _ _ => fail 1
    | _ => destruct b
    end end;
    try (left; reflexivity);
    right;
    match goal with |- exists F, B2R (Prim2B ?x) = _ /\ _ =>
      let sf := eval vm_compute in (Prim2SF x) in
      match sf with
      | S754_finite false ?m ?e =>
        let v := eval vm_compute in (Z.shiftr (Zpos m) (- e)) in
        exists v; split; [rewrite (B2R_const x m e) by (vm_compute; reflexivity); unfold F2R; simpl; lra|split; [lia|vm_compute; reflexivity]]
      end
    end.
Qed.

(* the statements for the tables of the code: every (constellation, signal) pair that has a wavelength *)
Theorem phase_error_table : forall (c s S : N), freq c s <> 0%float -> (0 < S < 2 ^ 41)%N ->
  exists F : Z, B2R (Prim2B (freq c s)) = IZR F /\
    let exact := IZR (Z.of_N S) / 2147483648 * (IZR F / 1000) in
    Rabs (B2R (Prim2B (phase_cycles S (wavelength c s))) - exact) <= exact / 1125899906842624.
Proof.
  intros c s S Hf HS. destruct (wavelength_table c s) as [C|(F & HF & Hr & Hw)]; [contradiction|].
  exists F. split; [exact HF|]. rewrite Hw. exact (phase_error S (freq c s) F HS HF Hr).
Qed.

Theorem doppler_error_table : forall (c s : N) (a : Z), freq c s <> 0%float -> (a <> 0)%Z -> (- 2 ^ 40 < a < 2 ^ 40)%Z ->
  exists F : Z, B2R (Prim2B (freq c s)) = IZR F /\
    let exact := - (IZR a / 10000 * (IZR F / 299792458)) in
    Rabs (B2R (Prim2B (doppler a (wavelength c s))) - exact) <= Rabs exact / 1125899906842624.
Proof.
  intros c s a Hf Hnz Ha. destruct (wavelength_table c s) as [C|(F & HF & Hr & Hw)]; [contradiction|].
  exists F. split; [exact HF|]. rewrite Hw. exact (doppler_error a (freq c s) F Hnz Ha HF Hr).
Qed.

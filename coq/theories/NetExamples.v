(* NetExamples.v - concrete reachable configurations showing that the hypotheses of the k-writer and the
   concurrent-queue theorems are satisfiable (complete schedules, built step by step). *)
From Coq Require Import List Arith Lia Bool ZArith.
Import ListNotations.
From NTRIP Require Import Base Queue QueueProofs.
From NTRIP Require Writers ConcQueue.
Local Open Scope nat_scope.

(* k = 2 writers on unbuffered channels, two messages, latency 1: a complete run; main has returned and both writers hold both messages *)
Example writers_example :
  exists c, Writers.reach nat 1 (fun _ => 1) (Writers.init nat (Writers.std_prog nat (fun _ => true) 2 [7; 8])) c /\
            Writers.returned nat c = true /\ Writers.wrote nat c 0 = [7; 8] /\ Writers.wrote nat c 1 = [7; 8].
Proof.
  pose proof (Writers.r_refl nat 1 (fun _ => 1) (Writers.init nat (Writers.std_prog nat (fun _ => true) 2 [7; 8]))) as R.
  Ltac nrm R := cbv beta iota delta [Writers.ops Writers.w Writers.buf Writers.closed Writers.done Writers.wrote Writers.returned Writers.waited] in R.
  Ltac wsend R i x := let R' := fresh "Rn" in match type of R with Writers.reach _ _ _ _ ?c =>
    pose proof (Writers.r_step nat 1 (fun _ => 1) _ c _ R (Writers.s_send nat 1 (fun _ => 1) c i x _ eq_refl eq_refl ltac:(cbn; lia))) as R' end; clear R; rename R' into R; nrm R.
  Ltac wrecv R i x := let R' := fresh "Rn" in match type of R with Writers.reach _ _ _ _ ?c =>
    pose proof (Writers.r_step nat 1 (fun _ => 1) _ c _ R (Writers.s_recv nat 1 (fun _ => 1) c i x [] eq_refl eq_refl)) as R' end; clear R; rename R' into R; nrm R.
  Ltac wtick R i x := let R' := fresh "Rn" in match type of R with Writers.reach _ _ _ _ ?c =>
    pose proof (Writers.r_step nat 1 (fun _ => 1) _ c _ R (Writers.s_tick nat 1 (fun _ => 1) c i x 0 eq_refl)) as R' end; clear R; rename R' into R; nrm R.
  Ltac wwrite R i x := let R' := fresh "Rn" in match type of R with Writers.reach _ _ _ _ ?c =>
    pose proof (Writers.r_step nat 1 (fun _ => 1) _ c _ R (Writers.s_write nat 1 (fun _ => 1) c i x eq_refl)) as R' end; clear R; rename R' into R; nrm R.
  Ltac wclose R i := let R' := fresh "Rn" in match type of R with Writers.reach _ _ _ _ ?c =>
    pose proof (Writers.r_step nat 1 (fun _ => 1) _ c _ R (Writers.s_close nat 1 (fun _ => 1) c i _ eq_refl eq_refl)) as R' end; clear R; rename R' into R; nrm R.
  Ltac weof R i := let R' := fresh "Rn" in match type of R with Writers.reach _ _ _ _ ?c =>
    pose proof (Writers.r_step nat 1 (fun _ => 1) _ c _ R (Writers.s_eof nat 1 (fun _ => 1) c i eq_refl eq_refl eq_refl)) as R' end; clear R; rename R' into R; nrm R.
  Ltac wdone R i := let R' := fresh "Rn" in match type of R with Writers.reach _ _ _ _ ?c =>
    pose proof (Writers.r_step nat 1 (fun _ => 1) _ c _ R (Writers.s_done nat 1 (fun _ => 1) c i eq_refl)) as R' end; clear R; rename R' into R; nrm R.
  Ltac wwait R i := let R' := fresh "Rn" in match type of R with Writers.reach _ _ _ _ ?c =>
    pose proof (Writers.r_step nat 1 (fun _ => 1) _ c _ R (Writers.s_wait nat 1 (fun _ => 1) c i _ eq_refl eq_refl)) as R' end; clear R; rename R' into R; nrm R.
  Ltac wawait R i := let R' := fresh "Rn" in match type of R with Writers.reach _ _ _ _ ?c =>
    pose proof (Writers.r_step nat 1 (fun _ => 1) _ c _ R (Writers.s_await nat 1 (fun _ => 1) c i _ eq_refl eq_refl)) as R' end; clear R; rename R' into R; nrm R.
  Ltac wret R := let R' := fresh "Rn" in match type of R with Writers.reach _ _ _ _ ?c =>
    pose proof (Writers.r_step nat 1 (fun _ => 1) _ c _ R (Writers.s_ret nat 1 (fun _ => 1) c _ eq_refl)) as R' end; clear R; rename R' into R; nrm R.
  wsend R 0 7. wrecv R 0 7. wawait R 0. wsend R 1 7. wrecv R 1 7. wawait R 1.
  wtick R 0 7. wwrite R 0 7. wtick R 1 7. wwrite R 1 7.
  wsend R 0 8. wrecv R 0 8. wawait R 0. wsend R 1 8. wrecv R 1 8. wawait R 1.
  wclose R 0. wclose R 1.
  wtick R 0 8. wwrite R 0 8. weof R 0. wdone R 0.
  wtick R 1 8. wwrite R 1 8. weof R 1. wdone R 1.
  wwait R 0. wwait R 1. wret R.
  eexists. split; [exact R|]. repeat split; vm_compute; reflexivity.
Qed.

(* two goroutines on a queue of capacity 2 with both locks in force: one adds 10 and 11, the other, in between,
   takes a snapshot - a reachable configuration in which a snapshot has been handed out *)
Definition cq_prog (i : nat) : list (ConcQueue.op nat) :=
  match i with O => [ConcQueue.OAdd nat 10; ConcQueue.OAdd nat 11] | S O => [ConcQueue.OGet nat] | _ => [] end.

Lemma nobody_holds (c : ConcQueue.conf nat) :
  (forall j, ConcQueue.holdsW nat true (ConcQueue.th nat c j) = false /\ ConcQueue.holdsR nat true (ConcQueue.th nat c j) = false) ->
  true = true -> forall j, ConcQueue.holdsW nat true (ConcQueue.th nat c j) = false /\ ConcQueue.holdsR nat true (ConcQueue.th nat c j) = false.
Proof. intros H _. exact H. Qed.

Example concqueue_example :
  exists c, ConcQueue.reach nat true true true (ConcQueue.init nat 2 cq_prog) c /\
            ConcQueue.outs nat c 1 = [ConcQueue.RGet nat [10]] /\ ConcQueue.added nat c = [10; 11].
Proof.
  pose proof (ConcQueue.r_refl nat true true true (ConcQueue.init nat 2 cq_prog)) as R.
  Ltac cnrm R := cbv beta iota delta [ConcQueue.th ConcQueue.shq ConcQueue.outs ConcQueue.hist ConcQueue.absq ConcQueue.added] in R.
  Ltac cstep R t := let R' := fresh "Rn" in match type of R with ConcQueue.reach _ _ _ _ _ ?c =>
    pose proof (ConcQueue.r_step nat true true true _ c _ R ltac:(t c)) as R' end; clear R; rename R' into R; cnrm R.
  (* no thread holds a lock: decided by computation on the three live threads, the rest are idle *)
  Ltac free := intros _ j; destruct j as [|[|j]]; split; reflexivity.
  cstep R ltac:(fun c => exact (ConcQueue.s_call_add nat true true true c 0 _ _ eq_refl)).
  cstep R ltac:(fun c => refine (ConcQueue.s_lock nat true true true c 0 _ _ eq_refl _); free).
  cstep R ltac:(fun c => exact (ConcQueue.s_evict nat true true true c 0 _ _ eq_refl)).
  cstep R ltac:(fun c => exact (ConcQueue.s_insert nat true true true c 0 _ _ eq_refl)).
  cstep R ltac:(fun c => exact (ConcQueue.s_unlock nat true true true c 0 _ eq_refl)).
  cstep R ltac:(fun c => exact (ConcQueue.s_call_get nat true true true c 1 _ eq_refl)).
  cstep R ltac:(fun c => refine (ConcQueue.s_rlock nat true true true c 1 _ eq_refl _ _); [intros _ j; destruct j as [|[|j]]; reflexivity|intros _ _ j x r'; destruct j as [|[|j]]; discriminate]).
  cstep R ltac:(fun c => exact (ConcQueue.s_keys nat true true true c 1 _ eq_refl)).
  cstep R ltac:(fun c => exact (ConcQueue.s_collect nat true true true c 1 _ _ eq_refl)).
  cstep R ltac:(fun c => exact (ConcQueue.s_runlock nat true true true c 1 _ _ eq_refl)).
  cstep R ltac:(fun c => exact (ConcQueue.s_call_add nat true true true c 0 _ _ eq_refl)).
  cstep R ltac:(fun c => refine (ConcQueue.s_lock nat true true true c 0 _ _ eq_refl _); free).
  cstep R ltac:(fun c => exact (ConcQueue.s_evict nat true true true c 0 _ _ eq_refl)).
  cstep R ltac:(fun c => exact (ConcQueue.s_insert nat true true true c 0 _ _ eq_refl)).
  eexists. split; [exact R|]. split; vm_compute; reflexivity.
Qed.

(* P_C14.v - the theorems of property C14 and nothing else: each is closed by [exact <lemma>]
   (or a one-line instantiation) and followed by Print Assumptions.  One file per property, importing only
   what that property's statements need, so that a change which breaks one property's proof leaves the
   others' theorems checkable. *)
From NTRIP Require Import Base Bits BitsProofs.

(* ===================== C14 ===================== *)
(* Unsigned extraction returns the integer whose binary digits are the addressed
   bits, most significant first, for every buffer, offset and width 1..64 lying
   inside the buffer. *)
Theorem C14_unsigned : forall buf pos len,
  (1 <= len <= 64)%nat -> (pos + len <= 8 * length buf)%nat ->
  get_u buf pos len = Ok (N_of_bits (slice (bits_of buf) pos len)).
Proof. intros buf pos len [_ H]. exact (get_u_spec buf pos len H). Qed.
Print Assumptions C14_unsigned.

(* Signed extraction returns the two's-complement value of the same bits. *)
Theorem C14_signed : forall buf pos len,
  (2 <= len <= 64)%nat -> (pos + len <= 8 * length buf)%nat ->
  get_s buf pos len = Ok (Z_of_bits_2c (slice (bits_of buf) pos len)).
Proof. exact get_s_spec. Qed.
Print Assumptions C14_signed.

(* Neither reads nor is influenced by any bit outside the field. *)
Theorem C14_locality : forall b1 b2 pos len,
  (1 <= len <= 64)%nat -> (pos + len <= 8 * length b1)%nat -> (pos + len <= 8 * length b2)%nat ->
  slice (bits_of b1) pos len = slice (bits_of b2) pos len ->
  get_u b1 pos len = get_u b2 pos len /\
  ((2 <= len)%nat -> get_s b1 pos len = get_s b2 pos len).
Proof. exact get_locality. Qed.
Print Assumptions C14_locality.

(* Non-vacuity: a 9-byte-spanning signed field that holds the minimum value. *)
Example C14_example :
  get_s [1; 0; 0; 0; 0; 0; 0; 0; 0]%N 7 64 = Ok (- 2 ^ 63)%Z /\
  get_u [211; 0; 19; 62; 208]%N 24 12 = Ok 1005%N.
Proof. split; vm_compute; reflexivity. Qed.


(* RangeProofs.v - C08, integer part: the scaled aggregates are exactly the standard's sums;
   the uint64/int64 wraps in the code are harmless on the fields' ranges; MSM4 and MSM7 cells
   that encode the same quantity give the same aggregate; invalid markers. *)
From NTRIP Require Import Base Bits BitsProofs Crc CrcProofs Range.
From NTRIPGen Require Import GenConsts.
From Coq Require Import ZifyN ZifyNat ZifyBool.
Open Scope N_scope.

Lemma lor_disjoint a b k : b < 2 ^ k -> N.lor (a * 2 ^ k) b = a * 2 ^ k + b.
Proof.
  intros Hb.
  assert (Hd : N.land (a * 2 ^ k) b = 0).
  { apply N.bits_inj. intros i. rewrite N.land_spec, N.bits_0.
    destruct (N.lt_ge_cases i k) as [Hi|Hi].
    - rewrite N.mul_pow2_bits_low by exact Hi. reflexivity.
    - rewrite (testbit_small b i), andb_false_r; [reflexivity|].
      apply N.lt_le_trans with (2 ^ k); [exact Hb|apply N.pow_le_mono_r; lia]. }
  rewrite <- N.lxor_lor by exact Hd. symmetry. apply N.add_nocarry_lxor. exact Hd.
Qed.

Lemma scaled_value_exact v1 s1 v2 s2 delta :
  s2 <= s1 -> v2 * 2 ^ s2 < 2 ^ s1 -> v1 * 2 ^ s1 + v2 * 2 ^ s2 < two63 ->
  (0 <= Z.of_N (v1 * 2 ^ s1 + v2 * 2 ^ s2) + delta < Z.of_N two63)%Z ->
  Z.of_N (scaled_value v1 s1 v2 s2 delta) = (Z.of_N (v1 * 2 ^ s1 + v2 * 2 ^ s2) + delta)%Z.
Proof.
  intros Hs H2 H63 Hd. unfold scaled_value.
  rewrite !N.shiftl_mul_pow2.
  assert (H64 : two63 < two64) by reflexivity.
  rewrite (N.mod_small (v1 * 2 ^ s1)) by lia.
  rewrite (N.mod_small (v2 * 2 ^ s2)) by lia.
  rewrite lor_disjoint by exact H2.
  unfold to_int64. destruct (N.ltb_spec (v1 * 2 ^ s1 + v2 * 2 ^ s2) two63) as [_|C]; [|lia].
  change (Z.of_N two64) with 18446744073709551616%Z. change (Z.of_N two63) with 9223372036854775808%Z in Hd.
  rewrite Z.mod_small by lia. rewrite Z2N.id by lia. reflexivity.
Qed.

(* pseudorange: whole ms x 2^29 + fractional x 2^19 + fine (MSM7 scale), a 37-bit non-negative value *)
Theorem scaled_range_exact w f d : w < 256 -> f < 1024 -> (- 2 ^ 19 <= d < 2 ^ 19)%Z ->
  (0 <= Z.of_N w * 2 ^ 29 + Z.of_N f * 2 ^ 19 + d)%Z ->
  Z.of_N (scaled_range w f d) = (Z.of_N w * 2 ^ 29 + Z.of_N f * 2 ^ 19 + d)%Z.
Proof.
  intros Hw Hf Hd Hnn. unfold scaled_range.
  rewrite scaled_value_exact; change two63 with 9223372036854775808 in *; change (2 ^ 29) with 536870912; change (2 ^ 19) with 524288; try lia.
Qed.

(* phase range: whole ms x 2^31 + fractional x 2^21 + fine phase (MSM7 scale) *)
Theorem scaled_phase_exact w f p : w < 256 -> f < 1024 -> (- 2 ^ 23 <= p < 2 ^ 23)%Z ->
  (0 <= Z.of_N w * 2 ^ 31 + Z.of_N f * 2 ^ 21 + p)%Z ->
  Z.of_N (scaled_phase w f p) = (Z.of_N w * 2 ^ 31 + Z.of_N f * 2 ^ 21 + p)%Z.
Proof.
  intros Hw Hf Hp Hnn. unfold scaled_phase.
  rewrite scaled_value_exact; change two63 with 9223372036854775808 in *; change (2 ^ 31) with 2147483648; change (2 ^ 21) with 2097152; try lia.
Qed.

(* range rate in 0.0001 m/s: rough x 10^4 + fine, signed; the int64 arithmetic does not wrap *)
Theorem scaled_rate_exact rough fine : (- 2 ^ 13 <= rough < 2 ^ 13)%Z -> (- 2 ^ 14 <= fine < 2 ^ 14)%Z ->
  scaled_rate rough fine = (rough * 10000 + fine)%Z.
Proof.
  intros Hr Hf. unfold scaled_rate, wrap_int64.
  change (Z.of_N two64) with 18446744073709551616%Z. change (Z.of_N two63) with 9223372036854775808%Z.
  repeat match goal with |- context [Z.ltb ?a ?b] => destruct (Z.ltb_spec a b) end; Z.div_mod_to_equations; lia.
Qed.

(* an MSM4 cell and the MSM7 cell encoding the same quantity (fine range x 32, fine phase x 4) agree,
   the invalid markers included *)
Theorem msm4_msm7_agree w f d4 p4 :
  agg_range4 w f d4 = agg_range7 w f (d4 * 32) /\ agg_phase4 w f p4 = agg_phase7 w f (p4 * 4).
Proof.
  unfold agg_range4, agg_range7, agg_phase4, agg_phase7.
  change InvalidRangeDelta4 with (-16384)%Z. change sig7_InvalidRangeDelta with (-524288)%Z.
  change InvalidPhaseRangeDelta4 with (-2097152)%Z. change sig7_InvalidPhaseRangeDelta with (-8388608)%Z.
  destruct (w =? InvalidRange); [split; reflexivity|]. split.
  - destruct (Z.eqb_spec d4 (-16384)) as [->|H1]; [reflexivity|].
    destruct (Z.eqb_spec (d4 * 32) (-524288)) as [H2|H2]; [lia|reflexivity].
  - destruct (Z.eqb_spec p4 (-2097152)) as [->|H1]; [reflexivity|].
    destruct (Z.eqb_spec (p4 * 4) (-8388608)) as [H2|H2]; [lia|reflexivity].
Qed.

(* invalid markers: an invalid rough range gives zero; an invalid fine value falls back to the rough
   value alone; an invalid rough rate gives zero, an invalid fine rate the rough rate *)
Theorem invalid_markers w f d p rough fine :
  agg_range4 255 f d = 0 /\ agg_range7 255 f d = 0 /\ agg_phase4 255 f p = 0 /\ agg_phase7 255 f p = 0 /\
  (w <> 255 -> agg_range4 w f (-16384) = scaled_range w f 0 /\ agg_range7 w f (-524288) = scaled_range w f 0 /\
               agg_phase4 w f (-2097152) = scaled_phase w f 0 /\ agg_phase7 w f (-8388608) = scaled_phase w f 0) /\
  agg_rate (-8192) fine = 0%Z /\ (rough <> (-8192)%Z -> agg_rate rough (-16384) = scaled_rate rough 0).
Proof.
  unfold agg_range4, agg_range7, agg_phase4, agg_phase7, agg_rate.
  change InvalidRange with 255. change InvalidRangeDelta4 with (-16384)%Z. change sig7_InvalidRangeDelta with (-524288)%Z.
  change InvalidPhaseRangeDelta4 with (-2097152)%Z. change sig7_InvalidPhaseRangeDelta with (-8388608)%Z.
  change sig7_InvalidPhaseRangeRate with (-8192)%Z. change sig7_InvalidPhaseRangeRateDelta with (-16384)%Z.
  repeat split; try reflexivity.
  all: try (destruct (N.eqb_spec w 255); [congruence|reflexivity]).
  destruct (Z.eqb_spec rough (-8192)); [congruence|reflexivity].
Qed.

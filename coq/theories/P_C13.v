(* P_C13.v - the theorems of property C13 and nothing else: each is closed by [exact <lemma>]
   (or a one-line instantiation) and followed by Print Assumptions.  One file per property, importing only
   what that property's statements need, so that a change which breaks one property's proof leaves the
   others' theorems checkable. *)
From Coq Require Import List Arith NArith ZArith.
Import ListNotations.
From NTRIP Require Import Base Bits Time Classify Frame FrameSpec FrameProofs Retry RetryProofs Net Pipe IncFrame RetryPipe.

(* ===================== C13 (the read loop) ===================== *)
(* Wherever end-of-file / timeout results, pauses and other errors fall, every byte the source
   supplied before the loop stopped has been forwarded exactly once and in order, and nothing
   else has: forwarded = data of the consumed part of the script; the step that stops the loop
   carries no data. *)
Theorem C13_forwarding : forall tol wait script s s' why rest,
  run_script tol wait script s = (s', why, rest) ->
  exists consumed, script = consumed ++ unread_after why rest /\
                   r_out s' = r_out s ++ data_of consumed /\
                   (why <> StopNone -> exists c e, consumed = c ++ [e] /\ data_of [e] = []).
Proof. exact run_script_forwarding. Qed.
Print Assumptions C13_forwarding.

(* With a non-zero tolerance, single and double end-of-file / timeout results between data
   (also inside a frame: the loop knows nothing of frames) never stop the loop: all data is
   forwarded, so the framing stage sees exactly the uninterrupted stream. *)
Theorem C13_resume : forall tol wait script, (0 < tol)%N -> (wait <= tol)%N -> gentle script ->
  forall s, r_first s = None ->
  exists s', run_script tol wait script s = (s', StopNone, []) /\ r_out s' = r_out s ++ data_of script /\
             r_first s' = None.
Proof. intros tol wait script H1 H2 G. exact (gentle_resumes tol wait H1 H2 script G). Qed.
Print Assumptions C13_resume.

(* Single interruptions never stop the loop whatever the configured wait - also when the wait is longer than the
   tolerance: the retry after the failed read finds data, and data resets the clock. *)
Theorem C13_resume_single_any_wait : forall tol wait script, (0 < tol)%N -> gentle1 script ->
  forall s, r_first s = None ->
  exists s', run_script tol wait script s = (s', StopNone, []) /\ r_out s' = r_out s ++ data_of script /\
             r_first s' = None.
Proof. intros tol wait script H G. exact (gentle1_resumes tol wait H script G). Qed.
Print Assumptions C13_resume_single_any_wait.

(* ... and with lulls: the source may take any time, also far longer than the tolerance, to produce a chunk, as long
   as it reports no end-of-file or timeout meanwhile.  Every interruption is judged by its own clock, started at its
   own first end-of-file; time that passed while data was flowing, and earlier interruptions, do not count. *)
Theorem C13_resume_with_lulls : forall tol wait script, (0 < tol)%N -> (wait <= tol)%N -> gentle_lull script ->
  forall s, r_first s = None ->
  exists s', run_script tol wait script s = (s', StopNone, []) /\ r_out s' = r_out s ++ data_of script /\
             r_first s' = None.
Proof. intros tol wait script H1 H2 G. exact (gentle_lull_resumes tol wait H1 H2 script G). Qed.
Print Assumptions C13_resume_with_lulls.

(* Tolerance zero: the first end-of-file or timeout stops the loop; another read error always
   does; the data received so far has been forwarded. *)
Theorem C13_stop_zero_or_error : forall wait pre rest e, (e = REof \/ e = RTimeout \/ e = ROther) ->
  Forall (fun st => match st with RData _ | RSleep _ => True | _ => False end) pre ->
  forall s, exists s', run_script 0 wait (pre ++ e :: rest) s =
      (s', match e with REof => StopEOF | RTimeout => StopTimeout | _ => StopOther end, rest) /\
    r_out s' = r_out s ++ data_of pre.
Proof. exact zero_tolerance_stops. Qed.
Print Assumptions C13_stop_zero_or_error.

(* A source that stays silent (end-of-file for ever) always makes the loop return. *)
Theorem C13_stop_silent : forall tol wait s rest, r_first s = None ->
  exists s' k, run_script tol wait (REof :: REof :: REof :: REof :: rest) s = (s', StopEOF, k) /\ r_out s' = r_out s.
Proof. exact silence_stops. Qed.
Print Assumptions C13_stop_silent.

(* ===================== C13 (end to end) ===================== *)
(* The read loop as the reader of the network reader -> framer (byte-driven, IncFrame.v) -> fan-out ->
   consumers, unbuffered or buffered channels, every schedule.  Whatever the source does - end-of-file
   and timeout results, pauses, other errors, anywhere, any tolerance - the loop consumes a prefix of the
   script (followed by the source's final silence), forwards exactly that prefix's data, and every
   execution of the network is finite and ends with every live consumer holding handle_stream's messages
   for those bytes: their raw bytes concatenate to the received data (so a frame cut by the stop arrives
   as a non-RTCM message, and nothing is lost, repeated or reordered), none is empty, reader and framer
   have halted and the byte and message channels are closed. *)
Theorem C13_delivered_any_faults : forall t0 (k : nat) (live sync : nat -> bool) cap0 cap1 caps,
  (1 <= cap0)%nat -> (1 <= cap1)%nat -> length caps = k -> Forall (fun c => (1 <= c)%nat) caps ->
  forall tol wait script,
  exists consumed rest ms h',
    script ++ [REof; REof; REof; REof] = consumed ++ rest /\
    fst (run_reader tol wait script) = data_of consumed /\
    handle_stream (new_handler t0) (data_of consumed) = Ok (ms, h') /\
    concat (map raw ms) = data_of consumed /\ Forall (fun x => raw x <> []) ms /\
    delivered_by_every_schedule t0 k live sync cap0 cap1 caps (fst (run_reader tol wait script)) ms.
Proof. exact reader_pipeline_any_faults. Qed.
Print Assumptions C13_delivered_any_faults.

(* Single and double interruptions within a non-zero tolerance, between or inside frames: the consumers
   receive the messages of the uninterrupted stream. *)
Theorem C13_delivered_gentle : forall t0 (k : nat) (live sync : nat -> bool) cap0 cap1 caps,
  (1 <= cap0)%nat -> (1 <= cap1)%nat -> length caps = k -> Forall (fun c => (1 <= c)%nat) caps ->
  forall tol wait script, (0 < tol)%N -> (wait <= tol)%N -> gentle script ->
  exists ms h',
    handle_stream (new_handler t0) (data_of script) = Ok (ms, h') /\
    delivered_by_every_schedule t0 k live sync cap0 cap1 caps (fst (run_reader tol wait script)) ms.
Proof. exact reader_pipeline_gentle. Qed.
Print Assumptions C13_delivered_gentle.

Example C13_example :
  run_reader 200 1 [RData [65; 66]; REof; RData [211; 0]; RTimeout; REof; RData [1]]%N = ([65; 66; 211; 0; 1]%N, StopEOF) /\
  gentle [RData [65; 66]; REof; RData [211; 0]; RTimeout; REof; RData [1]]%N.
Proof.
  split; [vm_compute; reflexivity|].
  apply g_data. apply g_one; [left; reflexivity|discriminate|]. apply g_two; [right; reflexivity|left; reflexivity|discriminate|]. apply g_nil.
Qed.


(* FilterProofs.v - rtcmfilter (C10): the writer goroutines drop the messages whose type is
   NonRTCMMessage and write the raw bytes of all the others, in the order received. *)
From Coq Require Import List Arith NArith ZArith Lia Bool.
Import ListNotations.
From NTRIPGen Require Import GenConsts.
From NTRIP Require Import Base Bits Time Classify Frame FrameSpec FrameProofs SegProofs Net Pipe PipeFrames IncFrame PipeInc.
Local Open Scope Z_scope.

(* writeRTCMMessages: skip message.MessageType == utils.NonRTCMMessage, write message.RawData *)
Definition is_rtcm (m : msg) : bool := negb (mtype m =? NonRTCMMessage).
Definition filter_output (ms : list msg) : list N := concat (map raw (filter is_rtcm ms)).

(* the frames of a segment list, concatenated in order *)
Definition frames_of (segs : list seg) : list N :=
  concat (map (fun s => match s with Frame f => f | Junk _ => [] end) segs).

(* ---------- a delivered message's type is NonRTCMMessage or a 12-bit frame type ---------- *)
Definition type_in_range (m : msg) : Prop := mtype m = NonRTCMMessage \/ 0 <= mtype m.

Lemma get_len_type_range b :
  match get_len_type b with
  | inl (Ok (_, ty)) => 0 <= ty
  | inr (ty, _) => ty = NonRTCMMessage \/ 0 <= ty
  | _ => True
  end.
Proof.
  unfold get_len_type.
  destruct (length b <? N.to_nat LeaderLengthBytes + 2)%nat; [left; reflexivity|].
  destruct b as [|b0 b']; [left; reflexivity|].
  destruct (negb (b0 =? D3)%N); [left; reflexivity|].
  destruct (get_u (b0 :: b') 8 6) as [sanity| |]; try exact I;
  destruct (get_u (b0 :: b') 14 10) as [len| |]; try exact I;
  destruct (get_u (b0 :: b') 24 12) as [ty| |]; try exact I.
  destruct (negb (sanity =? 0)%N); [left; reflexivity|].
  destruct (len =? 0)%N; [right|]; apply N2Z.is_nonneg.
Qed.

Lemma get_message_type_range h b m h' : get_message h b = Ok (Some m, h') -> type_in_range m.
Proof.
  unfold get_message, type_in_range. destruct b as [|b0 b']; [discriminate|].
  destruct (negb (b0 =? D3)%N); [intros H; injection H as <- _; left; reflexivity|].
  pose proof (get_len_type_range (b0 :: b')) as R.
  destruct (get_len_type (b0 :: b')) as [[[len ty]|e|]|[ty e]]; try discriminate.
  2:{ intros H; injection H as <- _. cbn [mtype]. exact R. }
  destruct (length (b0 :: b') <? N.to_nat (len + LeaderLengthBytes + CRCLengthBytes))%nat;
    [intros H; injection H as <- _; left; reflexivity|].
  destruct (check_crc _); [intros H; injection H as <- _; left; reflexivity|].
  destruct (msmb ty).
  - destruct ((len + LeaderLengthBytes) * 8 <? hnd_timestampPosition + hdr_LenTimeStamp)%N;
      [intros H; injection H as <- _; right; exact R|].
    destruct (get_u (b0 :: b') (N.to_nat hnd_timestampPosition) (N.to_nat hdr_LenTimeStamp)) as [ts| |]; cbn [bind]; try discriminate.
    destruct (time_from_timestamp h ty ts) as [t h2].
    destruct t; try discriminate; intros H; injection H as <- _; right; exact R.
  - intros H; injection H as <- _; right; exact R.
Qed.

Lemma fetch_type_range h s m h' s' : fetch h s = Ok (Some (m, h', s')) -> type_in_range m.
Proof.
  unfold fetch. destruct (eat s) as [[frame s1] ended].
  destruct (ended && (length frame =? 0)%nat); [discriminate|].
  destruct (1 <? length frame)%nat.
  { destruct (last frame 0 =? D3)%N; intros H; injection H as <- _ _; left; reflexivity. }
  destruct (read_n _ s1 frame) as [[frame2 s2] ok2].
  destruct (negb ok2); [intros H; injection H as <- _ _; left; reflexivity|].
  destruct (get_len_type frame2) as [[[len ty]|e|]|[ty e]]; try discriminate.
  2:{ intros H; injection H as <- _ _; left; reflexivity. }
  destruct (read_n _ s2 frame2) as [[frame3 s3] ok3].
  destruct (negb ok3); [intros H; injection H as <- _ _; left; reflexivity|].
  destruct (get_message h frame3) as [[om h2]| |] eqn:G; cbn [bind]; try discriminate.
  destruct om as [m0|]; [|discriminate].
  intros H; injection H as <- _ _. exact (get_message_type_range _ _ _ _ G).
Qed.

Lemma handle_type_range : forall fuel h s ms h', handle fuel h s = Ok (ms, h') -> Forall type_in_range ms.
Proof.
  induction fuel as [|fuel IH]; intros h s ms h' H; [discriminate|].
  cbn [handle] in H. destruct (fetch h s) as [r| |] eqn:F; cbn [bind] in H; try discriminate.
  destruct r as [[[m h1] s1]|]; [|injection H as <- _; constructor].
  destruct (handle fuel h1 s1) as [[ms1 h2]| |] eqn:Hh; cbn [bind fst snd] in H; try discriminate.
  injection H as <- _. constructor; [exact (fetch_type_range _ _ _ _ _ F)|exact (IH _ _ _ _ Hh)].
Qed.

(* ---------- arbitrary input ---------- *)
(* The output consists of whole delivered messages in input order; each is a valid frame
   occupying its own place in the input (the delivered messages partition the input, C02),
   and every delivered message that is not written is a non-RTCM message. *)
Theorem filter_any_input h input : bytes_ok input ->
  exists ms h', handle_stream h input = Ok (ms, h') /\
    concat (map raw ms) = input /\
    filter_output ms = concat (map (fun m => if is_rtcm m then raw m else []) ms) /\
    Forall (fun m => if is_rtcm m then valid_frame (raw m) /\ mtype m = Z.of_N (frame_type (raw m))
                     else mtype m = NonRTCMMessage) ms.
Proof.
  intros Hb. destruct (handle_stream_lossless h input) as (ms & h' & Hms & Hc & _ & _).
  exists ms, h'. split; [exact Hms|]. split; [exact Hc|]. split.
  - unfold filter_output. clear. induction ms as [|m ms IH]; [reflexivity|].
    cbn [filter map concat]. destruct (is_rtcm m); cbn [map concat app]; rewrite IH; reflexivity.
  - pose proof (stream_typed_valid h input ms h' Hb Hms) as V.
    pose proof (handle_type_range _ _ _ _ _ Hms) as R.
    rewrite Forall_forall in *. intros m Hin. specialize (V m Hin). specialize (R m Hin).
    unfold is_rtcm. destruct (mtype m =? NonRTCMMessage) eqn:E; cbn [negb].
    + apply Z.eqb_eq in E. exact E.
    + apply Z.eqb_neq in E. destruct R as [R|R]; [contradiction|]. exact (V R).
Qed.

(* ---------- segment streams: the output is exactly the frames ---------- *)
Definition core_output (cs : list (Z * list N)) : list N :=
  concat (map snd (filter (fun c => negb (fst c =? NonRTCMMessage)) cs)).

Lemma filter_output_core ms : filter_output ms = core_output (map core ms).
Proof.
  unfold filter_output, core_output. induction ms as [|m ms IH]; [reflexivity|].
  cbn [map filter]. unfold core at 1. cbn [fst]. unfold is_rtcm at 1.
  destruct (negb (mtype m =? NonRTCMMessage)); cbn [map concat snd]; rewrite IH; reflexivity.
Qed.

Lemma core_output_app a b : core_output (a ++ b) = core_output a ++ core_output b.
Proof. unfold core_output. rewrite filter_app, map_app, concat_app. reflexivity. Qed.

Lemma core_output_segs segs : core_output (map expected_seg segs) = frames_of segs.
Proof.
  unfold core_output, frames_of. induction segs as [|s segs IH]; [reflexivity|].
  cbn [map filter]. destruct s as [f|j]; cbn [expected_seg fst].
  - replace (Z.of_N (frame_type f) =? NonRTCMMessage) with false
      by (symmetry; apply Z.eqb_neq; unfold NonRTCMMessage; pose proof (N2Z.is_nonneg (frame_type f)); lia).
    cbn [negb map concat snd]. rewrite IH. reflexivity.
  - change (NonRTCMMessage =? NonRTCMMessage) with true. cbn [negb app]. exact IH.
Qed.

Lemma frames_merge segs : frames_of (merge_junk segs) = frames_of segs.
Proof.
  unfold frames_of. induction segs as [|s segs IH]; [reflexivity|].
  destruct s as [f|a]; cbn [merge_junk map concat].
  - rewrite IH. reflexivity.
  - destruct (merge_junk segs) as [|[f|b] r]; cbn [map concat app] in *; exact IH.
Qed.

Theorem filter_segments h segs tail : wf_segsb segs = true -> tail_ok tail ->
  exists ms h', handle_stream h (flatten segs ++ tail) = Ok (ms, h') /\ filter_output ms = frames_of segs.
Proof.
  intros W T. destruct (segments_delivered h segs tail W T) as (ms & h' & Hms & Hcore).
  exists ms, h'. split; [exact Hms|].
  rewrite filter_output_core, Hcore. unfold expected. rewrite core_output_app, core_output_segs, frames_merge.
  destruct tail; [apply app_nil_r|]. unfold core_output. cbn [filter fst].
  change (NonRTCMMessage =? NonRTCMMessage) with true. cbn. apply app_nil_r.
Qed.

(* ---------- every schedule of the pipeline and the writer goroutines ---------- *)
(* rtcmfilter = the pipeline of Pipe.v whose consumers are the writer goroutines; what writer i
   has written is filter_output of what it has received. *)
Theorem filter_every_schedule t0 segs tail (k : nat) (live sync : nat -> bool) cap0 cap1 caps :
  wf_segsb segs = true -> tail_ok tail ->
  (1 <= cap0)%nat -> (1 <= cap1)%nat -> length caps = k -> Forall (fun c => (1 <= c)%nat) caps ->
  exists n, forall m c,
    steps _ (nstep _ _ _ (Pipe.prog N msg (list N) (fun acc b => (acc ++ [b], [])) (frame_flush t0) k live sync)
                   Pipe.sender Pipe.receiver (SkDone _ _ _)) m
          (Pipe.init N msg (list N) k cap0 cap1 caps (flatten segs ++ tail) []) c ->
    (m <= n)%nat /\
    (final_config _ _ _ (Pipe.prog N msg (list N) (fun acc b => (acc ++ [b], [])) (frame_flush t0) k live sync)
                  Pipe.sender Pipe.receiver (SkDone _ _ _) c ->
     forall i, (i < k)%nat -> live i = true -> filter_output (sink_out N msg (list N) c i) = frames_of segs).
Proof.
  intros W T H0 H1 Hl Hc.
  destruct (pipeline_frames t0 (flatten segs ++ tail) k live sync cap0 cap1 caps H0 H1 Hl Hc) as (ms & h' & Hms & n & Hn).
  destruct (filter_segments (new_handler t0) segs tail W T) as (ms2 & h2 & Hms2 & Hout).
  rewrite Hms in Hms2. injection Hms2 as <- <-.
  exists n. intros m c Hm. destruct (Hn m c Hm) as [Hle Hfin]. split; [exact Hle|].
  intros Hf i Hi Hlive. rewrite (Hfin Hf i Hi), Hlive. exact Hout.
Qed.

(* the same with the byte-driven framer of IncFrame.v as the framer process *)
Theorem filter_incremental t0 segs tail (k : nat) (live sync : nat -> bool) cap0 cap1 caps :
  wf_segsb segs = true -> tail_ok tail ->
  (1 <= cap0)%nat -> (1 <= cap1)%nat -> length caps = k -> Forall (fun c => (1 <= c)%nat) caps ->
  exists n, forall m c,
    steps _ (nstep _ _ _ (Pipe.prog N msg mstate mstep mflush k live sync) Pipe.sender Pipe.receiver (SkDone _ _ _)) m
          (Pipe.init N msg mstate k cap0 cap1 caps (flatten segs ++ tail) (new_handler t0, PEat [])) c ->
    (m <= n)%nat /\
    (final_config _ _ _ (Pipe.prog N msg mstate mstep mflush k live sync) Pipe.sender Pipe.receiver (SkDone _ _ _) c ->
     forall i, (i < k)%nat -> live i = true -> filter_output (sink_out N msg mstate c i) = frames_of segs).
Proof.
  intros W T H0 H1 Hl Hc.
  destruct (pipeline_incremental t0 (flatten segs ++ tail) k live sync cap0 cap1 caps H0 H1 Hl Hc) as (ms & h' & Hms & n & Hn).
  destruct (filter_segments (new_handler t0) segs tail W T) as (ms2 & h2 & Hms2 & Hout).
  rewrite Hms in Hms2. injection Hms2 as <- <-.
  exists n. intros m c Hm. destruct (Hn m c Hm) as [Hle Hfin]. split; [exact Hle|].
  intros Hf i Hi Hlive. rewrite (Hfin Hf i Hi), Hlive. exact Hout.
Qed.

(* NetSafety.v - facts about every network of Net.v, whatever the programs: along every execution
   the number and the capacities of the channels never change, no buffer ever holds more than its
   capacity, a closed channel stays closed, nothing is ever added to a closed channel (what it still
   holds only drains), and the events a process has emitted only grow. *)
From Coq Require Import List Arith Lia Bool.
Import ListNotations.
From NTRIP Require Import Net.
Arguments procs {St V Ev}. Arguments chans {St V Ev}. Arguments outs {St V Ev}.
Arguments buf {V}. Arguments cap {V}. Arguments closed {V}.

Section Safety.
  Variables St V Ev : Type.
  Variable prog : St -> op St V Ev.
  Variables sender receiver : nat -> nat.
  Variable dSt : St.
  Notation config := (config St V Ev).
  Notation pstep := (pstep St V Ev prog sender receiver dSt).
  Notation nstep := (nstep St V Ev prog sender receiver dSt).
  Notation dchan := (dchan V).

  (* how one channel may change in one step *)
  Definition chan_moves (x y : chan V) : Prop :=
    cap y = cap x /\
    (closed x = true -> closed y = true) /\
    (y = x \/
     (exists v, buf y = buf x ++ [v] /\ closed x = false /\ closed y = false /\ length (buf x) < cap x) \/
     (exists v, buf x = v :: buf y /\ closed y = closed x) \/
     (buf y = buf x /\ closed x = false /\ closed y = true)).

  Lemma chan_moves_refl x : chan_moves x x.
  Proof. split; [reflexivity|]. split; [auto|]. left; reflexivity. Qed.

  Lemma nth_upd_cases {A} (l : list A) i j a d :
    i < length l -> nth j (upd l i a) d = if Nat.eqb i j then a else nth j l d.
  Proof.
    intros Hi. destruct (Nat.eqb_spec i j) as [->|Hn]; [apply nth_upd_eq; exact Hi|apply nth_upd_neq; exact Hn].
  Qed.

  Lemma step_chans c p c' : pstep c p = Some c' ->
    length (chans c') = length (chans c) /\
    forall ch, chan_moves (nth ch (chans c) dchan) (nth ch (chans c') dchan).
  Proof.
    unfold Net.pstep. destruct (negb (p <? length (procs c))); [discriminate|].
    destruct (prog (nth p (procs c) dSt)) as [ch v k|ch k|ch k|e k|ch k|].
    - destruct (sender ch =? p); [|discriminate]. destruct (ch <? length (chans c)) eqn:L; [|discriminate].
      destruct (closed (nth ch (chans c) dchan)) eqn:C; [discriminate|].
      destruct (length (buf (nth ch (chans c) dchan)) <? cap (nth ch (chans c) dchan)) eqn:B; [|discriminate].
      cbn [andb negb]. intros H; injection H as <-. cbn [chans]. apply Nat.ltb_lt in L, B.
      split; [apply upd_length|]. intros j. rewrite nth_upd_cases by exact L.
      destruct (Nat.eqb_spec ch j) as [<-|_]; [|apply chan_moves_refl].
      split; [reflexivity|]. split; [rewrite C; discriminate|]. right; left. exists v. cbn. repeat split; auto.
    - destruct (receiver ch =? p); [|discriminate]. destruct (ch <? length (chans c)) eqn:L; [|discriminate].
      cbn [andb]. apply Nat.ltb_lt in L.
      destruct (buf (nth ch (chans c) dchan)) as [|v rest] eqn:B.
      + destruct (closed (nth ch (chans c) dchan)); [|discriminate].
        intros H; injection H as <-. cbn [chans]. split; [reflexivity|]. intros j. apply chan_moves_refl.
      + intros H; injection H as <-. cbn [chans]. split; [apply upd_length|]. intros j.
        rewrite nth_upd_cases by exact L. destruct (Nat.eqb_spec ch j) as [<-|_]; [|apply chan_moves_refl].
        split; [reflexivity|]. split; [auto|]. right; right; left. exists v. cbn. split; [exact B|reflexivity].
    - destruct (sender ch =? p); [|discriminate]. destruct (ch <? length (chans c)) eqn:L; [|discriminate].
      destruct (closed (nth ch (chans c) dchan)) eqn:C; [discriminate|].
      cbn [andb negb]. intros H; injection H as <-. cbn [chans]. apply Nat.ltb_lt in L.
      split; [apply upd_length|]. intros j. rewrite nth_upd_cases by exact L.
      destruct (Nat.eqb_spec ch j) as [<-|_]; [|apply chan_moves_refl].
      split; [reflexivity|]. split; [auto|]. right; right; right. cbn. repeat split; auto.
    - intros H; injection H as <-. cbn [chans]. split; [reflexivity|]. intros j. apply chan_moves_refl.
    - destruct (sender ch =? p); [|discriminate]. destruct (ch <? length (chans c)); [|discriminate]. cbn [andb].
      destruct (buf (nth ch (chans c) dchan)); [|discriminate].
      intros H; injection H as <-. cbn [chans]. split; [reflexivity|]. intros j. apply chan_moves_refl.
    - discriminate.
  Qed.

  (* the invariant: every buffer within its capacity *)
  Definition bounded (c : config) : Prop := forall ch, length (buf (nth ch (chans c) dchan)) <= cap (nth ch (chans c) dchan).

  Lemma chan_moves_bounded x y : chan_moves x y -> length (buf x) <= cap x -> length (buf y) <= cap y.
  Proof.
    intros (Hc & _ & [->|[(v & Hb & _ & _ & Hlt)|[(v & Hb & _)|(Hb & _)]]]) H; rewrite ?Hc; auto.
    - rewrite Hb, app_length. cbn. lia.
    - rewrite Hb in H. cbn in H. lia.
    - rewrite Hb. exact H.
  Qed.

  Theorem steps_safe : forall n c c', steps config nstep n c c' ->
    length (chans c') = length (chans c) /\
    (forall ch, cap (nth ch (chans c') dchan) = cap (nth ch (chans c) dchan)) /\
    (forall ch, closed (nth ch (chans c) dchan) = true ->
                closed (nth ch (chans c') dchan) = true /\
                exists taken, buf (nth ch (chans c) dchan) = taken ++ buf (nth ch (chans c') dchan)) /\
    (bounded c -> bounded c').
  Proof.
    induction 1 as [c|n a b c [p Hp] _ IH].
    - split; [reflexivity|]. split; [reflexivity|]. split; [|auto].
      intros ch H. split; [exact H|]. exists []. reflexivity.
    - destruct (step_chans _ _ _ Hp) as [Hl Hm]. destruct IH as (IHl & IHc & IHcl & IHb).
      split; [congruence|]. split; [intros ch; rewrite IHc; apply (Hm ch)|]. split.
      + intros ch Hcl. destruct (Hm ch) as (_ & Hmono & Hcases).
        destruct (IHcl ch (Hmono Hcl)) as [Hc' [taken Ht]]. split; [exact Hc'|].
        destruct Hcases as [E|[(v & _ & Hf & _)|[(v & Hb & _)|(Hb & Hf & _)]]].
        * rewrite <- E. exists taken. exact Ht.
        * congruence.
        * exists (v :: taken). rewrite Hb, Ht. reflexivity.
        * congruence.
      + intros Hb. apply IHb. intros ch. apply (chan_moves_bounded _ _ (Hm ch)), Hb.
  Qed.

  (* for every reachable configuration of a network that starts with all buffers within capacity *)
  Corollary reachable_bounded c0 c : bounded c0 -> reachable St V Ev prog sender receiver dSt c0 c -> bounded c.
  Proof. intros Hb [n Hn]. exact (proj2 (proj2 (proj2 (steps_safe n c0 c Hn))) Hb). Qed.
End Safety.

(* P_C07.v - the theorems of property C07 and nothing else: each is closed by [exact <lemma>]
   (or a one-line instantiation) and followed by Print Assumptions.  One file per property, importing only
   what that property's statements need, so that a change which breaks one property's proof leaves the
   others' theorems checkable. *)
From NTRIP Require Import Base Bits BitsProofs Time Classify Frame FrameSpec FrameProofs Msm MsmSpec MsmProofs Station StationProofs.
From NTRIP Require Display.

(* ===================== C07 (framing and single-frame part) ===================== *)
(* For every byte stream the stream handler returns normally: no panic (out-of-bounds read),
   no error of the model's own, and the recursion fuel S (length input) always suffices. *)
Theorem C07_stream : forall h input, exists ms h', handle_stream h input = Ok (ms, h').
Proof.
  intros h input. destruct (handle_stream_lossless h input) as (ms & h' & H & _).
  exists ms, h'. exact H.
Qed.
Print Assumptions C07_stream.

(* Single-frame decoding returns normally for arbitrary bytes (the function is public). *)
Theorem C07_single : forall h b, exists r, get_message h b = Ok r.
Proof. exact get_message_total. Qed.
Print Assumptions C07_single.

(* Non-vacuity: the 8-byte CRC-valid MSM-typed frame that used to kill the process is now
   delivered as a typed message carrying an error. *)
Example C07_example :
  exists m h', get_message (new_handler 0) [211; 0; 2; 67; 80; 6; 162; 126]%N = Ok (Some m, h') /\
               mtype m = 1077%Z /\ merr m = Some ErrTooShort.
Proof. eexists. eexists. split; [vm_compute; reflexivity|]. split; reflexivity. Qed.


(* ===================== C07 (full decoding) ===================== *)
(* For arbitrary bytes - in particular CRC-valid frames whose payload is shorter than or
   inconsistent with what the message type requires, masks announcing more cells than fit -
   the MSM4 and MSM7 decoders (header, satellite cells, the cell-count inference, signal cells,
   attachment) and the 1005/1006 decoders return a message or an error, never a panic
   (no bit is read outside the buffer). *)
Theorem C07_decoders : forall b,
  decode_msm4 b <> Panic /\ decode_msm7 b <> Panic /\ decode1005 b <> Panic /\ decode1006 b <> Panic.
Proof.
  intros b. split; [apply decode_msm4_no_panic|]. split; [apply decode_msm7_no_panic|]. split.
  - destruct (decode1005_total b) as [(m & -> & _)|[->| ->]]; discriminate.
  - destruct (decode1006_total b) as [(m & -> & _)|[->| ->]]; discriminate.
Qed.
Print Assumptions C07_decoders.

(* Display (Display.v): Message.String - analyse the message if it has not been analysed (dispatch
   on the type to the decoders above, an error text if the decoder rejects the bytes), then lay the
   parts out according to the log level - returns normally, with text, for EVERY message: any type
   (including the sentinels), any raw bytes, either level.  The layout of the parts is abstract
   (any total rendering functions); the dispatch, the caching and the error short-cuts are the code's. *)
Theorem C07_display : forall (L : Type) title_lines frame_lines err_lines other_lines station_lines msm_lines (m : Display.dmsg L),
  exists t m1, Display.string L title_lines frame_lines err_lines other_lines station_lines msm_lines m = Ok (t, m1).
Proof. exact Display.string_total. Qed.
Print Assumptions C07_display.

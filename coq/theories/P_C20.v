(* P_C20.v - the theorems of property C20 and nothing else: each is closed by [exact <lemma>]
   (or a one-line instantiation) and followed by Print Assumptions.  One file per property, importing only
   what that property's statements need, so that a change which breaks one property's proof leaves the
   others' theorems checkable. *)
From NTRIP Require Import Base Classify ClassifyProofs.
From NTRIPGen Require Import GenConsts ClassifyTable.

(* ===================== C20 ===================== *)
(* For every 12-bit message type and the two negative sentinels (4098 values, enumerated
   completely over the table the real code produced on this run): exactly the fourteen
   standard types are MSM4 respectively MSM7, only they carry an extracted timestamp, each maps
   to its constellation and is accepted by exactly its own decoder family, full decoding is
   attempted for exactly MSM4, MSM7, 1005 and 1006, the title is non-empty and the message can
   be displayed at both log levels. *)
Theorem C20_consistent : forall t, (-2 <= t <= 4095)%Z ->
  r_t (lookup t) = t /\ row_ok (lookup t) = true.
Proof. exact classification_consistent. Qed.
Print Assumptions C20_consistent.

(* the closed forms the model uses elsewhere are the code's classifications *)
Theorem C20_closed_forms :
  forallb (fun r => Bool.eqb (msm4b (r_t r)) (r_msm4 r) && Bool.eqb (msm7b (r_t r)) (r_msm7 r) &&
                    Bool.eqb (msmb (r_t r)) (r_msm r) && (Z.of_N (constellation_code (r_t r)) =? r_const r)%Z)
          classify_table = true.
Proof. exact closed_forms_agree. Qed.
Print Assumptions C20_closed_forms.

Example C20_example : r_dispatch (lookup 1127) = 7%Z /\ r_const (lookup 1127) = 6%Z /\ r_ts (lookup 1006) = false.
Proof. vm_compute. repeat split. Qed.


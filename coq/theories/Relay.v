(* Relay.v - C19, relay half: the proxy's client-to-server loop and the traffic parser as a
   network of sequential processes over bounded channels (Net.v).

   process 0  client loop (handleClientMessages): for each chunk read from the client: push its
              bytes one at a time to the parser's byte channel (channel 0), THEN write the chunk
              to the server (event EvW chunk); after the last chunk it returns.  It never closes
              the byte channel (neither does the code).
   process 1  parser (rtcm handler.HandleMessages): ANY framing state machine; receives bytes,
              sends the messages each byte completes on the message channel (channel 1)
   process 2  queue updater (keepCircularQueueUpdated): receives messages and records each
              (event EvQ m: added to the queue / message log), for ever

   Result (every schedule, all channel capacities >= 1): there is a bound n such that every
   execution has at most n steps and can be completed to ONE final configuration, in which the
   client loop has returned having written exactly the chunks, in order, unchanged - the parser
   can delay the relay (the loop waits while the byte channel is full) but can neither alter nor
   stop it - and the queue holds exactly the messages that sequential framing finds in the
   relayed bytes (in particular only data that was relayed). *)
From Coq Require Import List Arith Lia Bool.
Import ListNotations.
From NTRIP Require Import Net Pipe.
Arguments procs {St V Ev}. Arguments chans {St V Ev}. Arguments outs {St V Ev}.
Arguments buf {V}. Arguments cap {V}. Arguments closed {V}.

Section Relay.
  Variables B M FS : Type.
  Variable fstep : FS -> B -> FS * list M.
  Variable sync : nat -> bool.    (* channel ch is unbuffered: a send completes only when the value has been taken *)

  (* messages completed by feeding bytes to the framer, and its state afterwards *)
  Fixpoint frun (s : FS) (bs : list B) : list M * FS :=
    match bs with
    | [] => ([], s)
    | b :: r => let '(ms, s') := frun (fst (fstep s b)) r in (snd (fstep s b) ++ ms, s')
    end.

  Inductive val := VB (b : B) | VM (m : M).
  Inductive ev := EvW (c : list B) | EvQ (m : M).

  Inductive st :=
  | CL (cur : list B) (chunk : list B) (rest : list (list B))   (* bytes of the current chunk still to push *)
  | CLDone
  | PRecv (s : FS) | PSend (s : FS) (m : M) (r : list M) | PDead
  | QRecv | QRec (m : M) | QDead
  | Aw (ch : nat) (next : st).

  Definition p_after (s : FS) (ms : list M) : st := match ms with [] => PRecv s | m :: r => PSend s m r end.

  Definition aw (ch : nat) (next : st) : st := if sync ch then Aw ch next else next.

  Definition prog (x : st) : op st val ev :=
    match x with
    | CL [] chunk r => OEmit _ _ _ (EvW chunk) (match r with [] => CLDone | c :: r' => CL c c r' end)
    | CL (b :: cur) chunk r => OSend _ _ _ 0 (VB b) (aw 0 (CL cur chunk r))
    | CLDone => OHalt _ _ _
    | PRecv s => ORecv _ _ _ 0 (fun o => match o with
                                         | Some (VB b) => p_after (fst (fstep s b)) (snd (fstep s b))
                                         | _ => PDead
                                         end)
    | PSend s m r => OSend _ _ _ 1 (VM m) (aw 1 (p_after s r))
    | PDead => OHalt _ _ _
    | QRecv => ORecv _ _ _ 1 (fun o => match o with Some (VM m) => QRec m | _ => QDead end)
    | QRec m => OEmit _ _ _ (EvQ m) QRecv
    | QDead => OHalt _ _ _
    | Aw ch next => OAwait _ _ _ ch next
    end.

  Definition sender (ch : nat) : nat := match ch with 0 => 0 | _ => 1 end.
  Definition receiver (ch : nat) : nat := match ch with 0 => 1 | _ => 2 end.

  Notation config := (config st val ev).
  Notation pstep := (pstep st val ev prog sender receiver QDead).
  Notation nstep := (nstep st val ev prog sender receiver QDead).
  Notation steps := (steps config nstep).

  Definition ech (c : nat) : chan val := {| buf := []; cap := c; closed := false |}.
  Definition mk (cl p q : st) (c0 c1 : chan val) (w : list ev) (qo : list ev) : config :=
    {| procs := [cl; p; q]; chans := [c0; c1]; outs := [w; []; qo] |}.

  Definition cl_start (chunks : list (list B)) : st :=
    match chunks with [] => CLDone | c :: r => CL c c r end.

  Definition init (cap0 cap1 : nat) (chunks : list (list B)) (s0 : FS) : config :=
    mk (cl_start chunks) (PRecv s0) QRecv (ech cap0) (ech cap1) [] [].

  Lemma steps_trans n m a b c : steps n a b -> steps m b c -> steps (n + m) a c.
  Proof.
    induction 1 as [a|n a b b' Hab Hbb' IH]; intros H2; cbn; [exact H2|].
    econstructor; [exact Hab|apply IH; exact H2].
  Qed.
  Lemma step1 a p b : pstep a p = Some b -> steps 1 a b.
  Proof. intros H. econstructor; [exists p; exact H|constructor]. Qed.

  Lemma settle0 next p q c1 w qo cp :
    exists n, steps n (mk (aw 0 next) p q {| buf := []; cap := cp; closed := false |} c1 w qo)
                      (mk next p q {| buf := []; cap := cp; closed := false |} c1 w qo).
  Proof.
    unfold aw. destruct (sync 0); [|exists 0; constructor].
    exists 1. apply (step1 _ 0). unfold Net.pstep, mk. cbn. reflexivity.
  Qed.
  Lemma settle1 cl next q c0 w qo cp :
    exists n, steps n (mk cl (aw 1 next) q c0 {| buf := []; cap := cp; closed := false |} w qo)
                      (mk cl next q c0 {| buf := []; cap := cp; closed := false |} w qo).
  Proof.
    unfold aw. destruct (sync 1); [|exists 0; constructor].
    exists 1. apply (step1 _ 1). unfold Net.pstep, mk. cbn. reflexivity.
  Qed.

  (* the parser hands the messages ms to the queue updater *)
  Lemma hand_over cl s cap1 c0 w : forall ms qo, 1 <= cap1 ->
    exists n, steps n (mk cl (p_after s ms) QRecv c0 (ech cap1) w qo)
                      (mk cl (PRecv s) QRecv c0 (ech cap1) w (qo ++ map EvQ ms)).
  Proof.
    induction ms as [|m ms IH]; intros qo H1.
    - exists 0. cbn [map]. rewrite app_nil_r. constructor.
    - destruct (IH (qo ++ [EvQ m]) H1) as [n Hn].
      assert (S1 : pstep (mk cl (p_after s (m :: ms)) QRecv c0 (ech cap1) w qo) 1 =
                   Some (mk cl (aw 1 (p_after s ms)) QRecv c0 {| buf := [VM m]; cap := cap1; closed := false |} w qo)).
      { unfold Net.pstep, mk. cbn -[Nat.ltb aw]. replace (0 <? cap1) with true by (symmetry; apply Nat.ltb_lt; lia). reflexivity. }
      assert (S2 : pstep (mk cl (aw 1 (p_after s ms)) QRecv c0 {| buf := [VM m]; cap := cap1; closed := false |} w qo) 2 =
                   Some (mk cl (aw 1 (p_after s ms)) (QRec m) c0 (ech cap1) w qo)).
      { unfold Net.pstep, mk. cbn -[aw]. reflexivity. }
      destruct (settle1 cl (p_after s ms) (QRec m) c0 w qo cap1) as [n1 Hn1].
      assert (S3 : pstep (mk cl (p_after s ms) (QRec m) c0 (ech cap1) w qo) 2 =
                   Some (mk cl (p_after s ms) QRecv c0 (ech cap1) w (qo ++ [EvQ m]))).
      { unfold Net.pstep, mk. cbn. reflexivity. }
      exists (1 + (1 + (n1 + (1 + n)))).
      eapply steps_trans; [exact (step1 _ _ _ S1)|].
      eapply steps_trans; [exact (step1 _ _ _ S2)|].
      eapply steps_trans; [exact Hn1|].
      eapply steps_trans; [exact (step1 _ _ _ S3)|].
      cbn [map]. replace (qo ++ EvQ m :: map EvQ ms) with ((qo ++ [EvQ m]) ++ map EvQ ms) by (rewrite <- app_assoc; reflexivity).
      exact Hn.
  Qed.

  (* the bytes of one chunk go through the parser *)
  Lemma push_bytes chunk rest cap0 cap1 w : forall cur s qo, 1 <= cap0 -> 1 <= cap1 ->
    exists n, steps n (mk (CL cur chunk rest) (PRecv s) QRecv (ech cap0) (ech cap1) w qo)
                      (mk (CL [] chunk rest) (PRecv (snd (frun s cur))) QRecv (ech cap0) (ech cap1) w
                          (qo ++ map EvQ (fst (frun s cur)))).
  Proof.
    induction cur as [|b cur IH]; intros s qo H0 H1.
    - exists 0. cbn [frun fst snd map]. rewrite app_nil_r. constructor.
    - cbn [frun]. destruct (frun (fst (fstep s b)) cur) as [ms s'] eqn:E. cbn [fst snd].
      destruct (hand_over (CL cur chunk rest) (fst (fstep s b)) cap1 (ech cap0) w (snd (fstep s b)) qo H1) as [n1 Hn1].
      destruct (IH (fst (fstep s b)) (qo ++ map EvQ (snd (fstep s b))) H0 H1) as [n2 Hn2]. rewrite E in Hn2. cbn [fst snd] in Hn2.
      assert (S1 : pstep (mk (CL (b :: cur) chunk rest) (PRecv s) QRecv (ech cap0) (ech cap1) w qo) 0 =
                   Some (mk (aw 0 (CL cur chunk rest)) (PRecv s) QRecv {| buf := [VB b]; cap := cap0; closed := false |} (ech cap1) w qo)).
      { unfold Net.pstep, mk. cbn -[Nat.ltb aw]. replace (0 <? cap0) with true by (symmetry; apply Nat.ltb_lt; lia). reflexivity. }
      assert (S2 : pstep (mk (aw 0 (CL cur chunk rest)) (PRecv s) QRecv {| buf := [VB b]; cap := cap0; closed := false |} (ech cap1) w qo) 1 =
                   Some (mk (aw 0 (CL cur chunk rest)) (p_after (fst (fstep s b)) (snd (fstep s b))) QRecv (ech cap0) (ech cap1) w qo)).
      { unfold Net.pstep, mk. cbn -[aw]. reflexivity. }
      destruct (settle0 (CL cur chunk rest) (p_after (fst (fstep s b)) (snd (fstep s b))) QRecv (ech cap1) w qo cap0) as [n0 Hn0].
      exists (1 + (1 + (n0 + (n1 + n2)))).
      eapply steps_trans; [exact (step1 _ _ _ S1)|].
      eapply steps_trans; [exact (step1 _ _ _ S2)|].
      eapply steps_trans; [exact Hn0|].
      eapply steps_trans; [exact Hn1|].
      rewrite map_app, app_assoc. exact Hn2.
  Qed.

  Lemma frun_app s a b : frun s (a ++ b) = (fst (frun s a) ++ fst (frun (snd (frun s a)) b), snd (frun (snd (frun s a)) b)).
  Proof.
    revert s; induction a as [|x a IH]; intros s; cbn [app frun fst snd].
    - destruct (frun s b); reflexivity.
    - rewrite IH. destruct (frun (fst (fstep s x)) a) as [ms s']. cbn [fst snd]. rewrite app_assoc. reflexivity.
  Qed.

  (* all chunks *)
  Lemma relay_chunks cap0 cap1 : forall chunks c s w qo, 1 <= cap0 -> 1 <= cap1 ->
    exists n, steps n (mk (CL c c chunks) (PRecv s) QRecv (ech cap0) (ech cap1) w qo)
                      (mk CLDone (PRecv (snd (frun s (concat (c :: chunks))))) QRecv (ech cap0) (ech cap1)
                          (w ++ map EvW (c :: chunks)) (qo ++ map EvQ (fst (frun s (concat (c :: chunks)))))).
  Proof.
    induction chunks as [|c2 chunks IH]; intros c s w qo H0 H1.
    - destruct (push_bytes c [] cap0 cap1 w c s qo H0 H1) as [n Hn].
      exists (n + 1). cbn [concat map]. rewrite app_nil_r.
      eapply steps_trans; [exact Hn|]. apply (step1 _ 0). unfold Net.pstep, mk. cbn. reflexivity.
    - destruct (push_bytes c (c2 :: chunks) cap0 cap1 w c s qo H0 H1) as [n Hn].
      destruct (IH c2 (snd (frun s c)) (w ++ [EvW c]) (qo ++ map EvQ (fst (frun s c))) H0 H1) as [n2 Hn2].
      exists (n + (1 + n2)).
      eapply steps_trans; [exact Hn|]. eapply steps_trans.
      + apply (step1 _ 0). unfold Net.pstep, mk. cbn. reflexivity.
      + change (concat (c :: c2 :: chunks)) with (c ++ concat (c2 :: chunks)). rewrite frun_app. cbn [fst snd].
        rewrite map_app, app_assoc. change (map EvW (c :: c2 :: chunks)) with ([EvW c] ++ map EvW (c2 :: chunks)).
        rewrite app_assoc. exact Hn2.
  Qed.

  Definition fin (cap0 cap1 : nat) (chunks : list (list B)) (s0 : FS) : config :=
    mk CLDone (PRecv (snd (frun s0 (concat chunks)))) QRecv (ech cap0) (ech cap1)
       (map EvW chunks) (map EvQ (fst (frun s0 (concat chunks)))).

  Lemma fin_final cap0 cap1 chunks s0 : final_config st val ev prog sender receiver QDead (fin cap0 cap1 chunks s0).
  Proof.
    intros c' [p Hp]. unfold fin, mk, Net.pstep in Hp. destruct p as [|[|[|p]]]; cbn in Hp; discriminate.
  Qed.

  Theorem relay_every_schedule cap0 cap1 chunks s0 : 1 <= cap0 -> 1 <= cap1 ->
    exists n, forall m c, steps m (init cap0 cap1 chunks s0) c ->
      m <= n /\ steps (n - m) c (fin cap0 cap1 chunks s0) /\
      (final_config st val ev prog sender receiver QDead c -> c = fin cap0 cap1 chunks s0).
  Proof.
    intros H0 H1.
    assert (E : exists n, steps n (init cap0 cap1 chunks s0) (fin cap0 cap1 chunks s0)).
    { unfold init, fin. destruct chunks as [|c chunks].
      - exists 0. cbn. constructor.
      - cbn [cl_start]. destruct (relay_chunks cap0 cap1 chunks c s0 [] [] H0 H1) as [n Hn]. exists n. exact Hn. }
    destruct E as [n Hn]. exists n. intros m c Hm.
    pose proof (fin_final cap0 cap1 chunks s0) as Hf.
    destruct (net_determinacy st val ev prog sender receiver QDead n _ _ Hn Hf m c Hm) as [Hle Hrest].
    split; [exact Hle|]. split; [exact Hrest|].
    intros Hfc. exact (net_unique_final st val ev prog sender receiver QDead n _ _ m c Hn Hf Hm Hfc).
  Qed.

  (* what the final configuration says *)
  Definition server_writes (c : config) : list ev := nth 0 (outs c) [].
  Definition queue_adds (c : config) : list ev := nth 2 (outs c) [].
  Theorem fin_shape cap0 cap1 chunks s0 :
    let f := fin cap0 cap1 chunks s0 in
    server_writes f = map EvW chunks /\
    queue_adds f = map EvQ (fst (frun s0 (concat chunks))) /\
    prog (nth 0 (procs f) QDead) = OHalt _ _ _ /\
    buf (nth 0 (chans f) (dchan val)) = [] /\ buf (nth 1 (chans f) (dchan val)) = [].
  Proof. cbn. repeat split. Qed.
End Relay.

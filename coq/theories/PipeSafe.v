(* PipeSafe.v - the facts of NetSafety.v for the reader/framer/fan-out/consumers network of Pipe.v. *)
From Coq Require Import List Arith Lia Bool.
Import ListNotations.
From NTRIP Require Import Net Pipe.
From NTRIP Require Import NetSafety.
Arguments procs {St V Ev}. Arguments chans {St V Ev}. Arguments outs {St V Ev}.
Arguments buf {V}. Arguments cap {V}. Arguments closed {V}.

Section PS.
  Variables (B M FS : Type) (fstep : FS -> B -> FS * list M) (fflush : FS -> list M) (k : nat) (live sync : nat -> bool).

  Lemma init_bounded cap0 cap1 caps bs s0 :
    bounded _ _ _ (Pipe.init B M FS k cap0 cap1 caps bs s0).
  Proof.
    unfold bounded. intros ch. unfold Pipe.init, mk, mkg. cbn [chans].
    destruct ch as [|ch]; [cbn; lia|]. destruct ch as [|ch]; [cbn; lia|]. cbn [nth].
    destruct (Nat.lt_ge_cases ch (length (map (ech B M) caps))) as [Hlt|Hge].
    - rewrite nth_indep with (d' := ech B M 0) by exact Hlt. rewrite (map_nth (ech B M)). cbn. lia.
    - rewrite nth_overflow by exact Hge. cbn. lia.
  Qed.

  (* every reachable configuration of the pipeline, under every schedule *)
  Theorem pipeline_channels_safe cap0 cap1 caps bs s0 c :
    reachable _ _ _ (Pipe.prog B M FS fstep fflush k live sync) Pipe.sender Pipe.receiver (SkDone B M FS)
              (Pipe.init B M FS k cap0 cap1 caps bs s0) c ->
    length (chans c) = 2 + length caps /\
    (forall ch, length (buf (nth ch (chans c) (dchan _))) <= cap (nth ch (chans c) (dchan _))) /\
    (forall ch, cap (nth ch (chans c) (dchan _)) = cap (nth ch (chans (Pipe.init B M FS k cap0 cap1 caps bs s0)) (dchan _))).
  Proof.
    intros [n Hn].
    destruct (steps_safe _ _ _ _ _ _ _ n _ _ Hn) as (Hl & Hc & _ & Hb).
    split; [rewrite Hl; unfold Pipe.init, mk, mkg; cbn [chans length]; rewrite map_length; reflexivity|].
    split; [exact (Hb (init_bounded cap0 cap1 caps bs s0))|exact Hc].
  Qed.

  (* once a channel is closed it stays closed and nothing more is put into it, in every continuation *)
  Theorem pipeline_closed_for_good c c' n ch :
    steps _ (nstep _ _ _ (Pipe.prog B M FS fstep fflush k live sync) Pipe.sender Pipe.receiver (SkDone B M FS)) n c c' ->
    closed (nth ch (chans c) (dchan _)) = true ->
    closed (nth ch (chans c') (dchan _)) = true /\
    exists taken, buf (nth ch (chans c) (dchan _)) = taken ++ buf (nth ch (chans c') (dchan _)).
  Proof.
    intros Hn. destruct (steps_safe _ _ _ _ _ _ _ n _ _ Hn) as (_ & _ & Hcl & _). exact (Hcl ch).
  Qed.
End PS.

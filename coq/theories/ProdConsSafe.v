(* ProdConsSafe.v - the producer/writer network of ProdCons.v: how far the pass-through can run ahead of the record. *)
From Coq Require Import List Arith Lia Bool.
Import ListNotations.
From NTRIP Require Import Net ProdCons.
From NTRIP Require Import NetSafety.
Arguments procs {St V Ev}. Arguments chans {St V Ev}. Arguments outs {St V Ev}.
Arguments buf {V}. Arguments cap {V}. Arguments closed {V}.

Section More2.
  Variable V : Type.
  Variables (lat : nat) (wait sync0 : bool).

  Lemma pc_init_bounded cap0 (xs : list V) : bounded _ _ _ (init V cap0 xs).
  Proof. unfold bounded. intros ch. destruct ch as [|ch]; [cbn; lia|]. destruct ch as [|ch]; [cbn; lia|]. destruct ch; cbn; lia. Qed.

  (* at every moment: stdout is a prefix of the input, the record a prefix of stdout, and the record is never
     more than capacity + 2 blocks behind (one in the recorder's hands, the channel's content, one just passed) *)
  Theorem prefixes_bounded cap0 xs c : 1 <= cap0 ->
    reachable _ _ _ (prog V lat true wait sync0) sender receiver (MDone V) (init V cap0 xs) c ->
    exists ahead rest, passes V (main_out V c) = writes V (writer_out V c) ++ ahead /\
                       xs = passes V (main_out V c) ++ rest /\ length ahead <= cap0 + 2.
  Proof.
    intros Hcap Hr.
    pose proof (reachable_bounded _ _ _ _ _ _ _ _ _ (pc_init_bounded cap0 xs) Hr 0) as Hb.
    destruct (inv_reachable V lat true wait sync0 cap0 xs c Hcap Hr) as (m & w & b0 & cl0 & cl1 & om & ow & -> & Hm & Hw & Hxs & Hps & _).
    cbn in Hb. unfold main_out, writer_out. cbn [outs nth].
    exists (inflight V w ++ b0 ++ handed V m).
    assert (R : exists rest, pending V m = handed V m ++ rest /\ length (handed V m) <= 1).
    { destruct m as [r|x r| | | | | | | |r]; try discriminate Hm; cbn [pending handed].
      - exists r. split; [reflexivity|cbn; lia].
      - exists r. split; [reflexivity|cbn; lia].
      - exists []. split; [reflexivity|cbn; lia].
      - exists []. split; [reflexivity|cbn; lia].
      - exists []. split; [reflexivity|cbn; lia].
      - exists r. split; [reflexivity|cbn; lia]. }
    destruct R as (rest & R & Hh). exists rest. split; [exact Hps|]. split.
    - rewrite Hps, Hxs, R. rewrite <- !app_assoc. reflexivity.
    - rewrite !app_length. assert (length (inflight V w) <= 1) by (destruct w; cbn; lia). lia.
  Qed.
End More2.

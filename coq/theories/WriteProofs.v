(* WriteProofs.v - the bit writers of the specification encoders and their round trips
   with the readers: put_u / put_s / bytes_of_bits versus bits_of / N_of_bits / Z_of_bits_2c. *)
From NTRIP Require Import Base Bits BitsProofs.
From Coq Require Import ZifyN ZifyNat ZifyBool.
Open Scope N_scope.

Lemma put_u_length w v : length (put_u w v) = w.
Proof. induction w as [|w IH]; cbn [put_u length]; [reflexivity|]. rewrite IH. reflexivity. Qed.

Lemma put_s_length w z : length (put_s w z) = w.
Proof. apply put_u_length. Qed.

Lemma N_of_bits_app a b : N_of_bits (a ++ b) = N_of_bits a * 2 ^ N.of_nat (length b) + N_of_bits b.
Proof.
  induction a as [|x a IH]; cbn [app].
  - change (N_of_bits []) with 0. lia.
  - rewrite !N_of_bits_cons, IH, app_length, Nat2N.inj_add, N.pow_add_r. lia.
Qed.

(* the w-bit big-endian digits of v read back as v mod 2^w *)
Lemma N_of_bits_put_u w v : N_of_bits (put_u w v) = v mod 2 ^ N.of_nat w.
Proof.
  induction w as [|w IH]; cbn [put_u].
  - change (2 ^ N.of_nat 0) with 1. rewrite N.mod_1_r. reflexivity.
  - rewrite N_of_bits_cons, put_u_length, IH.
    rewrite Nat2N.inj_succ, N.pow_succ_r'.
    rewrite N.testbit_eqb.
    set (P := 2 ^ N.of_nat w). assert (HP : P <> 0) by (apply N.pow_nonzero; lia).
    pose proof (N.mod_upper_bound (v / P) 2 ltac:(lia)) as Hb.
    rewrite (N.mul_comm 2 P), N.mod_mul_r by lia.
    clearbody P. generalize dependent ((v / P) mod 2). intros q Hq.
    destruct (N.eqb_spec q 1) as [E|E]; cbn [b2n].
    + subst q. lia.
    + assert (E0 : q = 0) by lia. subst q. lia.
Qed.

Lemma N_of_bits_put_u_small w v : v < 2 ^ N.of_nat w -> N_of_bits (put_u w v) = v.
Proof. intros H. rewrite N_of_bits_put_u. apply N.mod_small, H. Qed.

(* two's complement *)
Lemma twos_core (P z : Z) : (0 < P)%Z -> (- P <= z < P)%Z ->
  let m := (z mod (2 * P))%Z in
  ((if (Z.to_N (m / P) mod 2 =? 1)%N then - P else 0) + Z.of_N (Z.to_N (m mod P)))%Z = z.
Proof.
  intros HP Hz m.
  assert (Hm : (0 <= m < 2 * P)%Z) by (apply Z.mod_pos_bound; lia).
  destruct (Z.le_gt_cases 0 z) as [Hnn|Hneg].
  - assert (Em : m = z) by (apply Z.mod_small; lia).
    rewrite Em, (Z.div_small z P), (Z.mod_small z P) by lia.
    replace (Z.to_N 0 mod 2 =? 1)%N with false by reflexivity.
    rewrite Z2N.id by lia. lia.
  - assert (Em : m = (z + 2 * P)%Z).
    { unfold m. rewrite <- (Z.mod_add z 1 (2 * P)) by lia. rewrite Z.mul_1_l. apply Z.mod_small. lia. }
    assert (E1 : ((z + 2 * P) / P = 1)%Z).
    { symmetry. apply (Z.div_unique_pos (z + 2 * P) P 1 (z + P)); lia. }
    assert (E3 : ((z + 2 * P) mod P = z + P)%Z).
    { symmetry. apply (Z.mod_unique_pos (z + 2 * P) P 1 (z + P)); lia. }
    rewrite Em, E1, E3.
    replace (Z.to_N 1 mod 2 =? 1)%N with true by reflexivity.
    rewrite Z2N.id by lia. lia.
Qed.

Lemma Z_of_bits_put_s w z : (1 <= w)%nat ->
  (- 2 ^ Z.of_nat (w - 1) <= z < 2 ^ Z.of_nat (w - 1))%Z ->
  Z_of_bits_2c (put_s w z) = z.
Proof.
  intros Hw Hz. destruct w as [|w]; [lia|].
  replace (S w - 1)%nat with w in Hz by lia.
  unfold put_s. cbn [put_u Z_of_bits_2c]. rewrite put_u_length, N_of_bits_put_u.
  assert (HP : (0 < 2 ^ Z.of_nat w)%Z) by (apply Z.pow_pos_nonneg; lia).
  assert (E2 : (2 ^ Z.of_nat (S w) = 2 * 2 ^ Z.of_nat w)%Z) by (rewrite Nat2Z.inj_succ, Z.pow_succ_r by lia; reflexivity).
  rewrite E2.
  assert (EP : 2 ^ N.of_nat w = Z.to_N (2 ^ Z.of_nat w)).
  { rewrite <- (N2Z.id (2 ^ N.of_nat w)), N2Z.inj_pow. f_equal. f_equal. lia. }
  rewrite N.testbit_eqb, EP.
  generalize dependent (2 ^ Z.of_nat w)%Z. intros P Hz HP _ _.
  pose proof (Z.mod_pos_bound z (2 * P) ltac:(lia)) as Hm.
  rewrite <- Z2N.inj_div, <- Z2N.inj_mod by lia.
  apply twos_core; assumption.
Qed.

(* ---------- packing bits into bytes ---------- *)

Lemma byte_bits_of_8 (bs : list bool) : length bs = 8%nat -> byte_bits (N_of_bits bs) = bs /\ N_of_bits bs < 256.
Proof.
  intros H. do 9 (destruct bs as [|? bs]; cbn in H; try lia).
  repeat match goal with b : bool |- _ => destruct b end; split; vm_compute; reflexivity.
Qed.

Lemma firstn8_app_repeat (bs : list bool) : (8 <= length bs)%nat ->
  firstn 8 (bs ++ repeat false 7) = firstn 8 bs.
Proof. intros H. rewrite firstn_app. replace (8 - length bs)%nat with 0%nat by lia. apply app_nil_r. Qed.

Lemma bytes_of_bits_fuel_whole : forall k fuel bs, length bs = (8 * k)%nat -> (k < fuel)%nat ->
  bits_of (bytes_of_bits_fuel fuel bs) = bs /\ length (bytes_of_bits_fuel fuel bs) = k /\
  bytes_ok (bytes_of_bits_fuel fuel bs).
Proof.
  induction k as [|k IH]; intros fuel bs Hl Hf.
  - destruct bs; [|cbn in Hl; lia]. destruct fuel; cbn; repeat split; constructor.
  - destruct fuel as [|fuel]; [lia|]. cbn [bytes_of_bits_fuel].
    destruct bs as [|b0 bs']; [cbn in Hl; lia|].
    set (bs := b0 :: bs') in *.
    assert (H8 : (8 <= length bs)%nat) by lia.
    rewrite firstn8_app_repeat by exact H8.
    destruct (IH fuel (skipn 8 bs)) as (I1 & I2 & I3); [rewrite skipn_length; lia|lia|].
    assert (Hf8 : length (firstn 8 bs) = 8%nat) by (apply firstn_length_le; exact H8).
    destruct (byte_bits_of_8 _ Hf8) as [B1 B2].
    rewrite bits_of_cons, B1, I1, firstn_skipn. split; [reflexivity|].
    split; [cbn [length]; rewrite I2; reflexivity|]. constructor; [exact B2|exact I3].
Qed.

(* a whole number of bytes packs and unpacks exactly *)
Lemma bytes_of_bits_whole k bs : length bs = (8 * k)%nat ->
  bits_of (bytes_of_bits bs) = bs /\ length (bytes_of_bits bs) = k /\ bytes_ok (bytes_of_bits bs).
Proof. intros H. unfold bytes_of_bits. apply (bytes_of_bits_fuel_whole k); lia. Qed.

Lemma repeat_false_app_firstn : forall n m, (n <= m)%nat -> firstn n (repeat false m) = repeat false n.
Proof.
  induction n as [|n IH]; intros m H; [reflexivity|]. destruct m as [|m]; [lia|].
  cbn [repeat]. change (firstn (S n) (false :: repeat false m)) with (false :: firstn n (repeat false m)).
  rewrite IH by lia. reflexivity.
Qed.

Lemma bof_step fuel (bs : list bool) : bs <> [] ->
  bytes_of_bits_fuel (S fuel) bs =
  N_of_bits (firstn 8 (bs ++ repeat false 7)) :: bytes_of_bits_fuel fuel (skipn 8 bs).
Proof. destruct bs; [congruence|reflexivity]. Qed.

(* in general the last byte is padded with zero bits *)
Lemma bytes_of_bits_pad : forall k fuel bs pad, (length bs + pad = 8 * k)%nat -> (pad < 8)%nat ->
  (k < fuel)%nat -> (length bs < fuel)%nat ->
  bytes_of_bits_fuel fuel bs = bytes_of_bits_fuel fuel (bs ++ repeat false pad).
Proof.
  induction k as [|k IH]; intros fuel bs pad Hl Hp Hf Hf2.
  - assert (bs = []) by (destruct bs; [reflexivity|cbn in Hl; lia]). subst. assert (pad = 0%nat) by (cbn in Hl; lia). subst. reflexivity.
  - destruct fuel as [|fuel]; [lia|].
    assert (Hne : bs <> []) by (intros ->; cbn in Hl; lia).
    assert (Hne2 : bs ++ repeat false pad <> []) by (destruct bs; [congruence|discriminate]).
    rewrite (bof_step fuel bs Hne), (bof_step fuel _ Hne2).
    destruct (Nat.le_gt_cases 8 (length bs)) as [H8|H8].
    + rewrite !firstn8_app_repeat by (rewrite ?app_length; lia).
      rewrite firstn_app. replace (8 - length bs)%nat with 0%nat by lia.
      change (firstn 0 (repeat false pad)) with (@nil bool). rewrite app_nil_r.
      f_equal. rewrite skipn_app. replace (8 - length bs)%nat with 0%nat by lia.
      change (skipn 0 (repeat false pad)) with (repeat false pad).
      apply (IH fuel (skipn 8 bs) pad); try lia; rewrite skipn_length; lia.
    + (* the last, partial byte *)
      assert (k = 0%nat) by lia. subst k.
      assert (Hpad : pad = (8 - length bs)%nat) by lia.
      rewrite (skipn_all2 bs) by lia.
      rewrite (skipn_all2 (bs ++ repeat false pad)) by (rewrite app_length, repeat_length; lia).
      assert (Hnil : forall f, bytes_of_bits_fuel f (@nil bool) = []) by (destruct f; reflexivity).
      rewrite !Hnil. f_equal. f_equal.
      rewrite (firstn8_app_repeat (bs ++ repeat false pad)) by (rewrite app_length, repeat_length; lia).
      rewrite (firstn_all2 (n := 8) (bs ++ repeat false pad)) by (rewrite app_length, repeat_length; lia).
      rewrite firstn_app, (firstn_all2 bs) by lia.
      rewrite repeat_false_app_firstn by lia. rewrite Hpad. reflexivity.
Qed.

Definition pad_len (n : nat) : nat := ((8 - n mod 8) mod 8)%nat.

Lemma pad_len_spec n : exists k, (n + pad_len n = 8 * k)%nat /\ (pad_len n < 8)%nat /\ (k = (n + 7) / 8)%nat.
Proof.
  unfold pad_len. pose proof (Nat.div_mod n 8 ltac:(lia)) as D. pose proof (Nat.mod_upper_bound n 8 ltac:(lia)) as U.
  destruct (Nat.eq_dec (n mod 8) 0) as [E|E].
  - rewrite E. exists (n / 8)%nat. change ((8 - 0) mod 8)%nat with 0%nat. repeat split; lia.
  - rewrite (Nat.mod_small (8 - n mod 8) 8) by lia. exists (S (n / 8)). repeat split; lia.
Qed.

(* the bytes of a bit string: its bits followed by the zero padding of the last byte *)
Lemma bits_of_bytes_of_bits bs :
  bits_of (bytes_of_bits bs) = bs ++ repeat false (pad_len (length bs)) /\
  length (bytes_of_bits bs) = ((length bs + 7) / 8)%nat /\ bytes_ok (bytes_of_bits bs).
Proof.
  destruct (pad_len_spec (length bs)) as (k & Hk & Hp & Hk2).
  unfold bytes_of_bits.
  rewrite (bytes_of_bits_pad k (S (length bs)) bs (pad_len (length bs))) by lia.
  destruct (bytes_of_bits_fuel_whole k (S (length bs)) (bs ++ repeat false (pad_len (length bs)))) as (A & B & C).
  - rewrite app_length, repeat_length. exact Hk.
  - lia.
  - rewrite Hk2 in B. repeat split; assumption.
Qed.

(* SegProofs.v - C03 and C12: a stream of valid frames, 0xD3-free junk and (C12) frames whose
   payload or CRC was corrupted is delivered segment by segment. *)
From NTRIP Require Import Base Bits BitsProofs Crc CrcProofs Time Classify Frame FrameSpec FrameProofs
     WriteProofs EncProofs.
From NTRIPGen Require Import GenConsts.
From Coq Require Import ZifyN ZifyNat ZifyBool.
Open Scope N_scope.

(* ---------- every valid frame is the specification's frame of its payload ---------- *)

Lemma bytes_ok_inv a l : bytes_ok (a :: l) -> a < 256 /\ bytes_ok l.
Proof. intros H. inversion H. split; assumption. Qed.

Lemma valid_frame_is_fop f : valid_frame f ->
  exists p, f = frame_of_payload p /\ bytes_ok p /\ (1 <= length p <= 1023)%nat.
Proof.
  unfold valid_frame, valid_frameb. intros H.
  apply andb_true_iff in H. destruct H as [Hok H]. apply bytes_okb_spec in Hok.
  destruct f as [|d [|hi [|lo body]]]; try discriminate.
  repeat (apply andb_true_iff in H; destruct H as [H ?]).
  rename H into Hd. apply N.eqb_eq in Hd. subst d.
  match goal with X : (hi <? 4) = true |- _ => apply N.ltb_lt in X; rename X into Hhi end.
  match goal with X : (1 <=? _) = true |- _ => apply N.leb_le in X; rename X into Hlen end.
  match goal with X : (N.of_nat (length body) =? _) = true |- _ => apply N.eqb_eq in X; rename X into Hbody end.
  set (len := 256 * hi + lo) in *.
  destruct (bytes_ok_inv _ _ Hok) as [_ Hok1]. destruct (bytes_ok_inv _ _ Hok1) as [Hhi8 Hok2].
  destruct (bytes_ok_inv _ _ Hok2) as [Hlo8 Hok3].
  set (n := (3 + N.to_nat len)%nat) in *.
  destruct (skipn n (211 :: hi :: lo :: body)) as [|c2 [|c1 [|c0 [|? ?]]]] eqn:ES; try discriminate.
  match goal with X : (crc24q_spec _ =? _) = true |- _ => apply N.eqb_eq in X; rename X into Hcrc end.
  assert (Hn : n = S (S (S (N.to_nat len)))) by (unfold n; lia).
  assert (Hsk : skipn (N.to_nat len) body = [c2; c1; c0]) by (rewrite Hn in ES; exact ES).
  set (p := firstn (N.to_nat len) body).
  assert (Hbp : body = p ++ [c2; c1; c0]) by (unfold p; rewrite <- Hsk; symmetry; apply firstn_skipn).
  assert (Hpl : length p = N.to_nat len) by (unfold p; apply firstn_length_le; lia).
  assert (Hc3 : bytes_ok [c2; c1; c0]) by (rewrite <- Hsk; apply bytes_ok_skipn, Hok3).
  destruct (bytes_ok_inv _ _ Hc3) as [Hc2 Hc3']. destruct (bytes_ok_inv _ _ Hc3') as [Hc1 Hc3''].
  destruct (bytes_ok_inv _ _ Hc3'') as [Hc0 _].
  exists p. split; [|split; [unfold p; apply bytes_ok_firstn, Hok3|lia]].
  rewrite frame_of_payload_shape. cbv zeta. rewrite Hpl, N2Nat.id.
  assert (E1 : len / 256 = hi) by (unfold len; Z.div_mod_to_equations; lia).
  assert (E2 : len mod 256 = lo) by (unfold len; Z.div_mod_to_equations; lia).
  unfold leader. rewrite E1, E2. cbn [app]. do 3 f_equal. rewrite Hbp. f_equal.
  assert (Hfirst : firstn n (211 :: hi :: lo :: body) = 211 :: hi :: lo :: p).
  { rewrite Hn. reflexivity. }
  rewrite Hfirst in Hcrc. rewrite Hcrc.
  assert (65536 * c2 + 256 * c1 + c0 < 16777216) by lia.
  f_equal; [|f_equal; [|f_equal]]; Z.div_mod_to_equations; lia.
Qed.

(* what the model does with a valid frame *)
Lemma valid_frame_checks f : valid_frame f ->
  bytes_ok f /\ exists len, get_len_type f = inl (Ok (len, Z.of_N (frame_type f))) /\
    length f = N.to_nat (len + LeaderLengthBytes + CRCLengthBytes) /\ check_crc f = None.
Proof.
  intros V. destruct (valid_frame_is_fop f V) as (p & -> & Hp & Hl).
  destruct (frame_checks p Hp Hl) as (A & B & C). split; [exact A|].
  exists (N.of_nat (length p)). split; [exact B|]. split; [|exact C].
  rewrite frame_of_payload_length. change LeaderLengthBytes with 3. change CRCLengthBytes with 3. lia.
Qed.

(* ---------- corrupted frames (C12) ---------- *)

(* f' has the length and the 3-byte leader of a valid frame, and its CRC does not match *)
Definition crc_mismatch (f' : list N) : Prop :=
  let n := (length f' - 3)%nat in
  match skipn n f' with
  | [c2; c1; c0] => crc24q_spec (firstn n f') <> 65536 * c2 + 256 * c1 + c0
  | _ => True
  end.

Definition bad_frame (f' : list N) : Prop :=
  bytes_ok f' /\ crc_mismatch f' /\
  exists f, valid_frame f /\ length f' = length f /\ firstn 3 f' = firstn 3 f.

Lemma check_crc_mismatch f' : bytes_ok f' -> (6 <= length f')%nat -> crc_mismatch f' -> check_crc f' = Some ErrCRC.
Proof.
  intros Hok Hl Hm. unfold check_crc, crc_mismatch in *.
  change (N.to_nat (LeaderLengthBytes + CRCLengthBytes)) with 6%nat. change (N.to_nat CRCLengthBytes) with 3%nat.
  destruct (Nat.ltb_spec (length f') 6) as [C|_]; [lia|]. cbv zeta in Hm.
  destruct (skipn (length f' - 3) f') as [|c2 [|c1 [|c0 [|? ?]]]] eqn:ES; try reflexivity.
  destruct ((crc_hi _ =? c2) && (crc_mi _ =? c1) && (crc_lo _ =? c0)) eqn:E; [|reflexivity].
  exfalso. apply Hm.
  assert (Hc3 : bytes_ok [c2; c1; c0]) by (rewrite <- ES; apply bytes_ok_skipn, Hok).
  destruct (bytes_ok_inv _ _ Hc3) as [Hc2 Hc3']. destruct (bytes_ok_inv _ _ Hc3') as [Hc1 Hc3''].
  destruct (bytes_ok_inv _ _ Hc3'') as [Hc0 _].
  rewrite crc24q_hash_spec in E by (apply bytes_ok_firstn, Hok).
  apply crc_bytes in E; try assumption. apply crc24q_spec_bound.
Qed.

(* the leader decides the length: it is read from the first five bytes *)
Lemma get_len_type_first5 b : (5 <= length b)%nat -> get_len_type (firstn 5 b) = get_len_type b.
Proof.
  intros H. rewrite <- (firstn_skipn 5 b) at 2. symmetry. apply get_len_type_prefix.
  rewrite firstn_length_le; lia.
Qed.

Lemma get_len_type_leader b1 b2 len ty : (5 <= length b1)%nat -> (5 <= length b2)%nat ->
  bytes_ok b1 -> bytes_ok b2 -> firstn 3 b1 = firstn 3 b2 ->
  get_len_type b1 = inl (Ok (len, ty)) -> exists ty', get_len_type b2 = inl (Ok (len, ty')).
Proof.
  intros H1 H2 O1 O2 E G.
  destruct b1 as [|a0 [|a1 [|a2 r1]]]; cbn [length] in H1; try lia.
  destruct b2 as [|c0 [|c1 [|c2 r2]]]; cbn [length] in H2; try lia.
  change (firstn 3 (a0 :: a1 :: a2 :: r1)) with [a0; a1; a2] in E.
  change (firstn 3 (c0 :: c1 :: c2 :: r2)) with [c0; c1; c2] in E. injection E as -> -> ->.
  pose proof (get_len_type_ok _ _ _ G) as (_ & H0 & Hs & Hl & Hnz & _).
  cbn in H0. injection H0 as ->. change D3 with 211 in *.
  destruct (bytes_ok_inv _ _ O2) as [_ O2']. destruct (bytes_ok_inv _ _ O2') as [Hc1 O2''].
  destruct (bytes_ok_inv _ _ O2'') as [Hc2 _].
  destruct (leader_bits c1 c2 r1 Hc1 Hc2) as [L1 L2]. destruct (leader_bits c1 c2 r2 Hc1 Hc2) as [M1 M2].
  rewrite L1 in Hs. rewrite L2 in Hl. injection Hs as Hs. injection Hl as Hl.
  unfold get_len_type. change (N.to_nat LeaderLengthBytes + 2)%nat with 5%nat.
  destruct (Nat.ltb_spec (length (211 :: c1 :: c2 :: r2)) 5) as [C|_]; [cbn [length] in *; lia|].
  change (211 =? D3) with true. cbn [negb]. rewrite M1, M2.
  destruct (get_u_in_range (211 :: c1 :: c2 :: r2) 24 12) as [t Ht]; [cbn [length] in *; lia|]. rewrite Ht.
  rewrite Hs, Hl. change (0 =? 0) with true. cbn [negb].
  destruct (N.eqb_spec len 0) as [C|_]; [congruence|]. eexists. reflexivity.
Qed.

(* ---------- exact behaviour of the reading primitives ---------- *)

Lemma read_n_enough : forall n r frame, (n <= length r)%nat ->
  read_n n {| pb := []; rest := r |} frame = (frame ++ firstn n r, {| pb := []; rest := skipn n r |}, true).
Proof.
  induction n as [|n IH]; intros r frame H.
  - cbn [read_n]. change (firstn 0 r) with (@nil N). rewrite app_nil_r. reflexivity.
  - destruct r as [|b r]; [cbn in H; lia|]. cbn [read_n next_byte pb rest].
    rewrite IH by (cbn [length] in H; lia). rewrite <- app_assoc. reflexivity.
Qed.

Lemma read_n_short : forall n r frame, (length r < n)%nat ->
  read_n n {| pb := []; rest := r |} frame = (frame ++ r, {| pb := []; rest := [] |}, false).
Proof.
  induction n as [|n IH]; intros r frame H; [lia|].
  destruct r as [|b r].
  - cbn [read_n next_byte pb rest]. rewrite app_nil_r. reflexivity.
  - cbn [read_n next_byte pb rest]. rewrite IH by (cbn [length] in H; lia). rewrite <- app_assoc. reflexivity.
Qed.

Lemma no_d3b_split p1 x1 p2 x2 : no_d3b p1 = true -> no_d3b p2 = true ->
  p1 ++ 211 :: x1 = p2 ++ 211 :: x2 -> p1 = p2 /\ x1 = x2.
Proof.
  revert p2; induction p1 as [|a p1 IH]; intros p2 H1 H2 E.
  - destruct p2 as [|b p2]; [injection E as <-; split; reflexivity|].
    cbn [app] in E. injection E as <- _. cbn in H2. discriminate.
  - destruct p2 as [|b p2].
    + cbn [app] in E. injection E as -> _. cbn in H1. discriminate.
    + cbn [app] in E. injection E as <- E. cbn in H1, H2.
      apply andb_true_iff in H1. apply andb_true_iff in H2.
      destruct (IH p2 (proj2 H1) (proj2 H2) E) as [-> ->]. split; reflexivity.
Qed.

Lemma no_d3b_no_211 p x y : no_d3b p = true -> p <> x ++ 211 :: y.
Proof.
  intros H E. subst p. unfold no_d3b in H. rewrite forallb_app in H.
  apply andb_true_iff in H. destruct H as [_ H]. cbn in H. discriminate.
Qed.

(* eating from a state whose unread bytes start with 0xD3 takes exactly that byte *)
Lemma eat_d3 s r : pb_ok s -> unread s = 211 :: r ->
  exists s1, eat s = ([211], s1, false) /\ pb s1 = [] /\ rest s1 = r.
Proof.
  intros Hpb Hu. destruct (eat s) as [[fr s1] e] eqn:E.
  destruct (eat_spec s fr s1 e Hpb E) as (E1 & E2 & E3 & E4).
  rewrite Hu in E1. unfold unread in E1. rewrite E2 in E1. cbn [app] in E1.
  destruct e.
  - destruct (E3 eq_refl) as [Hr Hn]. rewrite Hr, app_nil_r in E1. subst fr. cbn in Hn. discriminate.
  - destruct (E4 eq_refl) as (p & -> & Hp). rewrite <- app_assoc in E1. cbn [app] in E1.
    destruct (no_d3b_split p (rest s1) [] r Hp eq_refl E1) as [-> Hr].
    exists s1. repeat split; [exact E2|exact Hr].
Qed.

(* eating junk that is followed by 0xD3 stops after that byte *)
Lemma eat_junk_d3 s j r : pb_ok s -> no_d3b j = true -> unread s = j ++ 211 :: r ->
  exists s1, eat s = (j ++ [211], s1, false) /\ pb s1 = [] /\ rest s1 = r.
Proof.
  intros Hpb Hj Hu. destruct (eat s) as [[fr s1] e] eqn:E.
  destruct (eat_spec s fr s1 e Hpb E) as (E1 & E2 & E3 & E4).
  rewrite Hu in E1. unfold unread in E1. rewrite E2 in E1. cbn [app] in E1.
  destruct e.
  - destruct (E3 eq_refl) as [Hr Hn]. rewrite Hr, app_nil_r in E1. subst fr.
    exfalso. exact (no_d3b_no_211 _ j r Hn eq_refl).
  - destruct (E4 eq_refl) as (p & -> & Hp). rewrite <- app_assoc in E1. cbn [app] in E1.
    destruct (no_d3b_split p (rest s1) j r Hp Hj E1) as [-> Hr].
    exists s1. repeat split; [exact E2|exact Hr].
Qed.

(* eating junk that runs to the end of the input *)
Lemma eat_junk_end s j : pb_ok s -> no_d3b j = true -> unread s = j ->
  exists s1, eat s = (j, s1, true) /\ pb s1 = [] /\ rest s1 = [].
Proof.
  intros Hpb Hj Hu. destruct (eat s) as [[fr s1] e] eqn:E.
  destruct (eat_spec s fr s1 e Hpb E) as (E1 & E2 & E3 & E4).
  rewrite Hu in E1. unfold unread in E1. rewrite E2 in E1. cbn [app] in E1.
  destruct e.
  - destruct (E3 eq_refl) as [Hr Hn]. rewrite Hr, app_nil_r in E1. subst fr.
    exists s1. repeat split; assumption.
  - destruct (E4 eq_refl) as (p & -> & Hp). rewrite <- app_assoc in E1. cbn [app] in E1.
    exfalso. exact (no_d3b_no_211 _ p (rest s1) Hj (eq_sym E1)).
Qed.

Lemma state_eta s : {| pb := pb s; rest := rest s |} = s.
Proof. destruct s; reflexivity. Qed.

(* ---------- FetchNextMessageFrame on each kind of segment ---------- *)

Definition st (r : list N) : pstate := {| pb := []; rest := r |}.

(* a frame-like segment: 0xD3, a leader announcing len, and exactly len+6 bytes *)
Lemma fetch_framelike h s f r len ty5 : pb_ok s -> unread s = f ++ r ->
  nth_error f 0 = Some 211 ->
  get_len_type (firstn 5 f) = inl (Ok (len, ty5)) ->
  length f = N.to_nat (len + LeaderLengthBytes + CRCLengthBytes) ->
  fetch h s = (x <- get_message h f ;;
               match x with (Some m, h') => Ok (Some (m, h', st r)) | (None, _) => Panic end).
Proof.
  intros Hpb Hu H0 HG HL.
  pose proof (get_len_type_ok _ _ _ HG) as (_ & _ & _ & _ & Hnz & _).
  change LeaderLengthBytes with 3 in *. change CRCLengthBytes with 3 in *.
  destruct f as [|b0 g]; [discriminate|]. cbn in H0. injection H0 as ->.
  assert (Hg : (6 <= length g)%nat) by (cbn [length] in HL; lia).
  destruct (eat_d3 s (g ++ r) Hpb Hu) as (s1 & He & Hp1 & Hr1).
  unfold fetch. rewrite He. cbn [andb length Nat.eqb Nat.ltb Nat.leb].
  change (N.to_nat hnd_leaderAndMessageLength - 1)%nat with 4%nat.
  rewrite <- (state_eta s1), Hp1, Hr1.
  rewrite read_n_enough by (rewrite app_length; lia).
  assert (F5 : [211] ++ firstn 4 (g ++ r) = firstn 5 (211 :: g)).
  { rewrite firstn_app. replace (4 - length g)%nat with 0%nat by lia.
    change (firstn 0 r) with (@nil N). rewrite app_nil_r. reflexivity. }
  rewrite F5. cbn [negb]. rewrite HG.
  assert (L5 : length (firstn 5 (211 :: g)) = 5%nat) by (apply firstn_length_le; cbn [length]; lia).
  rewrite L5.
  change LeaderLengthBytes with 3. change CRCLengthBytes with 3.
  set (want := (N.to_nat (len + 3 + 3) - 5)%nat).
  assert (Hw : want = length (skipn 4 g)) by (unfold want; rewrite skipn_length; cbn [length] in HL; lia).
  rewrite skipn_app. replace (4 - length g)%nat with 0%nat by lia. change (skipn 0 r) with r.
  rewrite read_n_enough by (rewrite app_length; lia).
  rewrite firstn_app, Hw, Nat.sub_diag, firstn_all. change (firstn 0 r) with (@nil N). rewrite app_nil_r.
  rewrite skipn_app, Nat.sub_diag, skipn_all. change (skipn 0 r) with r. cbn [app negb].
  assert (F : firstn 5 (211 :: g) ++ skipn 4 g = 211 :: g).
  { change (firstn 5 (211 :: g)) with (211 :: firstn 4 g). cbn [app]. rewrite firstn_skipn. reflexivity. }
  rewrite F. reflexivity.
Qed.

Lemma removelast_snoc {A} (l : list A) x : removelast (l ++ [x]) = l.
Proof. apply removelast_last. Qed.

Lemma fetch_junk_d3 h s j r : pb_ok s -> j <> [] -> no_d3b j = true -> unread s = j ++ 211 :: r ->
  fetch h s = Ok (Some (non_rtcm j, h, {| pb := [211]; rest := r |})).
Proof.
  intros Hpb Hne Hj Hu. destruct (eat_junk_d3 s j r Hpb Hj Hu) as (s1 & He & Hp1 & Hr1).
  unfold fetch. rewrite He. cbn [andb].
  assert (Hlen : (1 <? length (j ++ [211%N]))%nat = true).
  { apply Nat.ltb_lt. rewrite app_length. cbn [length]. destruct j; [congruence|cbn [length]; lia]. }
  rewrite Hlen, last_last. change (211 =? D3) with true. cbv iota.
  rewrite removelast_snoc. unfold push_back. rewrite Hp1, Hr1. reflexivity.
Qed.

Lemma no_d3b_last j : j <> [] -> no_d3b j = true -> (last j 0 =? D3) = false.
Proof.
  intros Hne Hj. rewrite (app_removelast_last 0 Hne) in Hj. unfold no_d3b in Hj.
  rewrite forallb_app in Hj. apply andb_true_iff in Hj. destruct Hj as [_ Hj]. cbn in Hj.
  rewrite andb_true_r in Hj. apply negb_true_iff in Hj. exact Hj.
Qed.

Lemma fetch_junk_end h s j : pb_ok s -> j <> [] -> no_d3b j = true -> unread s = j ->
  fetch h s = Ok (Some (non_rtcm j, h, st [])).
Proof.
  intros Hpb Hne Hj Hu. destruct (eat_junk_end s j Hpb Hj Hu) as (s1 & He & Hp1 & Hr1).
  unfold fetch. rewrite He.
  assert (Hz : (length j =? 0)%nat = false) by (destruct j; [congruence|reflexivity]).
  rewrite Hz. cbn [andb].
  rewrite <- (state_eta s1), Hp1, Hr1.
  destruct (Nat.ltb_spec 1 (length j)) as [H1|H1].
  - rewrite (no_d3b_last j Hne Hj). reflexivity.
  - change (N.to_nat hnd_leaderAndMessageLength - 1)%nat with 4%nat.
    rewrite read_n_short by (cbn; lia). rewrite app_nil_r. reflexivity.
Qed.

(* a truncated frame at the end of the input *)
Definition tail_ok (tail : list N) : Prop :=
  tail = [] \/ (tail <> [] /\ exists f x, valid_frame f /\ f = tail ++ x /\ x <> []).

Lemma fetch_tail h s tail f x : pb_ok s -> unread s = tail -> tail <> [] ->
  valid_frame f -> f = tail ++ x -> x <> [] ->
  fetch h s = Ok (Some (non_rtcm tail, h, st [])).
Proof.
  intros Hpb Hu Hne V Hf Hx.
  destruct (valid_frame_checks f V) as (Hok & len & HG & HL & HC).
  pose proof (get_len_type_ok _ _ _ HG) as (H5 & H0 & _).
  change LeaderLengthBytes with 3 in *. change CRCLengthBytes with 3 in *. change D3 with 211 in *.
  destruct tail as [|t0 g]; [congruence|].
  assert (Ht0 : t0 = 211) by (rewrite Hf in H0; cbn in H0; injection H0 as ->; reflexivity). subst t0.
  destruct (eat_d3 s g Hpb Hu) as (s1 & He & Hp1 & Hr1).
  unfold fetch. rewrite He. cbn [andb length Nat.eqb Nat.ltb Nat.leb].
  change (N.to_nat hnd_leaderAndMessageLength - 1)%nat with 4%nat.
  rewrite <- (state_eta s1), Hp1, Hr1.
  assert (Hlt : (length (211%N :: g) < length f)%nat).
  { rewrite Hf, app_length. destruct x; [congruence|cbn [length]; lia]. }
  destruct (Nat.le_gt_cases 4 (length g)) as [H4|H4].
  - rewrite read_n_enough by exact H4. cbn [negb].
    assert (F5 : [211%N] ++ firstn 4 g = firstn 5 f).
    { rewrite Hf. change ((211 :: g) ++ x) with (211 :: (g ++ x)).
      change (firstn 5 (211 :: (g ++ x))) with (211 :: firstn 4 (g ++ x)).
      rewrite firstn_app. replace (4 - length g)%nat with 0%nat by lia.
      change (firstn 0 x) with (@nil N). rewrite app_nil_r. reflexivity. }
    rewrite F5, (get_len_type_first5 f H5), HG.
    rewrite (firstn_length_le f H5).
    change LeaderLengthBytes with 3. change CRCLengthBytes with 3.
    rewrite read_n_short by (rewrite skipn_length; cbn [length] in Hlt; lia).
    cbn [negb]. do 4 f_equal.
    rewrite <- F5. cbn [app]. rewrite firstn_skipn. reflexivity.
  - rewrite read_n_short by exact H4. reflexivity.
Qed.

Lemma fetch_end h s : pb_ok s -> unread s = [] -> fetch h s = Ok None.
Proof.
  intros Hpb Hu. destruct (fetch_spec h s Hpb) as (r & Hr & Post). rewrite Hr.
  destruct r as [[[m h1] s1]|]; [|reflexivity].
  destruct Post as (P1 & P2 & _). rewrite Hu in P1. destruct (raw m); [congruence|discriminate].
Qed.

(* ---------- GetMessage on good and bad frames ---------- *)

Definition core (m : msg) : Z * list N := (mtype m, raw m).

Lemma get_message_valid_frame h f : valid_frame f ->
  exists m h', get_message h f = Ok (Some m, h') /\ core m = (Z.of_N (frame_type f), f).
Proof.
  intros V. destruct (valid_frame_checks f V) as (Hok & len & HG & HL & HC).
  pose proof (get_len_type_ok _ _ _ HG) as (H5 & H0 & _).
  unfold get_message. destruct f as [|b0 g]; [cbn in H5; lia|].
  cbn in H0. injection H0 as ->. change (negb (D3 =? D3)) with false. cbv iota.
  rewrite HG, HL. rewrite Nat.ltb_irrefl. rewrite <- HL, firstn_all, HC.
  destruct (msmb _).
  - destruct (N.ltb_spec ((len + LeaderLengthBytes) * 8) (hnd_timestampPosition + hdr_LenTimeStamp)) as [C|C];
      [eexists; eexists; split; reflexivity|].
    destruct (get_u_in_range (D3 :: g) (N.to_nat hnd_timestampPosition) (N.to_nat hdr_LenTimeStamp)) as [ts Hts].
    { change LeaderLengthBytes with 3 in *. change CRCLengthBytes with 3 in *.
      change hnd_timestampPosition with 48 in *. change hdr_LenTimeStamp with 30 in *. lia. }
    rewrite Hts. cbn [bind].
    pose proof (time_no_panic h (Z.of_N (frame_type (D3 :: g))) ts) as Hnp.
    destruct (time_from_timestamp h _ ts) as [t h']. cbn [fst] in Hnp.
    destruct t; [eexists; eexists; split; reflexivity|eexists; eexists; split; reflexivity|congruence].
  - eexists; eexists; split; reflexivity.
Qed.

Lemma firstn3_len {A} (a b : list A) : firstn 3 a = firstn 3 b -> (3 <= length a)%nat -> (3 <= length b)%nat ->
  exists x y z ra rb, a = x :: y :: z :: ra /\ b = x :: y :: z :: rb.
Proof.
  intros E Ha Hb.
  destruct a as [|a0 [|a1 [|a2 ra]]]; cbn [length] in Ha; try lia.
  destruct b as [|b0 [|b1 [|b2 rb]]]; cbn [length] in Hb; try lia.
  change (firstn 3 (a0 :: a1 :: a2 :: ra)) with [a0; a1; a2] in E.
  change (firstn 3 (b0 :: b1 :: b2 :: rb)) with [b0; b1; b2] in E. injection E as -> -> ->.
  exists b0, b1, b2, ra, rb. split; reflexivity.
Qed.

Lemma bad_frame_checks f' : bad_frame f' ->
  exists len ty', get_len_type f' = inl (Ok (len, ty')) /\
    length f' = N.to_nat (len + LeaderLengthBytes + CRCLengthBytes) /\ check_crc f' = Some ErrCRC /\
    nth_error f' 0 = Some 211.
Proof.
  intros (Hok & Hm & f & V & Hl & H3).
  destruct (valid_frame_checks f V) as (Hfok & len & HG & HL & HC).
  pose proof (get_len_type_ok _ _ _ HG) as (H5 & H0 & _ & _ & Hnz & _).
  change LeaderLengthBytes with 3 in *. change CRCLengthBytes with 3 in *. change D3 with 211 in *.
  destruct (get_len_type_leader f f' len _ H5 ltac:(lia) Hfok Hok (eq_sym H3) HG) as [ty' HG'].
  exists len, ty'. split; [exact HG'|]. split; [lia|]. split.
  - apply check_crc_mismatch; [exact Hok|lia|exact Hm].
  - destruct (firstn3_len f' f H3 ltac:(lia) ltac:(lia)) as (x & y & z & ra & rb & -> & ->).
    cbn in H0 |- *. exact H0.
Qed.

Lemma get_message_bad_frame h f' : bad_frame f' ->
  exists m, get_message h f' = Ok (Some m, h) /\ core m = ((-1)%Z, f').
Proof.
  intros B. destruct (bad_frame_checks f' B) as (len & ty' & HG & HL & HC & H0).
  unfold get_message. destruct f' as [|b0 g]; [discriminate|].
  cbn in H0. injection H0 as ->. change (negb (211 =? D3)) with false. cbv iota.
  rewrite HG, HL, Nat.ltb_irrefl. rewrite <- HL, firstn_all, HC.
  eexists. split; reflexivity.
Qed.

(* ---------- streams of segments ---------- *)

Inductive gseg := GFrame (f : list N) | GJunk (j : list N) | GBad (f : list N).

Definition gbytes (s : gseg) : list N := match s with GFrame f => f | GJunk j => j | GBad f => f end.
Definition gflat (segs : list gseg) : list N := concat (map gbytes segs).

Definition gwf (s : gseg) : Prop :=
  match s with
  | GFrame f => valid_frame f
  | GJunk j => j <> [] /\ no_d3b j = true
  | GBad f => bad_frame f
  end.

Definition gexp (s : gseg) : Z * list N :=
  match s with
  | GFrame f => (Z.of_N (frame_type f), f)
  | GJunk j => ((-1)%Z, j)
  | GBad f => ((-1)%Z, f)
  end.

Definition is_junk (s : gseg) : bool := match s with GJunk _ => true | _ => false end.

(* no two junk runs are adjacent (adjacent runs have been merged) *)
Fixpoint gnormal (segs : list gseg) : Prop :=
  match segs with
  | a :: ((b :: _) as r) => (is_junk a && is_junk b = false) /\ gnormal r
  | _ => True
  end.

Definition tail_exp (tail : list N) : list (Z * list N) :=
  match tail with [] => [] | _ => [((-1)%Z, tail)] end.

Lemma framelike_starts s : gwf s -> is_junk s = false -> exists g, gbytes s = 211 :: g.
Proof.
  destruct s as [f|j|f]; cbn; intros W J; try discriminate.
  - destruct (valid_frame_checks f W) as (_ & len & HG & _).
    pose proof (get_len_type_ok _ _ _ HG) as (_ & H0 & _). destruct f; [discriminate|]. cbn in H0. injection H0 as ->.
    eexists. reflexivity.
  - destruct (bad_frame_checks f W) as (_ & _ & _ & _ & _ & H0). destruct f; [discriminate|]. cbn in H0. injection H0 as ->.
    eexists. reflexivity.
Qed.

Lemma tail_starts tail : tail_ok tail -> tail = [] \/ exists g, tail = 211 :: g.
Proof.
  intros [->|(Hne & f & x & V & Hf & Hx)]; [left; reflexivity|right].
  destruct (valid_frame_checks f V) as (_ & len & HG & _).
  pose proof (get_len_type_ok _ _ _ HG) as (_ & H0 & _).
  destruct tail as [|t g]; [congruence|]. rewrite Hf in H0. cbn in H0. injection H0 as ->. eexists. reflexivity.
Qed.

Lemma handle_step fuel h s m h1 s1 : fetch h s = Ok (Some (m, h1, s1)) ->
  handle (S fuel) h s = (r <- handle fuel h1 s1 ;; Ok (m :: fst r, snd r)).
Proof. intros H. cbn [handle]. rewrite H. reflexivity. Qed.

Lemma pb_ok_st r : pb_ok (st r). Proof. left. reflexivity. Qed.

Theorem handle_segments : forall segs, Forall gwf segs -> gnormal segs ->
  forall tail, tail_ok tail -> forall fuel h s, pb_ok s -> unread s = gflat segs ++ tail ->
  (length (unread s) < fuel)%nat ->
  exists ms h', handle fuel h s = Ok (ms, h') /\ map core ms = map gexp segs ++ tail_exp tail.
Proof.
  induction segs as [|sg segs IH]; intros W Nm tail Ht fuel h s Hpb Hu Hf.
  - (* only the tail is left *)
    cbn [gflat map concat app] in Hu.
    destruct fuel as [|fuel]; [lia|].
    destruct Ht as [->|(Hne & f & x & V & Hfx & Hx)].
    + cbn [handle]. rewrite (fetch_end h s Hpb Hu). exists [], h. split; reflexivity.
    + rewrite (handle_step fuel h s _ _ _ (fetch_tail h s tail f x Hpb Hu Hne V Hfx Hx)).
      destruct fuel as [|fuel]; [rewrite Hu in Hf; destruct tail; [congruence|cbn [length] in Hf; lia]|].
      cbn [handle]. rewrite (fetch_end h (st []) (pb_ok_st []) eq_refl). cbn [bind fst snd].
      exists [non_rtcm tail], h. split; [reflexivity|]. destruct tail; [congruence|reflexivity].
  - inversion W as [|? ? Wsg Wrest]; subst.
    assert (Nrest : gnormal segs) by (destruct segs; [exact I|exact (proj2 Nm)]).
    cbn [gflat map concat] in Hu. fold (gflat segs) in Hu. rewrite <- app_assoc in Hu.
    destruct fuel as [|fuel]; [lia|].
    assert (Hlen : (length (gflat segs ++ tail) + length (gbytes sg) = length (unread s))%nat)
      by (rewrite Hu, !app_length; lia).
    destruct sg as [f|j|f]; cbn [gbytes] in *.
    + (* a valid frame *)
      destruct (valid_frame_checks f Wsg) as (Hok & len & HG & HL & HC).
      pose proof (get_len_type_ok _ _ _ HG) as (H5 & H0 & _).
      destruct (get_message_valid_frame h f Wsg) as (m & h1 & Hgm & Hcore).
      pose proof (fetch_framelike h s f (gflat segs ++ tail) len _ Hpb Hu H0
                    (eq_trans (get_len_type_first5 f H5) HG) HL) as Hfe.
      rewrite Hgm in Hfe. cbn [bind] in Hfe.
      rewrite (handle_step fuel h s _ _ _ Hfe).
      destruct (IH Wrest Nrest tail Ht fuel h1 (st (gflat segs ++ tail)) (pb_ok_st _) eq_refl) as (ms & h' & Hh & Hm).
      { unfold unread, st. cbn [pb rest app]. lia. }
      rewrite Hh. cbn [bind fst snd]. exists (m :: ms), h'. split; [reflexivity|].
      cbn [map app]. rewrite Hcore, Hm. reflexivity.
    + (* junk: followed by a frame-like segment, by the truncated tail, or by nothing *)
      destruct Wsg as [Hne Hj].
      assert (Hnext : gflat segs ++ tail = [] \/ exists g, gflat segs ++ tail = 211 :: g).
      { destruct segs as [|s2 segs2].
        - cbn [gflat map concat app]. destruct (tail_starts tail Ht) as [->|[g ->]]; [left; reflexivity|right; eexists; reflexivity].
        - right. destruct Nm as [Hnj _]. cbn [is_junk andb] in Hnj.
          inversion Wrest as [|? ? W2 _]; subst.
          destruct (framelike_starts s2 W2 Hnj) as [g Hg].
          cbn [gflat map concat]. rewrite Hg. cbn [app]. eexists. reflexivity. }
      destruct Hnext as [Hnil|[g Hg]].
      * rewrite Hnil, app_nil_r in Hu.
        rewrite (handle_step fuel h s _ _ _ (fetch_junk_end h s j Hpb Hne Hj Hu)).
        destruct (IH Wrest Nrest tail Ht fuel h (st []) (pb_ok_st _)) as (ms & h' & Hh & Hm).
        { unfold unread, st. cbn [pb rest app]. symmetry. exact Hnil. }
        { unfold unread, st. cbn [pb rest app length]. destruct j; [congruence|cbn [length] in Hlen; lia]. }
        rewrite Hh. cbn [bind fst snd]. exists (non_rtcm j :: ms), h'. split; [reflexivity|].
        cbn [map app]. rewrite Hm. reflexivity.
      * rewrite Hg in Hu.
        rewrite (handle_step fuel h s _ _ _ (fetch_junk_d3 h s j g Hpb Hne Hj Hu)).
        destruct (IH Wrest Nrest tail Ht fuel h {| pb := [211]; rest := g |}) as (ms & h' & Hh & Hm).
        { right. reflexivity. }
        { unfold unread. cbn [pb rest app]. symmetry. exact Hg. }
        { unfold unread. cbn [pb rest app]. rewrite <- Hg. destruct j; [congruence|cbn [length] in Hlen; lia]. }
        rewrite Hh. cbn [bind fst snd]. exists (non_rtcm j :: ms), h'. split; [reflexivity|].
        cbn [map app]. rewrite Hm. reflexivity.
    + (* a corrupted frame *)
      destruct (bad_frame_checks f Wsg) as (len & ty' & HG & HL & HC & H0).
      pose proof (get_len_type_ok _ _ _ HG) as (H5 & _).
      destruct (get_message_bad_frame h f Wsg) as (m & Hgm & Hcore).
      pose proof (fetch_framelike h s f (gflat segs ++ tail) len _ Hpb Hu H0
                    (eq_trans (get_len_type_first5 f H5) HG) HL) as Hfe.
      rewrite Hgm in Hfe. cbn [bind] in Hfe.
      rewrite (handle_step fuel h s _ _ _ Hfe).
      destruct (IH Wrest Nrest tail Ht fuel h (st (gflat segs ++ tail)) (pb_ok_st _) eq_refl) as (ms & h' & Hh & Hm).
      { unfold unread, st. cbn [pb rest app]. lia. }
      rewrite Hh. cbn [bind fst snd]. exists (m :: ms), h'. split; [reflexivity|].
      cbn [map app]. rewrite Hcore, Hm. reflexivity.
Qed.

(* ---------- from the specification's segments to the generalised ones ---------- *)

Definition to_g (s : seg) : gseg := match s with Frame f => GFrame f | Junk j => GJunk j end.

Lemma wf_seg_g s : wf_segb s = true -> gwf (to_g s).
Proof.
  destruct s as [f|j]; cbn; intros H; [exact H|].
  apply andb_true_iff in H. destruct H as [H H3]. apply andb_true_iff in H. destruct H as [_ H2].
  split; [|exact H3]. destruct j; [discriminate|discriminate].
Qed.

Lemma flatten_merge segs : flatten (merge_junk segs) = flatten segs.
Proof.
  induction segs as [|s segs IH]; [reflexivity|].
  destruct s as [f|a]; cbn [merge_junk].
  - unfold flatten in *. cbn [map concat seg_bytes]. rewrite IH. reflexivity.
  - destruct (merge_junk segs) as [|[f|b] r] eqn:E; unfold flatten in *; cbn [map concat seg_bytes] in *; rewrite <- IH.
    + reflexivity.
    + reflexivity.
    + rewrite <- app_assoc. reflexivity.
Qed.

Lemma wf_merge segs : wf_segsb segs = true -> wf_segsb (merge_junk segs) = true.
Proof.
  induction segs as [|s segs IH]; intros H; [reflexivity|].
  cbn [wf_segsb forallb] in H. apply andb_true_iff in H. destruct H as [Hs Hr]. specialize (IH Hr).
  destruct s as [f|a]; cbn [merge_junk].
  - cbn [wf_segsb forallb]. rewrite Hs. exact IH.
  - destruct (merge_junk segs) as [|[f|b] r] eqn:E.
    + cbn [wf_segsb forallb]. rewrite Hs. reflexivity.
    + unfold wf_segsb in *. cbn [forallb] in *. rewrite Hs. exact IH.
    + unfold wf_segsb in *. cbn [forallb] in *. apply andb_true_iff in IH. destruct IH as [Hb Hr'].
      rewrite Hr', andb_true_r. cbn [wf_segb] in *.
      apply andb_true_iff in Hs. destruct Hs as [Hs S3]. apply andb_true_iff in Hs. destruct Hs as [S1 S2].
      apply andb_true_iff in Hb. destruct Hb as [Hb B3]. apply andb_true_iff in Hb. destruct Hb as [B1 B2].
      unfold bytes_okb, no_d3b in *. rewrite !forallb_app, S1, B1, S3, B3. cbn [andb].
      rewrite app_length. destruct a; [discriminate|reflexivity].
Qed.

Lemma normal_merge segs : gnormal (map to_g (merge_junk segs)).
Proof.
  induction segs as [|s segs IH]; [exact I|].
  destruct s as [f|a]; cbn [merge_junk].
  - cbn [map]. destruct (merge_junk segs) as [|s2 r]; [exact I|]. cbn [map gnormal to_g is_junk andb]. split; [reflexivity|exact IH].
  - destruct (merge_junk segs) as [|[f|b] r] eqn:E; cbn [map to_g] in *.
    + exact I.
    + cbn [gnormal is_junk andb]. split; [reflexivity|exact IH].
    + destruct r as [|s3 r']; [exact I|]. cbn [map gnormal] in *. exact IH.
Qed.

Lemma gflat_to_g segs : gflat (map to_g segs) = flatten segs.
Proof.
  unfold gflat, flatten. rewrite map_map. f_equal. apply map_ext. intros [f|j]; reflexivity.
Qed.

Lemma gexp_to_g segs : map gexp (map to_g segs) = map expected_seg segs.
Proof. rewrite map_map. apply map_ext. intros [f|j]; reflexivity. Qed.

Lemma forall_wf_g segs : wf_segsb segs = true -> Forall gwf (map to_g segs).
Proof.
  unfold wf_segsb. rewrite forallb_forall, Forall_forall. intros H x Hx.
  apply in_map_iff in Hx. destruct Hx as (s & <- & Hs). apply wf_seg_g, H, Hs.
Qed.

(* C03 *)
Theorem segments_delivered h segs tail : wf_segsb segs = true -> tail_ok tail ->
  exists ms h', handle_stream h (flatten segs ++ tail) = Ok (ms, h') /\
                map core ms = expected segs tail.
Proof.
  intros W Ht. unfold handle_stream, expected.
  destruct (handle_segments (map to_g (merge_junk segs)) (forall_wf_g _ (wf_merge segs W)) (normal_merge segs)
              tail Ht (S (length (flatten segs ++ tail))) h (initial (flatten segs ++ tail)))
    as (ms & h' & Hh & Hm).
  - left. reflexivity.
  - unfold unread, initial. cbn [pb rest app]. rewrite gflat_to_g, flatten_merge. reflexivity.
  - unfold unread, initial. cbn [pb rest app]. lia.
  - exists ms, h'. split; [exact Hh|]. rewrite Hm, gexp_to_g. destruct tail; reflexivity.
Qed.

Lemma gnormal_cons2 s t r : gnormal (s :: t :: r) <-> (is_junk s && is_junk t = false) /\ gnormal (t :: r).
Proof. reflexivity. Qed.

Lemma gnormal_app a x b : gnormal a -> gnormal b -> is_junk x = false -> gnormal (a ++ x :: b).
Proof.
  intros Ha Hb Hx. induction a as [|s a IH].
  - change ([] ++ x :: b) with (x :: b). destruct b as [|b0 b']; [exact I|].
    apply gnormal_cons2. rewrite Hx. split; [reflexivity|exact Hb].
  - destruct a as [|s2 a'].
    + change ([s] ++ x :: b) with (s :: x :: b). apply gnormal_cons2.
      rewrite Hx, andb_false_r. split; [reflexivity|]. exact (IH I).
    + change ((s :: s2 :: a') ++ x :: b) with (s :: s2 :: (a' ++ x :: b)). apply gnormal_cons2.
      apply gnormal_cons2 in Ha. destruct Ha as [H1 H2]. split; [exact H1|]. exact (IH H2).
Qed.

(* C12 *)
Theorem corrupted_frame_isolated h pre post f' tail :
  wf_segsb pre = true -> wf_segsb post = true -> bad_frame f' -> tail_ok tail ->
  exists ms h', handle_stream h (flatten pre ++ f' ++ flatten post ++ tail) = Ok (ms, h') /\
                map core ms = expected pre [] ++ [((-1)%Z, f')] ++ expected post tail.
Proof.
  intros Wp Wq B Ht. unfold handle_stream, expected.
  set (gs := map to_g (merge_junk pre) ++ GBad f' :: map to_g (merge_junk post)).
  assert (Hflat : gflat gs ++ tail = flatten pre ++ f' ++ flatten post ++ tail).
  { unfold gs, gflat. rewrite map_app, concat_app. cbn [map concat gbytes].
    fold (gflat (map to_g (merge_junk pre))). fold (gflat (map to_g (merge_junk post))).
    rewrite !gflat_to_g, !flatten_merge, <- !app_assoc. reflexivity. }
  destruct (handle_segments gs) with (tail := tail) (fuel := S (length (flatten pre ++ f' ++ flatten post ++ tail)))
    (h := h) (s := initial (flatten pre ++ f' ++ flatten post ++ tail)) as (ms & h' & Hh & Hm).
  - unfold gs. apply Forall_app. split; [apply forall_wf_g, wf_merge, Wp|].
    constructor; [exact B|apply forall_wf_g, wf_merge, Wq].
  - unfold gs. apply gnormal_app; [apply normal_merge|apply normal_merge|reflexivity].
  - exact Ht.
  - left. reflexivity.
  - unfold unread, initial. cbn [pb rest app]. symmetry. exact Hflat.
  - unfold unread, initial. cbn [pb rest app]. lia.
  - exists ms, h'. split; [exact Hh|]. rewrite Hm. unfold gs. rewrite map_app. cbn [map gexp].
    rewrite !gexp_to_g. cbn [app]. rewrite app_nil_r, <- app_assoc. destruct tail; reflexivity.
Qed.

(* StreamTime.v - C06/C17 at the level of the stream handler: a byte stream that is the
   concatenation of the frames of an admissible observation history, fed to HandleMessages
   (handle_stream), is cut into exactly those frames and every delivered message carries the
   true UTC time and start of week. *)
From Coq Require Import List Arith NArith ZArith Lia Bool.
Import ListNotations.
From NTRIPGen Require Import GenConsts.
From NTRIP Require Import Base Bits BitsProofs Crc CrcProofs Time Classify Frame FrameSpec FrameProofs
     WriteProofs EncProofs SegProofs TimeSpec History TimeProofs.

Definition stream_reports (r : res (list msg * hstate)) : res (list report * hstate) :=
  match r with
  | Ok (ms, h) => Ok (map (fun m => (msent m, msow m)) ms, h)
  | Err e => Err e
  | Panic => Panic
  end.

(* a stream of valid frames, back to back: the stream handler does on it what the single-frame
   path does on the frames one after the other, handler state included *)
Lemma handle_frames : forall fs, Forall valid_frame fs -> forall fuel h,
  (length (concat fs) < fuel)%nat ->
  stream_reports (handle fuel h (st (concat fs))) = run_frames h fs.
Proof.
  induction fs as [|f fs IH]; intros W fuel h Hf.
  - destruct fuel as [|fuel]; [cbn in Hf; lia|]. cbn [concat handle run_frames].
    rewrite (fetch_end h (st []) (pb_ok_st []) eq_refl). reflexivity.
  - inversion W as [|? ? Wf Wr]; subst.
    destruct fuel as [|fuel]; [lia|].
    destruct (valid_frame_checks f Wf) as (Hok & len & HG & HL & HC).
    pose proof (get_len_type_ok _ _ _ HG) as (H5 & H0 & _).
    destruct (get_message_valid_frame h f Wf) as (m & h1 & Hgm & Hcore).
    pose proof (fetch_framelike h (st (concat (f :: fs))) f (concat fs) len _ (pb_ok_st _) eq_refl H0
                  (eq_trans (get_len_type_first5 f H5) HG) HL) as Hfe.
    rewrite Hgm in Hfe. cbn [bind] in Hfe.
    rewrite (handle_step fuel h _ _ _ _ Hfe).
    cbn [run_frames]. rewrite Hgm. cbn [bind].
    assert (Hl : (length (concat fs) < fuel)%nat).
    { cbn [concat] in Hf. rewrite app_length in Hf. destruct f; [cbn in H5; lia|cbn [length] in Hf; lia]. }
    specialize (IH Wr fuel h1 Hl).
    destruct (handle fuel h1 (st (concat fs))) as [[ms h2]| |]; cbn [stream_reports bind fst snd] in *;
      rewrite <- IH; reflexivity.
Qed.

Lemma msm_time_frame_valid c k station ts : valid_frame (msm_time_frame c k station ts).
Proof.
  unfold msm_time_frame.
  destruct (bits_of_bytes_of_bits (put_u 12 (msm_type c k) ++ put_u 12 station ++ put_u 30 ts ++ [false; false])) as (_ & Hl & Hok).
  apply frame_of_payload_valid; [exact Hok|].
  rewrite Hl, !app_length, !put_u_length. cbn. lia.
Qed.

Lemma event_frames_valid evs : Forall valid_frame (map event_frame evs).
Proof.
  induction evs as [|e evs IH]; [constructor|]. cbn [map]. constructor; [|exact IH].
  destruct e; apply msm_time_frame_valid.
Qed.

Theorem stream_true_times na T evs : admissibleb na T evs = true ->
  exists ms h', handle_stream (new_handler T) (concat (map event_frame evs)) = Ok (ms, h') /\
                Forall2 (fun e m => report_ok e (msent m, msow m) = true) evs ms /\
                map raw ms = map event_frame evs.
Proof.
  intros Ha.
  destruct (history_true_times na T evs (fun _ => None) (new_handler T) (inv_new T) Ha) as (rs & h' & Hrun & Hok).
  unfold run_history in Hrun.
  pose proof (handle_frames (map event_frame evs) (event_frames_valid evs) (S (length (concat (map event_frame evs))))
                (new_handler T) (Nat.lt_succ_diag_r _)) as Hh.
  rewrite Hrun in Hh. unfold handle_stream. fold (st (concat (map event_frame evs))).
  destruct (handle (S (length (concat (map event_frame evs)))) (new_handler T) (st (concat (map event_frame evs))))
    as [[ms h2]| |] eqn:E; cbn [stream_reports] in Hh; try discriminate.
  injection Hh as Hms Hh2. subst h2. exists ms, h'. split; [reflexivity|]. split.
  - subst rs. clear - Hok. revert ms Hok. induction evs as [|e evs IH]; intros ms Hok.
    + destruct ms; [constructor|inversion Hok].
    + destruct ms as [|m ms]; cbn [map] in Hok; inversion Hok; subst. constructor; [assumption|apply IH; assumption].
  - (* the delivered raw bytes are the frames: C03 *)
    pose proof (segments_delivered (new_handler T) (map Frame (map event_frame evs)) []) as Sd.
    assert (Wf : wf_segsb (map Frame (map event_frame evs)) = true).
    { unfold wf_segsb. rewrite forallb_forall. intros s Hs. apply in_map_iff in Hs. destruct Hs as (f & <- & Hf).
      cbn [wf_segb]. pose proof (event_frames_valid evs) as V. rewrite Forall_forall in V. exact (V f Hf). }
    destruct (Sd Wf (or_introl eq_refl)) as (ms2 & h2 & Hs2 & Hc2).
    assert (Hflat : flatten (map Frame (map event_frame evs)) ++ [] = concat (map event_frame evs)).
    { rewrite app_nil_r. unfold flatten. rewrite map_map. cbn [seg_bytes]. rewrite map_id. reflexivity. }
    rewrite Hflat in Hs2. unfold handle_stream in Hs2. fold (st (concat (map event_frame evs))) in Hs2.
    rewrite E in Hs2. injection Hs2 as <- <-.
    apply (f_equal (map snd)) in Hc2. rewrite map_map in Hc2. cbn [core snd] in Hc2.
    change (map (fun x : msg => raw x) ms) with (map raw ms) in Hc2.
    rewrite Hc2. unfold expected. rewrite app_nil_r.
    clear. induction (map event_frame evs) as [|f fs IH]; [reflexivity|].
    cbn [map merge_junk expected_seg snd]. rewrite IH. reflexivity.
Qed.

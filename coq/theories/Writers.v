(* Writers.v - C11 for any number of writer goroutines: a main goroutine that runs a straight-line
   program of channel operations - send an item to writer i, close writer i's channel, wait for
   writer i (its done signal / WaitGroup), return - against writers that loop
       receive; (latency); write;     on close: signal done; exit.
   Channels are bounded FIFOs of any capacity >= 1; a send on a closed channel or a second close
   cannot happen (the step does not exist: the Go program would panic).

   Theorem (every interleaving, every latency, every capacity): if in main's program no item is
   sent to a writer after that writer's channel has been closed, and every return is preceded
   by a wait for every writer that is sent anything, then in every reachable configuration in
   which main has returned each writer has written exactly the items sent to it, in order.
   The program of rtcmfilter / displayrtcm3 (each message to writers 0..k-1 in turn, close all,
   wait for all, return) is such a program. *)
From Coq Require Import List Arith Lia Bool.
Import ListNotations.

Section W.
  Variable V : Type.
  Variable lat : nat.

  Inductive mop := MSend (i : nat) (x : V) | MClose (i : nat) | MWait (i : nat) | MRet
    | MAwait (i : nat).   (* after a send on an unbuffered channel: wait until the item has been taken *)
  Inductive wst := WLoop | WBusy (v : V) (n : nat) | WClose | WHalt.

  Record conf := mkC {
    ops : list mop; w : nat -> wst; buf : nat -> list V; closed : nat -> bool; done : nat -> bool;
    wrote : nat -> list V; returned : bool; (* ghost *) waited : nat -> bool }.

  Variable cap : nat -> nat.

  Definition updf {B} (f : nat -> B) (i : nat) (v : B) : nat -> B := fun j => if Nat.eqb j i then v else f j.
  Lemma updf_same {B} (f : nat -> B) i v : updf f i v i = v.
  Proof. unfold updf. rewrite Nat.eqb_refl. reflexivity. Qed.
  Lemma updf_other {B} (f : nat -> B) i j v : j <> i -> updf f i v j = f j.
  Proof. unfold updf. intros H. destruct (Nat.eqb_spec j i); [contradiction|reflexivity]. Qed.

  Inductive step : conf -> conf -> Prop :=
  | s_send c i x r : ops c = MSend i x :: r -> closed c i = false -> length (buf c i) < cap i ->
      step c (mkC r (w c) (updf (buf c) i (buf c i ++ [x])) (closed c) (done c) (wrote c) (returned c) (waited c))
  | s_close c i r : ops c = MClose i :: r -> closed c i = false ->
      step c (mkC r (w c) (buf c) (updf (closed c) i true) (done c) (wrote c) (returned c) (waited c))
  | s_wait c i r : ops c = MWait i :: r -> done c i = true ->
      step c (mkC r (w c) (buf c) (closed c) (done c) (wrote c) (returned c) (updf (waited c) i true))
  | s_ret c r : ops c = MRet :: r ->
      step c (mkC r (w c) (buf c) (closed c) (done c) (wrote c) true (waited c))
  | s_recv c i x b : w c i = WLoop -> buf c i = x :: b ->
      step c (mkC (ops c) (updf (w c) i (WBusy x lat)) (updf (buf c) i b) (closed c) (done c) (wrote c) (returned c) (waited c))
  | s_eof c i : w c i = WLoop -> buf c i = [] -> closed c i = true ->
      step c (mkC (ops c) (updf (w c) i WClose) (buf c) (closed c) (done c) (wrote c) (returned c) (waited c))
  | s_tick c i x n : w c i = WBusy x (S n) ->
      step c (mkC (ops c) (updf (w c) i (WBusy x n)) (buf c) (closed c) (done c) (wrote c) (returned c) (waited c))
  | s_write c i x : w c i = WBusy x 0 ->
      step c (mkC (ops c) (updf (w c) i WLoop) (buf c) (closed c) (done c) (updf (wrote c) i (wrote c i ++ [x])) (returned c) (waited c))
  | s_done c i : w c i = WClose ->
      step c (mkC (ops c) (updf (w c) i WHalt) (buf c) (closed c) (updf (done c) i true) (wrote c) (returned c) (waited c))
  | s_await c i r : ops c = MAwait i :: r -> buf c i = [] ->
      step c (mkC r (w c) (buf c) (closed c) (done c) (wrote c) (returned c) (waited c)).

  Inductive reach (c0 : conf) : conf -> Prop :=
  | r_refl : reach c0 c0
  | r_step c c' : reach c0 c -> step c c' -> reach c0 c'.

  Definition init (prog : list mop) : conf :=
    mkC prog (fun _ => WLoop) (fun _ => []) (fun _ => false) (fun _ => false) (fun _ => []) false (fun _ => false).

  (* the items a program sends to writer i, in order *)
  Definition sends (i : nat) (l : list mop) : list V :=
    flat_map (fun o => match o with MSend j x => if Nat.eqb j i then [x] else [] | _ => [] end) l.
  Definition inflight (s : wst) : list V := match s with WBusy v _ => [v] | _ => [] end.

  (* static discipline of main's program *)
  Definition no_send_after_close (l : list mop) : Prop :=
    forall a b i, l = a ++ MClose i :: b -> sends i b = [].
  Definition waits_before_return (prog l : list mop) (wt : nat -> bool) : Prop :=
    forall a b, l = a ++ MRet :: b -> forall i, sends i prog <> [] -> wt i = true \/ In (MWait i) a.

  Record Inv (prog : list mop) (c : conf) : Prop := {
    i_data : forall i, sends i prog = wrote c i ++ inflight (w c i) ++ buf c i ++ sends i (ops c);
    i_closed : forall i, closed c i = true -> sends i (ops c) = [];
    i_fin : forall i, w c i = WClose \/ w c i = WHalt -> buf c i = [] /\ closed c i = true;
    i_done : forall i, done c i = true -> w c i = WHalt;
    i_waited : forall i, waited c i = true -> done c i = true;
    i_nsac : no_send_after_close (ops c);
    i_wbr : waits_before_return prog (ops c) (waited c);
    i_ret : returned c = true -> forall i, sends i prog <> [] -> waited c i = true }.

  Lemma sends_cons_other i o l : (forall x, o <> MSend i x) -> sends i (o :: l) = sends i l.
  Proof.
    intros H. unfold sends. cbn [flat_map]. destruct o as [j x| | | |]; try reflexivity.
    destruct (Nat.eqb_spec j i) as [->|_]; [exfalso; exact (H x eq_refl)|reflexivity].
  Qed.
  Lemma sends_cons_same i x l : sends i (MSend i x :: l) = x :: sends i l.
  Proof. unfold sends. cbn [flat_map]. rewrite Nat.eqb_refl. reflexivity. Qed.

  Lemma nsac_tail o l : no_send_after_close (o :: l) -> no_send_after_close l.
  Proof. intros H a b i E. apply (H (o :: a) b i). rewrite E. reflexivity. Qed.

  Ltac thr k i := destruct (Nat.eq_dec k i) as [->|?]; [rewrite ?updf_same in *|rewrite ?updf_other in * by assumption].

  Lemma inv_init prog : no_send_after_close prog -> waits_before_return prog prog (fun _ => false) -> Inv prog (init prog).
  Proof.
    intros H1 H2. constructor; cbn [ops w buf closed done wrote returned waited init]; try (intros; discriminate); auto.
    intros i [C|C]; discriminate.
  Qed.

  Lemma inv_step prog c c' : Inv prog c -> step c c' -> Inv prog c'.
  Proof.
    intros I S. destruct S as [c i x r Ho Hc Hl|c i r Ho Hc|c i r Ho Hd|c r Ho|c i x b Hw Hb|c i Hw Hb Hc|c i x n Hw|c i x Hw|c i Hw|c i r Ho Hbe].
    - (* send *)
      pose proof (i_nsac prog c I) as N. rewrite Ho in N.
      constructor; cbn [ops w buf closed done wrote returned waited].
      + intros k. pose proof (i_data prog c I k) as D. rewrite Ho in D. thr k i.
        * rewrite sends_cons_same in D. rewrite D, <- !app_assoc. reflexivity.
        * rewrite sends_cons_other in D by (intros y E; injection E as E _; congruence). exact D.
      + intros k Hk. pose proof (i_closed prog c I k Hk) as D. rewrite Ho in D.
        destruct (Nat.eq_dec k i) as [->|Hne]; [congruence|].
        rewrite sends_cons_other in D by (intros y E; injection E as E _; congruence). exact D.
      + intros k Hk. destruct (i_fin prog c I k Hk) as [A B]. thr k i; [congruence|split; assumption].
      + exact (i_done prog c I).
      + exact (i_waited prog c I).
      + exact (nsac_tail _ _ N).
      + intros a b E k Hk. pose proof (i_wbr prog c I (MSend i x :: a) b) as Wb. rewrite Ho, E in Wb.
        destruct (Wb eq_refl k Hk) as [A|[A|A]]; [left; exact A|discriminate|right; exact A].
      + exact (i_ret prog c I).
    - (* close *)
      pose proof (i_nsac prog c I) as N. rewrite Ho in N.
      constructor; cbn [ops w buf closed done wrote returned waited].
      + intros k. pose proof (i_data prog c I k) as D. rewrite Ho in D.
        rewrite sends_cons_other in D by (intros y E; discriminate). exact D.
      + intros k Hk. thr k i.
        * exact (N [] r i eq_refl).
        * pose proof (i_closed prog c I k Hk) as D. rewrite Ho in D.
          rewrite sends_cons_other in D by (intros y E; discriminate). exact D.
      + intros k Hk. destruct (i_fin prog c I k Hk) as [A B]. split; [exact A|]. thr k i; [reflexivity|exact B].
      + exact (i_done prog c I).
      + exact (i_waited prog c I).
      + exact (nsac_tail _ _ N).
      + intros a b E k Hk. pose proof (i_wbr prog c I (MClose i :: a) b) as Wb. rewrite Ho, E in Wb.
        destruct (Wb eq_refl k Hk) as [A|[A|A]]; [left; exact A|discriminate|right; exact A].
      + exact (i_ret prog c I).
    - (* wait *)
      pose proof (i_nsac prog c I) as N. rewrite Ho in N.
      constructor; cbn [ops w buf closed done wrote returned waited].
      + intros k. pose proof (i_data prog c I k) as D. rewrite Ho in D.
        rewrite sends_cons_other in D by (intros y E; discriminate). exact D.
      + intros k Hk. pose proof (i_closed prog c I k Hk) as D. rewrite Ho in D.
        rewrite sends_cons_other in D by (intros y E; discriminate). exact D.
      + exact (i_fin prog c I).
      + exact (i_done prog c I).
      + intros k Hk. thr k i; [exact Hd|exact (i_waited prog c I k Hk)].
      + exact (nsac_tail _ _ N).
      + intros a b E k Hk. pose proof (i_wbr prog c I (MWait i :: a) b) as Wb. rewrite Ho, E in Wb.
        destruct (Wb eq_refl k Hk) as [A|[A|A]].
        * left. thr k i; [reflexivity|exact A].
        * injection A as <-. left. apply updf_same.
        * right. exact A.
      + intros Hr k Hk. pose proof (i_ret prog c I Hr k Hk) as A. thr k i; [reflexivity|exact A].
    - (* return *)
      pose proof (i_nsac prog c I) as N. rewrite Ho in N.
      constructor; cbn [ops w buf closed done wrote returned waited].
      + intros k. pose proof (i_data prog c I k) as D. rewrite Ho in D.
        rewrite sends_cons_other in D by (intros y E; discriminate). exact D.
      + intros k Hk. pose proof (i_closed prog c I k Hk) as D. rewrite Ho in D.
        rewrite sends_cons_other in D by (intros y E; discriminate). exact D.
      + exact (i_fin prog c I).
      + exact (i_done prog c I).
      + exact (i_waited prog c I).
      + exact (nsac_tail _ _ N).
      + intros a b E k Hk. pose proof (i_wbr prog c I (MRet :: a) b) as Wb. rewrite Ho, E in Wb.
        destruct (Wb eq_refl k Hk) as [A|[A|A]]; [left; exact A|discriminate|right; exact A].
      + intros _ k Hk. pose proof (i_wbr prog c I [] r) as Wb. rewrite Ho in Wb.
        destruct (Wb eq_refl k Hk) as [A|[]]. exact A.
    - (* a writer takes an item *)
      constructor; cbn [ops w buf closed done wrote returned waited].
      + intros k. pose proof (i_data prog c I k) as D. thr k i; [|exact D].
        rewrite Hw, Hb in D. cbn [inflight app] in *. exact D.
      + exact (i_closed prog c I).
      + intros k Hk. thr k i; [destruct Hk; discriminate|exact (i_fin prog c I k Hk)].
      + intros k Hk. pose proof (i_done prog c I k Hk) as A. thr k i; [congruence|exact A].
      + exact (i_waited prog c I).
      + exact (i_nsac prog c I).
      + exact (i_wbr prog c I).
      + exact (i_ret prog c I).
    - (* a writer sees the end of its channel *)
      constructor; cbn [ops w buf closed done wrote returned waited].
      + intros k. pose proof (i_data prog c I k) as D. thr k i; [|exact D]. rewrite Hw in D. exact D.
      + exact (i_closed prog c I).
      + intros k Hk. thr k i; [split; assumption|exact (i_fin prog c I k Hk)].
      + intros k Hk. pose proof (i_done prog c I k Hk) as A. thr k i; [congruence|exact A].
      + exact (i_waited prog c I).
      + exact (i_nsac prog c I).
      + exact (i_wbr prog c I).
      + exact (i_ret prog c I).
    - (* latency *)
      constructor; cbn [ops w buf closed done wrote returned waited].
      + intros k. pose proof (i_data prog c I k) as D. thr k i; [|exact D]. rewrite Hw in D. exact D.
      + exact (i_closed prog c I).
      + intros k Hk. thr k i; [destruct Hk; discriminate|exact (i_fin prog c I k Hk)].
      + intros k Hk. pose proof (i_done prog c I k Hk) as A. thr k i; [congruence|exact A].
      + exact (i_waited prog c I).
      + exact (i_nsac prog c I).
      + exact (i_wbr prog c I).
      + exact (i_ret prog c I).
    - (* write *)
      constructor; cbn [ops w buf closed done wrote returned waited].
      + intros k. pose proof (i_data prog c I k) as D. thr k i; [|exact D].
        rewrite Hw in D. cbn [inflight app] in *. rewrite <- app_assoc. exact D.
      + exact (i_closed prog c I).
      + intros k Hk. thr k i; [destruct Hk; discriminate|exact (i_fin prog c I k Hk)].
      + intros k Hk. pose proof (i_done prog c I k Hk) as A. thr k i; [congruence|exact A].
      + exact (i_waited prog c I).
      + exact (i_nsac prog c I).
      + exact (i_wbr prog c I).
      + exact (i_ret prog c I).
    - (* done *)
      constructor; cbn [ops w buf closed done wrote returned waited].
      + intros k. pose proof (i_data prog c I k) as D. thr k i; [|exact D]. rewrite Hw in D. exact D.
      + exact (i_closed prog c I).
      + intros k Hk. thr k i; [exact (i_fin prog c I i (or_introl Hw))|exact (i_fin prog c I k Hk)].
      + intros k Hk. thr k i; [reflexivity|exact (i_done prog c I k Hk)].
      + intros k Hk. pose proof (i_waited prog c I k Hk) as A. thr k i; [reflexivity|exact A].
      + exact (i_nsac prog c I).
      + exact (i_wbr prog c I).
      + exact (i_ret prog c I).
    - (* the item sent on an unbuffered channel has been taken *)
      pose proof (i_nsac prog c I) as N. rewrite Ho in N.
      constructor; cbn [ops w buf closed done wrote returned waited].
      + intros k. pose proof (i_data prog c I k) as D. rewrite Ho in D.
        rewrite sends_cons_other in D by (intros y E; discriminate). exact D.
      + intros k Hk. pose proof (i_closed prog c I k Hk) as D. rewrite Ho in D.
        rewrite sends_cons_other in D by (intros y E; discriminate). exact D.
      + exact (i_fin prog c I).
      + exact (i_done prog c I).
      + exact (i_waited prog c I).
      + exact (nsac_tail _ _ N).
      + intros a b E k Hk. pose proof (i_wbr prog c I (MAwait i :: a) b) as Wb. rewrite Ho, E in Wb.
        destruct (Wb eq_refl k Hk) as [A|[A|A]]; [left; exact A|discriminate|right; exact A].
      + exact (i_ret prog c I).
  Qed.

  Theorem inv_reach prog c : no_send_after_close prog -> waits_before_return prog prog (fun _ => false) ->
    reach (init prog) c -> Inv prog c.
  Proof. intros H1 H2. induction 1 as [|c c' _ IH S]; [apply inv_init; assumption|exact (inv_step prog c c' IH S)]. Qed.

  (* when main has returned every writer has written exactly what was sent to it *)
  Theorem flushed_at_return prog c : no_send_after_close prog -> waits_before_return prog prog (fun _ => false) ->
    reach (init prog) c -> returned c = true -> forall i, wrote c i = sends i prog.
  Proof.
    intros H1 H2 Hr Hret i. pose proof (inv_reach prog c H1 H2 Hr) as I.
    destruct (sends i prog) as [|x l] eqn:E.
    - pose proof (i_data prog c I i) as D. rewrite E in D. symmetry in D.
      apply app_eq_nil in D. exact (proj1 D).
    - assert (Hne : sends i prog <> []) by (rewrite E; discriminate).
      pose proof (i_ret prog c I Hret i Hne) as Wt.
      pose proof (i_done prog c I i (i_waited prog c I i Wt)) as Hh.
      destruct (i_fin prog c I i (or_intror Hh)) as [Hb Hc].
      pose proof (i_data prog c I i) as D. rewrite Hh, Hb, (i_closed prog c I i Hc), E in D. cbn [inflight app] in D.
      rewrite app_nil_r in D. symmetry. exact D.
  Qed.

  (* ---------- progress: the only configurations that cannot move are the finished ones ---------- *)
  Hypothesis cap_pos : forall i, 1 <= cap i.

  Definition close_once (l : list mop) : Prop := forall a b i, l = a ++ MClose i :: b -> ~ In (MClose i) b.
  Definition waits_after_close (l : list mop) (cl : nat -> bool) : Prop :=
    forall a b i, l = a ++ MWait i :: b -> cl i = true \/ In (MClose i) a.

  Record Inv2 (c : conf) : Prop := {
    j_once : close_once (ops c);
    j_closed : forall i, closed c i = true -> ~ In (MClose i) (ops c);
    j_wac : waits_after_close (ops c) (closed c);
    j_halt : forall i, w c i = WHalt -> done c i = true }.

  Lemma once_tail o l : close_once (o :: l) -> close_once l.
  Proof. intros H a b i E. apply (H (o :: a) b i). rewrite E. reflexivity. Qed.

  Lemma inv2_init prog : close_once prog -> waits_after_close prog (fun _ => false) -> Inv2 (init prog).
  Proof.
    intros H1 H2. constructor; cbn [ops w closed done init]; auto; intros; discriminate.
  Qed.

  Lemma inv2_step c c' : Inv2 c -> step c c' -> Inv2 c'.
  Proof.
    intros I S. destruct S as [c i x r Ho Hc Hl|c i r Ho Hc|c i r Ho Hd|c r Ho|c i x b Hw Hb|c i Hw Hb Hc|c i x n Hw|c i x Hw|c i Hw|c i r Ho Hbe];
      pose proof (j_once c I) as O1; pose proof (j_wac c I) as W1.
    - rewrite Ho in O1, W1. constructor; cbn [ops w closed done].
      + exact (once_tail _ _ O1).
      + intros k Hk Hin. apply (j_closed c I k Hk). rewrite Ho. right. exact Hin.
      + intros a b k E. destruct (W1 (MSend i x :: a) b k) as [A|[A|A]]; [rewrite E; reflexivity|left; exact A|discriminate|right; exact A].
      + exact (j_halt c I).
    - rewrite Ho in O1, W1. constructor; cbn [ops w closed done].
      + exact (once_tail _ _ O1).
      + intros k Hk Hin. thr k i.
        * exact (O1 [] r i eq_refl Hin).
        * apply (j_closed c I k Hk). rewrite Ho. right. exact Hin.
      + intros a b k E. destruct (W1 (MClose i :: a) b k) as [A|[A|A]]; [rewrite E; reflexivity| | |].
        * left. thr k i; [reflexivity|exact A].
        * injection A as <-. left. apply updf_same.
        * right. exact A.
      + exact (j_halt c I).
    - rewrite Ho in O1, W1. constructor; cbn [ops w closed done].
      + exact (once_tail _ _ O1).
      + intros k Hk Hin. apply (j_closed c I k Hk). rewrite Ho. right. exact Hin.
      + intros a b k E. destruct (W1 (MWait i :: a) b k) as [A|[A|A]]; [rewrite E; reflexivity|left; exact A|discriminate|right; exact A].
      + exact (j_halt c I).
    - rewrite Ho in O1, W1. constructor; cbn [ops w closed done].
      + exact (once_tail _ _ O1).
      + intros k Hk Hin. apply (j_closed c I k Hk). rewrite Ho. right. exact Hin.
      + intros a b k E. destruct (W1 (MRet :: a) b k) as [A|[A|A]]; [rewrite E; reflexivity|left; exact A|discriminate|right; exact A].
      + exact (j_halt c I).
    - constructor; cbn [ops w closed done]; [exact O1|exact (j_closed c I)|exact W1|].
      intros k Hk. thr k i; [discriminate|exact (j_halt c I k Hk)].
    - constructor; cbn [ops w closed done]; [exact O1|exact (j_closed c I)|exact W1|].
      intros k Hk. thr k i; [discriminate|exact (j_halt c I k Hk)].
    - constructor; cbn [ops w closed done]; [exact O1|exact (j_closed c I)|exact W1|].
      intros k Hk. thr k i; [discriminate|exact (j_halt c I k Hk)].
    - constructor; cbn [ops w closed done]; [exact O1|exact (j_closed c I)|exact W1|].
      intros k Hk. thr k i; [discriminate|exact (j_halt c I k Hk)].
    - constructor; cbn [ops w closed done]; [exact O1|exact (j_closed c I)|exact W1|].
      intros k Hk. thr k i; [reflexivity|]. pose proof (j_halt c I k Hk) as A. exact A.
    - rewrite Ho in O1, W1. constructor; cbn [ops w closed done].
      + exact (once_tail _ _ O1).
      + intros k Hk Hin. apply (j_closed c I k Hk). rewrite Ho. right. exact Hin.
      + intros a b k E. destruct (W1 (MAwait i :: a) b k) as [A|[A|A]]; [rewrite E; reflexivity|left; exact A|discriminate|right; exact A].
      + exact (j_halt c I).
  Qed.

  (* a configuration in which nothing can move: main has finished its program and every writer whose
     channel was closed has halted - no deadlock, no goroutine left waiting on a closed channel *)
  Theorem stuck_is_finished prog c : Inv prog c -> Inv2 c -> (forall c', ~ step c c') ->
    ops c = [] /\ forall i, closed c i = true -> w c i = WHalt /\ done c i = true.
  Proof.
    intros I J Hn.
    assert (Hw : forall i, w c i = WHalt \/ (w c i = WLoop /\ buf c i = [] /\ closed c i = false)).
    { intros i. destruct (w c i) as [|x n| |] eqn:E.
      - destruct (buf c i) as [|x b] eqn:Eb.
        + destruct (closed c i) eqn:Ec; [exfalso; exact (Hn _ (s_eof c i E Eb Ec))|right; repeat split].
        + exfalso. exact (Hn _ (s_recv c i x b E Eb)).
      - exfalso. destruct n as [|n]; [exact (Hn _ (s_write c i x E))|exact (Hn _ (s_tick c i x n E))].
      - exfalso. exact (Hn _ (s_done c i E)).
      - left. reflexivity. }
    split.
    - destruct (ops c) as [|o r] eqn:Ho; [reflexivity|exfalso]. destruct o as [i x|i|i| |i].
      + assert (Hc : closed c i = false).
        { destruct (closed c i) eqn:Ec; [|reflexivity]. pose proof (i_closed prog c I i Ec) as Z.
          rewrite Ho, sends_cons_same in Z. discriminate. }
        destruct (Hw i) as [Hh|(Hl & Hb & _)].
        * destruct (i_fin prog c I i (or_intror Hh)) as [_ C]. congruence.
        * apply (Hn _ (s_send c i x r Ho Hc ltac:(rewrite Hb; cbn; pose proof (cap_pos i); lia))).
      + destruct (closed c i) eqn:Ec.
        * apply (j_closed c J i Ec). rewrite Ho. left. reflexivity.
        * exact (Hn _ (s_close c i r Ho Ec)).
      + pose proof (j_wac c J [] r i) as Wc. rewrite Ho in Wc. destruct (Wc eq_refl) as [Ec|[]].
        destruct (Hw i) as [Hh|(_ & _ & C)]; [|congruence].
        exact (Hn _ (s_wait c i r Ho (j_halt c J i Hh))).
      + exact (Hn _ (s_ret c r Ho)).
      + (* the item is taken sooner or later: a writer that is not busy has an empty channel *)
        destruct (Hw i) as [Hh|(_ & Hb & _)].
        * destruct (i_fin prog c I i (or_intror Hh)) as [Hb _]. exact (Hn _ (s_await c i r Ho Hb)).
        * exact (Hn _ (s_await c i r Ho Hb)).
    - intros i Ec. destruct (Hw i) as [Hh|(_ & _ & C)]; [|congruence]. split; [exact Hh|exact (j_halt c J i Hh)].
  Qed.

  Theorem inv2_reach prog c : close_once prog -> waits_after_close prog (fun _ => false) -> reach (init prog) c -> Inv2 c.
  Proof. intros H1 H2. induction 1 as [|c c' _ IH S]; [apply inv2_init; assumption|exact (inv2_step c c' IH S)]. Qed.

  (* a close operation of the program that is no longer ahead of main has been executed *)
  Lemma closed_when_gone prog c : reach (init prog) c -> forall i, In (MClose i) prog -> ~ In (MClose i) (ops c) -> closed c i = true.
  Proof.
    induction 1 as [|c c' _ IH S]; intros i Hin Hnot; [contradiction|].
    destruct S as [c j x r Ho Hc Hl|c j r Ho Hc|c j r Ho Hd|c r Ho|c j x b Hw Hb|c j Hw Hb Hc|c j x n Hw|c j x Hw|c j Hw|c j r Ho Hbe];
      cbn [ops closed] in *; try (apply IH; assumption).
    - apply IH; [exact Hin|]. rewrite Ho. intros [C|C]; [discriminate|exact (Hnot C)].
    - destruct (Nat.eq_dec i j) as [->|Hne]; [apply updf_same|]. rewrite updf_other by exact Hne.
      apply IH; [exact Hin|]. rewrite Ho. intros [C|C]; [injection C as C; congruence|exact (Hnot C)].
    - apply IH; [exact Hin|]. rewrite Ho. intros [C|C]; [discriminate|exact (Hnot C)].
    - apply IH; [exact Hin|]. rewrite Ho. intros [C|C]; [discriminate|exact (Hnot C)].
    - apply IH; [exact Hin|]. rewrite Ho. intros [C|C]; [discriminate|exact (Hnot C)].
  Qed.
End W.

(* ---------- the program of rtcmfilter / displayrtcm3 ---------- *)
Section Std.
  Variable V : Type.
  Arguments MSend {V}. Arguments MClose {V}. Arguments MWait {V}. Arguments MRet {V}. Arguments MAwait {V}.
  Variable sync : nat -> bool.    (* writer i's channel is unbuffered: after each send main waits until the item has been taken *)

  (* every message to writers 0..k-1 in turn; close all; wait for all; return *)
  Definition cell (m : V) (i : nat) : list (mop V) := MSend i m :: (if sync i then [MAwait i] else []).
  Definition rows (k : nat) (msgs : list V) : list (mop V) := flat_map (fun m => flat_map (cell m) (seq 0 k)) msgs.
  Definition ctl (k : nat) : list (mop V) := map MClose (seq 0 k) ++ map MWait (seq 0 k) ++ [MRet].
  Definition std_prog (k : nat) (msgs : list V) : list (mop V) := rows k msgs ++ ctl k.

  Lemma sends_app i (a b : list (mop V)) : sends V i (a ++ b) = sends V i a ++ sends V i b.
  Proof. apply flat_map_app. Qed.

  Lemma sends_cell i m j : sends V i (cell m j) = if Nat.eqb j i then [m] else [].
  Proof. unfold cell, sends. cbn [flat_map]. destruct (sync j); cbn [flat_map app]; rewrite ?app_nil_r; reflexivity. Qed.

  Lemma sends_row i k m : sends V i (flat_map (cell m) (seq 0 k)) = if i <? k then [m] else [].
  Proof.
    assert (G : forall n s, sends V i (flat_map (cell m) (seq s n)) = if (s <=? i) && (i <? s + n) then [m] else []).
    { induction n as [|n IH]; intros s; cbn [seq flat_map].
      - replace (i <? s + 0) with (i <? s) by (f_equal; lia).
        destruct (Nat.leb_spec s i), (Nat.ltb_spec i s); try reflexivity; lia.
      - rewrite sends_app, sends_cell, IH.
        destruct (Nat.eqb_spec s i) as [->|Hne].
        + rewrite Nat.leb_refl. replace (i <? i + S n) with true by (symmetry; apply Nat.ltb_lt; lia).
          replace (S i <=? i) with false by (symmetry; apply Nat.leb_gt; lia). reflexivity.
        + destruct (Nat.leb_spec s i), (Nat.leb_spec (S s) i), (Nat.ltb_spec i (s + S n)), (Nat.ltb_spec i (S s + n));
            cbn [andb app]; try reflexivity; lia. }
    rewrite (G k 0). cbn [Nat.leb andb plus]. reflexivity.
  Qed.

  Lemma sends_rows i k msgs : sends V i (rows k msgs) = if i <? k then msgs else [].
  Proof.
    unfold rows. induction msgs as [|m msgs IH]; [destruct (i <? k); reflexivity|].
    cbn [flat_map]. rewrite sends_app, sends_row, IH. destruct (i <? k); reflexivity.
  Qed.

  Definition is_send (o : mop V) : bool := match o with MSend _ _ => true | _ => false end.
  Definition is_ctl (o : mop V) : bool := match o with MClose _ | MWait _ | MRet => true | _ => false end.
  Lemma sends_nosend i (l : list (mop V)) : forallb (fun o => negb (is_send o)) l = true -> sends V i l = [].
  Proof.
    induction l as [|o l IH]; intros H; [reflexivity|]. cbn [forallb] in H. apply andb_true_iff in H. destruct H as [Ho Hl].
    destruct o; try discriminate; cbn; exact (IH Hl).
  Qed.

  Lemma ctl_nosend k : forallb (fun o => negb (is_send o)) (ctl k) = true.
  Proof.
    unfold ctl. rewrite !forallb_app. repeat (apply andb_true_iff; split); try reflexivity;
      apply forallb_forall; intros o Ho; apply in_map_iff in Ho; destruct Ho as (j & <- & _); reflexivity.
  Qed.

  Lemma sends_std i k msgs : sends V i (std_prog k msgs) = if i <? k then msgs else [].
  Proof. unfold std_prog. rewrite sends_app, sends_rows, (sends_nosend i _ (ctl_nosend k)). apply app_nil_r. Qed.

  (* a split of  S ++ T  at an operation that does not occur in S happens inside T *)
  Lemma split_in_tail (S T a b : list (mop V)) o : Forall (fun s => s <> o) S -> a ++ o :: b = S ++ T ->
    exists c, T = c ++ o :: b /\ a = S ++ c.
  Proof.
    revert a; induction S as [|s S IH]; intros a HS E.
    - exists a. split; [symmetry; exact E|reflexivity].
    - inversion HS as [|? ? Hs HS']; subst. destruct a as [|x a].
      + cbn in E. injection E as E _. congruence.
      + cbn in E. injection E as -> E. destruct (IH a HS' E) as (c & Hc & Ha). exists c. split; [exact Hc|]. rewrite Ha. reflexivity.
  Qed.

  (* the rows contain sends and awaits only *)
  Lemma rows_no_ctl k msgs o : is_ctl o = true -> Forall (fun s => s <> o) (rows k msgs).
  Proof.
    intros Ho. apply Forall_forall. intros s Hs. unfold rows in Hs. apply in_flat_map in Hs. destruct Hs as (m & _ & Hs).
    apply in_flat_map in Hs. destruct Hs as (j & _ & Hs). unfold cell in Hs.
    destruct Hs as [<-|Hs]; [intros C; rewrite <- C in Ho; discriminate|].
    destruct (sync j); [destruct Hs as [<-|[]]; intros C; rewrite <- C in Ho; discriminate|destruct Hs].
  Qed.

  Lemma std_no_send_after_close k msgs : no_send_after_close V (std_prog k msgs).
  Proof.
    intros a b i E. unfold std_prog in E. symmetry in E.
    destruct (split_in_tail _ _ a b (MClose i) (rows_no_ctl k msgs (MClose i) eq_refl) E) as (c & Hc & _).
    pose proof (sends_nosend i _ (ctl_nosend k)) as Z. rewrite Hc, sends_app in Z.
    apply app_eq_nil in Z. destruct Z as [_ Z]. exact Z.
  Qed.

  Lemma std_waits_before_return k msgs : waits_before_return V (std_prog k msgs) (std_prog k msgs) (fun _ => false).
  Proof.
    intros a b E i Hi. right.
    rewrite sends_std in Hi. destruct (Nat.ltb_spec i k) as [Hlt|]; [|congruence].
    unfold std_prog in E. symmetry in E.
    destruct (split_in_tail _ _ a b MRet (rows_no_ctl k msgs MRet eq_refl) E) as (c & Hc & Ha).
    assert (Hc2 : exists d, c = map MClose (seq 0 k) ++ d /\ (map MWait (seq 0 k) ++ [MRet] = d ++ MRet :: b)).
    { assert (F : Forall (fun s : mop V => s <> MRet) (map MClose (seq 0 k))).
      { apply Forall_forall. intros s Hs. apply in_map_iff in Hs. destruct Hs as (j & <- & _). discriminate. }
      destruct (split_in_tail _ _ c b MRet F (eq_sym Hc)) as (d & Hd & Hcd). exists d. split; [exact Hcd|exact Hd]. }
    destruct Hc2 as (d & Hcd & Hd).
    assert (F2 : Forall (fun s : mop V => s <> MRet) (map MWait (seq 0 k))).
    { apply Forall_forall. intros s Hs. apply in_map_iff in Hs. destruct Hs as (j & <- & _). discriminate. }
    destruct (split_in_tail _ _ d b MRet F2 (eq_sym Hd)) as (e & He & Hde).
    rewrite Ha, Hcd, Hde. apply in_or_app. right. apply in_or_app. right. apply in_or_app. left.
    apply in_map. apply in_seq. lia.
  Qed.

  (* the same program with the wait left out when the source does not wait (fact regenerated from the code) *)
  Definition std_prog_opt (waits : bool) (k : nat) (msgs : list V) : list (mop V) :=
    if waits then std_prog k msgs else rows k msgs ++ map MClose (seq 0 k) ++ [MRet].

  (* C11 for k writers: whatever the capacities, latencies and schedule, and whichever channels are unbuffered,
     when main has returned every writer 0..k-1 has written exactly the messages, in order *)
  Theorem std_flushed_at_return lat cap k msgs c :
    reach V lat cap (init V (std_prog k msgs)) c -> returned V c = true ->
    forall i, i < k -> wrote V c i = msgs.
  Proof.
    intros Hr Hret i Hi.
    rewrite (flushed_at_return V lat cap _ c (std_no_send_after_close k msgs) (std_waits_before_return k msgs) Hr Hret i).
    rewrite sends_std. destruct (Nat.ltb_spec i k); [reflexivity|lia].
  Qed.

  (* the writers whose channels a program closes, in order *)
  Definition closes (l : list (mop V)) : list nat :=
    flat_map (fun o => match o with MClose i => [i] | _ => [] end) l.
  Lemma closes_app a b : closes (a ++ b) = closes a ++ closes b.
  Proof. apply flat_map_app. Qed.
  Lemma in_closes i l : In (MClose i) l -> In i (closes l).
  Proof. intros H. unfold closes. apply in_flat_map. exists (MClose i). split; [exact H|left; reflexivity]. Qed.

  Lemma nodup_close_once l : NoDup (closes l) -> close_once V l.
  Proof.
    intros ND a b i E Hin. rewrite E, closes_app in ND. cbn [closes flat_map app] in ND.
    apply NoDup_remove_2 in ND. apply ND. apply in_or_app. right. exact (in_closes i b Hin).
  Qed.

  Lemma closes_nonclose l : (forall o, In o l -> match o with MClose _ => False | _ => True end) -> closes l = [].
  Proof.
    induction l as [|o l IH]; intros H; [reflexivity|]. cbn [closes flat_map].
    pose proof (H o (or_introl eq_refl)) as Ho. destruct o; try contradiction; cbn [app]; apply IH; intros o' Ho'; apply H; right; exact Ho'.
  Qed.

  Lemma std_close_once k msgs : close_once V (std_prog k msgs).
  Proof.
    apply nodup_close_once. unfold std_prog, ctl. rewrite !closes_app.
    rewrite (closes_nonclose (rows k msgs)).
    2:{ intros o Ho. pose proof (rows_no_ctl k msgs o) as F. destruct o; try exact I.
        rewrite Forall_forall in F. exact (F eq_refl _ Ho eq_refl). }
    rewrite (closes_nonclose (map MWait (seq 0 k))).
    2:{ intros o Ho. apply in_map_iff in Ho. destruct Ho as (j & <- & _). exact I. }
    cbn [closes flat_map app]. rewrite app_nil_r.
    assert (E : closes (map MClose (seq 0 k)) = seq 0 k).
    { generalize (seq 0 k). intros l. induction l as [|x l IH]; [reflexivity|]. cbn [map closes flat_map app]. f_equal. exact IH. }
    rewrite E. apply seq_NoDup.
  Qed.

  Lemma std_waits_after_close k msgs : waits_after_close V (std_prog k msgs) (fun _ => false).
  Proof.
    intros a b i E. right. unfold std_prog in E. symmetry in E.
    destruct (split_in_tail _ _ a b (MWait i) (rows_no_ctl k msgs (MWait i) eq_refl) E) as (c & Hc & Ha).
    assert (F : Forall (fun s : mop V => s <> MWait i) (map MClose (seq 0 k))).
    { apply Forall_forall. intros s Hs. apply in_map_iff in Hs. destruct Hs as (j & <- & _). discriminate. }
    destruct (split_in_tail _ _ c b (MWait i) F (eq_sym Hc)) as (d & Hd & Hcd).
    assert (Hi : i < k).
    { assert (Hin : In (MWait i) (map MWait (seq 0 k) ++ [MRet])) by (rewrite Hd; apply in_or_app; right; left; reflexivity).
      apply in_app_or in Hin. destruct Hin as [Hin|[Hin|[]]]; [|discriminate].
      apply in_map_iff in Hin. destruct Hin as (j & Hj & Hs). injection Hj as <-. apply in_seq in Hs. lia. }
    rewrite Ha, Hcd. apply in_or_app. right. apply in_or_app. left. apply in_map. apply in_seq. lia.
  Qed.

  (* no deadlock: a configuration of the standard program in which nothing can move is the finished one -
     main has run its whole program and every writer 0..k-1 has halted having written the messages *)
  Theorem std_no_deadlock lat cap k msgs c : (forall i, 1 <= cap i) ->
    reach V lat cap (init V (std_prog k msgs)) c -> (forall c', ~ step V lat cap c c') ->
    ops V c = [] /\ forall i, i < k -> w V c i = WHalt V /\ wrote V c i = msgs.
  Proof.
    intros Hcap Hr Hn.
    pose proof (inv_reach V lat cap _ c (std_no_send_after_close k msgs) (std_waits_before_return k msgs) Hr) as I.
    pose proof (inv2_reach V lat cap _ c (std_close_once k msgs) (std_waits_after_close k msgs) Hr) as J.
    destruct (stuck_is_finished V lat cap Hcap _ c I J Hn) as [Ho Hc].
    split; [exact Ho|]. intros i Hi.
    assert (Hcl : closed V c i = true).
    { apply (closed_when_gone V lat cap (std_prog k msgs) c Hr i).
      - unfold std_prog, ctl. apply in_or_app. right. apply in_or_app. left. apply in_map. apply in_seq. lia.
      - rewrite Ho. intros []. }
    destruct (Hc i Hcl) as [Hh _]. split; [exact Hh|].
    pose proof (i_data V _ c I i) as D.
    destruct (i_fin V _ c I i (or_intror Hh)) as [Hb _].
    rewrite Hh, Hb, Ho in D. cbn in D. rewrite app_nil_r in D. rewrite <- D, sends_std.
    destruct (Nat.ltb_spec i k); [reflexivity|lia].
  Qed.
End Std.

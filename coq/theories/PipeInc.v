(* PipeInc.v - the pipeline network with the byte-driven framer of IncFrame.v: the framer process
   receives one byte at a time and sends the messages that byte completes; at the end of the input
   it sends what is left.  Every schedule delivers to every consumer what handle_stream delivers. *)
From Coq Require Import List Arith NArith ZArith Lia Bool.
Import ListNotations.
From NTRIP Require Import Base Time Frame FrameProofs Net Pipe IncFrame.
Arguments outs {St V Ev}.

Lemma seqrun_machine : forall (bs : list N) (s : mstate),
  seqrun N msg mstate mstep mflush s bs = fst (mall s bs).
Proof.
  induction bs as [|b bs IH]; intros s; cbn [seqrun].
  - unfold mall. cbn [mrun]. reflexivity.
  - rewrite IH. unfold mall. cbn [mrun]. destruct (mstep s b) as [s' ms]. cbn [fst snd].
    destruct (mrun s' bs) as [ms' s'']. cbn [fst]. rewrite <- app_assoc. reflexivity.
Qed.

Theorem pipeline_incremental : forall t0 (input : list N) (k : nat) (live sync : nat -> bool) cap0 cap1 caps,
  (1 <= cap0)%nat -> (1 <= cap1)%nat -> length caps = k -> Forall (fun c => (1 <= c)%nat) caps ->
  exists ms h', handle_stream (new_handler t0) input = Ok (ms, h') /\
  exists n, forall m c,
    steps _ (nstep _ _ _ (Pipe.prog N msg mstate mstep mflush k live sync) Pipe.sender Pipe.receiver (SkDone _ _ _)) m
          (Pipe.init N msg mstate k cap0 cap1 caps input (new_handler t0, PEat [])) c ->
    (m <= n)%nat /\
    (final_config _ _ _ (Pipe.prog N msg mstate mstep mflush k live sync) Pipe.sender Pipe.receiver (SkDone _ _ _) c ->
     forall i, (i < k)%nat -> sink_out N msg mstate c i = if live i then ms else []).
Proof.
  intros t0 input k live sync cap0 cap1 caps H0 H1 Hl Hc.
  pose proof (handle_stream_is_machine (new_handler t0) input) as Hm.
  destruct (mall (new_handler t0, PEat []) input) as [ms h'] eqn:E.
  exists ms, h'. split; [exact Hm|].
  destruct (pipeline_every_schedule N msg mstate mstep mflush k live sync cap0 cap1 caps input (new_handler t0, PEat []) H0 H1 Hl Hc) as [n Hn].
  exists n. intros m c Hs. destruct (Hn m c Hs) as (Hle & _ & Hfin).
  split; [exact Hle|]. intros Hf i Hi. rewrite (Hfin Hf).
  rewrite (fin_sinks N msg mstate _ _ k live cap0 cap1 caps input _ i Hi).
  rewrite seqrun_machine, E. reflexivity.
Qed.

(* C02 with the byte-driven framer: one consumer, every schedule *)
Theorem lossless_incremental : forall t0 (input : list N) (sync : nat -> bool) cap0 cap1 capc,
  (1 <= cap0)%nat -> (1 <= cap1)%nat -> (1 <= capc)%nat ->
  exists n, forall m c,
    steps _ (nstep _ _ _ (Pipe.prog N msg mstate mstep mflush 1 (fun _ => true) sync)
                   Pipe.sender Pipe.receiver (SkDone _ _ _)) m
          (Pipe.init N msg mstate 1 cap0 cap1 [capc] input (new_handler t0, PEat [])) c ->
    (m <= n)%nat /\
    (final_config _ _ _ (Pipe.prog N msg mstate mstep mflush 1 (fun _ => true) sync)
                  Pipe.sender Pipe.receiver (SkDone _ _ _) c ->
     concat (map raw (sink_out N msg mstate c 0)) = input /\
     Forall (fun x => raw x <> []) (sink_out N msg mstate c 0) /\
     halted N msg mstate mstep mflush 1 (fun _ => true) sync c 1 /\
     closed (nth 1 (chans c) (dchan _)) = true).
Proof.
  intros t0 input sync cap0 cap1 capc H0 H1 Hc.
  destruct (handle_stream_lossless (new_handler t0) input) as (ms & h' & Hms & Hcat & Hne & _).
  destruct (pipeline_every_schedule N msg mstate mstep mflush 1 (fun _ => true) sync
              cap0 cap1 [capc] input (new_handler t0, PEat []) H0 H1 eq_refl (Forall_cons _ Hc (Forall_nil _))) as [n Hn].
  exists n. intros m c Hm. destruct (Hn m c Hm) as (Hle & _ & Hfin).
  split; [exact Hle|]. intros Hf. rewrite (Hfin Hf).
  rewrite (fin_sinks N msg mstate _ _ 1 (fun _ => true) cap0 cap1 [capc] input _ 0 (le_n 1)).
  rewrite seqrun_machine. pose proof (handle_stream_is_machine (new_handler t0) input) as Hmm.
  rewrite Hms in Hmm. injection Hmm as Hmm. rewrite <- Hmm. cbn [fst].
  split; [exact Hcat|]. split; [exact Hne|]. split; reflexivity.
Qed.


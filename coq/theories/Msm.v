(* Msm.v - model of the MSM decoders: header.GetMSMHeader, type_msm4/type_msm7
   satellite.GetSatelliteCells, signal.GetSignalCells, utils.GetNumberOfSignalCells and
   message.GetMessage, with every length guard as written in the Go code. *)
From NTRIP Require Import Base Bits Classify.
From NTRIPGen Require Import GenConsts.
Open Scope N_scope.

Definition nn (x : N) : nat := N.to_nat x.

(* ---------- header ---------- *)

Record header := mkHdr {
  h_type : N; h_station : N; h_ts : N; h_multi : bool; h_iods : N; h_sess : N;
  h_clk : N; h_extclk : N; h_smooth : bool; h_smint : N;
  h_satmask : N; h_sigmask : N; h_cellmask : N;
  h_sats : list N; h_sigs : list N; h_cells : list (list bool); h_ncells : nat;
}.

(* getSatellites / getSignals: ids (1-based, most significant bit first) of the set bits *)
Definition mask_ids (width : nat) (mask : N) : list N :=
  flat_map (fun k => if N.testbit mask (N.of_nat (width - k)) then [N.of_nat k] else [])
           (seq 1 width).

(* getCells: nsat rows of nsig bools, from the low nsat*nsig bits of the mask, MSB first *)
Definition cell_rows (mask : N) (nsat nsig : nat) : list (list bool) :=
  map (fun i => map (fun j => N.testbit mask (N.of_nat (nsat * nsig - 1 - (i * nsig + j)))) (seq 0 nsig))
      (seq 0 nsat).

Definition count_true (rows : list (list bool)) : nat :=
  length (filter (fun b => b) (concat rows)).

Definition is_msm_type (t : N) : bool := msmb (Z.of_N t).

(* GetMSMHeader: the header and the bit position after it *)
Definition get_msm_header (b : list N) : res (header * nat) :=
  let lenMessageInBits := ((Z.of_nat (length b) - Z.of_N LeaderLengthBytes - Z.of_N CRCLengthBytes) * 8)%Z in
  if (lenMessageInBits <? Z.of_N hdr_minBitsInHeader)%Z then Err ErrTooShort
  else if (lenMessageInBits <? Z.of_N hdr_LenMessageType)%Z then Err ErrTooShort
  else
    let p0 := nn LeaderLengthBits in
    ty <- getu b p0 (nn hdr_LenMessageType) ;;
    if negb (is_msm_type ty) then Err ErrNotMSM
    else
      let p1 := (p0 + nn hdr_LenMessageType)%nat in
      station <- getu b p1 (nn hdr_LenStationID) ;;
      let p2 := (p1 + nn hdr_LenStationID)%nat in
      ts <- getu b p2 (nn hdr_LenTimeStamp) ;;
      let p3 := (p2 + nn hdr_LenTimeStamp)%nat in
      mm <- getu b p3 (nn hdr_lenMultipleMessageFlag) ;;
      let p4 := (p3 + nn hdr_lenMultipleMessageFlag)%nat in
      iods <- getu b p4 (nn hdr_lenIssueOfDataStation) ;;
      let p5 := (p4 + nn hdr_lenIssueOfDataStation)%nat in
      sess <- getu b p5 (nn hdr_lenSessionTransmissionTime) ;;
      let p6 := (p5 + nn hdr_lenSessionTransmissionTime)%nat in
      clk <- getu b p6 (nn hdr_lenClockSteeringIndicator) ;;
      let p7 := (p6 + nn hdr_lenClockSteeringIndicator)%nat in
      ext <- getu b p7 (nn hdr_lenExternalClockSteeringIndicator) ;;
      let p8 := (p7 + nn hdr_lenExternalClockSteeringIndicator)%nat in
      gi <- getu b p8 (nn hdr_lenGNSSDivergenceFreeSmoothingIndicator) ;;
      let p9 := (p8 + nn hdr_lenGNSSDivergenceFreeSmoothingIndicator)%nat in
      smint <- getu b p9 (nn hdr_lenGNSSSmoothingInterval) ;;
      let p10 := (p9 + nn hdr_lenGNSSSmoothingInterval)%nat in
      satmask <- getu b p10 (nn hdr_lenSatelliteMask) ;;
      let p11 := (p10 + nn hdr_lenSatelliteMask)%nat in
      let sats := mask_ids (nn hdr_lenSatelliteMask) satmask in
      sigmask <- getu b p11 (nn hdr_lenSignalMask) ;;
      let p12 := (p11 + nn hdr_lenSignalMask)%nat in
      let sigs := mask_ids (nn hdr_lenSignalMask) sigmask in
      let cellbits := (length sats * length sigs)%nat in
      if (nn hdr_maxLengthOfCellMask <? cellbits)%nat then Err ErrCellMask
      else
        let required := (nn LeaderLengthBits + nn CRCLengthBits + nn hdr_minBitsInHeader + cellbits)%nat in
        if (8 * length b <? required)%nat then Err ErrTooShort
        else
          cellmask <- getu b p12 cellbits ;;
          let rows := cell_rows cellmask (length sats) (length sigs) in
          Ok ({| h_type := ty; h_station := station; h_ts := ts; h_multi := (mm =? 1); h_iods := iods;
                 h_sess := sess; h_clk := clk; h_extclk := ext; h_smooth := (gi =? 1); h_smint := smint;
                 h_satmask := satmask; h_sigmask := sigmask; h_cellmask := cellmask;
                 h_sats := sats; h_sigs := sigs; h_cells := rows; h_ncells := count_true rows |},
              (p12 + cellbits)%nat).

(* ---------- reading n consecutive fields of the same width ---------- *)

Fixpoint read_us (b : list N) (pos width n : nat) : res (list N) :=
  match n with
  | O => Ok []
  | S k => v <- getu b pos width ;; r <- read_us b (pos + width) width k ;; Ok (v :: r)
  end.

Fixpoint read_ss (b : list N) (pos width n : nat) : res (list Z) :=
  match n with
  | O => Ok []
  | S k => v <- gets b pos width ;; r <- read_ss b (pos + width) width k ;; Ok (v :: r)
  end.

(* ---------- satellite cells ---------- *)

Record satcell := mkSat { s_id : N; s_whole : N; s_ext : N; s_frac : N; s_rate : Z }.

Definition get_sat_cells4 (b : list N) (start : nat) (sats : list N) : res (list satcell) :=
  let n := length sats in
  let bitsLeftInMessage := (Z.of_nat (8 * length b) - Z.of_nat start - Z.of_N CRCLengthBits)%Z in
  let needed := Z.of_nat (n * (nn sat4_lenWholeMillis + nn sat4_lenFractionalMillis)) in
  if (bitsLeftInMessage <? needed)%Z then Err ErrOverrun
  else
    whole <- read_us b start (nn sat4_lenWholeMillis) n ;;
    frac <- read_us b (start + n * nn sat4_lenWholeMillis) (nn sat4_lenFractionalMillis) n ;;
    Ok (map (fun t => {| s_id := fst (fst t); s_whole := snd (fst t); s_ext := 0; s_frac := snd t; s_rate := 0%Z |})
            (combine (combine sats whole) frac)).

Definition get_sat_cells7 (b : list N) (start : nat) (sats : list N) : res (list satcell) :=
  let n := length sats in
  let bitsLeft := (Z.of_nat (8 * length b) - Z.of_nat start)%Z in
  if (bitsLeft <? Z.of_nat (n * nn sat7_CellLengthInBits))%Z then Err ErrOverrun
  else
    let p1 := (start + n * nn sat7_lenWholeMillis)%nat in
    let p2 := (p1 + n * nn sat7_lenExtendedInfo)%nat in
    let p3 := (p2 + n * nn sat7_lenFractionalMillis)%nat in
    whole <- read_us b start (nn sat7_lenWholeMillis) n ;;
    ext <- read_us b p1 (nn sat7_lenExtendedInfo) n ;;
    frac <- read_us b p2 (nn sat7_lenFractionalMillis) n ;;
    rate <- read_ss b p3 (nn sat7_lenPhaseRangeRate) n ;;
    Ok (map (fun t => match t with (((id, w), e), (f, r)) =>
               {| s_id := id; s_whole := w; s_ext := e; s_frac := f; s_rate := r |} end)
            (combine (combine (combine sats whole) ext) (combine frac rate))).

(* ---------- utils.GetNumberOfSignalCells ---------- *)

Fixpoint strip_trailing_zeros (cells : list N) : list N :=
  match cells with
  | [] => []
  | c :: rest =>
    match strip_trailing_zeros rest with
    | [] => if c =? 0 then [] else [c]
    | r => c :: r
    end
  end.

Definition num_signal_cells (b : list N) (start bpc : nat) : res nat :=
  let bitsLeft := (Z.of_nat (8 * length b) - Z.of_nat start)%Z in
  let cellsLeft := Z.to_nat (Z.quot bitsLeft (Z.of_nat bpc)) in
  cells <- read_us b start bpc cellsLeft ;;
  Ok (length (strip_trailing_zeros cells)).

(* ---------- signal cells ---------- *)

Record sigcell := mkSig {
  g_sat : N; g_id : N; g_rd : Z; g_prd : Z; g_lock : N; g_half : bool; g_cnr : N; g_rrd : Z;
}.

(* the attachment loop: walk the cell mask row by row, consuming the captured fields in order *)
Fixpoint attach_row (satid : N) (sigs : list N) (row : list bool) (fields : list (Z * Z * N * bool * N * Z))
  : list sigcell * list (Z * Z * N * bool * N * Z) :=
  match row, sigs with
  | c :: row', sid :: sigs' =>
    match fields with
    | [] => ([], [])                           (* c >= numSignalCells: nothing more is attached *)
    | f :: fields' =>
      if c then
        let '(rd, prd, lock, half, cnr, rrd) := f in
        let '(cs, rest) := attach_row satid sigs' row' fields' in
        ({| g_sat := satid; g_id := sid; g_rd := rd; g_prd := prd; g_lock := lock; g_half := half;
            g_cnr := cnr; g_rrd := rrd |} :: cs, rest)
      else attach_row satid sigs' row' fields
    end
  | _, _ => ([], fields)
  end.

Fixpoint attach (satids sigs : list N) (rows : list (list bool)) (fields : list (Z * Z * N * bool * N * Z))
  : list (list sigcell) :=
  match rows, satids with
  | row :: rows', sat :: satids' =>
    let '(cs, rest) := attach_row sat sigs row fields in
    cs :: attach satids' sigs rows' rest
  | _, _ => []
  end.

Fixpoint zip6 (a : list Z) (b : list Z) (c : list N) (d : list N) (e : list N) (f : list Z)
  : list (Z * Z * N * bool * N * Z) :=
  match a, b, c, d, e, f with
  | a1 :: a', b1 :: b', c1 :: c', d1 :: d', e1 :: e', f1 :: f' =>
    (a1, b1, c1, (d1 =? 1), e1, f1) :: zip6 a' b' c' d' e' f'
  | _, _, _, _, _, _ => []
  end.

(* the number of signal cells: the count in the header when the message can hold that many
   cells, otherwise what the trailing bits suggest *)
Definition signal_cell_count (b : list N) (start bpc : nat) (hd : header) : res nat :=
  let bitsLeftInMessage := (Z.of_nat (8 * length b) - Z.of_nat start - Z.of_N CRCLengthBits)%Z in
  if (Z.of_nat (h_ncells hd * bpc) <=? bitsLeftInMessage)%Z then Ok (h_ncells hd)
  else num_signal_cells b start bpc.
  (* Go always calls GetNumberOfSignalCells first; the call has no side effect and cannot
     panic (MsmProofs.num_signal_cells_total), so the model evaluates it only when needed. *)

Definition get_sig_cells4 (b : list N) (start : nat) (hd : header) (sats : list satcell) : res (list (list sigcell)) :=
  let bpc := nn sig4_bitsPerCell in
  let bitsLeftInFrame := (8 * length b - start)%nat in
  let bitsLeftInMessage := (Z.of_nat bitsLeftInFrame - Z.of_N CRCLengthBits)%Z in
  n <- signal_cell_count b start bpc hd ;;
  if (if h_multi hd then (bitsLeftInMessage <? Z.of_nat bpc)%Z else (n <? h_ncells hd)%nat) then Err ErrOverrun
  else
    let p1 := (start + n * nn sig4_lenRangeDelta)%nat in
    let p2 := (p1 + n * nn sig4_lenPhaseRangeDelta)%nat in
    let p3 := (p2 + n * nn sig4_lenLockTimeIndicator)%nat in
    let p4 := (p3 + n * nn sig4_lenHalfCycleAmbiguity)%nat in
    rd <- read_ss b start (nn sig4_lenRangeDelta) n ;;
    prd <- read_ss b p1 (nn sig4_lenPhaseRangeDelta) n ;;
    lock <- read_us b p2 (nn sig4_lenLockTimeIndicator) n ;;
    half <- read_us b p3 (nn sig4_lenHalfCycleAmbiguity) n ;;
    cnr <- read_us b p4 (nn sig4_lenCNR) n ;;
    Ok (attach (map s_id sats) (h_sigs hd) (h_cells hd) (zip6 rd prd lock half cnr (map (fun _ => 0%Z) rd))).

Definition get_sig_cells7 (b : list N) (start : nat) (hd : header) (sats : list satcell) : res (list (list sigcell)) :=
  let bpc := nn sig7_bitsPerCell in
  let bitsLeft := (8 * length b - start)%nat in
  n <- signal_cell_count b start bpc hd ;;
  if (if h_multi hd then (bitsLeft <? bpc)%nat else (n <? h_ncells hd)%nat) then Err ErrOverrun
  else
    let p1 := (start + n * nn sig7_lenRangeDelta)%nat in
    let p2 := (p1 + n * nn sig7_lenPhaseRangeDelta)%nat in
    let p3 := (p2 + n * nn sig7_lenLockTimeIndicator)%nat in
    let p4 := (p3 + n * nn sig7_lenHalfCycleAmbiguity)%nat in
    let p5 := (p4 + n * nn sig7_lenCNR)%nat in
    rd <- read_ss b start (nn sig7_lenRangeDelta) n ;;
    prd <- read_ss b p1 (nn sig7_lenPhaseRangeDelta) n ;;
    lock <- read_us b p2 (nn sig7_lenLockTimeIndicator) n ;;
    half <- read_us b p3 (nn sig7_lenHalfCycleAmbiguity) n ;;
    cnr <- read_us b p4 (nn sig7_lenCNR) n ;;
    rrd <- read_ss b p5 (nn sig7_lenPhaseRangeRateDelta) n ;;
    Ok (attach (map s_id sats) (h_sigs hd) (h_cells hd) (zip6 rd prd lock half cnr rrd)).

(* ---------- message.GetMessage ---------- *)

Record msm := mkMsm { m_hdr : header; m_sats : list satcell; m_sigs : list (list sigcell) }.

Definition decode_msm4 (b : list N) : res msm :=
  r <- get_msm_header b ;;
  let '(hd, pos) := r in
  if negb (msm4b (Z.of_N (h_type hd))) then Err ErrNotMSM
  else
    sats <- get_sat_cells4 b pos (h_sats hd) ;;
    let pos' := (pos + length sats * nn sat4_CellLengthInBits)%nat in
    sigs <- get_sig_cells4 b pos' hd sats ;;
    Ok {| m_hdr := hd; m_sats := sats; m_sigs := sigs |}.

Definition decode_msm7 (b : list N) : res msm :=
  r <- get_msm_header b ;;
  let '(hd, pos) := r in
  if negb (msm7b (Z.of_N (h_type hd))) then Err ErrNotMSM
  else
    sats <- get_sat_cells7 b pos (h_sats hd) ;;
    let pos' := (pos + length sats * nn sat7_CellLengthInBits)%nat in
    sigs <- get_sig_cells7 b pos' hd sats ;;
    Ok {| m_hdr := hd; m_sats := sats; m_sigs := sigs |}.

(* CrcProofs.v - the table-driven uint32 Hash of go-crc24q computes the CRC-24Q of
   the bit-serial LFSR specification, for every byte string. *)
From NTRIP Require Import Base Bits BitsProofs Crc.
From Coq Require Import ZifyN ZifyNat ZifyBool.
Open Scope N_scope.

Lemma testbit_small x n : x < 2 ^ n -> N.testbit x n = false.
Proof.
  intros H. destruct (N.eq_dec x 0) as [->|Hnz]; [apply N.bits_0|].
  apply N.bits_above_log2. apply N.log2_lt_pow2; lia.
Qed.

Lemma double_shiftl a : 2 * a = N.shiftl a 1.
Proof. rewrite N.shiftl_mul_pow2. change (2 ^ 1) with 2. lia. Qed.

Lemma double_lxor a b : 2 * N.lxor a b = N.lxor (2 * a) (2 * b).
Proof. rewrite !double_shiftl. apply N.shiftl_lxor. Qed.

(* the register clock is linear over GF(2) *)
Lemma shift_linear a b : lfsr_shift (N.lxor a b) = N.lxor (lfsr_shift a) (lfsr_shift b).
Proof.
  unfold lfsr_shift. rewrite double_lxor, N.lxor_spec.
  set (x := 2 * a). set (y := 2 * b). set (P := crc_poly).
  destruct (N.testbit x 24), (N.testbit y 24); cbn [xorb].
  - rewrite (N.lxor_comm y P), N.lxor_assoc, <- (N.lxor_assoc P P y), N.lxor_nilpotent, N.lxor_0_l. reflexivity.
  - rewrite !N.lxor_assoc. f_equal. apply N.lxor_comm.
  - rewrite !N.lxor_assoc. reflexivity.
  - reflexivity.
Qed.

Lemma shift_0 : lfsr_shift 0 = 0.
Proof. reflexivity. Qed.

Lemma iter_linear k : forall a b,
  iter k lfsr_shift (N.lxor a b) = N.lxor (iter k lfsr_shift a) (iter k lfsr_shift b).
Proof.
  induction k as [|k IH]; intros a b; cbn [iter]; [reflexivity|].
  rewrite shift_linear. apply IH.
Qed.

Lemma iter_0 k : iter k lfsr_shift 0 = 0.
Proof. induction k as [|k IH]; cbn [iter]; [reflexivity|]. rewrite shift_0. exact IH. Qed.

Lemma iter_small k : forall x, x * 2 ^ N.of_nat k < 2 ^ 24 -> iter k lfsr_shift x = x * 2 ^ N.of_nat k.
Proof.
  induction k as [|k IH]; intros x H; cbn [iter].
  - change (2 ^ N.of_nat 0) with 1. lia.
  - rewrite Nat2N.inj_succ, N.pow_succ_r' in *.
    assert (Hs : lfsr_shift x = 2 * x).
    { unfold lfsr_shift. rewrite testbit_small; [reflexivity|].
      assert (2 ^ N.of_nat k <> 0) by (apply N.pow_nonzero; lia).
      change (2 ^ 24) with 16777216 in *. nia. }
    rewrite Hs, IH by lia. lia.
Qed.

Lemma shift_bound x : x < 2 ^ 24 -> lfsr_shift x < 2 ^ 24.
Proof.
  intros H. unfold lfsr_shift.
  destruct (N.testbit (2 * x) 24) eqn:E.
  - (* 2x in [2^24, 2^25): xor with the polynomial clears bit 24 and keeps the rest below 2^24 *)
    assert (Hlo : 2 ^ 24 <= 2 * x).
    { destruct (N.lt_ge_cases (2 * x) (2 ^ 24)) as [C|C]; [|exact C].
      rewrite testbit_small in E by exact C. discriminate. }
    destruct (N.lt_ge_cases (N.lxor (2 * x) crc_poly) (2 ^ 24)) as [C|C]; [exact C|exfalso].
    assert (Hb : N.lxor (2 * x) crc_poly < 2 ^ 25).
    { destruct (N.eq_dec (N.lxor (2 * x) crc_poly) 0) as [->|Hnz]; [reflexivity|].
      apply N.log2_lt_pow2; [lia|].
      eapply N.le_lt_trans; [apply N.log2_lxor|].
      apply N.max_lub_lt.
      - apply N.log2_lt_pow2; [lia|]. change (2 ^ 25) with (2 * 2 ^ 24). lia.
      - reflexivity. }
    assert (Ht : N.testbit (N.lxor (2 * x) crc_poly) 24 = true).
    { apply testbit_top; [exact C|exact Hb]. }
    rewrite N.lxor_spec, E in Ht. discriminate Ht.
  - destruct (N.lt_ge_cases (2 * x) (2 ^ 24)) as [C|C]; [exact C|exfalso].
    assert (Ht : N.testbit (2 * x) 24 = true).
    { apply testbit_top; [exact C|]. change (2 ^ (24 + 1)) with (2 * 2 ^ 24). lia. }
    congruence.
Qed.

Lemma iter_bound k : forall x, x < 2 ^ 24 -> iter k lfsr_shift x < 2 ^ 24.
Proof. induction k as [|k IH]; intros x H; cbn [iter]; [exact H|]. apply IH, shift_bound, H. Qed.

(* feeding bits is affine in the starting state *)
Lemma fold_bits_linear bs : forall s,
  fold_left lfsr_bit bs s = N.lxor (iter (length bs) lfsr_shift s) (fold_left lfsr_bit bs 0).
Proof.
  induction bs as [|b bs IH]; intros s; cbn [fold_left length iter].
  - rewrite N.lxor_0_r. reflexivity.
  - rewrite (IH (lfsr_bit s b)), (IH (lfsr_bit 0 b)).
    unfold lfsr_bit. rewrite N.lxor_0_l, shift_linear, iter_linear, N.lxor_assoc. reflexivity.
Qed.

Definition tab (i : N) : N := iter 8 lfsr_shift (i * 65536).

Lemma table_nth i : i < 256 -> nth (N.to_nat i) crc_table 0 = tab i.
Proof.
  intros H.
  assert (E : crc_table = map (fun k => tab (N.of_nat k)) (seq 0 256)) by (vm_compute; reflexivity).
  rewrite E.
  rewrite (nth_indep _ 0 ((fun k => tab (N.of_nat k)) 0%nat)) by (rewrite map_length, seq_length; lia).
  rewrite (map_nth (fun k => tab (N.of_nat k)) (seq 0 256) 0%nat (N.to_nat i)).
  rewrite seq_nth by lia. rewrite Nat.add_0_l, N2Nat.id. reflexivity.
Qed.

Lemma byte_from_zero :
  forallb (fun k => fold_left lfsr_bit (byte_bits (N.of_nat k)) 0 =? tab (N.of_nat k)) (seq 0 256) = true.
Proof. vm_compute. reflexivity. Qed.

Lemma byte_from_zero' b : b < 256 -> fold_left lfsr_bit (byte_bits b) 0 = tab b.
Proof.
  intros H. pose proof byte_from_zero as A. rewrite forallb_forall in A.
  specialize (A (N.to_nat b)). rewrite N2Nat.id in A. apply N.eqb_eq, A, in_seq. lia.
Qed.

Lemma tab_bound_all : forallb (fun k => tab (N.of_nat k) <? 16777216) (seq 0 256) = true.
Proof. vm_compute. reflexivity. Qed.

Lemma tab_bound i : i < 256 -> tab i < 2 ^ 24.
Proof.
  intros H. pose proof tab_bound_all as A. rewrite forallb_forall in A.
  specialize (A (N.to_nat i)). rewrite N2Nat.id in A. apply N.ltb_lt, A, in_seq. lia.
Qed.

Lemma tab_linear a b : tab (N.lxor a b) = N.lxor (tab a) (tab b).
Proof.
  unfold tab. rewrite <- iter_linear. f_equal.
  change 65536 with (2 ^ 16). rewrite <- !N.shiftl_mul_pow2. apply N.shiftl_lxor.
Qed.

Lemma land_lxor_distr a b c : N.land (N.lxor a b) c = N.lxor (N.land a c) (N.land b c).
Proof.
  apply N.bits_inj. intros i. rewrite !N.lxor_spec, !N.land_spec, N.lxor_spec.
  destruct (N.testbit a i), (N.testbit b i), (N.testbit c i); reflexivity.
Qed.

Lemma lxor_mod_pow2 a b k : (N.lxor a b) mod 2 ^ k = N.lxor (a mod 2 ^ k) (b mod 2 ^ k).
Proof. rewrite <- !N.land_ones. apply land_lxor_distr. Qed.

Lemma split_hi_lo s : s = N.lxor ((s / 65536) * 65536) (s mod 65536).
Proof.
  rewrite <- N.add_nocarry_lxor.
  - rewrite N.mul_comm. apply N.div_mod. discriminate.
  - apply N.bits_inj. intros i. rewrite N.land_spec, N.bits_0.
    change 65536 with (2 ^ 16).
    destruct (N.lt_ge_cases i 16) as [Hi|Hi].
    + rewrite N.mul_pow2_bits_low by exact Hi. reflexivity.
    + rewrite N.mod_pow2_bits_high by exact Hi. apply andb_false_r.
Qed.

Lemma lxor_lt_256 a b : a < 256 -> b < 256 -> N.lxor a b < 256.
Proof.
  intros Ha Hb. destruct (N.eq_dec (N.lxor a b) 0) as [->|Hnz]; [reflexivity|].
  change 256 with (2 ^ 8). apply N.log2_lt_pow2; [lia|].
  eapply N.le_lt_trans; [apply N.log2_lxor|].
  apply N.max_lub_lt.
  - destruct (N.eq_dec a 0) as [->|]; [reflexivity|]. apply N.log2_lt_pow2; [lia|exact Ha].
  - destruct (N.eq_dec b 0) as [->|]; [reflexivity|]. apply N.log2_lt_pow2; [lia|exact Hb].
Qed.

(* one byte of the table algorithm = eight clocks of the specification *)
Lemma hash_step_spec crc b : b < 256 ->
  (hash_step crc b) mod 2 ^ 24 = fold_left lfsr_bit (byte_bits b) (crc mod 2 ^ 24).
Proof.
  intros Hb. unfold hash_step.
  set (s := crc mod 2 ^ 24).
  assert (Hs : s < 2 ^ 24) by (apply N.mod_lt; discriminate).
  assert (Hhi : N.land (N.shiftr crc 16) 255 = s / 65536).
  { change 255 with (N.ones 8). rewrite N.land_ones, N.shiftr_div_pow2. unfold s.
    change (2 ^ 16) with 65536. change (2 ^ 8) with 256. change (2 ^ 24) with 16777216.
    Z.div_mod_to_equations. lia. }
  rewrite Hhi.
  assert (Hh : s / 65536 < 256).
  { change (2 ^ 24) with 16777216 in Hs. Z.div_mod_to_equations. lia. }
  rewrite table_nth by (apply lxor_lt_256; assumption).
  rewrite lxor_mod_pow2.
  rewrite (N.mod_small (tab _)) by (apply tab_bound, lxor_lt_256; assumption).
  change (two32 - 1) with (N.ones 32). rewrite N.land_ones, N.shiftl_mul_pow2.
  assert (Hl : (crc * 2 ^ 8 mod 2 ^ 32) mod 2 ^ 24 = (s mod 65536) * 256).
  { unfold s. change (2 ^ 8) with 256. change (2 ^ 32) with 4294967296. change (2 ^ 24) with 16777216.
    Z.div_mod_to_equations. lia. }
  rewrite Hl.
  (* right-hand side *)
  rewrite fold_bits_linear, byte_bits_length, (byte_from_zero' b Hb).
  rewrite (split_hi_lo s) at 3. rewrite iter_linear.
  fold (tab (s / 65536)).
  rewrite (iter_small 8 (s mod 65536)).
  2:{ change (2 ^ N.of_nat 8) with 256. change (2 ^ 24) with 16777216. Z.div_mod_to_equations. lia. }
  change (2 ^ N.of_nat 8) with 256.
  rewrite tab_linear.
  set (L := s mod 65536 * 256). set (X := tab b). set (Y := tab (s / 65536)).
  rewrite (N.lxor_comm Y L), !N.lxor_assoc. f_equal. apply N.lxor_comm.
Qed.

Lemma fold_hash_spec data : bytes_ok data -> forall crc,
  (fold_left hash_step data crc) mod 2 ^ 24 = fold_left lfsr_bit (bits_of data) (crc mod 2 ^ 24).
Proof.
  induction 1 as [|b data Hb Hd IH]; intros crc; cbn [fold_left].
  - reflexivity.
  - rewrite bits_of_cons, fold_left_app, IH. f_equal. apply hash_step_spec, Hb.
Qed.

(* Hash = the CRC-24Q of the specification, for every byte string *)
Theorem crc24q_hash_spec data : bytes_ok data -> crc24q_hash data = crc24q_spec data.
Proof.
  intros H. unfold crc24q_hash, crc24q_spec, crc24q_bits.
  change (two24 - 1) with (N.ones 24). rewrite N.land_ones.
  rewrite (fold_hash_spec data H 0). reflexivity.
Qed.

Lemma crc24q_spec_bound data : crc24q_spec data < 2 ^ 24.
Proof.
  unfold crc24q_spec, crc24q_bits. generalize (bits_of data) as bs.
  assert (G : forall bs s, s < 2 ^ 24 -> fold_left lfsr_bit bs s < 2 ^ 24).
  { induction bs as [|b bs IH]; intros s Hs; cbn [fold_left]; [exact Hs|].
    apply IH. unfold lfsr_bit. apply shift_bound.
    destruct b; [|rewrite N.lxor_0_r; exact Hs].
    destruct (N.eq_dec (N.lxor s 8388608) 0) as [->|Hnz]; [reflexivity|].
    apply N.log2_lt_pow2; [lia|]. eapply N.le_lt_trans; [apply N.log2_lxor|].
    apply N.max_lub_lt; [|reflexivity].
    destruct (N.eq_dec s 0) as [->|]; [reflexivity|]. apply N.log2_lt_pow2; [lia|exact Hs]. }
  intros bs. apply G. reflexivity.
Qed.

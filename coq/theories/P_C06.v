(* P_C06.v - the theorems of property C06 and nothing else: each is closed by [exact <lemma>]
   (or a one-line instantiation) and followed by Print Assumptions.  One file per property, importing only
   what that property's statements need, so that a change which breaks one property's proof leaves the
   others' theorems checkable. *)
From NTRIP Require Import Base Bits Time Classify Frame FrameSpec FrameProofs TimeSpec History TimeProofs SegProofs StreamTime.
From NTRIPGen Require Import GenConsts.

(* ===================== C17 and C06 ===================== *)
(* C17: a handler created with any start time T in the constellation week of the first
   observation - earlier or later than the data - and fed, through the public single-frame
   path, CRC-valid MSM4/MSM7 frames of GPS, Galileo, GLONASS and BeiDou in any interleaving,
   where per constellation the true observation instants are whole milliseconds, never
   decrease and are less than six days apart, reports for every frame the true UTC instant
   and the true start of the constellation week, across any number of rollovers; a frame
   with an illegal timestamp is reported as an error and changes nothing. *)
Theorem C17_any_start : forall T evs, admissibleb false T evs = true ->
  exists rs h', run_history (new_handler T) evs = Ok (rs, h') /\
                Forall2 (fun e r => report_ok e r = true) evs rs.
Proof.
  intros T evs H. exact (history_true_times false T evs (fun _ => None) (new_handler T) (inv_new T) H).
Qed.
Print Assumptions C17_any_start.

(* C06: the same under the stronger precondition that the first observation of each
   constellation is not earlier than T. *)
Theorem C06_true_time : forall T evs, admissibleb true T evs = true ->
  exists rs h', run_history (new_handler T) evs = Ok (rs, h') /\
                Forall2 (fun e r => report_ok e r = true) evs rs.
Proof.
  intros T evs H. apply C17_any_start. apply admissible_weaken. exact H.
Qed.
Print Assumptions C06_true_time.

(* The same through the stream handler (HandleMessages): the concatenation of the frames of an
   admissible history is cut into exactly those frames and every delivered message carries the
   true UTC time and start of week. *)
Theorem C06_stream : forall T evs, admissibleb true T evs = true ->
  exists ms h', handle_stream (new_handler T) (concat (map event_frame evs)) = Ok (ms, h') /\
                Forall2 (fun e m => report_ok e (msent m, msow m) = true) evs ms /\
                map raw ms = map event_frame evs.
Proof. exact (stream_true_times true). Qed.
Print Assumptions C06_stream.

(* Non-vacuity: a four-constellation history across rollovers, started late in the week
   (Wed 2023-05-10 12:00 UTC), first GPS observation 23 ms into the week, an illegal timestamp
   in between.  It is admissible for C17 (not for C06: the first observation precedes T). *)
Example C17_example :
  let T := 1683720000000000000%Z in
  let evs := [Obs GPS true 1683417582023000000; Obs Glonass false 1683500000000000000;
              Bad GPS false 604800000; Obs GPS true 1683800000000000000; Obs Galileo true 1683900000000000000;
              Obs GPS false 1684022382000000000; Obs Glonass true 1684011600000000000;
              Obs Beidou true 1683720000000000000; Obs Beidou false 1684022396001000000] in
  admissibleb false T evs = true /\ admissibleb true T evs = false /\
  (exists rs h', run_history (new_handler T) evs = Ok (rs, h') /\
     nth 5 rs (None, None) = (Some (Ok 1684022382000000000%Z), Some 1684022382000000000%Z)).
Proof.
  cbv zeta. split; [vm_compute; reflexivity|]. split; [vm_compute; reflexivity|].
  eexists. eexists. split; vm_compute; reflexivity.
Qed.


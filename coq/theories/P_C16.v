(* P_C16.v - the theorems of property C16 and nothing else: each is closed by [exact <lemma>]
   (or a one-line instantiation) and followed by Print Assumptions.  One file per property, importing only
   what that property's statements need, so that a change which breaks one property's proof leaves the
   others' theorems checkable. *)
From NTRIP Require Import Base Net ProdCons NetSafety ProdConsSafe.
From NTRIPGen Require Import GenConsts.

(* ===================== C16 ===================== *)
(* rtcmlogger: the copy loop writes each block to stdout itself (pass-through), hands a copy to
   the recorder goroutine, and at end of input closes the channel and waits for the recorder.
   In every reachable configuration in which the program has ended (main has returned), stdout
   and the record both hold exactly the input blocks, complete and in order. *)
Theorem C16_logger : forall (V : Type) lat (sync0 : bool) cap (blocks : list V) c, (1 <= cap)%nat ->
  reachable _ _ _ (prog V lat true waits_rtcmlogger sync0) sender receiver (MDone V) (init V cap blocks) c ->
  returned V (main_out V c) = true ->
  passes V (main_out V c) = blocks /\ writes V (writer_out V c) = blocks.
Proof.
  intros V lat sync0 cap blocks c Hc Hr Hret.
  destruct (flushed_at_return V lat true waits_rtcmlogger sync0 cap blocks c eq_refl Hc Hr Hret) as [A B].
  split; [apply B; reflexivity|exact A].
Qed.
Print Assumptions C16_logger.

Theorem C16_no_deadlock : forall (V : Type) lat (sync0 : bool) cap (blocks : list V) c, (1 <= cap)%nat ->
  reachable _ _ _ (prog V lat true true sync0) sender receiver (MDone V) (init V cap blocks) c ->
  final_config _ _ _ (prog V lat true true sync0) sender receiver (MDone V) c ->
  nth 0%nat (procs c) (MDone V) = MDone V /\ nth 1%nat (procs c) (MDone V) = WHalt V.
Proof. intros V lat sync0 cap blocks c Hc. exact (no_deadlock V lat true true sync0 cap blocks c eq_refl Hc). Qed.
Print Assumptions C16_no_deadlock.

Example C16_example :
  exists c, run (st nat) nat (ev nat) (prog nat 1%nat true true false) sender receiver (MDone nat) (init nat 1%nat [4; 5]%nat)
              [0; 0; 1; 0; 1; 1; 0; 1; 1; 1; 0; 1; 1; 0; 0]%nat = Some c /\
            returned nat (main_out nat c) = true /\ passes nat (main_out nat c) = [4; 5]%nat /\ writes nat (writer_out nat c) = [4; 5]%nat.
Proof. eexists. split; [vm_compute; reflexivity|]. repeat split. Qed.


(* In bytes: whatever blocks the reads cut the input into, the bytes passed through and the bytes
   recorded are the input. *)
Theorem C16_bytes : forall (B : Type) lat (sync0 : bool) cap (blocks : list (list B)) c, (1 <= cap)%nat ->
  reachable _ _ _ (prog (list B) lat true waits_rtcmlogger sync0) sender receiver (MDone (list B)) (init (list B) cap blocks) c ->
  returned (list B) (main_out (list B) c) = true ->
  concat (passes (list B) (main_out (list B) c)) = concat blocks /\
  concat (writes (list B) (writer_out (list B) c)) = concat blocks.
Proof.
  intros B lat sync0 cap blocks c Hc Hr Hret.
  destruct (C16_logger (list B) lat sync0 cap blocks c Hc Hr Hret) as [A1 A2]. rewrite A1, A2. split; reflexivity.
Qed.
Print Assumptions C16_bytes.

(* Not only at the end: at every moment of every execution - whatever the interleaving of the copy loop and the
   recorder, the channel's capacity and kind, the recorder's latency, and whether or not main waits at the end -
   standard output holds a prefix of the input and the record holds a prefix of standard output: nothing is ever
   altered, reordered or recorded before it has been passed through. *)
Theorem C16_prefixes_always : forall (V : Type) lat (wait sync0 : bool) cap (blocks : list V) c, (1 <= cap)%nat ->
  reachable _ _ _ (prog V lat true wait sync0) sender receiver (MDone V) (init V cap blocks) c ->
  exists ahead rest, passes V (main_out V c) = (writes V (writer_out V c) ++ ahead)%list /\
                     blocks = (passes V (main_out V c) ++ rest)%list.
Proof. exact prefixes_always. Qed.
Print Assumptions C16_prefixes_always.

(* ... and the record is never more than capacity + 2 blocks behind standard output (one block in the recorder's
   hands, the channel's content - never above its capacity -, one block just passed through): recording can hold
   the pass-through back only by back-pressure through that bounded channel, and the copy loop cannot run away
   from the recorder. *)
Theorem C16_prefixes_bounded : forall (V : Type) lat (wait sync0 : bool) cap (blocks : list V) c, (1 <= cap)%nat ->
  reachable _ _ _ (prog V lat true wait sync0) sender receiver (MDone V) (init V cap blocks) c ->
  exists ahead rest, passes V (main_out V c) = (writes V (writer_out V c) ++ ahead)%list /\
                     blocks = (passes V (main_out V c) ++ rest)%list /\ (length ahead <= cap + 2)%nat.
Proof. exact prefixes_bounded. Qed.
Print Assumptions C16_prefixes_bounded.

(* Station.v - model of type1005.GetMessage / type1006.GetMessage and the specification
   encoder of base-position messages. *)
From NTRIP Require Import Base Bits Crc FrameSpec Msm.
From NTRIPGen Require Import GenConsts.
Open Scope N_scope.

Record station := mkSt {
  st_type : N; st_id : N; st_itrf : N; st_ign1 : N;
  st_x : Z; st_ign2 : N; st_y : Z; st_ign3 : N; st_z : Z;
  st_height : N;      (* 1006 only; 0 for 1005 *)
}.

(* ---------- model ---------- *)

Definition decode1005 (b : list N) : res station :=
  let lenMessageInBits := (Z.of_nat (8 * length b) - Z.of_N LeaderLengthBits - Z.of_N CRCLengthBits)%Z in
  if (lenMessageInBits <? Z.of_N t1005_lengthOfMessageInBits)%Z then Err ErrOverrun
  else
    let p0 := nn LeaderLengthBits in
    ty <- getu b p0 (nn t1005_lenMessageType) ;;
    if negb (ty =? t1005_expectedMessageType) then Err ErrWrongType
    else
      let p1 := (p0 + nn t1005_lenMessageType)%nat in
      id <- getu b p1 (nn t1005_lenStationID) ;;
      let p2 := (p1 + nn t1005_lenStationID)%nat in
      itrf <- getu b p2 (nn t1005_lenITRFRealisationYear) ;;
      let p3 := (p2 + nn t1005_lenITRFRealisationYear)%nat in
      i1 <- getu b p3 (nn t1005_lenIgnoredBits1) ;;
      let p4 := (p3 + nn t1005_lenIgnoredBits1)%nat in
      x <- gets b p4 (nn t1005_lenAntennaRefX) ;;
      let p5 := (p4 + nn t1005_lenAntennaRefX)%nat in
      i2 <- getu b p5 (nn t1005_lenIgnoredBits2) ;;
      let p6 := (p5 + nn t1005_lenIgnoredBits2)%nat in
      y <- gets b p6 (nn t1005_lenAntennaRefY) ;;
      let p7 := (p6 + nn t1005_lenAntennaRefY)%nat in
      i3 <- getu b p7 (nn t1005_lenIgnoredBits3) ;;
      let p8 := (p7 + nn t1005_lenIgnoredBits3)%nat in
      z <- gets b p8 (nn t1005_lenAntennaRefZ) ;;
      Ok {| st_type := MessageType1005; st_id := id; st_itrf := itrf; st_ign1 := i1; st_x := x; st_ign2 := i2;
            st_y := y; st_ign3 := i3; st_z := z; st_height := 0 |}.

Definition decode1006 (b : list N) : res station :=
  let lenMessageInBits := (Z.of_nat (8 * length b) - Z.of_N LeaderLengthBits - Z.of_N CRCLengthBits)%Z in
  if (lenMessageInBits <? Z.of_N t1006_lengthOfMessageInBits)%Z then Err ErrOverrun
  else
    let p0 := nn LeaderLengthBits in
    ty <- getu b p0 (nn t1006_lenMessageType) ;;
    if negb (ty =? t1006_expectedMessageType) then Err ErrWrongType
    else
      let p1 := (p0 + nn t1006_lenMessageType)%nat in
      id <- getu b p1 (nn t1006_lenStationID) ;;
      let p2 := (p1 + nn t1006_lenStationID)%nat in
      itrf <- getu b p2 (nn t1006_lenITRFRealisationYear) ;;
      let p3 := (p2 + nn t1006_lenITRFRealisationYear)%nat in
      i1 <- getu b p3 (nn t1006_lenIgnoredBits1) ;;
      let p4 := (p3 + nn t1006_lenIgnoredBits1)%nat in
      x <- gets b p4 (nn t1006_lenAntennaRefX) ;;
      let p5 := (p4 + nn t1006_lenAntennaRefX)%nat in
      i2 <- getu b p5 (nn t1006_lenIgnoredBits2) ;;
      let p6 := (p5 + nn t1006_lenIgnoredBits2)%nat in
      y <- gets b p6 (nn t1006_lenAntennaRefY) ;;
      let p7 := (p6 + nn t1006_lenAntennaRefY)%nat in
      i3 <- getu b p7 (nn t1006_lenIgnoredBits3) ;;
      let p8 := (p7 + nn t1006_lenIgnoredBits3)%nat in
      z <- gets b p8 (nn t1006_lenAntennaRefZ) ;;
      let p9 := (p8 + nn t1006_lenAntennaRefZ)%nat in
      hgt <- getu b p9 (nn t1006_lenAntennaHeight) ;;
      Ok {| st_type := MessageType1006; st_id := id; st_itrf := itrf; st_ign1 := i1; st_x := x; st_ign2 := i2;
            st_y := y; st_ign3 := i3; st_z := z; st_height := hgt |}.

(* ---------- specification: the field layout of the standard ---------- *)

Definition station_bits (m : station) : list bool :=
  put_u 12 (st_type m) ++ put_u 12 (st_id m) ++ put_u 6 (st_itrf m) ++ put_u 4 (st_ign1 m) ++
  put_s 38 (st_x m) ++ put_u 2 (st_ign2 m) ++ put_s 38 (st_y m) ++ put_u 2 (st_ign3 m) ++ put_s 38 (st_z m) ++
  (if st_type m =? 1006 then put_u 16 (st_height m) else []).

(* the message followed by arbitrary extra payload bytes *)
Definition station_frame (m : station) (extra : list N) : list N :=
  frame_of_payload (bytes_of_bits (station_bits m) ++ extra).

Definition wf_station (m : station) : bool :=
  ((st_type m =? 1005) && (st_height m =? 0) || (st_type m =? 1006) && (st_height m <? 65536)) &&
  (st_id m <? 4096) && (st_itrf m <? 64) && (st_ign1 m <? 16) && (st_ign2 m <? 4) && (st_ign3 m <? 4) &&
  (- 2 ^ 37 <=? st_x m)%Z && (st_x m <? 2 ^ 37)%Z &&
  (- 2 ^ 37 <=? st_y m)%Z && (st_y m <? 2 ^ 37)%Z &&
  (- 2 ^ 37 <=? st_z m)%Z && (st_z m <? 2 ^ 37)%Z.

Definition decode_station (ty : N) (b : list N) : res station :=
  if ty =? 1006 then decode1006 b else decode1005 b.

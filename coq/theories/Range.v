(* Range.v - model of the range / phase range / range rate arithmetic:
   utils.getScaledValue (uint64/int64 wrap), the aggregate functions of the MSM4 and MSM7
   signal cells, and the binary64 pipelines RangeInMetres, PhaseRange, PhaseRangeRate,
   PhaseRangeRateDoppler, GetSignalWavelength (Coq primitive floats, one IEEE operation per
   Go operation; go/amd64 does not fuse multiply-add). *)
From Coq Require Import Floats.
From NTRIP Require Import Base Bits.
From NTRIPGen Require Import GenConsts.
Open Scope N_scope.

(* ---------- scaled integers ---------- *)

(* scaledApprox := uint64(v1)<<s1 | uint64(v2)<<s2 ; uint64(int64(scaledApprox) + int64(delta)) *)
Definition scaled_value (v1 s1 v2 s2 : N) (delta : Z) : N :=
  let approx := N.lor (N.shiftl v1 s1 mod two64) (N.shiftl v2 s2 mod two64) in
  Z.to_N ((to_int64 approx + delta) mod Z.of_N two64).

Definition scaled_range (w f : N) (delta : Z) : N := scaled_value w 29 f 19 delta.
Definition scaled_phase (w f : N) (delta : Z) : N := scaled_value w 31 f 21 delta.
Definition scaled_rate (rough fine : Z) : Z := wrap_int64 (wrap_int64 (rough * 10000) + fine).

(* GetAggregateRange / GetAggregatePhaseRange / GetAggregatePhaseRangeRate *)
Definition agg_range4 (w f : N) (d : Z) : N :=
  if w =? InvalidRange then 0
  else if (d =? InvalidRangeDelta4)%Z then scaled_range w f 0
  else scaled_range w f (d * 32).
Definition agg_range7 (w f : N) (d : Z) : N :=
  if w =? InvalidRange then 0
  else if (d =? sig7_InvalidRangeDelta)%Z then scaled_range w f 0
  else scaled_range w f d.
Definition agg_phase4 (w f : N) (p : Z) : N :=
  if w =? InvalidRange then 0
  else scaled_phase w f (if (p =? InvalidPhaseRangeDelta4)%Z then 0 else p * 4).
Definition agg_phase7 (w f : N) (p : Z) : N :=
  if w =? InvalidRange then 0
  else scaled_phase w f (if (p =? sig7_InvalidPhaseRangeDelta)%Z then 0 else p).
Definition agg_rate (rough fine : Z) : Z :=
  if (rough =? sig7_InvalidPhaseRangeRate)%Z then 0%Z
  else scaled_rate rough (if (fine =? sig7_InvalidPhaseRangeRateDelta)%Z then 0 else fine).

(* ---------- binary64 ---------- *)

(* float64(uint64): exact below 2^63; above, amd64 halves the value keeping a sticky low bit,
   converts, and doubles - which is the correctly rounded result *)
Definition f_of_N (x : N) : float :=
  if x <? two63 then PrimFloat.of_uint63 (Uint63.of_Z (Z.of_N x))
  else PrimFloat.mul (PrimFloat.of_uint63 (Uint63.of_Z (Z.of_N (N.lor (x / 2) (x mod 2))))) 2%float.
Definition f_of_Z (x : Z) : float :=
  if (x <? 0)%Z then PrimFloat.opp (PrimFloat.of_uint63 (Uint63.of_Z (- x))) else PrimFloat.of_uint63 (Uint63.of_Z x).

Definition c_light_ms : float := 0x1.24c41d4fdf3b6p+18%float.   (* OneLightMillisecond 299792.458 *)
Definition c_light : float := 0x1.1de784ap+28%float.            (* SpeedOfLightMS 299792458.0 *)
Definition c_1e4 : float := 10000%float.
Definition c_0001 : float := 0x1.a36e2eb1c432dp-14%float.       (* 0.0001 *)
Definition two29f : float := 536870912%float.
Definition two31f : float := 2147483648%float.

(* frequencies in Hz; 0 = no wavelength defined *)
Definition freq (constellation : N) (signal : N) : float :=
  let f1 := 1575420000%float in let f2 := 1227600000%float in let f5 := 1176450000%float in
  let f6 := 1278750000%float in let f7 := 1207140000%float in let f8 := 1191795000%float in
  let g1 := 1602000000%float in let g2 := 1246000000%float in
  let b1 := 1561098000%float in let b2 := 1176450000%float in let b3 := 1268520000%float in
  let s := signal in
  if constellation =? 1 then (* GPS *)
    if (s =? 2) || (s =? 3) || (s =? 4) || (s =? 30) || (s =? 31) || (s =? 32) then f1
    else if (s =? 8) || (s =? 9) || (s =? 10) || (s =? 15) || (s =? 16) || (s =? 17) then f2
    else if (s =? 22) || (s =? 23) || (s =? 24) then f5 else 0%float
  else if constellation =? 3 then (* Galileo *)
    if (s =? 2) || (s =? 3) || (s =? 4) || (s =? 5) || (s =? 6) then f1
    else if (s =? 8) || (s =? 9) || (s =? 10) || (s =? 11) || (s =? 12) then f6
    else if (s =? 14) || (s =? 15) || (s =? 16) then f7
    else if (s =? 18) || (s =? 19) || (s =? 20) then f8
    else if (s =? 22) || (s =? 23) || (s =? 24) then f5 else 0%float
  else if constellation =? 2 then (* Glonass *)
    if (s =? 2) || (s =? 3) then g1 else if (s =? 8) || (s =? 9) then g2 else 0%float
  else if constellation =? 6 then (* Beidou *)
    if (s =? 2) || (s =? 3) || (s =? 4) then b1
    else if (s =? 8) || (s =? 9) || (s =? 10) then b3
    else if (s =? 14) || (s =? 15) || (s =? 16) then b2 else 0%float
  else 0%float.

Definition wavelength (constellation signal : N) : float :=
  let f := freq constellation signal in
  if PrimFloat.eqb f 0%float then 0%float else PrimFloat.div c_light f.

(* RangeInMetres: (float64(S) / 2^29) * OneLightMillisecond *)
Definition range_m (s : N) : float := PrimFloat.mul (PrimFloat.div (f_of_N s) two29f) c_light_ms.
(* PhaseRange: ((float64(S) / 2^31) * OneLightMillisecond) / wavelength *)
Definition phase_cycles (s : N) (wl : float) : float :=
  PrimFloat.div (PrimFloat.mul (PrimFloat.div (f_of_N s) two31f) c_light_ms) wl.
(* PhaseRangeRate: float64(A) / 10000 *)
Definition rate_ms (a : Z) : float := PrimFloat.div (f_of_Z a) c_1e4.
(* PhaseRangeRateDoppler: (rate / wavelength) * -1 *)
Definition doppler (a : Z) (wl : float) : float :=
  PrimFloat.mul (PrimFloat.div (rate_ms a) wl) (-1)%float.
(* the coordinate display of 1005/1006: float64(X) * 0.0001 *)
Definition coord_m (x : Z) : float := PrimFloat.mul (f_of_Z x) c_0001.

(* the bits of a float as Go's math.Float64bits prints them: sign, exponent, mantissa *)
Definition float_bits (x : float) : N :=
  match Prim2SF x with
  | S754_zero s => if s then 9223372036854775808 else 0
  | S754_infinity s => (if s then 9223372036854775808 else 0) + 9218868437227405312
  | S754_nan => 9221120237041090560
  | S754_finite s m e =>
    let m' := Npos m in
    let sign := if s then 9223372036854775808 else 0 in
    (* normal numbers have a 53-bit mantissa; subnormals have exponent -1074 *)
    if 4503599627370496 <=? m' then sign + (Z.to_N (e + 1075)) * 4503599627370496 + (m' - 4503599627370496)
    else sign + m'
  end.

(* P_C03.v - the theorems of property C03 and nothing else: each is closed by [exact <lemma>]
   (or a one-line instantiation) and followed by Print Assumptions.  One file per property, importing only
   what that property's statements need, so that a change which breaks one property's proof leaves the
   others' theorems checkable. *)
From NTRIP Require Import Base Bits Time Classify Frame FrameSpec FrameProofs SegProofs.

(* ===================== C03 ===================== *)
(* If a stream is a sequence of valid frames (any type, payload 1..1023 bytes, 0xD3 bytes
   allowed anywhere inside them) interleaved with non-empty runs of other data containing no
   0xD3, optionally ending in a truncated frame (a non-empty proper prefix of a valid frame),
   the delivered (type, raw bytes) pairs are exactly those segments in order: each frame once
   as a typed message holding its own bytes, adjacent runs of other data merged into one
   non-RTCM message, the truncated tail as a non-RTCM message. *)
Theorem C03_segments : forall h segs tail, wf_segsb segs = true -> tail_ok tail ->
  exists ms h', handle_stream h (flatten segs ++ tail) = Ok (ms, h') /\
                map core ms = expected segs tail.
Proof. exact segments_delivered. Qed.
Print Assumptions C03_segments.

Example C03_example :
  let f := [211; 0; 19; 62; 208; 2; 12; 10; 88; 246; 126; 253; 63; 255; 237; 41; 121; 12; 239; 94; 128; 227; 229; 56; 76]%N in
  let segs := [Junk [36; 71]; Junk [80]; Frame f; Frame f; Junk [1]]%N in
  wf_segsb segs = true /\ tail_ok (firstn 9 f) /\
  expected segs (firstn 9 f) = [((-1)%Z, [36; 71; 80]%N); (1005%Z, f); (1005%Z, f); ((-1)%Z, [1]%N); ((-1)%Z, firstn 9 f)].
Proof.
  cbv zeta. split; [vm_compute; reflexivity|]. split; [|vm_compute; reflexivity].
  right. split; [discriminate|]. eexists. exists (skipn 9 [211; 0; 19; 62; 208; 2; 12; 10; 88; 246; 126; 253; 63; 255; 237; 41; 121; 12; 239; 94; 128; 227; 229; 56; 76]%N).
  split; [|split; [symmetry; apply firstn_skipn|discriminate]]. vm_compute. reflexivity.
Qed.


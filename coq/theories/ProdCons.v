(* ProdCons.v - the "producer hands items to a writer goroutine, closes the channel and waits
   for the writer before it returns" network, as in displayrtcm3 / rtcmfilter (C11) and
   rtcmlogger (C16) after their repair, and the unrepaired variant without the wait.

   process 0 = main:   for each item x: [emit Pass x;] send x on channel 0;  close channel 0;
                       receive on channel 1 (returns when the writer has closed it); emit Return.
   process 1 = writer: loop: receive on channel 0; on an item: lat internal steps, emit Write x;
                       on close: close channel 1; halt.
   channel 0 has any capacity >= 1 and may be unbuffered (sync0 = true: after a send main waits
   until the item has been taken, Net.OAwait), channel 1 is only ever closed. *)
From Coq Require Import List Arith Lia Bool.
Import ListNotations.
From NTRIP Require Import Net.
Arguments procs {St V Ev}. Arguments chans {St V Ev}. Arguments outs {St V Ev}.
Arguments buf {V}. Arguments cap {V}. Arguments closed {V}.

Section PC.
  Variable V : Type.
  Variable lat : nat.         (* internal steps the writer needs per item (its latency) *)
  Variable passthrough : bool. (* main also writes each item itself before handing it on (rtcmlogger's stdout) *)
  Variable wait : bool.       (* main waits for the writer before returning (false = the unrepaired code) *)
  Variable sync0 : bool.      (* the item channel is unbuffered in the Go code: a send completes only when the item has been taken *)

  Inductive ev := EPass (v : V) | EWrite (v : V) | EReturn | ETau.

  Inductive st :=
  | MS (r : list V)            (* main: items still to hand over *)
  | MS' (x : V) (r : list V)   (* main: x passed through, about to be sent *)
  | MWait | MRet | MDone
  | WLoop | WBusy (v : V) (n : nat) | WClose | WHalt
  | MAw (r : list V).          (* main: item sent on the unbuffered channel, waiting until it has been taken *)

  Definition prog (s : st) : op st V ev :=
    match s with
    | MS [] => OClose _ _ _ 0 (if wait then MWait else MRet)
    | MS (x :: r) => if passthrough then OEmit _ _ _ (EPass x) (MS' x r) else OSend _ _ _ 0 x (if sync0 then MAw r else MS r)
    | MS' x r => OSend _ _ _ 0 x (if sync0 then MAw r else MS r)
    | MAw r => OAwait _ _ _ 0 (MS r)
    | MWait => ORecv _ _ _ 1 (fun _ => MRet)
    | MRet => OEmit _ _ _ EReturn MDone
    | MDone => OHalt _ _ _
    | WLoop => ORecv _ _ _ 0 (fun o => match o with Some v => WBusy v lat | None => WClose end)
    | WBusy v (S n) => OEmit _ _ _ ETau (WBusy v n)
    | WBusy v O => OEmit _ _ _ (EWrite v) WLoop
    | WClose => OClose _ _ _ 1 WHalt
    | WHalt => OHalt _ _ _
    end.

  Definition sender (ch : nat) : nat := match ch with 0 => 0 | _ => 1 end.
  Definition receiver (ch : nat) : nat := match ch with 0 => 1 | _ => 0 end.

  Notation config := (config st V ev).
  Notation pstep := (pstep st V ev prog sender receiver MDone).

  Definition init (cap : nat) (xs : list V) : config :=
    {| procs := [MS xs; WLoop];
       chans := [{| buf := []; cap := cap; closed := false |}; {| buf := []; cap := 1; closed := false |}];
       outs := [[]; []] |}.

  Definition writes (o : list ev) : list V :=
    flat_map (fun e => match e with EWrite v => [v] | _ => [] end) o.
  Definition passes (o : list ev) : list V :=
    flat_map (fun e => match e with EPass v => [v] | _ => [] end) o.
  Definition returned (o : list ev) : bool :=
    existsb (fun e => match e with EReturn => true | _ => false end) o.

  Lemma writes_app a b : writes (a ++ b) = writes a ++ writes b.
  Proof. apply flat_map_app. Qed.
  Lemma passes_app a b : passes (a ++ b) = passes a ++ passes b.
  Proof. apply flat_map_app. Qed.
  Lemma returned_app a b : returned (a ++ b) = returned a || returned b.
  Proof. apply existsb_app. Qed.

  (* ---------- the invariant of the repaired protocol ---------- *)

  Definition inflight (w : st) : list V := match w with WBusy v _ => [v] | _ => [] end.
  Definition pending (m : st) : list V := match m with MS r => r | MS' x r => x :: r | MAw r => r | _ => [] end.
  Definition handed (m : st) : list V := match m with MS' x _ => [x] | _ => [] end.
  Definition is_main (m : st) : bool := match m with MS _ | MS' _ _ | MWait | MRet | MDone | MAw _ => true | _ => false end.
  Definition is_writer (w : st) : bool := match w with WLoop | WBusy _ _ | WClose | WHalt => true | _ => false end.

  Definition Inv (cap0 : nat) (xs : list V) (c : config) : Prop :=
    exists m w b0 cl0 cl1 om ow,
      c = {| procs := [m; w];
             chans := [{| buf := b0; cap := cap0; closed := cl0 |}; {| buf := []; cap := 1; closed := cl1 |}];
             outs := [om; ow] |} /\
      is_main m = true /\ is_writer w = true /\
      xs = writes ow ++ inflight w ++ b0 ++ pending m /\
      (if passthrough then passes om = writes ow ++ inflight w ++ b0 ++ handed m else passes om = []) /\
      (cl0 = true <-> (m = MWait \/ m = MRet \/ m = MDone)) /\
      ((w = WClose \/ w = WHalt) -> b0 = [] /\ cl0 = true) /\
      (cl1 = true <-> w = WHalt) /\
      (wait = true -> (m = MRet \/ m = MDone) -> cl1 = true) /\
      (returned om = true <-> m = MDone) /\
      (match m with MS' _ _ => passthrough = true | _ => True end).

  Lemma inv_init cap0 xs : Inv cap0 xs (init cap0 xs).
  Proof.
    exists (MS xs), WLoop, [], false, false, [], []. cbn.
    split; [reflexivity|]. split; [reflexivity|]. split; [reflexivity|]. split; [reflexivity|].
    split; [destruct passthrough; reflexivity|].
    split; [split; [discriminate|intros [H|[H|H]]; discriminate]|].
    split; [intros [H|H]; discriminate|].
    split; [split; discriminate|].
    split; [intros _ [H|H]; discriminate|].
    split; [split; discriminate|exact I].
  Qed.

  (* ---------- one step preserves the invariant ---------- *)

  Ltac inv_intro := do 7 eexists; split; [reflexivity|].

  Ltac solve_side :=
    repeat match goal with
    | |- _ /\ _ => split
    | |- True => exact I
    end;
    try match goal with E : passthrough = _ |- _ => rewrite ?E in * end;
    rewrite ?app_nil_r in *;
    try reflexivity; try assumption;
    try solve [intuition (try discriminate; try congruence)];
    try solve [destruct passthrough; try reflexivity; try assumption; intuition (try discriminate; try congruence)].

  Lemma upd0 {A} (a b x : A) : upd [a; b] 0 x = [x; b]. Proof. reflexivity. Qed.
  Lemma upd1 {A} (a b x : A) : upd [a; b] 1 x = [a; x]. Proof. reflexivity. Qed.

  Lemma inv_step cap0 xs c p c' : (1 <= cap0) -> Inv cap0 xs c -> pstep c p = Some c' -> Inv cap0 xs c'.
  Proof.
    intros Hcap (m & w & b0 & cl0 & cl1 & om & ow & -> & Hm & Hw & Hxs & Hps & H0 & Hwc & H1 & Hwait & Hret & Hpt) Hstep.
    destruct p as [|[|p]].
    - (* main steps *)
      unfold Net.pstep in Hstep. cbn [procs length Nat.ltb Nat.leb negb nth] in Hstep.
      destruct m as [r|x r| | | | | | | |r]; try discriminate Hm; cbn [prog] in Hstep.
      + (* MS r *)
        destruct r as [|x r].
        * (* close channel 0 *)
          cbn -[Nat.ltb Nat.leb] in Hstep; change (0 <? 2) with true in Hstep; change (1 <? 2) with true in Hstep; cbn [andb] in Hstep.
          destruct cl0; [cbn in Hstep; discriminate|]. cbn in Hstep. injection Hstep as <-.
          rewrite ?upd0, ?upd1. cbn [buf cap closed].
          destruct wait eqn:Ew.
          -- exists MWait, w, b0, true, cl1, om, ow. split; [reflexivity|].
             cbn [pending handed] in *. solve_side.
          -- exists MRet, w, b0, true, cl1, om, ow. split; [reflexivity|].
             cbn [pending handed] in *. solve_side.
        * destruct passthrough eqn:Ept.
          -- (* emit Pass x *)
             injection Hstep as <-. cbn [outs nth]. rewrite ?upd0, ?upd1.
             exists (MS' x r), w, b0, cl0, cl1, (om ++ [EPass x]), ow. split; [reflexivity|].
             cbn [pending handed] in *. rewrite passes_app, returned_app. cbn [passes flat_map app returned existsb orb].
             rewrite Hps, ?app_nil_r, <- ?app_assoc, ?orb_false_r.
             solve_side.
          -- (* send x *)
             cbn -[Nat.ltb Nat.leb] in Hstep; change (0 <? 2) with true in Hstep; change (1 <? 2) with true in Hstep; cbn [andb] in Hstep.
             destruct cl0; [cbn in Hstep; discriminate|].
             match type of Hstep with (if ?c then _ else _) = _ => destruct c; [|discriminate] end. injection Hstep as <-.
             rewrite ?upd0, ?upd1. cbn [buf cap closed].
             exists (if sync0 then MAw r else MS r), w, (b0 ++ [x]), false, cl1, om, ow. split; [reflexivity|].
             cbn [pending handed] in *. rewrite Hxs, <- ?app_assoc. cbn [app].
             destruct sync0; cbn [pending handed is_main]; solve_side.
      + (* MS' x r : send x *)
        cbn -[Nat.ltb Nat.leb] in Hstep; change (0 <? 2) with true in Hstep; change (1 <? 2) with true in Hstep; cbn [andb] in Hstep.
        destruct cl0; [cbn in Hstep; discriminate|].
        match type of Hstep with (if ?c then _ else _) = _ => destruct c; [|discriminate] end. injection Hstep as <-.
        rewrite ?upd0, ?upd1. cbn [buf cap closed].
        exists (if sync0 then MAw r else MS r), w, (b0 ++ [x]), false, cl1, om, ow. split; [reflexivity|].
        cbn [pending handed] in *. rewrite Hpt in *. rewrite Hxs, Hps, <- ?app_assoc. cbn [app]. rewrite ?app_nil_r.
        destruct sync0; cbn [pending handed is_main]; solve_side.
      + (* MWait : receive on channel 1 *)
        cbn -[Nat.ltb Nat.leb] in Hstep; change (0 <? 2) with true in Hstep; change (1 <? 2) with true in Hstep; cbn [andb] in Hstep.
        destruct cl1; [|cbn in Hstep; discriminate]. cbn in Hstep. injection Hstep as <-. rewrite ?upd0, ?upd1.
        exists MRet, w, b0, cl0, true, om, ow. split; [reflexivity|].
        cbn [pending handed] in *. solve_side.
      + (* MRet : emit Return *)
        injection Hstep as <-. cbn [outs nth]. rewrite ?upd0, ?upd1.
        exists MDone, w, b0, cl0, cl1, (om ++ [EReturn]), ow. split; [reflexivity|].
        cbn [pending handed] in *. rewrite passes_app, returned_app. cbn [passes flat_map returned existsb orb]. rewrite ?app_nil_r, ?orb_true_r.
        solve_side.
      + (* MDone: halted *) discriminate.
      + (* MAw r : the item has been taken *)
        cbn -[Nat.ltb Nat.leb] in Hstep; change (0 <? 2) with true in Hstep; cbn [andb] in Hstep.
        destruct b0 as [|v b0]; [|cbn in Hstep; discriminate]. cbn in Hstep. injection Hstep as <-. rewrite ?upd0, ?upd1.
        exists (MS r), w, [], cl0, cl1, om, ow. split; [reflexivity|].
        cbn [pending handed is_main] in *. solve_side.
    - (* writer steps *)
      unfold Net.pstep in Hstep. cbn [procs length Nat.ltb Nat.leb negb nth] in Hstep.
      destruct w as [| | | | |  |v n| | |]; try discriminate Hw; cbn [prog] in Hstep.
      + (* WLoop : receive on channel 0 *)
        cbn -[Nat.ltb Nat.leb] in Hstep; change (0 <? 2) with true in Hstep; change (1 <? 2) with true in Hstep; cbn [andb] in Hstep.
        destruct b0 as [|v b0].
        * destruct cl0; [|cbn in Hstep; discriminate]. cbn in Hstep. injection Hstep as <-. rewrite ?upd0, ?upd1.
          exists m, WClose, [], true, cl1, om, ow. split; [reflexivity|].
          cbn [inflight] in *. solve_side.
        * cbn in Hstep. injection Hstep as <-. rewrite ?upd0, ?upd1. cbn [buf cap closed].
          exists m, (WBusy v lat), b0, cl0, cl1, om, ow. split; [reflexivity|].
          cbn [inflight app] in *. solve_side.
      + (* WBusy v n *)
        destruct n as [|n]; injection Hstep as <-; cbn [outs nth]; rewrite ?upd0, ?upd1.
        * exists m, WLoop, b0, cl0, cl1, om, (ow ++ [EWrite v]). split; [reflexivity|].
          cbn [inflight app] in *. rewrite writes_app. cbn [writes flat_map]. rewrite ?app_nil_r, <- ?app_assoc. cbn [app].
          solve_side.
        * exists m, (WBusy v n), b0, cl0, cl1, om, (ow ++ [ETau]). split; [reflexivity|].
          cbn [inflight app] in *. rewrite writes_app. cbn [writes flat_map]. rewrite ?app_nil_r.
          solve_side.
      + (* WClose : close channel 1 *)
        cbn -[Nat.ltb Nat.leb] in Hstep; change (0 <? 2) with true in Hstep; change (1 <? 2) with true in Hstep; cbn [andb] in Hstep.
        destruct cl1; [cbn in Hstep; discriminate|]. cbn in Hstep. injection Hstep as <-. rewrite ?upd0, ?upd1. cbn [buf cap closed].
        destruct (Hwc (or_introl eq_refl)) as [-> ->].
        exists m, WHalt, [], true, true, om, ow. split; [reflexivity|].
        cbn [inflight] in *. solve_side.
      + (* WHalt *) discriminate.
    - (* no such process *)
      unfold Net.pstep in Hstep. cbn in Hstep. discriminate.
  Qed.

  (* ---------- every reachable configuration satisfies the invariant ---------- *)

  Notation nstep := (nstep st V ev prog sender receiver MDone).

  Lemma inv_steps cap0 xs : 1 <= cap0 -> forall n c c', steps config nstep n c c' -> Inv cap0 xs c -> Inv cap0 xs c'.
  Proof.
    intros Hcap. induction 1 as [|n a b c [p Hp] _ IH]; intros HI; [exact HI|].
    apply IH. exact (inv_step cap0 xs a p b Hcap HI Hp).
  Qed.

  Lemma inv_reachable cap0 xs c : 1 <= cap0 -> reachable st V ev prog sender receiver MDone (init cap0 xs) c -> Inv cap0 xs c.
  Proof. intros Hcap [n Hn]. exact (inv_steps cap0 xs Hcap n _ _ Hn (inv_init cap0 xs)). Qed.

  Definition main_out (c : config) : list ev := nth 0 (outs c) [].
  Definition writer_out (c : config) : list ev := nth 1 (outs c) [].

  (* C11 / C16: in every reachable configuration - whatever the interleaving, the channel capacity
     and the writer's latency - once main has returned, the writer has written every item, in
     order (and, for rtcmlogger, main's own pass-through output is complete too). *)
  Theorem flushed_at_return cap0 xs c : wait = true -> 1 <= cap0 ->
    reachable st V ev prog sender receiver MDone (init cap0 xs) c ->
    returned (main_out c) = true ->
    writes (writer_out c) = xs /\ (passthrough = true -> passes (main_out c) = xs).
  Proof.
    intros Hwt Hcap Hr Hret.
    destruct (inv_reachable cap0 xs c Hcap Hr) as (m & w & b0 & cl0 & cl1 & om & ow & -> & Hm & Hw & Hxs & Hps & H0 & Hwc & H1 & Hwait & Hre & Hpt).
    unfold main_out, writer_out in *. cbn [outs nth] in *.
    apply Hre in Hret. subst m.
    assert (Hc1 : cl1 = true) by (apply Hwait; [exact Hwt|right; reflexivity]).
    apply H1 in Hc1. subst w.
    destruct (Hwc (or_intror eq_refl)) as [-> _].
    cbn [inflight pending handed app] in *. rewrite ?app_nil_r in *.
    split; [symmetry; exact Hxs|]. intros Hp. rewrite Hp in Hps. rewrite Hps. symmetry. exact Hxs.
  Qed.

  (* no schedule deadlocks: a configuration in which no process can move is the one where main
     has returned and the writer has finished *)
  Theorem no_deadlock cap0 xs c : wait = true -> 1 <= cap0 ->
    reachable st V ev prog sender receiver MDone (init cap0 xs) c ->
    final_config st V ev prog sender receiver MDone c ->
    nth 0 (procs c) MDone = MDone /\ nth 1 (procs c) MDone = WHalt.
  Proof.
    intros Hwt Hcap Hr Hf.
    destruct (inv_reachable cap0 xs c Hcap Hr) as (m & w & b0 & cl0 & cl1 & om & ow & -> & Hm & Hw & Hxs & Hps & H0 & Hwc & H1 & Hwait & Hre & Hpt).
    cbn [procs nth].
    (* if a process can step, the configuration is not final *)
    assert (Hno : forall p c', pstep {| procs := [m; w]; chans := [{| buf := b0; cap := cap0; closed := cl0 |}; {| buf := []; cap := 1; closed := cl1 |}]; outs := [om; ow] |} p = Some c' -> False).
    { intros p c' Hp. apply (Hf c'). exists p. exact Hp. }
    (* the writer is never blocked unless it has halted or waits on an empty open channel *)
    assert (Hwriter : w = WHalt \/ (w = WLoop /\ b0 = [] /\ cl0 = false)).
    { destruct w as [| | | | |  |v n| | |]; try discriminate Hw.
      - right. destruct b0 as [|v b0].
        + destruct cl0; [|repeat split; reflexivity]. exfalso. eapply (Hno 1). unfold Net.pstep. cbn. reflexivity.
        + exfalso. eapply (Hno 1). unfold Net.pstep. cbn. reflexivity.
      - exfalso. destruct n; eapply (Hno 1); unfold Net.pstep; cbn; reflexivity.
      - exfalso. assert (cl1 = false) by (destruct cl1; [|reflexivity]; assert (WClose = WHalt) by (apply H1; reflexivity); discriminate).
        subst cl1. eapply (Hno 1). unfold Net.pstep. cbn. reflexivity.
      - left. reflexivity. }
    destruct m as [r|x r| | | | | | | |r]; try discriminate Hm.
    - (* MS r can always move *)
      exfalso. destruct r as [|x r].
      + assert (cl0 = false) by (destruct cl0; [|reflexivity]; assert (C : MS [] = MWait \/ MS [] = MRet \/ MS [] = MDone) by (apply H0; reflexivity); destruct C as [C|[C|C]]; discriminate).
        subst cl0. eapply (Hno 0). unfold Net.pstep. cbn. reflexivity.
      + destruct passthrough eqn:Ept.
        * eapply (Hno 0). unfold Net.pstep. cbn. rewrite Ept. reflexivity.
        * destruct Hwriter as [->|(-> & -> & ->)].
          -- destruct (Hwc (or_intror eq_refl)) as [_ C]. assert (D : MS (x :: r) = MWait \/ MS (x :: r) = MRet \/ MS (x :: r) = MDone) by (apply H0; exact C). destruct D as [D|[D|D]]; discriminate.
          -- eapply (Hno 0). unfold Net.pstep. cbn. rewrite Ept. cbn.
             destruct cap0 as [|k]; [lia|]. cbn. reflexivity.
    - exfalso. destruct Hwriter as [->|(-> & -> & ->)].
      + destruct (Hwc (or_intror eq_refl)) as [_ C]. assert (D : MS' x r = MWait \/ MS' x r = MRet \/ MS' x r = MDone) by (apply H0; exact C). destruct D as [D|[D|D]]; discriminate.
      + eapply (Hno 0). unfold Net.pstep. cbn. destruct cap0 as [|k]; [lia|]. cbn. reflexivity.
    - (* MWait *)
      exfalso. destruct Hwriter as [->|(-> & -> & ->)].
      + assert (cl1 = true) by (apply H1; reflexivity). subst cl1. eapply (Hno 0). unfold Net.pstep. cbn. reflexivity.
      + assert (C : false = true) by (apply H0; left; reflexivity). discriminate.
    - exfalso. eapply (Hno 0). unfold Net.pstep. cbn. reflexivity.
    - split; [reflexivity|]. destruct Hwriter as [->|(-> & -> & ->)]; [reflexivity|].
      exfalso. assert (C : false = true) by (apply H0; right; right; reflexivity). discriminate.
    - (* MAw r: the item is taken sooner or later *)
      exfalso. destruct Hwriter as [->|(-> & -> & ->)].
      + destruct (Hwc (or_intror eq_refl)) as [_ C]. assert (D : MAw r = MWait \/ MAw r = MRet \/ MAw r = MDone) by (apply H0; exact C). destruct D as [D|[D|D]]; discriminate.
      + eapply (Hno 0). unfold Net.pstep. cbn. reflexivity.
  Qed.
End PC.

(* the unrepaired protocol (no wait): there is a schedule on which main has returned while the
   writer has written nothing - the defect that was repaired in displayrtcm3, rtcmfilter and rtcmlogger *)
Example unrepaired_witness :
  exists c, run (st nat) nat (ev nat) (prog nat 0 false false false) sender receiver (MDone nat) (init nat 1 [7]) [0; 0; 0] = Some c /\
            returned nat (main_out nat c) = true /\ writes nat (writer_out nat c) = [].
Proof. eexists. split; [vm_compute; reflexivity|]. split; reflexivity. Qed.

(* ---------- prefixes at every moment ---------- *)
Section More.
  Variable V : Type.
  Variables (lat : nat) (wait sync0 : bool).
  (* at every moment of every execution (not only at the end): what main has passed through is a prefix of
     the input, and what the writer has written is a prefix of what has been passed through *)
  Theorem prefixes_always cap0 xs c : 1 <= cap0 ->
    reachable _ _ _ (prog V lat true wait sync0) sender receiver (MDone V) (init V cap0 xs) c ->
    exists ahead rest, passes V (main_out V c) = writes V (writer_out V c) ++ ahead /\
                       xs = passes V (main_out V c) ++ rest.
  Proof.
    intros Hcap Hr.
    destruct (inv_reachable V lat true wait sync0 cap0 xs c Hcap Hr) as (m & w & b0 & cl0 & cl1 & om & ow & -> & Hm & Hw & Hxs & Hps & _).
    unfold main_out, writer_out. cbn [outs nth].
    exists (inflight V w ++ b0 ++ handed V m).
    assert (R : exists rest, pending V m = handed V m ++ rest).
    { destruct m as [r|x r| | | | | | | |r]; try discriminate Hm; cbn [pending handed].
      - exists r. reflexivity.
      - exists r. reflexivity.
      - exists []. reflexivity.
      - exists []. reflexivity.
      - exists []. reflexivity.
      - exists r. reflexivity. }
    destruct R as [rest R]. exists rest. split; [exact Hps|].
    rewrite Hps, Hxs, R. rewrite <- !app_assoc. reflexivity.
  Qed.
End More.

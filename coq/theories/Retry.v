(* Retry.v - model of file_handler.Handle's read loop: bytes are forwarded one at a time,
   end-of-file and i/o timeouts are retried within a tolerance, other errors stop the loop.
   Time is explicit: the loop's own sleeps and the pauses of the source advance a clock. *)
From NTRIP Require Import Base.
Open Scope N_scope.

Inductive rstep :=
| RData (bs : list N)    (* the source delivers these bytes *)
| REof                   (* io.EOF *)
| RTimeout               (* an error whose text contains "i/o timeout" *)
| ROther                 (* any other read error *)
| RSleep (ms : N).       (* the source stays silent for so long before its next result *)

Inductive stop_reason := StopEOF | StopTimeout | StopOther | StopNone.

Record rstate := mkR { r_first : option N; r_now : N; r_out : list N (* forwarded, newest last *) }.

(* one EOF-like result; returns the new state or the decision to stop *)
Definition on_eof (tol wait : N) (s : rstate) : option rstate :=
  if tol =? 0 then None
  else match r_first s with
       | None => Some {| r_first := Some (r_now s); r_now := r_now s + wait; r_out := r_out s |}
       | Some t0 =>
         if tol <? r_now s - t0 then None
         else Some {| r_first := r_first s; r_now := r_now s + tol; r_out := r_out s |}
       end.

Fixpoint run_script (tol wait : N) (script : list rstep) (s : rstate) : rstate * stop_reason * list rstep :=
  match script with
  | [] => (s, StopNone, [])
  | RData bs :: rest =>
    run_script tol wait rest {| r_first := (match bs with [] => r_first s | _ => None end);
                                r_now := r_now s; r_out := r_out s ++ bs |}
  | RSleep ms :: rest => run_script tol wait rest {| r_first := r_first s; r_now := r_now s + ms; r_out := r_out s |}
  | REof :: rest =>
    match on_eof tol wait s with None => (s, StopEOF, rest) | Some s' => run_script tol wait rest s' end
  | RTimeout :: rest =>
    match on_eof tol wait s with None => (s, StopTimeout, rest) | Some s' => run_script tol wait rest s' end
  | ROther :: rest => (s, StopOther, rest)
  end.

(* after the script the source reports end-of-file for ever: at most three more rounds *)
Definition run_reader (tol wait : N) (script : list rstep) : list N * stop_reason :=
  let '(s, why, _) := run_script tol wait (script ++ [REof; REof; REof; REof]) {| r_first := None; r_now := 0; r_out := [] |} in
  (r_out s, why).

(* specification: the bytes of the data steps that precede the stop, in order *)
Fixpoint data_of (script : list rstep) : list N :=
  match script with
  | [] => []
  | RData bs :: rest => bs ++ data_of rest
  | _ :: rest => data_of rest
  end.

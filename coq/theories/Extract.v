(* Extract.v - extraction of the executable model and specification to OCaml.
   Only ExtrOcamlBasic's directives are used; N, Z, positive and nat stay
   extracted datatypes.  Run coqc on this file from /verif/ocaml. *)
From Coq Require Extraction ExtrOcamlBasic.
From NTRIP Require Import Base Bits Crc Time Classify Frame FrameSpec TimeSpec History Msm MsmSpec Station Html Queue Retry.
Extraction Language OCaml.
Extraction "model.ml"
  bytes_okb slice
  bits_of N_of_bits Z_of_bits_2c put_u put_s bytes_of_bits
  get_u get_s
  crc24q_hash crc24q_spec crc_table
  new_handler new_handler_unrepaired time_from_timestamp start_of_week
  msm4b msm7b msmb constellation_code
  get_len_type check_crc get_message fetch handle_stream
  valid_frameb frame_type wf_segsb flatten merge_junk expected
  week_start enc event_frame admissibleb answer run_frames run_history report_ok msm_time_frame frame_of_payload
  decode_msm4 decode_msm7 decode1005 decode1006 msm_frame view wf_amsm payload_bytes msm_bits
  station_frame wf_station station_bits
  sanitise no_markup new_queue qadd snapshot lastn
  run_reader data_of.

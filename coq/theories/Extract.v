(* Extract.v - extraction of the executable model and specification to OCaml.
   Only ExtrOcamlBasic's directives are used; N, Z, positive and nat stay
   extracted datatypes.  Run coqc on this file from /verif/ocaml. *)
From Coq Require Extraction ExtrOcamlBasic.
From NTRIP Require Import Base Bits.
Extraction Language OCaml.
Extraction "model.ml"
  bytes_okb slice
  bits_of N_of_bits Z_of_bits_2c put_u put_s bytes_of_bits
  get_u get_s.

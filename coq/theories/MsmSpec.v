(* MsmSpec.v - abstract MSM4/MSM7 messages, their bit-level encoding from the field
   tables of the standard (field-major arrays), and the decoded view the property demands. *)
From NTRIP Require Import Base Bits Crc FrameSpec Msm.
Open Scope N_scope.

Record amsm := mkA {
  a_k7 : bool;                   (* MSM7 (true) or MSM4 (false) *)
  a_type : N; a_station : N; a_ts : N; a_multi : bool; a_iods : N; a_sess : N;
  a_clk : N; a_ext : N; a_smooth : bool; a_smint : N;
  a_sats : list N;               (* satellite ids, strictly ascending, 1..64 *)
  a_sigs : list N;               (* signal ids, strictly ascending, 1..32 *)
  a_rows : list (list bool);     (* the cell mask: one row per satellite, one column per signal *)
  a_satdata : list (N * N * N * Z);              (* whole ms, extended info, fractional ms, rough rate *)
  a_sigdata : list (Z * Z * N * bool * N * Z);   (* per cell, row-major: fine range, fine phase, lock,
                                                    half-cycle, CNR, fine rate *)
}.

(* ---------- encoding ---------- *)

Definition mask_bits (width : nat) (ids : list N) : list bool :=
  map (fun k => existsb (N.eqb (N.of_nat k)) ids) (seq 1 width).

Definition header_bits (m : amsm) : list bool :=
  put_u 12 (a_type m) ++ put_u 12 (a_station m) ++ put_u 30 (a_ts m) ++ [a_multi m] ++
  put_u 3 (a_iods m) ++ put_u 7 (a_sess m) ++ put_u 2 (a_clk m) ++ put_u 2 (a_ext m) ++
  [a_smooth m] ++ put_u 3 (a_smint m) ++
  mask_bits 64 (a_sats m) ++ mask_bits 32 (a_sigs m) ++ concat (a_rows m).

Definition sat_bits (m : amsm) : list bool :=
  let d := a_satdata m in
  if a_k7 m then
    flat_map (fun t => put_u 8 (fst (fst (fst t)))) d ++
    flat_map (fun t => put_u 4 (snd (fst (fst t)))) d ++
    flat_map (fun t => put_u 10 (snd (fst t))) d ++
    flat_map (fun t => put_s 14 (snd t)) d
  else
    flat_map (fun t => put_u 8 (fst (fst (fst t)))) d ++
    flat_map (fun t => put_u 10 (snd (fst t))) d.

Definition sig_bits (m : amsm) : list bool :=
  let d := a_sigdata m in
  let rd := fun t : Z * Z * N * bool * N * Z => fst (fst (fst (fst (fst t)))) in
  let prd := fun t : Z * Z * N * bool * N * Z => snd (fst (fst (fst (fst t)))) in
  let lock := fun t : Z * Z * N * bool * N * Z => snd (fst (fst (fst t))) in
  let half := fun t : Z * Z * N * bool * N * Z => snd (fst (fst t)) in
  let cnr := fun t : Z * Z * N * bool * N * Z => snd (fst t) in
  let rrd := fun t : Z * Z * N * bool * N * Z => snd t in
  if a_k7 m then
    flat_map (fun t => put_s 20 (rd t)) d ++ flat_map (fun t => put_s 24 (prd t)) d ++
    flat_map (fun t => put_u 10 (lock t)) d ++ map half d ++
    flat_map (fun t => put_u 10 (cnr t)) d ++ flat_map (fun t => put_s 15 (rrd t)) d
  else
    flat_map (fun t => put_s 15 (rd t)) d ++ flat_map (fun t => put_s 22 (prd t)) d ++
    flat_map (fun t => put_u 4 (lock t)) d ++ map half d ++
    flat_map (fun t => put_u 6 (cnr t)) d.

Definition msm_bits (m : amsm) : list bool := header_bits m ++ sat_bits m ++ sig_bits m.

(* the frame: the message bits packed into bytes, [pad] zero bytes, leader and CRC *)
Definition msm_frame (m : amsm) (pad : nat) : list N :=
  frame_of_payload (bytes_of_bits (msm_bits m) ++ repeat 0 pad).

(* ---------- the decoded view the property demands ---------- *)

(* the ids of the set columns of a row *)
Fixpoint row_ids (row : list bool) (sigs : list N) : list N :=
  match row, sigs with
  | c :: row', s :: sigs' => if c then s :: row_ids row' sigs' else row_ids row' sigs'
  | _, _ => []
  end.

Fixpoint group_cells (k7 : bool) (sats sigs : list N) (rows : list (list bool))
         (data : list (Z * Z * N * bool * N * Z)) : list (list sigcell) :=
  match rows, sats with
  | row :: rows', sat :: sats' =>
    let ids := row_ids row sigs in
    let n := length ids in
    map (fun t => match t with (sid, (rd, prd, lock, half, cnr, rrd)) =>
           {| g_sat := sat; g_id := sid; g_rd := rd; g_prd := prd; g_lock := lock; g_half := half;
              g_cnr := cnr; g_rrd := if k7 then rrd else 0%Z |} end)
        (combine ids (firstn n data))
    :: group_cells k7 sats' sigs rows' (skipn n data)
  | _, _ => []
  end.

Definition view (m : amsm) : msm :=
  {| m_hdr := {| h_type := a_type m; h_station := a_station m; h_ts := a_ts m; h_multi := a_multi m;
                 h_iods := a_iods m; h_sess := a_sess m; h_clk := a_clk m; h_extclk := a_ext m;
                 h_smooth := a_smooth m; h_smint := a_smint m;
                 h_satmask := N_of_bits (mask_bits 64 (a_sats m));
                 h_sigmask := N_of_bits (mask_bits 32 (a_sigs m));
                 h_cellmask := N_of_bits (concat (a_rows m));
                 h_sats := a_sats m; h_sigs := a_sigs m; h_cells := a_rows m;
                 h_ncells := count_true (a_rows m) |};
     m_sats := map (fun t => match t with (id, (w, e, f, r)) =>
                      {| s_id := id; s_whole := w; s_ext := if a_k7 m then e else 0;
                         s_frac := f; s_rate := if a_k7 m then r else 0%Z |} end)
                   (combine (a_sats m) (a_satdata m));
     m_sigs := group_cells (a_k7 m) (a_sats m) (a_sigs m) (a_rows m) (a_sigdata m) |}.

(* ---------- well-formedness ---------- *)

Fixpoint ascending (lo hi : N) (l : list N) : bool :=
  match l with
  | [] => true
  | x :: r => (lo <? x) && (x <=? hi) && ascending x hi r
  end.

Definition in_s (w : nat) (z : Z) : bool :=
  ((- 2 ^ Z.of_nat (w - 1) <=? z) && (z <? 2 ^ Z.of_nat (w - 1)))%Z.
Definition in_u (w : nat) (v : N) : bool := v <? 2 ^ N.of_nat w.

Definition msm4_type_list : list N := [1074; 1084; 1094; 1104; 1114; 1124; 1134].
Definition msm7_type_list : list N := [1077; 1087; 1097; 1107; 1117; 1127; 1137].

Definition wf_amsm (m : amsm) : bool :=
  existsb (N.eqb (a_type m)) (if a_k7 m then msm7_type_list else msm4_type_list) &&
  in_u 12 (a_station m) && in_u 30 (a_ts m) && in_u 3 (a_iods m) && in_u 7 (a_sess m) &&
  in_u 2 (a_clk m) && in_u 2 (a_ext m) && in_u 3 (a_smint m) &&
  ascending 0 64 (a_sats m) && ascending 0 32 (a_sigs m) &&
  (length (a_rows m) =? length (a_sats m))%nat &&
  forallb (fun r => (length r =? length (a_sigs m))%nat) (a_rows m) &&
  (length (a_sats m) * length (a_sigs m) <=? 64)%nat &&
  (length (a_satdata m) =? length (a_sats m))%nat &&
  (length (a_sigdata m) =? count_true (a_rows m))%nat &&
  (if a_multi m then (1 <=? count_true (a_rows m))%nat else true) &&
  forallb (fun t => match t with (w, e, f, r) =>
             in_u 8 w && in_u 4 e && in_u 10 f && in_s 14 r end) (a_satdata m) &&
  forallb (fun t => match t with (rd, prd, lock, half, cnr, rrd) =>
             if a_k7 m then in_s 20 rd && in_s 24 prd && in_u 10 lock && in_u 10 cnr && in_s 15 rrd
             else in_s 15 rd && in_s 22 prd && in_u 4 lock && in_u 6 cnr end) (a_sigdata m).

Definition payload_bytes (m : amsm) : nat := length (bytes_of_bits (msm_bits m)).

Definition decode_msm (k7 : bool) (b : list N) : res msm :=
  if k7 then decode_msm7 b else decode_msm4 b.

(* QueueProofs.v - C18: the queue always holds the last N additions in arrival order. *)
From NTRIP Require Import Base Queue.
Open Scope Z_scope.

Section P.
  Variable A : Type.
  Notation queue := (queue A).

  Fixpoint number_from (s : Z) (l : list A) : list (Z * A) :=
    match l with [] => [] | x :: r => (s, x) :: number_from (s + 1) r end.

  Lemma number_from_length s l : length (number_from s l) = length l.
  Proof. revert s; induction l as [|x l IH]; intros s; cbn; [reflexivity|]. rewrite IH. reflexivity. Qed.

  Lemma number_from_snd s l : map snd (number_from s l) = l.
  Proof. revert s; induction l as [|x l IH]; intros s; cbn; [reflexivity|]. rewrite IH. reflexivity. Qed.

  Lemma number_from_app s a b :
    number_from s (a ++ b) = number_from s a ++ number_from (s + Z.of_nat (length a)) b.
  Proof.
    revert s; induction a as [|x a IH]; intros s; cbn [app number_from length].
    - replace (s + Z.of_nat 0) with s by lia. reflexivity.
    - rewrite IH. cbn [app]. do 3 f_equal. lia.
  Qed.

  Lemma keys_ge s l : Forall (fun kv => s <= fst kv) (number_from s l).
  Proof.
    revert s; induction l as [|x l IH]; intros s; cbn; constructor.
    - cbn. lia.
    - eapply Forall_impl; [|apply IH]. cbn. intros; lia.
  Qed.

  Lemma insert_sorted_head (kv : Z * A) l :
    Forall (fun x => fst kv <= fst x) l -> insert_sorted kv l = kv :: l.
  Proof.
    destruct l as [|x r]; [reflexivity|]. intros H. inversion H as [|? ? Hx _]. cbn.
    destruct (Z.leb_spec (fst kv) (fst x)); [reflexivity|lia].
  Qed.

  Lemma sort_number_from s l : sort_items (number_from s l) = number_from s l.
  Proof.
    revert s; induction l as [|x l IH]; intros s; cbn [number_from sort_items fold_right]; [reflexivity|].
    change (fold_right insert_sorted [] (number_from (s + 1) l)) with (sort_items (number_from (s + 1) l)).
    rewrite IH. apply insert_sorted_head.
    eapply Forall_impl; [|apply keys_ge]. cbn. intros; lia.
  Qed.

  Lemma delete_absent k s l : k < s -> delete_key k (number_from s l) = number_from s l.
  Proof.
    revert s; induction l as [|x l IH]; intros s H; cbn; [reflexivity|].
    destruct (Z.eqb_spec s k); [lia|]. cbn. unfold delete_key in IH. rewrite IH by lia. reflexivity.
  Qed.

  Lemma evict_small keys max (l : list (Z * A)) : (length l < max)%nat -> evict keys max l = l.
  Proof.
    revert l; induction keys as [|k ks IH]; intros l H; cbn; [reflexivity|].
    destruct (Nat.leb_spec max (length l)); [lia|]. apply IH. exact H.
  Qed.

  (* a full queue loses exactly its oldest item *)
  Lemma evict_full s x l max : max = S (length l) ->
    evict (map fst (number_from s (x :: l))) max (number_from s (x :: l)) = number_from (s + 1) l.
  Proof.
    intros Hm. cbn [number_from map evict]. cbn [length]. rewrite number_from_length.
    destruct (Nat.leb_spec max (S (length l))); [|lia].
    cbn [delete_key filter fst]. rewrite Z.eqb_refl. cbn [negb].
    change (filter (fun kv : Z * A => negb (fst kv =? s)) (number_from (s + 1) l)) with (delete_key s (number_from (s + 1) l)).
    rewrite delete_absent by lia. apply evict_small. rewrite number_from_length. lia.
  Qed.

  (* the state after adding the elements of xs, in order, to an empty queue of capacity n *)
  Definition Inv (n : nat) (xs : list A) (q : queue) : Prop :=
    q_max q = n /\ q_next q = Z.of_nat (length xs) /\
    let k := Nat.min n (length xs) in
    q_items q = number_from (Z.of_nat (length xs - k)) (lastn k xs).

  Lemma lastn_all (l : list A) k : (length l <= k)%nat -> lastn k l = l.
  Proof. intros H. unfold lastn. replace (length l - k)%nat with 0%nat by lia. reflexivity. Qed.

  Lemma lastn_length k (l : list A) : length (lastn k l) = Nat.min k (length l).
  Proof. unfold lastn. rewrite skipn_length. lia. Qed.

  Lemma lastn_snoc k (l : list A) x : (k <= length l)%nat ->
    lastn (S k) (l ++ [x]) = lastn k l ++ [x].
  Proof.
    intros H. unfold lastn. rewrite app_length. cbn [length].
    replace (length l + 1 - S k)%nat with (length l - k)%nat by lia.
    rewrite skipn_app. replace (length l - k - length l)%nat with 0%nat by lia. reflexivity.
  Qed.

  Lemma lastn_tl_snoc k (l : list A) x : (1 <= k <= length l)%nat ->
    lastn k (l ++ [x]) = tl (lastn k l) ++ [x].
  Proof.
    intros H. destruct k as [|k]; [lia|]. rewrite lastn_snoc by lia. f_equal.
    unfold lastn. replace (length l - k)%nat with (S (length l - S k)) by lia.
    destruct (skipn (length l - S k) l) as [|y r] eqn:E.
    - apply (f_equal (@length A)) in E. rewrite skipn_length in E. cbn in E. lia.
    - rewrite (skipn_add l 1 (length l - S k)) || idtac.
      replace (S (length l - S k)) with ((length l - S k) + 1)%nat by lia.
      rewrite skipn_add, E. reflexivity.
  Qed.

  Lemma add_inv n xs q x : (1 <= n)%nat -> Inv n xs q -> Inv n (xs ++ [x]) (qadd q x).
  Proof.
    intros Hn (Hmax & Hnext & Hitems). unfold Inv, qadd. cbn [q_max q_items q_next].
    rewrite app_length. cbn [length].
    split; [exact Hmax|]. split; [lia|]. cbv zeta in *.
    rewrite Hmax, Hitems, number_from_length, lastn_length.
    destruct (Nat.le_gt_cases n (length xs)) as [Hfull|Hroom].
    - (* full: the oldest item goes *)
      rewrite !Nat.min_l by lia. rewrite Nat.min_l in Hitems by lia.
      destruct (Nat.leb_spec n n); [|lia].
      rewrite sort_number_from.
      destruct (lastn n xs) as [|y r] eqn:EL.
      { apply (f_equal (@length A)) in EL. rewrite lastn_length in EL. cbn in EL. lia. }
      assert (Hr : length r = (n - 1)%nat).
      { apply (f_equal (@length A)) in EL. rewrite lastn_length in EL. cbn in EL. lia. }
      rewrite evict_full by lia.
      rewrite lastn_tl_snoc by lia. rewrite EL. cbn [tl].
      rewrite number_from_app, Hr, Hnext. cbn [number_from].
      replace (Z.of_nat (length xs - n) + 1) with (Z.of_nat (length xs + 1 - n)) by lia.
      replace (Z.of_nat (length xs + 1 - n) + Z.of_nat (n - 1)) with (Z.of_nat (length xs)) by lia.
      reflexivity.
    - (* room left *)
      replace (Nat.min n (length xs + 1)) with (length xs + 1)%nat by lia.
      replace (Nat.min n (length xs)) with (length xs) in * by lia.
      replace (Nat.min (length xs) (length xs)) with (length xs) by lia.
      destruct (Nat.leb_spec n (length xs)); [lia|].
      rewrite !lastn_all by (rewrite ?app_length; cbn; lia).
      replace (length xs - length xs)%nat with 0%nat by lia.
      replace (length xs + 1 - (length xs + 1))%nat with 0%nat by lia.
      rewrite number_from_app, Hnext. cbn [number_from].
      replace (Z.of_nat 0 + Z.of_nat (length xs)) with (Z.of_nat (length xs)) by lia. reflexivity.
  Qed.

  Lemma inv_init n : Inv n [] (new_queue n).
  Proof. unfold Inv, new_queue. cbn. rewrite Nat.min_0_r. repeat split. Qed.

  Lemma FOLDadd_inv n : (1 <= n)%nat -> forall (ys xs : list A) (q : queue), Inv n xs q -> Inv n (xs ++ ys) (fold_left qadd ys q).
  Proof.
    intros Hn. induction ys as [|y ys IH]; intros xs q H; cbn [fold_left].
    - rewrite app_nil_r. exact H.
    - replace (xs ++ y :: ys) with ((xs ++ [y]) ++ ys) by (rewrite <- app_assoc; reflexivity).
      apply IH. apply add_inv; assumption.
  Qed.

  (* every reachable state: the snapshot is the last min(N, added) additions in order, and the
     queue never holds more than N *)
  Theorem queue_last_n n (xs : list A) : (1 <= n)%nat ->
    let q := fold_left qadd xs (new_queue n) in
    snapshot q = lastn (Nat.min n (length xs)) xs /\ (length (q_items q) <= n)%nat.
  Proof.
    intros Hn q. destruct (FOLDadd_inv n Hn xs [] (new_queue n) (inv_init n)) as (_ & _ & Hi).
    cbn [app] in Hi. cbv zeta in Hi. fold q in Hi.
    unfold snapshot. rewrite Hi, sort_number_from, number_from_snd, number_from_length, lastn_length.
    split; [reflexivity|lia].
  Qed.
End P.

(* Properties.v - the property theorems and nothing else.  Every theorem is
   closed by [exact <lemma>] and followed by Print Assumptions. *)
From NTRIP Require Import Base Bits BitsProofs Crc CrcProofs Time Classify Frame FrameSpec FrameProofs Html Queue QueueProofs ClassifyProofs Retry RetryProofs TimeSpec History WriteProofs EncProofs TimeProofs SegProofs Msm Station StationProofs Range RangeProofs FloatProofs Net Pipe PipeFrames FilterProofs ProdCons MsmSpec MsmProofs MsmRoundtrip DetermProofs.
From NTRIP Require ConcQueue Relay.
From NTRIP Require Import FloatMore.
From NTRIPGen Require Import GenConsts.
From Coq Require Import Reals Floats.
From Flocq Require Import Core IEEE754.BinarySingleNaN IEEE754.PrimFloat.
From NTRIPGen Require Import ClassifyTable.

(* ===================== C14 ===================== *)
(* Unsigned extraction returns the integer whose binary digits are the addressed
   bits, most significant first, for every buffer, offset and width 1..64 lying
   inside the buffer. *)
Theorem C14_unsigned : forall buf pos len,
  (1 <= len <= 64)%nat -> (pos + len <= 8 * length buf)%nat ->
  get_u buf pos len = Ok (N_of_bits (slice (bits_of buf) pos len)).
Proof. intros buf pos len [_ H]. exact (get_u_spec buf pos len H). Qed.
Print Assumptions C14_unsigned.

(* Signed extraction returns the two's-complement value of the same bits. *)
Theorem C14_signed : forall buf pos len,
  (2 <= len <= 64)%nat -> (pos + len <= 8 * length buf)%nat ->
  get_s buf pos len = Ok (Z_of_bits_2c (slice (bits_of buf) pos len)).
Proof. exact get_s_spec. Qed.
Print Assumptions C14_signed.

(* Neither reads nor is influenced by any bit outside the field. *)
Theorem C14_locality : forall b1 b2 pos len,
  (1 <= len <= 64)%nat -> (pos + len <= 8 * length b1)%nat -> (pos + len <= 8 * length b2)%nat ->
  slice (bits_of b1) pos len = slice (bits_of b2) pos len ->
  get_u b1 pos len = get_u b2 pos len /\
  ((2 <= len)%nat -> get_s b1 pos len = get_s b2 pos len).
Proof. exact get_locality. Qed.
Print Assumptions C14_locality.

(* Non-vacuity: a 9-byte-spanning signed field that holds the minimum value. *)
Example C14_example :
  get_s [1; 0; 0; 0; 0; 0; 0; 0; 0]%N 7 64 = Ok (- 2 ^ 63)%Z /\
  get_u [211; 0; 19; 62; 208]%N 24 12 = Ok 1005%N.
Proof. split; vm_compute; reflexivity. Qed.

(* ===================== C01 ===================== *)
(* Every message the stream handler delivers with a non-negative type carries raw bytes that
   are exactly one valid RTCM3 frame (preamble, zero reserved bits, non-zero length equal to
   the payload size, trailing CRC-24Q of the bit-serial specification), and the reported type
   is the frame's first 12 payload bits. *)
Theorem C01_stream : forall h input ms h', bytes_ok input ->
  handle_stream h input = Ok (ms, h') ->
  Forall (fun m => (0 <= mtype m)%Z ->
            valid_frame (raw m) /\ mtype m = Z.of_N (frame_type (raw m))) ms.
Proof. exact stream_typed_valid. Qed.
Print Assumptions C01_stream.

(* Single-frame decoding never returns a typed message without an error unless the bytes at
   the head of its argument are such a frame, and then the message holds exactly that frame. *)
Theorem C01_single : forall h b m h', bytes_ok b ->
  get_message h b = Ok (Some m, h') -> (0 <= mtype m)%Z -> merr m = None ->
  valid_frame (raw m) /\ mtype m = Z.of_N (frame_type (raw m)) /\ exists x, b = raw m ++ x.
Proof. exact get_message_valid. Qed.
Print Assumptions C01_single.

(* The model's Hash (table-driven, uint32) is the CRC-24Q of the specification. *)
Theorem C01_crc : forall data, bytes_ok data -> crc24q_hash data = crc24q_spec data.
Proof. exact crc24q_hash_spec. Qed.
Print Assumptions C01_crc.

(* Non-vacuity: a real 1005 frame is valid and is delivered typed; the stricter reading
   "the argument is exactly one frame" is refuted by design (trailing bytes are ignored). *)
Example C01_example :
  let f := [211; 0; 19; 62; 208; 2; 12; 10; 88; 246; 126; 253; 63; 255; 237; 41; 121; 12; 239; 94; 128; 227; 229; 56; 76]%N in
  valid_frameb f = true /\ frame_type f = 1005%N /\
  (exists m h', get_message (new_handler 0) (f ++ [0]%N) = Ok (Some m, h') /\ mtype m = 1005%Z /\ raw m = f /\ merr m = None).
Proof.
  cbv zeta. split; [vm_compute; reflexivity|]. split; [vm_compute; reflexivity|].
  eexists. eexists. split; [vm_compute; reflexivity|]. repeat split.
Qed.

(* ===================== C02 ===================== *)
(* For every finite byte stream the stream handler returns (no panic, fuel suffices) and the
   raw bytes of the delivered messages, concatenated in order, are the input; none is empty. *)
Theorem C02_lossless : forall h input,
  exists ms h', handle_stream h input = Ok (ms, h') /\
    concat (map raw ms) = input /\ Forall (fun m => raw m <> []) ms.
Proof.
  intros h input. destruct (handle_stream_lossless h input) as (ms & h' & H1 & H2 & H3 & _).
  exists ms, h'. repeat split; assumption.
Qed.
Print Assumptions C02_lossless.

(* The same with channels and schedules (the network of Pipe.v with one consumer): for all
   capacities of the byte, message and consumer channels and every schedule of producer,
   framer and consumer, executions are finite and end with the consumer holding the lossless
   segmentation, the framer halted and the output channel closed. *)
Theorem C02_every_schedule : forall t0 (input : list N) cap0 cap1 capc,
  (1 <= cap0)%nat -> (1 <= cap1)%nat -> (1 <= capc)%nat ->
  exists n, forall m c,
    steps _ (nstep _ _ _ (Pipe.prog N msg (list N) (fun acc b => (acc ++ [b], [])) (frame_flush t0) 1 (fun _ => true))
                   Pipe.sender Pipe.receiver (SkDone _ _ _)) m
          (Pipe.init N msg (list N) 1 cap0 cap1 [capc] input []) c ->
    (m <= n)%nat /\
    (final_config _ _ _ (Pipe.prog N msg (list N) (fun acc b => (acc ++ [b], [])) (frame_flush t0) 1 (fun _ => true))
                  Pipe.sender Pipe.receiver (SkDone _ _ _) c ->
     concat (map raw (sink_out N msg (list N) c 0)) = input /\
     Forall (fun x => raw x <> []) (sink_out N msg (list N) c 0) /\
     halted N msg (list N) (fun acc b => (acc ++ [b], [])) (frame_flush t0) 1 (fun _ => true) c 1 /\
     closed (nth 1 (chans c) (dchan _)) = true).
Proof. exact lossless_every_schedule. Qed.
Print Assumptions C02_every_schedule.

Example C02_example :
  exists ms h', handle_stream (new_handler 0) [65; 211; 66; 67; 68; 69; 211]%N = Ok (ms, h') /\
                map raw ms = [[65]; [211; 66; 67; 68; 69]; [211]]%N.
Proof. eexists. eexists. split; vm_compute; reflexivity. Qed.

(* ===================== C07 (framing and single-frame part) ===================== *)
(* For every byte stream the stream handler returns normally: no panic (out-of-bounds read),
   no error of the model's own, and the recursion fuel S (length input) always suffices. *)
Theorem C07_stream : forall h input, exists ms h', handle_stream h input = Ok (ms, h').
Proof.
  intros h input. destruct (handle_stream_lossless h input) as (ms & h' & H & _).
  exists ms, h'. exact H.
Qed.
Print Assumptions C07_stream.

(* Single-frame decoding returns normally for arbitrary bytes (the function is public). *)
Theorem C07_single : forall h b, exists r, get_message h b = Ok r.
Proof. exact get_message_total. Qed.
Print Assumptions C07_single.

(* Non-vacuity: the 8-byte CRC-valid MSM-typed frame that used to kill the process is now
   delivered as a typed message carrying an error. *)
Example C07_example :
  exists m h', get_message (new_handler 0) [211; 0; 2; 67; 80; 6; 162; 126]%N = Ok (Some m, h') /\
               mtype m = 1077%Z /\ merr m = Some ErrTooShort.
Proof. eexists. eexists. split; [vm_compute; reflexivity|]. split; reflexivity. Qed.

(* ===================== C18 (sequential part) ===================== *)
(* For a queue of capacity N >= 1 and every sequence of additions, a snapshot returns exactly
   the most recent min(N, number added) messages in the order they were added, and the queue
   never holds more than N. *)
Theorem C18_last_n : forall (A : Type) (n : nat) (xs : list A), (1 <= n)%nat ->
  let q := fold_left qadd xs (new_queue n) in
  snapshot q = lastn (Nat.min n (length xs)) xs /\ (length (q_items q) <= n)%nat.
Proof. exact queue_last_n. Qed.
Print Assumptions C18_last_n.

Example C18_example :
  snapshot (fold_left qadd [1; 2; 3; 4; 5]%N (new_queue 3)) = [3; 4; 5]%N.
Proof. vm_compute. reflexivity. Qed.

(* The concurrent half (ConcQueue.v): any number of goroutines, each running any sequence of
   Add and GetMessages calls, under the queue's RWMutex.  The bodies are not atomic in the
   model (evict / insert, read keys / collect items are separate steps on the shared map); the
   facts queue_add_locked / queue_get_locked, regenerated from the source on every run, say that
   Add runs entirely under the write lock and GetMessages entirely under the read lock.
   For every schedule and every reachable configuration: every snapshot any goroutine has been
   given is the last min(N, k) of the first k additions in commit order, for some k - a
   contiguous run of the addition order - and the committed operations form a legal sequential
   history of the queue of C18_last_n in which each operation lies between its call and its
   return and each goroutine's results are the results of its own operations (linearizability);
   the abstract queue never holds more than N, and whenever no writer is inside Add the shared
   queue IS the abstract queue. *)
Theorem C18_concurrent_snapshots : forall (A : Type) (cap : nat) prog c, (1 <= cap)%nat ->
  ConcQueue.reach A queue_add_locked queue_get_locked (ConcQueue.init A cap prog) c ->
  forall i l, In (ConcQueue.RGet A l) (ConcQueue.outs A c i) ->
  exists pre suf, ConcQueue.added A c = pre ++ suf /\ l = lastn (Nat.min cap (length pre)) pre.
Proof. intros A cap prog c Hc. exact (ConcQueue.snapshots_are_last_n A cap Hc _ _ eq_refl eq_refl prog c). Qed.
Print Assumptions C18_concurrent_snapshots.

Theorem C18_linearizable : forall (A : Type) (cap : nat) prog c, (1 <= cap)%nat ->
  ConcQueue.reach A queue_add_locked queue_get_locked (ConcQueue.init A cap prog) c ->
  ConcQueue.legal A (new_queue cap) (ConcQueue.hist A c) (ConcQueue.absq A c) /\
  (forall i, exists p, ConcQueue.proj A i (ConcQueue.hist A c) = ConcQueue.outs A c i ++ p /\ (length p <= 1)%nat) /\
  (length (q_items (ConcQueue.absq A c)) <= cap)%nat /\
  ((forall i, ConcQueue.holdsW A queue_add_locked (ConcQueue.th A c i) = false) -> ConcQueue.shq A c = ConcQueue.absq A c).
Proof. intros A cap prog c Hc. exact (ConcQueue.linearizable A cap Hc _ _ eq_refl eq_refl prog c). Qed.
Print Assumptions C18_linearizable.

(* ===================== C19 (report part) ===================== *)
(* Every traffic-derived part of the status page (both buffer dumps and the message list) is
   passed through the sanitiser, and sanitised text contains neither '<' nor '>'. *)
Theorem C19_escaped : forall dump_c dump_s displays,
  forallb no_markup (traffic_parts dump_c dump_s displays) = true.
Proof. exact traffic_parts_escaped. Qed.
Print Assumptions C19_escaped.

Theorem C19_sanitise : forall s, no_markup (sanitise s) = true.
Proof. exact sanitise_no_markup. Qed.
Print Assumptions C19_sanitise.

Example C19_example : sanitise [60; 98; 62]%N = [38; 108; 116; 59; 98; 38; 103; 116; 59]%N.
Proof. vm_compute. reflexivity. Qed.

(* The relay half (Relay.v): the client-to-server loop pushes every byte of a chunk to the
   traffic parser and then writes the chunk to the server; the parser (ANY framing state machine)
   feeds the queue updater.  For all chunk sequences, all capacities >= 1 of the byte and message
   channels and every schedule: executions are finite, each can be completed to one final
   configuration and a maximal one IS that configuration; in it the loop has returned, the
   server has been written exactly the client's chunks in order and unchanged (parsing can delay
   the relay but neither alters, withholds nor stops it), both channels are empty, and the queue
   was given exactly the messages sequential framing finds in the relayed bytes. *)
Theorem C19_relay_every_schedule :
  forall (B M FS : Type) (fstep : FS -> B -> FS * list M) cap0 cap1 (chunks : list (list B)) (s0 : FS),
  (1 <= cap0)%nat -> (1 <= cap1)%nat ->
  exists n, forall m c,
    steps _ (nstep _ _ _ (Relay.prog B M FS fstep) Relay.sender Relay.receiver (Relay.QDead B M FS)) m
          (Relay.init B M FS cap0 cap1 chunks s0) c ->
    (m <= n)%nat /\
    steps _ (nstep _ _ _ (Relay.prog B M FS fstep) Relay.sender Relay.receiver (Relay.QDead B M FS)) (n - m) c
          (Relay.fin B M FS fstep cap0 cap1 chunks s0) /\
    (final_config _ _ _ (Relay.prog B M FS fstep) Relay.sender Relay.receiver (Relay.QDead B M FS) c ->
     c = Relay.fin B M FS fstep cap0 cap1 chunks s0).
Proof. exact Relay.relay_every_schedule. Qed.
Print Assumptions C19_relay_every_schedule.

Theorem C19_relay_final :
  forall (B M FS : Type) (fstep : FS -> B -> FS * list M) cap0 cap1 (chunks : list (list B)) (s0 : FS),
  let f := Relay.fin B M FS fstep cap0 cap1 chunks s0 in
  Relay.server_writes B M FS f = map (Relay.EvW B M) chunks /\
  Relay.queue_adds B M FS f = map (Relay.EvQ B M) (fst (Relay.frun B M FS fstep s0 (concat chunks))) /\
  Relay.prog B M FS fstep (nth 0%nat (procs f) (Relay.QDead B M FS)) = OHalt _ _ _ /\
  buf (nth 0%nat (chans f) (dchan _)) = [] /\ buf (nth 1%nat (chans f) (dchan _)) = [].
Proof. exact Relay.fin_shape. Qed.
Print Assumptions C19_relay_final.

(* ===================== C20 ===================== *)
(* For every 12-bit message type and the two negative sentinels (4098 values, enumerated
   completely over the table the real code produced on this run): exactly the fourteen
   standard types are MSM4 respectively MSM7, only they carry an extracted timestamp, each maps
   to its constellation and is accepted by exactly its own decoder family, full decoding is
   attempted for exactly MSM4, MSM7, 1005 and 1006, the title is non-empty and the message can
   be displayed at both log levels. *)
Theorem C20_consistent : forall t, (-2 <= t <= 4095)%Z ->
  r_t (lookup t) = t /\ row_ok (lookup t) = true.
Proof. exact classification_consistent. Qed.
Print Assumptions C20_consistent.

(* the closed forms the model uses elsewhere are the code's classifications *)
Theorem C20_closed_forms :
  forallb (fun r => Bool.eqb (msm4b (r_t r)) (r_msm4 r) && Bool.eqb (msm7b (r_t r)) (r_msm7 r) &&
                    Bool.eqb (msmb (r_t r)) (r_msm r) && (Z.of_N (constellation_code (r_t r)) =? r_const r)%Z)
          classify_table = true.
Proof. exact closed_forms_agree. Qed.
Print Assumptions C20_closed_forms.

Example C20_example : r_dispatch (lookup 1127) = 7%Z /\ r_const (lookup 1127) = 6%Z /\ r_ts (lookup 1006) = false.
Proof. vm_compute. repeat split. Qed.

(* ===================== C13 (the read loop) ===================== *)
(* Wherever end-of-file / timeout results, pauses and other errors fall, every byte the source
   supplied before the loop stopped has been forwarded exactly once and in order, and nothing
   else has: forwarded = data of the consumed part of the script; the step that stops the loop
   carries no data. *)
Theorem C13_forwarding : forall tol wait script s s' why rest,
  run_script tol wait script s = (s', why, rest) ->
  exists consumed, script = consumed ++ unread_after why rest /\
                   r_out s' = r_out s ++ data_of consumed /\
                   (why <> StopNone -> exists c e, consumed = c ++ [e] /\ data_of [e] = []).
Proof. exact run_script_forwarding. Qed.
Print Assumptions C13_forwarding.

(* With a non-zero tolerance, single and double end-of-file / timeout results between data
   (also inside a frame: the loop knows nothing of frames) never stop the loop: all data is
   forwarded, so the framing stage sees exactly the uninterrupted stream. *)
Theorem C13_resume : forall tol wait script, (0 < tol)%N -> (wait <= tol)%N -> gentle script ->
  forall s, r_first s = None ->
  exists s', run_script tol wait script s = (s', StopNone, []) /\ r_out s' = r_out s ++ data_of script /\
             r_first s' = None.
Proof. intros tol wait script H1 H2 G. exact (gentle_resumes tol wait H1 H2 script G). Qed.
Print Assumptions C13_resume.

(* Tolerance zero: the first end-of-file or timeout stops the loop; another read error always
   does; the data received so far has been forwarded. *)
Theorem C13_stop_zero_or_error : forall wait pre rest e, (e = REof \/ e = RTimeout \/ e = ROther) ->
  Forall (fun st => match st with RData _ | RSleep _ => True | _ => False end) pre ->
  forall s, exists s', run_script 0 wait (pre ++ e :: rest) s =
      (s', match e with REof => StopEOF | RTimeout => StopTimeout | _ => StopOther end, rest) /\
    r_out s' = r_out s ++ data_of pre.
Proof. exact zero_tolerance_stops. Qed.
Print Assumptions C13_stop_zero_or_error.

(* A source that stays silent (end-of-file for ever) always makes the loop return. *)
Theorem C13_stop_silent : forall tol wait s rest, r_first s = None ->
  exists s' k, run_script tol wait (REof :: REof :: REof :: REof :: rest) s = (s', StopEOF, k) /\ r_out s' = r_out s.
Proof. exact silence_stops. Qed.
Print Assumptions C13_stop_silent.

Example C13_example :
  run_reader 200 1 [RData [65; 66]; REof; RData [211; 0]; RTimeout; REof; RData [1]]%N = ([65; 66; 211; 0; 1]%N, StopEOF) /\
  gentle [RData [65; 66]; REof; RData [211; 0]; RTimeout; REof; RData [1]]%N.
Proof.
  split; [vm_compute; reflexivity|].
  apply g_data. apply g_one; [left; reflexivity|discriminate|]. apply g_two; [right; reflexivity|left; reflexivity|discriminate|]. apply g_nil.
Qed.

(* ===================== C17 and C06 ===================== *)
(* C17: a handler created with any start time T in the constellation week of the first
   observation - earlier or later than the data - and fed, through the public single-frame
   path, CRC-valid MSM4/MSM7 frames of GPS, Galileo, GLONASS and BeiDou in any interleaving,
   where per constellation the true observation instants are whole milliseconds, never
   decrease and are less than six days apart, reports for every frame the true UTC instant
   and the true start of the constellation week, across any number of rollovers; a frame
   with an illegal timestamp is reported as an error and changes nothing. *)
Theorem C17_any_start : forall T evs, admissibleb false T evs = true ->
  exists rs h', run_history (new_handler T) evs = Ok (rs, h') /\
                Forall2 (fun e r => report_ok e r = true) evs rs.
Proof.
  intros T evs H. exact (history_true_times false T evs (fun _ => None) (new_handler T) (inv_new T) H).
Qed.
Print Assumptions C17_any_start.

(* C06: the same under the stronger precondition that the first observation of each
   constellation is not earlier than T. *)
Theorem C06_true_time : forall T evs, admissibleb true T evs = true ->
  exists rs h', run_history (new_handler T) evs = Ok (rs, h') /\
                Forall2 (fun e r => report_ok e r = true) evs rs.
Proof.
  intros T evs H. apply C17_any_start. apply admissible_weaken. exact H.
Qed.
Print Assumptions C06_true_time.

(* Non-vacuity: a four-constellation history across rollovers, started late in the week
   (Wed 2023-05-10 12:00 UTC), first GPS observation 23 ms into the week, an illegal timestamp
   in between.  It is admissible for C17 (not for C06: the first observation precedes T). *)
Example C17_example :
  let T := 1683720000000000000%Z in
  let evs := [Obs GPS true 1683417582023000000; Obs Glonass false 1683500000000000000;
              Bad GPS false 604800000; Obs GPS true 1683800000000000000; Obs Galileo true 1683900000000000000;
              Obs GPS false 1684022382000000000; Obs Glonass true 1684011600000000000;
              Obs Beidou true 1683720000000000000; Obs Beidou false 1684022396001000000] in
  admissibleb false T evs = true /\ admissibleb true T evs = false /\
  (exists rs h', run_history (new_handler T) evs = Ok (rs, h') /\
     nth 5 rs (None, None) = (Some (Ok 1684022382000000000%Z), Some 1684022382000000000%Z)).
Proof.
  cbv zeta. split; [vm_compute; reflexivity|]. split; [vm_compute; reflexivity|].
  eexists. eexists. split; vm_compute; reflexivity.
Qed.

(* ===================== C15 (state independence) ===================== *)
(* Everything GetMessage reports about a frame except the UTC time and the start of week -
   type, raw bytes, error kind, timestamp, whether a time could be computed - is the same for
   every handler state, i.e. whatever frames were processed before and whichever handler is
   used.  Full decoding (decode_msm4/7, decode1005/1006) does not take the handler at all. *)
Theorem C15_state_independent : forall h1 h2 b,
  result_core (get_message h1 b) = result_core (get_message h2 b).
Proof. exact get_message_state_independent. Qed.
Print Assumptions C15_state_independent.

(* The same for whole streams: what the stream handler delivers for a byte stream - types, raw
   bytes, error texts, raw timestamps, whether a time could be derived - is the same for every
   handler state, i.e. whatever start time the handler was created with and whatever it has
   processed before (a handler's state after any history is just another state). *)
Theorem C15_stream_state_independent : forall h1 h2 input,
  stream_core (handle_stream h1 input) = stream_core (handle_stream h2 input).
Proof. exact stream_state_independent. Qed.
Print Assumptions C15_stream_state_independent.

(* ===================== C03 ===================== *)
(* If a stream is a sequence of valid frames (any type, payload 1..1023 bytes, 0xD3 bytes
   allowed anywhere inside them) interleaved with non-empty runs of other data containing no
   0xD3, optionally ending in a truncated frame (a non-empty proper prefix of a valid frame),
   the delivered (type, raw bytes) pairs are exactly those segments in order: each frame once
   as a typed message holding its own bytes, adjacent runs of other data merged into one
   non-RTCM message, the truncated tail as a non-RTCM message. *)
Theorem C03_segments : forall h segs tail, wf_segsb segs = true -> tail_ok tail ->
  exists ms h', handle_stream h (flatten segs ++ tail) = Ok (ms, h') /\
                map core ms = expected segs tail.
Proof. exact segments_delivered. Qed.
Print Assumptions C03_segments.

Example C03_example :
  let f := [211; 0; 19; 62; 208; 2; 12; 10; 88; 246; 126; 253; 63; 255; 237; 41; 121; 12; 239; 94; 128; 227; 229; 56; 76]%N in
  let segs := [Junk [36; 71]; Junk [80]; Frame f; Frame f; Junk [1]]%N in
  wf_segsb segs = true /\ tail_ok (firstn 9 f) /\
  expected segs (firstn 9 f) = [((-1)%Z, [36; 71; 80]%N); (1005%Z, f); (1005%Z, f); ((-1)%Z, [1]%N); ((-1)%Z, firstn 9 f)].
Proof.
  cbv zeta. split; [vm_compute; reflexivity|]. split; [|vm_compute; reflexivity].
  right. split; [discriminate|]. eexists. exists (skipn 9 [211; 0; 19; 62; 208; 2; 12; 10; 88; 246; 126; 253; 63; 255; 237; 41; 121; 12; 239; 94; 128; 227; 229; 56; 76]%N).
  split; [|split; [symmetry; apply firstn_skipn|discriminate]]. vm_compute. reflexivity.
Qed.

(* ===================== C12 ===================== *)
(* If in such a stream the payload or CRC bytes of one frame are altered (same length, same
   3-byte leader, any alteration including new 0xD3 bytes) so that its CRC no longer
   matches, that frame is delivered as a single non-RTCM message holding exactly its bytes
   and every other segment is delivered exactly as without the corruption. *)
Theorem C12_isolation : forall h pre post f' tail,
  wf_segsb pre = true -> wf_segsb post = true -> bad_frame f' -> tail_ok tail ->
  exists ms h', handle_stream h (flatten pre ++ f' ++ flatten post ++ tail) = Ok (ms, h') /\
                map core ms = expected pre [] ++ [((-1)%Z, f')] ++ expected post tail.
Proof. exact corrupted_frame_isolated. Qed.
Print Assumptions C12_isolation.

Example C12_example :
  let f := [211; 0; 19; 62; 208; 2; 12; 10; 88; 246; 126; 253; 63; 255; 237; 41; 121; 12; 239; 94; 128; 227; 229; 56; 76]%N in
  let f' := [211; 0; 19; 62; 208; 2; 211; 0; 88; 246; 126; 253; 63; 255; 237; 41; 121; 12; 239; 94; 128; 227; 229; 56; 76]%N in
  bad_frame f'.
Proof.
  cbv zeta. split; [|split].
  - apply bytes_okb_spec. vm_compute. reflexivity.
  - unfold crc_mismatch. vm_compute. discriminate.
  - exists [211; 0; 19; 62; 208; 2; 12; 10; 88; 246; 126; 253; 63; 255; 237; 41; 121; 12; 239; 94; 128; 227; 229; 56; 76]%N.
    split; [vm_compute; reflexivity|]. split; reflexivity.
Qed.

(* ===================== C05 (decoding) ===================== *)
(* For every well-formed 1005 or 1006 message - station id, ITRF year, the three signed 38-bit
   coordinates over their full range, the reserved bit groups and (1006) the 16-bit antenna
   height - laid out as the standard says, carried in a frame with any extra payload bytes
   after it, decoding reproduces every field. *)
Theorem C05_decode : forall m extra, wf_station m = true -> bytes_ok extra ->
  (length (bytes_of_bits (station_bits m)) + length extra <= 1023)%nat ->
  decode_station (st_type m) (station_frame m extra) = Ok m.
Proof. exact decode_station_roundtrip. Qed.
Print Assumptions C05_decode.

(* A frame too short for the fields is rejected with an error. *)
Theorem C05_reject_short : forall (ty : N) (b : list N),
  (Z.of_nat (8 * length b) - 48 < (if (ty =? 1006)%N then 168 else 152))%Z ->
  decode_station ty b = Err ErrOverrun.
Proof. exact decode_station_short. Qed.
Print Assumptions C05_reject_short.

(* A message of a different type is rejected with an error. *)
Theorem C05_reject_type : forall b t, (8 * length b >= 216)%nat -> get_u b 24 12 = Ok t ->
  (t <> 1005%N -> decode1005 b = Err ErrWrongType) /\ (t <> 1006%N -> decode1006 b = Err ErrWrongType).
Proof. exact decode_station_wrong_type. Qed.
Print Assumptions C05_reject_type.

(* On arbitrary bytes both decoders return a message of their own type or one of two errors -
   never a panic (this is also C07 for these decoders). *)
Theorem C05_total : forall b,
  ((exists m, decode1005 b = Ok m /\ st_type m = 1005%N) \/ decode1005 b = Err ErrOverrun \/ decode1005 b = Err ErrWrongType) /\
  ((exists m, decode1006 b = Ok m /\ st_type m = 1006%N) \/ decode1006 b = Err ErrOverrun \/ decode1006 b = Err ErrWrongType).
Proof. intros b. split; [apply decode1005_total|apply decode1006_total]. Qed.
Print Assumptions C05_total.

Example C05_example :
  let m := {| st_type := 1006; st_id := 2; st_itrf := 3; st_ign1 := 0; st_x := (- 2 ^ 37)%Z; st_ign2 := 1;
              st_y := (2 ^ 37 - 1)%Z; st_ign3 := 2; st_z := (-1)%Z; st_height := 65535 |}%N in
  wf_station m = true /\ decode1006 (station_frame m [7; 8]%N) = Ok m.
Proof. cbv zeta. split; vm_compute; reflexivity. Qed.

(* ===================== C05 (display) ===================== *)
(* For every 38-bit signed coordinate X the double computed by float64(X) * 0.0001 is within
   1e-8 m of X/10^4, so the nearest value with four decimals - which is what a correctly rounded
   "%.4f" prints - is exactly the encoded integer times 0.0001 m.  (The 16-bit antenna height is
   the special case 0 <= X < 2^16.) *)
Theorem C05_display : forall (X : Z) choice, (- 2 ^ 37 <= X < 2 ^ 37)%Z ->
  Znearest choice (B2R (Prim2B (coord_m X)) * 10000)%R = X.
Proof. exact coord_display. Qed.
Print Assumptions C05_display.

(* ===================== C08 ===================== *)
(* The scaled aggregates are exactly the standard's sums (the uint64/int64 wraps of the code are
   harmless on the fields' ranges whenever the true value is non-negative). *)
Theorem C08_scaled_range : forall w f d, (w < 256)%N -> (f < 1024)%N -> (- 2 ^ 19 <= d < 2 ^ 19)%Z ->
  (0 <= Z.of_N w * 2 ^ 29 + Z.of_N f * 2 ^ 19 + d)%Z ->
  Z.of_N (scaled_range w f d) = (Z.of_N w * 2 ^ 29 + Z.of_N f * 2 ^ 19 + d)%Z.
Proof. exact scaled_range_exact. Qed.
Print Assumptions C08_scaled_range.

Theorem C08_scaled_phase : forall w f p, (w < 256)%N -> (f < 1024)%N -> (- 2 ^ 23 <= p < 2 ^ 23)%Z ->
  (0 <= Z.of_N w * 2 ^ 31 + Z.of_N f * 2 ^ 21 + p)%Z ->
  Z.of_N (scaled_phase w f p) = (Z.of_N w * 2 ^ 31 + Z.of_N f * 2 ^ 21 + p)%Z.
Proof. exact scaled_phase_exact. Qed.
Print Assumptions C08_scaled_phase.

Theorem C08_scaled_rate : forall rough fine, (- 2 ^ 13 <= rough < 2 ^ 13)%Z -> (- 2 ^ 14 <= fine < 2 ^ 14)%Z ->
  scaled_rate rough fine = (rough * 10000 + fine)%Z.
Proof. exact scaled_rate_exact. Qed.
Print Assumptions C08_scaled_rate.

(* An MSM4 and an MSM7 cell encoding the same quantity yield the same aggregate. *)
Theorem C08_msm4_msm7_agree : forall w f d4 p4,
  agg_range4 w f d4 = agg_range7 w f (d4 * 32) /\ agg_phase4 w f p4 = agg_phase7 w f (p4 * 4).
Proof. exact msm4_msm7_agree. Qed.
Print Assumptions C08_msm4_msm7_agree.

(* Invalid markers: an invalid rough range makes the values zero, an invalid fine value falls back
   to the rough value alone, an invalid rough rate gives zero. *)
Theorem C08_invalid : forall w f d p rough fine,
  agg_range4 255 f d = 0%N /\ agg_range7 255 f d = 0%N /\ agg_phase4 255 f p = 0%N /\ agg_phase7 255 f p = 0%N /\
  (w <> 255%N -> agg_range4 w f (-16384) = scaled_range w f 0 /\ agg_range7 w f (-524288) = scaled_range w f 0 /\
               agg_phase4 w f (-2097152) = scaled_phase w f 0 /\ agg_phase7 w f (-8388608) = scaled_phase w f 0) /\
  agg_rate (-8192) fine = 0%Z /\ (rough <> (-8192)%Z -> agg_rate rough (-16384) = scaled_rate rough 0).
Proof. exact invalid_markers. Qed.
Print Assumptions C08_invalid.

(* The pseudorange in metres, (float64(S)/2^29) * OneLightMillisecond in binary64, equals
   c/1000 x S/2^29 with a relative error below 2^-51, for every 41-bit scaled range S > 0. *)
Theorem C08_range_error : forall S : N, (0 < S < 2 ^ 41)%N ->
  let exact := (IZR (Z.of_N S) / 536870912 * (299792458 / 1000))%R in
  (Rabs (B2R (Prim2B (range_m S)) - exact) <= exact / 2251799813685248)%R.
Proof. exact range_error. Qed.
Print Assumptions C08_range_error.

(* The other three binary64 pipelines, for every (constellation, signal) pair of the code's
   wavelength table that has a frequency (each is an integer number of Hz between 1 and 2 GHz:
   FloatMore.wavelength_table, by evaluation of the table): relative error at most 2^-53 for the
   rate in m/s (one rounding) and below 2^-50 for the phase range in cycles (three roundings
   and the representation error of 299792.458) and the Doppler shift in Hz (four roundings). *)
Theorem C08_rate_error : forall a : Z, (a <> 0)%Z -> (- 2 ^ 40 < a < 2 ^ 40)%Z ->
  let exact := (IZR a / 10000)%R in
  (Rabs (B2R (Prim2B (rate_ms a)) - exact) <= Rabs exact / 9007199254740992)%R.
Proof. exact rate_error. Qed.
Print Assumptions C08_rate_error.

Theorem C08_phase_error : forall (c s S : N), freq c s <> 0%float -> (0 < S < 2 ^ 41)%N ->
  exists F : Z, B2R (Prim2B (freq c s)) = IZR F /\
    let exact := (IZR (Z.of_N S) / 2147483648 * (IZR F / 1000))%R in
    (Rabs (B2R (Prim2B (phase_cycles S (wavelength c s))) - exact) <= exact / 1125899906842624)%R.
Proof. exact phase_error_table. Qed.
Print Assumptions C08_phase_error.

Theorem C08_doppler_error : forall (c s : N) (a : Z), freq c s <> 0%float -> (a <> 0)%Z -> (- 2 ^ 40 < a < 2 ^ 40)%Z ->
  exists F : Z, B2R (Prim2B (freq c s)) = IZR F /\
    let exact := (- (IZR a / 10000 * (IZR F / 299792458)))%R in
    (Rabs (B2R (Prim2B (doppler a (wavelength c s))) - exact) <= Rabs exact / 1125899906842624)%R.
Proof. exact doppler_error_table. Qed.
Print Assumptions C08_doppler_error.

Example C08_example :
  scaled_range 80 512 (-5) = 43218108411%N /\ agg_range4 80 512 7 = agg_range7 80 512 224 /\
  float_bits (range_m 43218108411) = 4717243441704860898%N.
Proof. repeat split; vm_compute; reflexivity. Qed.

(* ===================== C04 ===================== *)
(* For every well-formed abstract MSM4/MSM7 message m (any of the 14 types, any satellite,
   signal and cell masks with at most 64 cells, any in-range field values including the
   'invalid' markers, multiple-message flag as the property allows) and every number of zero
   padding bytes, the decoder applied to the frame the specification encoder wrote returns
   exactly the decoded view of m: every header field, the satellite, signal and cell tables
   implied by the masks, every satellite cell and every signal cell attached to the right
   satellite and signal id. The right-hand side does not mention [pad]: the result is the same
   however many padding bytes follow, and no well-formed message is rejected. *)
Theorem C04_roundtrip : forall m pad, wf_amsm m = true ->
  decode_msm (a_k7 m) (msm_frame m pad) = Ok (view m).
Proof. exact msm_roundtrip. Qed.
Print Assumptions C04_roundtrip.

(* Up to the 1023-byte payload limit that frame is a valid RTCM3 frame (C01's predicate). *)
Theorem C04_frame_valid : forall m pad, wf_amsm m = true -> (payload_bytes m + pad <= 1023)%nat ->
  valid_frame (msm_frame m pad).
Proof. exact msm_frame_valid. Qed.
Print Assumptions C04_frame_valid.

Example C04_example :
  let m := {| a_k7 := true; a_type := 1077%N; a_station := 5%N; a_ts := 432000000%N; a_multi := true; a_iods := 3%N;
              a_sess := 0%N; a_clk := 1%N; a_ext := 2%N; a_smooth := true; a_smint := 5%N;
              a_sats := [3; 17; 64]%N; a_sigs := [2; 32]%N;
              a_rows := [[true; false]; [false; false]; [true; true]];
              a_satdata := [(81%N, 3%N, 1000%N, (-8192)%Z); (255%N, 15%N, 0%N, 8191%Z); (70%N, 0%N, 512%N, (-1)%Z)];
              a_sigdata := [((-524288)%Z, 8388607%Z, 1023%N, true, 1023%N, (-16384)%Z);
                            (0%Z, 0%Z, 0%N, false, 0%N, 0%Z);
                            (12345%Z, (-8388608)%Z, 7%N, true, 300%N, 16383%Z)] |} in
  wf_amsm m = true /\ decode_msm true (msm_frame m 3) = Ok (view m) /\
  map (map g_id) (m_sigs (view m)) = [[2]; []; [2; 32]]%N.
Proof. cbv zeta. split; [vm_compute; reflexivity|]. split; vm_compute; reflexivity. Qed.

(* ===================== C09 ===================== *)
(* The reader -> framer -> fan-out -> consumers network of appcore.HandleMessagesUntilEOF (Pipe.v),
   for ANY framing state machine (fstep, fflush), any input bytes, any number k of consumer
   entries of which any may be nil (live i = false), and any channel capacities >= 1:
   there is a bound n such that every execution under every schedule
     - has at most n steps (no schedule runs for ever),
     - can be continued to the one configuration [fin] (no schedule is stuck anywhere else:
       no deadlock, and no process blocked on a second close of a channel),
     - and if it cannot be continued it IS [fin];
   in [fin] reader, framer and fan-out have halted, every channel is empty, and every non-nil
   consumer has recorded exactly the sequential output [seqrun] of the framer on the input. *)
Theorem C09_every_schedule :
  forall (B M FS : Type) (fstep : FS -> B -> FS * list M) (fflush : FS -> list M) (k : nat) (live : nat -> bool)
         cap0 cap1 caps (bs : list B) (s0 : FS),
  (1 <= cap0)%nat -> (1 <= cap1)%nat -> length caps = k -> Forall (fun c => (1 <= c)%nat) caps ->
  exists n, forall m c,
    steps _ (nstep _ _ _ (Pipe.prog B M FS fstep fflush k live) Pipe.sender Pipe.receiver (SkDone B M FS)) m
          (Pipe.init B M FS k cap0 cap1 caps bs s0) c ->
    (m <= n)%nat /\
    steps _ (nstep _ _ _ (Pipe.prog B M FS fstep fflush k live) Pipe.sender Pipe.receiver (SkDone B M FS)) (n - m) c
          (fin B M FS fstep fflush k live cap0 cap1 caps bs s0) /\
    (final_config _ _ _ (Pipe.prog B M FS fstep fflush k live) Pipe.sender Pipe.receiver (SkDone B M FS) c ->
     c = fin B M FS fstep fflush k live cap0 cap1 caps bs s0).
Proof. exact pipeline_every_schedule. Qed.
Print Assumptions C09_every_schedule.

Theorem C09_final_configuration :
  forall (B M FS : Type) (fstep : FS -> B -> FS * list M) (fflush : FS -> list M) (k : nat) (live : nat -> bool)
         cap0 cap1 caps (bs : list B) (s0 : FS),
  let f := fin B M FS fstep fflush k live cap0 cap1 caps bs s0 in
  halted B M FS fstep fflush k live f 0 /\ halted B M FS fstep fflush k live f 1 /\ halted B M FS fstep fflush k live f 2 /\
  (forall i, (i < k)%nat -> sink_out B M FS f i = if live i then seqrun B M FS fstep fflush s0 bs else []) /\
  (forall ch, (ch < 2 + k)%nat -> length caps = k -> buf (nth ch (chans f) (dchan _)) = []).
Proof. exact fin_shape. Qed.
Print Assumptions C09_final_configuration.

(* Instance: the framer is the model's stream handler (as a machine that is given the bytes one
   at a time and delivers what handle_stream delivers); its sequential output on the input is
   exactly handle_stream's message list, whose content C01/C02/C03 describe. *)
Theorem C09_frames : forall t0 (input : list N) (k : nat) (live : nat -> bool) cap0 cap1 caps,
  (1 <= cap0)%nat -> (1 <= cap1)%nat -> length caps = k -> Forall (fun c => (1 <= c)%nat) caps ->
  exists ms h', handle_stream (new_handler t0) input = Ok (ms, h') /\
  exists n, forall m c,
    steps _ (nstep _ _ _ (Pipe.prog N msg (list N) (fun acc b => (acc ++ [b], [])) (frame_flush t0) k live)
                   Pipe.sender Pipe.receiver (SkDone _ _ _)) m
          (Pipe.init N msg (list N) k cap0 cap1 caps input []) c ->
    (m <= n)%nat /\
    (final_config _ _ _ (Pipe.prog N msg (list N) (fun acc b => (acc ++ [b], [])) (frame_flush t0) k live)
                  Pipe.sender Pipe.receiver (SkDone _ _ _) c ->
     forall i, (i < k)%nat -> sink_out N msg (list N) c i = if live i then ms else []).
Proof. exact pipeline_frames. Qed.
Print Assumptions C09_frames.

Example C09_example :
  exists c, run _ _ _ (Pipe.prog nat nat nat (fun s b => (s + b, if Nat.even b then [s + b] else []))%nat (fun s => [s]) 2 (fun i => Nat.eqb i 1))
                Pipe.sender Pipe.receiver (SkDone _ _ _)
                (Pipe.init nat nat nat 2 1 1 [1; 1]%nat [3; 4]%nat 0%nat)
                [0; 1; 0; 1; 1; 2; 2; 4; 4; 0; 1; 1; 2; 2; 4; 4; 1; 2]%nat = Some c /\
            c = fin nat nat nat (fun s b => (s + b, if Nat.even b then [s + b] else []))%nat (fun s => [s]) 2 (fun i => Nat.eqb i 1)
                    1 1 [1; 1]%nat [3; 4]%nat 0%nat /\
            sink_out nat nat nat c 1 = [7; 7]%nat /\ sink_out nat nat nat c 0 = [].
Proof. eexists. split; [vm_compute; reflexivity|]. split; vm_compute; auto. Qed.

(* ===================== C10 ===================== *)
(* rtcmfilter's writer goroutines write the raw bytes of every message whose type is not
   NonRTCMMessage (filter_output). For EVERY input byte stream the stream handler cuts the
   input into consecutive messages (their raw bytes concatenate to the input: nothing is
   reordered, duplicated or invented), the output is the concatenation, in that order, of the
   pieces that are written, every written piece is a valid RTCM3 frame of the reported type,
   and every piece that is not written was delivered as non-RTCM data. *)
Theorem C10_any_input : forall h input, bytes_ok input ->
  exists ms h', handle_stream h input = Ok (ms, h') /\
    concat (map raw ms) = input /\
    filter_output ms = concat (map (fun m => if is_rtcm m then raw m else []) ms) /\
    Forall (fun m => if is_rtcm m then valid_frame (raw m) /\ mtype m = Z.of_N (frame_type (raw m))
                     else mtype m = NonRTCMMessage) ms.
Proof. exact filter_any_input. Qed.
Print Assumptions C10_any_input.

(* For a stream of valid frames interleaved with other data free of 0xD3 and an optional
   truncated frame at the end, the output is exactly the frames, in order: no omission. *)
Theorem C10_segments : forall h segs tail, wf_segsb segs = true -> tail_ok tail ->
  exists ms h', handle_stream h (flatten segs ++ tail) = Ok (ms, h') /\ filter_output ms = frames_of segs.
Proof. exact filter_segments. Qed.
Print Assumptions C10_segments.

(* The same for the running program: reader, framer, fan-out and k writer goroutines (output,
   display log, record file as configured) under every schedule and all channel capacities:
   every execution is finite and when nothing can move any more every writer has written
   exactly the frames (the record file holds the same bytes as the output). *)
Theorem C10_every_schedule : forall t0 segs tail (k : nat) (live : nat -> bool) cap0 cap1 caps,
  wf_segsb segs = true -> tail_ok tail ->
  (1 <= cap0)%nat -> (1 <= cap1)%nat -> length caps = k -> Forall (fun c => (1 <= c)%nat) caps ->
  exists n, forall m c,
    steps _ (nstep _ _ _ (Pipe.prog N msg (list N) (fun acc b => (acc ++ [b], [])) (frame_flush t0) k live)
                   Pipe.sender Pipe.receiver (SkDone _ _ _)) m
          (Pipe.init N msg (list N) k cap0 cap1 caps (flatten segs ++ tail) []) c ->
    (m <= n)%nat /\
    (final_config _ _ _ (Pipe.prog N msg (list N) (fun acc b => (acc ++ [b], [])) (frame_flush t0) k live)
                  Pipe.sender Pipe.receiver (SkDone _ _ _) c ->
     forall i, (i < k)%nat -> live i = true -> filter_output (sink_out N msg (list N) c i) = frames_of segs).
Proof. exact filter_every_schedule. Qed.
Print Assumptions C10_every_schedule.

Example C10_example :
  let f := [211; 0; 19; 62; 208; 2; 12; 10; 88; 246; 126; 253; 63; 255; 237; 41; 121; 12; 239; 94; 128; 227; 229; 56; 76]%N in
  let segs := [Junk [36; 71]; Frame f; Junk [80]; Frame f; Junk [1]]%N in
  wf_segsb segs = true /\ tail_ok (firstn 9 f) /\ frames_of segs = (f ++ f)%list /\
  exists ms h', handle_stream (new_handler 0) (flatten segs ++ firstn 9 f) = Ok (ms, h') /\ filter_output ms = (f ++ f)%list.
Proof.
  cbv zeta. split; [vm_compute; reflexivity|]. split; [|split; [vm_compute; reflexivity|]].
  - right. split; [discriminate|]. eexists. exists (skipn 9 [211; 0; 19; 62; 208; 2; 12; 10; 88; 246; 126; 253; 63; 255; 237; 41; 121; 12; 239; 94; 128; 227; 229; 56; 76]%N).
    split; [|split; [symmetry; apply firstn_skipn|discriminate]]. vm_compute. reflexivity.
  - eexists. eexists. split; vm_compute; reflexivity.
Qed.

(* ===================== C11 ===================== *)
(* displayrtcm3 and rtcmfilter: the entry point hands every message to a writer goroutine over
   a channel, closes the channel and waits for the writer.  In EVERY reachable configuration of
   that network - every interleaving, every channel capacity >= 1 (Go's unbuffered channel being
   the capacity-1 case with immediate receive), every writer latency lat (internal steps per
   write) - once the entry point has returned the writer has written every message, in order.
   The [wait] parameter is read from the source on every run (the waits_... constants of GenConsts). *)
Theorem C11_flushed_displayrtcm3 : forall (V : Type) lat cap (ms : list V) c, (1 <= cap)%nat ->
  reachable _ _ _ (prog V lat false waits_displayrtcm3) sender receiver (MDone V) (init V cap ms) c ->
  returned V (main_out V c) = true -> writes V (writer_out V c) = ms.
Proof.
  intros V lat cap ms c Hc Hr Hret.
  exact (proj1 (flushed_at_return V lat false waits_displayrtcm3 cap ms c eq_refl Hc Hr Hret)).
Qed.
Print Assumptions C11_flushed_displayrtcm3.

Theorem C11_flushed_rtcmfilter : forall (V : Type) lat cap (ms : list V) c, (1 <= cap)%nat ->
  reachable _ _ _ (prog V lat false waits_rtcmfilter) sender receiver (MDone V) (init V cap ms) c ->
  returned V (main_out V c) = true -> writes V (writer_out V c) = ms.
Proof.
  intros V lat cap ms c Hc Hr Hret.
  exact (proj1 (flushed_at_return V lat false waits_rtcmfilter cap ms c eq_refl Hc Hr Hret)).
Qed.
Print Assumptions C11_flushed_rtcmfilter.

(* No schedule deadlocks: a configuration in which nothing can move is the one where the entry
   point has returned and the writer has finished. *)
Theorem C11_no_deadlock : forall (V : Type) lat cap (ms : list V) c, (1 <= cap)%nat ->
  reachable _ _ _ (prog V lat false true) sender receiver (MDone V) (init V cap ms) c ->
  final_config _ _ _ (prog V lat false true) sender receiver (MDone V) c ->
  nth 0%nat (procs c) (MDone V) = MDone V /\ nth 1%nat (procs c) (MDone V) = WHalt V.
Proof. intros V lat cap ms c Hc. exact (no_deadlock V lat false true cap ms c eq_refl Hc). Qed.
Print Assumptions C11_no_deadlock.

(* The protocol without the wait (the code before its repair) loses output: main has returned and
   the writer has written nothing. *)
Theorem C11_unrepaired_witness :
  exists c, run (st nat) nat (ev nat) (prog nat 0%nat false false) sender receiver (MDone nat) (init nat 1%nat [7]%nat) [0; 0; 0]%nat = Some c /\
            returned nat (main_out nat c) = true /\ writes nat (writer_out nat c) = []%list.
Proof. exact unrepaired_witness. Qed.
Print Assumptions C11_unrepaired_witness.

(* ===================== C16 ===================== *)
(* rtcmlogger: the copy loop writes each block to stdout itself (pass-through), hands a copy to
   the recorder goroutine, and at end of input closes the channel and waits for the recorder.
   In every reachable configuration in which the program has ended (main has returned), stdout
   and the record both hold exactly the input blocks, complete and in order. *)
Theorem C16_logger : forall (V : Type) lat cap (blocks : list V) c, (1 <= cap)%nat ->
  reachable _ _ _ (prog V lat true waits_rtcmlogger) sender receiver (MDone V) (init V cap blocks) c ->
  returned V (main_out V c) = true ->
  passes V (main_out V c) = blocks /\ writes V (writer_out V c) = blocks.
Proof.
  intros V lat cap blocks c Hc Hr Hret.
  destruct (flushed_at_return V lat true waits_rtcmlogger cap blocks c eq_refl Hc Hr Hret) as [A B].
  split; [apply B; reflexivity|exact A].
Qed.
Print Assumptions C16_logger.

Theorem C16_no_deadlock : forall (V : Type) lat cap (blocks : list V) c, (1 <= cap)%nat ->
  reachable _ _ _ (prog V lat true true) sender receiver (MDone V) (init V cap blocks) c ->
  final_config _ _ _ (prog V lat true true) sender receiver (MDone V) c ->
  nth 0%nat (procs c) (MDone V) = MDone V /\ nth 1%nat (procs c) (MDone V) = WHalt V.
Proof. intros V lat cap blocks c Hc. exact (no_deadlock V lat true true cap blocks c eq_refl Hc). Qed.
Print Assumptions C16_no_deadlock.

Example C16_example :
  exists c, run (st nat) nat (ev nat) (prog nat 1%nat true true) sender receiver (MDone nat) (init nat 1%nat [4; 5]%nat)
              [0; 0; 1; 0; 1; 1; 0; 1; 1; 1; 0; 1; 1; 0; 0]%nat = Some c /\
            returned nat (main_out nat c) = true /\ passes nat (main_out nat c) = [4; 5]%nat /\ writes nat (writer_out nat c) = [4; 5]%nat.
Proof. eexists. split; [vm_compute; reflexivity|]. repeat split. Qed.

(* ===================== C07 (full decoding) ===================== *)
(* For arbitrary bytes - in particular CRC-valid frames whose payload is shorter than or
   inconsistent with what the message type requires, masks announcing more cells than fit -
   the MSM4 and MSM7 decoders (header, satellite cells, the cell-count inference, signal cells,
   attachment) and the 1005/1006 decoders return a message or an error, never a panic
   (no bit is read outside the buffer). *)
Theorem C07_decoders : forall b,
  decode_msm4 b <> Panic /\ decode_msm7 b <> Panic /\ decode1005 b <> Panic /\ decode1006 b <> Panic.
Proof.
  intros b. split; [apply decode_msm4_no_panic|]. split; [apply decode_msm7_no_panic|]. split.
  - destruct (decode1005_total b) as [(m & -> & _)|[->| ->]]; discriminate.
  - destruct (decode1006_total b) as [(m & -> & _)|[->| ->]]; discriminate.
Qed.
Print Assumptions C07_decoders.

(* Properties.v - umbrella: the property theorems live in one file per property, P_C01.v ... P_C20.v
   (theorem statements closed by [exact <lemma>] and followed by Print Assumptions, nothing else).
   This file only requires them all, for whole-development builds and coqchk. *)
From NTRIP Require P_C01 P_C02 P_C03 P_C04 P_C05 P_C06 P_C07 P_C08 P_C09 P_C10
                   P_C11 P_C12 P_C13 P_C14 P_C15 P_C16 P_C17 P_C18 P_C19 P_C20.

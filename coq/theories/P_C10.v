(* P_C10.v - the theorems of property C10 and nothing else: each is closed by [exact <lemma>]
   (or a one-line instantiation) and followed by Print Assumptions.  One file per property, importing only
   what that property's statements need, so that a change which breaks one property's proof leaves the
   others' theorems checkable. *)
From NTRIP Require Import Base Bits Time Classify Frame FrameSpec FrameProofs SegProofs Net Pipe PipeFrames IncFrame PipeInc FilterProofs.
From NTRIPGen Require Import GenConsts.

(* ===================== C10 ===================== *)
(* rtcmfilter's writer goroutines write the raw bytes of every message whose type is not
   NonRTCMMessage (filter_output). For EVERY input byte stream the stream handler cuts the
   input into consecutive messages (their raw bytes concatenate to the input: nothing is
   reordered, duplicated or invented), the output is the concatenation, in that order, of the
   pieces that are written, every written piece is a valid RTCM3 frame of the reported type,
   and every piece that is not written was delivered as non-RTCM data. *)
Theorem C10_any_input : forall h input, bytes_ok input ->
  exists ms h', handle_stream h input = Ok (ms, h') /\
    concat (map raw ms) = input /\
    filter_output ms = concat (map (fun m => if is_rtcm m then raw m else []) ms) /\
    Forall (fun m => if is_rtcm m then valid_frame (raw m) /\ mtype m = Z.of_N (frame_type (raw m))
                     else mtype m = NonRTCMMessage) ms.
Proof. exact filter_any_input. Qed.
Print Assumptions C10_any_input.

(* For a stream of valid frames interleaved with other data free of 0xD3 and an optional
   truncated frame at the end, the output is exactly the frames, in order: no omission. *)
Theorem C10_segments : forall h segs tail, wf_segsb segs = true -> tail_ok tail ->
  exists ms h', handle_stream h (flatten segs ++ tail) = Ok (ms, h') /\ filter_output ms = frames_of segs.
Proof. exact filter_segments. Qed.
Print Assumptions C10_segments.

(* The same for the running program: reader, framer, fan-out and k writer goroutines (output,
   display log, record file as configured) under every schedule and all channel capacities:
   every execution is finite and when nothing can move any more every writer has written
   exactly the frames (the record file holds the same bytes as the output). *)
Theorem C10_every_schedule : forall t0 segs tail (k : nat) (live sync : nat -> bool) cap0 cap1 caps,
  wf_segsb segs = true -> tail_ok tail ->
  (1 <= cap0)%nat -> (1 <= cap1)%nat -> length caps = k -> Forall (fun c => (1 <= c)%nat) caps ->
  exists n, forall m c,
    steps _ (nstep _ _ _ (Pipe.prog N msg (list N) (fun acc b => (acc ++ [b], [])) (frame_flush t0) k live sync)
                   Pipe.sender Pipe.receiver (SkDone _ _ _)) m
          (Pipe.init N msg (list N) k cap0 cap1 caps (flatten segs ++ tail) []) c ->
    (m <= n)%nat /\
    (final_config _ _ _ (Pipe.prog N msg (list N) (fun acc b => (acc ++ [b], [])) (frame_flush t0) k live sync)
                  Pipe.sender Pipe.receiver (SkDone _ _ _) c ->
     forall i, (i < k)%nat -> live i = true -> filter_output (sink_out N msg (list N) c i) = frames_of segs).
Proof. exact filter_every_schedule. Qed.
Print Assumptions C10_every_schedule.

(* The same with the byte-driven framer of IncFrame.v as the framer process. *)
Theorem C10_every_schedule_incremental : forall t0 segs tail (k : nat) (live sync : nat -> bool) cap0 cap1 caps,
  wf_segsb segs = true -> tail_ok tail ->
  (1 <= cap0)%nat -> (1 <= cap1)%nat -> length caps = k -> Forall (fun c => (1 <= c)%nat) caps ->
  exists n, forall m c,
    steps _ (nstep _ _ _ (Pipe.prog N msg mstate mstep mflush k live sync) Pipe.sender Pipe.receiver (SkDone _ _ _)) m
          (Pipe.init N msg mstate k cap0 cap1 caps (flatten segs ++ tail) (new_handler t0, PEat [])) c ->
    (m <= n)%nat /\
    (final_config _ _ _ (Pipe.prog N msg mstate mstep mflush k live sync) Pipe.sender Pipe.receiver (SkDone _ _ _) c ->
     forall i, (i < k)%nat -> live i = true -> filter_output (sink_out N msg mstate c i) = frames_of segs).
Proof. exact filter_incremental. Qed.
Print Assumptions C10_every_schedule_incremental.

(* is_rtcm / filter_output transcribe rtcmfilter's writeRTCMMessages: its single continue statement is
   guarded by  message.MessageType == utils.NonRTCMMessage  and its single Write call writes
   message.RawData; the writers sit behind appcore's fan-out loop.  Both shapes are re-read from the
   source on every run. *)
Theorem C10_source_shape : filter_skips_only_nonrtcm = true /\ fanout_all_non_nil = true.
Proof. split; reflexivity. Qed.
Print Assumptions C10_source_shape.

Example C10_example :
  let f := [211; 0; 19; 62; 208; 2; 12; 10; 88; 246; 126; 253; 63; 255; 237; 41; 121; 12; 239; 94; 128; 227; 229; 56; 76]%N in
  let segs := [Junk [36; 71]; Frame f; Junk [80]; Frame f; Junk [1]]%N in
  wf_segsb segs = true /\ tail_ok (firstn 9 f) /\ frames_of segs = (f ++ f)%list /\
  exists ms h', handle_stream (new_handler 0) (flatten segs ++ firstn 9 f) = Ok (ms, h') /\ filter_output ms = (f ++ f)%list.
Proof.
  cbv zeta. split; [vm_compute; reflexivity|]. split; [|split; [vm_compute; reflexivity|]].
  - right. split; [discriminate|]. eexists. exists (skipn 9 [211; 0; 19; 62; 208; 2; 12; 10; 88; 246; 126; 253; 63; 255; 237; 41; 121; 12; 239; 94; 128; 227; 229; 56; 76]%N).
    split; [|split; [symmetry; apply firstn_skipn|discriminate]]. vm_compute. reflexivity.
  - eexists. eexists. split; vm_compute; reflexivity.
Qed.


(* P_C19.v - the theorems of property C19 and nothing else: each is closed by [exact <lemma>]
   (or a one-line instantiation) and followed by Print Assumptions.  One file per property, importing only
   what that property's statements need, so that a change which breaks one property's proof leaves the
   others' theorems checkable. *)
From NTRIP Require Import Base Html Net.
From NTRIP Require Relay RelayLocal RelayPrefix.

(* ===================== C19 (report part) ===================== *)
(* Every traffic-derived part of the status page (both buffer dumps and the message list) is
   passed through the sanitiser, and sanitised text contains neither '<' nor '>'. *)
Theorem C19_escaped : forall dump_c dump_s displays,
  forallb no_markup (traffic_parts dump_c dump_s displays) = true.
Proof. exact traffic_parts_escaped. Qed.
Print Assumptions C19_escaped.

Theorem C19_sanitise : forall s, no_markup (sanitise s) = true.
Proof. exact sanitise_no_markup. Qed.
Print Assumptions C19_sanitise.

Example C19_example : sanitise [60; 98; 62]%N = [38; 108; 116; 59; 98; 38; 103; 116; 59]%N.
Proof. vm_compute. reflexivity. Qed.

(* The relay half (Relay.v): the client-to-server loop pushes every byte of a chunk to the
   traffic parser and then writes the chunk to the server; the parser (ANY framing state machine)
   feeds the queue updater.  For all chunk sequences, all capacities >= 1 of the byte and message
   channels and every schedule: executions are finite, each can be completed to one final
   configuration and a maximal one IS that configuration; in it the loop has returned, the
   server has been written exactly the client's chunks in order and unchanged (parsing can delay
   the relay but neither alters, withholds nor stops it), both channels are empty, and the queue
   was given exactly the messages sequential framing finds in the relayed bytes. *)
Theorem C19_relay_every_schedule :
  forall (B M FS : Type) (fstep : FS -> B -> FS * list M) (sync : nat -> bool) cap0 cap1 (chunks : list (list B)) (s0 : FS),
  (1 <= cap0)%nat -> (1 <= cap1)%nat ->
  exists n, forall m c,
    steps _ (nstep _ _ _ (Relay.prog B M FS fstep sync) Relay.sender Relay.receiver (Relay.QDead B M FS)) m
          (Relay.init B M FS cap0 cap1 chunks s0) c ->
    (m <= n)%nat /\
    steps _ (nstep _ _ _ (Relay.prog B M FS fstep sync) Relay.sender Relay.receiver (Relay.QDead B M FS)) (n - m) c
          (Relay.fin B M FS fstep cap0 cap1 chunks s0) /\
    (final_config _ _ _ (Relay.prog B M FS fstep sync) Relay.sender Relay.receiver (Relay.QDead B M FS) c ->
     c = Relay.fin B M FS fstep cap0 cap1 chunks s0).
Proof. exact Relay.relay_every_schedule. Qed.
Print Assumptions C19_relay_every_schedule.

Theorem C19_relay_final :
  forall (B M FS : Type) (fstep : FS -> B -> FS * list M) (sync : nat -> bool) cap0 cap1 (chunks : list (list B)) (s0 : FS),
  let f := Relay.fin B M FS fstep cap0 cap1 chunks s0 in
  Relay.server_writes B M FS f = map (Relay.EvW B M) chunks /\
  Relay.queue_adds B M FS f = map (Relay.EvQ B M) (fst (Relay.frun B M FS fstep s0 (concat chunks))) /\
  Relay.prog B M FS fstep sync (nth 0%nat (procs f) (Relay.QDead B M FS)) = OHalt _ _ _ /\
  buf (nth 0%nat (chans f) (dchan _)) = [] /\ buf (nth 1%nat (chans f) (dchan _)) = [].
Proof. exact Relay.fin_shape. Qed.
Print Assumptions C19_relay_final.

(* Not only at the end: after ANY number of steps of ANY schedule the server has been written a prefix of the
   client's chunks, each unchanged and in order - whatever the parser and the queue updater are doing. *)
Theorem C19_relay_prefix_always :
  forall (B M FS : Type) (fstep : FS -> B -> FS * list M) (sync : nat -> bool) cap0 cap1 (chunks : list (list B)) (s0 : FS) n c,
  steps _ (nstep _ _ _ (Relay.prog B M FS fstep sync) Relay.sender Relay.receiver (Relay.QDead B M FS)) n
        (Relay.init B M FS cap0 cap1 chunks s0) c ->
  exists done rest, chunks = (done ++ rest)%list /\ Relay.server_writes B M FS c = map (Relay.EvW B M) done.
Proof. exact RelayLocal.relay_prefix_always. Qed.
Print Assumptions C19_relay_prefix_always.

(* ... and the queue (what the status report lists) has been given a prefix of the messages that sequential framing finds
   in the client's bytes: at no moment does it hold anything that is not relayed traffic, in order. *)
Theorem C19_queue_prefix_always :
  forall (B M FS : Type) (fstep : FS -> B -> FS * list M) (sync : nat -> bool) cap0 cap1 (chunks : list (list B)) (s0 : FS),
  (1 <= cap0)%nat -> (1 <= cap1)%nat ->
  forall m c,
    steps _ (nstep _ _ _ (Relay.prog B M FS fstep sync) Relay.sender Relay.receiver (Relay.QDead B M FS)) m
          (Relay.init B M FS cap0 cap1 chunks s0) c ->
    exists rest, map (Relay.EvQ B M) (fst (Relay.frun B M FS fstep s0 (concat chunks))) = (Relay.queue_adds B M FS c ++ rest)%list.
Proof. exact RelayPrefix.relay_queue_prefix_always. Qed.
Print Assumptions C19_queue_prefix_always.




(* Net.v - a small semantics of goroutines communicating over Go channels:
   sequential processes over one state type, buffered channels with static sender/closer and
   receiver (Kahn-shaped networks), per-process deterministic steps.  Go's unbuffered channel
   is a two-phase send on a one-slot channel: the sender puts the value (OSend) and then waits
   (OAwait) until the slot is empty again, i.e. until the receiver has taken it - a send
   completes exactly when the receive has happened, and every step still belongs to one process.
   Proved: one-step diamond for different processes, and determinacy - if one execution reaches
   a final configuration in n steps then every execution has at most n steps and can be
   completed to that same configuration. *)

From Coq Require Import List Arith Lia Bool.
Import ListNotations.
Section Det.
  Variable A : Type.
  Variable R : A -> A -> Prop.
  Hypothesis diamond : forall a b c, R a b -> R a c -> b = c \/ exists d, R b d /\ R c d.

  Inductive steps : nat -> A -> A -> Prop :=
  | s0 a : steps 0 a a
  | sS n a b c : R a b -> steps n b c -> steps (S n) a c.

  Definition final (a : A) := forall b, ~ R a b.

  Lemma steps_snoc n a b c : steps n a b -> R b c -> steps (S n) a c.
  Proof. induction 1; intros. - econstructor; eauto; constructor. - econstructor; eauto. Qed.

  Theorem determinacy : forall n a f, steps n a f -> final f ->
    forall m b, steps m a b -> m <= n /\ steps (n - m) b f.
  Proof.
    induction n as [|n IH]; intros a f Haf Hf m b Hab.
    - inversion Haf; subst. inversion Hab; subst.
      + split; [lia|constructor].
      + exfalso. eapply Hf; eauto.
    - inversion Haf as [|n' a' a1 f' Ha1 Hrest]; subst.
      inversion Hab as [|m' a'' b1 b' Hb1 Hrest']; subst.
      + split; [lia|]. simpl. econstructor; eauto.
      + destruct (diamond _ _ _ Ha1 Hb1) as [Heq | [d [Hd1 Hd2]]].
        * subst b1. destruct (IH _ _ Hrest Hf _ _ Hrest') as [Hle Hs].
          split; [lia|]. replace (S n - S m') with (n - m') by lia. exact Hs.
        * assert (H1 : steps 1 a1 d) by (econstructor; eauto; constructor).
          destruct (IH _ _ Hrest Hf _ _ H1) as [Hle1 Hd].
          assert (Hb1f : steps n b1 f).
          { replace n with (S (n - 1)) by lia. econstructor; eauto. }
          destruct (IH _ _ Hb1f Hf _ _ Hrest') as [Hle Hs].
          split; [lia|]. replace (S n - S m') with (n - m') by lia. exact Hs.
  Qed.
End Det.




Section Upd.
  Context {A : Type}.
  Fixpoint upd (l : list A) (i : nat) (a : A) : list A :=
    match l, i with
    | [], _ => []
    | _ :: t, O => a :: t
    | h :: t, S j => h :: upd t j a
    end.
  Lemma nth_upd_eq l i a d : i < length l -> nth i (upd l i a) d = a.
  Proof. revert i; induction l; destruct i; simpl; intros; try lia; auto. apply IHl; lia. Qed.
  Lemma nth_upd_neq l i j a d : i <> j -> nth j (upd l i a) d = nth j l d.
  Proof. revert i j; induction l; destruct i, j; simpl; intros; try lia; auto. Qed.
  Lemma upd_length l i a : length (upd l i a) = length l.
  Proof. revert i; induction l; destruct i; simpl; auto. Qed.
  Lemma upd_comm l i j a b : i <> j -> upd (upd l i a) j b = upd (upd l j b) i a.
  Proof. revert i j; induction l; destruct i, j; simpl; intros; try lia; auto. f_equal. apply IHl; lia. Qed.
  Lemma upd_upd l i a b : upd (upd l i a) i b = upd l i b.
  Proof. revert i; induction l; destruct i; simpl; auto. f_equal; auto. Qed.
End Upd.

Section Net.
  Variables St V Ev : Type.
  Inductive op :=
  | OSend (c : nat) (v : V) (k : St)
  | ORecv (c : nat) (k : option V -> St)
  | OClose (c : nat) (k : St)
  | OEmit (e : Ev) (k : St)
  | OAwait (c : nat) (k : St)      (* the sender of c waits until what it has sent on c has been taken *)
  | OHalt.
  Variable prog : St -> op.
  Variables sender receiver : nat -> nat.      (* static channel ownership *)
  Variable dSt : St.

  Record chan := { buf : list V; cap : nat; closed : bool }.
  Definition dchan := {| buf := []; cap := 1; closed := false |}.
  Record config := { procs : list St; chans : list chan; outs : list (list Ev) }.

  Definition pstep (c : config) (p : nat) : option config :=
    if negb (p <? length (procs c)) then None else
    match prog (nth p (procs c) dSt) with
    | OHalt => None
    | OEmit e k => Some {| procs := upd (procs c) p k; chans := chans c;
                           outs := upd (outs c) p (nth p (outs c) [] ++ [e]) |}
    | OSend ch v k =>
        let x := nth ch (chans c) dchan in
        if (sender ch =? p) && (ch <? length (chans c)) && negb (closed x) && (length (buf x) <? cap x)
        then Some {| procs := upd (procs c) p k;
                     chans := upd (chans c) ch {| buf := buf x ++ [v]; cap := cap x; closed := closed x |};
                     outs := outs c |}
        else None
    | OClose ch k =>
        let x := nth ch (chans c) dchan in
        if (sender ch =? p) && (ch <? length (chans c)) && negb (closed x)
        then Some {| procs := upd (procs c) p k;
                     chans := upd (chans c) ch {| buf := buf x; cap := cap x; closed := true |};
                     outs := outs c |}
        else None
    | OAwait ch k =>
        let x := nth ch (chans c) dchan in
        if (sender ch =? p) && (ch <? length (chans c)) then
          match buf x with
          | [] => Some {| procs := upd (procs c) p k; chans := chans c; outs := outs c |}
          | _ :: _ => None
          end
        else None
    | ORecv ch k =>
        let x := nth ch (chans c) dchan in
        if (receiver ch =? p) && (ch <? length (chans c)) then
          match buf x with
          | v :: rest => Some {| procs := upd (procs c) p (k (Some v));
                                 chans := upd (chans c) ch {| buf := rest; cap := cap x; closed := closed x |};
                                 outs := outs c |}
          | [] => if closed x then Some {| procs := upd (procs c) p (k None); chans := chans c; outs := outs c |}
                  else None
          end
        else None
    end.

  Hypothesis kahn : forall ch, sender ch <> receiver ch.

  Lemma chan_eta x : {| buf := buf x; cap := cap x; closed := closed x |} = x.
  Proof. destruct x; reflexivity. Qed.

  (* local view of a step: what it needs and what it changes *)
  Ltac prep H :=
    unfold pstep in H;
    match type of H with context[negb (?p <? ?n)] =>
      let L := fresh "L" in destruct (p <? n) eqn:L; [|discriminate]; cbn [negb] in H end.

  Ltac splitb := repeat match goal with
    | H : _ && _ = true |- _ => apply andb_true_iff in H; destruct H
    | H : negb _ = true |- _ => apply negb_true_iff in H
    | H : (_ =? _) = true |- _ => apply Nat.eqb_eq in H
    end.

  Theorem diamond : forall c p q c1 c2, p <> q ->
    pstep c p = Some c1 -> pstep c q = Some c2 ->
    exists d, pstep c1 q = Some d /\ pstep c2 p = Some d.
  Proof.
    intros c p q c1 c2 Hpq H1 H2. prep H1. prep H2.
    destruct (prog (nth p (procs c) dSt)) as [ch1 v1 k1|ch1 k1|ch1 k1|e1 k1|ch1 k1|] eqn:P1; try discriminate;
    destruct (prog (nth q (procs c) dSt)) as [ch2 v2 k2|ch2 k2|ch2 k2|e2 k2|ch2 k2|] eqn:P2; try discriminate;
    cbv zeta in H1, H2;
    repeat match goal with
    | H : (if ?b then _ else _) = Some _ |- _ => let E := fresh "E" in destruct b eqn:E; [|discriminate]
    | H : match buf ?x with _ => _ end = Some _ |- _ => let E := fresh "B" in destruct (buf x) eqn:E
    | H : (if ?b then _ else _) = Some _ |- _ => let E := fresh "E" in destruct b eqn:E; [|discriminate]
    end; try discriminate;
    injection H1 as <-; injection H2 as <-; splitb;
    unfold pstep; cbn [procs chans outs]; rewrite ?upd_length, ?L, ?L0; cbn [negb];
    rewrite ?(nth_upd_neq _ p q) by auto; rewrite ?(nth_upd_neq _ q p) by auto; rewrite ?P1, ?P2; cbv zeta.
    all: try (destruct (Nat.eq_dec ch1 ch2) as [->|Hch];
      [ try (exfalso; congruence); try (exfalso; apply (kahn ch2); congruence) | ]).
    all: rewrite ?upd_length.
    all: rewrite ?(nth_upd_neq _ ch1 ch2) by auto; rewrite ?(nth_upd_neq _ ch2 ch1) by auto.
    all: rewrite ?nth_upd_eq by (apply Nat.ltb_lt; assumption).
    all: cbn [buf cap closed].
    all: repeat match goal with
      | H : ?a = ?b |- context[?a] => rewrite H
      end.
    all: rewrite ?Nat.eqb_refl; cbn [andb negb].
    all: repeat match goal with H : (_ <? _) = true |- _ => rewrite H end; cbn [andb negb].
    all: try (eexists; split; [reflexivity|]; f_equal; f_equal; auto using upd_comm; fail).
    all: cbn [app]; rewrite ?upd_upd.
    all: repeat match goal with
      | H : (length (buf ?x) <? cap ?x) = true, B : buf ?x = _ :: ?l |- context[length ?l <? cap ?x] =>
          replace (length l <? cap x) with true
            by (symmetry; apply Nat.ltb_lt; rewrite B in H; apply Nat.ltb_lt in H; simpl in H; lia)
      end.
    all: try (eexists; split; [reflexivity|]; f_equal; [auto using upd_comm | rewrite ?upd_upd; reflexivity]; fail).
    all: eexists; split; [reflexivity|]; rewrite (upd_comm (procs c) q p) by auto; reflexivity.
  Qed.
End Net.



(* ---------- executions of a network ---------- *)

Section Exec.
  Variables St V Ev : Type.
  Variable prog : St -> op St V Ev.
  Variables sender receiver : nat -> nat.
  Variable dSt : St.

  Notation config := (config St V Ev).
  Notation pstep := (pstep St V Ev prog sender receiver dSt).

  Definition nstep (a b : config) : Prop := exists p, pstep a p = Some b.

  Lemma nstep_diamond a b c : nstep a b -> nstep a c -> b = c \/ exists d, nstep b d /\ nstep c d.
  Proof.
    intros [p Hp] [q Hq]. destruct (Nat.eq_dec p q) as [->|Hne].
    - left. congruence.
    - right. destruct (diamond _ _ _ _ _ _ _ _ _ _ _ _ Hne Hp Hq) as (d & H1 & H2).
      exists d. split; [exists q; exact H1|exists p; exact H2].
  Qed.

  Definition reachable (c0 c : config) : Prop := exists n, steps config nstep n c0 c.
  Definition final_config (c : config) : Prop := final config nstep c.

  (* every schedule terminates in the same final configuration *)
  Theorem net_determinacy n c0 f : steps config nstep n c0 f -> final_config f ->
    forall m c, steps config nstep m c0 c -> m <= n /\ steps config nstep (n - m) c f.
  Proof. intros H Hf. exact (determinacy config nstep nstep_diamond n c0 f H Hf). Qed.

  Corollary net_unique_final n c0 f m g : steps config nstep n c0 f -> final_config f ->
    steps config nstep m c0 g -> final_config g -> g = f.
  Proof.
    intros H Hf Hg Hgf. destruct (net_determinacy n c0 f H Hf m g Hg) as [Hle Hrest].
    inversion Hrest as [|? ? b ? Hab _]; subst; [reflexivity|]. exfalso. exact (Hgf b Hab).
  Qed.

  (* running a given schedule (a list of process ids) *)
  Fixpoint run (c : config) (sched : list nat) : option config :=
    match sched with
    | [] => Some c
    | p :: r => match pstep c p with Some c' => run c' r | None => None end
    end.

  Lemma run_steps : forall sched c c', run c sched = Some c' -> steps config nstep (length sched) c c'.
  Proof.
    induction sched as [|p r IH]; intros c c' H; cbn in H.
    - injection H as <-. constructor.
    - destruct (pstep c p) as [c1|] eqn:E; [|discriminate]. cbn [length].
      econstructor; [exists p; exact E|apply IH; exact H].
  Qed.
End Exec.

(* Time.v - model of the handler's time state: New, getUTCFrom*Time,
   getUTCFromTimestamp, ParseTimestamp, getStartOfWeek.
   An instant is a Z count of nanoseconds since the Unix epoch (UTC). *)
From NTRIP Require Import Base.
From NTRIPGen Require Import GenConsts.
Open Scope Z_scope.

Definition ns_per_ms : Z := 1000000.
Definition ns_per_s : Z := 1000000000.
Definition ns_per_day : Z := 86400000000000.
Definition ns_per_week : Z := 604800000000000.

(* Go: now.In(UTC); crank back with AddDate(0,0,-1) until Weekday()==Sunday;
   time.Date(y,m,d,0,0,0,0,UTC).  1970-01-01 was a Thursday (weekday 4). *)
Definition start_of_last_sunday (t : Z) : Z :=
  let days := t / ns_per_day in
  let wd := (days + 4) mod 7 in
  (days - wd) * ns_per_day.

Inductive constellation := GPS | Galileo | Glonass | Beidou.

Record hstate := mkH {
  sGPS : Z; sGal : Z; sGlo : Z; sBei : Z;       (* start of the current week *)
  pGPS : N; pGal : N; pBei : N;                  (* timestamp of the previous message *)
  pGloDay : N;                                   (* Glonass day of the previous message *)
}.

(* handler.New(startTime, level) *)
Definition new_handler (T : Z) : hstate :=
  let gpsShift := -1 * GPSLeapSeconds * ns_per_s in
  let beidouShift := -1 * BeidouLeapSeconds * ns_per_s in
  let glonassShift := -1 * GlonassTimeOffsetNs in
  let startGPS := start_of_last_sunday (T + gpsShift) + GPSTimeOffsetNs in
  let startBei := start_of_last_sunday (T + beidouShift) + BeidouLeapSeconds * ns_per_s in
  let startGlo := start_of_last_sunday (T + glonassShift) + GlonassTimeOffsetNs in
  {| sGPS := startGPS; sGal := startGPS; sGlo := startGlo; sBei := startBei;
     pGPS := 0%N; pGal := 0%N; pBei := 0%N; pGloDay := 0%N |}.

(* the handler as it was before the repair of C17: previous timestamps start at the
   start time's own offset into the week *)
Definition new_handler_unrepaired (T : Z) : hstate :=
  let h := new_handler T in
  {| sGPS := sGPS h; sGal := sGal h; sGlo := sGlo h; sBei := sBei h;
     pGPS := Z.to_N (Z.quot (T - sGPS h) ns_per_ms);
     pGal := Z.to_N (Z.quot (T - sGPS h) ns_per_ms);
     pBei := Z.to_N (Z.quot (T - sBei h) ns_per_ms);
     pGloDay := 0%N |}.

(* getUTCFromTimestamp: (time, new start of week) or a range error *)
Definition utc_from_timestamp (ts prev : N) (start : Z) : res (Z * Z) :=
  if (MaxTimestamp <? ts)%N then Err ErrTimestampRange
  else
    let start' := if (ts <? prev)%N then start + 7 * ns_per_day else start in
    Ok (start' + Z.of_N ts * ns_per_ms, start').

(* utils.ParseTimestamp("Glonass", ts) *)
Definition parse_glonass (ts : N) : res (N * N) :=
  if (MaxTimestampGlonass <? ts)%N then Err ErrTimestampRange
  else
    let day := N.shiftr ts 27 in
    let millis := N.ldiff ts GlonassDayBitMask in
    if (MillisIn24Hours <=? millis)%N then Err ErrGlonassMillis
    else Ok (day, millis).

(* utils.ParseTimestamp(other, ts) *)
Definition parse_weekly (ts : N) : res (N * N) :=
  if (MaxTimestamp <? ts)%N then Err ErrTimestampRange
  else Ok ((ts / MillisIn24Hours)%N, (ts mod MillisIn24Hours)%N).

Definition constellation_of (mtype : Z) : option constellation :=
  if (mtype =? Z.of_N MessageTypeMSM4GPS) || (mtype =? Z.of_N MessageTypeMSM7GPS) then Some GPS
  else if (mtype =? Z.of_N MessageTypeMSM4Glonass) || (mtype =? Z.of_N MessageTypeMSM7Glonass) then Some Glonass
  else if (mtype =? Z.of_N MessageTypeMSM4Galileo) || (mtype =? Z.of_N MessageTypeMSM7Galileo) then Some Galileo
  else if (mtype =? Z.of_N MessageTypeMSM4Beidou) || (mtype =? Z.of_N MessageTypeMSM7Beidou) then Some Beidou
  else None.

(* getTimeFromTimeStamp: updates the state on success, leaves it alone on error *)
Definition time_from_timestamp (h : hstate) (mtype : Z) (ts : N) : res Z * hstate :=
  match constellation_of mtype with
  | None => (Err ErrUnknownType, h)
  | Some GPS =>
    match utc_from_timestamp ts (pGPS h) (sGPS h) with
    | Ok (t, s') => (Ok t, {| sGPS := s'; sGal := sGal h; sGlo := sGlo h; sBei := sBei h;
                              pGPS := ts; pGal := pGal h; pBei := pBei h; pGloDay := pGloDay h |})
    | Err e => (Err e, h) | Panic => (Panic, h)
    end
  | Some Galileo =>
    match utc_from_timestamp ts (pGal h) (sGal h) with
    | Ok (t, s') => (Ok t, {| sGPS := sGPS h; sGal := s'; sGlo := sGlo h; sBei := sBei h;
                              pGPS := pGPS h; pGal := ts; pBei := pBei h; pGloDay := pGloDay h |})
    | Err e => (Err e, h) | Panic => (Panic, h)
    end
  | Some Beidou =>
    match utc_from_timestamp ts (pBei h) (sBei h) with
    | Ok (t, s') => (Ok t, {| sGPS := sGPS h; sGal := sGal h; sGlo := sGlo h; sBei := s';
                              pGPS := pGPS h; pGal := pGal h; pBei := ts; pGloDay := pGloDay h |})
    | Err e => (Err e, h) | Panic => (Panic, h)
    end
  | Some Glonass =>
    match parse_glonass ts with
    | Ok (day, millis) =>
      let s' := if (day <? pGloDay h)%N then sGlo h + 7 * ns_per_day else sGlo h in
      (Ok (s' + Z.of_N day * ns_per_day + Z.of_N millis * ns_per_ms),
       {| sGPS := sGPS h; sGal := sGal h; sGlo := s'; sBei := sBei h;
          pGPS := pGPS h; pGal := pGal h; pBei := pBei h; pGloDay := day |})
    | Err e => (Err e, h) | Panic => (Panic, h)
    end
  end.

(* getStartOfWeek(messageType) *)
Definition start_of_week (h : hstate) (mtype : Z) : option Z :=
  match constellation_of mtype with
  | Some GPS => Some (sGPS h) | Some Galileo => Some (sGal h)
  | Some Glonass => Some (sGlo h) | Some Beidou => Some (sBei h)
  | None => None
  end.

module verifharness

go 1.21

require (
	github.com/goblimey/go-crc24q v0.0.0-20210107174841-6ea518daa3aa
	github.com/goblimey/go-ntrip v0.0.0
)

require github.com/goblimey/go-tools v0.0.11 // indirect

replace github.com/goblimey/go-ntrip => /repo

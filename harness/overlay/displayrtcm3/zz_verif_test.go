package main

// Injected by /verif through `go test -overlay`; not part of the repository.
// Runs the real HandleMessages of displayrtcm3 on scripted inputs with a writer of
// chosen latency and reports what had been written at the instant it returned.

import (
	"bufio"
	"bytes"
	"encoding/hex"
	"fmt"
	"io"
	"os"
	"strconv"
	"strings"
	"sync"
	"testing"
	"time"

	"github.com/goblimey/go-ntrip/jsonconfig"
)

// slowWriter stands for standard output or a file: it takes its time per call and, like *os.File, it can be closed,
// after which writes fail.
type slowWriter struct {
	mu      sync.Mutex
	buf     bytes.Buffer
	latency time.Duration
	calls   int
	closed  bool
}

func (w *slowWriter) Write(p []byte) (int, error) {
	if w.latency > 0 {
		time.Sleep(w.latency)
	}
	w.mu.Lock()
	defer w.mu.Unlock()
	w.calls++
	if w.closed {
		return 0, os.ErrClosed
	}
	return w.buf.Write(p)
}

func (w *slowWriter) Close() error {
	w.mu.Lock()
	defer w.mu.Unlock()
	w.closed = true
	return nil
}

func (w *slowWriter) snapshot() []byte {
	w.mu.Lock()
	defer w.mu.Unlock()
	return append([]byte(nil), w.buf.Bytes()...)
}

// chunkReader hands out the data in the given chunk sizes (cyclically).
type chunkReader struct {
	data        []byte
	chunks      []int
	i           int
	eofWithLast bool          // the last bytes and io.EOF come from one Read call
	pause       time.Duration // silence between the last bytes and the end of input
	paused      bool
}

// readerOptions parses the optional last field of a case: "-" | "e" | "p<ms>" | "e,p<ms>".
func readerOptions(r *chunkReader, s string) {
	for _, o := range strings.Split(s, ",") {
		switch {
		case o == "e":
			r.eofWithLast = true
		case strings.HasPrefix(o, "p"):
			ms, _ := strconv.Atoi(o[1:])
			r.pause = time.Duration(ms) * time.Millisecond
		}
	}
}

func (r *chunkReader) Read(p []byte) (int, error) {
	if len(r.data) == 0 {
		if r.pause > 0 && !r.paused {
			r.paused = true
			time.Sleep(r.pause)
		}
		return 0, io.EOF
	}
	n := r.chunks[r.i%len(r.chunks)]
	r.i++
	if n > len(p) {
		n = len(p)
	}
	if n > len(r.data) {
		n = len(r.data)
	}
	copy(p, r.data[:n])
	r.data = r.data[n:]
	if len(r.data) == 0 && r.eofWithLast {
		return n, io.EOF
	}
	return n, nil
}

func settle(f func() int) {
	last := -1
	stable := 0
	for i := 0; i < 400; i++ {
		n := f()
		if n == last {
			stable++
			if stable >= 6 {
				return
			}
		} else {
			stable = 0
			last = n
		}
		time.Sleep(10 * time.Millisecond)
	}
}

// case: display <hex> <latency us> <chunk sizes a.b.c> [reader options]
// obs:  atreturn=<bytes>/<entries> final=<bytes>/<entries> ms=<time to return>
func TestVerifRun(t *testing.T) {
	path := os.Getenv("VERIF_CASES")
	if path == "" {
		t.Skip("no VERIF_CASES")
	}
	in, err := os.Open(path)
	if err != nil {
		t.Fatal(err)
	}
	defer in.Close()
	out, err := os.Create(os.Getenv("VERIF_OUT"))
	if err != nil {
		t.Fatal(err)
	}
	defer out.Close()
	sc := bufio.NewScanner(in)
	sc.Buffer(make([]byte, 1<<20), 1<<26)
	for sc.Scan() {
		f := strings.Fields(sc.Text())
		if len(f) < 4 {
			continue
		}
		data := []byte{}
		if f[1] != "-" {
			data, _ = hex.DecodeString(f[1])
		}
		lat, _ := strconv.Atoi(f[2])
		var chunks []int
		for _, c := range strings.Split(f[3], ".") {
			v, _ := strconv.Atoi(c)
			if v < 1 {
				v = 1
			}
			chunks = append(chunks, v)
		}
		var cfg jsonconfig.Config
		w := &slowWriter{latency: time.Duration(lat) * time.Microsecond}
		start := time.Date(2023, 5, 10, 12, 0, 0, 0, time.UTC)
		t0 := time.Now()
		done := make(chan bool, 1)
		var atReturn []byte
		go func() {
			rd := &chunkReader{data: data, chunks: chunks}
			if len(f) > 4 {
				readerOptions(rd, f[4])
			}
			HandleMessages(start, rd, w, &cfg)
			atReturn = w.snapshot()
			done <- true
		}()
		select {
		case <-done:
		case <-time.After(60 * time.Second):
			fmt.Fprintln(out, "hang")
			continue
		}
		el := time.Since(t0)
		settle(func() int { return len(w.snapshot()) })
		final := w.snapshot()
		fmt.Fprintf(out, "atreturn=%d/%d final=%d/%d ms=%d\n", len(atReturn), strings.Count(string(atReturn), "Frame length "),
			len(final), strings.Count(string(final), "Frame length "), el.Milliseconds())
	}
}

package main

// Injected by /verif through `go test -overlay`; not part of the repository.
// Runs the real HandleMessages of rtcmfilter on scripted inputs with a writer of
// chosen latency and reports what had been written at the instant it returned.

import (
	"bufio"
	"bytes"
	"encoding/hex"
	"fmt"
	"io"
	"os"
	"path/filepath"
	"strconv"
	"strings"
	"sync"
	"testing"
	"time"

	"github.com/goblimey/go-ntrip/jsonconfig"
)

// slowWriter stands for standard output or a file: it takes its time per call and, like *os.File, it can be closed,
// after which writes fail.
type slowWriter struct {
	mu      sync.Mutex
	buf     bytes.Buffer
	latency time.Duration
	calls   int
	closed  bool
}

func (w *slowWriter) Write(p []byte) (int, error) {
	if w.latency > 0 {
		time.Sleep(w.latency)
	}
	w.mu.Lock()
	defer w.mu.Unlock()
	w.calls++
	if w.closed {
		return 0, os.ErrClosed
	}
	return w.buf.Write(p)
}

func (w *slowWriter) Close() error {
	w.mu.Lock()
	defer w.mu.Unlock()
	w.closed = true
	return nil
}

func (w *slowWriter) snapshot() []byte {
	w.mu.Lock()
	defer w.mu.Unlock()
	return append([]byte(nil), w.buf.Bytes()...)
}

// chunkReader hands out the data in the given chunk sizes (cyclically).
type chunkReader struct {
	data        []byte
	chunks      []int
	i           int
	eofWithLast bool          // the last bytes and io.EOF come from one Read call
	pause       time.Duration // silence between the last bytes and the end of input
	paused      bool
	midPause    time.Duration // one silence in the middle of the input: before the Read that starts at offset midAt or later
	midAt       int
	midDone     bool
	pos         int
	emptyAt     int // >= 0: the Read that starts at this offset returns (0, nil) once before it delivers
	emptyDone   bool
}

// readerOptions parses the optional last field of a case: "-" | "e" | "p<ms>" | "m<ms>@<offset>", comma separated.
func readerOptions(r *chunkReader, s string) {
	r.emptyAt = -1
	for _, o := range strings.Split(s, ",") {
		switch {
		case o == "e":
			r.eofWithLast = true
		case strings.HasPrefix(o, "p"):
			ms, _ := strconv.Atoi(o[1:])
			r.pause = time.Duration(ms) * time.Millisecond
		case strings.HasPrefix(o, "z"):
			r.emptyAt, _ = strconv.Atoi(o[1:])
			r.emptyDone = false
		case strings.HasPrefix(o, "m") && strings.Contains(o, "@"):
			parts := strings.SplitN(o[1:], "@", 2)
			ms, _ := strconv.Atoi(parts[0])
			r.midPause = time.Duration(ms) * time.Millisecond
			r.midAt, _ = strconv.Atoi(parts[1])
		}
	}
}

func (r *chunkReader) Read(p []byte) (int, error) {
	if len(r.data) == 0 {
		if r.pause > 0 && !r.paused {
			r.paused = true
			time.Sleep(r.pause)
		}
		return 0, io.EOF
	}
	if r.emptyAt >= 0 && !r.emptyDone && r.pos >= r.emptyAt {
		r.emptyDone = true
		return 0, nil
	}
	if r.midPause > 0 && !r.midDone && r.pos >= r.midAt {
		r.midDone = true
		time.Sleep(r.midPause)
	}
	n := r.chunks[r.i%len(r.chunks)]
	r.i++
	if n > len(p) {
		n = len(p)
	}
	if n > len(r.data) {
		n = len(r.data)
	}
	if r.midPause > 0 && !r.midDone && r.pos+n > r.midAt {
		n = r.midAt - r.pos // stop exactly at the offset, so that the silence falls where the case says
		if n <= 0 {
			n = 1
		}
	}
	copy(p, r.data[:n])
	r.data = r.data[n:]
	r.pos += n
	if len(r.data) == 0 && r.eofWithLast {
		return n, io.EOF
	}
	return n, nil
}

func hx(b []byte) string {
	if len(b) == 0 {
		return "-"
	}
	return hex.EncodeToString(b)
}

func readGlob(dir, pattern string) []byte {
	m, _ := filepath.Glob(filepath.Join(dir, pattern))
	var out []byte
	for _, f := range m {
		b, _ := os.ReadFile(f)
		out = append(out, b...)
	}
	return out
}

func settle(f func() int) {
	last := -1
	stable := 0
	for i := 0; i < 400; i++ {
		n := f()
		if n == last {
			stable++
			if stable >= 6 {
				return
			}
		} else {
			stable = 0
			last = n
		}
		time.Sleep(10 * time.Millisecond)
	}
}

// case: filter <hex> <display 0|1> <record 0|1> <latency us> <chunk sizes a.b.c> [reader options]
// obs:  atreturn=<hex> final=<hex> record=<hex|off> entries=<n|off> ms=<time to return>
func TestVerifRun(t *testing.T) {
	path := os.Getenv("VERIF_CASES")
	if path == "" {
		t.Skip("no VERIF_CASES")
	}
	in, err := os.Open(path)
	if err != nil {
		t.Fatal(err)
	}
	defer in.Close()
	out, err := os.Create(os.Getenv("VERIF_OUT"))
	if err != nil {
		t.Fatal(err)
	}
	defer out.Close()
	work := os.Getenv("VERIF_WORK")
	sc := bufio.NewScanner(in)
	sc.Buffer(make([]byte, 1<<20), 1<<26)
	n := 0
	for sc.Scan() {
		f := strings.Fields(sc.Text())
		if len(f) < 6 {
			continue
		}
		n++
		data := []byte{}
		if f[1] != "-" {
			data, _ = hex.DecodeString(f[1])
		}
		lat, _ := strconv.Atoi(f[4])
		var chunks []int
		for _, c := range strings.Split(f[5], ".") {
			v, _ := strconv.Atoi(c)
			if v < 1 {
				v = 1
			}
			chunks = append(chunks, v)
		}
		dir := filepath.Join(work, fmt.Sprintf("case%d", n))
		os.MkdirAll(dir, 0o755)
		cfg := jsonconfig.Config{DisplayMessages: f[2] == "1", RecordMessages: f[3] == "1", MessageLogDirectory: dir}
		w := &slowWriter{latency: time.Duration(lat) * time.Microsecond}
		start := time.Date(2023, 5, 10, 12, 0, 0, 0, time.UTC)
		t0 := time.Now()
		done := make(chan bool, 1)
		var atReturn []byte
		go func() {
			rd := &chunkReader{data: data, chunks: chunks}
			if len(f) > 6 {
				readerOptions(rd, f[6])
			}
			HandleMessages(start, rd, w, &cfg)
			atReturn = w.snapshot()
			done <- true
		}()
		select {
		case <-done:
		case <-time.After(60 * time.Second):
			fmt.Fprintln(out, "hang")
			continue
		}
		el := time.Since(t0)
		settle(func() int {
			return len(w.snapshot()) + len(readGlob(dir, "rtcmfilter.*.rtcm")) + len(readGlob(dir, "rtcm.*.txt"))
		})
		final := w.snapshot()
		rec := "off"
		if cfg.RecordMessages {
			rec = hx(readGlob(dir, "rtcmfilter.*.rtcm"))
		}
		ent := "off"
		if cfg.DisplayMessages {
			txt := string(readGlob(dir, "rtcm.*.txt"))
			ent = strconv.Itoa(strings.Count(txt, "Frame length "))
		}
		fmt.Fprintf(out, "atreturn=%s final=%s record=%s entries=%s ms=%d\n", hx(atReturn), hx(final), rec, ent, el.Milliseconds())
		os.RemoveAll(dir)
	}
}

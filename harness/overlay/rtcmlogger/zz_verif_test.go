package main

// Injected by /verif through `go test -overlay`; not part of the repository.
// Runs the real start() of rtcmlogger in-process: os.Stdin and os.Stdout are pipes fed and
// drained by the test, and the day's record writer (newLogWriter, renamed in the overlaid copy of
// main.go) is a writer that can stall, playing a slow disk, so that the recorder goroutine
// blocks in Write while the copy loop runs ahead.

import (
	"bufio"
	"crypto/sha256"
	"fmt"
	"io"
	"math/rand"
	"os"
	"strconv"
	"strings"
	"sync"
	"testing"
	"time"

	"github.com/goblimey/go-ntrip/apps/rtcmlogger/config"
)

type stallWriter struct {
	mu        sync.Mutex
	buf       []byte
	stallCall int           // which Write call stalls (1-based; 0 = none)
	stall     time.Duration // how long
	each      time.Duration // latency of every call
	calls     int
}

func (w *stallWriter) Write(p []byte) (int, error) {
	w.mu.Lock()
	w.calls++
	c := w.calls
	w.mu.Unlock()
	if w.each > 0 {
		time.Sleep(w.each)
	}
	if c == w.stallCall {
		// a slow device takes the data bit by bit: copy half, stall, copy the rest
		h := len(p) / 2
		w.mu.Lock()
		w.buf = append(w.buf, p[:h]...)
		w.mu.Unlock()
		time.Sleep(w.stall)
		w.mu.Lock()
		w.buf = append(w.buf, p[h:]...)
		w.mu.Unlock()
		return len(p), nil
	}
	w.mu.Lock()
	w.buf = append(w.buf, p...)
	w.mu.Unlock()
	return len(p), nil
}

var verifRecordWriter *stallWriter

// newLogWriter replaces the repository's function of that name (renamed newLogWriterRepo in the
// overlaid main.go): the record goes to the harness's writer.
func newLogWriter(cfg *config.Config) io.Writer { return verifRecordWriter }

func firstDiff(a, b []byte) int {
	n := len(a)
	if len(b) < n {
		n = len(b)
	}
	for i := 0; i < n; i++ {
		if a[i] != b[i] {
			return i
		}
	}
	if len(a) != len(b) {
		return n
	}
	return -1
}

// case: logger <size> <chunk> <stall call> <stall ms> <each us> <seed> [<pace us between stdin writes>]
// obs:  in=<sha8> out=<same|len:firstdiff> rec=<same|len:firstdiff> | hang
func runLoggerCase(f []string) string {
	size, _ := strconv.Atoi(f[1])
	chunk, _ := strconv.Atoi(f[2])
	stallCall, _ := strconv.Atoi(f[3])
	stallMs, _ := strconv.Atoi(f[4])
	eachUs, _ := strconv.Atoi(f[5])
	seed, _ := strconv.ParseInt(f[6], 10, 64)
	pace := 0
	if len(f) > 7 {
		pace, _ = strconv.Atoi(f[7])
	}
	data := make([]byte, size)
	rand.New(rand.NewSource(seed)).Read(data)

	verifRecordWriter = &stallWriter{stallCall: stallCall, stall: time.Duration(stallMs) * time.Millisecond, each: time.Duration(eachUs) * time.Microsecond}
	inR, inW, _ := os.Pipe()
	outR, outW, _ := os.Pipe()
	oldIn, oldOut := os.Stdin, os.Stdout
	os.Stdin, os.Stdout = inR, outW
	defer func() { os.Stdin, os.Stdout = oldIn, oldOut }()

	var out []byte
	var wg sync.WaitGroup
	wg.Add(2)
	go func() {
		defer wg.Done()
		out, _ = io.ReadAll(outR)
	}()
	go func() {
		defer wg.Done()
		for pos := 0; pos < len(data); pos += chunk {
			end := pos + chunk
			if end > len(data) {
				end = len(data)
			}
			inW.Write(data[pos:end])
			if pace > 0 {
				time.Sleep(time.Duration(pace) * time.Microsecond)
			}
		}
		inW.Close()
	}()
	done := make(chan struct{})
	go func() {
		start(&config.Config{})
		close(done)
	}()
	select {
	case <-done:
	case <-time.After(60 * time.Second):
		return "hang"
	}
	// start has returned: the program would exit now
	verifRecordWriter.mu.Lock()
	rec := append([]byte(nil), verifRecordWriter.buf...)
	verifRecordWriter.mu.Unlock()
	outW.Close()
	wg.Wait()
	inR.Close()
	outR.Close()
	cmp := func(b []byte) string {
		d := firstDiff(b, data)
		if d < 0 {
			return "same"
		}
		return fmt.Sprintf("%d:%d", len(b), d)
	}
	h := sha256.Sum256(data)
	return fmt.Sprintf("in=%x out=%s rec=%s", h[:4], cmp(out), cmp(rec))
}

func TestVerifRun(t *testing.T) {
	cf, of := os.Getenv("VERIF_CASES"), os.Getenv("VERIF_OUT")
	if cf == "" || of == "" {
		t.Skip("no cases")
	}
	in, err := os.Open(cf)
	if err != nil {
		t.Fatal(err)
	}
	defer in.Close()
	outf, err := os.Create(of)
	if err != nil {
		t.Fatal(err)
	}
	defer outf.Close()
	w := bufio.NewWriter(outf)
	defer w.Flush()
	sc := bufio.NewScanner(in)
	sc.Buffer(make([]byte, 1<<20), 1<<26)
	for sc.Scan() {
		f := strings.Fields(sc.Text())
		if len(f) == 0 {
			continue
		}
		fmt.Fprintln(w, runLoggerCase(f))
		w.Flush()
	}
}

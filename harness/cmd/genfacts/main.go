// genfacts reads /repo's working tree (go/parser + go/types with the source importer)
// and regenerates coq/gen/GenConsts.v: every named constant the Coq model depends on,
// plus channel capacities of the application entry points.  If a constant can no
// longer be found under its name the committed expected value is used and the
// name is reported on a "DEGRADED" line (a rename alone never raises an alarm).
package main

import (
	"bufio"
	"encoding/json"
	"flag"
	"fmt"
	"go/ast"
	"go/constant"
	"go/importer"
	"go/parser"
	"go/token"
	"go/types"
	"os"
	"path/filepath"
	"sort"
	"strings"
)

type want struct {
	coq  string // Coq identifier
	dir  string // package directory relative to the repo
	fn   string // enclosing function ("" = package level)
	name string // Go identifier
	kind string // N | Z
}

var wants = []want{
	// utils
	{"StartOfMessageFrame", "rtcm/utils", "", "StartOfMessageFrame", "N"},
	{"LeaderLengthBytes", "rtcm/utils", "", "LeaderLengthBytes", "N"},
	{"LeaderLengthBits", "rtcm/utils", "", "LeaderLengthBits", "N"},
	{"CRCLengthBytes", "rtcm/utils", "", "CRCLengthBytes", "N"},
	{"CRCLengthBits", "rtcm/utils", "", "CRCLengthBits", "N"},
	{"MaxMessageType", "rtcm/utils", "", "MaxMessageType", "N"},
	{"NonRTCMMessage", "rtcm/utils", "", "NonRTCMMessage", "Z"},
	{"MessageTypeStop", "rtcm/utils", "", "MessageTypeStop", "Z"},
	{"MaxTimestamp", "rtcm/utils", "", "MaxTimestamp", "N"},
	{"MaxTimestampGlonass", "rtcm/utils", "", "MaxTimestampGlonass", "N"},
	{"GPSLeapSeconds", "rtcm/utils", "", "GPSLeapSeconds", "Z"},
	{"BeidouLeapSeconds", "rtcm/utils", "", "BeidouLeapSeconds", "Z"},
	{"GPSTimeOffsetNs", "rtcm/utils", "", "GPSTimeOffset", "Z"},
	{"GlonassTimeOffsetNs", "rtcm/utils", "", "GlonassTimeOffset", "Z"},
	{"GlonassInvalidDay", "rtcm/utils", "", "GlonassInvalidDay", "N"},
	{"GlonassDayBitMask", "rtcm/utils", "", "GlonassDayBitMask", "N"},
	{"MillisIn24Hours", "rtcm/utils", "", "MillisIn24Hours", "N"},
	{"MillisIn7Days", "rtcm/utils", "", "MillisIn7Days", "N"},
	{"InvalidRange", "rtcm/utils", "", "InvalidRange", "N"},
	{"InvalidRangeDelta4", "rtcm/utils", "", "InvalidRangeDelta", "Z"},
	{"InvalidPhaseRangeDelta4", "rtcm/utils", "", "InvalidPhaseRangeDelta", "Z"},
	{"TwoToThePower10", "rtcm/utils", "", "TwoToThePower10", "N"},
	{"TwoToThePower24", "rtcm/utils", "", "TwoToThePower24", "N"},
	{"TwoToThePower29", "rtcm/utils", "", "TwoToThePower29", "N"},
	{"TwoToThePower31", "rtcm/utils", "", "TwoToThePower31", "N"},
	{"MessageType1005", "rtcm/utils", "", "MessageType1005", "N"},
	{"MessageType1006", "rtcm/utils", "", "MessageType1006", "N"},
	{"MessageTypeMSM4GPS", "rtcm/utils", "", "MessageTypeMSM4GPS", "N"},
	{"MessageTypeMSM7GPS", "rtcm/utils", "", "MessageTypeMSM7GPS", "N"},
	{"MessageTypeMSM4Glonass", "rtcm/utils", "", "MessageTypeMSM4Glonass", "N"},
	{"MessageTypeMSM7Glonass", "rtcm/utils", "", "MessageTypeMSM7Glonass", "N"},
	{"MessageTypeMSM4Galileo", "rtcm/utils", "", "MessageTypeMSM4Galileo", "N"},
	{"MessageTypeMSM7Galileo", "rtcm/utils", "", "MessageTypeMSM7Galileo", "N"},
	{"MessageTypeMSM4SBAS", "rtcm/utils", "", "MessageTypeMSM4SBAS", "N"},
	{"MessageTypeMSM7SBAS", "rtcm/utils", "", "MessageTypeMSM7SBAS", "N"},
	{"MessageTypeMSM4QZSS", "rtcm/utils", "", "MessageTypeMSM4QZSS", "N"},
	{"MessageTypeMSM7QZSS", "rtcm/utils", "", "MessageTypeMSM7QZSS", "N"},
	{"MessageTypeMSM4Beidou", "rtcm/utils", "", "MessageTypeMSM4Beidou", "N"},
	{"MessageTypeMSM7Beidou", "rtcm/utils", "", "MessageTypeMSM7Beidou", "N"},
	{"MessageTypeMSM4NavicIrnss", "rtcm/utils", "", "MessageTypeMSM4NavicIrnss", "N"},
	{"MessageTypeMSM7NavicIrnss", "rtcm/utils", "", "MessageTypeMSM7NavicIrnss", "N"},
	// rtcm/header
	{"hdr_LenMessageType", "rtcm/header", "", "LenMessageType", "N"},
	{"hdr_LenStationID", "rtcm/header", "", "LenStationID", "N"},
	{"hdr_LenTimeStamp", "rtcm/header", "", "LenTimeStamp", "N"},
	{"hdr_lenMultipleMessageFlag", "rtcm/header", "", "lenMultipleMessageFlag", "N"},
	{"hdr_lenIssueOfDataStation", "rtcm/header", "", "lenIssueOfDataStation", "N"},
	{"hdr_lenSessionTransmissionTime", "rtcm/header", "", "lenSessionTransmissionTime", "N"},
	{"hdr_lenClockSteeringIndicator", "rtcm/header", "", "lenClockSteeringIndicator", "N"},
	{"hdr_lenExternalClockSteeringIndicator", "rtcm/header", "", "lenExternalClockSteeringIndicator", "N"},
	{"hdr_lenGNSSDivergenceFreeSmoothingIndicator", "rtcm/header", "", "lenGNSSDivergenceFreeSmoothingIndicator", "N"},
	{"hdr_lenGNSSSmoothingInterval", "rtcm/header", "", "lenGNSSSmoothingInterval", "N"},
	{"hdr_lenSatelliteMask", "rtcm/header", "", "lenSatelliteMask", "N"},
	{"hdr_lenSignalMask", "rtcm/header", "", "lenSignalMask", "N"},
	{"hdr_maxLengthOfCellMask", "rtcm/header", "", "maxLengthOfCellMask", "N"},
	{"hdr_minBitsInHeader", "rtcm/header", "", "minBitsInHeader", "N"},
	// MSM4 satellite / signal
	{"sat4_lenWholeMillis", "rtcm/type_msm4/satellite", "", "lenWholeMillis", "N"},
	{"sat4_lenFractionalMillis", "rtcm/type_msm4/satellite", "", "lenFractionalMillis", "N"},
	{"sat4_CellLengthInBits", "rtcm/type_msm4/satellite", "", "CellLengthInBits", "N"},
	{"sig4_lenRangeDelta", "rtcm/type_msm4/signal", "GetSignalCells", "lenRangeDelta", "N"},
	{"sig4_lenPhaseRangeDelta", "rtcm/type_msm4/signal", "GetSignalCells", "lenPhaseRangeDelta", "N"},
	{"sig4_lenLockTimeIndicator", "rtcm/type_msm4/signal", "GetSignalCells", "lenLockTimeIndicator", "N"},
	{"sig4_lenHalfCycleAmbiguity", "rtcm/type_msm4/signal", "GetSignalCells", "lenHalfCycleAmbiguity", "N"},
	{"sig4_lenCNR", "rtcm/type_msm4/signal", "GetSignalCells", "lenCNR", "N"},
	{"sig4_bitsPerCell", "rtcm/type_msm4/signal", "GetSignalCells", "bitsPerCell", "N"},
	// MSM7 satellite / signal
	{"sat7_lenWholeMillis", "rtcm/type_msm7/satellite", "", "lenWholeMillis", "N"},
	{"sat7_lenExtendedInfo", "rtcm/type_msm7/satellite", "", "lenExtendedInfo", "N"},
	{"sat7_lenFractionalMillis", "rtcm/type_msm7/satellite", "", "lenFractionalMillis", "N"},
	{"sat7_lenPhaseRangeRate", "rtcm/type_msm7/satellite", "", "lenPhaseRangeRate", "N"},
	{"sat7_CellLengthInBits", "rtcm/type_msm7/satellite", "", "CellLengthInBits", "N"},
	{"sat7_InvalidPhaseRangeRate", "rtcm/type_msm7/satellite", "", "InvalidPhaseRangeRate", "Z"},
	{"sig7_lenRangeDelta", "rtcm/type_msm7/signal", "", "lenRangeDelta", "N"},
	{"sig7_lenPhaseRangeDelta", "rtcm/type_msm7/signal", "", "lenPhaseRangeDelta", "N"},
	{"sig7_lenLockTimeIndicator", "rtcm/type_msm7/signal", "", "lenLockTimeIndicator", "N"},
	{"sig7_lenHalfCycleAmbiguity", "rtcm/type_msm7/signal", "", "lenHalfCycleAmbiguity", "N"},
	{"sig7_lenCNR", "rtcm/type_msm7/signal", "", "lenCNR", "N"},
	{"sig7_lenPhaseRangeRateDelta", "rtcm/type_msm7/signal", "", "lenPhaseRangeRateDelta", "N"},
	{"sig7_bitsPerCell", "rtcm/type_msm7/signal", "", "bitsPerCell", "N"},
	{"sig7_InvalidRangeDelta", "rtcm/type_msm7/signal", "", "InvalidRangeDelta", "Z"},
	{"sig7_InvalidPhaseRangeDelta", "rtcm/type_msm7/signal", "", "InvalidPhaseRangeDelta", "Z"},
	{"sig7_InvalidPhaseRangeRate", "rtcm/type_msm7/signal", "", "InvalidPhaseRangeRate", "Z"},
	{"sig7_InvalidPhaseRangeRateDelta", "rtcm/type_msm7/signal", "", "InvalidPhaseRangeRateDelta", "Z"},
	// 1005 / 1006
	{"t1005_expectedMessageType", "rtcm/type1005", "", "expectedMessageType", "N"},
	{"t1005_lenMessageType", "rtcm/type1005", "", "lenMessageType", "N"},
	{"t1005_lenStationID", "rtcm/type1005", "", "lenStationID", "N"},
	{"t1005_lenITRFRealisationYear", "rtcm/type1005", "", "lenITRFRealisationYear", "N"},
	{"t1005_lenIgnoredBits1", "rtcm/type1005", "", "lenIgnoredBits1", "N"},
	{"t1005_lenAntennaRefX", "rtcm/type1005", "", "lenAntennaRefX", "N"},
	{"t1005_lenIgnoredBits2", "rtcm/type1005", "", "lenIgnoredBits2", "N"},
	{"t1005_lenAntennaRefY", "rtcm/type1005", "", "lenAntennaRefY", "N"},
	{"t1005_lenIgnoredBits3", "rtcm/type1005", "", "lenIgnoredBits3", "N"},
	{"t1005_lenAntennaRefZ", "rtcm/type1005", "", "lenAntennaRefZ", "N"},
	{"t1005_lengthOfMessageInBits", "rtcm/type1005", "", "lengthOfMessageInBits", "N"},
	{"t1006_expectedMessageType", "rtcm/type1006", "", "expectedMessageType", "N"},
	{"t1006_lenMessageType", "rtcm/type1006", "", "lenMessageType", "N"},
	{"t1006_lenStationID", "rtcm/type1006", "", "lenStationID", "N"},
	{"t1006_lenITRFRealisationYear", "rtcm/type1006", "", "lenITRFRealisationYear", "N"},
	{"t1006_lenIgnoredBits1", "rtcm/type1006", "", "lenIgnoredBits1", "N"},
	{"t1006_lenAntennaRefX", "rtcm/type1006", "", "lenAntennaRefX", "N"},
	{"t1006_lenIgnoredBits2", "rtcm/type1006", "", "lenIgnoredBits2", "N"},
	{"t1006_lenAntennaRefY", "rtcm/type1006", "", "lenAntennaRefY", "N"},
	{"t1006_lenIgnoredBits3", "rtcm/type1006", "", "lenIgnoredBits3", "N"},
	{"t1006_lenAntennaRefZ", "rtcm/type1006", "", "lenAntennaRefZ", "N"},
	{"t1006_lenAntennaHeight", "rtcm/type1006", "", "lenAntennaHeight", "N"},
	{"t1006_lengthOfMessageInBits", "rtcm/type1006", "", "lengthOfMessageInBits", "N"},
	// handler
	{"hnd_leaderAndMessageLength", "rtcm/handler", "FetchNextMessageFrame", "leaderAndMessageLength", "N"},
	{"hnd_timestampPosition", "rtcm/handler", "GetMessage", "timestampPosition", "N"},
	// apps
	{"proxy_maxNumberOfMessagesStored", "apps/proxy", "", "maxNumberOfMessagesStored", "N"},
	{"logger_bufferLength", "apps/rtcmlogger", "", "bufferLength", "N"},
}

// channel capacities: make(chan T, n) / make(chan T) assigned to a named variable in a function
type wantChan struct {
	coq, dir, fn, varName string
}

var wantChans = []wantChan{
	{"cap_filehandler_byteChan", "file_handler", "Handle", "byteChan"},
	{"cap_appcore_messageChan", "apps/appcore", "HandleMessagesUntilEOF", "messageChan"},
	{"cap_displayrtcm3_messageChan", "apps/displayrtcm3", "HandleMessages", "messageChan"},
	{"cap_rtcmfilter_messageChan", "apps/rtcmfilter", "HandleMessages", "messageChan"},
	{"cap_rtcmfilter_displayChan", "apps/rtcmfilter", "HandleMessages", "displayChan"},
	{"cap_rtcmfilter_rtcmChan", "apps/rtcmfilter", "HandleMessages", "rtcmChan"},
	{"cap_rtcmlogger_recorderChannel", "apps/rtcmlogger", "start", "recorderChannel"},
	{"cap_proxy_byteChan", "apps/proxy", "start", "byteChan"},
	{"cap_proxy_messageChan", "apps/proxy", "start", "messageChan"},
}

type pkgInfo struct {
	consts map[string]string // "fn.name" -> exact value
	chans  map[string]string // "fn.var" -> capacity
	waits  map[string]bool   // fn -> the function waits for a goroutine (bare receive statement or x.Wait())
	// lockFirst: fn -> "Lock" / "RLock" when the body starts with  x.Lock(); defer x.Unlock()  (resp. RLock/RUnlock),
	// i.e. the whole body runs under that lock; lockers: functions whose body calls Lock or RLock anywhere;
	// calls: fn -> names of the functions and methods it calls
	lockFirst map[string]string
	lockers   map[string]bool
	calls     map[string]map[string]bool
	funcs     map[string]*ast.FuncDecl
	err       error
}

var fset = token.NewFileSet()
var sharedImporter = importer.ForCompiler(fset, "source", nil)

func load(repo, dir string) *pkgInfo {
	pi := &pkgInfo{consts: map[string]string{}, chans: map[string]string{}, waits: map[string]bool{},
		lockFirst: map[string]string{}, lockers: map[string]bool{}, calls: map[string]map[string]bool{},
		funcs: map[string]*ast.FuncDecl{}}
	full := filepath.Join(repo, dir)
	pkgs, err := parser.ParseDir(fset, full, func(fi os.FileInfo) bool {
		return !strings.HasSuffix(fi.Name(), "_test.go")
	}, 0)
	if err != nil {
		pi.err = err
		return pi
	}
	for _, p := range pkgs {
		var files []*ast.File
		for _, f := range p.Files {
			files = append(files, f)
		}
		info := &types.Info{Defs: map[*ast.Ident]types.Object{}, Types: map[ast.Expr]types.TypeAndValue{}}
		conf := types.Config{Importer: sharedImporter, Error: func(error) {}}
		conf.Check(p.Name, fset, files, info)
		for _, f := range files {
			// package-level and function-level declarations
			var walk func(n ast.Node, fn string)
			walk = func(n ast.Node, fn string) {
				ast.Inspect(n, func(m ast.Node) bool {
					switch d := m.(type) {
					case *ast.FuncDecl:
						if d.Body != nil && m != n {
							recordLocking(pi, d)
							walk(d.Body, d.Name.Name)
						}
						return m == n
					case *ast.ValueSpec:
						for i, id := range d.Names {
							if obj, ok := info.Defs[id].(*types.Const); ok && obj != nil {
								pi.consts[fn+"."+id.Name] = exact(obj.Val())
							} else if i < len(d.Values) {
								if tv, ok := info.Types[d.Values[i]]; ok && tv.Value != nil {
									pi.consts[fn+"."+id.Name] = exact(tv.Value)
								}
								recordChan(pi, info, fn, id.Name, d.Values[i])
							}
						}
					case *ast.ExprStmt:
						switch x := d.X.(type) {
						case *ast.UnaryExpr:
							if x.Op == token.ARROW {
								pi.waits[fn] = true
							}
						case *ast.CallExpr:
							if sel, ok := x.Fun.(*ast.SelectorExpr); ok && sel.Sel.Name == "Wait" {
								pi.waits[fn] = true
							}
						}
					case *ast.AssignStmt:
						for i, lhs := range d.Lhs {
							if id, ok := lhs.(*ast.Ident); ok && i < len(d.Rhs) {
								recordChan(pi, info, fn, id.Name, d.Rhs[i])
							}
						}
					}
					return true
				})
			}
			walk(f, "")
		}
	}
	return pi
}

// methodCall returns the method name of a statement of the form  x.M()  (or  defer x.M()).
func methodCall(e ast.Expr) string {
	call, ok := e.(*ast.CallExpr)
	if !ok || len(call.Args) != 0 {
		return ""
	}
	if sel, ok := call.Fun.(*ast.SelectorExpr); ok {
		return sel.Sel.Name
	}
	return ""
}

func recordLocking(pi *pkgInfo, d *ast.FuncDecl) {
	fn := d.Name.Name
	pi.funcs[fn] = d
	pi.calls[fn] = map[string]bool{}
	if len(d.Body.List) >= 2 {
		if es, ok := d.Body.List[0].(*ast.ExprStmt); ok {
			if ds, ok := d.Body.List[1].(*ast.DeferStmt); ok {
				a, b := methodCall(es.X), methodCall(ds.Call)
				if a == "Lock" && b == "Unlock" || a == "RLock" && b == "RUnlock" {
					pi.lockFirst[fn] = a
				}
			}
		}
	}
	first := true
	ast.Inspect(d.Body, func(m ast.Node) bool {
		if call, ok := m.(*ast.CallExpr); ok {
			name := ""
			switch f := call.Fun.(type) {
			case *ast.SelectorExpr:
				name = f.Sel.Name
			case *ast.Ident:
				name = f.Name
			}
			if name == "Lock" || name == "RLock" {
				if first && pi.lockFirst[fn] != "" {
					first = false // the opening lock itself
				} else {
					pi.lockers[fn+"#inner"] = true
				}
				pi.lockers[fn] = true
			} else if name != "" {
				pi.calls[fn][name] = true
			}
		}
		return true
	})
}

// reachable returns the declarations of root and of the functions of the same package it calls, transitively
// (by name; a name that is both a function and a method is followed once).
func reachable(pi *pkgInfo, root string) []*ast.FuncDecl {
	var out []*ast.FuncDecl
	seen := map[string]bool{}
	var visit func(name string)
	visit = func(name string) {
		if seen[name] {
			return
		}
		seen[name] = true
		d := pi.funcs[name]
		if d == nil {
			return
		}
		out = append(out, d)
		callees := make([]string, 0, len(pi.calls[name]))
		for c := range pi.calls[name] {
			callees = append(callees, c)
		}
		sort.Strings(callees)
		for _, c := range callees {
			visit(c)
		}
	}
	visit(root)
	return out
}

func isNilCompare(e ast.Expr, x string, op token.Token) bool {
	b, ok := e.(*ast.BinaryExpr)
	if !ok || b.Op != op {
		return false
	}
	l, r := types.ExprString(b.X), types.ExprString(b.Y)
	return l == x && r == "nil" || l == "nil" && r == x
}

// filterShape: rtcmfilter's writeRTCMMessages skips a message exactly when its type is NonRTCMMessage and writes
// that message's RawData.  Accepted formulations (m is the loop's message variable):
//   - one continue statement in the function, the whole body of  if m.MessageType == utils.NonRTCMMessage { continue }
//   - exactly one Write call in the function and the unexported helpers it calls; its argument is m.RawData, or
//     a parameter of a helper to which writeRTCMMessages passes m.RawData.
func filterShape(pi *pkgInfo) bool {
	root := pi.funcs["writeRTCMMessages"]
	if root == nil {
		return false
	}
	continues, guarded := 0, 0
	msgVar := ""
	ast.Inspect(root.Body, func(m ast.Node) bool {
		switch x := m.(type) {
		case *ast.BranchStmt:
			if x.Tok == token.CONTINUE {
				continues++
			}
		case *ast.IfStmt:
			if len(x.Body.List) == 1 && x.Else == nil && x.Init == nil {
				if b, ok := x.Body.List[0].(*ast.BranchStmt); ok && b.Tok == token.CONTINUE {
					if c, ok := x.Cond.(*ast.BinaryExpr); ok && c.Op == token.EQL {
						l, r := types.ExprString(c.X), types.ExprString(c.Y)
						if r != "utils.NonRTCMMessage" {
							l, r = r, l
						}
						if r == "utils.NonRTCMMessage" && strings.HasSuffix(l, ".MessageType") && !strings.Contains(strings.TrimSuffix(l, ".MessageType"), ".") {
							guarded++
							msgVar = strings.TrimSuffix(l, ".MessageType")
						}
					}
				}
			}
		}
		return true
	})
	if continues != 1 || guarded != 1 {
		return false
	}
	writes, good := 0, 0
	for _, d := range reachable(pi, "writeRTCMMessages") {
		params := map[string]int{}
		n := 0
		for _, f := range d.Type.Params.List {
			for _, id := range f.Names {
				params[id.Name] = n
				n++
			}
		}
		ast.Inspect(d.Body, func(m ast.Node) bool {
			call, ok := m.(*ast.CallExpr)
			if !ok {
				return true
			}
			sel, ok := call.Fun.(*ast.SelectorExpr)
			if !ok || sel.Sel.Name != "Write" {
				return true
			}
			writes++
			if len(call.Args) != 1 {
				return true
			}
			arg := types.ExprString(call.Args[0])
			if d == root {
				if arg == msgVar+".RawData" {
					good++
				}
				return true
			}
			// a helper: the argument must be one of its parameters, and writeRTCMMessages must pass m.RawData there
			idx, isParam := params[arg]
			if !isParam {
				return true
			}
			passes, calls := 0, 0
			ast.Inspect(root.Body, func(k ast.Node) bool {
				if c, ok := k.(*ast.CallExpr); ok {
					if id, ok := c.Fun.(*ast.Ident); ok && id.Name == d.Name.Name {
						calls++
						if idx < len(c.Args) && types.ExprString(c.Args[idx]) == msgVar+".RawData" {
							passes++
						}
					}
				}
				return true
			})
			if calls == 1 && passes == 1 {
				good++
			}
			return true
		})
	}
	return writes == 1 && good == 1
}

// fanoutShape: appcore's HandleMessagesUntilEOF sends every message to every non-nil channel in index order and
// sends nothing else: in the function and the functions of the package it calls there is exactly one send
// statement; it sends an identifier and sits in a loop over <x>.Channels of one of these forms (c is
// <x>.Channels[i] for the loop's index i, or the loop's value variable):
//
//	for ... range <x>.Channels { if c != nil { c <- message } }
//	for ... range <x>.Channels { if c == nil { continue }; c <- message }
func fanoutShape(pi *pkgInfo) bool {
	if pi.funcs["HandleMessagesUntilEOF"] == nil {
		return false
	}
	sends, good := 0, 0
	for _, d := range reachable(pi, "HandleMessagesUntilEOF") {
		ast.Inspect(d.Body, func(m ast.Node) bool {
			switch x := m.(type) {
			case *ast.SendStmt:
				sends++
			case *ast.RangeStmt:
				sel, ok := x.X.(*ast.SelectorExpr)
				if !ok || sel.Sel.Name != "Channels" {
					return true
				}
				var names []string
				if id, ok := x.Key.(*ast.Ident); ok && id.Name != "_" {
					names = append(names, types.ExprString(x.X)+"["+id.Name+"]")
				}
				if id, ok := x.Value.(*ast.Ident); ok && id.Name != "_" {
					names = append(names, id.Name)
				}
				for _, c := range names {
					var send *ast.SendStmt
					switch len(x.Body.List) {
					case 1:
						if is, ok := x.Body.List[0].(*ast.IfStmt); ok && is.Else == nil && is.Init == nil && len(is.Body.List) == 1 &&
							isNilCompare(is.Cond, c, token.NEQ) {
							send, _ = is.Body.List[0].(*ast.SendStmt)
						}
					case 2:
						if is, ok := x.Body.List[0].(*ast.IfStmt); ok && is.Else == nil && is.Init == nil && len(is.Body.List) == 1 &&
							isNilCompare(is.Cond, c, token.EQL) {
							if b, ok := is.Body.List[0].(*ast.BranchStmt); ok && b.Tok == token.CONTINUE && b.Label == nil {
								send, _ = x.Body.List[1].(*ast.SendStmt)
							}
						}
					}
					if send != nil && types.ExprString(send.Chan) == c {
						if _, ok := send.Value.(*ast.Ident); ok {
							good++
						}
					}
				}
			}
			return true
		})
	}
	return sends == 1 && good == 1
}

// byteDriven: the framer reads its input only through ByteChannel.GetNextByte / PushBack and knows no clock:
// FetchNextMessageFrame and the functions of rtcm/handler it calls contain no select statement, no channel
// receive, do not mention package time and call no method of package rtcm/pushback other than GetNextByte and
// PushBack; package rtcm/pushback contains no select statement; neither reads a clock or sets a timer
// (time.Now, After, AfterFunc, Sleep, NewTimer, NewTicker, Tick, Since, Until).
// (A framer that flushes on a timer would make the segmentation depend on when bytes arrive.)
var clockCalls = map[string]bool{"Now": true, "After": true, "AfterFunc": true, "Sleep": true, "NewTimer": true,
	"NewTicker": true, "Tick": true, "Since": true, "Until": true}

func byteDriven(handler, pushback *pkgInfo) bool {
	if handler.funcs["FetchNextMessageFrame"] == nil {
		return false
	}
	for _, d := range reachable(handler, "FetchNextMessageFrame") {
		ok := true
		ast.Inspect(d.Body, func(m ast.Node) bool {
			switch x := m.(type) {
			case *ast.SelectStmt:
				ok = false
			case *ast.UnaryExpr:
				if x.Op == token.ARROW {
					ok = false
				}
			case *ast.SelectorExpr:
				if id, isId := x.X.(*ast.Ident); isId && id.Name == "time" && clockCalls[x.Sel.Name] {
					ok = false
				}
				if _, isPB := pushback.funcs[x.Sel.Name]; isPB && handler.funcs[x.Sel.Name] == nil &&
					x.Sel.Name != "GetNextByte" && x.Sel.Name != "PushBack" && x.Sel.Name != "New" {
					ok = false
				}
			}
			return true
		})
		if !ok {
			return false
		}
	}
	for _, d := range pushback.funcs {
		bad := false
		ast.Inspect(d.Body, func(m ast.Node) bool {
			switch x := m.(type) {
			case *ast.SelectStmt:
				bad = true
			case *ast.SelectorExpr:
				if id, isId := x.X.(*ast.Ident); isId && id.Name == "time" && clockCalls[x.Sel.Name] {
					bad = true
				}
			}
			return true
		})
		if bad {
			return false
		}
	}
	return len(pushback.funcs) > 0
}

// wholeBodyLocked: the function runs entirely under the given lock and neither it nor a function of the same
// package that it calls takes the lock again.
func wholeBodyLocked(pi *pkgInfo, fn, kind string) bool {
	if pi.lockFirst[fn] != kind || pi.lockers[fn+"#inner"] {
		return false
	}
	for callee := range pi.calls[fn] {
		if pi.lockers[callee] {
			return false
		}
	}
	return true
}

func recordChan(pi *pkgInfo, info *types.Info, fn, name string, e ast.Expr) {
	call, ok := e.(*ast.CallExpr)
	if !ok {
		return
	}
	id, ok := call.Fun.(*ast.Ident)
	if !ok || id.Name != "make" || len(call.Args) == 0 {
		return
	}
	if _, ok := call.Args[0].(*ast.ChanType); !ok {
		return
	}
	if len(call.Args) == 1 {
		pi.chans[fn+"."+name] = "0"
		return
	}
	if tv, ok := info.Types[call.Args[1]]; ok && tv.Value != nil {
		pi.chans[fn+"."+name] = exact(tv.Value)
	}
}

func exact(v constant.Value) string {
	if v.Kind() == constant.String {
		return "S:" + constant.StringVal(v)
	}
	if v.Kind() == constant.Int {
		return v.ExactString()
	}
	if v.Kind() == constant.Float {
		if i := constant.ToInt(v); i.Kind() == constant.Int {
			return i.ExactString()
		}
	}
	return v.ExactString()
}

func main() {
	repo := flag.String("repo", "/repo", "repository root")
	out := flag.String("out", "", "output directory for GenConsts.v")
	expectedPath := flag.String("expected", "", "committed expected values (fallback)")
	writeExpected := flag.Bool("write-expected", false, "rewrite the expected file from the current tree")
	flag.Parse()
	if err := os.Chdir(*repo); err != nil {
		fmt.Println("genfacts:", err)
		os.Exit(1)
	}
	expected := map[string]string{}
	if *expectedPath != "" {
		if f, err := os.Open(*expectedPath); err == nil {
			sc := bufio.NewScanner(f)
			for sc.Scan() {
				p := strings.Fields(sc.Text())
				if len(p) == 2 {
					expected[p[0]] = p[1]
				}
			}
			f.Close()
		}
	}
	cache := map[string]*pkgInfo{}
	get := func(dir string) *pkgInfo {
		if p, ok := cache[dir]; ok {
			return p
		}
		p := load(*repo, dir)
		cache[dir] = p
		return p
	}
	var b strings.Builder
	b.WriteString("(* GenConsts.v - GENERATED by /verif/harness/cmd/genfacts from /repo's working tree. Do not edit. *)\n")
	b.WriteString("From Coq Require Import NArith ZArith.\n\n")
	values := map[string]string{}
	emit := func(coq, kind, val string, found bool) {
		if !found {
			if e, ok := expected[coq]; ok {
				val = e
				fmt.Printf("DEGRADED %s (not found in the source; using the recorded value %s)\n", coq, val)
			} else {
				fmt.Printf("MISSING %s\n", coq)
				return
			}
		}
		values[coq] = val
		if kind == "N" {
			if strings.HasPrefix(val, "-") {
				fmt.Printf("BADKIND %s = %s is negative but declared N\n", coq, val)
				kind = "Z"
			}
		}
		if kind == "N" {
			fmt.Fprintf(&b, "Definition %s : N := %s%%N.\n", coq, val)
		} else {
			if strings.HasPrefix(val, "-") {
				fmt.Fprintf(&b, "Definition %s : Z := (%s)%%Z.\n", coq, val)
			} else {
				fmt.Fprintf(&b, "Definition %s : Z := %s%%Z.\n", coq, val)
			}
		}
	}
	for _, w := range wants {
		p := get(w.dir)
		v, ok := p.consts[w.fn+"."+w.name]
		emit(w.coq, w.kind, v, ok)
	}
	b.WriteString("\n(* channel capacities of make(chan ...) in the entry points *)\n")
	for _, w := range wantChans {
		p := get(w.dir)
		v, ok := p.chans[w.fn+"."+w.varName]
		emit(w.coq, "N", v, ok)
	}
	b.WriteString("\n(* does the entry point wait for its writer goroutine(s) before returning? *)\n")
	for _, w := range []struct{ coq, dir, fn string }{
		{"waits_displayrtcm3", "apps/displayrtcm3", "HandleMessages"},
		{"waits_rtcmfilter", "apps/rtcmfilter", "HandleMessages"},
		{"waits_rtcmlogger", "apps/rtcmlogger", "start"},
	} {
		fmt.Fprintf(&b, "Definition %s : bool := %v.\n", w.coq, get(w.dir).waits[w.fn])
	}
	b.WriteString("\n(* circular queue: Add runs entirely under the write lock, GetMessages entirely under the read lock,\n   neither takes the lock again (directly or through a function of the package) *)\n")
	b.WriteString("\n(* rtcmfilter's writer skips exactly the NonRTCMMessage messages and writes RawData; appcore fans every\n   message out to every non-nil channel in index order *)\n")
	fmt.Fprintf(&b, "Definition filter_skips_only_nonrtcm : bool := %v.\n", filterShape(get("apps/rtcmfilter")))
	fmt.Fprintf(&b, "Definition fanout_all_non_nil : bool := %v.\n", fanoutShape(get("apps/appcore")))
	fmt.Fprintf(&b, "Definition framer_is_byte_driven : bool := %v.\n", byteDriven(get("rtcm/handler"), get("rtcm/pushback")))
	cq := get("apps/proxy/circular_queue")
	fmt.Fprintf(&b, "Definition queue_add_locked : bool := %v.\n", wholeBodyLocked(cq, "Add", "Lock"))
	fmt.Fprintf(&b, "Definition queue_get_locked : bool := %v.\n", wholeBodyLocked(cq, "GetMessages", "RLock"))
	if *out != "" {
		path := filepath.Join(*out, "GenConsts.v")
		old, _ := os.ReadFile(path)
		if string(old) != b.String() {
			if err := os.WriteFile(path, []byte(b.String()), 0644); err != nil {
				fmt.Println("genfacts:", err)
				os.Exit(1)
			}
		}
	}
	if *writeExpected && *expectedPath != "" {
		keys := make([]string, 0, len(values))
		for k := range values {
			keys = append(keys, k)
		}
		sort.Strings(keys)
		var e strings.Builder
		for _, k := range keys {
			fmt.Fprintf(&e, "%s %s\n", k, values[k])
		}
		os.WriteFile(*expectedPath, []byte(e.String()), 0644)
	}
	// string facts for the harness (not used by Coq)
	if *out != "" {
		rp := get("apps/proxy/reportfeed")
		tmpl := strings.TrimPrefix(rp.consts[".reportFormat"], "S:")
		js, _ := json.Marshal(map[string]string{"reportFormat": tmpl})
		path := filepath.Join(*out, "facts.json")
		old, _ := os.ReadFile(path)
		if string(old) != string(js) {
			os.WriteFile(path, js, 0644)
		}
	}
	fmt.Printf("genfacts: %d constants\n", len(values))
}

package main

import (
	"bufio"
	"encoding/binary"
	"fmt"
	"strings"
	"sync"
	"sync/atomic"
	"time"

	circularQueue "github.com/goblimey/go-ntrip/apps/proxy/circular_queue"
	rtcm "github.com/goblimey/go-ntrip/rtcm/handler"
)

func init() {
	runners["queue"] = runQueue
	runners["queueconc"] = runQueueConc
}

func tagged(adder, seq uint32) rtcm.Message {
	b := make([]byte, 8)
	binary.BigEndian.PutUint32(b, adder)
	binary.BigEndian.PutUint32(b[4:], seq)
	return rtcm.Message{MessageType: -1, RawData: b}
}

func untag(m rtcm.Message) (uint32, uint32) {
	return binary.BigEndian.Uint32(m.RawData), binary.BigEndian.Uint32(m.RawData[4:])
}

// case: queue <capacity> <ops>      ops: a = add the next message (numbered 1, 2, ...), s = snapshot,
//
//	A<n> = add n messages in a row (long runs)
//
// obs:  one "s:<numbers joined by .>" per snapshot and a final "max=<largest number of stored items seen>"
func runQueue(f []string, out *bufio.Writer) {
	capacity := atoi(f[1])
	q := circularQueue.NewCircularQueue(capacity)
	var parts []string
	next := uint32(0)
	maxItems := 0
	ops := f[2]
	add := func() {
		next++
		q.Add(tagged(0, next))
		if len(q.Items) > maxItems {
			maxItems = len(q.Items)
		}
	}
	for i := 0; i < len(ops); i++ {
		switch ops[i] {
		case 'a':
			add()
		case 'A':
			j := i + 1
			for j < len(ops) && ops[j] >= '0' && ops[j] <= '9' {
				j++
			}
			n := atoi(ops[i+1 : j])
			for k := 0; k < n; k++ {
				add()
			}
			i = j - 1
		case 's':
			var xs []string
			for _, m := range q.GetMessages() {
				_, s := untag(m)
				xs = append(xs, fmt.Sprintf("%d", s))
			}
			parts = append(parts, "s:"+dash(strings.Join(xs, ".")))
		}
	}
	parts = append(parts, fmt.Sprintf("max=%d", maxItems))
	fmt.Fprintln(out, strings.Join(parts, " "))
}

// case: queueconc <capacity> <adders> <readers> <adds per adder> <snapshots per reader>
// Adders and readers run in goroutines.  Every snapshot is checked on the spot:
//   - at most <capacity> messages, no duplicates;
//   - per adder the sequence numbers are ascending and contiguous (a contiguous run of the addition order);
//   - across snapshots: a message has the same immediate predecessor in every snapshot in which it is not the first
//     (all snapshots are runs of ONE order of the additions);
//   - with a single adder: the run ends at j with started-before-return >= j >= completed-before-call and
//     has length min(capacity, j)  (consistent with the real-time order of the calls).
//
// obs: ok snapshots=<n> | bad <what>
func runQueueConc(f []string, out *bufio.Writer) {
	capacity, adders, readers, perAdder, perReader := atoi(f[1]), atoi(f[2]), atoi(f[3]), atoi(f[4]), atoi(f[5])
	q := circularQueue.NewCircularQueue(capacity)
	var started, completed int64
	var wg sync.WaitGroup
	var mu sync.Mutex
	bad := ""
	report := func(s string) {
		mu.Lock()
		if bad == "" {
			bad = s
		}
		mu.Unlock()
	}
	var snaps int64
	var predMu sync.Mutex
	pred := map[uint64]uint64{}
	for a := 0; a < adders; a++ {
		wg.Add(1)
		go func(a int) {
			defer wg.Done()
			for s := 1; s <= perAdder; s++ {
				atomic.AddInt64(&started, 1)
				q.Add(tagged(uint32(a), uint32(s)))
				atomic.AddInt64(&completed, 1)
			}
		}(a)
	}
	for r := 0; r < readers; r++ {
		wg.Add(1)
		go func() {
			defer wg.Done()
			for k := 0; k < perReader; k++ {
				before := atomic.LoadInt64(&completed)
				snap := q.GetMessages()
				after := atomic.LoadInt64(&started)
				atomic.AddInt64(&snaps, 1)
				if len(snap) > capacity {
					report(fmt.Sprintf("snapshot of %d messages from a queue of capacity %d", len(snap), capacity))
					return
				}
				last := map[uint32]uint32{}
				for _, m := range snap {
					a, s := untag(m)
					if p, ok := last[a]; ok && s != p+1 {
						report(fmt.Sprintf("adder %d: %d follows %d in a snapshot", a, s, p))
						return
					}
					last[a] = s
				}
				if len(snap) >= 2 {
					predMu.Lock()
					for i := 1; i < len(snap); i++ {
						a1, s1 := untag(snap[i])
						a0, s0 := untag(snap[i-1])
						k, v := uint64(a1)<<32|uint64(s1), uint64(a0)<<32|uint64(s0)
						if old, ok := pred[k]; ok && old != v {
							predMu.Unlock()
							report(fmt.Sprintf("message %d/%d follows %d/%d in one snapshot and %d/%d in another", a1, s1, a0, s0, old>>32, old&0xffffffff))
							return
						}
						pred[k] = v
					}
					predMu.Unlock()
				}
				if adders == 1 {
					n := int64(len(snap))
					var j int64
					if n > 0 {
						_, s := untag(snap[n-1])
						j = int64(s)
					}
					want := j
					if int64(capacity) < want {
						want = int64(capacity)
					}
					if j < before || j > after || n != want {
						report(fmt.Sprintf("snapshot ends at %d with %d messages; %d adds had completed before the call, %d had started when it returned", j, n, before, after))
						return
					}
				}
			}
		}()
	}
	finished := make(chan struct{})
	go func() { wg.Wait(); close(finished) }()
	select {
	case <-finished:
	case <-time.After(60 * time.Second):
		// adders and readers stopped making progress: a deadlock in the queue's locking
		fmt.Fprintln(out, "bad deadlock:_adders_and_snapshot_readers_stopped_making_progress_for_60_s")
		return
	}
	if bad != "" {
		fmt.Fprintln(out, "bad "+strings.ReplaceAll(bad, " ", "_"))
		return
	}
	fmt.Fprintf(out, "ok snapshots=%d\n", snaps)
}

package main

import (
	"encoding/hex"
	"fmt"
	"strconv"
)

// unhex decodes a hex string; "-" stands for the empty byte string.
func unhex(s string) []byte {
	if s == "-" {
		return []byte{}
	}
	b, err := hex.DecodeString(s)
	if err != nil {
		panic("bad hex in case file: " + s)
	}
	return b
}

func hexs(b []byte) string {
	if len(b) == 0 {
		return "-"
	}
	return hex.EncodeToString(b)
}

func atoi(s string) int {
	n, err := strconv.Atoi(s)
	if err != nil {
		panic("bad int in case file: " + s)
	}
	return n
}

func atoi64(s string) int64 {
	n, err := strconv.ParseInt(s, 10, 64)
	if err != nil {
		panic("bad int in case file: " + s)
	}
	return n
}

func atou64(s string) uint64 {
	n, err := strconv.ParseUint(s, 10, 64)
	if err != nil {
		panic("bad uint in case file: " + s)
	}
	return n
}

// hexInt64 prints a signed value as an optional minus sign and a hex magnitude.
func hexInt64(v int64) string {
	if v < 0 {
		return fmt.Sprintf("-%x", uint64(-v))
	}
	return fmt.Sprintf("%x", uint64(v))
}

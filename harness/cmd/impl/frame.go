package main

import (
	"bufio"
	"fmt"
	"log/slog"
	"strings"
	"time"

	rtcm "github.com/goblimey/go-ntrip/rtcm/handler"
	"github.com/goblimey/go-ntrip/rtcm/utils"
)

func init() {
	runners["stream"] = runStream
	runners["getmsg"] = runGetMsg
}

// errKind maps an error text of go-ntrip to the model's error enumeration.
func errKind(s string) string {
	switch {
	case s == "":
		return "-"
	case strings.HasPrefix(s, "zero length message frame"):
		return "ErrEmpty"
	case strings.HasPrefix(s, "the message is too short"):
		return "ErrTooShort"
	case strings.HasPrefix(s, "message starts with"):
		return "ErrPreamble"
	case strings.HasPrefix(s, "bits 8-13 of header"):
		return "ErrReserved"
	case strings.HasPrefix(s, "zero length message, type"):
		return "ErrZeroLength"
	case strings.HasPrefix(s, "incomplete message frame"):
		return "ErrIncomplete"
	case strings.HasPrefix(s, "CRC check failed"):
		return "ErrCRC"
	case strings.HasPrefix(s, "cannot check CRC"):
		return "ErrTooShort"
	case strings.HasPrefix(s, "MSM message is too short"):
		return "ErrTooShort"
	case strings.HasPrefix(s, "timestamp out of range"):
		return "ErrTimestampRange"
	case strings.HasPrefix(s, "milliseconds in timestamp out of range"):
		return "ErrGlonassMillis"
	case strings.HasPrefix(s, "unknown message type"):
		return "ErrUnknownType"
	case strings.HasPrefix(s, "bitstream is too short for an MSM header"):
		return "ErrTooShort"
	case strings.HasPrefix(s, "bit stream is ") && strings.Contains(s, "too short for a message type"):
		return "ErrTooShort"
	case strings.HasPrefix(s, "message type ") && strings.Contains(s, "is not an MSM"):
		return "ErrNotMSM"
	case strings.HasPrefix(s, "GetMSMHeader: cellMask is"):
		return "ErrCellMask"
	case strings.HasPrefix(s, "overrun"):
		return "ErrOverrun"
	case strings.HasPrefix(s, "expected message type"):
		return "ErrWrongType"
	}
	return "ErrOther(" + strings.ReplaceAll(s, " ", "_") + ")"
}

func level(s string) slog.Level {
	if s == "debug" {
		return slog.LevelDebug
	}
	return slog.LevelInfo
}

// sentAtField: "Time <date>" -> ns ; "Time (<error>)" -> E:<kind> ; "" -> "-"
func sentAtField(s string) string {
	if s == "" {
		return "-"
	}
	body := strings.TrimPrefix(s, "Time ")
	if strings.HasPrefix(body, "(") {
		return "E:" + errKind(strings.TrimSuffix(strings.TrimPrefix(body, "("), ")"))
	}
	t, err := time.Parse(utils.DateLayout, body)
	if err != nil {
		return "unparsable(" + strings.ReplaceAll(s, " ", "_") + ")"
	}
	return fmt.Sprintf("%d", t.UnixNano())
}

// startOfWeekField: "Start of X week <date>[ plus ...]" -> ns; "(...)" -> "-"
func startOfWeekField(s string) string {
	if s == "" {
		return "-"
	}
	i := strings.Index(s, " week ")
	if i < 0 {
		return "unparsable(" + strings.ReplaceAll(s, " ", "_") + ")"
	}
	body := s[i+6:]
	if strings.HasPrefix(body, "(") {
		return "-"
	}
	if j := strings.Index(body, " plus "); j >= 0 {
		body = body[:j]
	}
	t, err := time.Parse(utils.DateLayout, body)
	if err != nil {
		return "unparsable(" + strings.ReplaceAll(s, " ", "_") + ")"
	}
	return fmt.Sprintf("%d", t.UnixNano())
}

func msgFields(m *rtcm.Message) string {
	return fmt.Sprintf("%d,%s,%s,%d,%s,%s", m.MessageType, hexs(m.RawData), errKind(m.ErrorMessage),
		m.Timestamp, sentAtField(m.SentAt), startOfWeekField(m.StartOfWeek))
}

// case: stream <T ns> <info|debug> <hex> [capIn capOut [delay [stall:<idx>:<ms>]]]   (stall: the producer pauses once, before byte idx)
// obs:  n=<count> <msg>;<msg>;...   closed=<times the output was seen closed>   | panic
func runStream(f []string, out *bufio.Writer) {
	T := time.Unix(0, atoi64(f[1])).UTC()
	lvl := level(f[2])
	data := unhex(f[3])
	capIn, capOut := 0, 0
	if len(f) >= 6 {
		capIn, capOut = atoi(f[4]), atoi(f[5])
	}
	chIn := make(chan byte, capIn)
	chOut := make(chan rtcm.Message, capOut)
	h := rtcm.New(T, lvl)
	delay := 0
	if len(f) >= 7 {
		delay = atoi(f[6]) // 1: slow producer, 2: slow consumer, 3: both (yield between operations)
	}
	stallAt, stallMs := -1, 0
	if len(f) >= 8 && strings.HasPrefix(f[7], "stall:") {
		p := strings.Split(f[7], ":")
		if len(p) == 3 {
			stallAt, stallMs = atoi(p[1]), atoi(p[2])
		}
	}
	finished := make(chan interface{}, 1) // nil = returned normally, else the panic value
	go func() {
		defer func() {
			finished <- recover()
		}()
		h.HandleMessages(chIn, chOut)
	}()
	go func() {
		defer func() { recover() }()
		for i, b := range data {
			if delay&1 != 0 && i%3 == 0 {
				time.Sleep(20 * time.Microsecond)
			}
			if i == stallAt {
				time.Sleep(time.Duration(stallMs) * time.Millisecond)
			}
			chIn <- b
		}
		close(chIn)
	}()
	var msgs []string
	deadline := time.After(30 * time.Second)
loop:
	for {
		select {
		case m, ok := <-chOut:
			if !ok {
				break loop
			}
			mm := m
			msgs = append(msgs, msgFields(&mm))
			if delay&2 != 0 {
				time.Sleep(50 * time.Microsecond)
			}
		case r := <-finished:
			if r != nil {
				fmt.Fprintln(out, "panic")
				return
			}
			// returned: drain what is left
			for m := range chOut {
				mm := m
				msgs = append(msgs, msgFields(&mm))
			}
			fmt.Fprintf(out, "n=%d %s closed=1\n", len(msgs), strings.Join(msgs, ";"))
			return
		case <-deadline:
			fmt.Fprintln(out, "hang")
			return
		}
	}
	// the output was closed; the handler must now return without closing it again
	select {
	case r := <-finished:
		if r != nil {
			fmt.Fprintf(out, "n=%d %s closed=2\n", len(msgs), strings.Join(msgs, ";"))
			return
		}
	case <-time.After(10 * time.Second):
		fmt.Fprintln(out, "hang")
		return
	}
	fmt.Fprintf(out, "n=%d %s closed=1\n", len(msgs), strings.Join(msgs, ";"))
}

// case: getmsg <T ns> <info|debug> <hex>
// obs:  panic | nil ret=<kind> | <msg> ret=<kind>
func runGetMsg(f []string, out *bufio.Writer) {
	T := time.Unix(0, atoi64(f[1])).UTC()
	h := rtcm.New(T, level(f[2]))
	data := unhex(f[3])
	func() {
		defer func() {
			if r := recover(); r != nil {
				fmt.Fprintln(out, "panic")
			}
		}()
		m, err := h.GetMessage(data)
		ret := "-"
		if err != nil {
			ret = errKind(err.Error())
		}
		if m == nil {
			fmt.Fprintf(out, "nil ret=%s\n", ret)
			return
		}
		fmt.Fprintf(out, "%s ret=%s\n", msgFields(m), ret)
	}()
}

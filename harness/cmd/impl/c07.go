package main

import (
	"bufio"
	"fmt"
	"time"

	rtcm "github.com/goblimey/go-ntrip/rtcm/handler"
)

func init() {
	runners["display"] = runDisplay
	runners["full"] = runFull
}

// case: display <T ns> <info|debug> <hex>
// GetMessage on an arbitrary buffer, then Analyse + String of the result.
// obs: ok <text length> | nil | panic:<stage> | hang
func runDisplay(f []string, out *bufio.Writer) {
	T := time.Unix(0, atoi64(f[1])).UTC()
	h := rtcm.New(T, level(f[2]))
	data := unhex(f[3])
	done := make(chan string, 1)
	go func() {
		stage := "getmessage"
		defer func() {
			if r := recover(); r != nil {
				done <- "panic:" + stage
			}
		}()
		m, _ := h.GetMessage(data)
		if m == nil {
			done <- "nil"
			return
		}
		stage = "string"
		s1 := m.String()
		s2 := m.String()
		if s1 != s2 {
			done <- "unstable-display"
			return
		}
		done <- fmt.Sprintf("ok %d", len(s1))
	}()
	select {
	case r := <-done:
		fmt.Fprintln(out, r)
	case <-time.After(20 * time.Second):
		fmt.Fprintln(out, "hang")
	}
}

// case: full <T ns> <info|debug> <hex>
// The stream handler over the whole input, then String of every delivered message.
// obs: ok n=<messages> | panic:<stage> | hang
func runFull(f []string, out *bufio.Writer) {
	T := time.Unix(0, atoi64(f[1])).UTC()
	h := rtcm.New(T, level(f[2]))
	data := unhex(f[3])
	done := make(chan string, 1)
	chIn := make(chan byte, 16)
	chOut := make(chan rtcm.Message, 16)
	go func() {
		defer func() {
			if r := recover(); r != nil {
				done <- "panic:handlemessages"
			}
		}()
		h.HandleMessages(chIn, chOut)
	}()
	go func() {
		for _, b := range data {
			chIn <- b
		}
		close(chIn)
	}()
	go func() {
		n := 0
		defer func() {
			if r := recover(); r != nil {
				done <- "panic:string"
			}
		}()
		for m := range chOut {
			mm := m
			_ = mm.String()
			n++
		}
		done <- fmt.Sprintf("ok n=%d", n)
	}()
	select {
	case r := <-done:
		fmt.Fprintln(out, r)
	case <-time.After(30 * time.Second):
		fmt.Fprintln(out, "hang")
	}
}

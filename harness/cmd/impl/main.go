// impl runs the real go-ntrip code on the cases of one property and prints one
// canonical observation line per case.  Usage: impl <property> < cases > obs
package main

import (
	"bufio"
	"fmt"
	"os"
)

type runner func(fields []string, out *bufio.Writer)

var runners = map[string]runner{}

func main() {
	if len(os.Args) < 2 {
		fmt.Fprintln(os.Stderr, "usage: impl <property> < cases")
		os.Exit(2)
	}
	r, ok := runners[os.Args[1]]
	if !ok {
		fmt.Fprintf(os.Stderr, "impl: unknown property %s\n", os.Args[1])
		os.Exit(2)
	}
	in := bufio.NewReaderSize(os.Stdin, 1<<20)
	sc := bufio.NewScanner(in)
	sc.Buffer(make([]byte, 1<<20), 1<<26)
	out := bufio.NewWriterSize(os.Stdout, 1<<20)
	defer out.Flush()
	for sc.Scan() {
		line := sc.Text()
		if len(line) == 0 {
			continue
		}
		r(splitFields(line), out)
	}
}

func splitFields(s string) []string {
	var f []string
	start := -1
	for i := 0; i < len(s); i++ {
		if s[i] == ' ' {
			if start >= 0 {
				f = append(f, s[start:i])
				start = -1
			}
		} else if start < 0 {
			start = i
		}
	}
	if start >= 0 {
		f = append(f, s[start:])
	}
	return f
}

package main

import (
	"bufio"
	"fmt"
	"log/slog"
	"math"
	"strings"

	"github.com/goblimey/go-ntrip/rtcm/type1005"
	sat4 "github.com/goblimey/go-ntrip/rtcm/type_msm4/satellite"
	sig4 "github.com/goblimey/go-ntrip/rtcm/type_msm4/signal"
	sat7 "github.com/goblimey/go-ntrip/rtcm/type_msm7/satellite"
	sig7 "github.com/goblimey/go-ntrip/rtcm/type_msm7/signal"
	"github.com/goblimey/go-ntrip/rtcm/utils"
)

func init() {
	runners["ranges"] = runRanges
	runners["coord"] = runCoord
}

var constellationNames = map[int]string{1: "GPS", 2: "Glonass", 3: "Galileo", 4: "SBAS", 5: "QZSS", 6: "Beidou", 7: "NavIC/IRNSS", 0: "unknown constellation"}

// case: ranges <k7 0|1> <W> <F> <range delta> <phase delta> <rough rate> <fine rate> <constellation code> <signal id>
// obs:  <agg range hex> <agg phase hex> <agg rate hex> <range bits> <phase bits> <rate bits> <doppler bits> <wavelength bits>
//
//	<markers: i=range invalid marker shown, n=no wavelength marker shown, -=none>
func runRanges(f []string, out *bufio.Writer) {
	k7 := f[1] == "1"
	W, F := uint(atoi(f[2])), uint(atoi(f[3]))
	d, p, R, r := atoi(f[4]), atoi(f[5]), atoi(f[6]), atoi(f[7])
	cons := constellationNames[atoi(f[8])]
	sigID := uint(atoi(f[9]))
	wl := utils.GetSignalWavelength(cons, sigID)
	func() {
		defer func() {
			if x := recover(); x != nil {
				fmt.Fprintln(out, "panic")
			}
		}()
		if k7 {
			sc := sat7.New(1, W, F, 0, R, slog.LevelDebug)
			c := sig7.New(sigID, sc, d, p, 1, false, 40, r, wl, slog.LevelDebug)
			text := c.String()
			marks := ""
			if strings.Contains(text, "invalid") {
				marks += "i"
			}
			if strings.Contains(text, "no wavelength") {
				marks += "n"
			}
			fmt.Fprintf(out, "%x %x %s %x %x %x %x %x %s\n", c.GetAggregateRange(), c.GetAggregatePhaseRange(), hexInt64(c.GetAggregatePhaseRangeRate()),
				math.Float64bits(c.RangeInMetres()), math.Float64bits(c.PhaseRange()), math.Float64bits(c.PhaseRangeRate()),
				math.Float64bits(c.PhaseRangeRateDoppler()), math.Float64bits(wl), dash(marks))
		} else {
			sc := sat4.New(1, W, F, slog.LevelDebug)
			c := sig4.New(sigID, sc, d, p, 1, false, 40, wl, slog.LevelDebug)
			text := c.String()
			marks := ""
			if strings.Contains(text, "invalid") {
				marks += "i"
			}
			fmt.Fprintf(out, "%x %x 0 %x %x 0 0 %x %s\n", c.GetAggregateRange(), c.GetAggregatePhaseRange(),
				math.Float64bits(c.RangeInMetres()), math.Float64bits(c.PhaseRange()), math.Float64bits(wl), dash(marks))
		}
	}()
}

// case: coord <x>      obs: <bits of float64(x)*0.0001> <the %.4f text>
func runCoord(f []string, out *bufio.Writer) {
	x := atoi64(f[1])
	m := type1005.New(1, 1, 0, x, 0, 0, 0, 0, slog.LevelInfo)
	text := m.String()
	c := reCoords.FindStringSubmatch(text)
	v := float64(x) * 0.0001
	if c == nil {
		fmt.Fprintf(out, "%x nocoords\n", math.Float64bits(v))
		return
	}
	fmt.Fprintf(out, "%x %s\n", math.Float64bits(v), c[1])
}

package main

import (
	"bufio"
	"errors"
	"fmt"
	"io"
	"log"
	"runtime"
	"strings"
	"sync"
	"time"

	"github.com/goblimey/go-ntrip/apps/appcore"
	filehandler "github.com/goblimey/go-ntrip/file_handler"
	"github.com/goblimey/go-ntrip/jsonconfig"
	rtcm "github.com/goblimey/go-ntrip/rtcm/handler"
)

func init() {
	runners["pipeline"] = runPipeline
	runners["eofretry"] = runEOFRetry
}

// scriptReader plays a script of read results.
//
//	d:<hex>     deliver these bytes (possibly over several Read calls)
//	de:<hex>    deliver these bytes and return io.EOF in the same Read call as the last of them
//	eof         return io.EOF once
//	timeout     return an error whose text contains "i/o timeout" once
//	err         return another error once
//	sleep:<ms>  pause before the next step
//
// After the script it returns io.EOF for ever.
type scriptReader struct {
	steps       []string
	cur         []byte
	eofWithLast bool
}

func (r *scriptReader) Read(p []byte) (int, error) {
	for {
		if len(r.cur) > 0 {
			n := copy(p, r.cur)
			r.cur = r.cur[n:]
			if len(r.cur) == 0 && r.eofWithLast {
				r.eofWithLast = false
				return n, io.EOF
			}
			return n, nil
		}
		if len(r.steps) == 0 {
			return 0, io.EOF
		}
		s := r.steps[0]
		r.steps = r.steps[1:]
		switch {
		case strings.HasPrefix(s, "d:"):
			r.cur = unhex(s[2:])
		case strings.HasPrefix(s, "de:"):
			r.cur = unhex(s[3:])
			r.eofWithLast = len(r.cur) > 0
		case s == "eof":
			return 0, io.EOF
		case s == "timeout":
			return 0, errors.New("read /dev/ttyUSB0: i/o timeout")
		case s == "err":
			return 0, errors.New("read /dev/ttyUSB0: input/output error")
		case strings.HasPrefix(s, "sleep:"):
			time.Sleep(time.Duration(atoi(s[6:])) * time.Millisecond)
		}
	}
}

// withSystemLog gives every second case a system log (the applications run with one; the library's logging branches
// must not change what is delivered).
var systemLogToggle int

func withSystemLog(cfg *jsonconfig.Config) {
	systemLogToggle++
	if systemLogToggle%2 == 0 {
		cfg.SystemLog = log.New(io.Discard, "verif ", log.LstdFlags)
	}
}

func msgTR(m *rtcm.Message) string { return fmt.Sprintf("%d,%s", m.MessageType, hexs(m.RawData)) }

// case: pipeline <script: step;step;...> <sinks: cap[s] | nil, comma separated ("s" = slow consumer, "S" = consumer that stays away for 2.5 s after its first message)> <gomaxprocs> <tolerance ms> [rounds]
// obs:  ret=<0|1> sink0=<type,raw;...> sink1=... goroutines=<leaked count> [close=<ok|twice>] | hang | panic
// rounds (default 1): the same AppCore processes the script that many times, one source after the other, as
// AppCore.HandleMessages does when the input comes back; the sinks keep collecting.  With rounds > 1 the harness
// finally closes every non-nil channel of the list it handed to appcore.New, as rtcmfilter's HandleMessages does
// with its own list: close=twice means one of them was already closed (the list no longer names each consumer once).
func runPipeline(f []string, out *bufio.Writer) {
	steps := strings.Split(f[1], ";")
	if f[1] == "-" {
		steps = nil
	}
	prev := runtime.GOMAXPROCS(atoi(f[3]))
	defer runtime.GOMAXPROCS(prev)
	cfg := &jsonconfig.Config{TimeoutOnEOFMilliSeconds: uint(atoi(f[4])), WaitTimeOnEOFMilliseconds: 1}
	var chans []chan rtcm.Message
	type sink struct {
		ch    chan rtcm.Message
		slow  bool
		stall bool
		got   []string
	}
	var sinks []*sink
	for _, s := range strings.Split(f[2], ",") {
		if s == "nil" {
			chans = append(chans, nil)
			sinks = append(sinks, nil)
			continue
		}
		slow := strings.HasSuffix(s, "s")
		stall := strings.HasSuffix(s, "S") // stays away from its channel for 2.5 s after its first message
		c := make(chan rtcm.Message, atoi(strings.TrimSuffix(strings.TrimSuffix(s, "s"), "S")))
		chans = append(chans, c)
		sinks = append(sinks, &sink{ch: c, slow: slow, stall: stall})
	}
	before := runtime.NumGoroutine()
	var wg sync.WaitGroup
	stop := make(chan struct{})
	for _, s := range sinks {
		if s == nil {
			continue
		}
		wg.Add(1)
		go func(s *sink) {
			defer wg.Done()
			for {
				select {
				case m := <-s.ch:
					mm := m
					s.got = append(s.got, msgTR(&mm))
					if s.slow {
						time.Sleep(100 * time.Microsecond)
					}
					if s.stall && len(s.got) == 1 {
						time.Sleep(2500 * time.Millisecond)
					}
				case <-stop:
					// drain what is already queued
					for {
						select {
						case m := <-s.ch:
							mm := m
							s.got = append(s.got, msgTR(&mm))
						default:
							return
						}
					}
				}
			}
		}(s)
	}
	rounds := 1
	if len(f) > 5 {
		rounds = atoi(f[5])
	}
	core := appcore.New(cfg, chans)
	type result struct {
		ret int
		pan interface{}
	}
	var res result
	for round := 0; round < rounds; round++ {
		done := make(chan result, 1)
		go func() {
			defer func() {
				if r := recover(); r != nil {
					done <- result{0, r}
				}
			}()
			ret := core.HandleMessagesUntilEOF(time.Unix(1683720000, 0).UTC(), bufio.NewReader(&scriptReader{steps: steps}))
			done <- result{ret, nil}
		}()
		select {
		case res = <-done:
		case <-time.After(60 * time.Second):
			fmt.Fprintln(out, "hang")
			close(stop)
			return
		}
		if res.pan != nil {
			fmt.Fprintln(out, "panic")
			close(stop)
			return
		}
		if res.ret != 0 {
			break
		}
	}
	close(stop)
	wg.Wait()
	closing := ""
	if rounds > 1 {
		closing = "ok"
		for _, c := range chans {
			if c == nil {
				continue
			}
			func() {
				defer func() {
					if recover() != nil {
						closing = "twice"
					}
				}()
				close(c)
			}()
		}
	}
	// all helper goroutines must finish
	leaked := 0
	for i := 0; i < 200; i++ {
		leaked = runtime.NumGoroutine() - before
		if leaked <= 0 {
			break
		}
		time.Sleep(5 * time.Millisecond)
	}
	if leaked < 0 {
		leaked = 0
	}
	var parts []string
	parts = append(parts, fmt.Sprintf("ret=%d", res.ret))
	for i, s := range sinks {
		if s == nil {
			parts = append(parts, fmt.Sprintf("sink%d=nil", i))
		} else {
			parts = append(parts, fmt.Sprintf("sink%d=%s", i, dash(strings.Join(s.got, ";"))))
		}
	}
	parts = append(parts, fmt.Sprintf("goroutines=%d", leaked))
	if closing != "" {
		parts = append(parts, "close="+closing)
	}
	fmt.Fprintln(out, strings.Join(parts, " "))
}

// case: eofretry <script> <tolerance ms> <wait ms>
// The file handler alone: Handle(start, reader) with its message channel drained here.
// obs:  err=<eof|timeout|other|nil> msgs=<type,raw;...> closed=<0|1> | hang | panic
func runEOFRetry(f []string, out *bufio.Writer) {
	steps := strings.Split(f[1], ";")
	if f[1] == "-" {
		steps = nil
	}
	cfg := &jsonconfig.Config{TimeoutOnEOFMilliSeconds: uint(atoi(f[2])), WaitTimeOnEOFMilliseconds: uint(atoi(f[3]))}
	withSystemLog(cfg)
	ch := make(chan rtcm.Message)
	fh := filehandler.New(ch, cfg)
	type result struct {
		err error
		pan interface{}
	}
	done := make(chan result, 1)
	go func() {
		defer func() {
			if r := recover(); r != nil {
				done <- result{nil, r}
			}
		}()
		done <- result{fh.Handle(time.Unix(1683720000, 0).UTC(), bufio.NewReader(&scriptReader{steps: steps})), nil}
	}()
	var got []string
	closed := 0
	deadline := time.After(60 * time.Second)
loop:
	for {
		select {
		case m, ok := <-ch:
			if !ok {
				closed = 1
				break loop
			}
			mm := m
			got = append(got, msgTR(&mm))
		case <-deadline:
			fmt.Fprintln(out, "hang")
			return
		}
	}
	var res result
	select {
	case res = <-done:
	case <-time.After(20 * time.Second):
		fmt.Fprintln(out, "hang")
		return
	}
	if res.pan != nil {
		fmt.Fprintln(out, "panic")
		return
	}
	kind := "nil"
	if res.err != nil {
		switch {
		case res.err == io.EOF:
			kind = "eof"
		case strings.Contains(res.err.Error(), "i/o timeout"):
			kind = "timeout"
		default:
			kind = "other"
		}
	}
	fmt.Fprintf(out, "err=%s msgs=%s closed=%d\n", kind, dash(strings.Join(got, ";")), closed)
}

package main

import (
	"bufio"
	"encoding/hex"
	"fmt"
	"log/slog"
	"strings"
	"time"

	circularQueue "github.com/goblimey/go-ntrip/apps/proxy/circular_queue"
	"github.com/goblimey/go-ntrip/apps/proxy/reportfeed"
	rtcm "github.com/goblimey/go-ntrip/rtcm/handler"
)

func init() {
	runners["status"] = runStatus
	runners["sanitise"] = runSanitise
}

// case: sanitise <hex>     obs: <hex of Sanitise(string)>
func runSanitise(f []string, out *bufio.Writer) {
	s := string(unhex(f[1]))
	fmt.Fprintln(out, hexs([]byte(reportfeed.Sanitise(s))))
}

// case: status <client hex|nil> <server hex|nil> <raw,raw,...|-> <info|debug>
// obs:  skeleton=<hex of the page with nothing recorded> page=<hex of the page>
//
//	displays=<hex,hex,..: Message.String() of every queued message>
func runStatus(f []string, out *bufio.Writer) {
	func() {
		defer func() {
			if r := recover(); r != nil {
				fmt.Fprintln(out, "panic")
			}
		}()
		empty := reportfeed.New(nil, circularQueue.NewCircularQueue(20))
		skeleton := empty.Status()
		q := circularQueue.NewCircularQueue(20)
		rf := reportfeed.New(nil, q)
		h := rtcm.New(time.Unix(1683720000, 0).UTC(), level(f[4]))
		var displays []string
		if f[3] != "-" {
			for _, r := range strings.Split(f[3], ",") {
				m, _ := h.GetMessage(unhex(r))
				if m == nil {
					continue
				}
				q.Add(*m)
			}
		}
		for _, m := range q.GetMessages() {
			mm := m
			displays = append(displays, hex.EncodeToString([]byte(mm.String())))
		}
		if f[1] != "nil" {
			b := unhex(f[1])
			rf.RecordClientBuffer(&b, 7, len(b))
		}
		if f[2] != "nil" {
			b := unhex(f[2])
			rf.RecordServerBuffer(&b, 7, len(b))
		}
		page := rf.Status()
		d := "-"
		if len(displays) > 0 {
			d = strings.Join(displays, ",")
		}
		fmt.Fprintf(out, "skeleton=%s page=%s displays=%s\n", hexs(skeleton), hexs(page), d)
	}()
	_ = slog.LevelInfo
}

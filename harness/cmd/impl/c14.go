package main

import (
	"bufio"
	"fmt"

	"github.com/goblimey/go-ntrip/rtcm/utils"
)

func init() { runners["c14"] = runC14 }

// case:  u <hexbuf> <pos> <len>   |   s <hexbuf> <pos> <len>
// obs:   ok <hex> | panic
func runC14(f []string, out *bufio.Writer) {
	buf := unhex(f[1])
	pos := uint(atoi(f[2]))
	ln := uint(atoi(f[3]))
	func() {
		defer func() {
			if r := recover(); r != nil {
				fmt.Fprintln(out, "panic")
			}
		}()
		if f[0] == "u" {
			fmt.Fprintf(out, "ok %x\n", utils.GetBitsAsUint64(buf, pos, ln))
		} else {
			fmt.Fprintf(out, "ok %s\n", hexInt64(utils.GetBitsAsInt64(buf, pos, ln)))
		}
	}()
}

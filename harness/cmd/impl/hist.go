package main

import (
	"bufio"
	"fmt"
	"strings"
	"time"

	rtcm "github.com/goblimey/go-ntrip/rtcm/handler"
)

func init() { runners["hist"] = runHist }

// case: hist <T ns> <info|debug> <getmsg|stream> <hex,hex,...> [tz offset seconds [live]]
// obs:  <sent>,<sow>;...   one pair per frame   | panic | hang
func runHist(f []string, out *bufio.Writer) {
	T := time.Unix(0, atoi64(f[1])).UTC()
	if len(f) >= 6 {
		T = T.In(time.FixedZone("case", atoi(f[5])))
	}
	if len(f) >= 7 && f[6] == "live" {
		// a live handler: created with the wall clock's "now" (the case's T is the same instant to within the run time)
		T = time.Now().In(T.Location())
	}
	h := rtcm.New(T, level(f[2]))
	var frames [][]byte
	for _, x := range strings.Split(f[4], ",") {
		frames = append(frames, unhex(x))
	}
	var reps []string
	if f[3] == "getmsg" {
		ok := func() (ok bool) {
			defer func() {
				if r := recover(); r != nil {
					ok = false
				}
			}()
			for _, fr := range frames {
				m, _ := h.GetMessage(fr)
				if m == nil {
					reps = append(reps, "-,-")
					continue
				}
				reps = append(reps, sentAtField(m.SentAt)+","+startOfWeekField(m.StartOfWeek))
			}
			return true
		}()
		if !ok {
			fmt.Fprintln(out, "panic")
			return
		}
	} else {
		chIn := make(chan byte, 64)
		chOut := make(chan rtcm.Message, 4)
		panicked := make(chan bool, 1)
		go func() {
			defer func() {
				if r := recover(); r != nil {
					panicked <- true
				}
			}()
			h.HandleMessages(chIn, chOut)
		}()
		go func() {
			for _, fr := range frames {
				for _, b := range fr {
					chIn <- b
				}
			}
			close(chIn)
		}()
		deadline := time.After(20 * time.Second)
	loop:
		for {
			select {
			case m, ok := <-chOut:
				if !ok {
					break loop
				}
				reps = append(reps, sentAtField(m.SentAt)+","+startOfWeekField(m.StartOfWeek))
			case <-panicked:
				fmt.Fprintln(out, "panic")
				return
			case <-deadline:
				fmt.Fprintln(out, "hang")
				return
			}
		}
	}
	fmt.Fprintln(out, strings.Join(reps, ";"))
}

package main

import (
	"bufio"
	"fmt"
	"log/slog"
	"strings"
	"time"

	rtcm "github.com/goblimey/go-ntrip/rtcm/handler"
	"github.com/goblimey/go-ntrip/rtcm/header"
	"github.com/goblimey/go-ntrip/rtcm/type1005"
	"github.com/goblimey/go-ntrip/rtcm/type1006"
	msm4 "github.com/goblimey/go-ntrip/rtcm/type_msm4/message"
	msm7 "github.com/goblimey/go-ntrip/rtcm/type_msm7/message"
)

func init() { runners["decode"] = runDecode }

func b01(b bool) int {
	if b {
		return 1
	}
	return 0
}

func joinU(xs []uint) string {
	if len(xs) == 0 {
		return "-"
	}
	s := make([]string, len(xs))
	for i, x := range xs {
		s[i] = fmt.Sprintf("%d", x)
	}
	return strings.Join(s, ".")
}

func headerView(h *header.Header) string {
	rows := make([]string, len(h.Cells))
	for i, r := range h.Cells {
		var sb strings.Builder
		for _, c := range r {
			sb.WriteByte(byte('0' + b01(c)))
		}
		rows[i] = sb.String()
		if rows[i] == "" {
			rows[i] = "e"
		}
	}
	rs := strings.Join(rows, ".")
	if len(rows) == 0 {
		rs = "-"
	}
	return fmt.Sprintf("H:%d,%d,%d,%d,%d,%d,%d,%d,%d,%d,%x,%x,%x,%s,%s,%s,%d",
		h.MessageType, h.StationID, h.Timestamp, b01(h.MultipleMessage), h.IssueOfDataStation,
		h.SessionTransmissionTime, h.ClockSteeringIndicator, h.ExternalClockSteeringIndicator,
		b01(h.GNSSDivergenceFreeSmoothingIndicator), h.GNSSSmoothingInterval,
		h.SatelliteMask, h.SignalMask, h.CellMask, joinU(h.Satellites), joinU(h.Signals), rs, h.NumSignalCells)
}

func msm4View(m *msm4.Message) string {
	sats := make([]string, len(m.Satellites))
	for i, s := range m.Satellites {
		sats[i] = fmt.Sprintf("%d/%d/0/%d/0", s.ID, s.RangeWholeMillis, s.RangeFractionalMillis)
	}
	rows := make([]string, len(m.Signals))
	for i, r := range m.Signals {
		cells := make([]string, len(r))
		for j, c := range r {
			sat := -1
			if c.Satellite != nil {
				sat = int(c.Satellite.ID)
			}
			cells[j] = fmt.Sprintf("%d:%d/%d/%d/%d/%d/%d/0", sat, c.ID, c.RangeDelta, c.PhaseRangeDelta,
				c.LockTimeIndicator, b01(c.HalfCycleAmbiguity), c.CarrierToNoiseRatio)
		}
		rows[i] = strings.Join(cells, ",")
		if len(r) == 0 {
			rows[i] = "e"
		}
	}
	return "msm " + headerView(m.Header) + "|S:" + dash(strings.Join(sats, ";")) + "|C:" + dash(strings.Join(rows, ";"))
}

func msm7View(m *msm7.Message) string {
	sats := make([]string, len(m.Satellites))
	for i, s := range m.Satellites {
		sats[i] = fmt.Sprintf("%d/%d/%d/%d/%d", s.ID, s.RangeWholeMillis, s.ExtendedInfo, s.RangeFractionalMillis, s.PhaseRangeRate)
	}
	rows := make([]string, len(m.Signals))
	for i, r := range m.Signals {
		cells := make([]string, len(r))
		for j, c := range r {
			sat := -1
			if c.Satellite != nil {
				sat = int(c.Satellite.ID)
			}
			cells[j] = fmt.Sprintf("%d:%d/%d/%d/%d/%d/%d/%d", sat, c.ID, c.RangeDelta, c.PhaseRangeDelta,
				c.LockTimeIndicator, b01(c.HalfCycleAmbiguity), c.CarrierToNoiseRatio, c.PhaseRangeRateDelta)
		}
		rows[i] = strings.Join(cells, ",")
		if len(r) == 0 {
			rows[i] = "e"
		}
	}
	return "msm " + headerView(m.Header) + "|S:" + dash(strings.Join(sats, ";")) + "|C:" + dash(strings.Join(rows, ";"))
}

func dash(s string) string {
	if s == "" {
		return "-"
	}
	return s
}

func st1005View(m *type1005.Message) string {
	return fmt.Sprintf("st %d,%d,%d,%d,%d,%d,%d,%d,%d,0", m.MessageType, m.StationID, m.ITRFRealisationYear,
		m.Ignored1, m.AntennaRefX, m.Ignored2, m.AntennaRefY, m.Ignored3, m.AntennaRefZ)
}

func st1006View(m *type1006.Message) string {
	return fmt.Sprintf("st %d,%d,%d,%d,%d,%d,%d,%d,%d,%d", m.MessageType, m.StationID, m.ITRFRealisationYear,
		m.Ignored1, m.AntennaRefX, m.Ignored2, m.AntennaRefY, m.Ignored3, m.AntennaRefZ, m.AntennaHeight)
}

// case: decode <4|7|1005|1006|auto> <hex>
// obs:  msm <view> | st <view> | err <kind> | other | panic
// "auto" goes through handler.GetMessage + PrepareForDisplay (the Analyse dispatch).
func runDecode(f []string, out *bufio.Writer) {
	data := unhex(f[2])
	func() {
		defer func() {
			if r := recover(); r != nil {
				fmt.Fprintln(out, "panic")
			}
		}()
		switch f[1] {
		case "4":
			m, err := msm4.GetMessage(data, slog.LevelDebug)
			if err != nil {
				fmt.Fprintln(out, "err "+errKind(err.Error()))
				return
			}
			fmt.Fprintln(out, msm4View(m))
		case "7":
			m, err := msm7.GetMessage(data, slog.LevelDebug)
			if err != nil {
				fmt.Fprintln(out, "err "+errKind(err.Error()))
				return
			}
			fmt.Fprintln(out, msm7View(m))
		case "1005":
			m, err := type1005.GetMessage(data, slog.LevelDebug)
			if err != nil {
				fmt.Fprintln(out, "err "+errKind(err.Error()))
				return
			}
			fmt.Fprintln(out, st1005View(m))
		case "1006":
			m, err := type1006.GetMessage(data, slog.LevelDebug)
			if err != nil {
				fmt.Fprintln(out, "err "+errKind(err.Error()))
				return
			}
			fmt.Fprintln(out, st1006View(m))
		default:
			h := rtcm.New(time.Unix(1683720000, 0).UTC(), slog.LevelDebug)
			msg, _ := h.GetMessage(data)
			if msg == nil {
				fmt.Fprintln(out, "nil")
				return
			}
			if msg.MessageType < 0 {
				fmt.Fprintln(out, "nonrtcm")
				return
			}
			before := msg.ErrorMessage
			r := rtcm.PrepareForDisplay(msg)
			switch v := r.(type) {
			case *msm4.Message:
				fmt.Fprintln(out, msm4View(v))
			case *msm7.Message:
				fmt.Fprintln(out, msm7View(v))
			case *type1005.Message:
				fmt.Fprintln(out, st1005View(v))
			case *type1006.Message:
				fmt.Fprintln(out, st1006View(v))
			case string:
				fmt.Fprintln(out, "other")
			default:
				if msg.ErrorMessage != "" && msg.ErrorMessage != before {
					fmt.Fprintln(out, "err "+errKind(msg.ErrorMessage))
				} else if msg.ErrorMessage != "" {
					fmt.Fprintln(out, "err "+errKind(msg.ErrorMessage))
				} else {
					fmt.Fprintln(out, "other")
				}
			}
		}
	}()
}

package main

import (
	"bufio"
	"bytes"
	"fmt"
	"strings"
	"sync"
	"time"

	rtcm "github.com/goblimey/go-ntrip/rtcm/handler"
	"github.com/goblimey/go-ntrip/rtcm/type1005"
	"github.com/goblimey/go-ntrip/rtcm/type1006"
	msm4 "github.com/goblimey/go-ntrip/rtcm/type_msm4/message"
	msm7 "github.com/goblimey/go-ntrip/rtcm/type_msm7/message"
)

func init() { runners["determ"] = runDeterm }

// stripTime removes the MSM time lines, which by design follow the handler's time history.
func stripTime(s string) string {
	var out []string
	for _, l := range strings.Split(s, "\n") {
		if strings.HasPrefix(l, "Time ") || strings.HasPrefix(l, "Start of ") {
			continue
		}
		out = append(out, l)
	}
	return strings.Join(out, "\n")
}

type obs struct {
	mtype int
	view  string
	text  string
	raw   []byte
}

func viewOf(m *rtcm.Message) string {
	switch v := rtcm.PrepareForDisplay(m).(type) {
	case *msm4.Message:
		return msm4View(v)
	case *msm7.Message:
		return msm7View(v)
	case *type1005.Message:
		return st1005View(v)
	case *type1006.Message:
		return st1006View(v)
	case string:
		return "str:" + v
	}
	return "none"
}

func observe(h *rtcm.Handler, frame []byte) obs {
	m, _ := h.GetMessage(frame)
	if m == nil {
		return obs{mtype: -99}
	}
	before := append([]byte(nil), m.RawData...)
	v := viewOf(m)
	t1 := m.String()
	t2 := m.String()
	t3 := m.String()
	o := obs{mtype: m.MessageType, view: v, text: stripTime(t1), raw: before}
	if t1 != t2 || t2 != t3 {
		o.view += "|UNSTABLE-DISPLAY"
	}
	if !bytes.Equal(before, m.RawData) {
		o.view += "|RAW-MODIFIED"
	}
	return o
}

func sameObs(a, b obs) string {
	switch {
	case a.mtype != b.mtype:
		return "type"
	case a.view != b.view:
		return "decoded-fields"
	case a.text != b.text:
		return "text"
	case !bytes.Equal(a.raw, b.raw):
		return "raw"
	}
	return ""
}

// case: determ <info|debug> <hex,hex,...> <handlers>
// obs:  ok n=<frames> | diff <where>:<what>:frame<i>
func runDeterm(f []string, out *bufio.Writer) {
	lvl := level(f[1])
	var frames [][]byte
	for _, x := range strings.Split(f[2], ",") {
		frames = append(frames, unhex(x))
	}
	nh := atoi(f[3])
	T := time.Unix(1683720000, 0).UTC()
	// reference: every frame processed first, by a fresh handler
	ref := make([]obs, len(frames))
	for i, fr := range frames {
		ref[i] = observe(rtcm.New(T, lvl), fr)
		if strings.Contains(ref[i].view, "|") && (strings.Contains(ref[i].view, "UNSTABLE") || strings.Contains(ref[i].view, "RAW-MODIFIED")) {
			fmt.Fprintf(out, "diff fresh:%s:frame%d\n", ref[i].view[strings.LastIndex(ref[i].view, "|")+1:], i)
			return
		}
	}
	// one handler, in order, twice over (any other frames before)
	h := rtcm.New(T, lvl)
	for round := 0; round < 2; round++ {
		for i, fr := range frames {
			if d := sameObs(observe(h, fr), ref[i]); d != "" {
				fmt.Fprintf(out, "diff sequential:%s:frame%d\n", d, i)
				return
			}
		}
	}
	// several handlers in parallel goroutines, different orders
	var wg sync.WaitGroup
	var mu sync.Mutex
	bad := ""
	for g := 0; g < nh; g++ {
		wg.Add(1)
		go func(g int) {
			defer wg.Done()
			hh := rtcm.New(T, lvl)
			for k := range frames {
				i := (k*7 + g*3) % len(frames)
				if d := sameObs(observe(hh, frames[i]), ref[i]); d != "" {
					mu.Lock()
					if bad == "" {
						bad = fmt.Sprintf("parallel:%s:frame%d", d, i)
					}
					mu.Unlock()
					return
				}
			}
		}(g)
	}
	wg.Wait()
	if bad != "" {
		fmt.Fprintln(out, "diff "+bad)
		return
	}
	// a stream through HandleMessages with a consumer that lags: the frames interleaved with false starts (0xd3
	// with reserved bits set, a frame with a corrupted CRC, text); messages are kept and looked at again after the
	// handler has finished - a delivered message must not change when the handler moves on
	{
		var stream []byte
		for i, fr := range frames {
			stream = append(stream, fr...)
			switch i % 3 {
			case 0:
				stream = append(stream, 0xd3, 0xfc, 0x01, 0x02, 0x03, 0x04)
			case 1:
				bad := append([]byte(nil), fr...)
				bad[len(bad)-1] ^= 0x5a
				stream = append(stream, bad...)
			case 2:
				stream = append(stream, []byte("$GPGGA,123519,4807.038,N*47\r\n")...)
			}
		}
		chIn := make(chan byte, 64)
		chOut := make(chan rtcm.Message, 4096)
		hs := rtcm.New(T, lvl)
		go hs.HandleMessages(chIn, chOut)
		go func() {
			for _, b := range stream {
				chIn <- b
			}
			close(chIn)
		}()
		var kept []rtcm.Message
		var atReceipt [][]byte
		deadline := time.After(60 * time.Second)
	collect:
		for {
			select {
			case m, ok := <-chOut:
				if !ok {
					break collect
				}
				if len(kept)%4 == 3 {
					time.Sleep(200 * time.Microsecond) // lag behind the handler now and then
				}
				kept = append(kept, m)
				atReceipt = append(atReceipt, append([]byte(nil), m.RawData...))
			case <-deadline:
				fmt.Fprintln(out, "diff stream:hang:frame0")
				return
			}
		}
		var cat []byte
		for i := range kept {
			if !bytes.Equal(kept[i].RawData, atReceipt[i]) {
				fmt.Fprintf(out, "diff stream:raw-changed-after-delivery:frame%d\n", i)
				return
			}
			cat = append(cat, kept[i].RawData...)
		}
		if !bytes.Equal(cat, stream) {
			fmt.Fprintf(out, "diff stream:kept-messages-do-not-add-up-to-the-input:frame0\n")
			return
		}
		for i := range kept {
			t1 := stripTime(kept[i].String())
			if t2 := stripTime(kept[i].String()); t1 != t2 || !bytes.Equal(kept[i].RawData, atReceipt[i]) {
				fmt.Fprintf(out, "diff stream:display-unstable-or-raw-modified:frame%d\n", i)
				return
			}
		}
	}
	// fan-out: the same message value handed to two consumers (as appcore does); one of them
	// displays it and scribbles on its own copy, the other must see the reference
	hf := rtcm.New(T, lvl)
	for i, fr := range frames {
		m, _ := hf.GetMessage(fr)
		if m == nil {
			continue
		}
		a := *m
		b := *m
		var w2 sync.WaitGroup
		w2.Add(2)
		var ob obs
		go func() {
			defer w2.Done()
			_ = a.String()
			a.Readable = "scribble"
			a.ErrorMessage = "scribble"
			a.MessageType = 4000
			a.SentAt = "x"
		}()
		go func() {
			defer w2.Done()
			before := append([]byte(nil), b.RawData...)
			v := viewOf(&b)
			ob = obs{mtype: b.MessageType, view: v, text: stripTime(b.String()), raw: before}
		}()
		w2.Wait()
		if d := sameObs(ob, ref[i]); d != "" {
			fmt.Fprintf(out, "diff fanout:%s:frame%d\n", d, i)
			return
		}
	}
	fmt.Fprintf(out, "ok n=%d\n", len(frames))
}

package main

import (
	"bufio"
	"fmt"
	"regexp"
	"strings"

	"github.com/goblimey/go-ntrip/rtcm/type1005"
	"github.com/goblimey/go-ntrip/rtcm/type1006"
)

func init() { runners["stdisplay"] = runStDisplay }

var reCoords = regexp.MustCompile(`ECEF coords in metres \(([^,]+), ([^,]+), ([^)]+)\)`)
var reHeight = regexp.MustCompile(`Antenna height (\S+) metres`)

// case: stdisplay <1005|1006> <info|debug> <hex>
// obs:  <x text> <y text> <z text> <height text|-> | err <kind> | panic
func runStDisplay(f []string, out *bufio.Writer) {
	data := unhex(f[3])
	func() {
		defer func() {
			if r := recover(); r != nil {
				fmt.Fprintln(out, "panic")
			}
		}()
		var text string
		if f[1] == "1005" {
			m, err := type1005.GetMessage(data, level(f[2]))
			if err != nil {
				fmt.Fprintln(out, "err "+errKind(err.Error()))
				return
			}
			text = m.String()
		} else {
			m, err := type1006.GetMessage(data, level(f[2]))
			if err != nil {
				fmt.Fprintln(out, "err "+errKind(err.Error()))
				return
			}
			text = m.String()
		}
		c := reCoords.FindStringSubmatch(text)
		if c == nil {
			fmt.Fprintln(out, "nocoords "+strings.ReplaceAll(text, "\n", "\\n"))
			return
		}
		h := "-"
		if m := reHeight.FindStringSubmatch(text); m != nil {
			h = m[1]
		}
		fmt.Fprintf(out, "%s %s %s %s\n", c[1], c[2], c[3], h)
	}()
}

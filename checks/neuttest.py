#!/usr/bin/env python3
"""neuttest.py <name> <patch> - apply a behaviour-preserving patch to /repo, run every quick check, undo.
Prints one line per property; any VIOLATION here is a false alarm of the machinery (or the patch is not neutral)."""
import subprocess, sys, os, json, re
name, patch = sys.argv[1], os.path.abspath(sys.argv[2])
ids = sys.argv[3:] or ['C%02d' % i for i in range(1, 21)]
env = dict(os.environ, GOFLAGS='-mod=mod', GOPROXY='off', GOSUMDB='off', GOTOOLCHAIN='local')
assert subprocess.run(['git', '-C', '/repo', 'status', '--short'], capture_output=True, text=True).stdout.strip() == '', 'repo dirty'
subprocess.check_call(['git', '-C', '/repo', 'apply', patch])
res = {}
try:
    for pid in ids:
        r = subprocess.run(['python3', '/verif/checks/check.py', pid, '--tier', 'quick'], capture_output=True, text=True, env=env, cwd='/verif')
        lines = [l for l in (r.stdout + r.stderr).splitlines() if l.startswith('VIOLATION') or l.startswith('KNOWN')]
        res[pid] = {'exit': r.returncode, 'lines': lines, 'summary': (r.stdout.strip().splitlines() or [''])[-1]}
        print(name, pid, 'exit', r.returncode, lines[:3], flush=True)
finally:
    subprocess.check_call(['git', '-C', '/repo', 'checkout', '--', '.'])
    subprocess.run(['git', '-C', '/repo', 'clean', '-fdq'])
os.makedirs('/verif/work/neutral', exist_ok=True)
json.dump(res, open('/verif/work/neutral/%s.json' % name, 'w'), indent=1)
print(name, 'alarms:', [p for p in res if res[p]['exit'] != 0])

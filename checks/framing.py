"""Helpers shared by the framing properties C01, C02, C03, C07, C12."""
import common

T0 = 1683720000 * 10**9  # Wed 2023-05-10 12:00:00 UTC


def parse_stream_obs(line):
    """'n=K m1;m2;... closed=1' -> list of dict, or None for panic/hang/err."""
    if not line.startswith("n="):
        return None
    parts = line.split(" ")
    n = int(parts[0][2:])
    body = parts[1] if len(parts) > 2 else ""
    msgs = []
    if n > 0:
        for m in body.split(";"):
            f = m.split(",")
            msgs.append(dict(type=int(f[0]), raw=("" if f[1] == "-" else f[1]), emsg=f[2], ts=int(f[3]), sent=f[4], sow=f[5]))
    return msgs


def parse_getmsg_obs(line):
    """'<msg> ret=<kind>' | 'nil ret=..' | 'panic'"""
    if line in ("panic", "hang") or line.startswith("err "):
        return dict(kind=line)
    body, ret = line.rsplit(" ret=", 1)
    if body == "nil":
        return dict(kind="nil", ret=ret)
    f = body.split(",")
    return dict(kind="msg", ret=ret, type=int(f[0]), raw=("" if f[1] == "-" else f[1]), emsg=f[2], ts=int(f[3]), sent=f[4], sow=f[5])


def run_both(res, runner, cases, timeout=1800, shards=None):
    """Run implementation and model on the same cases; record disagreements. Returns (impl, model) lines or (None, None)."""
    impl, e1 = common.run_lines(common.IMPL_BIN, runner, cases, timeout=timeout, mem_kb=8000000, shards=shards)
    model, e2 = common.run_lines(common.MODEL_BIN, runner, cases, timeout=timeout)
    if e1 or e2 or impl is None or model is None or len(impl) != len(cases) or len(model) != len(cases):
        res.corr_ok = False
        res.corr_notes.append("runner failure (%s): impl=%s model=%s (lines %s/%s of %d)" %
                              (runner, e1, e2, None if impl is None else len(impl), None if model is None else len(model), len(cases)))
        return impl, None
    for c, i, m in zip(cases, impl, model):
        if i != m:
            res.corr_ok = False
            if len(res.corr_notes) < 50:
                res.corr_notes.append(dict(case=c, impl=i, model=m))
    return impl, model


def valid_frames(raws):
    """Evaluate the extracted specification valid_frameb/frame_type on byte strings (hex)."""
    raws = list(raws)
    if not raws:
        return {}
    out, e = common.run_lines(common.MODEL_BIN, "validframe", [r if r else "-" for r in raws])
    if e or out is None or len(out) != len(raws):
        raise RuntimeError("validframe oracle failed: %s" % e)
    res = {}
    for r, o in zip(raws, out):
        v, t = o.split()
        res[r] = (v == "1", int(t))
    return res

"""History generators for C06 / C17."""
NS = 10**9
MS = 10**6
DAY = 86400 * NS
WEEK = 7 * DAY
AHEAD = {"G": 18 * NS, "E": 18 * NS, "C": 4 * NS, "R": 3 * 3600 * NS}
CONS = "GERC"


def week_start(c, u):
    t = u + AHEAD[c]
    return (t - 3 * DAY) // WEEK * WEEK + 3 * DAY - AHEAD[c]


def rand_T(rng):
    base = rng.randint(946684800, 2051222400) * NS  # 2000 .. 2035 (Moscow civil time was UTC+4 in 2011-2014 and in the summers before; GLONASS time is UTC+3 throughout)
    r = rng.random()
    if r < 0.4:
        c = rng.choice(CONS)
        ws = week_start(c, base)
        T = ws + rng.choice([-2 * NS, -NS, -1, 0, 1, NS, 2 * NS, rng.randint(-5 * NS, 5 * NS)])
    elif r < 0.6:
        T = base // DAY * DAY + rng.choice([0, DAY - 1, DAY // 2])
    else:
        T = base + rng.randint(0, NS - 1)
    return T


def illegal_ts(rng, c):
    if c == "R":
        return rng.choice([(7 << 27) | rng.randint(0, 86399999), (rng.randint(0, 6) << 27) | rng.randint(86400000, (1 << 27) - 1),
                           (1 << 30) - 1])
    return rng.choice([604800000, 604800001, (1 << 30) - 1, rng.randint(604800000, (1 << 30) - 1)])


def history(rng, need_after, nev=None, T=None):
    """(T, [event strings]).  Per constellation: first observation in T's week (and >= T when need_after),
    non-decreasing whole milliseconds, consecutive ones < 6 days apart."""
    T = rand_T(rng) if T is None else T
    nev = nev or rng.randint(1, 40)
    cons = rng.sample(CONS, rng.randint(1, 4))
    last = {}
    evs = []
    span = rng.choice(["short", "short", "days", "weeks"])
    for _ in range(nev):
        c = rng.choice(cons)
        k = rng.choice("47")
        if rng.random() < 0.08:
            evs.append("B%s%s:%d" % (c, k, illegal_ts(rng, c)))
            continue
        if c not in last:
            ws = week_start(c, T)
            lo = T if need_after else ws
            hi = ws + WEEK - MS
            lo_ms = -(-lo // MS)
            hi_ms = hi // MS
            if lo_ms > hi_ms:
                continue
            r = rng.random()
            if r < 0.3:
                u = lo_ms * MS
            elif r < 0.5:
                u = hi_ms * MS
            elif r < 0.65 and not need_after:
                u = max(lo_ms, min(hi_ms, T // MS + rng.randint(-2000, 2000))) * MS
            else:
                u = rng.randint(lo_ms, hi_ms) * MS
        else:
            u0 = last[c]
            if span == "short":
                step = rng.choice([0, 1, 1000, rng.randint(0, 5000)])
            elif span == "days":
                step = rng.randint(0, 6 * 86400 * 1000 - 1)
            else:
                step = rng.choice([6 * 86400 * 1000 - 1, rng.randint(3 * 86400 * 1000, 6 * 86400 * 1000 - 1)])
            # aim at rollovers now and then
            if rng.random() < 0.25:
                nxt = week_start(c, u0) + WEEK
                cand = nxt + rng.choice([-MS, 0, MS, 1000 * MS])
                if u0 <= cand < u0 + 6 * DAY:
                    step = (cand - u0) // MS
            u = u0 + step * MS
        last[c] = u
        evs.append("O%s%s:%d" % (c, k, u))
    return T, evs


def restamp_stations(rng, frames_hex):
    """The same frames with other reference-station ids (bits 36..47), CRC recomputed: two or three stations taking
    turns (a caster failing over, or one station per constellation).  Times do not depend on the station."""
    import gen
    ids = [rng.getrandbits(12) for _ in range(rng.randint(2, 3))]
    out = []
    for hx in frames_hex.split(","):
        f = bytearray(bytes.fromhex(hx))
        if len(f) >= 12:
            sid = rng.choice(ids)
            f[4] = (f[4] & 0xF0) | (sid >> 8)
            f[5] = sid & 0xFF
            c = gen.crc24q(bytes(f[:-3]))
            f[-3:] = c.to_bytes(3, "big")
        out.append(bytes(f).hex())
    return ",".join(out)

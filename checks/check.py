#!/usr/bin/env python3
"""check.py <property id> [--tier quick|thorough] [--replay file]

Decides one property of go-ntrip on /repo's current working tree: regenerates the
facts, rebuilds and audits the Coq development, runs the extracted model and the
implementation on the same cases and evaluates the property's oracle on the
implementation's observations.  Exit 0 = held on everything explored; exit 1 with a
line "VIOLATION property=<id> replay=<path>" otherwise."""
import argparse
import importlib
import os
import sys

sys.path.insert(0, os.path.dirname(os.path.abspath(__file__)))
import common


def main():
    ap = argparse.ArgumentParser()
    ap.add_argument("prop")
    ap.add_argument("--tier", default=os.environ.get("VERIF_TIER", "quick"), choices=["quick", "thorough"])
    ap.add_argument("--replay", default=None)
    args = ap.parse_args()
    seed = int(os.environ.get("VERIF_SEED", "1") or "1")
    pid = args.prop.upper()
    if args.replay:
        # a replay file records the seed and tier of the run that wrote it; every generator is a deterministic
        # function of those, so re-running with them regenerates the failing cases named in the file first among
        # the run's cases and evaluates the same oracle on the current tree
        import json
        r = json.load(open(args.replay))
        seed, args.tier = int(r.get("seed", seed)), r.get("tier", args.tier)
        print("replaying %s: seed %d, tier %s, %d failing case(s) recorded" % (args.replay, seed, args.tier, len(r.get("failing", []))))
    mod = importlib.import_module("props.%s" % pid.lower())
    res = common.Result(pid, args.tier, seed)
    os.makedirs(os.path.join(common.WORK, pid), exist_ok=True)
    rc = mod.run(res, args)
    sys.exit(rc)


if __name__ == "__main__":
    main()

#!/usr/bin/env python3
"""coverage.py [ids...] - which statements of /repo do the quick checks execute?

Not one of the registered commands.  Builds the harness, the overlay test binaries and the application binaries with
Go's coverage instrumentation for /repo's packages (VERIF_COVER), runs the quick tier of the named checks (default: all
twenty), merges the counters and writes /verif/work/coverage.txt: per source file the statements no check executed.
A statement that no check executes is a place where a changed behaviour cannot be noticed by the correspondence
step; the list is used to direct the generators (DESIGN.md section 9)."""
import os, subprocess, sys, shutil, re, collections
VERIF = "/verif"
cov = os.path.join(VERIF, "work", "cover")
shutil.rmtree(cov, ignore_errors=True)
os.makedirs(cov)
env = dict(os.environ, VERIF_COVER=cov, GOFLAGS="-mod=mod", GOPROXY="off", GOSUMDB="off", GOTOOLCHAIN="local")
ids = sys.argv[1:] or ["C%02d" % i for i in range(1, 21)]
for pid in ids:
    r = subprocess.run(["python3", os.path.join(VERIF, "checks", "check.py"), pid, "--tier", "quick"], env=env, cwd=VERIF, capture_output=True, text=True)
    print(pid, (r.stdout.strip().splitlines() or ["?"])[-1], flush=True)
prof = os.path.join(VERIF, "work", "cover.txt")
subprocess.run(["go", "tool", "covdata", "textfmt", "-i=" + cov, "-o", prof], env=env, check=True)
blocks = collections.defaultdict(dict)
for line in open(prof):
    m = re.match(r"(.+):(\d+)\.(\d+),(\d+)\.(\d+) (\d+) (\d+)$", line.strip())
    if not m:
        continue
    f, l0, c0, l1, c1, n, cnt = m.group(1), int(m.group(2)), int(m.group(3)), int(m.group(4)), int(m.group(5)), int(m.group(6)), int(m.group(7))
    if not f.startswith("github.com/goblimey/go-ntrip/"):
        continue
    k = (l0, c0, l1, c1)
    blocks[f][k] = max(blocks[f].get(k, 0), cnt), n
out = []
tot = unc = 0
for f in sorted(blocks):
    rel = f[len("github.com/goblimey/go-ntrip/"):]
    miss = sorted(k for k, (cnt, n) in blocks[f].items() if cnt == 0)
    stm = sum(n for _, n in blocks[f].values())
    mst = sum(blocks[f][k][1] for k in miss)
    tot += stm
    unc += mst
    out.append("%s: %d of %d statements never executed" % (rel, mst, stm))
    src = open(os.path.join("/repo", rel)).read().splitlines() if os.path.exists(os.path.join("/repo", rel)) else []
    for (l0, c0, l1, c1) in miss:
        text = src[l0 - 1].strip() if l0 - 1 < len(src) else ""
        out.append("    %d-%d  %s" % (l0, l1, text[:110]))
out.append("TOTAL: %d of %d statements never executed" % (unc, tot))
open(os.path.join(VERIF, "work", "coverage.txt"), "w").write("\n".join(out) + "\n")
print(out[-1])
shutil.rmtree(cov, ignore_errors=True)

#!/usr/bin/env python3
"""Runs /repo's test suite (guard off) and compares with /root/.vp/BASELINE.json's 170 stable tests."""
import json, os, subprocess, sys
env = dict(os.environ, GOFLAGS="-mod=mod", GOPROXY="off", GOSUMDB="off", GOTOOLCHAIN="local")
p = subprocess.run("go test -json -vet=off -count=1 -timeout 25m ./...", shell=True, cwd="/repo", env=env,
                   stdout=subprocess.PIPE, stderr=subprocess.STDOUT)
res = {}
for line in p.stdout.decode("utf-8", "replace").splitlines():
    try:
        e = json.loads(line)
    except Exception:
        continue
    if e.get("Test") and "/" not in e["Test"] and e.get("Action") in ("pass", "fail"):
        res["%s::%s" % (e["Package"], e["Test"])] = e["Action"]
base = json.load(open("/root/.vp/BASELINE.json"))
missing = [t for t in base["stable_pass"] if res.get(t) != "pass"]
print("baseline: %d/%d stable tests pass" % (len(base["stable_pass"]) - len(missing), len(base["stable_pass"])))
for t in missing:
    print("  NOT PASSING:", t, res.get(t))
sys.exit(1 if missing else 0)

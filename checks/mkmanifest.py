#!/usr/bin/env python3
"""Regenerates /verif/MANIFEST.json from the table below (kept in one place so it stays valid)."""
import json
import os

VERIF = os.path.dirname(os.path.dirname(os.path.abspath(__file__)))

CLAIMED = {
    "C14": dict(
        text="Theorems C14_unsigned / C14_signed / C14_locality (Coq, axiom-free) state the property for all buffers, "
             "offsets and widths over a model of GetBitsAsUint64/GetBitsAsInt64 that includes uint64/int64 wrap and "
             "index panics; the extracted model and the real functions are run on the same ~150k fields per quick run "
             "(exhaustive offsets x widths on pattern buffers) and the extracted specification is evaluated on the "
             "implementation's results.",
        note="Trusted: Coq kernel, ExtrOcamlBasic extraction, the Go/OCaml harness; uint = 64 bits. The tie between "
             "model and code is the correspondence run, not a refinement proof from Go source.",
        design="5/C14", technique="Coq proof (induction over the bit loop) + extracted-model correspondence"),
}

NOT_YET = {}

def main():
    props = [json.loads(l) for l in open(os.path.join(VERIF, "properties.jsonl"))]
    checks = []
    na = []
    for p in props:
        pid = p["id"]
        if pid in CLAIMED:
            c = CLAIMED[pid]
            checks.append(dict(
                property_id=pid,
                quick_cmd="python3 checks/check.py %s --tier quick" % pid,
                thorough_cmd="python3 checks/check.py %s --tier thorough" % pid,
                evidence_file="/verif/evidence/%s.json" % pid,
                replay_cmd_template="python3 checks/check.py %s --replay {path}" % pid,
                engine="coq-model",
                level_claimed=dict(category="proof", text=c["text"], design_ref="DESIGN.md " + c["design"]),
                level_note=c["note"],
                technique=c["technique"],
            ))
        else:
            na.append(dict(property_id=pid, reason=NOT_YET.get(pid, "check not built yet in this round; planned (DESIGN.md section 5)")))
    m = dict(
        version=1,
        setup_cmd="python3 checks/setup.py",
        hooks=dict(guard="verif", enable="go build -tags verif (no hook is currently needed: package-main entry points are reached with go test -overlay)",
                   baseline_off_cmd="cd /repo && GOFLAGS=-mod=mod GOPROXY=off GOSUMDB=off GOTOOLCHAIN=local go test -vet=off -count=1 -timeout 25m ./...",
                   source_commits=[], add_only=True),
        engines=[dict(name="coq-model", path="/verif/coq", serves_properties=sorted(CLAIMED.keys()),
                      kind_free_text="hand-written executable Gallina model + specification, theorems in theories/Properties.v; "
                                     "constants regenerated from /repo by harness/cmd/genfacts; extracted OCaml model run against the "
                                     "implementation by checks/check.py")],
        checks=checks,
        notes="See DESIGN.md. Known findings and fixes: known_findings.txt.",
        not_applicable=na,
    )
    with open(os.path.join(VERIF, "MANIFEST.json"), "w") as f:
        json.dump(m, f, indent=1)
    print("MANIFEST.json: %d checks, %d not claimed" % (len(checks), len(na)))

if __name__ == "__main__":
    main()

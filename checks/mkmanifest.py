#!/usr/bin/env python3
"""Regenerates /verif/MANIFEST.json from the table below (kept in one place so it stays valid)."""
import json
import os

VERIF = os.path.dirname(os.path.dirname(os.path.abspath(__file__)))

CORR = ("Trusted: Coq 8.16.1 kernel; ExtrOcamlBasic extraction; the Go/OCaml harness; uint = 64 bits. The model is tied to "
        "the code by regenerated constants (genfacts) and by running extracted model and implementation on the same cases, not "
        "by a refinement proof from Go source. ")

CLAIMED = {
    "C01": dict(
        text="Theorems C01_stream, C01_single, C01_crc (axiom-free): over the model of the framing state machine and GetMessage, every "
             "typed message is exactly one valid frame (bit-serial CRC-24Q specification) of its type, for all byte streams; the "
             "table-driven uint32 Hash is proved equal to the LFSR specification. Correspondence: ~4-5k mixed/hostile streams and "
             "single buffers per run through the real HandleMessages/GetMessage and the extracted model; the extracted valid_frame "
             "specification judges every typed message the implementation delivers.",
        note=CORR + "go-crc24q is modelled and compared on every frame.", design="5/C01",
        technique="Coq proof (case analysis of the framing phases, CRC linearity) + extracted-model correspondence"),
    "C02": dict(
        text="Theorem C02_every_schedule (axiom-free): the same over the channel network of Pipe.v with one consumer, for all capacities of the byte, message and consumer channels and every schedule: executions are finite and end with the consumer holding the lossless segmentation, the framer halted and the output channel closed; C02_every_schedule_incremental is the same with the byte-driven framer machine of IncFrame.v. Theorem C02_lossless (axiom-free): for every input the modelled stream handler returns, and the delivered raw bytes "
             "concatenate to the input with no empty message (induction on fuel with the invariant delivered++pushback++unread = "
             "input). Correspondence on ~7k streams incl. all strings over {d3,00,01,3e} up to length 6, every truncation offset, "
             "channel capacities {0,1,2,64}^2 and producer/consumer delays; closing is observed on the real channel.",
        note=CORR + "Partial: producer/consumer timing of the real runtime is sampled; the schedule-quantified statement is about "
             "the sequential stage function.", design="5/C02",
        technique="Coq proof (invariant by induction) + extracted-model correspondence"),
    "C03": dict(
        text="Theorem C03_segments (axiom-free): for every list of well-formed segments (valid frames of any type and length, "
             "non-empty 0xD3-free runs) and every truncated tail the modelled stream handler delivers exactly the segments (adjacent "
             "runs merged), each frame once as a typed message with its own bytes - induction over the segment list on lemmas "
             "that characterise FetchNextMessageFrame on a frame, on junk followed by 0xD3, on junk at the end and on a truncated "
             "frame. Correspondence: ~2000 segment lists per run incl. frames whose leader, type, payload or CRC contain 0xD3 and "
             "truncation at every position of the boundary lengths.",
        note=CORR + "Time fields are projected away.", design="5/C03",
        technique="Coq proof (induction over segments) + extracted-model correspondence"),
    "C12": dict(
        text="Theorem C12_transparent (axiom-free): a corrupted frame met at a frame boundary is delivered alone and leaves nothing behind in the handler's time state or the scanner: whatever bytes follow are reported in full, times and final state included, exactly as the rest of the stream on its own. Theorem C12_isolation (axiom-free): a frame with the length and leader of a valid frame whose CRC does not match "
             "(any alteration of payload/CRC, new 0xD3 bytes included) is delivered as one non-RTCM message with exactly its bytes "
             "and all other segments are delivered as without the corruption (same induction as C03 with a third segment kind). "
             "Theorems C12_any_number and C12_many_vs_uncorrupted (axiom-free): the same for any number of corrupted frames in one stream, compared entry by entry with the report of the stream before the corruptions. "
             "Correspondence: ~1700 streams per run with a victim at every position and bit/burst/byte/0xD3/CRC corruption.",
        note=CORR + "Time fields are projected away.", design="5/C12",
        technique="Coq proof (induction over segments) + extracted-model correspondence"),
    "C05": dict(
        text="Theorems C05_decode, C05_reject_short, C05_reject_type, C05_total (axiom-free) and C05_display (Flocq): every "
             "well-formed 1005/1006 message laid out as the standard says (coordinates over the whole signed 38-bit range) "
             "decodes to exactly its fields with any extra payload bytes; short frames and other types are rejected with an "
             "error and the decoders never panic; for every 38-bit X the binary64 product float64(X)*0.0001 is within 1e-8 of "
             "X/10^4, so its nearest four-decimal value is X/10^4 itself. Correspondence: 2500 encoded messages per run decoded "
             "directly and through handler+Analyse, every truncation length, wrong types, and the displayed text compared with "
             "the exact decimal.",
        note=CORR + "C05_display depends on the standard library's primitive-float/Uint63 specifications and the classical real "
             "numbers (listed in the evidence); that %.4f prints the correctly rounded decimal of the exact binary value is "
             "strconv's contract and is checked on every displayed case.", design="5/C05",
        technique="Coq proof (bit-list round trip; Flocq error bound) + extracted-model correspondence"),
    "C08": dict(
        text="Theorems C08_scaled_range, C08_scaled_phase, C08_scaled_rate (the uint64/int64 wraps are harmless; the aggregates "
             "are exactly the standard's sums), C08_msm4_msm7_agree, C08_invalid (axiom-free) and four Flocq error theorems over the "
             "operation-by-operation binary64 model: C08_range_error (pseudorange in metres, relative error below 2^-51 for "
             "every 41-bit scaled range), C08_rate_error (m/s, at most 2^-53), C08_phase_error (cycles, below 2^-50) and "
             "C08_doppler_error (Hz, below 2^-50), the last two for EVERY (constellation, signal) pair of the wavelength "
             "table that has a frequency (each frequency is proved an integer number of Hz in [1e9, 2e9] by evaluating the "
             "table). Correspondence: the bits of "
             "every float result (range, phase range, rate, Doppler, wavelength) of ~2000 tuples per run are compared with the "
             "Coq primitive-float model evaluated by the kernel VM, and with the standard's formulas in exact rational arithmetic.",
        note=CORR + "The error theorems are about the Coq primitive-float model (one IEEE operation per Go operation, no FMA); "
             "that the Go binary computes the same doubles is the bit-for-bit correspondence. Axioms: primitive floats/Uint63 "
             "specifications and classical reals of the standard library.", design="5/C08",
        technique="Coq proof (integer exactness by lia; Flocq relative error) + bit-exact float correspondence in the kernel VM"),
    "C06": dict(
        text="Theorem C06_stream (axiom-free): the same through the stream handler - the concatenated frames of an admissible history are cut into exactly those frames and every delivered message carries the true time and week start. Theorem C06_true_time (axiom-free), a corollary of C17_any_start: for every start time T and every admissible "
             "history (any interleaving of GPS/Galileo/GLONASS/BeiDou MSM4/MSM7 frames, non-decreasing whole-millisecond "
             "observation instants less than six days apart, illegal timestamps inserted anywhere) fed through the model's public "
             "GetMessage on frames built by the specification encoder, every reported UTC instant and start of week equals the "
             "true one (week starts defined independently by a Sunday floor), across any number of rollovers; illegal timestamps "
             "give an error and change nothing. Correspondence: ~1500 generated histories per run through the real GetMessage and "
             "HandleMessages, start times within seconds of each rollover, several time zones, judged against the true instants.",
        note=CORR + "time.Time arithmetic (Add, AddDate in UTC, Weekday) is modelled by integer nanoseconds; Format/Parse of the "
             "display strings is not modelled (the harness parses them back); no leap seconds, as in Go.", design="5/C06",
        technique="Coq proof (per-constellation invariant, rollover arithmetic by lia/nia) + history correspondence"),
    "C15": dict(
        text="Theorem C15_display_idempotent (axiom-free, Display.v): a second String() gives the same text, leaves the message as the first left it (decoded form cached, decoder errors reproduced) and never changes raw bytes or type. Theorem C15_stream_state_independent (axiom-free): what the stream handler delivers for a byte stream (types, raw bytes, error texts, raw timestamps, whether a time could be derived) is the same for every handler state. Theorem C15_state_independent (axiom-free): what the model's GetMessage reports about a frame apart from the two time "
             "values is the same for every handler state; the decoders do not take the handler at all (by type). The heap-level "
             "half (hidden caches, aliasing, races) is carried by the harness: batches of frames decoded fresh / after others / by "
             "2-8 handlers in parallel goroutines / as fanned-out copies with a scribbling consumer, display repeated three times, "
             "all under the race detector, and every frame's decoded view compared with the state-free model; plus the frames interleaved with false starts through HandleMessages with a lagging consumer that re-inspects every kept message after the handler has finished.",
        note=CORR + "Partial: aliasing, package-level caches and data races are facts about the Go heap that an immutable functional "
             "model cannot express; they are sampled under -race.", design="5/C15",
        technique="Coq proof (state independence of the model) + race-detector differential runs"),
    "C04": dict(
        text="Theorem C04_roundtrip (axiom-free): for EVERY well-formed abstract MSM message (14 types, satellite/signal/cell "
             "masks of at most 64 cells incl. empty, every in-range field value incl. the invalid markers, flag as the property "
             "allows) and every number of zero padding bytes, the modelled decoder (header.GetMSMHeader, satellite/signal cell "
             "readers with every length guard, GetNumberOfSignalCells fallback, cell attachment loop) applied to the frame the "
             "specification encoder wrote returns exactly the decoded view: all header fields, tables implied by the masks, every "
             "satellite and signal cell with the right satellite and signal id; the statement's right-hand side is independent "
             "of the padding and no well-formed message is rejected. C04_frame_valid: the frame is a valid RTCM3 frame up to "
             "1023 payload bytes. Field widths and positions come from constants regenerated from the Go source on every run "
             "(GenConsts.v). Correspondence: the extracted decoder and the real decoders (direct and through "
             "handler.GetMessage) on frames produced by the extracted encoder over mask shapes, extreme values, padding "
             "sweeps; both compared with the extracted view.",
        note=CORR + "Found and fixed: the signal-cell count was inferred from trailing bits, so zero cells and padding changed "
             "the result (known_findings.txt).", design="5/C04",
        technique="Coq proof (bit-level round trip by induction over field arrays and masks) + extracted-model correspondence"),
    "C09": dict(
        text="C09_channels_safe / C09_closed_for_good (NetSafety.v, any network of Net.v): in EVERY reachable configuration the channel capacities are unchanged, no buffer exceeds its capacity, a closed channel stays closed and only drains. Theorems C09_framer_is_incremental / C09_incremental_pipeline (axiom-free): the framer as a machine that is given one byte "
             "at a time (IncFrame.v) delivers exactly what the model's stream handler delivers, and with that machine as the "
             "framer process every schedule delivers those messages to every consumer; C09_source_shape: the regenerated facts "
             "that the fan-out loop has the transcribed shape and that the framer reads its input only through the byte "
             "channel and knows no clock. Theorems C09_every_schedule / C09_final_configuration / C09_frames (axiom-free) over the network reader -> framer -> "
             "fan-out -> k consumers of Pipe.v under the interleaving semantics of Net.v (bounded FIFO channels, blocking send "
             "and receive, close): for ANY framing state machine, input, number of consumers (any of them nil) and channel "
             "capacities >= 1 there is a bound n such that every execution under every schedule has at most n steps, can always "
             "be continued to ONE final configuration and, if it cannot be continued, is that configuration; there the reader, "
             "framer and fan-out have halted, every channel is empty, channels were closed once, and every non-nil consumer "
             "holds exactly the sequential output of the framer (instantiated with the model's stream handler: the message "
             "list of handle_stream). Proof: a canonical schedule by induction over bytes, messages and consumers, lifted to "
             "all schedules by the diamond/determinacy theorem of Net.v. Oracle: the real HandleMessagesUntilEOF under the "
             "race detector with a scripted reader (chunkings, data returned together with EOF), 1-4 consumers of capacity "
             "0/1/8, slow consumers, nil entries, GOMAXPROCS 1/2/4/16; each consumer's (type, raw) sequence compared with "
             "the extracted model's sequential framing; return value, leaked goroutines, panics.",
        note=CORR + "Unbuffered channels are modelled faithfully (two-phase send on a one-slot channel: put, then wait until "
             "the value has been taken; any subset of the channels may be unbuffered, the rest have any capacity >= 1), so "
             "termination and absence of deadlock are theorems for the Go channel semantics. Partial: data-race freedom is "
             "the race-detector oracle's verdict on sampled schedules. The test-only stop message is not modelled.", design="5/C09",
        technique="Coq proof (Kahn-network determinacy: diamond + canonical schedule) + race-detector pipeline oracle"),
    "C10": dict(
        text="Theorems C10_any_input / C10_segments / C10_every_schedule (axiom-free): the writer goroutines' filter (skip type "
             "NonRTCMMessage, write RawData) over the model's stream handler. For EVERY byte stream the delivered messages "
             "partition the input in order, the output is the concatenation of the written pieces, every written piece is a "
             "valid RTCM3 frame (preamble, zero reserved bits, length, CRC-24Q) of the reported type, every other piece was "
             "delivered as non-RTCM (a delivered type is -1 or a 12-bit value: handle_type_range). For streams of valid frames "
             "interleaved with 0xD3-free data and an optional truncated tail the output is exactly the frames in order (no "
             "omission). C10_every_schedule composes this with the pipeline network of C09: with 1-3 writer goroutines "
             "(output, display log, record file) every schedule ends with every writer having written exactly the frames (C10_every_schedule_incremental: the same with the byte-driven framer). "
             "Correspondence: the real HandleMessages of rtcmfilter (go test -overlay) on mixed/hostile/segment streams, all "
             "display/record switch settings, chunkings and writer latencies; output, record file and number of display "
             "entries compared with the extracted model and the valid_frame specification.",
        note=CORR + "Channels as in C09 (buffered or unbuffered). The dailylogger writers and the text of "
             "display entries are outside the model (entry count only).", design="5/C10",
        technique="Coq proof (framing theorems C01-C03 + filter lemma + network determinacy) + application-level correspondence"),
    "C11": dict(
        text="Theorems C11_k_writers / C11_k_no_deadlock (axiom-free, Writers.v): main sends every message to k writer goroutines in turn over "
             "channels of any capacity >= 1, buffered or unbuffered, closes them, waits for every writer (only if the regenerated fact waits_rtcmfilter says the code does) and "
             "returns; for every k, message list, capacities, latencies and schedule, in every reachable configuration in which "
             "main has returned every writer has written exactly the messages in order (proved for ANY straight-line main "
             "program that never sends after close and waits before return), and a configuration in which nothing can move is "
             "the finished one (no deadlock). "
             "Theorems C11_flushed_displayrtcm3 / C11_flushed_rtcmfilter / C11_no_deadlock (axiom-free) over a two-process network "
             "(main: send every message on a bounded channel, close it, wait for the writer iff the generated fact waits_<app> "
             "says the source does, return; writer: receive, hold the message for an arbitrary latency, write, signal at close) "
             "under the interleaving semantics of Net.v: in EVERY reachable configuration of EVERY schedule, for every channel "
             "capacity >= 1 whether buffered or unbuffered, writer latency and message list, 'main has returned' implies 'the writer has written exactly the "
             "messages in order'; every final configuration has both processes finished (no deadlock). The wait flag is "
             "regenerated from the source on every run by genfacts (a bounded or missing wait gives false and the theorem no longer "
             "builds); C11_unrepaired_witness exhibits the losing schedule for the code before its repair. Oracle: the real "
             "HandleMessages entry points with blocking writers (0-20 ms and 1.2 s per call): bytes held by the writer at return.",
        note=CORR + "The network abstracts the framing stages (their determinacy is C09's subject) into the message list; the "
             "tie of the protocol shape to the source is the genfacts pattern check plus the oracle runs. Found and fixed: both "
             "applications returned without waiting (known_findings.txt).", design="5/C11",
        technique="Coq proof (invariant over all interleavings of a channel network) + source fact + blocking-writer oracle"),
    "C16": dict(
        text="C16_prefixes_always / C16_prefixes_bounded: at every moment of every execution stdout holds a prefix of the input, the record a prefix of stdout, at most capacity+2 blocks behind. Theorems C16_logger / C16_no_deadlock (axiom-free), same network with pass-through enabled: main writes each block to "
             "its own output before handing a copy to the recorder, closes the channel at end of input and waits (fact "
             "waits_rtcmlogger regenerated from the source); in every reachable configuration in which main has returned, the "
             "pass-through output and the record both equal the input block list, for all capacities, latencies and schedules. "
             "Oracle: the built rtcmlogger binary on empty/short/long/binary inputs with many stdin chunkings and pauses; stdout "
             "and the day's record file compared byte for byte with the input after exit; and the repository's start() "
             "in-process (go test -overlay, newLogWriter replaced) with a record writer that stalls, inputs up to 1.2 MB.",
        note=CORR + "Blocks are abstract values; that the copy loop hands over the bytes it read (not an aliased buffer) is "
             "observed by the oracle only. Found and fixed: the recorder was not awaited at end of input (known_findings.txt).",
        design="5/C16", technique="Coq proof (invariant over all interleavings) + source fact + binary-level oracle"),
    "C17": dict(
        text="Theorem C17_stream (axiom-free): the same through the stream handler (HandleMessages) on the concatenated frames. Theorem C17_any_start (axiom-free): as C06 but the start time may lie anywhere in the constellation week of the first "
             "observation, before or after it. Correspondence as C06 with first observations at the week start, at its end and "
             "within 2 s of the start time.",
        note=CORR + "Same modelling of time as C06.", design="5/C17",
        technique="Coq proof (per-constellation invariant) + history correspondence"),
    "C07": dict(
        text="Theorem C07_display (axiom-free, Display.v): the lazily analysed Message and its String method (dispatch on the type to the decoders, caching, error short-cuts; text layout abstract) return normally with text for every message, type and level. Theorem C07_decoders: the MSM4/MSM7 decoders never panic on any bytes. Theorems C07_stream, C07_single (axiom-free): the modelled stream handler and GetMessage return normally (never Panic, "
             "fuel S(length input) suffices) for arbitrary bytes. The harness runs every CRC-valid frame of the 16 decodable types "
             "over boundary/small payload lengths (thorough: all 1..1023) with random/ones/zeros/mask-heavy/illegal-timestamp bodies "
             "through HandleMessages, GetMessage, Analyse and String at both log levels under recover and a deadline.",
        note=CORR + "Partial: the theorems cover framing and GetMessage; the decoders and String are covered by the model "
             "correspondence and the recover()-guarded runs; bounded time is a deadline, not a proof.", design="5/C07",
        technique="Coq proof of totality + recover-guarded exhaustive-length runs"),
    "C13": dict(
        text="Theorems C13_forwarding, C13_resume, C13_stop_zero_or_error, C13_stop_silent (axiom-free) over a model of the file "
             "handler's read loop with an explicit clock: bytes read before the stop are forwarded exactly once in order wherever "
             "interruptions fall; single/double EOF or timeout within the tolerance never stop the loop; tolerance zero, other errors "
             "and lasting silence do. C13_delivered_any_faults / C13_delivered_gentle (RetryPipe.v) put the loop in front of the network "
             "reader -> byte-driven framer -> fan-out -> consumers: for ANY fault script and tolerance the loop forwards the data of a prefix of the "
             "script and every schedule ends with every live consumer holding handle_stream's messages for exactly those bytes (raw bytes "
             "concatenate to them: a frame cut by the stop arrives as non-RTCM data; both channels closed); with gentle interruptions these are "
             "the messages of the uninterrupted stream. Correspondence: the real filehandler.Handle over a scripted reader with interruptions at "
             "every framing phase boundary.",
        note=CORR + "Partial: wall-clock behaviour between the margins (pauses 0 or 4x tolerance) is not explored.", design="5/C13",
        technique="Coq proof (induction over the read script) + scripted-reader correspondence"),
    "C14": dict(
        text="Theorems C14_unsigned / C14_signed / C14_locality (Coq, axiom-free) state the property for all buffers, "
             "offsets and widths over a model of GetBitsAsUint64/GetBitsAsInt64 that includes uint64/int64 wrap and "
             "index panics; the extracted model and the real functions are run on the same ~150k fields per quick run "
             "(exhaustive offsets x widths on pattern buffers) and the extracted specification is evaluated on the "
             "implementation's results.",
        note=CORR, design="5/C14", technique="Coq proof (induction over the bit loop) + extracted-model correspondence"),
    "C18": dict(
        text="Theorem C18_last_n (axiom-free, polymorphic): for every capacity N>=1 and every addition sequence the modelled queue's "
             "snapshot is the last min(N, added) elements in order and it never holds more than N (invariant by induction). "
             "Theorems C18_concurrent_snapshots / C18_linearizable (ConcQueue.v, axiom-free): any number of goroutines running any "
             "sequences of Add/GetMessages under an abstract RWMutex, with NON-atomic bodies (evict, insert, read keys, collect "
             "are separate steps on the shared map): in every reachable configuration of every schedule the committed "
             "operations form a legal sequential history in which each operation lies between its call and return, every "
             "result handed to a goroutine is its operation's result in that history, every snapshot is the last min(N,k) of "
             "the first k additions in commit order (a contiguous run consistent with real time), and the queue never exceeds "
             "N; C18_no_deadlock: whenever some goroutine has not finished, some goroutine can step (also under Go's rule that a "
             "waiting writer keeps new readers out). The facts queue_add_locked / queue_get_locked (Add/GetMessages run entirely under the write/read lock and do "
             "not re-acquire it, directly or through a callee) are regenerated from the source by genfacts; if either is false "
             "the theorems no longer build. Correspondence: all add/snapshot sequences up to length 8 for capacities 1..4 "
             "(thorough 12 / 1..8), runs of 10^5 adds; concurrent adders and readers under the race detector with a progress "
             "watchdog (snapshot contiguity, real-time bounds, size).",
        note=CORR + "Partial: the RWMutex is the abstract one (who holds it); Go's fairness rule that a waiting writer blocks new "
             "readers only removes schedules. Data-race freedom of the Go code is the race detector's verdict on sampled "
             "schedules; that the lock statements guard the same mutex is read off the source by a syntactic pattern.", design="5/C18",
        technique="Coq proof (induction over operation sequences; invariant over all interleavings of lock-protected non-atomic bodies) + source lock facts + race-detector runs"),
    "C19": dict(
        text="C19_relay_prefix_always (NetLocal.v: a process's state and emitted events change only by its own steps): after any number of steps of any schedule the server has been written a prefix of the client's chunks, unchanged. Theorems C19_relay_every_schedule / C19_relay_final (axiom-free, Relay.v): the client-to-server loop (push every byte "
             "of a chunk to the parser's channel, then write the chunk to the server), the parser (ANY framing state machine) and "
             "the queue updater as a network over bounded channels: for all chunk sequences, capacities and schedules executions "
             "are finite and end in ONE configuration in which the loop has returned, the server was written exactly the "
             "client's chunks in order and unchanged, and the queue was given exactly the messages sequential framing finds in "
             "the relayed bytes - parsing can delay the relay but not alter, withhold or stop it. Theorems C19_escaped, "
             "C19_sanitise (axiom-free): in the page model every traffic-derived part passes through the "
             "sanitiser and sanitised text contains neither '<' nor '>'. The harness calls the real Status() with crafted buffers and "
             "queue contents, cuts the page along the template read from the source and requires every traffic-derived hole to be "
             "markup-free and the message list to be the escaped displays; the built proxy binary relays 40 sessions (valid, "
             "malformed CRC-valid, hostile, text) over loopback in both directions, with three status pollers running during "
             "the sessions, and must deliver byte-identical data.",
        note=CORR + "Partial: TCP/TLS/statusreporter are the runtime; one client session at a time; the relay theorem assumes the "
             "parser process keeps running (no panic: C07); the byte and message channels may be unbuffered or buffered; the "
             "server-to-client loop has no parser and is covered by the loopback oracle only.",
        design="5/C19", technique="Coq proof (relay network determinacy; sanitiser) + in-process page dissection + loopback relay differential with concurrent status polling"),
    "C20": dict(
        text="(The table's timestamp columns: r_ts = the timestamp is extracted from EVERY frame shape tried - a full frame and frames of 7, 8, 12, 21 and 22 payload bytes holding just type, station id and timestamp; r_tsany = from ANY of them; both must equal 'is an MSM type'.) Theorems C20_consistent, C20_closed_forms: the complete table (4098 rows) produced on every run by running the real "
             "classification functions, decoders, timestamp extraction, Analyse dispatch and String on every type and sentinel is "
             "checked row by row by the kernel (vm_compute over a finite domain, bound stated in the theorem).",
        note="Trusted: Coq kernel incl. vm_compute; the dumper harness/cmd/classdump and the determinism of the functions (C15).",
        design="5/C20", technique="Coq proof over a table regenerated from the running code (complete enumeration)"),
}

NOT_YET = {}

def main():
    props = [json.loads(l) for l in open(os.path.join(VERIF, "properties.jsonl"))]
    checks = []
    na = []
    for p in props:
        pid = p["id"]
        if pid in CLAIMED:
            c = CLAIMED[pid]
            checks.append(dict(
                property_id=pid,
                quick_cmd="python3 checks/check.py %s --tier quick" % pid,
                thorough_cmd="python3 checks/check.py %s --tier thorough" % pid,
                evidence_file="/verif/evidence/%s.json" % pid,
                replay_cmd_template="python3 checks/check.py %s --replay {path}" % pid,
                engine="coq-model",
                level_claimed=dict(category="proof", text=c["text"], design_ref="DESIGN.md " + c["design"]),
                level_note=c["note"],
                technique=c["technique"],
            ))
        else:
            na.append(dict(property_id=pid, reason=NOT_YET.get(pid, "check not built yet in this round; planned (DESIGN.md section 5)")))
    m = dict(
        version=1,
        setup_cmd="python3 checks/setup.py",
        hooks=dict(guard="verif", enable="go build -tags verif (no hook is currently needed: package-main entry points are reached with go test -overlay)",
                   baseline_off_cmd="cd /repo && GOFLAGS=-mod=mod GOPROXY=off GOSUMDB=off GOTOOLCHAIN=local go test -vet=off -count=1 -timeout 25m ./...",
                   source_commits=[], add_only=True),
        engines=[dict(name="coq-model", path="/verif/coq", serves_properties=sorted(CLAIMED.keys()),
                      kind_free_text="hand-written executable Gallina model + specification, theorems in theories/P_<id>.v (one file per property); "
                                     "constants regenerated from /repo by harness/cmd/genfacts; extracted OCaml model run against the "
                                     "implementation by checks/check.py")],
        checks=checks,
        notes="See DESIGN.md. Known findings and fixes: known_findings.txt.",
        not_applicable=na,
    )
    with open(os.path.join(VERIF, "MANIFEST.json"), "w") as f:
        json.dump(m, f, indent=1)
    print("MANIFEST.json: %d checks, %d not claimed" % (len(checks), len(na)))

if __name__ == "__main__":
    main()

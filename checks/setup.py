#!/usr/bin/env python3
"""Builds the framework from files on disk only: Go harness, generated facts, the Coq
development (full .vo), the extracted OCaml model and its driver."""
import os
import sys

sys.path.insert(0, os.path.dirname(os.path.abspath(__file__)))
import common

ok, out = common.build_harness()
print("go harness:", "ok" if ok else "FAILED\n" + out)
okf, outf, deg = common.gen_facts()
print("genfacts:", "ok" if okf else "FAILED\n" + outf, deg)
okc, outc, failed = common.coq_build()
print("coq:", "ok" if okc else "FAILED %s\n%s" % (failed, outc[-4000:]))
okm, outm = common.build_model()
print("ocaml model:", "ok" if okm else "FAILED\n" + outm[-4000:])
sys.exit(0 if (ok and okf and okc and okm) else 1)

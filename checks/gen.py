"""Case generators shared by the property checks (one PRNG per check, seeded from VERIF_SEED)."""

POLY = 0x1864CFB


def crc24q(data):
    crc = 0
    for b in data:
        crc ^= b << 16
        for _ in range(8):
            crc <<= 1
            if crc & 0x1000000:
                crc ^= POLY
    return crc & 0xFFFFFF


def make_frame(payload):
    n = len(payload)
    assert 1 <= n <= 1023
    head = bytes([0xD3, n >> 8, n & 0xFF]) + bytes(payload)
    c = crc24q(head)
    return head + bytes([c >> 16, (c >> 8) & 0xFF, c & 0xFF])


class BitWriter:
    def __init__(self):
        self.bits = []

    def u(self, width, value):
        value &= (1 << width) - 1
        for k in range(width - 1, -1, -1):
            self.bits.append((value >> k) & 1)
        return self

    def s(self, width, value):
        return self.u(width, value & ((1 << width) - 1))

    def bytes(self):
        bits = self.bits + [0] * ((-len(self.bits)) % 8)
        out = bytearray()
        for i in range(0, len(bits), 8):
            v = 0
            for b in bits[i:i + 8]:
                v = (v << 1) | b
            out.append(v)
        return bytes(out)


MSM4 = [1074, 1084, 1094, 1104, 1114, 1124, 1134]
MSM7 = [1077, 1087, 1097, 1107, 1117, 1127, 1137]
MSM = MSM4 + MSM7
BOUNDARY_LENS = [1, 2, 3, 4, 5, 6, 7, 8, 9, 10, 18, 19, 20, 21, 22, 255, 256, 257, 511, 512, 513, 767, 768, 769, 1022, 1023]


def rand_bytes(rng, n):
    return bytes(rng.getrandbits(8) for _ in range(n))


def payload_with_type(rng, mtype, n, ts=None, station=None):
    """n-byte payload whose first 12 bits are mtype; for MSM types a legal timestamp follows when it fits."""
    w = BitWriter()
    w.u(12, mtype)
    w.u(12, rng.getrandbits(12) if station is None else station)
    if mtype in MSM:
        if ts is None:
            if mtype in (1084, 1087):
                ts = (rng.randint(0, 6) << 27) | rng.randint(0, 86399999)
            else:
                ts = rng.randint(0, 604799999)
        w.u(30, ts)
    body = w.bytes()
    if len(body) >= n:
        out = bytearray(body[:n])
        if n == 1:
            out[0] = (mtype >> 4) & 0xFF
        return bytes(out)
    return body + rand_bytes(rng, n - len(body))


def rand_type(rng):
    r = rng.random()
    if r < 0.35:
        return rng.choice(MSM)
    if r < 0.45:
        return 1005
    if r < 0.55:
        return 1006
    if r < 0.6:
        return 1230
    return rng.getrandbits(12)


def rand_len(rng, small=False):
    r = rng.random()
    if r < 0.3:
        return rng.choice(BOUNDARY_LENS[:-5] if small else BOUNDARY_LENS)
    if r < 0.8 or small:
        return rng.randint(1, 60)
    return rng.randint(1, 1023)


def rand_frame(rng, small=False, force_d3=False):
    n = rand_len(rng, small)
    p = bytearray(payload_with_type(rng, rand_type(rng), n))
    if force_d3 and n > 3:
        for _ in range(rng.randint(1, 3)):
            p[rng.randint(2, n - 1)] = 0xD3
    return make_frame(bytes(p))


NMEA = [b"$GPGGA,123519,4807.038,N,01131.000,E,1,08,0.9,545.4,M,46.9,M,,*47\r\n",
        b"$GNRMC,083559.00,A,4717.11437,N,00833.91522,E,0.004,77.52,091202,,,A*57\r\n",
        b"$GPGSV,3,1,11,03,03,111,00,04,15,270,00,06,01,010,00,13,06,292,00*74\r\n"]


def rand_junk(rng):
    r = rng.random()
    if r < 0.3:
        return rng.choice(NMEA)
    if r < 0.5:
        n = rng.choice([1, 2, 5])
    elif r < 0.9:
        n = rng.randint(1, 40)
    else:
        n = rng.randint(100, 600)
    if rng.random() < 0.3:
        head = b"\xb5\x62"  # UBX-like
    else:
        head = b""
    out = bytearray(head + rand_bytes(rng, n))
    for i, b in enumerate(out):
        if b == 0xD3:
            out[i] = 0xD2
    return bytes(out)


def segments(rng, nseg=None, small=True):
    """List of ('F', frame) / ('J', junk) segments, all well formed."""
    if nseg is None:
        nseg = rng.randint(1, 8)
    segs = []
    for _ in range(nseg):
        if rng.random() < 0.65:
            segs.append(("F", rand_frame(rng, small=small, force_d3=rng.random() < 0.3)))
        else:
            segs.append(("J", rand_junk(rng)))
    return segs


def flatten(segs):
    return b"".join(s[1] for s in segs)


def merge_junk(segs):
    out = []
    for k, b in segs:
        if k == "J" and out and out[-1][0] == "J":
            out[-1] = ("J", out[-1][1] + b)
        else:
            out.append((k, b))
    return out


def frame_type(frame):
    return (frame[3] << 4) | (frame[4] >> 4)


def corrupt(rng, frame, mode=None):
    """Alter payload/CRC bytes of a frame (leader untouched) so that the CRC no longer matches."""
    f = bytearray(frame)
    n = len(f)
    mode = mode or rng.choice(["bit", "burst", "byte", "d3", "crc"])
    for _ in range(20):
        g = bytearray(f)
        if mode == "bit":
            i = rng.randint(3, n - 1)
            g[i] ^= 1 << rng.randint(0, 7)
        elif mode == "burst":
            i = rng.randint(3, n - 1)
            for j in range(i, min(n, i + rng.randint(2, 6))):
                g[j] ^= rng.getrandbits(8)
        elif mode == "byte":
            for _ in range(rng.randint(1, 4)):
                g[rng.randint(3, n - 1)] = rng.getrandbits(8)
        elif mode == "d3":
            for _ in range(rng.randint(1, 3)):
                g[rng.randint(3, n - 1)] = 0xD3
        elif mode == "field":
            # whole fields forced to an extreme: the 12 type bits all clear / all set, the first payload bytes or
            # the whole payload zeroed or set (a dropout or a stuck line), the CRC zeroed
            k = rng.choice(["type0", "type0", "typeF", "head0", "headF", "all0", "allF", "crc0", "endD3", "endD3"])
            if k == "type0" and n >= 8:
                g[3] = 0
                g[4] &= 0x0F
            elif k == "typeF" and n >= 8:
                g[3] = 0xFF
                g[4] |= 0xF0
            elif k in ("head0", "headF"):
                for j in range(3, min(n - 3, 3 + rng.randint(2, 4))):
                    g[j] = 0 if k == "head0" else 0xFF
            elif k in ("all0", "allF"):
                for j in range(3, n - 3):
                    g[j] = 0 if k == "all0" else 0xFF
            elif k == "endD3":
                g[n - 1] = 0xD3
                if rng.random() < 0.5:
                    g[rng.randint(3, n - 4)] ^= 1 << rng.randint(0, 7)
            else:
                g[n - 3:] = b"\x00\x00\x00"
        else:
            i = rng.randint(n - 3, n - 1)
            g[i] ^= 1 << rng.randint(0, 7)
        if crc24q(g[:-3]) != int.from_bytes(g[-3:], "big") and bytes(g) != bytes(f):
            return bytes(g)
    g = bytearray(f)
    g[-1] ^= 1
    return bytes(g)


def hostile_stream(rng, n=None):
    """Uniform bytes with 0xD3 density 1/4 and plausible leaders."""
    n = n or rng.randint(1, 300)
    out = bytearray()
    while len(out) < n:
        r = rng.random()
        if r < 0.25:
            out.append(0xD3)
            if rng.random() < 0.5:
                out.append(rng.choice([0, 0, 0, 1, 3, 4, 0x80]))
                out.append(rng.getrandbits(8) if rng.random() < 0.5 else rng.choice([0, 1, 2, 5, 19]))
        else:
            out.append(rng.getrandbits(8))
    return bytes(out[:n])


def mixed_stream(rng, small=True):
    """Segment grammar with everything: valid frames, junk, stray D3, bad reserved bits, zero length,
    corrupted, truncated, frame hidden after a stray D3."""
    out = bytearray()
    tags = []
    for _ in range(rng.randint(1, 8)):
        r = rng.random()
        if r < 0.4:
            out += rand_frame(rng, small=small, force_d3=rng.random() < 0.2)
            tags.append("frame")
        elif r < 0.55:
            out += rand_junk(rng)
            tags.append("junk")
        elif r < 0.62:
            out += b"\xd3"
            tags.append("strayd3")
        elif r < 0.68:
            out += bytes([0xD3, rng.choice([4, 8, 0x80, 0xFC]) | rng.getrandbits(2), rng.getrandbits(8)])
            tags.append("badreserved")
        elif r < 0.73:
            out += b"\xd3\x00\x00" + rand_bytes(rng, rng.randint(0, 4))
            tags.append("zerolen")
        elif r < 0.83:
            out += corrupt(rng, rand_frame(rng, small=small))
            tags.append("corrupt")
        elif r < 0.9:
            f = rand_frame(rng, small=small)
            out += f[:rng.randint(1, len(f) - 1)]
            tags.append("truncated")
        elif r < 0.95:
            out += b"\xd3" + rand_bytes(rng, rng.randint(0, 3)) + rand_frame(rng, small=small)
            tags.append("hidden")
        else:
            f = bytearray(rand_frame(rng, small=small))
            ln = ((f[1] << 8) | f[2]) + rng.choice([-1, 1, 2])
            if 1 <= ln <= 1023:
                f[1], f[2] = ln >> 8, ln & 0xFF
            out += bytes(f)
            tags.append("lenfield")
    if rng.random() < 0.3:
        f = rand_frame(rng, small=small)
        out += f[:rng.randint(1, len(f) - 1)]
        tags.append("tail")
    return bytes(out), tags


def hx(b):
    return b.hex() if len(b) else "-"

"""C04 - MSM4/MSM7 messages decode to exactly the encoded header and cell data."""
import re
import common
import framing
import gen
import msmgen


def run(res, args):
    res.rule = ("abstract messages (all 14 types; mask shapes empty, 1x1, 1x32, 64x1, 8x8, sparse, dense; every field at "
                "min / max / zero / random; multiple-message flag set and clear; trailing fields all zero; padding 0..12, "
                "longer, and up to the 1023-byte limit of the length field) encoded by the extracted specification encoder, decoded by the real decoders directly and through "
                "handler.GetMessage+Analyse; plus a sweep padding 0..12 x cells 0..10; non-trivial = at least one signal cell")
    res.assumptions = ["the frame generator is the extracted, verified-by-construction specification encoder (MsmSpec.msm_frame)"]
    res.trusted = ["harness: cmd/impl decode; ocaml driver msmspec/decode", "extraction: ExtrOcamlBasic only"]
    ok = common.step_A(res)
    if not ok:
        return res.finish()
    rng = common.rng_for(res.seed, "c04")
    mult = 1 if res.tier == "quick" else 30
    if not (res.proof_ok and res.corr_ok):
        mult *= 5
    specs = []
    for _ in range(1500 * mult):
        specs.append(msmgen.abstract(rng))
    for k7 in (False, True):
        for pad in range(0, 13):
            for ncell in range(0, 11):
                for style in ("random", "zero", "lastzero"):
                    nsat = max(1, (ncell + 1) // 2)
                    t, meta = msmgen.abstract(rng, k7=k7, pad=pad, style=style, multi=False, shape=(nsat, 2))
                    specs.append((t, meta))
    lines, e = common.run_lines(common.MODEL_BIN, "msmspec", ["msmspec " + t for t, _ in specs], timeout=3000)
    if e or lines is None or len(lines) != len(specs):
        res.corr_ok = False
        res.corr_notes.append("msmspec failed: %s" % e)
        return res.finish()
    # padded up to the length limit: the same messages with as many zero bytes as bring the message to 1017..1023
    # bytes (the largest values of the 10-bit length field)
    extra = []
    for (t, m), line in list(zip(specs, lines))[:40 * mult]:
        parts = dict(p.split("=", 1) for p in line.split(" ", 3))
        if parts["wf"] != "1":
            continue
        base = len(parts["frame"]) // 2 - 6 - m["pad"]
        for target in rng.sample([1016, 1017, 1018, 1019, 1020, 1021, 1022, 1023], 2):
            if target - base >= 0:
                m2 = dict(m, pad=target - base)
                extra.append((re.sub(r"pad=\d+", "pad=%d" % (target - base), t), m2))
    if extra:
        xl, e = common.run_lines(common.MODEL_BIN, "msmspec", ["msmspec " + t for t, _ in extra], timeout=3000)
        if not e and xl is not None and len(xl) == len(extra):
            specs = specs + extra
            lines = lines + xl
            res.count("padded to a message length of 1016..1023 bytes", len(extra))
    cases, meta = [], []
    for (t, m), line in zip(specs, lines):
        parts = dict(p.split("=", 1) for p in line.split(" ", 3))
        if parts["wf"] != "1":
            res.count("dropped-not-wellformed-or-too-long")
            continue
        for kind in (("7" if m["k7"] else "4"), "auto"):
            cases.append("decode %s %s" % (kind, parts["frame"]))
            meta.append((t, m, parts["view"], kind))
    impl, model = framing.run_both(res, "decode", cases, timeout=3000)
    if impl:
        for (t, m, view, kind), c, line in zip(meta, cases, impl):
            res.evaluations += 1
            res.count("k7=%d" % m["k7"])
            res.count("pad>=3" if m["pad"] >= 3 else "pad<3")
            res.count("style:" + m["style"])
            res.count("shape:%s" % ("empty" if m["ncells"] == 0 else "1" if m["ncells"] == 1 else "<=8" if m["ncells"] <= 8 else ">8"))
            if line != view:
                res.add_violation(dict(message=t, frame=c.split()[2], via=kind, decoded=line, expected=view,
                                       k7=m["k7"], pad=m["pad"], cells=m["ncells"], style=m["style"]),
                                  "decoded message differs from the encoded one" if line.startswith("msm") else "well-formed message rejected: " + line)
            if m["ncells"] >= 1:
                res.nontrivial.add(c)
            if res.evaluations % 1500 == 1:
                res.sample(dict(message=t[:200], via=kind, decoded=line[:200]))
    return res.finish()

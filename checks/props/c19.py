"""C19 - the proxy relays both directions byte-for-byte and reports traffic safely."""
import json
import os
import re
import shutil
import socket
import subprocess
import threading
import time
import urllib.request

import common
import framing
import gen

HTMLISH = [b"<script>alert(1)</script>", b"<b>", b"</div>", b"<<<>>>", b"<img src=x onerror=y>", b"a<b>c", b">", b"<"]


def payload_with_markup(rng):
    """A valid frame whose payload reads as HTML in the hex dump's text column."""
    body = rng.choice(HTMLISH) * rng.randint(1, 3)
    t = rng.choice([1005, 1006, 1230, 4000, rng.choice(gen.MSM)])
    head = gen.payload_with_type(rng, t, 10 if t in gen.MSM else 3)
    return gen.make_frame((head + body)[:1023])


def holes(page, template):
    """Split a page by the template's literal segments; returns the five hole contents or None."""
    segs = template.split("%s")
    if len(segs) != 6:
        return None
    # Status() returns the template filled in; the status server wraps it in its page layout
    i0 = page.find(segs[0])
    if i0 < 0:
        return None
    out, pos = [], i0 + len(segs[0])
    for s in segs[1:]:
        i = page.find(s, pos) if s is not segs[-1] else page.rfind(s)
        if i < 0:
            return None
        out.append(page[pos:i])
        pos = i + len(s)
    return out


def report_part(res, rng, mult):
    template = json.load(open(os.path.join(common.COQ, "gen", "facts.json")))["reportFormat"]
    cases = []
    for _ in range(300 * mult):
        def buf():
            r = rng.random()
            if r < 0.15:
                return "nil"
            if r < 0.6:
                return gen.hx(rng.choice(HTMLISH) + gen.rand_bytes(rng, rng.randint(0, 40)))
            return gen.hx(gen.rand_bytes(rng, rng.randint(1, 80)))
        raws = []
        for _ in range(rng.randint(0, 25)):
            r = rng.random()
            if r < 0.35:
                raws.append(payload_with_markup(rng))
            elif r < 0.6:
                raws.append(rng.choice(HTMLISH) + gen.rand_junk(rng))
            elif r < 0.8:
                raws.append(gen.rand_frame(rng, small=True))
            else:
                raws.append(gen.corrupt(rng, payload_with_markup(rng)))
        cases.append("status %s %s %s %s" % (buf(), buf(), ",".join(r.hex() for r in raws) or "-", rng.choice(["info", "debug"])))
    out, e = common.run_lines(common.IMPL_BIN, "status", cases)
    if e or out is None or len(out) != len(cases):
        res.corr_ok = False
        res.corr_notes.append("status runner failed: %s" % e)
        return
    for c, o in zip(cases, out):
        res.evaluations += 1
        res.count("report")
        if o == "panic":
            res.add_violation(dict(case=c[:300]), "Status panicked")
            continue
        parts = dict(p.split("=", 1) for p in o.split(" "))
        page = bytes.fromhex(parts["page"]).decode("utf-8", "replace")
        hs = holes(page, template)
        if hs is None:
            res.add_violation(dict(case=c[:300], page=page[:400]), "the page does not have the template's structure (markup injected?)")
            continue
        # holes 1, 3 (hex dumps) and 4 (message list) are traffic-derived
        for idx, name in ((1, "client buffer dump"), (3, "server buffer dump"), (4, "message list")):
            if "<" in hs[idx] or ">" in hs[idx]:
                k = min([i for i in (hs[idx].find("<"), hs[idx].find(">")) if i >= 0])
                res.add_violation(dict(case=c[:400], part=name, excerpt=hs[idx][max(0, k - 60):k + 60]),
                                  "traffic-derived text in the status page is not HTML-escaped")
                break
        # the message list shows exactly the queued messages' displays, escaped
        disp = [] if parts["displays"] == "-" else [bytes.fromhex(d).decode("utf-8", "replace") for d in parts["displays"].split(",")]
        want = "\nMessages\n\n" + "".join(d.replace("<", "&lt;").replace(">", "&gt;") + "\n" for d in disp)
        if hs[4] != want and not ("<" in hs[4] or ">" in hs[4]):
            res.add_violation(dict(case=c[:300], shown=hs[4][:300], expected=want[:300]), "the message list is not the escaped display of the queued messages")
        if "3c" in c:
            res.nontrivial.add(c)
        if res.evaluations % 100 == 1:
            res.sample(dict(case=c[:160], holes=[h[:60] for h in hs]))
    # Sanitise against the model
    scases = ["sanitise " + gen.hx(rng.choice(HTMLISH) * rng.randint(0, 3) + gen.rand_bytes(rng, rng.randint(0, 30))) for _ in range(400)]
    framing.run_both(res, "sanitise", scases)


_ports_lock = threading.Lock()
_ports_used = set()


def free_port():
    """A loopback port that is free now and that this process has not handed out before (relay_part and
    stall_part run side by side, each with its own proxy)."""
    with _ports_lock:
        for _ in range(200):
            s = socket.socket()
            s.bind(("127.0.0.1", 0))
            p = s.getsockname()[1]
            s.close()
            if p not in _ports_used:
                _ports_used.add(p)
                return p
        raise RuntimeError("no free port")


class Upstream(threading.Thread):
    """Test caster: accepts one connection at a time, records what it receives, sends its script."""

    def __init__(self):
        super().__init__(daemon=True)
        self.sock = socket.socket()
        self.sock.setsockopt(socket.SOL_SOCKET, socket.SO_REUSEADDR, 1)
        self.sock.bind(("127.0.0.1", 0))
        self.sock.listen(8)
        self.port = self.sock.getsockname()[1]
        self.script = []
        self.received = bytearray()
        self.lock = threading.Lock()
        self.stop = False
        self.stall = 0.0      # seconds during which an accepted connection is not read from (a peer that is busy)
        self.half_close = False  # after sending its script the server shuts down its write side and keeps reading

    def run(self):
        while not self.stop:
            try:
                self.sock.settimeout(0.5)
                conn, _ = self.sock.accept()
            except (socket.timeout, OSError):
                continue
            with self.lock:
                script = list(self.script)

            def sender():
                try:
                    for chunk in script:
                        conn.sendall(chunk)
                        time.sleep(0.002)
                    if self.half_close:
                        conn.shutdown(socket.SHUT_WR)
                except OSError:
                    pass
            threading.Thread(target=sender, daemon=True).start()
            if self.stall:
                time.sleep(self.stall)
            conn.settimeout(0.5)
            while not self.stop:
                try:
                    b = conn.recv(65536)
                except socket.timeout:
                    continue
                except OSError:
                    break
                if not b:
                    break
                with self.lock:
                    self.received.extend(b)
            try:
                conn.close()
            except OSError:
                pass


def chunked(rng, data):
    out, i = [], 0
    while i < len(data):
        n = rng.choice([1, 2, 7, 64, 500, 2048, 5000])
        out.append(data[i:i + n])
        i += n
    return out


def session_streams(rng, force_request=False):
    r = 0.99 if force_request else rng.random()
    if r < 0.3:
        c = b"".join(gen.rand_frame(rng, small=True) for _ in range(rng.randint(1, 12)))
    elif r < 0.5:
        # CRC-valid frames with malformed content (short MSM frames, masks announcing more than fits)
        c = b"".join(gen.make_frame(gen.payload_with_type(rng, rng.choice(gen.MSM + [1005, 1006]), rng.choice([1, 2, 3, 5, 9, 22, 30]))) for _ in range(rng.randint(1, 10)))
    elif r < 0.7:
        c = gen.mixed_stream(rng, small=True)[0]
    elif r < 0.85:
        c = gen.hostile_stream(rng, rng.randint(1, 3000))
    elif r < 0.93:
        c = b"GET /MOUNT HTTP/1.1\r\nUser-Agent: NTRIP test\r\nAuthorization: Basic dXNlcjpwYXNz\r\n\r\n" + payload_with_markup(rng)
    else:
        # NTRIP request lines whose fields read as markup (whatever the proxy chooses to show about a request
        # is traffic-derived text)
        tgt = rng.choice([b"/<script>alert(1)</script>", b"/<img/src=x>", b"/M<b>OUNT</b>", b"/a>b<c"])
        c = rng.choice([b"GET %s HTTP/1.1\r\nUser-Agent: NTRIP <i>test</i>\r\nAuthorization: Basic dXNlcjpwYXNz\r\n\r\n" % tgt,
                        b"SOURCE pass<u>word</u> %s\r\nSource-Agent: NTRIP <b>x</b>\r\n\r\n" % tgt,
                        b"GET %s HTTP/1.0\r\n\r\n" % tgt]) + payload_with_markup(rng)
    s = rng.choice([b"ICY 200 OK\r\n\r\n", b""]) + (gen.rand_bytes(rng, rng.randint(0, 4000)) if rng.random() < 0.6 else b"".join(gen.rand_frame(rng, small=True) for _ in range(rng.randint(0, 8))))
    return c, s


def relay_part(res, rng, nsessions):
    okb, outb, binary = common.build_app("proxy")
    if not okb:
        res.corr_ok = False
        res.corr_notes.append("go build ./apps/proxy failed:\n" + outb[-3000:])
        return
    template = json.load(open(os.path.join(common.COQ, "gen", "facts.json")))["reportFormat"]
    wd = os.path.join(common.WORK, "C19")
    shutil.rmtree(wd, ignore_errors=True)
    os.makedirs(os.path.join(wd, "logs"))
    up = Upstream()
    up.start()
    pport, cport = free_port(), free_port()
    cfg = os.path.join(wd, "proxy.json")
    with open(cfg, "w") as f:
        json.dump(dict(remote_host="127.0.0.1:%d" % up.port, proxy_host="127.0.0.1", proxy_port=pport,
                       control_host="127.0.0.1", control_port=cport, record_messages=True,
                       message_log_directory=os.path.join(wd, "logs")), f)
    proc = subprocess.Popen([binary, "-c", cfg], cwd=wd, stdout=subprocess.DEVNULL, stderr=subprocess.DEVNULL)
    try:
        for _ in range(100):
            try:
                socket.create_connection(("127.0.0.1", pport), timeout=0.2).close()
                break
            except OSError:
                time.sleep(0.05)
        time.sleep(0.2)
        with up.lock:
            up.received.clear()   # the probe connection sent nothing, but be safe
        all_client = bytearray()
        # operators poll the status page while traffic flows: the report is built concurrently with the relay
        poll = dict(stop=False, fetched=0, stuck=0)

        def poller():
            while not poll["stop"]:
                try:
                    urllib.request.urlopen("http://127.0.0.1:%d/status/report" % cport, timeout=6).read()
                    poll["fetched"] += 1
                except socket.timeout:
                    poll["stuck"] += 1
                except Exception as e:  # noqa
                    if "timed out" in str(e):
                        poll["stuck"] += 1
                    else:
                        time.sleep(0.01)
        pollers = [threading.Thread(target=poller, daemon=True) for _ in range(3)]
        for pt in pollers:
            pt.start()
        for sidx in range(nsessions):
            cdata, sdata = session_streams(rng, force_request=(sidx % 8 == 3))
            with up.lock:
                up.script = chunked(rng, sdata)
                base = len(up.received)
            res.evaluations += 1
            res.count("relay-session")
            case = dict(session=sidx, client_bytes=len(cdata), server_bytes=len(sdata), client_hex=cdata[:200].hex(), server_hex=sdata[:100].hex())
            if proc.poll() is not None:
                res.add_violation(dict(case, exit=proc.returncode), "the proxy process died; the relay has stopped")
                break
            try:
                cl = socket.create_connection(("127.0.0.1", pport), timeout=3)
            except OSError as e:
                res.add_violation(dict(case, error=str(e)), "the proxy no longer accepts clients")
                break
            got = bytearray()

            def rd():
                cl.settimeout(0.3)
                t_end = time.time() + 8
                while time.time() < t_end and len(got) < len(sdata):
                    try:
                        b = cl.recv(65536)
                    except socket.timeout:
                        continue
                    except OSError:
                        break
                    if not b:
                        break
                    got.extend(b)
            t = threading.Thread(target=rd, daemon=True)
            t.start()
            try:
                rest = cdata
                if cdata[:4] in (b"GET ", b"SOUR") and b"\n" in cdata[:300] and rng.random() < 0.8:
                    # an NTRIP client sends its request in one piece
                    cut = cdata.index(b"\n") + 1
                    cl.sendall(cdata[:cut])
                    time.sleep(0.05)
                    rest = cdata[cut:]
                    res.count("session opened by a request line sent in one piece")
                for ch in chunked(rng, rest):
                    cl.sendall(ch)
                    if rng.random() < 0.3:
                        time.sleep(0.001)
            except OSError as e:
                res.add_violation(dict(case, error=str(e)), "sending through the proxy failed")
            t_end = time.time() + 8
            while time.time() < t_end:
                with up.lock:
                    n = len(up.received) - base
                if n >= len(cdata):
                    break
                time.sleep(0.01)
            t.join(timeout=9)
            with up.lock:
                recvd = bytes(up.received[base:])
            all_client.extend(cdata)
            if recvd != cdata:
                res.add_violation(dict(case, server_received=len(recvd), first_difference=next((k for k in range(min(len(recvd), len(cdata))) if recvd[k] != cdata[k]), min(len(recvd), len(cdata))),
                                       proxy_alive=proc.poll() is None),
                                  "the upstream server did not receive exactly the client's bytes")
            if bytes(got) != sdata:
                res.add_violation(dict(case, client_received=len(got)), "the client did not receive exactly the server's bytes")
            # the page as the operator sees it, while the session's buffers are current: nothing between the
            # template's own tags may contain markup (every hole is traffic-derived or a connection id and a time)
            if (b"<" in cdata[:300] or sidx % 8 == 0) and proc.poll() is None:
                try:
                    page = urllib.request.urlopen("http://127.0.0.1:%d/status/report" % cport, timeout=6).read().decode("utf-8", "replace")
                    hs = holes(page, template)
                    res.count("status page checked right after a session")
                    if hs is None:
                        res.add_violation(dict(case, page=page[:600]), "the status page does not have the template's structure (markup injected?)")
                    else:
                        for idx, name in enumerate(("client leader", "client buffer dump", "server leader", "server buffer dump", "message list")):
                            if "<" in hs[idx] or ">" in hs[idx]:
                                k = min([i for i in (hs[idx].find("<"), hs[idx].find(">")) if i >= 0])
                                res.add_violation(dict(case, part=name, excerpt=hs[idx][max(0, k - 80):k + 80]),
                                                  "traffic-derived text in the status page is not HTML-escaped")
                                break
                except Exception as e:  # noqa
                    res.count("status page fetch after a session failed")
            try:
                cl.close()
            except OSError:
                pass
            time.sleep(0.05)
            if len(cdata) > 50:
                res.nontrivial.add(("session", sidx))
            if sidx % 10 == 0:
                res.sample(dict(case, server_received=len(recvd), client_received=len(got)))
        poll["stop"] = True
        for pt in pollers:
            pt.join(timeout=8)
        res.count("status pages fetched during the relay", poll["fetched"])
        if poll["stuck"] and proc.poll() is None:
            res.add_violation(dict(stuck_requests=poll["stuck"], fetched=poll["fetched"]),
                              "a status request made while traffic was being relayed never completed")
        # the status report lists only messages that were relayed
        if proc.poll() is None:
            try:
                html = urllib.request.urlopen("http://127.0.0.1:%d/status/report" % cport, timeout=5).read().decode("utf-8", "replace")
                res.count("report-fetched")
                shown = []
                for blk in re.split(r"Frame length \d+ bytes:\n", html)[1:]:
                    b = bytearray()
                    for line in blk.split("\n"):
                        m = re.match(r"^[0-9a-f]{8}  ((?:[0-9a-f]{2} ?){1,8}(?: (?:[0-9a-f]{2} ?){1,8})?)", line)
                        if not m:
                            break
                        b.extend(bytes.fromhex(m.group(1).replace(" ", "")))
                    shown.append(bytes(b))
                blob = bytes(all_client)
                for sh in shown:
                    if sh and sh not in blob:
                        res.add_violation(dict(shown=sh.hex()[:200]), "the status report lists a message that was never relayed")
                        break
            except Exception as e:  # noqa
                res.count("report-fetch-failed")
    finally:
        up.stop = True
        proc.kill()
        try:
            proc.wait(timeout=5)
        except Exception:
            pass
        shutil.rmtree(wd, ignore_errors=True)


def stall_part(res, rng, stalls):
    """Sessions in which each peer stops reading for some seconds while the other side sends more than the socket
    buffers hold (a caster or client that is busy), then reads everything: the relay may block, it may not drop,
    reorder or give up.  Own proxy instance, so that it can run beside relay_part."""
    okb, outb, binary = common.build_app("proxy")
    if not okb:
        return
    wd = os.path.join(common.WORK, "C19stall")
    shutil.rmtree(wd, ignore_errors=True)
    os.makedirs(os.path.join(wd, "logs"))
    up = Upstream()
    up.start()
    pport, cport = free_port(), free_port()
    cfg = os.path.join(wd, "proxy.json")
    with open(cfg, "w") as f:
        json.dump(dict(remote_host="127.0.0.1:%d" % up.port, proxy_host="127.0.0.1", proxy_port=pport,
                       control_host="127.0.0.1", control_port=cport, record_messages=True,
                       message_log_directory=os.path.join(wd, "logs")), f)
    proc = subprocess.Popen([binary, "-c", cfg], cwd=wd, stdout=subprocess.DEVNULL, stderr=subprocess.DEVNULL)
    try:
        for _ in range(100):
            try:
                socket.create_connection(("127.0.0.1", pport), timeout=0.2).close()
                break
            except OSError:
                time.sleep(0.05)
        time.sleep(0.3)
        for stall in stalls:
            size = 6 * 1024 * 1024
            frames = b"".join(gen.rand_frame(rng, small=True) for _ in range(40))
            cdata = (frames + gen.rand_bytes(rng, 4096)) * (size // (len(frames) + 4096) + 1)
            sdata = gen.rand_bytes(rng, 65536) * (size // 65536)
            with up.lock:
                up.script = [sdata[i:i + 65536] for i in range(0, len(sdata), 65536)]
                up.received.clear()
                up.stall = stall
            res.evaluations += 1
            res.count("relay session with both peers not reading for %g s" % stall)
            case = dict(kind="stalled peers", stall_s=stall, client_bytes=len(cdata), server_bytes=len(sdata))
            try:
                cl = socket.create_connection(("127.0.0.1", pport), timeout=3)
            except OSError as e:
                res.add_violation(dict(case, error=str(e)), "the proxy no longer accepts clients")
                break
            got = bytearray()

            def rd():
                time.sleep(stall)
                cl.settimeout(0.5)
                t_end = time.time() + 40
                while time.time() < t_end and len(got) < len(sdata):
                    try:
                        b = cl.recv(1 << 20)
                    except socket.timeout:
                        continue
                    except OSError:
                        break
                    if not b:
                        break
                    got.extend(b)
            t = threading.Thread(target=rd, daemon=True)
            t.start()
            try:
                cl.settimeout(60)
                cl.sendall(cdata)
            except OSError as e:
                res.add_violation(dict(case, error=str(e)), "sending through the proxy failed")
            t_end = time.time() + 40
            while time.time() < t_end:
                with up.lock:
                    n = len(up.received)
                if n >= len(cdata):
                    break
                time.sleep(0.05)
            t.join(timeout=45)
            time.sleep(0.3)
            with up.lock:
                recvd = bytes(up.received)
                up.stall = 0.0
            if recvd != cdata:
                res.add_violation(dict(case, server_received=len(recvd), first_difference=next((k for k in range(min(len(recvd), len(cdata))) if recvd[k] != cdata[k]), min(len(recvd), len(cdata))),
                                       proxy_alive=proc.poll() is None),
                                  "the upstream server did not receive exactly the client's bytes (it stopped reading for a while)")
            if bytes(got) != sdata:
                res.add_violation(dict(case, client_received=len(got), first_difference=next((k for k in range(min(len(got), len(sdata))) if got[k] != sdata[k]), min(len(got), len(sdata)))),
                                  "the client did not receive exactly the server's bytes (it stopped reading for a while)")
            res.nontrivial.add(("stalled", stall))
            try:
                cl.close()
            except OSError:
                pass
            time.sleep(0.3)
    finally:
        up.stop = True
        proc.kill()
        try:
            proc.wait(timeout=5)
        except Exception:
            pass
        shutil.rmtree(wd, ignore_errors=True)


def quiet_part(res, rng, nsessions):
    """The operator switches the message log off through the control port (/status/loglevel/0), then clients come and
    go: the relay must carry on exactly as before.  Own proxy instance."""
    okb, outb, binary = common.build_app("proxy")
    if not okb:
        return
    wd = os.path.join(common.WORK, "C19quiet")
    shutil.rmtree(wd, ignore_errors=True)
    os.makedirs(os.path.join(wd, "logs"))
    up = Upstream()
    up.start()
    pport, cport = free_port(), free_port()
    cfg = os.path.join(wd, "proxy.json")
    with open(cfg, "w") as f:
        json.dump(dict(remote_host="127.0.0.1:%d" % up.port, proxy_host="127.0.0.1", proxy_port=pport,
                       control_host="127.0.0.1", control_port=cport, record_messages=True,
                       message_log_directory=os.path.join(wd, "logs")), f)
    proc = subprocess.Popen([binary, "-c", cfg], cwd=wd, stdout=subprocess.DEVNULL, stderr=subprocess.DEVNULL)
    try:
        for _ in range(100):
            try:
                socket.create_connection(("127.0.0.1", pport), timeout=0.2).close()
                break
            except OSError:
                time.sleep(0.05)
        time.sleep(0.3)
        for sidx in range(nsessions):
            if sidx == 1:
                try:
                    urllib.request.urlopen("http://127.0.0.1:%d/status/loglevel/0" % cport, timeout=5).read()
                    res.count("message log switched off through the control port")
                except Exception:  # noqa
                    res.count("loglevel request failed")
            if sidx == nsessions - 1:
                try:
                    urllib.request.urlopen("http://127.0.0.1:%d/status/loglevel/1" % cport, timeout=5).read()
                except Exception:  # noqa
                    pass
            cdata = b"".join(gen.rand_frame(rng, small=True) for _ in range(rng.randint(3, 8))) + gen.rand_junk(rng)
            sdata = b"ICY 200 OK\r\n\r\n" + gen.rand_bytes(rng, 300)
            half = sidx % 2 == 0
            with up.lock:
                up.script = [sdata]
                up.received.clear()
                up.half_close = half
            if half:
                res.count("the upstream server shuts down its write side after its reply and keeps reading")
            res.evaluations += 1
            res.count("relay session with the message log switched " + ("off" if 1 <= sidx < nsessions - 1 else "on"))
            case = dict(kind="log switched off/on by the operator", session=sidx, client_bytes=len(cdata), client_hex=cdata[:120].hex())
            try:
                cl = socket.create_connection(("127.0.0.1", pport), timeout=3)
            except OSError as e:
                res.add_violation(dict(case, error=str(e), proxy_alive=proc.poll() is None), "the proxy no longer accepts clients")
                break
            got = bytearray()
            try:
                cl.settimeout(5)
                if half:
                    time.sleep(0.4)   # the server's half-close has reached the proxy before the client sends
                for ch in chunked(rng, cdata):
                    cl.sendall(ch)
                t_end = time.time() + 6
                cl.settimeout(0.3)
                while time.time() < t_end:
                    with up.lock:
                        n = len(up.received)
                    if n >= len(cdata) and len(got) >= len(sdata):
                        break
                    try:
                        b = cl.recv(65536)
                        if b:
                            got.extend(b)
                    except socket.timeout:
                        pass
                    except OSError:
                        break
            except OSError as e:
                res.add_violation(dict(case, error=str(e)), "sending through the proxy failed")
            with up.lock:
                recvd = bytes(up.received)
            if recvd != cdata:
                res.add_violation(dict(case, server_received=len(recvd), proxy_alive=proc.poll() is None),
                                  "the upstream server did not receive exactly the client's bytes")
            if bytes(got) != sdata:
                res.add_violation(dict(case, client_received=len(got)), "the client did not receive exactly the server's bytes")
            res.nontrivial.add(("quiet", sidx))
            try:
                cl.close()
            except OSError:
                pass
            time.sleep(0.15)
    finally:
        up.stop = True
        proc.kill()
        try:
            proc.wait(timeout=5)
        except Exception:
            pass
        shutil.rmtree(wd, ignore_errors=True)


def burst_part(res, rng, sizes):
    """Bursts of exactly k x 2048 bytes (the relay's read buffer) and neighbours, each followed by silence on an open
    connection, in both directions: what was sent must arrive within 3 s without further traffic (never withheld)."""
    okb, outb, binary = common.build_app("proxy")
    if not okb:
        return
    wd = os.path.join(common.WORK, "C19burst")
    shutil.rmtree(wd, ignore_errors=True)
    os.makedirs(os.path.join(wd, "logs"))
    up = Upstream()
    up.start()
    pport, cport = free_port(), free_port()
    cfg = os.path.join(wd, "proxy.json")
    with open(cfg, "w") as f:
        json.dump(dict(remote_host="127.0.0.1:%d" % up.port, proxy_host="127.0.0.1", proxy_port=pport,
                       control_host="127.0.0.1", control_port=cport, record_messages=True,
                       message_log_directory=os.path.join(wd, "logs")), f)
    proc = subprocess.Popen([binary, "-c", cfg], cwd=wd, stdout=subprocess.DEVNULL, stderr=subprocess.DEVNULL)
    try:
        for _ in range(100):
            try:
                socket.create_connection(("127.0.0.1", pport), timeout=0.2).close()
                break
            except OSError:
                time.sleep(0.05)
        time.sleep(0.3)
        for n in sizes:
            sdata = gen.rand_bytes(rng, n)
            with up.lock:
                up.script = [sdata]
                up.received.clear()
            res.evaluations += 1
            res.count("burst of %d bytes each way, then silence on the open connection" % n)
            case = dict(kind="burst then silence", burst_bytes=n)
            try:
                cl = socket.create_connection(("127.0.0.1", pport), timeout=3)
            except OSError as e:
                res.add_violation(dict(case, error=str(e), proxy_alive=proc.poll() is None), "the proxy no longer accepts clients")
                break
            cdata = gen.rand_bytes(rng, n)
            got = bytearray()
            try:
                time.sleep(0.2)
                cl.sendall(cdata)
                t_end = time.time() + 3
                cl.settimeout(0.2)
                while time.time() < t_end:
                    with up.lock:
                        k = len(up.received)
                    if k >= n and len(got) >= n:
                        break
                    try:
                        b = cl.recv(65536)
                        if b:
                            got.extend(b)
                    except socket.timeout:
                        pass
                    except OSError:
                        break
            except OSError as e:
                res.add_violation(dict(case, error=str(e)), "sending through the proxy failed")
            with up.lock:
                recvd = bytes(up.received)
            if recvd != cdata:
                res.add_violation(dict(case, server_received_within_3s=len(recvd)), "the client's bytes were withheld from (or altered on the way to) the upstream server while the connection was idle")
            if bytes(got) != sdata:
                res.add_violation(dict(case, client_received_within_3s=len(got)), "the server's bytes were withheld from (or altered on the way to) the client while the connection was idle")
            res.nontrivial.add(("burst", n))
            try:
                cl.close()
            except OSError:
                pass
            time.sleep(0.2)
    finally:
        up.stop = True
        proc.kill()
        try:
            proc.wait(timeout=5)
        except Exception:
            pass
        shutil.rmtree(wd, ignore_errors=True)


def run(res, args):
    res.rule = ("report: ReportFeed.Status() in-process with crafted client/server buffers and queue contents (frames and "
                "non-RTCM data whose bytes read as HTML); every traffic-derived hole of the page template must be free of '<' "
                "and '>' and the message list must be the escaped displays; relay: the built proxy binary between a test "
                "upstream server and a test client on loopback, sessions of valid frames, CRC-valid malformed frames, "
                "mixed/hostile bytes, NTRIP-like text, many chunkings, both directions; bursts of exactly 1, 2 or more read buffers (2048 bytes) followed by silence on the open connection; sessions after the operator has switched the message log off through the control port; sessions of 6 MB each way in which both peers stop reading for 6-13 s and then read everything; non-trivial = markup bytes in the "
                "traffic / sessions over 50 bytes")
    res.assumptions = ["TCP, TLS and statusreporter are the runtime; one client session at a time",
                       "relay integrity depends on the parser never panicking (C07); the dependency is explicit"]
    res.trusted = ["harness: cmd/impl status+sanitise; the proxy binary built from /repo", "page template read from the source by genfacts"]
    ok = common.step_A(res)
    if not ok:
        return res.finish()
    rng = common.rng_for(res.seed, "c19")
    mult = 1 if res.tier == "quick" else 16
    report_part(res, rng, mult)
    rng_stall = common.rng_for(res.seed, "c19stall")
    st = threading.Thread(target=stall_part, args=(res, rng_stall, [7] if res.tier == "quick" else [6, 9, 13]))
    st.start()
    qt = threading.Thread(target=quiet_part, args=(res, common.rng_for(res.seed, "c19quiet"), 5 if res.tier == "quick" else 20))
    qt.start()
    bt = threading.Thread(target=burst_part, args=(res, common.rng_for(res.seed, "c19burst"),
                                                  [2048, 4096, 2047, 1024] if res.tier == "quick" else [1, 512, 1024, 2047, 2048, 2049, 4096, 6144, 8192, 65536]))
    bt.start()
    relay_part(res, rng, 40 * mult)
    bt.join(timeout=400)
    st.join(timeout=400)
    qt.join(timeout=400)
    res.traces = res.distribution.get("relay-session", 0)
    return res.finish()

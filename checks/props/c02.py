"""C02 - stream segmentation is lossless: delivered raw bytes concatenate to the input."""
import itertools
import common
import framing
import gen


def end_of_input_set(rng):
    """Streams ending at every offset of a frame, after junk, after a lone 0xD3, empty."""
    out = [b"", b"\xd3", b"\xd3\x00", b"\xd3\x00\x13", b"A", b"AB", b"A\xd3", b"\xd3\xd3", b"\xd3\xd3\xd3\xd3\xd3\xd3"]
    for n in (1, 2, 5, 19):
        f = gen.make_frame(gen.payload_with_type(rng, gen.rand_type(rng), n))
        for k in range(0, len(f) + 1):
            out.append(f[:k])
            out.append(b"xy" + f[:k])
            out.append(f + f[:k])
    return out


def tiny_exhaustive(maxlen):
    alpha = [0xD3, 0x00, 0x01, 0x3E]
    for n in range(0, maxlen + 1):
        for t in itertools.product(alpha, repeat=n):
            yield bytes(t)


def run(res, args):
    res.rule = ("mixed segment streams, 0xD3-dense hostile streams, the end-of-input set (every truncation offset of frames "
                "of 4 sizes, lone 0xD3, empty), all strings over {d3,00,01,3e} up to length 6 (7 thorough), each with channel "
                "capacities from {0,1,2,64}^2 and producer/consumer delays; non-trivial = at least two messages delivered")
    res.assumptions = ["producer/consumer timing in the real runtime is sampled (4 delay modes), not enumerated",
                       "a second close of the output would panic the handler goroutine; the harness waits for it to return"]
    res.trusted = ["harness: cmd/impl stream; ocaml driver stream", "extraction: ExtrOcamlBasic only"]
    ok = common.step_A(res)
    if not ok:
        return res.finish()
    rng = common.rng_for(res.seed, "c02")
    mult = 1 if res.tier == "quick" else 30
    if not (res.proof_ok and res.corr_ok):
        mult *= 5
    streams = []
    for _ in range(700 * mult):
        s, tags = gen.mixed_stream(rng, small=True)
        streams.append((s, "mixed"))
    for _ in range(40 * mult):
        streams.append((gen.mixed_stream(rng, small=False)[0], "mixed-long"))
    for _ in range(500 * mult):
        streams.append((gen.hostile_stream(rng), "hostile"))
    for s in end_of_input_set(rng):
        streams.append((s, "end-of-input"))
    for s in tiny_exhaustive(6 if res.tier == "quick" else 7):
        streams.append((s, "tiny-exhaustive"))
    # sizes around the longest possible frame (1029 bytes): junk runs of k x 1029 +- 1 bytes without 0xD3, ended by a frame,
    # a lone 0xD3 or the end of input; frames of the maximum and near-maximum length, intact and with a damaged CRC
    for k in (1, 2, 3):
        for dlt in (-1, 0, 1):
            j = bytes((rng.getrandbits(8) % 0xD2) for _ in range(k * 1029 + dlt))
            tailc = rng.choice([b"", b"\xd3", gen.rand_frame(rng, small=True)])
            streams.append((rng.choice([b"", gen.rand_frame(rng, small=True)]) + j + tailc, "around-max-frame-size"))
    # very long runs of other data without 0xD3 (a long NMEA-only stretch): sizes around the powers of two from 4 KB to
    # 64 KB, where a "bounded" buffer would cut, and a few random sizes up to 100 KB; ended by a frame, a lone 0xD3 or nothing
    # (added after the measured miss of seed C02p: a 4096-byte cap on a non-RTCM chunk that lost the byte after it)
    long_sizes = [p2 + d for p2 in (4096, 8192, 16384, 32768, 65536) for d in (-1, 0, 1)]
    long_sizes += [rng.randint(3090, 100000) for _ in range(4 * mult)]
    for n in long_sizes:
        j = bytes((rng.getrandbits(8) % 0xD2) for _ in range(n))
        tailc = rng.choice([b"", b"\xd3", gen.rand_frame(rng, small=True), gen.rand_frame(rng, small=True)])
        streams.append((rng.choice([b"", gen.rand_frame(rng, small=True)]) + j + tailc, "very-long-other-data"))
    for n in (1020, 1021, 1022, 1023):
        f = gen.make_frame(gen.payload_with_type(rng, gen.rand_type(rng), n))
        streams.append((f + gen.rand_frame(rng, small=True), "around-max-frame-size"))
        streams.append((gen.corrupt(rng, f, "crc") + gen.rand_frame(rng, small=True), "around-max-frame-size"))
        streams.append((gen.rand_junk(rng) + gen.corrupt(rng, f, "bit"), "around-max-frame-size"))
    caps = [0, 1, 2, 64]
    cases = []
    for s, tag in streams:
        ci, co = rng.choice(caps), rng.choice(caps)
        d = rng.choice([0, 0, 0, 1, 2, 3]) if len(s) < 400 else 0
        cases.append("stream %d debug %s %d %d %d" % (framing.T0, gen.hx(s), ci, co, d))
    # the producer pauses once for 250 ms: after the first byte of a run of other data, in the middle of such a run, right
    # after a 0xD3, inside a leader, inside a payload (what is delivered may not depend on when the bytes arrive)
    for k in range(10 if res.tier == "quick" else 60):
        f1, f2 = gen.rand_frame(rng, small=True), gen.rand_frame(rng, small=True)
        junk = b"$GPGGA,1,2*33\r\n"
        s = f1 + junk + f2 + b"\n"
        at = [len(f1) + 1, len(f1) + 7, len(f1) + len(junk) + 1, len(f1) + len(junk) + 3, len(f1) + len(junk) + 8, 1, len(s) - 1, len(f1)][k % 8]
        streams.append((s, "producer-stall"))
        cases.append("stream %d debug %s %d %d 0 stall:%d:250" % (framing.T0, gen.hx(s), rng.choice(caps), rng.choice(caps), at))
    impl, model = framing.run_both(res, "stream", cases, timeout=3000)
    if impl:
        for (s, tag), c, line in zip(streams, cases, impl):
            res.evaluations += 1
            res.count(tag)
            ms = framing.parse_stream_obs(line)
            if ms is None:
                res.add_violation(dict(case=c, obs=line), "the stream handler did not return normally")
                continue
            if not line.endswith("closed=1"):
                res.add_violation(dict(case=c, obs=line[-40:]), "output not closed exactly once")
            cat = "".join(m["raw"] for m in ms)
            if cat != s.hex():
                res.add_violation(dict(case=c, delivered=[m["raw"] for m in ms]),
                                  "delivered raw bytes do not concatenate to the input")
            if any(m["raw"] == "" for m in ms):
                res.add_violation(dict(case=c, delivered=[m["raw"] for m in ms]), "an empty message was delivered")
            if len(ms) >= 2:
                res.nontrivial.add(s)
            if res.evaluations % 1200 == 1:
                res.sample(dict(case=c[:140], delivered=[(m["type"], len(m["raw"]) // 2) for m in ms]))
    return res.finish()

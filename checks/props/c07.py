"""C07 - no input can crash or hang framing, decoding or display."""
import common
import framing
import gen

DECODABLE = [1005, 1006] + gen.MSM


def msm_payload(rng, mtype, n, style):
    """n-byte MSM payload with a mask-heavy / all-ones / all-zero / random body."""
    w = gen.BitWriter()
    w.u(12, mtype).u(12, rng.getrandbits(12))
    if style == "badts":
        w.u(30, rng.choice([604800000, (1 << 30) - 1, (7 << 27), (3 << 27) | 86400000]))
    else:
        w.u(30, rng.randint(0, 604799999) if mtype not in (1084, 1087) else (rng.randint(0, 6) << 27) | rng.randint(0, 86399999))
    w.u(1, rng.getrandbits(1)).u(3, rng.getrandbits(3)).u(7, rng.getrandbits(7)).u(2, 0).u(2, 0).u(1, 0).u(3, 0)
    if style == "manycells":
        nsat, nsig = rng.choice([(64, 1), (1, 32), (8, 8), (16, 4), (32, 2), (9, 8), (64, 32)])
    elif style == "sparse":
        nsat, nsig = rng.randint(1, 6), rng.randint(1, 4)
    else:
        nsat, nsig = rng.randint(0, 8), rng.randint(0, 4)
    sats = rng.sample(range(64), nsat)
    sigs = rng.sample(range(32), nsig)
    w.u(64, sum(1 << (63 - s) for s in sats))
    w.u(32, sum(1 << (31 - s) for s in sigs))
    body = w.bytes()
    if style == "ones":
        fill = bytes([0xFF]) * 1100
    elif style == "zeros":
        fill = bytes(1100)
    else:
        fill = gen.rand_bytes(rng, 1100)
    p = (body + fill)[:n]
    if n == 1:
        p = bytes([(mtype >> 4) & 0xFF])
    return p


def station_payload(rng, mtype, n, style):
    w = gen.BitWriter()
    w.u(12, mtype)
    body = w.bytes()
    fill = {"ones": bytes([0xFF]) * 1100, "zeros": bytes(1100)}.get(style) or gen.rand_bytes(rng, 1100)
    p = bytearray((body + fill)[:n])
    if n >= 2:
        p[1] = (p[1] & 0x0F) | ((mtype & 0xF) << 4)
        p[0] = (mtype >> 4) & 0xFF
    else:
        p[0] = (mtype >> 4) & 0xFF
    return bytes(p)


def run(res, args):
    res.rule = ("CRC-valid frames of every decodable type (1005, 1006, 14 MSM types) with payload lengths over the boundary set "
                "and random lengths (thorough: every length 1..1023), bodies random / all ones / all zeros / mask-heavy / "
                "illegal timestamps, at both log levels, through HandleMessages+String and GetMessage+String under recover and a "
                "deadline; plus mixed and hostile streams; a case is non-trivial when it is a CRC-valid frame of a decodable type")
    res.assumptions = ["bounded time is observed by a 20-30 s deadline per case, not proved",
                       "panics inside fmt/hex.Dump/time.Format are covered only by these runs"]
    res.trusted = ["harness: cmd/impl display+full+stream+getmsg under recover()", "extraction: ExtrOcamlBasic only"]
    ok = common.step_A(res)
    if not ok:
        return res.finish()
    rng = common.rng_for(res.seed, "c07")
    thorough = res.tier == "thorough"
    lens = list(range(1, 1024)) if thorough else sorted(set(gen.BOUNDARY_LENS + list(range(1, 60)) + [rng.randint(60, 1023) for _ in range(12)]))
    styles = ["random", "ones", "zeros", "manycells", "sparse", "badts"]
    frames = []
    for t in DECODABLE:
        for n in lens:
            for st in (styles if (thorough or n < 40) else [rng.choice(styles)]):
                if t in gen.MSM:
                    p = msm_payload(rng, t, n, st)
                else:
                    if st in ("manycells", "sparse", "badts"):
                        continue
                    p = station_payload(rng, t, n, st)
                frames.append((gen.make_frame(p), "%d/%s" % (t, st), n))
    cases_d, cases_f, meta = [], [], []
    for i, (f, tag, n) in enumerate(frames):
        lvl = "debug" if i % 2 == 0 else "info"
        cases_d.append("display %d %s %s" % (framing.T0, lvl, gen.hx(f)))
        cases_f.append("full %d %s %s" % (framing.T0, lvl, gen.hx(f)))
        meta.append((f, tag, n))
    streams = []
    for _ in range(300 if not thorough else 3000):
        s, tags = gen.mixed_stream(rng, small=True)
        streams.append(s)
    for _ in range(300 if not thorough else 3000):
        streams.append(gen.hostile_stream(rng))
    for s in streams:
        cases_f.append("full %d %s %s" % (framing.T0, rng.choice(["debug", "info"]), gen.hx(s)))
        cases_d.append("display %d %s %s" % (framing.T0, rng.choice(["debug", "info"]), gen.hx(s)))
        meta.append((s, "stream", len(s)))
    for runner, cases in (("display", cases_d), ("full", cases_f)):
        out, e = common.run_lines(common.IMPL_BIN, runner, cases, timeout=3000, mem_kb=8000000)
        if e or out is None or len(out) != len(cases):
            res.corr_ok = False
            res.corr_notes.append("impl runner %s failed: %s" % (runner, e))
            continue
        for (b, tag, n), c, o in zip(meta, cases, out):
            res.evaluations += 1
            res.count(runner + ":" + tag.split("/")[-1])
            if tag != "stream":
                res.nontrivial.add(b)
            if not (o.startswith("ok") or o == "nil"):
                res.add_violation(dict(case=c, obs=o, kind=tag, payload_len=n),
                                  "%s did not return normally (%s)" % (runner, o))
            if res.evaluations % 1500 == 1:
                res.sample(dict(case=c[:160], obs=o))
    # correspondence of the modelled part (framing + GetMessage) on the same inputs
    scases = ["stream %d debug %s" % (framing.T0, gen.hx(b)) for b, _, _ in meta]
    framing.run_both(res, "stream", scases)
    gcases = ["getmsg %d debug %s" % (framing.T0, gen.hx(b)) for b, _, _ in meta]
    framing.run_both(res, "getmsg", gcases)
    return res.finish()

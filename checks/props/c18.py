"""C18 - the recent-message queue always holds the last N messages in arrival order."""
import itertools
import os
import common
import framing

IMPL_RACE = os.path.join(common.HARNESS, "bin", "impl_race")


def build_race():
    with common.Lock("gobuild"):
        rc, out = common.sh(["go", "build", "-race"] + common.COVFLAGS + ["-o", "bin/impl_race", "./cmd/impl"], cwd=common.HARNESS, env=common.GOENV, timeout=900)
    return rc == 0, out


def run(res, args):
    thorough = res.tier == "thorough"
    res.rule = ("sequential: every add/snapshot sequence up to length %d for capacities 1..%d (exhaustive), long runs up to 10^5 "
                "additions with snapshots, against the extracted model and the specification 'last min(N, added)'; concurrent: "
                "adders and snapshot readers in goroutines under the race detector, every snapshot checked (size, no duplicates, "
                "contiguous per adder, and with one adder consistent with the real-time order of the calls); non-trivial = a "
                "sequence with a snapshot after more additions than the capacity" % ((12, 8) if thorough else (8, 4)))
    res.assumptions = ["that sync.RWMutex gives the atomicity the model assumes is the race detector's and the snapshot oracle's "
                       "verdict on sampled schedules", "NextIndex overflow after 2^63 additions is outside the model"]
    res.trusted = ["harness: cmd/impl queue (+ -race build for queueconc); ocaml driver queue"]
    ok = common.step_A(res)
    if not ok:
        return res.finish()
    maxlen, maxcap = (12, 8) if thorough else (8, 4)
    cases = []
    for cap in range(1, maxcap + 1):
        for n in range(1, maxlen + 1):
            for ops in itertools.product("as", repeat=n):
                o = "".join(ops)
                if "s" in o:
                    cases.append("queue %d %s" % (cap, o + ("" if o.endswith("s") else "s")))
    rng = common.rng_for(res.seed, "c18")
    for cap in (1, 2, 3, 5, 8, 20, 64):
        for _ in range(3):
            ops = "".join(rng.choice(["a", "s", "A%d" % rng.randint(1, 300)]) for _ in range(40)) + "s"
            cases.append("queue %d %s" % (cap, ops))
        cases.append("queue %d A%ds" % (cap, 100000 if cap in (3, 20) else 70000))
    cases = sorted(set(cases))
    impl, model = framing.run_both(res, "queue", cases)
    if impl and model:
        for c, i, m in zip(cases, impl, model):
            res.evaluations += 1
            cap = int(c.split()[1])
            res.count("cap=%d" % cap if cap <= 8 else "cap>8")
            if "!spec" in m:
                res.proof_ok = False
                res.proof_notes.append("model disagrees with its own specification on %s: %s" % (c, m))
            # oracle: the implementation's snapshots are the last min(N, added); never more than N stored
            toks = i.split()
            mx = int(toks[-1][4:])
            if mx > cap:
                res.add_violation(dict(case=c, obs=i), "the queue held more than its capacity")
            added, si = 0, 0
            ops = c.split()[2]
            k = 0
            while k < len(ops):
                if ops[k] == "a":
                    added += 1
                elif ops[k] == "A":
                    j = k + 1
                    while j < len(ops) and ops[j].isdigit():
                        j += 1
                    added += int(ops[k + 1:j])
                    k = j - 1
                else:
                    want = ".".join(str(x) for x in range(max(1, added - cap + 1), added + 1)) or "-"
                    got = toks[si][2:]
                    si += 1
                    if got != want:
                        res.add_violation(dict(case=c[:200], snapshot_index=si - 1, added=added, got=got[:200], expected=want[:200]),
                                          "a snapshot is not the most recent min(N, added) messages in order")
                        break
                    if added > cap:
                        res.nontrivial.add(c)
                k += 1
            if res.evaluations % 400 == 1:
                res.sample(dict(case=c[:80], obs=i[:120]))
    okr, outr = build_race()
    if not okr:
        res.corr_ok = False
        res.corr_notes.append("race build failed: " + outr[-2000:])
        return res.finish()
    ccases = []
    for cap in (1, 2, 3, 8, 20):
        for adders, readers in ((1, 1), (1, 4), (3, 3), (8, 2)):
            ccases.append("queueconc %d %d %d %d %d" % (cap, adders, readers, 3000 if not thorough else 30000, 400 if not thorough else 4000))
    out, e = common.run_lines(IMPL_RACE, "queueconc", ccases, shards=4, timeout=1800)
    if e or out is None or len(out) != len(ccases):
        # a data race makes the race-enabled binary exit non-zero
        res.add_violation(dict(cases=ccases, error=(e or "")[-1500:]), "data race or crash in concurrent queue use")
    else:
        for c, o in zip(ccases, out):
            res.evaluations += 1
            res.count("concurrent")
            res.traces += 1
            if not o.startswith("ok"):
                res.add_violation(dict(case=c, obs=o), "a concurrent snapshot is not a contiguous, in-order run consistent with real time")
            res.nontrivial.add(c)
        res.sample(dict(case=ccases[0], obs=out[0]))
    return res.finish()

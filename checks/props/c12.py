"""C12 - a frame corrupted in payload or CRC is discarded alone; its neighbours survive."""
import common
import framing
import gen
from props import c03


def run(res, args):
    res.rule = ("segment streams as in C03 with one victim frame at every position; corruption = single bits, bursts, whole fields forced to zeros or ones (the 12 type bits, the first payload bytes, the whole payload, the CRC), byte "
                "overwrites, forced 0xD3 insertion, in payload and CRC (leader untouched, CRC mismatch guaranteed); thorough: every "
                "single-bit corruption of every frame of 5-frame streams; the oracle is the segment list with the victim as "
                "non-RTCM, and every later frame's full report (times included) must equal the run with the victim's slot "
                "zeroed; non-trivial = the victim has at least one neighbour")
    res.assumptions = ["the segment oracle compares (type, raw bytes); the times of the frames after the victim are compared with a run in "
                       "which the victim's slot holds zero bytes"]
    res.trusted = ["harness: cmd/impl stream; ocaml driver stream", "extraction: ExtrOcamlBasic only"]
    ok = common.step_A(res)
    if not ok:
        return res.finish()
    rng = common.rng_for(res.seed, "c12")
    mult = 1 if res.tier == "quick" else 40
    if not (res.proof_ok and res.corr_ok):
        mult *= 5
    items = []
    for _ in range(1800 * mult):
        segs = gen.segments(rng, small=rng.random() < 0.95)
        frames = [i for i, (k, _) in enumerate(segs) if k == "F"]
        if not frames:
            continue
        v = rng.choice(frames)
        mode = rng.choice(["bit", "burst", "byte", "d3", "crc", "ts", "field", "field"])
        if mode == "ts" and len(segs[v][1]) >= 16:
            # a flipped bit in what would be an MSM timestamp (frame bits 48..77)
            g = bytearray(segs[v][1])
            bit = rng.randint(48, 77)
            g[bit // 8] ^= 0x80 >> (bit % 8)
            bad = bytes(g)
        else:
            mode = "bit" if mode == "ts" else mode
            bad = gen.corrupt(rng, segs[v][1], mode)
        tail = b""
        if rng.random() < 0.2:
            f = gen.rand_frame(rng, small=True)
            tail = f[:rng.randint(1, len(f) - 1)]
        items.append((segs, v, bad, tail, mode))
    # the victim repeats an earlier frame verbatim (stations repeat 1005/1006/1230) and is damaged in the payload only
    for _ in range(60 * mult):
        f = gen.make_frame(gen.payload_with_type(rng, rng.choice([1005, 1006, 1230, 1033]), rng.choice([19, 21, 8, 40])))
        segs = [("F", f)] + ([("J", gen.rand_junk(rng))] if rng.random() < 0.3 else []) + [("F", f), ("F", gen.rand_frame(rng, small=True))]
        v = max(i for i, (k, b) in enumerate(segs) if b == f)
        g = bytearray(f)
        i = rng.randint(5, len(f) - 4) if rng.random() < 0.6 else rng.randint(len(f) - 3, len(f) - 1)
        g[i] ^= 1 << rng.randint(0, 7)
        items.append((segs, v, bytes(g), b"", "damaged-repeat"))
    if res.tier == "thorough":
        for _ in range(6):
            segs = [("F", gen.rand_frame(rng, small=True)) for _ in range(5)]
            for v in range(5):
                f = segs[v][1]
                for bit in range(24, 8 * len(f)):
                    g = bytearray(f)
                    g[bit // 8] ^= 0x80 >> (bit % 8)
                    items.append((segs, v, bytes(g), b"", "everybit"))
    cases, exps, blanked = [], [], []
    for segs, v, bad, tail, mode in items:
        stream = b"".join(bad if i == v else b for i, (k, b) in enumerate(segs)) + tail
        cases.append("stream %d debug %s" % (framing.T0, gen.hx(stream)))
        # the same stream with the victim's slot filled with zero bytes (no frame, no 0xD3): a corrupted frame must leave
        # nothing behind, so every frame after it is reported in full - times included - as in this stream
        blank = b"".join(bytes(len(bad)) if i == v else b for i, (k, b) in enumerate(segs)) + tail
        blanked.append("stream %d debug %s" % (framing.T0, gen.hx(blank)))
        # expected: as without the corruption, but the victim is a non-RTCM message with its (corrupted) bytes,
        # delivered alone (it is not merged with neighbouring junk: it starts with 0xD3 and is consumed by its length)
        exp = []
        pre = gen.merge_junk(segs[:v])
        post = gen.merge_junk(segs[v + 1:])
        for k, b in pre:
            exp.append((gen.frame_type(b) if k == "F" else -1, b.hex()))
        exp.append((-1, bad.hex()))
        for k, b in post:
            exp.append((gen.frame_type(b) if k == "F" else -1, b.hex()))
        if tail:
            exp.append((-1, tail.hex()))
        exps.append(exp)
    impl, model = framing.run_both(res, "stream", cases, timeout=3000)
    bl, eb = common.run_lines(common.IMPL_BIN, "stream", blanked, timeout=3000)
    if eb or bl is None or len(bl) != len(cases):
        res.corr_ok = False
        res.corr_notes.append("stream runner failed on the blanked streams: %s" % eb)
        bl = None
    if impl and bl:
        for (segs, v, bad, tail, mode), c, line, bline in zip(items, cases, impl, bl):
            a, b = framing.parse_stream_obs(line), framing.parse_stream_obs(bline)
            if a is None or b is None:
                continue
            ta = [(m["type"], m["raw"], m["emsg"], m["ts"], m["sent"], m["sow"]) for m in a if m["type"] >= 0]
            tb = [(m["type"], m["raw"], m["emsg"], m["ts"], m["sent"], m["sow"]) for m in b if m["type"] >= 0]
            if ta != tb:
                k = next((i for i in range(min(len(ta), len(tb))) if ta[i] != tb[i]), min(len(ta), len(tb)))
                res.add_violation(dict(stream=c.split()[3], victim_index=v, corrupted=bad.hex(), first_differing_frame=k,
                                       with_corrupted_victim=ta[k:k + 1], with_victim_slot_blank=tb[k:k + 1]),
                                  "a frame after the corrupted one is reported differently (times included) than if the corrupted frame's bytes carried nothing")
    if impl:
        for (segs, v, bad, tail, mode), c, exp, line in zip(items, cases, exps, impl):
            res.evaluations += 1
            res.count("corruption:" + mode)
            ms = framing.parse_stream_obs(line)
            if ms is None:
                res.add_violation(dict(case=c, obs=line), "the stream handler did not return normally")
                continue
            got = [(m["type"], m["raw"]) for m in ms]
            if got != exp:
                res.add_violation(dict(stream=c.split()[3], victim_index=v, corrupted=bad.hex(), original=segs[v][1].hex(),
                                       delivered=got, expected=exp),
                                  "the corrupted frame was not discarded alone")
            if len(segs) >= 2:
                res.nontrivial.add(c)
            if res.evaluations % 900 == 1:
                res.sample(dict(segments=[(k, len(b)) for k, b in segs], victim=v, mode=mode, delivered=[(t, len(r) // 2) for t, r in got]))
    # several corrupted frames in one stream (theorems C12_any_number / C12_many_vs_uncorrupted): every victim is delivered
    # alone as non-RTCM and every other segment as without the corruptions
    mitems, mcases, mexps = [], [], []
    for _ in range(300 * mult):
        segs = gen.segments(rng, small=True)
        frames = [i for i, (k, _) in enumerate(segs) if k == "F"]
        if len(frames) < 2:
            continue
        vs = sorted(rng.sample(frames, rng.randint(2, min(4, len(frames)))))
        bads = {v: gen.corrupt(rng, segs[v][1], rng.choice(["bit", "burst", "byte", "d3", "crc", "field"])) for v in vs}
        stream = b"".join(bads.get(i, b) for i, (k, b) in enumerate(segs))
        exp, run = [], []
        for i, (k, b) in enumerate(segs):
            if i in bads:
                exp += [(gen.frame_type(x) if kk == "F" else -1, x.hex()) for kk, x in gen.merge_junk(run)]
                run = []
                exp.append((-1, bads[i].hex()))
            else:
                run.append((k, b))
        exp += [(gen.frame_type(x) if kk == "F" else -1, x.hex()) for kk, x in gen.merge_junk(run)]
        mitems.append((segs, vs, bads))
        mcases.append("stream %d debug %s" % (framing.T0, gen.hx(stream)))
        mexps.append(exp)
    mimpl, mmodel = framing.run_both(res, "stream", mcases, timeout=3000)
    if mimpl:
        for (segs, vs, bads), c, exp, line in zip(mitems, mcases, mexps, mimpl):
            res.evaluations += 1
            res.count("corruption:multi-%d" % len(vs))
            ms = framing.parse_stream_obs(line)
            if ms is None:
                res.add_violation(dict(case=c, obs=line), "the stream handler did not return normally")
                continue
            got = [(m["type"], m["raw"]) for m in ms]
            if got != exp:
                res.add_violation(dict(stream=c.split()[3], victim_indices=vs, corrupted=[bads[v].hex() for v in vs],
                                       delivered=got, expected=exp),
                                  "with several corrupted frames in one stream, a corrupted frame was not discarded alone or a neighbour was lost")
            res.nontrivial.add(c)
    return res.finish()

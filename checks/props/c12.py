"""C12 - a frame corrupted in payload or CRC is discarded alone; its neighbours survive."""
import common
import framing
import gen
from props import c03


def run(res, args):
    res.rule = ("segment streams as in C03 with one victim frame at every position; corruption = single bits, bursts, byte "
                "overwrites, forced 0xD3 insertion, in payload and CRC (leader untouched, CRC mismatch guaranteed); thorough: every "
                "single-bit corruption of every frame of 5-frame streams; the oracle is the segment list with the victim as "
                "non-RTCM; non-trivial = the victim has at least one neighbour")
    res.assumptions = ["time fields of MSM messages are projected away"]
    res.trusted = ["harness: cmd/impl stream; ocaml driver stream", "extraction: ExtrOcamlBasic only"]
    ok = common.step_A(res)
    if not ok:
        return res.finish()
    rng = common.rng_for(res.seed, "c12")
    mult = 1 if res.tier == "quick" else 40
    if not (res.proof_ok and res.corr_ok):
        mult *= 5
    items = []
    for _ in range(1800 * mult):
        segs = gen.segments(rng, small=rng.random() < 0.95)
        frames = [i for i, (k, _) in enumerate(segs) if k == "F"]
        if not frames:
            continue
        v = rng.choice(frames)
        mode = rng.choice(["bit", "burst", "byte", "d3", "crc"])
        bad = gen.corrupt(rng, segs[v][1], mode)
        tail = b""
        if rng.random() < 0.2:
            f = gen.rand_frame(rng, small=True)
            tail = f[:rng.randint(1, len(f) - 1)]
        items.append((segs, v, bad, tail, mode))
    if res.tier == "thorough":
        for _ in range(6):
            segs = [("F", gen.rand_frame(rng, small=True)) for _ in range(5)]
            for v in range(5):
                f = segs[v][1]
                for bit in range(24, 8 * len(f)):
                    g = bytearray(f)
                    g[bit // 8] ^= 0x80 >> (bit % 8)
                    items.append((segs, v, bytes(g), b"", "everybit"))
    cases, exps = [], []
    for segs, v, bad, tail, mode in items:
        stream = b"".join(bad if i == v else b for i, (k, b) in enumerate(segs)) + tail
        cases.append("stream %d debug %s" % (framing.T0, gen.hx(stream)))
        # expected: as without the corruption, but the victim is a non-RTCM message with its (corrupted) bytes,
        # delivered alone (it is not merged with neighbouring junk: it starts with 0xD3 and is consumed by its length)
        exp = []
        pre = gen.merge_junk(segs[:v])
        post = gen.merge_junk(segs[v + 1:])
        for k, b in pre:
            exp.append((gen.frame_type(b) if k == "F" else -1, b.hex()))
        exp.append((-1, bad.hex()))
        for k, b in post:
            exp.append((gen.frame_type(b) if k == "F" else -1, b.hex()))
        if tail:
            exp.append((-1, tail.hex()))
        exps.append(exp)
    impl, model = framing.run_both(res, "stream", cases, timeout=3000)
    if impl:
        for (segs, v, bad, tail, mode), c, exp, line in zip(items, cases, exps, impl):
            res.evaluations += 1
            res.count("corruption:" + mode)
            ms = framing.parse_stream_obs(line)
            if ms is None:
                res.add_violation(dict(case=c, obs=line), "the stream handler did not return normally")
                continue
            got = [(m["type"], m["raw"]) for m in ms]
            if got != exp:
                res.add_violation(dict(stream=c.split()[3], victim_index=v, corrupted=bad.hex(), original=segs[v][1].hex(),
                                       delivered=got, expected=exp),
                                  "the corrupted frame was not discarded alone")
            if len(segs) >= 2:
                res.nontrivial.add(c)
            if res.evaluations % 900 == 1:
                res.sample(dict(segments=[(k, len(b)) for k, b in segs], victim=v, mode=mode, delivered=[(t, len(r) // 2) for t, r in got]))
    return res.finish()

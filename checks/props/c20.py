"""C20 - message-type classification is total and consistent across the library."""
import os
import re
import common

MSM4 = {1074, 1084, 1094, 1104, 1114, 1124, 1134}
MSM7 = {1077, 1087, 1097, 1107, 1117, 1127, 1137}


def row_ok(r):
    t = r["t"]
    m4, m7 = t in MSM4, t in MSM7
    const = ((t - 1070) // 10 + 1) if (m4 or m7) else 0
    disp = 4 if m4 else 7 if m7 else t if t in (1005, 1006) else 0
    want = dict(msm4=m4, msm7=m7, msm=m4 or m7, const=const, title=True, hdr=m4 or m7, dec4=m4, dec7=m7,
                s1005=t == 1005, s1006=t == 1006, ts=m4 or m7, tsany=m4 or m7, dec4any=m4, dec7any=m7, dispatch=disp, display=True)
    return [k for k in want if r[k] != want[k]]


def run(res, args):
    res.rule = ("complete enumeration: the real MSM4/MSM7/MSM/GetConstellation/GetTitleAndComment, the MSM header, MSM4, MSM7, "
                "1005 and 1006 decoders, handler.GetMessage's timestamp extraction, Analyse's dispatch and String at both log "
                "levels are run on a synthetic well-formed frame of every type 0..4095 and on Message values carrying the "
                "sentinels -1 and -2; the resulting 4098-row table is what the Coq theorem is checked against; non-trivial = "
                "every row (each is a distinct type)")
    res.assumptions = ["the dumper (harness/cmd/classdump) and the determinism of these functions (C15)"]
    res.trusted = ["harness/cmd/classdump regenerates coq/gen/ClassifyTable.v on every run"]
    res.exhaustive = True
    common.step_A(res)
    # the oracle on the table itself names the failing type when the theorem no longer checks
    src = open(os.path.join(common.COQ, "gen", "ClassifyTable.v")).read()
    rows = re.findall(r"mkRow \((-?\d+)\) (\w+) (\w+) (\w+) (-?\d+) (\w+) (\w+) (\w+) (\w+) (\w+) (\w+) (\w+) (\w+) (\w+) (\w+) (\d+) (\w+)", src)
    keys = ["t", "msm4", "msm7", "msm", "const", "title", "hdr", "dec4", "dec7", "s1005", "s1006", "ts", "tsany", "dec4any", "dec7any", "dispatch", "display"]
    seen = set()
    for row in rows:
        r = {}
        for k, v in zip(keys, row):
            r[k] = (v == "true") if v in ("true", "false") else int(v)
        res.evaluations += 1
        seen.add(r["t"])
        res.nontrivial.add(r["t"])
        bad = row_ok(r)
        if bad:
            res.add_violation(dict(message_type=r["t"], row=r, inconsistent_columns=bad), "classification of this message type is inconsistent")
        if r["t"] in (-2, -1, 0, 1005, 1077, 1124, 1230, 4095):
            res.sample(r, limit=8)
    if seen != set(range(-2, 4096)):
        res.add_violation(dict(missing=sorted(set(range(-2, 4096)) - seen)[:20]), "the table does not cover every type")
    res.count("rows", len(rows))
    return res.finish()

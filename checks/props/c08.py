"""C08 - ranges, phase ranges and range rates equal the standard's formulas."""
import os
import re
import struct
from fractions import Fraction

import common

C_MS = Fraction(299792458, 1000)      # metres per light millisecond
C = Fraction(299792458)
FREQ = {
    1: {**{s: 1575420000 for s in (2, 3, 4, 30, 31, 32)}, **{s: 1227600000 for s in (8, 9, 10, 15, 16, 17)}, **{s: 1176450000 for s in (22, 23, 24)}},
    3: {**{s: 1575420000 for s in (2, 3, 4, 5, 6)}, **{s: 1278750000 for s in (8, 9, 10, 11, 12)}, **{s: 1207140000 for s in (14, 15, 16)},
        **{s: 1191795000 for s in (18, 19, 20)}, **{s: 1176450000 for s in (22, 23, 24)}},
    2: {2: 1602000000, 3: 1602000000, 8: 1246000000, 9: 1246000000},
    6: {**{s: 1561098000 for s in (2, 3, 4)}, **{s: 1268520000 for s in (8, 9, 10)}, **{s: 1176450000 for s in (14, 15, 16)}},
}
INV = dict(rd4=-16384, prd4=-2097152, rd7=-524288, prd7=-8388608, rate=-8192, rrd=-16384)


def fbits(h):
    return struct.unpack(">d", int(h, 16).to_bytes(8, "big"))[0]


def close(computed_bits, exact, ulps):
    x = fbits(computed_bits)
    if x != x or x in (float("inf"), float("-inf")):
        return False
    return abs(Fraction(x) - exact) <= ulps * Fraction(1, 2 ** 53) * abs(exact)


def gen_tuples(rng, n):
    out = []
    Ws = [0, 1, 60, 79, 127, 253, 254, 255]
    Fs = [0, 1, 3, 4, 512, 1020, 1022, 1023]
    for _ in range(n):
        k7 = rng.getrandbits(1)
        W = rng.choice(Ws) if rng.random() < 0.5 else rng.randint(0, 255)
        F = rng.choice(Fs) if rng.random() < 0.5 else rng.randint(0, 1023)
        wd, wp = (20, 24) if k7 else (15, 22)

        def sv(w):
            lo, hi = -(1 << (w - 1)), (1 << (w - 1)) - 1
            r = rng.random()
            if r < 0.35:
                return rng.choice([lo, lo + 1, -1, 0, 1, hi - 1, hi])
            if r < 0.6:
                # every power of two is the minimum, the "invalid" marker or the carry point of some field at some
                # resolution (MSM4 markers at MSM7 scale and the like): +-2^k and its neighbours, for every k
                k = rng.randint(0, w - 1)
                return max(lo, min(hi, rng.choice([-1, 1]) * (1 << k) + rng.choice([-1, 0, 0, 0, 1])))
            return rng.randint(lo, hi)
        d, p = sv(wd), sv(wp)
        R, r = (sv(14), sv(15)) if k7 else (0, 0)
        cons = rng.choice([1, 2, 3, 6, 1, 3, 4, 5, 7, 0])
        sig = rng.randint(1, 32)
        out.append((k7, W, F, d, p, R, r, cons, sig))
    # rough range exactly zero (whole 0, fraction 0) or all ones below the marker, with positive / negative / zero fine values
    for k7 in (0, 1):
        for W, F in ((0, 0), (0, 1), (1, 0), (254, 1023), (255, 0), (255, 1023)):
            for d, p in ((1, 1), (1000, 2000), (-1, -1), (0, 0)):
                out.append((k7, W, F, d, p, (5 if k7 else 0), (7 if k7 else 0), rng.choice([1, 2, 3, 6]), rng.randint(1, 32)))
    # rates that nearly cancel: rough and fine of opposite sign leaving a few ten-thousandths of a m/s, and tiny fine values
    for R, r in ((0, 1), (0, -1), (0, 4), (0, -4), (0, 5), (1, -9999), (1, -9996), (-1, 9999), (-1, 9996), (1, -10000), (2, -16384), (-2, 16383)):
        out.append((1, 80, 512, 3, -3, R, r, rng.choice([1, 2, 3, 6]), rng.randint(1, 32)))
    # every +-2^k exactly, in each signed field
    for k7 in (0, 1):
        wd, wp = (20, 24) if k7 else (15, 22)
        for k in range(0, 24):
            for sgn in (-1, 1):
                d = max(-(1 << (wd - 1)), min((1 << (wd - 1)) - 1, sgn * (1 << min(k, wd - 1))))
                p = max(-(1 << (wp - 1)), min((1 << (wp - 1)) - 1, sgn * (1 << min(k, wp - 1))))
                R = max(-(1 << 13), min((1 << 13) - 1, sgn * (1 << min(k, 13)))) if k7 else 0
                r = max(-(1 << 14), min((1 << 14) - 1, sgn * (1 << min(k, 14)))) if k7 else 0
                out.append((k7, 80, 512, d, p, R, r, rng.choice([1, 2, 3, 6]), rng.randint(1, 32)))
    # every signal of the four constellations once
    for cons in (1, 2, 3, 6):
        for sig in range(1, 33):
            out.append((1, 80, 512, 1000, -2000, -50, 77, cons, sig))
            out.append((0, 80, 512, 31, -500, 0, 0, cons, sig))
    return out


def run(res, args):
    res.rule = ("(whole ms, fractional ms, fine range, fine phase, rough/fine rate, constellation, signal) tuples over the boundary "
                "grid (0, 1, max-1, max, invalid markers, minima) x random, plus every signal id of the four constellations; the real "
                "cells are built with New and their methods called; scaled integers and the bits of every float result are compared "
                "with the Coq primitive-float model evaluated by the kernel's VM (generated Cases.v), and with the standard's formulas in "
                "exact rational arithmetic (tolerance 4 units of 2^-53 relative); each MSM4 tuple is also run as the MSM7 cell "
                "that encodes the same quantity; non-trivial = valid rough range and a defined wavelength")
    res.assumptions = ["go/amd64 performs no FMA contraction; float64(uint64/int64) is exact below 2^53",
                       "String() text is checked only for the 'invalid' / 'no wavelength' markers"]
    res.trusted = ["harness: cmd/impl ranges; generated work/C08/Cases.v evaluated with vm_compute on primitive floats"]
    ok = common.step_A(res)
    if not ok:
        return res.finish()
    rng = common.rng_for(res.seed, "c08")
    n = 1200 if res.tier == "quick" else 60000
    tuples = gen_tuples(rng, n)
    # MSM4/MSM7 agreement: add the MSM7 twin of every valid MSM4 tuple
    twins = {}
    for t in list(tuples):
        k7, W, F, d, p, R, r, cons, sig = t
        if not k7 and d != INV["rd4"] and p != INV["prd4"]:
            tw = (1, W, F, d * 32, p * 4, 0, 0, cons, sig)
            twins[len(tuples)] = t
            tuples.append(tw)
    cases = ["ranges %d %d %d %d %d %d %d %d %d" % t for t in tuples]
    out, e = common.run_lines(common.IMPL_BIN, "ranges", cases)
    if e or out is None or len(out) != len(cases):
        res.corr_ok = False
        res.corr_notes.append("ranges runner failed: %s" % e)
        return res.finish()
    def canon(h):
        # NaN payload and sign are not meaningful: one code for every NaN
        v = int(h, 16)
        if (v >> 52) & 0x7FF == 0x7FF and v & ((1 << 52) - 1):
            return "7ff8000000000000"
        return h
    obs = [o.split() for o in out]
    obs = [o if o[0] == "panic" else o[:3] + [canon(x) for x in o[3:8]] + o[8:] for o in obs]
    # ---- correspondence with the Coq model (kernel VM) ----
    wd = os.path.join(common.WORK, "C08")
    os.makedirs(wd, exist_ok=True)
    shard = 600
    mism = []
    files = []
    for si in range(0, len(tuples), shard):
        rows = []
        for t, o in zip(tuples[si:si + shard], obs[si:si + shard]):
            if o[0] == "panic":
                continue
            k7, W, F, d, p, R, r, cons, sig = t

            def z(v):
                return "(%d)%%Z" % v
            ar, ap = int(o[0], 16), int(o[1], 16)
            arate = int(o[2], 16) if not o[2].startswith("-") else -int(o[2][1:], 16)
            rows.append("(%s, %d%%N, %d%%N, %s, %s, %s, %s, %d%%N, %d%%N, (%d%%N, %d%%N, %s), (%d%%N, %d%%N, %d%%N, %d%%N, %d%%N))" % (
                "true" if k7 else "false", W, F, z(d), z(p), z(R), z(r), cons, sig, ar, ap, z(arate),
                int(o[3], 16), int(o[4], 16), int(o[5], 16), int(o[6], 16), int(o[7], 16)))
        fn = os.path.join(wd, "Cases%d.v" % (si // shard))
        with open(fn, "w") as f:
            f.write("From Coq Require Import Floats List NArith ZArith.\nImport ListNotations.\nFrom NTRIP Require Import Base Bits Range RangeCheck.\n")
            f.write("Definition cases : list case := [\n" + ";\n".join(rows) + "\n].\n")
            f.write("Definition M := Eval vm_compute in mismatches 0 cases.\nPrint M.\n")
        files.append((fn, si))
    from concurrent.futures import ThreadPoolExecutor

    def coq(fs):
        fn, si = fs
        rc, o = common.sh(["coqc", "-Q", os.path.join(common.COQ, "theories"), "NTRIP", "-Q", os.path.join(common.COQ, "gen"), "NTRIPGen", fn],
                          cwd=wd, timeout=900)
        return rc, o, si
    with ThreadPoolExecutor(max_workers=8) as ex:
        for rc, o, si in ex.map(coq, files):
            m = re.search(r"M\s*=\s*(\[.*?\])\s*:", o, re.S)
            if rc != 0 or not m:
                res.corr_ok = False
                res.corr_notes.append("coqc on the generated cases failed: " + o[-1500:])
                continue
            idx = [int(x) for x in re.findall(r"(\d+)%nat|(?<![\d.])(\d+)(?![\d.])", m.group(1)) for x in x if x]
            for i in idx:
                mism.append(si + i)
    for i in mism[:30]:
        res.corr_ok = False
        res.corr_notes.append(dict(case=cases[i], impl=" ".join(obs[i]), note="differs from the Coq model (scaled integers or float bits)"))
    # ---- oracle: the standard's formulas in exact arithmetic ----
    for i, (t, o, c) in enumerate(zip(tuples, obs, cases)):
        res.evaluations += 1
        k7, W, F, d, p, R, r, cons, sig = t
        res.count("msm7" if k7 else "msm4")
        if o[0] == "panic":
            res.add_violation(dict(case=c), "range computation panicked")
            continue
        freq = FREQ.get(cons, {}).get(sig)
        s_r, s_p = (29, 31) if k7 else (24, 29)
        inv_rd, inv_prd = (INV["rd7"], INV["prd7"]) if k7 else (INV["rd4"], INV["prd4"])
        rough = Fraction(W) + Fraction(F, 1024)
        if W == 255:
            if int(o[0], 16) != 0 or int(o[1], 16) != 0 or fbits(o[3]) != 0.0 or "i" not in o[8]:
                res.add_violation(dict(case=c, obs=" ".join(o)), "an invalid rough range must make the values invalid (zero / 'invalid')")
            continue
        true_range = C_MS * (rough + (Fraction(d, 2 ** s_r) if d != inv_rd else 0))
        true_phase_ms = rough + (Fraction(p, 2 ** s_p) if p != inv_prd else 0)
        if true_range >= 0:
            if not close(o[3], true_range, 4):
                res.add_violation(dict(case=c, computed=fbits(o[3]), exact=float(true_range)), "pseudorange differs from c/1000 x (whole + frac/1024 + fine x 2^-s)")
        if freq and true_phase_ms >= 0:
            lam = C / freq
            if not close(o[4], C_MS * true_phase_ms / lam, 6):
                res.add_violation(dict(case=c, computed=fbits(o[4]), exact=float(C_MS * true_phase_ms / lam)), "phase range differs from the formula")
            if not close(o[7], lam, 2):
                res.add_violation(dict(case=c, computed=fbits(o[7]), exact=float(lam)), "wavelength is not c/f")
            res.nontrivial.add(t)
        if k7:
            if R == INV["rate"]:
                if fbits(o[5]) != 0.0:
                    res.add_violation(dict(case=c, obs=" ".join(o)), "an invalid rough rate must give zero")
            else:
                true_rate = Fraction(R) + (Fraction(r, 10000) if r != INV["rrd"] else 0)
                if not close(o[5], true_rate, 2) and true_rate != 0:
                    res.add_violation(dict(case=c, computed=fbits(o[5]), exact=float(true_rate)), "range rate differs from rough + fine/10000")
                if freq and true_rate != 0:
                    if not close(o[6], -true_rate / (C / freq), 5):
                        res.add_violation(dict(case=c, computed=fbits(o[6]), exact=float(-true_rate / (C / freq))), "Doppler differs from -rate/wavelength")
        if i in twins:
            j = tuples.index(twins[i])
            if obs[j][3] != o[3] or obs[j][4] != o[4] or obs[j][0] != o[0] or obs[j][1] != o[1]:
                res.add_violation(dict(msm4=cases[j], msm7=c, msm4_obs=" ".join(obs[j]), msm7_obs=" ".join(o)),
                                  "an MSM4 and an MSM7 cell encoding the same quantity give different results")
        if res.evaluations % 400 == 1:
            res.sample(dict(case=c, obs=" ".join(o)))
    res.count("model-mismatches", len(mism))
    return res.finish()

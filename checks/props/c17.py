"""C17 - any start time within the week of the first observation gives correct times."""
from props import c06


def run(res, args):
    res.rule = ("as C06 but the start time may be before, equal to or after the first observation, anywhere in the same "
                "constellation week (first observation at the week start, at its end, within 2 s of the start time)")
    res.assumptions = ["SentAt/StartOfWeek are parsed back with utils.DateLayout", "no leap seconds, as in Go's time package"]
    res.trusted = ["harness: cmd/impl hist; ocaml driver histspec/hist", "extraction: ExtrOcamlBasic only"]
    return c06.run_time_property(res, False, "c17")

"""C05 - base-position messages 1005/1006 decode exactly and display to 0.1 mm."""
import common
import framing
import gen

MIN38, MAX38 = -(1 << 37), (1 << 37) - 1


def coord(rng):
    r = rng.random()
    if r < 0.08:
        return MIN38
    if r < 0.16:
        return MAX38
    if r < 0.24:
        return rng.choice([-1, 0, 1])
    if r < 0.34:
        return rng.randint(-10000, 10000)
    if r < 0.44:
        return rng.choice([-1, 1]) * (rng.randint(0, 13743895) * 10000 + rng.choice([0, 1, 4999, 5000, 5001, 9999]))
    return rng.randint(MIN38, MAX38)


def decimal4(x):
    """Exact text of x/10^4 with four decimals."""
    sign = "-" if x < 0 else ""
    a = abs(x)
    return "%s%d.%04d" % (sign, a // 10000, a % 10000)


def run(res, args):
    res.rule = ("well-formed 1005/1006 messages (coordinates -2^37, 2^37-1, -1, 0, 1, |x|<1 m, fraction digits 0000/0001/4999/"
                "5000/5001/9999, random) encoded by the extracted specification encoder with 0..8 trailing payload bytes, decoded "
                "directly and through handler.GetMessage+Analyse, displayed at both log levels; every truncation length of the "
                "payload and wrong message types must be rejected; non-trivial = a coordinate that is not 0")
    res.assumptions = ["the displayed text is compared with the exact decimal of X/10^4 computed with integers"]
    res.trusted = ["harness: cmd/impl decode+stdisplay; ocaml driver stspec/decode", "extraction: ExtrOcamlBasic only"]
    ok = common.step_A(res)
    if not ok:
        return res.finish()
    rng = common.rng_for(res.seed, "c05")
    mult = 1 if res.tier == "quick" else 45
    if not (res.proof_ok and res.corr_ok):
        mult *= 5
    specs = []
    for _ in range(2500 * mult):
        ty = rng.choice([1005, 1006])
        m = dict(type=ty, id=rng.getrandbits(12), itrf=rng.getrandbits(6), i1=rng.getrandbits(4), x=coord(rng), i2=rng.getrandbits(2),
                 y=coord(rng), i3=rng.getrandbits(2), z=coord(rng),
                 h=(rng.choice([0, 1, 65535, 9999, 10000, rng.getrandbits(16)]) if ty == 1006 else 0))
        if rng.random() < 0.08:
            # the same extreme in all three coordinates (a receiver that has not surveyed its position yet sends
            # zeros; all-minimum / all-maximum / all -1), now and then with every other field zero as well
            v = rng.choice([0, 0, 0, MIN38, MAX38, -1, 1])
            m.update(x=v, y=v, z=v)
            if rng.random() < 0.3:
                m.update(id=0, itrf=0, i1=0, i2=0, i3=0, h=0)
        extra = gen.rand_bytes(rng, rng.choice([0, 0, 0, 1, 2, 8]))
        specs.append((m, extra))
    lines, e = common.run_lines(common.MODEL_BIN, "stspec", [
        "stspec " + " ".join("%s=%d" % kv for kv in m.items()) + " extra=" + gen.hx(extra) for m, extra in specs])
    if e or lines is None or len(lines) != len(specs):
        res.corr_ok = False
        res.corr_notes.append("stspec failed: %s" % e)
        return res.finish()
    cases, meta = [], []
    dcases, dmeta = [], []
    for (m, extra), line in zip(specs, lines):
        parts = dict(p.split("=", 1) for p in line.split(" ", 2))
        if parts["wf"] != "1":
            res.count("dropped-not-wellformed")
            continue
        for kind in (str(m["type"]), "auto"):
            cases.append("decode %s %s" % (kind, parts["frame"]))
            meta.append((m, parts["view"], "decode"))
        lvl = rng.choice(["debug", "info"])
        dcases.append("stdisplay %d %s %s" % (m["type"], lvl, parts["frame"]))
        dmeta.append(m)
    # rejection: wrong type, every truncation of the payload
    rej = []
    for ty in (1005, 1006):
        need = 19 if ty == 1005 else 21
        for n in range(1, need):
            p = gen.payload_with_type(rng, ty, n)
            if n == 1:
                continue
            rej.append(("decode %d %s" % (ty, gen.make_frame(p).hex()), "short"))
        for other in (1004, 1007, 1077, 0, 4095, 1006 if ty == 1005 else 1005):
            p = gen.payload_with_type(rng, other, 30)
            rej.append(("decode %d %s" % (ty, gen.make_frame(p).hex()), "wrongtype"))
    # the decoder handed a frame cut at EVERY byte length, from nothing at all to one byte short of the fields
    for ty in (1005, 1006):
        full = gen.make_frame(gen.payload_with_type(rng, ty, 19 if ty == 1005 else 21))
        for n in range(0, 3 + (19 if ty == 1005 else 21)):
            rej.append(("decode %d %s" % (ty, gen.hx(full[:n])), "cut"))
    for c, tag in rej:
        cases.append(c)
        meta.append((None, None, tag))
    impl, model = framing.run_both(res, "decode", cases)
    if impl:
        for (m, view, tag), c, line in zip(meta, cases, impl):
            res.evaluations += 1
            res.count(tag)
            if tag == "decode":
                if line != view:
                    res.add_violation(dict(message=m, case=c, decoded=line, expected=view), "decoded fields differ from the encoded ones")
                if m["x"] or m["y"] or m["z"]:
                    res.nontrivial.add(c)
            else:
                if not line.startswith("err "):
                    res.add_violation(dict(case=c, decoded=line, kind=tag), "a message of another type or too short for its fields was not rejected")
            if res.evaluations % 900 == 1:
                res.sample(dict(case=c[:120], decoded=line))
    dimpl, e = common.run_lines(common.IMPL_BIN, "stdisplay", dcases)
    if e or dimpl is None or len(dimpl) != len(dcases):
        res.corr_ok = False
        res.corr_notes.append("stdisplay failed: %s" % e)
    else:
        for m, c, line in zip(dmeta, dcases, dimpl):
            res.evaluations += 1
            res.count("display")
            exp = "%s %s %s %s" % (decimal4(m["x"]), decimal4(m["y"]), decimal4(m["z"]), decimal4(m["h"]) if m["type"] == 1006 else "-")
            if line != exp:
                res.add_violation(dict(message=m, case=c, displayed=line, expected=exp), "displayed coordinates are not the encoded integer times 0.0001 m")
            if res.evaluations % 900 == 1:
                res.sample(dict(case=c[:120], displayed=line))
    return res.finish()

"""C15 - decoding and display are deterministic and free of hidden state."""
import common
import framing
import gen
import msmgen
from props import c18


def run(res, args):
    res.rule = ("batches of 3-12 frames (well-formed MSM4/MSM7 from the specification encoder, 1005/1006, random typed frames, "
                "malformed MSM frames, non-RTCM data; a quarter of the batches contain 2-5 messages of one constellation stamped within +-10 s / 30 s / 60 s of each other in arbitrary order): each frame is decoded and displayed first by a fresh handler, then after "
                "the other frames by one handler (twice over), then by 2-8 handlers in parallel goroutines in different orders, "
                "then as two copies of one message value of which one consumer displays and scribbles on its copy - all under "
                "the race detector; decoded fields, text without the time lines and raw bytes must equal the fresh result; "
                "display is repeated three times; non-trivial = a batch with at least one fully decodable message")
    res.assumptions = ["aliasing, package-level caches and races are facts about the Go heap: this part is carried by the harness "
                       "and the race detector on sampled schedules; the theorem covers the model's state independence"]
    res.trusted = ["harness: cmd/impl determ built with -race; ocaml driver msmspec/stspec/decode"]
    ok = common.step_A(res)
    if not ok:
        return res.finish()
    okr, outr = c18.build_race()
    if not okr:
        res.corr_ok = False
        res.corr_notes.append("race build failed: " + outr[-2000:])
        return res.finish()
    rng = common.rng_for(res.seed, "c15")
    nb = 150 if res.tier == "quick" else 5000
    # a pool of well-formed MSM frames from the specification encoder
    specs = [msmgen.abstract(rng)[0] for _ in range(300 if res.tier == "quick" else 2000)]
    # clusters: the same constellation's message stamped a little earlier / later / the same (observations that
    # arrive late, repeated or out of order by up to some seconds, and across the end of the week): a valid frame
    # must read the same wherever it stands in such a sequence
    import re
    nclusters = 40 if res.tier == "quick" else 600
    cluster_of = {}
    for ci in range(nclusters):
        base = specs[ci % len(specs)]
        ty = int(re.search(r"type=(\d+)", base).group(1))
        ts0 = int(re.search(r"(?<![a-z])ts=(\d+)", base).group(1))
        for _ in range(rng.randint(2, 5)):
            d = rng.choice([0, 1, -1, 1000, -1000, 3000, -3000, 9999, -9999, 10000, -10001, 30000, -60000, rng.randint(-20000, 20000)])
            if ty in (1084, 1087):
                day, ms = ts0 >> 27, ts0 & ((1 << 27) - 1)
                ts = (day << 27) | min(86399999, max(0, ms + d))
            else:
                ts = (ts0 + d) % 604800000
            cluster_of[len(specs)] = ci
            specs.append(re.sub(r"(?<![a-z])ts=\d+", "ts=%d" % ts, base))
    # pairs: an MSM7 and an MSM4 message of the same constellation about the same satellites and signals (what one
    # message says about a satellite must not colour how another message about it reads)
    npairs = 40 if res.tier == "quick" else 500
    pair_of = {}
    for pi in range(npairs):
        shape = (rng.randint(1, 8), rng.randint(1, 4))
        a = msmgen.abstract(rng, k7=True, shape=shape)[0]
        b = msmgen.abstract(rng, k7=False, shape=shape)[0]
        cons = rng.choice([1087, 1087, 1087, 1077, 1097, 1127])
        sigs = sorted(rng.sample([2, 3, 8, 9] + list(range(1, 33)), shape[1]))
        if len(set(sigs)) < shape[1]:
            sigs = sorted(rng.sample(range(1, 33), shape[1]))
        sats_tok = re.search(r"(?<![a-z])sats=\S+", a).group(0)
        sigs_tok = "sigs=" + ".".join(map(str, sigs))
        a = re.sub(r"type=\d+", "type=%d" % cons, re.sub(r"sigs=\S+", sigs_tok, a))
        b = re.sub(r"type=\d+", "type=%d" % (cons - 3), re.sub(r"sigs=\S+", sigs_tok, re.sub(r"(?<![a-z])sats=\S+", sats_tok, b)))
        if cons == 1087:
            a = re.sub(r"(?<![a-z])ts=\d+", "ts=%d" % ((rng.randint(0, 6) << 27) | rng.randint(0, 86399999)), a)
            b = re.sub(r"(?<![a-z])ts=\d+", "ts=%d" % ((rng.randint(0, 6) << 27) | rng.randint(0, 86399999)), b)
        else:
            a = re.sub(r"(?<![a-z])ts=\d+", "ts=%d" % rng.randint(0, 604799999), a)
            b = re.sub(r"(?<![a-z])ts=\d+", "ts=%d" % rng.randint(0, 604799999), b)
        for t in (a, b):
            pair_of[len(specs)] = pi
            specs.append(t)
    lines, e = common.run_lines(common.MODEL_BIN, "msmspec", ["msmspec " + t for t in specs])
    pool, clusters, pairs = [], {}, {}
    for i, line in enumerate(lines or []):
        parts = dict(p.split("=", 1) for p in line.split(" ", 3))
        if parts.get("wf") == "1":
            if i in pair_of:
                pairs.setdefault(pair_of[i], []).append(bytes.fromhex(parts["frame"]))
            elif i in cluster_of:
                clusters.setdefault(cluster_of[i], []).append(bytes.fromhex(parts["frame"]))
            else:
                pool.append(bytes.fromhex(parts["frame"]))
    clusters = [c for c in clusters.values() if len(c) >= 2]
    pairs = [c for c in pairs.values() if len(c) == 2]
    cases, frames_all = [], []
    for _ in range(nb):
        frames = []
        if clusters and rng.random() < 0.25:
            cl = list(rng.choice(clusters))
            rng.shuffle(cl)
            frames.extend(cl)
            res.count("batch containing one constellation's messages stamped within seconds of each other, in any order")
        if pairs and rng.random() < 0.25:
            a7, b4 = rng.choice(pairs)
            frames.extend(rng.choice([[b4, a7, b4], [a7, b4], [b4, a7, a7, b4]]))
            res.count("batch containing an MSM7 and an MSM4 message of one constellation about the same satellites")
        for _ in range(rng.randint(3, 12) - len(frames) if len(frames) < 3 else rng.randint(0, 4)):
            r = rng.random()
            if r < 0.4 and pool:
                frames.append(rng.choice(pool))
            elif r < 0.55:
                ty = rng.choice([1005, 1006])
                w = gen.BitWriter().u(12, ty).u(12, rng.getrandbits(12)).u(6, 1).u(4, 0).s(38, rng.getrandbits(37)).u(2, 0).s(38, -rng.getrandbits(36)).u(2, 0).s(38, rng.getrandbits(30))
                if ty == 1006:
                    w.u(16, rng.getrandbits(16))
                frames.append(gen.make_frame(w.bytes()))
            elif r < 0.75:
                frames.append(gen.rand_frame(rng, small=True))
            elif r < 0.9:
                frames.append(gen.make_frame(gen.payload_with_type(rng, rng.choice(gen.MSM), rng.randint(4, 60))))
            else:
                frames.append(gen.rand_junk(rng))
        cases.append("determ %s %s %d" % (rng.choice(["info", "debug"]), ",".join(f.hex() for f in frames), rng.choice([2, 4, 8])))
        frames_all.extend(frames)
    out, e = common.run_lines(c18.IMPL_RACE, "determ", cases, shards=12, timeout=3000)
    if e or out is None or len(out) != len(cases):
        res.add_violation(dict(error=(e or "")[-2500:]), "data race or crash while decoding/displaying concurrently (race-enabled binary)")
        return res.finish()
    for c, o in zip(cases, out):
        res.evaluations += 1
        res.traces += 1
        res.count("level:" + c.split()[1])
        if not o.startswith("ok"):
            res.add_violation(dict(case=c[:600], obs=o), "decoding or display depends on history, handler or another consumer")
        res.nontrivial.add(c)
        if res.evaluations % 40 == 1:
            res.sample(dict(case=c[:160], obs=o))
    # the state-free model agrees with the implementation on every frame of the batches
    uniq = sorted(set(frames_all))
    framing.run_both(res, "decode", ["decode auto %s" % gen.hx(f) for f in uniq])
    res.count("frames-compared-with-model", len(uniq))
    return res.finish()

"""C09 - the reader-to-sinks pipeline delivers the same messages under every schedule."""
import os
import common
import framing
import gen
from props import c18


def run(res, args):
    res.rule = ("the real appcore.HandleMessagesUntilEOF (file handler -> RTCM handler -> fan-out) under the race detector with a "
                "scripted reader (chunkings from 1 byte to whole stream, last bytes delivered with EOF, silences of 0.7 s and 1.6 s after a stray byte / inside text / inside a frame, sources with a 400 ms EOF tolerance interrupted three times), 1-4 sinks of capacity 0/1/8 with fast and slow "
                "consumers, consumers that stay away for 2.5 s, nil entries (also in front of live ones), GOMAXPROCS 1/2/4/16, the same AppCore used for one source or for two in a row (the caller then closes its channels); every non-nil sink must receive exactly the (type, raw) "
                "sequence of sequential framing; the call must return 0, no goroutine may be left, no double close, no data race; "
                "non-trivial = at least two messages and two sinks")
    res.assumptions = ["data-race freedom is the race detector's verdict on the sampled schedules, not a theorem",
                       "goroutine termination is polled (1 s) in the harness"]
    res.trusted = ["harness: cmd/impl pipeline built with -race; ocaml driver stream"]
    ok = common.step_A(res)
    if not ok:
        return res.finish()
    okr, outr = c18.build_race()
    if not okr:
        res.corr_ok = False
        res.corr_notes.append("race build failed: " + outr[-2000:])
        return res.finish()
    rng = common.rng_for(res.seed, "c09")
    n = 200 if res.tier == "quick" else 12000
    items = []
    for _ in range(n):
        r = rng.random()
        if r < 0.6:
            s = gen.mixed_stream(rng, small=True)[0]
        elif r < 0.8:
            s = gen.flatten(gen.segments(rng, small=True))
        elif r < 0.95:
            s = gen.hostile_stream(rng, rng.randint(1, 120))
        else:
            s = b""
        # chunking
        chunks, i = [], 0
        mode = rng.choice(["one", "bytes", "random"])
        while i < len(s):
            k = len(s) if mode == "one" else 1 if mode == "bytes" else rng.randint(1, 40)
            chunks.append(s[i:i + k])
            i += k
        steps = ["d:" + c.hex() for c in chunks]
        if steps and rng.random() < 0.4:
            # a reader may hand over its last bytes together with io.EOF in one call
            steps[-1] = "de:" + chunks[-1].hex()
            res.count("last chunk delivered together with EOF")
        script = ";".join(steps) or "-"
        nsinks = rng.randint(1, 4)
        sinks = ",".join(rng.choice(["0", "1", "8", "0s", "1s", "nil"]) for _ in range(nsinks))
        if all(x == "nil" for x in sinks.split(",")):
            sinks = "0"
        rounds = ""
        if rng.random() < 0.3:
            # the same AppCore takes the source twice (the input came back), then the caller closes its channels
            if rng.random() < 0.6:
                sinks = rng.choice(["nil,0,1", "0,nil,8", "nil,nil,1,0", "nil,8", "1,nil,nil,0s"])
            rounds = " 2"
            res.count("same AppCore used for two sources in a row; caller closes its channel list afterwards")
        items.append((s, "pipeline %s %s %d 0%s" % (script, sinks, rng.choice([1, 2, 4, 16]), rounds)))
    # silences of 0.7 s at places where a timer in the framer could change the segmentation: after a single stray
    # byte, inside a run of text, inside a frame ("however the bytes are chunked in time")
    for k in range(6 if res.tier == "quick" else 24):
        fr = b"".join(gen.rand_frame(rng, small=True) for _ in range(rng.randint(1, 3)))
        text = b"$GNGGA,123519,4807.038,N,01131.000,E,1,08,0.9,545.4,M,46.9,M,,*47\r\n"
        kind = k % 3
        if kind == 0:
            parts = [bytes([rng.choice([0x24, 0x41, 0x0a, 0x00])]), fr + text]
        elif kind == 1:
            cut = rng.randint(1, len(text) - 1)
            parts = [fr + text[:cut], text[cut:] + fr]
        else:
            cut = rng.randint(1, len(fr) - 1)
            parts = [text + fr[:cut], fr[cut:] + text]
        s = b"".join(parts)
        dur = 700 if k % 2 == 0 else 1600
        script = "d:%s;sleep:%d;d:%s" % (parts[0].hex(), dur, parts[1].hex())
        res.count("silence of %.1f s " % (dur / 1000.0) + ["after one stray byte", "inside text", "inside a frame"][kind])
        items.append((s, "pipeline %s %s %d 0" % (script, rng.choice(["0", "8", "1,0s", "8,nil,1"]), rng.choice([1, 4]))))
    # a source with a non-zero EOF tolerance that is interrupted more than once (single and double end-of-file / timeout
    # results, data in between, also inside frames): every interruption is waited out, all consumers get the whole stream
    for k in range(6 if res.tier == "quick" else 40):
        fr = [gen.rand_frame(rng, small=True) for _ in range(rng.randint(3, 5))]
        s = b"".join(fr)
        cuts = sorted(rng.sample(range(1, len(s)), 3))
        pieces = [s[:cuts[0]], s[cuts[0]:cuts[1]], s[cuts[1]:cuts[2]], s[cuts[2]:]]
        steps = []
        for i, pc in enumerate(pieces):
            steps.append("d:" + pc.hex())
            if i < len(pieces) - 1:
                steps += [rng.choice(["eof", "timeout"]) for _ in range([2, 2, 1][(i + k) % 3])]
        res.count("EOF tolerance 400 ms, three interruptions (double, double, single in some order)")
        items.append((s, "pipeline %s %s %d 400" % (";".join(steps), rng.choice(["0", "1,0s", "8,nil,0"]), rng.choice([1, 4]))))
    # a tolerance, a consumer that stays away for 2.5 s (longer than the tolerance) and an interruption right after the
    # burst the reader is blocked on: time spent waiting for a consumer is not silence of the source
    for k in range(3 if res.tier == "quick" else 12):
        fr = [gen.rand_frame(rng, small=True) for _ in range(5)]
        s = b"".join(fr)
        # the burst ends one or two bytes into the fourth frame
        # (message 1 is delivered and the consumer goes away; message 2 waits in the fan-out, message 3 in the framer;
        # the byte after the third frame is the one the reader cannot hand over)
        cut = len(fr[0]) + len(fr[1]) + len(fr[2]) + [1, 1, 2][k % 3]
        res.count("EOF tolerance 400 ms, a consumer away for 2.5 s, interruption at the end of the burst it blocks")
        items.append((s, "pipeline d:%s;%s;d:%s %s %d 400" % (s[:cut].hex(), ["eof", "timeout;eof"][k % 2], s[cut:].hex(), ["0S", "0S,1"][k % 2], rng.choice([1, 4]))))
    # a consumer that stays away from its channel for 2.5 s (a writer stuck in a slow Write): the fan-out must wait
    for k in range(2 if res.tier == "quick" else 8):
        fr = [gen.rand_frame(rng, small=True) for _ in range(rng.randint(3, 5))]
        s = b"$GP,1*00\r\n".join(fr)
        res.count("a consumer that stays away for 2.5 s after its first message")
        items.append((s, "pipeline d:%s %s %d 0" % (s.hex(), ["0S,0", "1,0S,8"][k % 2], rng.choice([1, 4]))))
    cases = [c for _, c in items]
    exp_lines, e0 = common.run_lines(common.MODEL_BIN, "stream", ["stream %d debug %s" % (framing.T0, gen.hx(s)) for s, _ in items])
    iml, e1 = common.run_lines(common.IMPL_BIN, "stream", ["stream %d debug %s" % (framing.T0, gen.hx(s)) for s, _ in items])
    if exp_lines and iml:
        for (s, c), a, b in zip(items, exp_lines, iml):
            if a != b:
                res.corr_ok = False
                res.corr_notes.append(dict(case=c[:200], impl=b[:200], model=a[:200]))
    out, e = common.run_lines(c18.IMPL_RACE, "pipeline", cases, shards=12, timeout=3000)
    if e or out is None or len(out) != len(cases):
        res.add_violation(dict(error=(e or "")[-2500:], n=len(cases)), "data race, crash or lost output in the pipeline run (race-enabled binary)")
        return res.finish()
    for (s, c), o, el in zip(items, out, exp_lines or []):
        res.evaluations += 1
        res.traces += 1
        res.count("gomaxprocs=" + c.split()[3])
        if o in ("hang", "panic"):
            res.add_violation(dict(case=c[:300], obs=o), "the pipeline did not return normally (deadlock, double close or panic)")
            continue
        exp = ";".join("%d,%s" % (m["type"], m["raw"]) for m in (framing.parse_stream_obs(el) or [])) or "-"
        rounds = int(c.split()[5]) if len(c.split()) > 5 else 1
        if rounds > 1 and exp != "-":
            exp = ";".join([exp] * rounds)
        parts = dict(p.split("=", 1) for p in o.split(" "))
        if parts.get("close") == "twice":
            res.add_violation(dict(case=c[:300], obs=o[:200]),
                              "a channel would be closed twice: after the call the list handed to appcore.New names a consumer twice, and a caller that closes its channels (as rtcmfilter does) panics")
        if parts["ret"] != "0":
            res.add_violation(dict(case=c[:300], obs=o[:200]), "HandleMessagesUntilEOF did not return 0")
        for k, v in parts.items():
            if k.startswith("sink") and v != "nil" and v != exp:
                res.add_violation(dict(case=c[:300], sink=k, received=v[:300], expected=exp[:300]),
                                  "a consumer did not receive the message sequence of sequential framing")
                break
        if parts["goroutines"] != "0":
            res.add_violation(dict(case=c[:300], leaked=parts["goroutines"]), "helper goroutines were still running after the call returned")
        if exp.count(";") >= 1 and c.split()[2].count(",") >= 1:
            res.nontrivial.add(c)
        if res.evaluations % 50 == 1:
            res.sample(dict(case=c[:160], obs=o[:200]))
    return res.finish()

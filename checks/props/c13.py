"""C13 - transient end-of-file or read timeouts on the input lose and duplicate nothing."""
import common
import framing
import gen

TOL = 400  # ms (wide margin: a loaded machine must not turn a transient interruption into a lasting one)


def split_at(rng, data, k):
    cuts = sorted(rng.sample(range(1, len(data)), min(k, len(data) - 1))) if len(data) > 1 else []
    out, prev = [], 0
    for c in cuts:
        out.append(data[prev:c])
        prev = c
    out.append(data[prev:])
    return [p for p in out if p]


def gen_case(rng):
    """Returns (script string, tolerance, class, index of the stopping step or None, data chunks)."""
    nfr = rng.randint(1, 4)
    segs = []
    for _ in range(nfr):
        segs.append(gen.rand_frame(rng, small=True) if rng.random() < 0.8 else gen.rand_junk(rng))
    data = b"".join(segs)
    r = rng.random()
    # positions: between frames and inside frames at phase boundaries (after 1, 3, 5 bytes of a frame, inside payload, inside CRC)
    cut_positions = set()
    pos = 0
    for s in segs:
        for off in (0, 1, 3, 5, len(s) // 2, len(s) - 2):
            if 0 < pos + off < len(data):
                cut_positions.add(pos + off)
        pos += len(s)
    cuts = sorted(rng.sample(sorted(cut_positions), min(len(cut_positions), rng.randint(1, 3)))) if cut_positions else []
    chunks, prev = [], 0
    for c in cuts:
        chunks.append(data[prev:c])
        prev = c
    chunks.append(data[prev:])
    chunks = [c for c in chunks if c]
    steps = []
    if r < 0.07 and len(chunks) >= 2:
        # ONE interruption that is reported late: the failing Read itself blocked for longer than the tolerance
        # (a serial read deadline longer than the EOF tolerance), after which the source resumes at once
        k = rng.randint(1, len(chunks) - 1)
        for i, c in enumerate(chunks):
            if i == k:
                steps += ["sleep:%d" % int(1.5 * TOL), rng.choice(["eof", "timeout"])]
            steps.append("d:" + c.hex())
        return ";".join(steps), TOL, "resume", len(data)
    if r < 0.45:
        # transient interruptions, all within tolerance: delivered = uninterrupted stream
        # configurations: the usual one (wait much shorter than the tolerance); a wait longer than the tolerance
        # (single interruptions only: the retry itself outlasts the tolerance, but the source has resumed by
        # then); a wait of more than half the tolerance (double interruptions: 700 ms + the second look at the
        # clock are within 1200 ms with a wide margin)
        cfg = rng.random()
        tol, wait, maxk = (TOL, 1, 2) if cfg < 0.7 else (120, 200, 1) if cfg < 0.85 else (1200, 700, 2)
        if wait != 1:
            chunks = chunks[:3]
            data = b"".join(chunks)
        # data may keep flowing for longer than the tolerance between two separate interruptions (each interruption
        # is judged by its own clock): now and then the source takes 1.5x the tolerance to produce a chunk
        lull = wait == 1 and rng.random() < 0.35
        if rng.random() < 0.25:
            # the source is not ready yet when the handler starts: end-of-file / timeout results before the first byte
            steps += [rng.choice(["eof", "timeout"]) for _ in range(1 if maxk == 1 else rng.choice([1, 2]))]
        for i, c in enumerate(chunks):
            if lull and i >= 1 and rng.random() < 0.6:
                steps.append("sleep:%d" % int(1.5 * tol))
            if rng.random() < 0.3:
                # the reader hands over the bytes and io.EOF in one Read call (legal for an io.Reader)
                steps.append("de:" + c.hex())
                if i < len(chunks) - 1 and rng.random() < 0.5 and maxk > 1:
                    steps.append(rng.choice(["eof", "timeout"]))
                continue
            steps.append("d:" + c.hex())
            if i < len(chunks) - 1:
                k = rng.choice([1, 1, 2]) if maxk > 1 else 1
                steps += [rng.choice(["eof", "timeout"]) for _ in range(k)]
        return ";".join(steps), tol, "resume", len(data), wait
    if r < 0.6:
        # tolerance zero: the first EOF/timeout stops
        stop_after = rng.randint(1, len(chunks))
        for i, c in enumerate(chunks):
            steps.append("d:" + c.hex())
            if i + 1 == stop_after:
                steps.append(rng.choice(["eof", "timeout"]))
        return ";".join(steps), 0, "zero-tolerance", sum(len(c) for c in chunks[:stop_after])
    if r < 0.8:
        # another read error anywhere
        stop_after = rng.randint(0, len(chunks))
        tol = rng.choice([0, TOL])
        # with a non-zero tolerance the error may also come while an interruption is being waited out
        # (end-of-file or timeout results first, then the hard error): it must still stop the handler
        pre = [rng.choice(["eof", "timeout"]) for _ in range(rng.choice([0, 0, 1, 1, 2]))] if tol else []
        if stop_after == 0:
            steps += pre + ["err"]
        for i, c in enumerate(chunks):
            steps.append("d:" + c.hex())
            if i + 1 == stop_after:
                steps += pre + ["err"]
        return ";".join(steps), tol, "other-error", sum(len(c) for c in chunks[:stop_after])
    # silence beyond the tolerance after some chunk: EOF, a long pause, EOF, EOF ...
    stop_after = rng.randint(1, len(chunks))
    for i, c in enumerate(chunks):
        steps.append("d:" + c.hex())
        if i + 1 == stop_after:
            kinds = rng.choice([["eof"] * 5, ["timeout"] * 5, ["eof", "timeout", "eof", "timeout", "eof"], ["timeout", "eof", "timeout", "eof", "timeout"]])
            steps += [kinds[0], "sleep:%d" % (4 * TOL)] + kinds[1:]
    return ";".join(steps), TOL, "silent-beyond-tolerance", sum(len(c) for c in chunks[:stop_after])


def run(res, args):
    res.rule = ("the real filehandler.Handle behind bufio.Reader over a scripted io.Reader: single and double EOF / 'i/o timeout' "
                "results between frames and inside frames at the phase boundaries (after 1, 3, 5 bytes, mid-payload, inside the "
                "CRC), tolerance zero, other read errors at any position, silence of 4x the tolerance; tolerance 400 ms, wait "
                "1 ms (also: wait 200 ms > tolerance 120 ms with single interruptions, wait 700 ms > half the tolerance 1200 ms with double ones), pauses either 0 or 4x the tolerance; non-trivial = an interruption inside a frame")
    res.assumptions = ["wall-clock behaviour between the margins (pauses of 0 or >= 4x the tolerance) is not explored",
                       "the model's clock is driven by the script's pauses and the loop's own sleeps"]
    res.trusted = ["harness: cmd/impl eofretry (scripted reader); ocaml driver eofretry"]
    ok = common.step_A(res)
    if not ok:
        return res.finish()
    rng = common.rng_for(res.seed, "c13")
    n = 150 if res.tier == "quick" else 4000
    gens = [gen_case(rng) for _ in range(n)]
    cases = ["eofretry %s %d %d" % (g[0], g[1], g[4] if len(g) > 4 else 1) for g in gens]
    impl, model = framing.run_both(res, "eofretry", cases, timeout=3000, shards=14)
    # expected: sequential framing of the bytes supplied before the stop
    streams = []
    for script, tol, cls, nbytes in [g[:4] for g in gens]:
        data = b"".join(bytes.fromhex(s.split(":", 1)[1]) for s in script.split(";") if s.startswith(("d:", "de:")))
        streams.append(data[:nbytes])
    exp_lines, e = common.run_lines(common.MODEL_BIN, "stream", ["stream %d debug %s" % (framing.T0, gen.hx(s)) for s in streams])
    if impl and exp_lines:
        for (script, tol, cls, nbytes), c, line, el in zip([g[:4] for g in gens], cases, impl, exp_lines):
            res.evaluations += 1
            res.count(cls)
            res.count("tolerance %s ms, wait %s ms" % tuple(c.split()[2:4]))
            if line in ("hang", "panic"):
                res.add_violation(dict(case=c[:300], obs=line), "the file handler did not return normally")
                continue
            parts = dict(p.split("=", 1) for p in line.split(" "))
            exp = ";".join("%d,%s" % (m["type"], m["raw"]) for m in (framing.parse_stream_obs(el) or [])) or "-"
            if parts["msgs"] != exp:
                res.add_violation(dict(case=c[:400], kind=cls, delivered=parts["msgs"][:300], expected=exp[:300]),
                                  "delivered messages differ from those of the uninterrupted data received before the stop")
            if parts["closed"] != "1":
                res.add_violation(dict(case=c[:300], kind=cls), "the output channel was not closed after the handler stopped")
            want_err = {"resume": ("eof",), "zero-tolerance": ("eof", "timeout"), "other-error": ("other",), "silent-beyond-tolerance": ("eof", "timeout")}[cls]
            if parts["err"] not in want_err:
                res.add_violation(dict(case=c[:300], kind=cls, returned=parts["err"]), "the handler stopped for the wrong reason")
            if cls == "resume":
                res.nontrivial.add(c)
            if res.evaluations % 40 == 1:
                res.sample(dict(case=c[:160], obs=line[:160]))
    return res.finish()

"""C06 - MSM timestamps are converted to the true UTC time across week rollovers.
   (also used by C17 with need_after = False)"""
import common
import framing
import gen
import timegen


def run_time_property(res, need_after, tag):
    ok = common.step_A(res)
    if not ok:
        return res.finish()
    rng = common.rng_for(res.seed, tag)
    mult = 1 if res.tier == "quick" else 60
    if not (res.proof_ok and res.corr_ok):
        mult *= 5
    hs = [timegen.history(rng, need_after) for _ in range(1500 * mult)]
    # live starts (C17): the handler is created with the wall clock's "now" and the first observations lie earlier or
    # later in the current week; skipped when a constellation's week changes within the next half hour
    import time as _time
    live = set()
    now = _time.time_ns()
    if not need_after and all(timegen.week_start(c, now) == timegen.week_start(c, now + 1800 * timegen.NS) for c in timegen.CONS):
        for _ in range(40 * mult):
            live.add(len(hs))
            hs.append(timegen.history(rng, need_after, T=now))
    spec_cases = ["histspec %d %d %s" % (1 if need_after else 0, T, " ".join(evs)) for T, evs in hs if evs]
    live = set(k for k, i in enumerate(i for i, h in enumerate(hs) if h[1]) if i in live)
    hs = [h for h in hs if h[1]]
    spec, e = common.run_lines(common.MODEL_BIN, "histspec", spec_cases)
    if e or spec is None or len(spec) != len(spec_cases):
        res.corr_ok = False
        res.corr_notes.append("histspec failed: %s" % e)
        return res.finish()
    cases, meta = [], []
    for hidx, ((T, evs), line) in enumerate(zip(hs, spec)):
        parts = dict(p.split("=", 1) for p in line.split(" "))
        if parts["adm"] != "1":
            res.count("inadmissible-dropped")
            continue
        for mode in ("getmsg", "stream"):
            tz = rng.choice([0, 0, 3600, -18000, 19800, 3 * 3600])
            lvl = rng.choice(["debug", "info"])
            frames_hex = timegen.restamp_stations(rng, parts["frames"]) if rng.random() < 0.5 else parts["frames"]
            cases.append("hist %d %s %s %s %d%s" % (T, lvl, mode, frames_hex, tz, " live" if hidx in live else ""))
            if hidx in live:
                res.count("live start: handler created with the wall clock's now")
            meta.append((T, evs, parts["exp"].split(";"), mode))
    impl, model = framing.run_both(res, "hist", cases)
    if impl:
        for (T, evs, exp, mode), c, line in zip(meta, cases, impl):
            res.evaluations += 1
            res.count("mode:" + mode)
            res.count("events:%d" % min(40, (len(evs) // 10) * 10))
            if line in ("panic", "hang"):
                res.add_violation(dict(T=T, events=evs, mode=mode, obs=line), "handler did not return normally")
                continue
            reps = line.split(";")
            if len(reps) != len(evs):
                res.add_violation(dict(T=T, events=evs, mode=mode, obs=line), "wrong number of messages")
                continue
            rolled = len(set(x.split(",")[1] for x in exp if x != "E,-")) > len(set(e[1] for e in evs if e[0] == "O"))
            for i, (ev, x, r) in enumerate(zip(evs, exp, reps)):
                sent, sow = r.split(",")
                if x == "E,-":
                    if not sent.startswith("E:"):
                        res.add_violation(dict(T=T, events=evs[:i + 1], mode=mode, index=i, reported=r),
                                          "illegal timestamp not reported as an error")
                        break
                else:
                    if r != x:
                        res.add_violation(dict(T=T, events=evs[:i + 1], mode=mode, index=i, reported=r, true=x),
                                          "reported time / start of week differ from the true ones")
                        break
            if len(evs) > 1:
                res.nontrivial.add((T, tuple(evs)))
            if rolled:
                res.count("crosses-rollover")
            if res.evaluations % 500 == 1:
                res.sample(dict(T=T, events=evs[:6], mode=mode, reported=reps[:6]))
    return res.finish()


def run(res, args):
    res.rule = ("histories generated from true instants: start time anywhere in 2017-2030 (40% within seconds of a constellation "
                "rollover, sub-millisecond parts, several time zones), 1-40 events over 1-4 constellations, MSM4/MSM7 mixed, steps "
                "from 0 ms to just under 6 days, rollover-aimed steps, illegal timestamps inserted; admissibility checked by the "
                "extracted predicate; each history is run through GetMessage and through HandleMessages; non-trivial = more "
                "than one event")
    res.assumptions = ["SentAt/StartOfWeek are parsed back with utils.DateLayout (formatting is not modelled)",
                       "no leap seconds, as in Go's time package"]
    res.trusted = ["harness: cmd/impl hist; ocaml driver histspec/hist", "extraction: ExtrOcamlBasic only"]
    return run_time_property(res, True, "c06")
